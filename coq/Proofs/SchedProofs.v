(* Proofs for C13: every program accepted by the checker keeps the trace monitor happy under
   every schedule, for any number of statements and flusher iterations (invariant over the
   reachable states of Model/Sched.v); `safe` implies the declarative statement-boundary form. *)
From Coq Require Import List Bool Arith Lia.
From Mkdb Require Import Model.Sched Spec.SchedSpec.
Import ListNotations.

(* ------------------------------------------------------------------------------------ *)
(* checker: continuation stacks                                                          *)
(* ------------------------------------------------------------------------------------ *)
Fixpoint ok_stack (fin : lst -> bool) (k : list prog) (a : lst) : bool :=
  match k with
  | [] => fin a
  | p :: r => chkk p (ok_stack fin r) a
  end.

Lemma lst_eqb_eq : forall a b, lst_eqb a b = true -> a = b.
Proof.
  intros [x| |x] [y| |y]; simpl; try discriminate; try reflexivity;
    intro H; apply Bool.eqb_prop in H; subst; reflexivity.
Qed.

Lemma lst_eqb_refl : forall a, lst_eqb a a = true.
Proof. intros [x| |x]; simpl; auto using Bool.eqb_reflx. Qed.

Lemma chkk_mono : forall p k1 k2 a,
  (forall b, k1 b = true -> k2 b = true) -> chkk p k1 a = true -> chkk p k2 a = true.
Proof.
  induction p; intros k1 k2 s Hk H; simpl in *.
  - destruct (act_chk s a); [auto|discriminate].
  - eapply IHp1; [|exact H]. intros b Hb. eapply IHp2; eauto.
  - apply andb_true_iff in H as [H1 H2]. apply andb_true_iff; split; auto.
  - apply andb_true_iff in H as [H1 H2]. apply andb_true_iff; split; eauto.
  - auto.
Qed.

Lemma tnext_done : forall k c, tnext k c = TDone -> k = [].
Proof. intros [|[a|p q|p|p q|] r] c; simpl; intro H; try discriminate; try reflexivity; destruct c; discriminate. Qed.

Lemma tnext_tau_ok : forall fin k c k' a,
  tnext k c = TTau k' -> ok_stack fin k a = true -> ok_stack fin k' a = true.
Proof.
  intros fin [|[x|p q|p|p q|] r] c k' a; simpl; intros H Hok; try discriminate.
  - inversion H; subst; simpl. exact Hok.
  - apply andb_true_iff in Hok as [Hexit Hbody].
    destruct c; inversion H; subst; simpl; auto.
    eapply chkk_mono; [|exact Hbody].
    intros b Hb. apply lst_eqb_eq in Hb; subst b.
    apply andb_true_iff; split; assumption.
  - apply andb_true_iff in Hok as [H1 H2].
    destruct c; inversion H; subst; simpl; assumption.
  - inversion H; subst. exact Hok.
Qed.

Lemma tnext_act_ok : forall fin k c x k' a,
  tnext k c = TAct x k' -> ok_stack fin k a = true ->
  exists b, act_chk a x = Some b /\ ok_stack fin k' b = true.
Proof.
  intros fin [|[y|p q|p|p q|] r] c x k' a; simpl; intros H Hok; try discriminate;
    try (destruct c; discriminate).
  inversion H; subst. destruct (act_chk a x) as [b|]; [eauto|discriminate].
Qed.

(* the flusher never enters (or has left) a shared section *)
Definition rank (a : lst) : bool := match a with Idle b => b | InSh => true | InEx b => b end.
Definition finF (b : lst) : bool := lst_eqb b (Idle false).

Lemma act_rank : forall a x b, act_chk a x = Some b -> rank a = true -> rank b = true.
Proof. intros [[|]| |[|]] x b; destruct x; simpl; intros H R; inversion H; subst; auto. Qed.

Lemma chkk_rank : forall p k a, rank a = true -> chkk p k a = true ->
  exists b, rank b = true /\ k b = true.
Proof.
  induction p; intros k s R H; simpl in *.
  - destruct (act_chk s a) as [b|] eqn:E; [|discriminate]. exists b; split; eauto using act_rank.
  - destruct (IHp1 _ _ R H) as [b [Rb Hb]]. eauto.
  - apply andb_true_iff in H as [H1 _]. eauto.
  - apply andb_true_iff in H as [H1 _]. eauto.
  - eauto.
Qed.

Lemma stack_rank : forall r a, ok_stack finF r a = true -> rank a = false.
Proof.
  induction r as [|p r IH]; intros a H; simpl in H.
  - apply lst_eqb_eq in H; subst; reflexivity.
  - destruct (rank a) eqn:R; [|reflexivity].
    destruct (chkk_rank _ _ _ R H) as [b [Rb Hb]]. apply IH in Hb. congruence.
Qed.

(* ------------------------------------------------------------------------------------ *)
(* the invariant                                                                         *)
(* ------------------------------------------------------------------------------------ *)
Definition hold_of (a : lst) : hold :=
  match a with Idle _ => HNone | InSh => HSh | InEx _ => HEx end.

Definition mutex_agrees (mx : rwmutex) (h1 h2 : hold) : Prop :=
  readers mx = (if hold_eqb h1 HSh then 1 else 0) + (if hold_eqb h2 HSh then 1 else 0) /\
  writer mx = (hold_eqb h1 HEx || hold_eqb h2 HEx) /\
  (h1 = HEx -> h2 = HNone) /\ (h2 = HEx -> h1 = HNone).

Definition Inv (s : sys) (m : mon) : Prop :=
  exists a_s a_f,
    ok_stack is_idle (sess s) a_s = true /\
    Forall (fun p => well_bracketed p = true) (todo s) /\
    ok_stack finF (flus s) a_f = true /\
    hs m = hold_of a_s /\ hf m = hold_of a_f /\
    mutex_agrees (mtx s) (hs m) (hf m) /\
    (opened m = true -> a_s = InSh) /\
    (closed m = true -> a_s = Idle true \/ a_s = InEx true).

Fixpoint mon_steps (m : mon) (es : list event) : option mon :=
  match es with
  | [] => Some m
  | e :: r => match mon_step m e with Some m' => mon_steps m' r | None => None end
  end.

Lemma mon_run_app : forall es1 es2 m,
  mon_run m (es1 ++ es2) =
  match mon_steps m es1 with Some m' => mon_run m' es2 | None => false end.
Proof.
  induction es1 as [|e r IH]; intros es2 m; simpl; [reflexivity|].
  destruct (mon_step m e); [apply IH|reflexivity].
Qed.

Lemma inv_init : forall stmts fl,
  Forall (fun p => well_bracketed p = true) stmts -> flusher_ok fl = true ->
  Inv (init stmts fl) mon0.
Proof.
  intros stmts fl Hs Hf. exists (Idle false), (Idle false). simpl.
  repeat split; auto; try discriminate.
Qed.

Ltac inv_some :=
  repeat match goal with
  | H : Some _ = Some _ |- _ => inversion H; clear H; subst
  | H : (_, _) = (_, _) |- _ => inversion H; clear H; subst
  end.

(* one action of the session thread *)
Lemma session_act : forall mx m a_s a_f x b,
  act_chk a_s x = Some b ->
  rank a_f = false ->
  hs m = hold_of a_s -> hf m = hold_of a_f ->
  mutex_agrees mx (hs m) (hf m) ->
  (opened m = true -> a_s = InSh) ->
  (closed m = true -> a_s = Idle true \/ a_s = InEx true) ->
  lock_enabled mx x = true ->
  exists m', mon_step m (Ev Session x) = Some m' /\
    hs m' = hold_of b /\ hf m' = hold_of a_f /\
    mutex_agrees (lock_apply mx x) (hs m') (hf m') /\
    (opened m' = true -> b = InSh) /\
    (closed m' = true -> b = Idle true \/ b = InEx true).
Proof.
  intros mx [h1 h2 op cl] a_s a_f x b Hact Rf Hhs Hhf [Hr [Hw [E1 E2]]] Hop Hcl Hen.
  simpl in *. subst h1 h2.
  destruct mx as [rd wr]; simpl in *.
  destruct a_s as [[|]| |[|]]; destruct x; simpl in Hact; try discriminate; inv_some;
    destruct a_f as [[|]| |[|]]; simpl in Rf; try discriminate; simpl in *;
    try (specialize (E2 eq_refl); discriminate);
    try (specialize (E1 eq_refl); discriminate);
    try (subst; simpl in Hen; discriminate Hen);
    destruct op; try (specialize (Hop eq_refl); discriminate);
    destruct cl; try (destruct (Hcl eq_refl); discriminate);
    simpl;
    (eexists; split; [reflexivity|]; simpl;
     repeat split; auto; try discriminate; try lia; try (intros; discriminate)).
Qed.

(* one action of the flusher thread *)
Lemma flusher_act : forall mx m a_s a_f x b,
  act_chk a_f x = Some b ->
  rank a_f = false -> rank b = false ->
  hs m = hold_of a_s -> hf m = hold_of a_f ->
  mutex_agrees mx (hs m) (hf m) ->
  (opened m = true -> a_s = InSh) ->
  (closed m = true -> a_s = Idle true \/ a_s = InEx true) ->
  lock_enabled mx x = true ->
  exists m', mon_step m (Ev Flusher x) = Some m' /\
    hs m' = hold_of a_s /\ hf m' = hold_of b /\
    mutex_agrees (lock_apply mx x) (hs m') (hf m') /\
    opened m' = opened m /\ closed m' = closed m.
Proof.
  intros mx [h1 h2 op cl] a_s a_f x b Hact Rf Rb Hhs Hhf [Hr [Hw [E1 E2]]] Hop Hcl Hen.
  simpl in *. subst h1 h2.
  destruct mx as [rd wr]; simpl in *.
  destruct a_f as [[|]| |[|]]; simpl in Rf; try discriminate;
    destruct x; simpl in Hact; try discriminate; inv_some; simpl in Rb; try discriminate;
    destruct a_s as [[|]| |[|]]; simpl in *;
    try (specialize (E2 eq_refl); discriminate);
    try (specialize (E1 eq_refl); discriminate);
    try (subst; simpl in Hen; discriminate Hen);
    destruct op; try (specialize (Hop eq_refl); discriminate);
    simpl;
    (eexists; split; [reflexivity|]; simpl;
     repeat split; auto; try discriminate; try lia; try (intros; discriminate)).
Qed.

Lemma step_inv : forall s m t c s' es,
  Inv s m -> step s t c = (s', es) ->
  exists m', mon_steps m es = Some m' /\ Inv s' m'.
Proof.
  intros s m t c s' es (a_s & a_f & Hs & Htd & Hf & Hhs & Hhf & Hmx & Hop & Hcl) Hstep.
  pose proof (stack_rank _ _ Hf) as Rf.
  unfold step in Hstep. destruct t.
  - (* session *)
    destruct (tnext (sess s) c) as [|k|x k] eqn:Hn.
    + apply tnext_done in Hn.
      destruct (todo s) as [|p r] eqn:Htodo; inv_some.
      * exists m; split; [reflexivity|]. exists a_s, a_f. repeat split; auto.
        rewrite Htodo; assumption. all: try apply Hmx.
      * (* next statement *)
        rewrite Hn in Hs. simpl in Hs.
        assert (Hh : hs m = HNone) by (rewrite Hhs; destruct a_s; simpl in *; try discriminate; reflexivity).
        simpl. rewrite Hh. simpl.
        eexists; split; [reflexivity|].
        inversion Htd; subst.
        exists (Idle false), a_f. simpl. repeat split; auto; try discriminate.
        all: try (rewrite Hh in Hmx; apply Hmx).
    + inv_some. exists m; split; [reflexivity|]. exists a_s, a_f. simpl.
      repeat split; auto; try apply Hmx. eapply tnext_tau_ok; eauto.
    + destruct (lock_enabled (mtx s) x) eqn:Hen; inv_some.
      * destruct (tnext_act_ok _ _ _ _ _ _ Hn Hs) as [b [Hact Hk]].
        destruct (session_act (mtx s) m a_s a_f x b Hact Rf Hhs Hhf Hmx Hop Hcl Hen)
          as (m' & Hm & H1 & H2 & H3 & H4 & H5).
        exists m'; split; [cbn [mon_steps]; rewrite Hm; reflexivity|].
        exists b, a_f. simpl. repeat split; auto; apply H3.
      * exists m; split; [reflexivity|]. exists a_s, a_f. repeat split; auto; apply Hmx.
  - (* flusher *)
    destruct (tnext (flus s) c) as [|k|x k] eqn:Hn.
    + inv_some. exists m; split; [reflexivity|]. exists a_s, a_f. repeat split; auto; apply Hmx.
    + inv_some. exists m; split; [reflexivity|]. exists a_s, a_f. simpl.
      repeat split; auto; try apply Hmx. eapply tnext_tau_ok; eauto.
    + destruct (lock_enabled (mtx s) x) eqn:Hen; inv_some.
      * destruct (tnext_act_ok _ _ _ _ _ _ Hn Hf) as [b [Hact Hk]].
        pose proof (stack_rank _ _ Hk) as Rb.
        destruct (flusher_act (mtx s) m a_s a_f x b Hact Rf Rb Hhs Hhf Hmx Hop Hcl Hen)
          as (m' & Hm & H1 & H2 & H3 & H4 & H5).
        exists m'; split; [cbn [mon_steps]; rewrite Hm; reflexivity|].
        exists a_s, b. simpl. rewrite H4, H5. repeat split; auto; apply H3.
      * exists m; split; [reflexivity|]. exists a_s, a_f. repeat split; auto; apply Hmx.
Qed.

Lemma run_from_safe : forall sch s m,
  Inv s m -> mon_run m (snd (run_from s sch)) = true.
Proof.
  induction sch as [|[t c] r IH]; intros s m HI; simpl; [reflexivity|].
  destruct (step s t c) as [s1 e] eqn:Hst.
  destruct (run_from s1 r) as [s2 es] eqn:Hr. simpl.
  destruct (step_inv _ _ _ _ _ _ HI Hst) as [m' [Hm HI']].
  rewrite mon_run_app, Hm.
  specialize (IH s1 m' HI'). rewrite Hr in IH. exact IH.
Qed.

(* the reachable-state invariant also says the model never needs the "unlock of an unheld
   mutex" case and that the two threads never hold the lock in conflicting modes *)
Theorem exclusion : forall stmts fl,
  Forall (fun p => well_bracketed p = true) stmts -> flusher_ok fl = true ->
  forall sch, safe (run stmts fl sch) = true.
Proof.
  intros stmts fl Hs Hf sch. unfold safe, run.
  apply run_from_safe. apply inv_init; assumption.
Qed.

(* ------------------------------------------------------------------------------------ *)
(* safe  =>  declarative statement-boundary form                                         *)
(* ------------------------------------------------------------------------------------ *)
Lemma closed_persists : forall mid m e2 post,
  closed m = true -> ~ In Boundary mid -> sess_change_or_log e2 = true ->
  mon_run m (mid ++ e2 :: post) = false.
Proof.
  induction mid as [|x mid IH]; intros m e2 post Hc Hnb He2; simpl.
  - destruct e2 as [[|] [| | | | | | | |]|]; simpl in He2; try discriminate; simpl; rewrite Hc; simpl;
      rewrite ?andb_false_r; reflexivity.
  - destruct (mon_step m x) as [m'|] eqn:Hst; [|reflexivity].
    apply IH; auto.
    + destruct x as [t a|]; [|exfalso; apply Hnb; left; reflexivity].
      destruct m as [h1 h2 op cl]; simpl in Hc; subst cl.
      destruct a; simpl in Hst; rewrite ?andb_false_r in Hst; try discriminate;
        repeat match type of Hst with
        | (if ?c then _ else _) = _ => destruct c; try discriminate
        end; inv_some; destruct t; destruct op; simpl; reflexivity.
    + intro Hin; apply Hnb; right; exact Hin.
Qed.

Lemma open_window : forall mid m e2 post,
  opened m = true -> closed m = false -> ~ In Boundary mid -> sess_change_or_log e2 = true ->
  mon_run m (mid ++ e2 :: post) = true ->
  Forall (fun e => is_write_ev e = false) mid.
Proof.
  induction mid as [|x mid IH]; intros m e2 post Ho Hc Hnb He2 Hrun; [constructor|].
  simpl in Hrun. destruct (mon_step m x) as [m'|] eqn:Hst; [|discriminate].
  assert (Hnb' : ~ In Boundary mid) by (intro Hin; apply Hnb; right; exact Hin).
  destruct x as [t a|]; [|exfalso; apply Hnb; left; reflexivity].
  destruct m as [h1 h2 op cl]; simpl in Ho, Hc; subst op cl.
  assert (Hw : is_write_ev (Ev t a) = false).
  { destruct a; simpl; try reflexivity; simpl in Hst; rewrite andb_false_r in Hst; discriminate. }
  constructor; [exact Hw|].
  (* after x the window is still open, or it has been closed and e2 would be rejected *)
  destruct (closed m') eqn:Hc'.
  - rewrite closed_persists in Hrun; auto; discriminate.
  - assert (Ho' : opened m' = true).
    { destruct a; simpl in Hst;
        repeat match type of Hst with
        | (if ?c then _ else _) = _ => destruct c eqn:?; try discriminate
        end; inv_some; destruct t; simpl in *; try reflexivity; try discriminate. }
    eapply IH; eauto.
Qed.

Lemma after_change_open : forall m e1 m',
  sess_change e1 = true -> mon_step m e1 = Some m' -> opened m' = true /\ closed m' = false.
Proof.
  intros m e1 m' H1 Hst. destruct e1 as [[|] [| | | | | | | |]|]; simpl in H1; try discriminate;
    simpl in Hst;
    match type of Hst with (if ?c then _ else _) = _ => destruct c; try discriminate end;
    inv_some; simpl; auto.
Qed.

Lemma safe_no_write_inside : forall tr, safe tr = true -> no_write_inside_statement tr.
Proof.
  intros tr Hs pre e1 mid e2 post Htr H1 H2 Hnb. subst tr.
  unfold safe in Hs. rewrite mon_run_app in Hs.
  destruct (mon_steps mon0 pre) as [m|]; [|discriminate].
  simpl in Hs. destruct (mon_step m e1) as [m1|] eqn:Hst; [|discriminate].
  destruct (after_change_open _ _ _ H1 Hst) as [Ho Hc].
  eapply open_window; eauto.
Qed.
