(* C10, second part: INSERT / UPDATE / DELETE / CREATE / USE / SHOW, the statement-level round
   trip, completeness of the comma separated lists, keyword case, AND-under-OR. *)
From Coq Require Import ZArith String Ascii List Bool Lia.
From Mkdb Require Import Gen.Params Model.Value Model.Ast Model.Lexer Model.Parser Spec.ParseSpec Proofs.ParserTotal
  Proofs.ParserFaithful.
Import ListNotations.
Local Open Scope list_scope.

Local Arguments val_of : simpl never.
Local Arguments require_int : simpl never.
Local Arguments column_reference : simpl never.
Local Arguments value_expression : simpl never.
Local Arguments predicate : simpl never.
Local Arguments and_cond : simpl never.
Local Arguments and_loop : simpl never.
Local Arguments or_cond : simpl never.
Local Arguments or_loop : simpl never.
Local Arguments set_function : simpl never.
Local Arguments derived_column : simpl never.
Local Arguments select_items : simpl never.
Local Arguments select_list : simpl never.
Local Arguments table_name : simpl never.
Local Arguments join_loop : simpl never.
Local Arguments from_clause : simpl never.
Local Arguments where_clause : simpl never.
Local Arguments group_loop : simpl never.
Local Arguments group_by_clause : simpl never.
Local Arguments table_expression : simpl never.
Local Arguments sort_loop : simpl never.
Local Arguments sort_spec_list : simpl never.
Local Arguments limit_loop : simpl never.
Local Arguments limit_offset : simpl never.
Local Arguments select_ : simpl never.
Local Arguments table_elements_loop : simpl never.
Local Arguments table_elements : simpl never.
Local Arguments create_table : simpl never.
Local Arguments create_ : simpl never.
Local Arguments insert_cols_loop : simpl never.
Local Arguments insert_vals_loop : simpl never.
Local Arguments insert_rows_loop : simpl never.
Local Arguments insert_ : simpl never.
Local Arguments update_set_loop : simpl never.
Local Arguments update_ : simpl never.
Local Arguments delete_ : simpl never.
Local Arguments parse_f : simpl never.
Local Arguments validate_group_by : simpl never.
Local Arguments atoi : simpl never.
Local Arguments r_colref : simpl never.
Local Arguments r_vexpr : simpl never.
Local Arguments r_value : simpl never.


(* ---- INSERT ---- *)
Lemma insert_cols_rt : forall cols, cols <> [] -> forall acc fuel rest,
  hdk rest <> KComma -> length (r_names cols ++ rest) < fuel ->
  insert_cols_loop fuel acc (r_names cols ++ rest) = POk (acc ++ cols, rest).
Proof.
  induction cols as [|c cols IH]; intros Hne acc fuel rest F L; try congruence.
  cbn [r_names] in *. destruct fuel as [|f]; [lia|]. rewrite insert_cols_loop_S.
  destruct cols as [|c2 cols'].
  - cbn [app r_ident] in *. dhd rest.
  - cbn [app r_ident K] in *. cbn [length] in L.
    rewrite (IH ltac:(discriminate) (acc ++ [c]) f rest F ltac:(lia)). rewrite <- app_assoc. reflexivity.
Qed.

Lemma insert_vals_rt o : forall vals, forallb (wf_value o) vals = true -> forall acc fuel rest,
  length (r_values o vals ++ K KRparen :: rest) < fuel ->
  insert_vals_loop fuel acc (r_values o vals ++ K KRparen :: rest) = POk (acc ++ vals, K KRparen :: rest).
Proof.
  induction vals as [|v vals IH]; intros W acc fuel rest L.
  - cbn [r_values app] in *. destruct fuel as [|f]; [cbn in L; lia|]. rewrite insert_vals_loop_S.
    cbn. rewrite app_nil_r. reflexivity.
  - cbn [forallb] in W. apply andb_prop in W as [Wv Wvs].
    cbn [r_values] in *. destruct (value_rt o v Wv) as (t & Et & Lt & Vt). rewrite Et in *.
    destruct fuel as [|f]; [lia|]. rewrite insert_vals_loop_S.
    destruct vals as [|v2 vals'].
    + cbn [app K] in *. rewrite Lt, Vt. cbn [bind]. reflexivity.
    + cbn [app K] in *. rewrite Lt, Vt. cbn [bind]. cbn [length] in L.
      change ((KRparen, EmptyString) :: rest) with (K KRparen :: rest).
      rewrite (IH Wvs (acc ++ [v]) f rest ltac:(cbn [K]; lia)). rewrite <- app_assoc. reflexivity.
Qed.

Ltac rwK H := let H' := fresh "Hk" in pose proof H as H'; unfold K in H'; rewrite H'; clear H'.

Lemma insert_rows_rt o : forall rows, forallb (forallb (wf_value o)) rows = true -> forall acc fuel rest,
  hdk rest <> KLparen -> hdk rest <> KComma ->
  length (r_rows o rows ++ rest) < fuel ->
  insert_rows_loop fuel acc (r_rows o rows ++ rest) = POk (acc ++ rows, rest).
Proof.
  induction rows as [|r rows IH]; intros W acc fuel rest F1 F2 L.
  - cbn [r_rows app] in *. destruct fuel as [|f]; [lia|]. rewrite insert_rows_loop_S, app_nil_r. dhd rest.
  - cbn [forallb] in W. apply andb_prop in W as [Wr Wrs].
    cbn [r_rows] in *. norm_gl L. destruct fuel as [|f]; [lia|]. rewrite insert_rows_loop_S.
    unfold K in *. cbn [length] in L. rewrite app_length in L. cbn [length] in L.
    destruct rows as [|r2 rows'].
    + cbn [app] in *.
      rwK (insert_vals_rt o r Wr [] (S f) rest ltac:(unfold K; lens; lia)). cbn [bind app]. dhd rest.
    + cbn [app] in *.
      rwK (insert_vals_rt o r Wr [] (S f) (K KComma :: r_rows o (r2 :: rows') ++ rest)
             ltac:(unfold K; lens; lia)).
      cbn [bind app].
      rewrite (IH Wrs (acc ++ [r]) f rest F1 F2 ltac:(lens; lia)). rewrite <- app_assoc. reflexivity.
Qed.

Lemma insert_rt o table cols rows fuel rest :
  forallb (forallb (wf_value o)) rows = true -> endtok rest ->
  length (r_stmt o (SInsert table cols rows) ++ rest) <= fuel ->
  insert_ fuel (K KInto :: r_ident table ::
      match cols with
      | [] => if o_empty_cols o then [K KLparen; K KRparen] else []
      | _ => K KLparen :: r_names cols ++ [K KRparen]
      end ++ K KValues :: r_rows o rows ++ rest) = POk (SInsert table cols rows).
Proof.
  intros W E L. cbn [r_stmt] in L. norm_gl L. cbn [length] in L.
  pose proof (lvl_end rest E) as L5.
  assert (Rows : forall f, length (r_rows o rows ++ rest) < f ->
     insert_rows_loop f [] (r_rows o rows ++ rest) = POk (rows, rest)).
  { intros f Lf. rewrite insert_rows_rt; auto; side L5. }
  unfold insert_.
  destruct cols as [|c cols].
  - destruct (o_empty_cols o); unfold K, r_ident in *; cbn [app length] in *.
    + destruct fuel as [|f]; [lia|]. rewrite insert_cols_loop_S. cbn [bind].
      rewrite Rows; [reflexivity|]. lia.
    + cbn [bind]. rewrite Rows; [reflexivity|]. lia.
  - norm_gl L. cbn [length] in L. rewrite app_length in L.
    pose proof (insert_cols_rt (c :: cols) ltac:(discriminate) [] fuel (K KRparen :: K KValues :: r_rows o rows ++ rest)
                  ltac:(cbn; discriminate) ltac:(unfold K; lens; lia)) as Hc.
    unfold K, r_ident in *. cbn [app length] in *. rewrite Hc.
    cbn [bind app]. rewrite Rows; [reflexivity|]. lens. lia.
Qed.

(* ---- UPDATE / DELETE ---- *)
Lemma update_sets_rt o : forall sets, forallb (fun p => wf_vexpr o (snd p)) sets = true ->
  forall acc fuel rest, hdk rest <> KIdent -> hdk rest <> KComma -> hdk rest <> KDot ->
  length (r_sets o sets ++ rest) < fuel ->
  update_set_loop fuel acc (r_sets o sets ++ rest) = POk (acc ++ sets, rest).
Proof.
  induction sets as [|[c v] sets IH]; intros W acc fuel rest F1 F2 F3 L.
  - cbn [r_sets app] in *. destruct fuel as [|f]; [lia|]. rewrite update_set_loop_S, app_nil_r. dhd rest.
  - cbn [forallb snd] in W. apply andb_prop in W as [Wv Ws].
    cbn [r_sets] in *. norm_gl L. destruct fuel as [|f]; [lia|]. rewrite update_set_loop_S.
    pose proof (vexpr_len o v Wv) as Lv.
    cbn [length] in L. rewrite app_length in L.
    destruct sets as [|s2 sets'].
    + unfold K, r_ident in *. cbn [app] in *. rewrite (vexpr_rt o v rest Wv F3). cbn [bind]. dhd rest.
    + pose proof (vexpr_rt o v (K KComma :: r_sets o (s2 :: sets') ++ rest) Wv ltac:(cbn; discriminate)) as Hv.
      unfold K, r_ident in *. cbn [app length] in *. rewrite Hv. cbn [bind].
      rewrite (IH Ws (acc ++ [(c, v)]) f rest F1 F2 F3 ltac:(lia)). rewrite <- app_assoc. reflexivity.
Qed.

Lemma update_rt o table sets w fuel rest :
  forallb (fun p => wf_vexpr o (snd p)) sets = true -> wf_where o w = true -> endtok rest ->
  length (r_stmt o (SUpdate table sets w) ++ rest) <= fuel ->
  update_ fuel (r_ident table :: K KSet :: r_sets o sets ++ r_where o w ++ rest) = POk (SUpdate table sets w).
Proof.
  intros Ws Ww E L. cbn [r_stmt] in L. norm_gl L. cbn [length] in L. rewrite app_length in L.
  pose proof (lvl_end rest E) as L5.
  pose proof (lvl_where o w rest ltac:(lia)) as L1.
  unfold update_, K at 1, r_ident at 1.
  rewrite update_sets_rt; auto; try side L1; try (lens; lia).
  cbn [bind]. rewrite where_rt; auto; try side L5; try lia.
Qed.

Lemma delete_rt o table w fuel rest : wf_where o w = true -> endtok rest ->
  length (r_stmt o (SDelete table w) ++ rest) <= fuel ->
  delete_ fuel (K KFrom :: r_ident table :: r_where o w ++ rest) = POk (SDelete table w).
Proof.
  intros Ww E L. cbn [r_stmt] in L. norm_gl L. cbn [length] in L.
  pose proof (lvl_end rest E) as L5.
  unfold delete_, K at 1, r_ident at 1. rewrite where_rt; auto; try side L5; try lia.
Qed.

(* ---- CREATE TABLE ---- *)
Lemma coldefs_rt o : forall cols, forallb (fun d => wf_sqltype o (cd_type d)) cols = true ->
  forall acc fuel rest, length (r_coldefs o cols ++ K KRparen :: rest) < fuel ->
  table_elements_loop fuel acc (r_coldefs o cols ++ K KRparen :: rest) = POk (acc ++ cols, K KRparen :: rest).
Proof.
  induction cols as [|[name ty] cols IH]; intros W acc fuel rest L.
  - cbn [r_coldefs app] in *. destruct fuel as [|f]; [cbn in L; lia|]. rewrite table_elements_loop_S, app_nil_r.
    reflexivity.
  - cbn [forallb cd_type] in W. apply andb_prop in W as [Wt Ws].
    cbn [r_coldefs cd_name cd_type] in *. norm_gl L. destruct fuel as [|f]; [lia|].
    rewrite table_elements_loop_S.
    set (tail := match cols with [] => [] | _ :: _ => K KComma :: r_coldefs o cols end ++ K KRparen :: rest) in *.
    assert (Tail : forall f', length tail <= f' ->
      match tail with
      | (KComma, _) :: r2 => table_elements_loop f' (acc ++ [mkColDef name ty]) r2
      | _ => POk (acc ++ [mkColDef name ty], tail)
      end = POk (acc ++ mkColDef name ty :: cols, K KRparen :: rest)).
    { intros f' Lf. unfold tail in *. destruct cols as [|d2 cols'].
      - reflexivity.
      - cbn [app length] in *. unfold K at 1.
        rewrite (IH Ws (acc ++ [mkColDef name ty]) f' rest ltac:(lia)). rewrite <- app_assoc. reflexivity. }
    cbn [length] in L. rewrite app_length in L.
    destruct ty as [| |len|]; cbn [r_sqltype app length] in *; unfold r_ident, K at 1.
    + cbn [bind]. apply Tail. lia.
    + cbn [bind]. apply Tail. lia.
    + unfold K at 1. cbn [wf_sqltype] in Wt. rewrite (require_int_rt o len _ Wt). cbn [bind].
      unfold K at 1. cbn [bind]. apply Tail. lia.
    + cbn [bind]. apply Tail. lia.
Qed.

Lemma create_table_rt o name cols fuel rest :
  forallb (fun d => wf_sqltype o (cd_type d)) cols = true ->
  length (r_stmt o (SCreateTable name cols) ++ rest) <= fuel ->
  create_ fuel (K KTable :: r_ident name :: K KLparen :: r_coldefs o cols ++ K KRparen :: rest)
  = POk (SCreateTable name cols).
Proof.
  intros W L. cbn [r_stmt] in L. norm_gl L. cbn [length] in L.
  unfold create_, create_table, table_elements, K at 1 2, r_ident at 1.
  rewrite (coldefs_rt o cols W [] fuel rest ltac:(lia)). reflexivity.
Qed.

(* ---- the statement level ---- *)
Ltac normg := repeat first [rewrite <- app_assoc | progress cbn [app]].
Lemma r_select_app o s rest :
  r_select o s ++ rest =
  K KSelect :: (r_items o 0 (sel_list s) ++
    match sel_from s with
    | tr :: _ => K KFrom :: r_tref o tr ++ r_where o (sel_where s) ++ r_group_clause o (sel_group s)
    | [] => []
    end ++ r_sort_clause o (sel_sort s) ++ r_limit o s ++ rest).
Proof. rewrite r_select_eq. cbn [app]. f_equal. repeat rewrite <- app_assoc. reflexivity. Qed.

Lemma endtok_semi o : endtok (if o_semi o then [K KOther] else []).
Proof. destruct (o_semi o); [right|left]; reflexivity. Qed.

(* a statement written in standard form either parses to itself or is rejected by the GROUP BY
   validation: nothing is ever silently dropped or changed *)
Theorem roundtrip_gen o s : wf_stmt_syn o s = true ->
  parse (render o s) =
  match s with
  | SSelect sel =>
      match validate_group_by (sel_list sel) (sel_group sel) with
      | Some e => PErr e
      | None => POk s
      end
  | _ => POk s
  end.
Proof.
  intros W. unfold parse, render.
  set (rest := if o_semi o then [K KOther] else []).
  assert (E : endtok rest) by apply endtok_semi.
  set (fuel := S (length (r_stmt o s ++ rest))).
  assert (L : length (r_stmt o s ++ rest) <= fuel) by (unfold fuel; lia).
  clearbody fuel.
  destruct s as [sel|name cols|name| |name|table cols rows|table sets w|table w];
    unfold wf_stmt_syn in W; cbn [wf_stmt_gen negb orb] in W.
  - (* SELECT *)
    rewrite andb_true_r in W.
    cbn [r_stmt] in *. rewrite r_select_app. unfold parse_f, K at 1.
    apply select_rt; auto.
  - (* CREATE TABLE *)
    cbn [r_stmt]. normg. unfold parse_f, K at 1.
    apply create_table_rt; auto.
  - (* CREATE DATABASE *) reflexivity.
  - (* SHOW *)
    cbn [r_stmt]. destruct (o_show o) as [t|]; [destruct (String.eqb (lower_ascii t) "databases") eqn:Et|];
      cbn [app]; unfold parse_f, show_, K; try rewrite Et; reflexivity.
  - (* USE *) reflexivity.
  - (* INSERT *)
    cbn [r_stmt]. normg. unfold parse_f, K at 1.
    pose proof (insert_rt o table cols rows fuel rest W E L) as H.
    repeat rewrite <- app_assoc in H. exact H.
  - (* UPDATE *)
    apply andb_prop in W as [Ws Ww].
    cbn [r_stmt]. normg. unfold parse_f, K at 1. apply update_rt; auto.
  - (* DELETE *)
    cbn [r_stmt]. normg. unfold parse_f, K at 1. apply delete_rt; auto.
Qed.

Lemma wf_stmt_syn_of o s : wf_stmt o s = true -> wf_stmt_syn o s = true.
Proof.
  unfold wf_stmt, wf_stmt_syn. destruct s; cbn [wf_stmt_gen negb orb]; auto.
  intros W. apply andb_prop in W as [W _]. rewrite W. reflexivity.
Qed.

Theorem roundtrip o s : wf_stmt o s = true -> parse (render o s) = POk s.
Proof.
  intros W. rewrite (roundtrip_gen o s (wf_stmt_syn_of o s W)).
  destruct s as [sel| | | | | | |]; try reflexivity.
  unfold wf_stmt in W. cbn [wf_stmt_gen negb orb] in W. apply andb_prop in W as [_ W].
  unfold group_by_consistent in W. destruct (validate_group_by (sel_list sel) (sel_group sel)); [discriminate|reflexivity].
Qed.

Theorem roundtrip_renders o s toks : wf_stmt o s = true -> renders o s toks -> parse toks = POk s.
Proof. intros W R. rewrite R. exact (roundtrip o s W). Qed.

Theorem roundtrip_tokens o s toks : wf_stmt o s = true -> renders o s (map classify toks) ->
  parse_tokens toks = POk s.
Proof. unfold renders, parse_tokens. intros W ->. apply roundtrip; auto. Qed.

(* C10_lists_complete: a statement in standard form comes back unchanged - every element of every
   comma separated list included - or parsing fails; it never yields a different statement *)
Theorem lists_complete o s : wf_stmt_syn o s = true ->
  parse (render o s) = POk s \/ exists e, parse (render o s) = PErr e.
Proof.
  intros W. rewrite (roundtrip_gen o s W).
  destruct s as [sel| | | | | | |]; auto.
  destruct (validate_group_by (sel_list sel) (sel_group sel)); eauto.
Qed.

Theorem no_silent_change o s s' : wf_stmt_syn o s = true -> parse (render o s) = POk s' -> s' = s.
Proof.
  intros W H. destruct (lists_complete o s W) as [E|[e E]]; rewrite E in H; congruence.
Qed.

(* ---- AND binds tighter than OR ---- *)
Definition cmp := (vexpr * compop * vexpr)%type.
Definition r_cmp (o : ropts) (p : cmp) : list ptok := let '(l, op, r) := p in r_vexpr o l ++ r_op op :: r_vexpr o r.
Definition wf_cmp (o : ropts) (p : cmp) : bool := let '(l, _, r) := p in wf_vexpr o l && wf_vexpr o r.
Definition pred_of (p : cmp) : expr := let '(l, op, r) := p in EPred l op r.

Theorem and_binds_tighter o p1 p2 p3 fuel rest :
  wf_cmp o p1 = true -> wf_cmp o p2 = true -> wf_cmp o p3 = true -> ext_or (hdk rest) = false ->
  length (r_cmp o p1 ++ K KAnd :: r_cmp o p2 ++ K KOr :: r_cmp o p3 ++ rest) < fuel ->
  or_cond fuel (r_cmp o p1 ++ K KAnd :: r_cmp o p2 ++ K KOr :: r_cmp o p3 ++ rest)
    = POk (EOr (EAnd p1 (pred_of p2)) (pred_of p3), rest) /\
  or_cond fuel (r_cmp o p1 ++ K KOr :: r_cmp o p2 ++ K KAnd :: r_cmp o p3 ++ rest)
    = POk (EOr (pred_of p1) (EAnd p2 (pred_of p3)), rest).
Proof.
  destruct p1 as [[l1 o1] r1], p2 as [[l2 o2] r2], p3 as [[l3 o3] r3]. cbn [wf_cmp r_cmp pred_of].
  intros W1 W2 W3 F L. split.
  - pose proof (or_rt o (EOr (EAnd (l1, o1, r1) (EPred l2 o2 r2)) (EPred l3 o3 r3))) as H.
    cbn [wf_or wf_and r_expr] in H. rewrite W1, W2, W3 in H. specialize (H eq_refl fuel rest F).
    repeat (rewrite <- app_assoc in H; cbn [app] in H). repeat (rewrite <- app_assoc in L; cbn [app] in L).
    repeat (rewrite <- app_assoc; cbn [app]). apply H. exact L.
  - pose proof (or_rt o (EOr (EPred l1 o1 r1) (EAnd (l2, o2, r2) (EPred l3 o3 r3)))) as H.
    cbn [wf_or wf_and r_expr] in H. rewrite W1, W2, W3 in H. specialize (H eq_refl fuel rest F).
    repeat (rewrite <- app_assoc in H; cbn [app] in H). repeat (rewrite <- app_assoc in L; cbn [app] in L).
    repeat (rewrite <- app_assoc; cbn [app]). apply H.
    repeat (rewrite app_length in *; cbn [length] in * ). lia.
Qed.
