(* C01 / C02, oracle soundness, part 3: a row id never disappears from the file.
   Cells are never removed (DELETE leaves a tombstone, splits move cells, UPDATE rewrites the value
   in place), so every key that some leaf of some tree holds is held by some leaf of some tree
   after every statement, flush and crash-restart (KeyKept). With "every key is at most the row-id
   counter" (SInv / Good, also right after recovery) this bounds every id the oracle has ever been
   shown by the row-id counter of every later state - the counter itself need not be shown to
   survive recovery. *)
From Coq Require Import Arith Lia Bool List NArith Permutation.
From Mkdb Require Import Model.Engine Proofs.TreeProofs Proofs.StoreInv Proofs.RefineForest Gen.Params.
Import ListNotations.
Local Open Scope N_scope.

Definition has_key (f : list tree) (k : N) : Prop := exists t, In t f /\ In k (keys_of (all_cells t)).
Definition KeyKept (s s' : store) : Prop := forall k, has_key (forest s) k -> has_key (forest s') k.

Lemma KeyKept_refl s : KeyKept s s.
Proof. intros k H. exact H. Qed.

Lemma KeyKept_trans a b c : KeyKept a b -> KeyKept b c -> KeyKept a c.
Proof. intros H1 H2 k H. auto. Qed.

Lemma KeyKept_forest s s' : forest s' = forest s -> KeyKept s s'.
Proof. intros E k H. rewrite E. exact H. Qed.

(* every key is at most the row-id counter *)
Lemma has_key_le s k : SInv s -> has_key (forest s) k -> k <= lastKey s.
Proof.
  intros Hinv (t & Hin & Hk). pose proof (si_keys _ Hinv) as X. rewrite Forall_forall in X.
  specialize (X t Hin). rewrite Forall_forall in X. apply X. unfold tree_keys. apply in_or_app. right. exact Hk.
Qed.

(* ---------- primitives ---------- *)
Lemma bt_insert_keys s root v : SInv s -> KeyKept s (fst (bt_insert s root v)).
Proof.
  intros [Hw Hn Hk]. unfold bt_insert, get_tree.
  destruct (find_root root (forest s)) as [t|] eqn:Ef; [|apply KeyKept_refl].
  destruct (find_root_split _ _ _ Ef) as (l1 & l2 & Hf & Ho & _ & Hrep).
  assert (Ht_w : WFT ML MI (nextFree s) t).
  { rewrite Forall_forall in Hw. apply Hw. rewrite Hf. apply in_or_app; right; left; reflexivity. }
  assert (Ht_k : Forall (fun x => x < lastKey s + 1) (tree_keys t)).
  { rewrite Forall_forall in Hk. eapply Forall_impl; [|apply Hk; rewrite Hf; apply in_or_app; right; left; reflexivity].
    cbn. intros; lia. }
  destruct (tree_insert ML MI PS MV t (lastKey s + 1) (nextLSN s) v (nextFree s)) as [[t' nf]|e] eqn:Ei; cbn [fst].
  - destruct (Nat.leb_spec (length v) MV) as [Hlen|Hlen].
    2:{ destruct (tree_insert_too_large t (lastKey s + 1) (nextLSN s) v (nextFree s) Hlen) as [e He]. congruence. }
    destruct (tree_insert_ok ML MI PS MV ML_ge MI_ge PS_pos (nextFree s) t (lastKey s + 1) (nextLSN s) v Ht_w Ht_k Hlen)
      as (t2 & f2 & E2 & W2 & C2 & K2 & F2 & O2).
    rewrite Ei in E2. inversion E2; subst t2 f2. clear E2.
    intros k (t0 & Hin & Hk0). cbn [forest]. rewrite Hrep. rewrite Hf in Hin.
    apply in_app_or in Hin as [Hin|[<-|Hin]].
    + exists t0. split; [apply in_or_app; left; exact Hin | exact Hk0].
    + exists t'. split; [apply in_or_app; right; left; reflexivity|]. rewrite C2, keys_of_app. apply in_or_app. left. exact Hk0.
    + exists t0. split; [apply in_or_app; right; right; exact Hin | exact Hk0].
  - apply KeyKept_forest. reflexivity.
Qed.

Lemma touch_leaf_cell_keys pg k lsn g t :
  (forall x, lc_key (g x) = lc_key x) -> keys_of (all_cells (touch_leaf pg k lsn g t)) = keys_of (all_cells t).
Proof.
  intros Hg. pose proof (touch_keys pg k lsn g t Hg) as H. unfold tree_keys in H. rewrite touch_seps in H.
  apply app_inv_head in H. exact H.
Qed.

Lemma touch_forest_keys pg k lsn g : (forall x, lc_key (g x) = lc_key x) ->
  forall f k0, has_key f k0 -> has_key (touch_forest pg k lsn g f) k0.
Proof.
  intros Hg. induction f as [|t f IH]; intros k0 (t0 & Hin & Hk0); [contradiction|].
  cbn [touch_forest]. destruct (has_page pg t).
  - destruct Hin as [<-|Hin].
    + exists (touch_leaf pg k lsn g t). split; [left; reflexivity|]. rewrite touch_leaf_cell_keys by exact Hg. exact Hk0.
    + exists t0. split; [right; exact Hin | exact Hk0].
  - destruct Hin as [<-|Hin].
    + exists t. split; [left; reflexivity | exact Hk0].
    + destruct (IH k0) as (t1 & H1 & H2); [exists t0; auto|]. exists t1. split; [right; exact H1 | exact H2].
Qed.

Lemma touch_store_keys s pg k lsn g lk pt nf lsn' :
  (forall x, lc_key (g x) = lc_key x) ->
  KeyKept s (mkStore (touch_forest pg k lsn g (forest s)) lk pt nf lsn').
Proof. intros Hg k0 H. cbn [forest]. apply touch_forest_keys; assumption. Qed.

Lemma create_page_keys s : KeyKept s (fst (create_page s)).
Proof.
  intros k (t & Hin & Hk). unfold create_page. cbn [fst forest]. exists t. split; [apply in_or_app; left; exact Hin | exact Hk].
Qed.

Lemma flush_keys s : KeyKept s (flush s).
Proof.
  intros k (t & Hin & Hk). unfold flush. cbn [set_forest forest]. exists (clean_tree t).
  split; [apply in_map; exact Hin | rewrite clean_cells; exact Hk].
Qed.

(* ---------- the relation layer ---------- *)
Lemma update_page_table_keys s newroot name : KeyKept s (fst (update_page_table s newroot name)).
Proof.
  unfold update_page_table.
  repeat (break_match; cbn [fst]; try apply KeyKept_refl).
  apply touch_store_keys. reflexivity.
Qed.

Lemma insert_page_table_keys s pg name : SInv s -> KeyKept s (fst (insert_page_table s pg name)).
Proof.
  intros H. unfold insert_page_table.
  destruct (encode_tuple _ _) as [bs|e|]; cbn [fst]; try apply KeyKept_refl.
  pose proof (bt_insert_keys s (ptRoot s) bs H) as H1.
  destruct (bt_insert s (ptRoot s) bs) as [s1 [[[k l] nr]|e|]]; cbn [fst] in *; exact H1.
Qed.

Lemma st_insert0_keys s name cols vals : SInv s -> KeyKept s (fst (st_insert0 s name cols vals)).
Proof.
  intros H. unfold st_insert0. destruct (is_sys_table name); [apply KeyKept_refl|].
  destruct (bind _ _) as [[off bs]|e|]; cbn [fst]; try apply KeyKept_refl.
  pose proof (bt_insert_keys s off bs H) as H1.
  destruct (bt_insert s off bs) as [s1 [[[k l] nr]|e|]]; cbn [fst] in *; try exact H1.
  destruct (N.eqb nr off); cbn [fst]; [exact H1|].
  pose proof (update_page_table_keys s1 nr name) as H2.
  destruct (update_page_table s1 nr name) as [s2 [ws|e|]]; cbn [fst] in *; eapply KeyKept_trans; eauto.
Qed.

Lemma st_insert_keys s name cols vals : SInv s -> KeyKept s (fst (st_insert s name cols vals)).
Proof.
  intros H. unfold st_insert. destruct (ins_bad_cols _ _ _ _); [apply KeyKept_refl | apply st_insert0_keys; exact H].
Qed.

Lemma st_update0_keys s name rowid cols vals : KeyKept s (fst (st_update0 s name rowid cols vals)).
Proof.
  unfold st_update0. destruct (is_sys_table name); [apply KeyKept_refl|].
  repeat (break_match; cbn [fst]; try apply KeyKept_refl).
  apply touch_store_keys. reflexivity.
Qed.

Lemma st_update_keys s name rowid cols vals : KeyKept s (fst (st_update s name rowid cols vals)).
Proof.
  unfold st_update. destruct (upd_bad_cols _ _ _); [apply KeyKept_refl | apply st_update0_keys].
Qed.

Lemma st_delete_keys s name rowid : KeyKept s (fst (st_delete s name rowid)).
Proof.
  unfold st_delete. destruct (is_sys_table name); [apply KeyKept_refl|].
  repeat (break_match; cbn [fst]; try apply KeyKept_refl).
  apply touch_store_keys. reflexivity.
Qed.

Lemma insert_schema_rows_keys fds : forall s root tname,
  SInv s -> KeyKept s (fst (insert_schema_rows s root tname fds)).
Proof.
  induction fds as [|fd r IH]; intros s root tname H; [apply KeyKept_refl|].
  cbn [insert_schema_rows].
  destruct (encode_tuple _ _) as [bs|e|]; cbn [fst]; try apply KeyKept_refl.
  pose proof (bt_insert_keys s root bs H) as H1. pose proof (bt_insert_inv s root bs H) as I1.
  destruct (bt_insert s root bs) as [s1 [[[k l] nr]|e|]]; cbn [fst] in *; try exact H1.
  destruct (N.eqb nr root); [eapply KeyKept_trans; [exact H1 | apply IH; exact I1]|].
  pose proof (update_page_table_keys s1 nr schemaTableName) as H2.
  pose proof (update_page_table_inv s1 nr schemaTableName I1) as I2.
  destruct (update_page_table s1 nr schemaTableName) as [s2 [ws|e|]]; cbn [fst] in *;
    try (eapply KeyKept_trans; eauto; fail).
  eapply KeyKept_trans; [exact H1|]. eapply KeyKept_trans; [exact H2|]. apply IH. exact I2.
Qed.

Lemma insert_schema_table_keys s tname fds : SInv s -> KeyKept s (fst (insert_schema_table s tname fds)).
Proof.
  intros H. unfold insert_schema_table.
  destruct (bind _ _) as [off|e|]; cbn [fst]; try apply KeyKept_refl.
  apply insert_schema_rows_keys. exact H.
Qed.

Lemma st_create_table0_keys s name fds : SInv s -> KeyKept s (fst (st_create_table0 s name fds)).
Proof.
  intros H. unfold st_create_table0.
  destruct (rel_offset s name) as [o|e|]; cbn [fst]; try apply KeyKept_refl.
  destruct e; cbn [fst]; try apply KeyKept_refl.
  pose proof (create_page_inv s H) as I1. pose proof (create_page_keys s) as H1.
  destruct (create_page s) as [s1 pg]. cbn [fst] in I1, H1.
  pose proof (insert_page_table_inv s1 pg name I1) as I2. pose proof (insert_page_table_keys s1 pg name I1) as H2.
  destruct (insert_page_table s1 pg name) as [s2 [u|e|]]; cbn [fst] in *; try (eapply KeyKept_trans; eauto; fail).
  eapply KeyKept_trans; [exact H1|]. eapply KeyKept_trans; [exact H2|]. apply insert_schema_table_keys. exact I2.
Qed.

Lemma st_create_table_keys s name fds : SInv s -> KeyKept s (fst (st_create_table s name fds)).
Proof.
  intros H. unfold st_create_table. destruct (names_distinct _); [|apply KeyKept_refl].
  destruct (create_bad_rows s name fds); [apply KeyKept_refl | apply st_create_table0_keys; exact H].
Qed.

Lemma insert_rows_keys rows : forall s name cols batch n,
  SInv s -> KeyKept s (fst (fst (insert_rows s name cols rows batch n))).
Proof.
  induction rows as [|r rest IH]; intros s name cols batch n H; [apply KeyKept_refl|].
  cbn [insert_rows]. pose proof (st_insert_inv s name cols r H) as I1. pose proof (st_insert_keys s name cols r H) as H1.
  destruct (st_insert s name cols r) as [s1 [ws|e|]]; cbn [fst] in *; try exact H1.
  eapply KeyKept_trans; [exact H1 | apply IH; exact I1].
Qed.

Lemma update_rows_keys ids : forall s name cols vals batch,
  KeyKept s (fst (fst (update_rows s name cols vals ids batch))).
Proof.
  induction ids as [|k rest IH]; intros s name cols vals batch; [apply KeyKept_refl|].
  cbn [update_rows]. pose proof (st_update_keys s name k cols vals) as H1.
  destruct (st_update s name k cols vals) as [s1 [ws|e|]]; cbn [fst] in *; try exact H1.
  eapply KeyKept_trans; [exact H1 | apply IH].
Qed.

Lemma delete_rows_keys ids : forall s name batch n,
  KeyKept s (fst (fst (delete_rows s name ids batch n))).
Proof.
  induction ids as [|k rest IH]; intros s name batch n; [apply KeyKept_refl|].
  cbn [delete_rows]. pose proof (st_delete_keys s name k) as H1.
  destruct (st_delete s name k) as [s1 [ws|e|]]; cbn [fst] in *; try exact H1.
  eapply KeyKept_trans; [exact H1 | apply IH].
Qed.

Theorem run_stmt_keys s st : SInv s -> KeyKept s (e_store (run_stmt s st)).
Proof.
  intros H. destruct st; cbn [run_stmt e_store]; try apply KeyKept_refl.
  - pose proof (st_create_table_keys s name (map fielddef_of cols) H) as H1.
    destruct (st_create_table s name (map fielddef_of cols)) as [s1 [u|e|]]; cbn [fst e_store] in *; try exact H1.
    eapply KeyKept_trans; [exact H1 | apply flush_keys].
  - destruct (first_err _ rows) as [u|e|]; cbn [e_store]; try apply KeyKept_refl.
    pose proof (insert_rows_keys rows s table cols [] 0%nat H) as H1.
    destruct (insert_rows s table cols rows [] 0) as [[s1 b] o]. exact H1.
  - destruct (existsb _ sets); [apply KeyKept_refl|].
    destruct (where_ids s table where_) as [ids|e|]; cbn [e_store]; try apply KeyKept_refl.
    destruct (first_err _ ids) as [u|e|]; cbn [e_store]; try apply KeyKept_refl.
    pose proof (update_rows_keys ids s table (map fst sets)
                 (map (fun sv => match snd sv with XLit v => v | _ => VNull end) sets) []) as H1.
    destruct (update_rows s table _ _ ids []) as [[s1 b] o]. exact H1.
  - destruct (where_ids s table where_) as [ids|e|]; cbn [e_store]; try apply KeyKept_refl.
    pose proof (delete_rows_keys ids s table [] 0%nat) as H1.
    destruct (delete_rows s table ids [] 0) as [[s1 b] o]. exact H1.
Qed.
