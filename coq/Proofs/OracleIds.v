(* C01, oracle soundness, part 1: row ids along a history of statements.
   For every acknowledged statement, every row id a user table shows afterwards either was an id
   of the SAME table before the statement or is larger than the row-id counter (lastKey) was
   before the statement; the counter never decreases (IdExt). This is the model-side fact behind
   the oracle's `fresh_ok` / `seen` / `gmax` bookkeeping (Spec/HistObs.v).
   Frame facts: a statement on table n leaves the catalog entry and the tree of every other user
   table alone (Fr), through root moves of n's tree and of both catalog trees. *)
From Coq Require Import Arith Lia Bool List NArith ZArith String Sorted Permutation.
From Mkdb Require Import Model.Engine Spec.TableSpec Spec.HistObs Proofs.TreeProofs Proofs.StoreInv
  Proofs.BytesProofs Proofs.TupleProofs Proofs.RefineForest Proofs.RefineCodec Proofs.RefineRep
  Proofs.RefineCat Proofs.RefineDML Proofs.RefineDDL Proofs.Atomic Proofs.RefineMain Proofs.RefineFail
  Proofs.FailsEarly Proofs.Codec08 Proofs.CrashRedo Gen.Params.
Import ListNotations.
Local Open Scope N_scope.
Local Open Scope string_scope.
Local Open Scope list_scope.

(* ====================== the ids a table shows ====================== *)
Definition ids (s : store) (n : string) : list N := map fst (fetch_rows s n).

Lemma ids_obs s n : ids_of (obs_table s n) = ids s n.
Proof. unfold ids_of, obs_table, ids, fetch_rows. destruct (st_fetch s n) as [[rows fs]|e|]; reflexivity. Qed.

Lemma ids_flush s n : ids (flush s) n = ids s n.
Proof. unfold ids, fetch_rows. rewrite st_fetch_flush. reflexivity. Qed.

Lemma is_sys_not_pages n : is_sys n = false -> n <> "sys_pages".
Proof. intros H. apply is_sys_false in H. tauto. Qed.

Lemma ids_user s d n t o tr :
  Rep s d -> is_sys n = false -> find_tbl n d = Some t ->
  rel_offset s n = Ok o -> find_root o (forest s) = Some tr -> ids s n = keys_of (scan_tree tr).
Proof.
  intros HR Hsys Hf Eo Hr. destruct (fetch_rows_ids s d n t o tr HR Hsys Hf Eo Hr) as (Hids & _ & _).
  destruct (ids_TableRep _ _ _ Hids) as [_ Hk]. exact Hk.
Qed.

Lemma ids_missing s d n : Rep s d -> is_sys n = false -> find_tbl n d = None -> ids s n = [].
Proof. intros HR Hsys Hf. unfold ids, fetch_rows. rewrite (st_fetch_missing s d n HR Hsys Hf). reflexivity. Qed.

(* every id a user table shows is at most the row-id counter *)
Lemma keys_scan_sub t x : In x (keys_of (scan_tree t)) -> In x (tree_keys t).
Proof.
  unfold keys_of, scan_tree, live, tree_keys. intros H. apply in_map_iff in H as (c & <- & Hc).
  apply filter_In in Hc as [Hc _]. apply in_or_app. right. apply in_map. exact Hc.
Qed.

Lemma ids_le_lastKey s d n i : Rep s d -> is_sys n = false -> In i (ids s n) -> i <= lastKey s.
Proof.
  intros HR Hsys Hi. destruct (find_tbl n d) as [t|] eqn:Hf.
  - destruct (st_fetch_user s d n t HR Hsys Hf) as (o & tr & Eo & Hr & _).
    rewrite (ids_user s d n t o tr HR Hsys Hf Eo Hr) in Hi.
    pose proof (si_keys _ (r_sinv _ _ HR)) as Hk. rewrite Forall_forall in Hk.
    destruct (find_root_In _ _ _ Hr) as [Hin _]. specialize (Hk tr Hin). rewrite Forall_forall in Hk.
    apply Hk. apply keys_scan_sub. exact Hi.
  - rewrite (ids_missing s d n HR Hsys Hf) in Hi. contradiction.
Qed.

(* ====================== the frame relation ====================== *)
(* every catalogued table other than sys_pages and those in `ex` keeps its catalog entry and the
   cells of its tree *)
Definition Fr (ex : list string) (s s' : store) : Prop :=
  forall m o t, ~ In m ex -> m <> "sys_pages" -> rel_offset s m = Ok o -> find_root o (forest s) = Some t ->
    rel_offset s' m = Ok o /\ exists t', find_root o (forest s') = Some t' /\ all_cells t' = all_cells t.

Lemma Fr_refl ex s : Fr ex s s.
Proof. intros m o t _ _ A B. split; [exact A|]. exists t. auto. Qed.

Lemma Fr_trans ex a b c : Fr ex a b -> Fr ex b c -> Fr ex a c.
Proof.
  intros H1 H2 m o t Hm Hs A B. destruct (H1 m o t Hm Hs A B) as (A1 & t1 & B1 & C1).
  destruct (H2 m o t1 Hm Hs A1 B1) as (A2 & t2 & B2 & C2). split; [exact A2|]. exists t2. split; [exact B2 | congruence].
Qed.

Lemma Fr_weaken ex ex' a b : incl ex ex' -> Fr ex a b -> Fr ex' a b.
Proof. intros Hi H m o t Hm. apply H. intros X. apply Hm. apply Hi. exact X. Qed.

Lemma Fr_ids ex s s' d d' m t t' :
  Rep s d -> Rep s' d' -> Fr ex s s' -> is_sys m = false -> ~ In m ex ->
  find_tbl m d = Some t -> find_tbl m d' = Some t' -> ids s' m = ids s m.
Proof.
  intros HR HR' HF Hsys Hex Hf Hf'.
  destruct (st_fetch_user s d m t HR Hsys Hf) as (o & tr & Eo & Hr & _).
  destruct (HF m o tr Hex (is_sys_not_pages _ Hsys) Eo Hr) as (Eo' & tr' & Hr' & Hc).
  rewrite (ids_user s d m t o tr HR Hsys Hf Eo Hr), (ids_user s' d' m t' o tr' HR' Hsys Hf' Eo' Hr').
  unfold scan_tree. rewrite Hc. reflexivity.
Qed.

Lemma rel_offset_same s s' n :
  ptRoot s' = ptRoot s -> find_root (ptRoot s) (forest s') = find_root (ptRoot s) (forest s) ->
  rel_offset s' n = rel_offset s n.
Proof. intros Hp Hf. unfold rel_offset, get_tree. rewrite Hp, Hf. reflexivity. Qed.

Lemma rel_offset_in_ents s d pt sc ents osc n off :
  SInv s -> Cat s d pt sc ents osc -> rel_offset s n = Ok off -> In (n, off) ents.
Proof.
  intros Hinv HC H.
  rewrite (rel_offset_cat s pt ents n Hinv (c_pt _ _ _ _ _ _ HC) (c_ptcells _ _ _ _ _ _ HC) (c_ptfits _ _ _ _ _ _ HC)) in H.
  destruct (find _ ents) as [e|] eqn:E; [|discriminate]. apply find_some in E as [Hin Hn].
  apply String.eqb_eq in Hn. inversion H; subst. destruct e; exact Hin.
Qed.

(* only the tree rooted at o (the tree of table n) changed, in place or not *)
Lemma Fr_one_tree n s s' d o :
  Rep s d -> n <> "sys_pages" -> rel_offset s n = Ok o -> ptRoot s' = ptRoot s ->
  (forall x, x <> o -> find_root x (forest s') = find_root x (forest s)) -> Fr [n] s s'.
Proof.
  intros [Hinv Hok (pt & sc & ents & osc & HC)] Hn Eo Hp Hframe m om t Hm Hs Em Ht.
  pose proof (rel_offset_in_ents s d pt sc ents osc n o Hinv HC Eo) as Hin.
  pose proof (rel_offset_in_ents s d pt sc ents osc m om Hinv HC Em) as Him.
  assert (Hne : m <> n) by (intros ->; apply Hm; left; reflexivity).
  pose proof (cat_offsets_distinct s d pt sc ents osc Hok HC m om n o Him Hin Hs Hn Hne) as Hoo.
  pose proof (cat_offset_not_ptroot s d pt sc ents osc HC n o Hin Hn) as Hop.
  split.
  - rewrite (rel_offset_same s s' m Hp); [exact Em|]. apply Hframe. congruence.
  - exists t. split; [rewrite Hframe by exact Hoo; exact Ht | reflexivity].
Qed.

(* ====================== ids along statements ====================== *)
Definition IdExt (s s' : store) : Prop :=
  lastKey s <= lastKey s' /\
  forall m i, is_sys m = false -> In i (ids s' m) -> In i (ids s m) \/ lastKey s < i.

Lemma IdExt_refl s : IdExt s s.
Proof. split; [lia|]. intros m i _ H. left. exact H. Qed.

Lemma IdExt_trans a b c : IdExt a b -> IdExt b c -> IdExt a c.
Proof.
  intros [L1 H1] [L2 H2]. split; [lia|]. intros m i Hs Hi.
  destruct (H2 m i Hs Hi) as [X|X]; [|right; lia].
  destruct (H1 m i Hs X) as [Y|Y]; [left; exact Y | right; exact Y].
Qed.

Lemma find_tbl_set_rows_other n m rows d : m <> n -> find_tbl m (set_rows n rows d) = find_tbl m d.
Proof.
  intros Hne. induction d as [|a d IH]; [reflexivity|]. cbn [set_rows].
  destruct (String.eqb_spec (tb_name a) n) as [E|E]; cbn [find_tbl tb_name].
  - destruct (String.eqb_spec n m); [congruence|]. destruct (String.eqb_spec (tb_name a) m); [congruence | reflexivity].
  - destruct (String.eqb (tb_name a) m); [reflexivity | exact IH].
Qed.

Lemma find_tbl_app_last m d t : tb_name t <> m -> find_tbl m (d ++ [t]) = find_tbl m d.
Proof.
  intros Hne. induction d as [|a d IH]; cbn [app find_tbl].
  - destruct (String.eqb_spec (tb_name t) m); [contradiction | reflexivity].
  - destruct (String.eqb (tb_name a) m); [reflexivity | exact IH].
Qed.

Lemma find_tbl_app_new m d t : find_tbl m d = None -> tb_name t = m -> find_tbl m (d ++ [t]) = Some t.
Proof.
  intros Hn He. induction d as [|a d IH]; cbn [app find_tbl] in *.
  - rewrite He, String.eqb_refl. reflexivity.
  - destruct (String.eqb (tb_name a) m); [discriminate | exact (IH Hn)].
Qed.

(* the frame of a statement on table n (other user tables keep their ids) turned into IdExt,
   given what happened to table n itself *)
Lemma IdExt_from_frame ex n s s' d d' :
  Rep s d -> Rep s' d' -> Fr ex s s' -> lastKey s <= lastKey s' ->
  (forall m, In m ex -> m = n \/ is_sys m = true) ->
  (forall m, m <> n -> find_tbl m d' = find_tbl m d) ->
  (forall i, is_sys n = false -> In i (ids s' n) -> In i (ids s n) \/ lastKey s < i) ->
  IdExt s s'.
Proof.
  intros HR HR' HF Hl Hex Hd Hn. split; [exact Hl|]. intros m i Hsys Hi.
  destruct (String.eqb_spec m n) as [->|Hne]; [apply Hn; assumption|].
  assert (Hmex : ~ In m ex).
  { intros X. destruct (Hex m X) as [E|E]; [contradiction | congruence]. }
  destruct (find_tbl m d) as [t|] eqn:Hf.
  - left. rewrite <- (Fr_ids ex s s' d d' m t t HR HR' HF Hsys Hmex Hf); [exact Hi|]. rewrite Hd by exact Hne. exact Hf.
  - exfalso. rewrite (ids_missing s' d' m HR' Hsys) in Hi; [contradiction|]. rewrite Hd by exact Hne. exact Hf.
Qed.

(* ====================== UPDATE / DELETE: in place ====================== *)
Definition InPlace (n : string) (s s' : store) : Prop :=
  s' = s \/
  exists off t pg k lsn g lsn',
    rel_offset s n = Ok off /\ find_root off (forest s) = Some t /\ In pg (offsets_of t) /\
    s' = mkStore (touch_forest pg k lsn g (forest s)) (lastKey s) (ptRoot s) (nextFree s) lsn'.

Lemma InPlace_frame n s s' d :
  Rep s d -> n <> "sys_pages" -> InPlace n s s' -> Fr [n] s s' /\ lastKey s' = lastKey s.
Proof.
  intros HR Hn [->|(off & t & pg & k & lsn & g & lsn' & Eo & Hr & Hpg & ->)]; [split; [apply Fr_refl | reflexivity]|].
  split; [|reflexivity].
  destruct (touch_forest_find (forest s) off t pg k lsn g (si_nodup _ (r_sinv _ _ HR)) Hr Hpg) as [_ T2].
  apply (Fr_one_tree n s _ d off HR Hn Eo); [reflexivity | exact T2].
Qed.

Lemma st_update0_inplace n s k cols vals : SInv s -> InPlace n s (fst (st_update0 s n k cols vals)).
Proof.
  intros Hinv. unfold st_update0. destruct (is_sys_table n) eqn:Hsys; [left; reflexivity|].
  destruct (rel_offset s n) as [off|e|] eqn:Hro; cbn [bind fst]; try (left; reflexivity).
  unfold get_tree. destruct (find_root off (forest s)) as [t|] eqn:Hf; cbn [bind fst]; try (left; reflexivity).
  destruct (rel_schema s n) as [sch|e|]; cbn [bind fst]; try (left; reflexivity).
  rewrite (scan_right_leaves_okP _ _ (find_root_WFT _ _ _ Hinv Hf)). cbn [of_tres bind].
  destruct (find _ _) as [[pg c]|] eqn:Efind; cbn [fst]; [|left; reflexivity].
  destruct (bind _ _) as [bs|e|]; cbn [fst]; try (left; reflexivity).
  destruct (Nat.ltb _ _); cbn [fst]; [left; reflexivity|].
  apply find_some in Efind as [Hin _]. apply leaf_pairs_in in Hin as (l & Hl & -> & _).
  right. exists off, t, (t_off l), k, (nextLSN s), (fun x => mkLC (lc_key x) (lc_deleted x) bs), (nextLSN s + 1).
  split; [exact Hro|]. split; [exact Hf|]. split; [apply leaf_off_in_offsets; exact Hl | reflexivity].
Qed.

Lemma st_update_inplace n s k cols vals : SInv s -> InPlace n s (fst (st_update s n k cols vals)).
Proof.
  intros Hinv. unfold st_update. destruct (upd_bad_cols _ _ _); [left; reflexivity | apply st_update0_inplace; exact Hinv].
Qed.

Lemma st_delete_inplace n s k : InPlace n s (fst (st_delete s n k)).
Proof.
  unfold st_delete. destruct (is_sys_table n) eqn:Hsys; [left; reflexivity|].
  destruct (rel_offset s n) as [off|e|] eqn:Hro; cbn [bind fst]; try (left; reflexivity).
  unfold get_tree. destruct (find_root off (forest s)) as [t|] eqn:Hf; cbn [fst]; try (left; reflexivity).
  destruct (find_cell k t) as [[pg c]|] eqn:Ef; cbn [fst]; [|left; reflexivity].
  right. exists off, t, pg, k, (nextLSN s), (fun x => mkLC (lc_key x) true (lc_val x)), (nextLSN s + 1).
  split; [exact Hro|]. split; [exact Hf|]. split; [|reflexivity].
  unfold find_cell in Ef. pose proof (descend_in_leaves k t) as Hd.
  destruct (descend k t) as [off' l d cells hl hr ls rs|]; [|discriminate].
  destruct (find _ cells) as [c'|]; [|discriminate]. destruct (lc_deleted c'); [discriminate|].
  inversion Ef; subst. apply (leaf_off_in_offsets t _ Hd).
Qed.

Section InPlaceIds.
Variables (n : string).

Lemma st_update_idext cols vals s d t k s' ws :
  Rep s d -> is_sys n = false -> find_tbl n d = Some t -> Forall val_okP vals ->
  In k (map fst (fetch_rows s n)) -> st_update s n k cols vals = (s', Ok ws) -> IdExt s s'.
Proof.
  intros HR Hsys Hf Hvals Hk Hst.
  destruct (st_update_rep n cols vals s d t k s' ws HR Hsys Hf Hvals Hk Hst) as (HR' & Hfr & _).
  pose proof (st_update_inplace n s k cols vals (r_sinv _ _ HR)) as Hip. rewrite Hst in Hip. cbn [fst] in Hip.
  destruct (InPlace_frame n s s' d HR (is_sys_not_pages _ Hsys) Hip) as [HF Hl].
  eapply (IdExt_from_frame [n] n s s' d _ HR HR' HF); [lia | | |].
  - intros m [<-|[]]. left. reflexivity.
  - intros m Hne. apply find_tbl_set_rows_other. exact Hne.
  - intros i _ Hi. left. unfold ids in *. rewrite Hfr, map_map in Hi.
    erewrite map_ext in Hi; [exact Hi|]. intros kr. cbn. destruct (N.eqb (fst kr) k); reflexivity.
Qed.

Lemma st_delete_idext s d t k s' ws :
  Rep s d -> is_sys n = false -> find_tbl n d = Some t ->
  In k (map fst (fetch_rows s n)) -> st_delete s n k = (s', Ok ws) -> IdExt s s'.
Proof.
  intros HR Hsys Hf Hk Hst.
  destruct (st_delete_rep n s d t k s' ws HR Hsys Hf Hk Hst) as (HR' & Hfr & _).
  pose proof (st_delete_inplace n s k) as Hip. rewrite Hst in Hip. cbn [fst] in Hip.
  destruct (InPlace_frame n s s' d HR (is_sys_not_pages _ Hsys) Hip) as [HF Hl].
  eapply (IdExt_from_frame [n] n s s' d _ HR HR' HF); [lia | | |].
  - intros m [<-|[]]. left. reflexivity.
  - intros m Hne. apply find_tbl_set_rows_other. exact Hne.
  - intros i _ Hi. left. unfold ids in *. rewrite Hfr in Hi.
    apply in_map_iff in Hi as (kr & <- & Hkr). apply filter_In in Hkr as [Hkr _]. apply in_map. exact Hkr.
Qed.

Lemma update_rows_idext cols vals idl : forall s d t b s' b' c,
  Rep s d -> is_sys n = false -> find_tbl n d = Some t -> Forall val_okP vals ->
  (forall k, In k idl -> In k (map fst (fetch_rows s n))) ->
  update_rows s n cols vals idl b = (s', b', OOk c) -> IdExt s s'.
Proof.
  induction idl as [|k rest IH]; intros s d t b s' b' c HR Hsys Hf Hvals Hks Hrun.
  - cbn [update_rows] in Hrun. inversion Hrun; subst. apply IdExt_refl.
  - cbn [update_rows] in Hrun.
    destruct (st_update s n k cols vals) as [s1 [ws|e|]] eqn:Est; try (inversion Hrun; fail).
    pose proof (Hks k (or_introl eq_refl)) as Hk.
    pose proof (st_update_idext cols vals s d t k s1 ws HR Hsys Hf Hvals Hk Est) as H1.
    destruct (st_update_rep n cols vals s d t k s1 ws HR Hsys Hf Hvals Hk Est) as (HR1 & Hfr1 & _).
    match type of HR1 with Rep _ (set_rows _ ?rws _) => pose proof (find_tbl_set_rows n rws d t Hf) as Hf1 end.
    eapply IdExt_trans; [exact H1|].
    eapply (IH s1 _ _ (b ++ ws) s' b' c HR1 Hsys Hf1 Hvals); [|exact Hrun].
    intros k' Hk'. rewrite Hfr1, map_map.
    erewrite map_ext; [apply Hks; right; exact Hk'|].
    intros kr. cbn. destruct (N.eqb (fst kr) k); reflexivity.
Qed.

Lemma delete_rows_idext idl : forall s d t b c0 s' b' c,
  Rep s d -> is_sys n = false -> find_tbl n d = Some t ->
  (forall k, In k idl -> In k (map fst (fetch_rows s n))) -> NoDup idl ->
  delete_rows s n idl b c0 = (s', b', OOk c) -> IdExt s s'.
Proof.
  induction idl as [|k rest IH]; intros s d t b c0 s' b' c HR Hsys Hf Hks Hnd Hrun.
  - cbn [delete_rows] in Hrun. inversion Hrun; subst. apply IdExt_refl.
  - cbn [delete_rows] in Hrun. inversion Hnd as [|? ? Hnk Hnd']; subst.
    destruct (st_delete s n k) as [s1 [ws|e|]] eqn:Est; try (inversion Hrun; fail).
    pose proof (Hks k (or_introl eq_refl)) as Hk.
    pose proof (st_delete_idext s d t k s1 ws HR Hsys Hf Hk Est) as H1.
    destruct (st_delete_rep n s d t k s1 ws HR Hsys Hf Hk Est) as (HR1 & Hfr1 & _).
    match type of HR1 with Rep _ (set_rows _ ?rws _) => pose proof (find_tbl_set_rows n rws d t Hf) as Hf1 end.
    eapply IdExt_trans; [exact H1|].
    eapply (IH s1 _ _ (b ++ ws) (S c0) s' b' c HR1 Hsys Hf1); [|exact Hnd'|exact Hrun].
    intros k' Hk'. rewrite Hfr1. apply in_map_iff.
    destruct (proj1 (in_map_iff _ _ _) (Hks k' (or_intror Hk'))) as (kr & E & Hkr).
    exists kr. split; [exact E|]. apply filter_In. split; [exact Hkr|].
    apply negb_true_iff. apply N.eqb_neq. rewrite E. intros ->. contradiction.
Qed.

End InPlaceIds.

(* ====================== an insert into a catalogued tree, with its root move ====================== *)
Lemma root_insert_fr s d nm off v s1 k lsn nr s2 :
  Rep s d -> nm <> "sys_pages" -> rel_offset s nm = Ok off ->
  bt_insert s off v = (s1, Ok (k, lsn, nr)) ->
  ((nr = off /\ s2 = s1) \/ (nr <> off /\ exists ws, update_page_table s1 nr nm = (s2, Ok ws))) ->
  nextFree s2 <= OFFMAX ->
  exists tr t',
    find_root off (forest s) = Some tr /\
    Fr [nm] s s2 /\ lastKey s2 = lastKey s + 1 /\ rel_offset s2 nm = Ok nr /\
    find_root nr (forest s2) = Some t' /\ all_cells t' = all_cells tr ++ [mkLC (lastKey s + 1) false v].
Proof.
  intros HR Hn Eo Hbt Hcase Hmax. pose proof HR as [Hinv Hok (pt & sc & ents & osc & HC)].
  destruct (find_root off (forest s)) as [tr|] eqn:Hr.
  2:{ exfalso. unfold bt_insert, get_tree in Hbt. rewrite Hr in Hbt. inversion Hbt. }
  pose proof (rel_offset_in_ents s d pt sc ents osc nm off Hinv HC Eo) as Hin.
  pose proof (cat_offset_not_ptroot s d pt sc ents osc HC nm off Hin Hn) as Hop.
  destruct (bt_insert_spec s off v tr Hinv Hr s1 k lsn nr Hbt)
    as (t' & Hinv1 & -> & -> & -> & Hlk & Hptr & Hnf & Hlsn & Hlen & Hroot & Hcells & Hfind & Hframe).
  pose proof (find_root_bound s _ pt Hinv (c_pt _ _ _ _ _ _ HC)) as Hptb.
  exists tr, t'. split; [reflexivity|].
  destruct Hcase as [[Esame ->]|[Emoved (ws & Eup)]].
  - (* the root stayed *)
    split.
    { apply (Fr_one_tree nm s s1 d off HR Hn Eo Hptr). intros x Hx. apply Hframe; congruence. }
    split; [exact Hlk|]. split.
    { rewrite Esame. rewrite (rel_offset_same s s1 nm Hptr); [exact Eo|]. apply Hframe; congruence. }
    split; [exact Hfind | exact Hcells].
  - (* the root moved to a fresh page: the catalog row is rewritten *)
    destruct Hroot as [Hroot|Hroot]; [contradiction|].
    assert (Hpt1 : find_root (ptRoot s1) (forest s1) = Some pt).
    { rewrite Hptr, Hframe by (try congruence; lia). apply (c_pt _ _ _ _ _ _ HC). }
    pose proof (cat_names_NoDup d ents Hok (c_names _ _ _ _ _ _ HC)) as Hnd.
    destruct (update_page_table_spec s1 pt ents nm off (t_off t') Hinv1 Hpt1
                (c_ptcells _ _ _ _ _ _ HC) (c_ptfits _ _ _ _ _ _ HC) Hnd Hin s2 ws Eup)
      as (pt' & Hinv2 & Hptr2 & Hnf2 & Hlk2 & Hpt2 & Hframe2 & Hcells2).
    assert (Hnrmax : t_off t' < OFFMAX).
    { pose proof (find_root_bound s1 _ t' Hinv1 Hfind). lia. }
    assert (Hfits2 : Forall pt_fits (map (upd nm (t_off t')) ents)).
    { pose proof (c_ptfits _ _ _ _ _ _ HC) as Hf. rewrite Forall_forall in *. intros e He.
      apply in_map_iff in He as (e0 & <- & Hin0). unfold upd.
      destruct (String.eqb_spec (fst e0) nm) as [E|E]; [|auto].
      destruct e0 as [n0 o0]. cbn [fst] in E. subst n0. eapply pt_fits_offset; [apply (Hf _ Hin0) | exact Hnrmax]. }
    assert (Hnd2 : NoDup (map fst (map (upd nm (t_off t')) ents))) by (rewrite map_upd_fst; exact Hnd).
    assert (Hpt2' : find_root (ptRoot s2) (forest s2) = Some pt') by (rewrite Hptr2; exact Hpt2).
    split.
    { intros m om t Hm Hs Em Ht.
      pose proof (rel_offset_in_ents s d pt sc ents osc m om Hinv HC Em) as Him.
      assert (Hne : m <> nm) by (intros ->; apply Hm; left; reflexivity).
      split.
      - rewrite (rel_offset_cat s2 pt' _ m Hinv2 Hpt2' Hcells2 Hfits2).
        rewrite (find_assoc_unique m om _ Hnd2 (in_map_upd_other nm _ ents m om Hne Him)). reflexivity.
      - exists t. split; [|reflexivity].
        pose proof (cat_offset_not_ptroot s d pt sc ents osc HC m om Him Hs) as X1.
        pose proof (cat_offsets_distinct s d pt sc ents osc Hok HC m om nm off Him Hin Hs Hn Hne) as X2.
        pose proof (find_root_bound s om t Hinv Ht) as X3.
        rewrite Hframe2 by congruence. rewrite Hframe by (try assumption; lia). exact Ht. }
    split; [rewrite Hlk2; exact Hlk|]. split.
    { rewrite (rel_offset_cat s2 pt' _ nm Hinv2 Hpt2' Hcells2 Hfits2).
      rewrite (find_assoc_unique nm (t_off t') _ Hnd2 (in_map_upd_self nm off _ ents Hin)). reflexivity. }
    split; [|exact Hcells].
    rewrite Hframe2 by (rewrite Hptr; lia). exact Hfind.
Qed.

Lemma ins_precheck_off s n cols vals off bs :
  ins_precheck s n cols vals = Ok (off, bs) -> rel_offset s n = Ok off.
Proof.
  unfold ins_precheck. destruct (rel_offset s n) as [o|e|]; cbn [bind]; try discriminate.
  destruct (get_tree s o) as [t|e|]; cbn [bind]; try discriminate.
  destruct (rel_schema s n) as [sch|e|]; cbn [bind]; try discriminate.
  destruct (negb _); try discriminate.
  destruct (cols_err _ _ _); try discriminate.
  destruct (encode_tuple _ _) as [b|e|]; cbn [bind]; try discriminate.
  intros H. inversion H; subst. reflexivity.
Qed.

Lemma keys_scan_app_live a k v :
  keys_of (live (a ++ [mkLC k false v])) = keys_of (live a) ++ [k].
Proof. rewrite live_app. unfold keys_of. rewrite map_app. reflexivity. Qed.

Section InsertIds.
Variables (n : string) (cols : list string).

Lemma st_insert_idext s d t vals s' ws :
  Rep s d -> is_sys n = false -> find_tbl n d = Some t -> Forall val_okP vals ->
  nextFree s' <= OFFMAX -> st_insert s n cols vals = (s', Ok ws) -> IdExt s s'.
Proof.
  intros HR Hsys Hf Hvals Hmax Hst.
  destruct (st_insert_rep n cols s d t vals s' ws HR Hsys Hf Hvals Hmax Hst) as (_ & _ & _ & HR').
  match type of HR' with Rep _ (set_rows _ ?rws _) => pose proof (find_tbl_set_rows n rws d t Hf) as Hf' end.
  rewrite st_insert_unfold, is_sys_table_is_sys, Hsys in Hst.
  destruct (ins_precheck s n cols vals) as [[off bs]|e|] eqn:Epre; try (inversion Hst; fail).
  pose proof (ins_precheck_off _ _ _ _ _ _ Epre) as Eo.
  destruct (bt_insert s off bs) as [s1 [[[k lsn] nr]|e|]] eqn:Ebt; try (inversion Hst; fail).
  assert (Hcase : (nr = off /\ s' = s1) \/ (nr <> off /\ exists ws2, update_page_table s1 nr n = (s', Ok ws2))).
  { cbv zeta in Hst. destruct (N.eqb_spec nr off) as [E|E].
    - left. inversion Hst; subst. auto.
    - right. split; [exact E|]. destruct (update_page_table s1 nr n) as [s2 [ws2|e|]]; inversion Hst; subst. eauto. }
  destruct (root_insert_fr s d n off bs s1 k lsn nr s' HR (is_sys_not_pages _ Hsys) Eo Ebt Hcase Hmax)
    as (tr & t' & Hr & HF & Hl & Eo' & Hr' & Hc).
  eapply (IdExt_from_frame [n] n s s' d _ HR HR' HF); [lia | | |].
  - intros m [<-|[]]. left. reflexivity.
  - intros m Hne. apply find_tbl_set_rows_other. exact Hne.
  - intros i _ Hi.
    rewrite (ids_user s' _ n _ nr t' HR' Hsys Hf' Eo' Hr') in Hi.
    rewrite (ids_user s d n t off tr HR Hsys Hf Eo Hr).
    unfold scan_tree in *. rewrite Hc, keys_scan_app_live in Hi.
    apply in_app_or in Hi as [Hi|[<-|[]]]; [left; exact Hi | right; lia].
Qed.

Lemma insert_rows_idext rows : forall s d t b k s' b' c,
  Rep s d -> is_sys n = false -> find_tbl n d = Some t -> Forall (Forall val_okP) rows ->
  nextFree s' <= OFFMAX -> insert_rows s n cols rows b k = (s', b', OOk c) -> IdExt s s'.
Proof.
  induction rows as [|vals rest IH]; intros s d t b k s' b' c HR Hsys Hf Hvals Hmax Hrun.
  - cbn [insert_rows] in Hrun. inversion Hrun; subst. apply IdExt_refl.
  - cbn [insert_rows] in Hrun. inversion Hvals as [|? ? Hv Hvr]; subst.
    destruct (st_insert s n cols vals) as [s1 [ws|e|]] eqn:Est; try (inversion Hrun; fail).
    assert (Hmax1 : nextFree s1 <= OFFMAX).
    { pose proof (insert_rows_free_mono rest s1 n cols (b ++ ws) (S k)) as X. rewrite Hrun in X. cbn [fst] in X. lia. }
    pose proof (st_insert_idext s d t vals s1 ws HR Hsys Hf Hv Hmax1 Est) as H1.
    destruct (st_insert_rep n cols s d t vals s1 ws HR Hsys Hf Hv Hmax1 Est) as (_ & _ & _ & HR1).
    match type of HR1 with Rep _ (set_rows _ ?rws _) => pose proof (find_tbl_set_rows n rws d t Hf) as Hf1 end.
    eapply IdExt_trans; [exact H1|].
    exact (IH s1 _ _ (b ++ ws) (S k) s' b' c HR1 Hsys Hf1 Hvr Hmax Hrun).
Qed.

End InsertIds.

(* ====================== CREATE TABLE ====================== *)
Lemma pt_lookup_app' n cells more o : pt_lookup n cells = Ok o -> pt_lookup n (cells ++ more) = Ok o.
Proof.
  induction cells as [|c r IH]; cbn [pt_lookup app]; [discriminate|].
  destruct (decode_tuple pageTableSchema (lc_val c) []) as [m|e|]; cbn [bind]; try discriminate.
  destruct (value_eqb _ _); [intros H; exact H | exact IH].
Qed.

Lemma rel_offset_cells' s pt n :
  SInv s -> find_root (ptRoot s) (forest s) = Some pt -> rel_offset s n = pt_lookup n (live (all_cells pt)).
Proof.
  intros Hinv Hpt. unfold rel_offset, get_tree. rewrite Hpt. cbn [bind].
  rewrite (scan_right_okP _ _ (find_root_WFT _ _ _ Hinv Hpt)). reflexivity.
Qed.

(* createPage *)
Lemma create_page_fr s d : Rep s d -> Fr [] s (fst (create_page s)).
Proof.
  intros [Hinv Hok (pt & sc & ents & osc & HC)] m o t _ _ Em Ht.
  pose proof (create_page_extend s Hinv) as Hext. split.
  - rewrite (rel_offset_same s (fst (create_page s)) m); [exact Em | reflexivity|].
    rewrite (Hext _ _ (c_pt _ _ _ _ _ _ HC)). symmetry. apply (c_pt _ _ _ _ _ _ HC).
  - exists t. split; [apply Hext; exact Ht | reflexivity].
Qed.

(* insertPageTable: a row is appended to sys_pages, whose root the header follows *)
Lemma insert_page_table_fr s d pg n s2 :
  Rep s d -> insert_page_table s pg n = (s2, Ok tt) -> Fr [] s s2 /\ lastKey s <= lastKey s2.
Proof.
  intros [Hinv Hok (pt & sc & ents & osc & HC)] Hip. unfold insert_page_table in Hip.
  destruct (encode_tuple _ _) as [bs|e|]; try (inversion Hip; fail).
  destruct (bt_insert s (ptRoot s) bs) as [s1 [[[k lsn] nr]|e|]] eqn:Eb; inversion Hip; subst; clear Hip.
  pose proof (c_pt _ _ _ _ _ _ HC) as Hpt.
  destruct (bt_insert_spec s (ptRoot s) bs pt Hinv Hpt s1 k lsn nr Eb)
    as (t' & Hinv1 & _ & _ & -> & Hlk & Hp1 & Hnf & _ & _ & Hrt & Hcells & Hfind & Hframe).
  split; [|cbn [lastKey]; lia].
  intros m om t _ Hs Em Ht. cbn [forest ptRoot].
  pose proof (rel_offset_in_ents s d pt sc ents osc m om Hinv HC Em) as Him.
  pose proof (cat_offset_not_ptroot s d pt sc ents osc HC m om Him Hs) as X1.
  pose proof (find_root_bound s om t Hinv Ht) as X3.
  pose proof (find_root_bound s _ pt Hinv Hpt) as X4.
  split.
  - unfold rel_offset, get_tree. cbn [ptRoot forest]. rewrite Hfind. cbn [bind].
    rewrite (scan_right_okP _ _ (find_root_WFT _ _ _ Hinv1 Hfind)). cbn [of_tres bind].
    unfold scan_tree. rewrite Hcells, live_app. apply pt_lookup_app'.
    rewrite <- (rel_offset_cells' s pt _ Hinv Hpt). exact Em.
  - exists t. split; [|reflexivity]. rewrite Hframe; [exact Ht | exact X1|].
    destruct Hrt as [Hrt|Hrt]; [congruence | lia].
Qed.

Lemma schema_row_step_fr n fd s d0 sch root s1 root1 :
  Rep s (d0 ++ [mkTbl n sch []]) -> rel_offset s "sys_schema" = Ok root ->
  schema_row_step s root n fd = (s1, Ok root1) -> nextFree s1 <= OFFMAX ->
  Fr ["sys_schema"] s s1 /\ lastKey s <= lastKey s1.
Proof.
  intros HR Hroot Hst Hmax. unfold schema_row_step in Hst.
  destruct (encode_tuple schemaTableSchema (sc_tuple (n, fd))) as [bs|e|]; try (inversion Hst; fail).
  destruct (bt_insert s root bs) as [s0 [[[k lsn] nr]|e|]] eqn:Ebt; try (inversion Hst; fail).
  assert (Hcase : (nr = root /\ s1 = s0) \/ (nr <> root /\ exists ws2, update_page_table s0 nr "sys_schema" = (s1, Ok ws2))).
  { destruct (N.eqb_spec nr root) as [E|E].
    - left. inversion Hst; subst. auto.
    - right. split; [exact E|]. unfold schemaTableName in Hst.
      destruct (update_page_table s0 nr "sys_schema") as [s2 [ws2|e|]]; inversion Hst; subst. eauto. }
  destruct (root_insert_fr s _ "sys_schema" root bs s0 k lsn nr s1 HR ltac:(discriminate) Hroot Ebt Hcase Hmax)
    as (tr & t' & _ & HF & Hl & _).
  split; [exact HF | lia].
Qed.

Lemma insert_schema_rows_fr n fds : forall s d0 sch root s',
  Rep s (d0 ++ [mkTbl n sch []]) -> rel_offset s "sys_schema" = Ok root ->
  NoDup (names (sch ++ fds)) -> nextFree s' <= OFFMAX ->
  insert_schema_rows s root n fds = (s', Ok tt) ->
  Fr ["sys_schema"] s s' /\ lastKey s <= lastKey s'.
Proof.
  induction fds as [|fd fds IH]; intros s d0 sch root s' HR Hroot Hnd Hmax Hrun.
  - cbn [insert_schema_rows] in Hrun. inversion Hrun; subst. split; [apply Fr_refl | lia].
  - rewrite insert_schema_rows_unfold in Hrun. destruct (names_prefix sch fd fds Hnd) as [Hnd1 Hnd2].
    pose proof (schema_row_step_rep n fd s d0 sch root HR Hroot Hnd1) as Hstep.
    destruct (schema_row_step s root n fd) as [s1 [root1|e1|]] eqn:Est; try (inversion Hrun; fail).
    assert (Hmax1 : nextFree s1 <= OFFMAX).
    { pose proof (insert_schema_rows_free_mono n fds s1 root1) as X. rewrite Hrun in X. cbn [fst] in X. lia. }
    destruct (Hstep Hmax1) as [HR1 Hroot1].
    destruct (schema_row_step_fr n fd s d0 sch root s1 root1 HR Hroot Est Hmax1) as [F1 L1].
    destruct (IH s1 d0 (sch ++ [fd]) root1 s' HR1 Hroot1 Hnd2 Hmax Hrun) as [F2 L2].
    split; [eapply Fr_trans; eauto | lia].
Qed.

Lemma st_create_table0_idext s d n fds s' :
  Rep s d -> is_sys n = false -> NoDup (names fds) -> nextFree s' <= OFFMAX ->
  st_create_table0 s n fds = (s', Ok tt) -> IdExt s s'.
Proof.
  intros HR Hsys Hnd Hmax Hrun.
  destruct (st_create_table0_rep s d n fds s' HR Hsys Hnd Hmax Hrun) as [Hf HR'].
  pose proof HR as [Hinv Hok (pt & sc & ents & osc & HC)].
  unfold st_create_table0 in Hrun.
  rewrite (cat_rel_offset_none s d pt sc ents osc Hinv HC n Hsys Hf) in Hrun.
  pose proof (create_register_rep s d n) as Hreg.
  pose proof (create_page_fr s d HR) as F0.
  pose proof (Rep_extend s (fst (create_page s)) d HR (create_page_inv s Hinv) eq_refl (create_page_extend s Hinv)) as HR1.
  destruct (create_page s) as [s1 pg] eqn:Ecp.
  assert (pg = nextFree s /\ lastKey s1 = lastKey s) as [-> Hl1] by (unfold create_page in Ecp; inversion Ecp; subst; auto).
  cbn [fst] in Hreg, F0, HR1.
  destruct (insert_page_table s1 (nextFree s) n) as [s2 [[]|e|]] eqn:Eip; try (inversion Hrun; fail).
  destruct (insert_page_table_fr s1 d (nextFree s) n s2 HR1 Eip) as [F1 L1].
  unfold insert_schema_table in Hrun.
  assert (Hmax2 : nextFree s2 <= OFFMAX).
  { destruct (rel_offset s2 schemaTableName) as [off|e|]; cbn [bind] in Hrun; try (inversion Hrun; fail).
    destruct (get_tree s2 off) as [x|e|]; cbn [bind] in Hrun; try (inversion Hrun; fail).
    pose proof (insert_schema_rows_free_mono n fds s2 off) as X. rewrite Hrun in X. cbn [fst] in X. lia. }
  pose proof (Hreg s2 HR Hsys Hf Hmax2 eq_refl) as HR2.
  pose proof HR2 as [Hinv2 Hok2 (pt2 & sc2 & ents2 & osc2 & HC2)].
  pose proof (cat_rel_offset_in s2 _ pt2 sc2 _ osc2 Hinv2 Hok2 HC2 _ _ (c_osc _ _ _ _ _ _ HC2)) as Eosc.
  unfold schemaTableName in Hrun. rewrite Eosc in Hrun. cbn [bind] in Hrun.
  unfold get_tree in Hrun. rewrite (c_sc _ _ _ _ _ _ HC2) in Hrun. cbn [bind] in Hrun.
  destruct (insert_schema_rows_fr n fds s2 d [] osc2 s' HR2 Eosc Hnd Hmax Hrun) as [F2 L2].
  assert (HF : Fr ["sys_schema"] s s').
  { eapply Fr_trans; [|exact F2]. eapply Fr_weaken; [|eapply Fr_trans; [exact F0 | exact F1]]. intros x []. }
  eapply (IdExt_from_frame ["sys_schema"] n s s' d _ HR HR' HF); [lia | | |].
  - intros m [<-|[]]. right. reflexivity.
  - intros m Hne. apply find_tbl_app_last. cbn [tb_name]. congruence.
  - intros i _ Hi. exfalso.
    assert (Hfn : find_tbl n (d ++ [mkTbl n fds []]) = Some (mkTbl n fds [])) by (apply find_tbl_app_new; [exact Hf | reflexivity]).
    destruct (st_fetch_user s' _ n _ HR' Hsys Hfn) as (o & tr & _ & _ & _ & _ & Hfetch).
    unfold ids, fetch_rows in Hi. rewrite Hfetch in Hi. cbn [tb_rows] in Hi. rewrite combine_nil in Hi. exact Hi.
Qed.

(* ====================== one acknowledged statement ====================== *)
Theorem run_stmt_idext s d st c :
  Rep s d -> stmt_ok st = true -> nextFree (e_store (run_stmt s st)) <= OFFMAX ->
  e_out (run_stmt s st) = OOk c -> IdExt s (e_store (run_stmt s st)).
Proof.
  intros HR Hst Hmax Hout. destruct st as [q|n cds|n| |n|n cols rows|n sets w|n w]; try (cbn in Hout; discriminate).
  - (* CREATE TABLE *)
    clear Hst. cbn [run_stmt] in *.
    destruct (is_sys n) eqn:Hsys.
    { exfalso. destruct (rel_offset_sys s d n HR Hsys) as [o Eo]. unfold st_create_table, create_bad_rows, st_create_table0 in Hout.
      rewrite Eo in Hout. destruct (names_distinct _); cbn in Hout; discriminate. }
    destruct (st_create_table s n (map fielddef_of cds)) as [s1 [[]|e|]] eqn:Ec; cbn [e_store e_out] in *; try discriminate.
    assert (Hmax1 : nextFree s1 <= OFFMAX) by exact Hmax.
    apply st_create_table_ok_inv in Ec as (Hd & _ & Hrun). fold (names (map fielddef_of cds)) in Hd.
    pose proof (st_create_table0_idext s d n _ s1 HR Hsys (names_distinct_NoDup _ Hd) Hmax1 Hrun) as [L H].
    split; [exact L|]. intros m i Hm Hi. rewrite ids_flush in Hi. apply H; assumption.
  - (* INSERT *)
    cbn [stmt_ok] in Hst. rename Hst into Hv.
    assert (Hvals : Forall (Forall val_okP) rows).
    { apply forallb_Forall in Hv. eapply Forall_impl; [|exact Hv]. intros r. apply forallb_Forall. }
    cbn [run_stmt] in *. destruct (first_err _ rows) as [u|e0|]; try discriminate.
    destruct (insert_rows s n cols rows [] 0) as [[s1 b] o] eqn:Er. cbn [e_store e_out] in *. subst o.
    destruct rows as [|r rest]; [cbn in Er; inversion Er; subst; apply IdExt_refl|].
    destruct (is_sys n) eqn:Hsys.
    { exfalso. cbn [insert_rows] in Er. unfold st_insert, ins_bad_cols, st_insert0 in Er.
      rewrite is_sys_table_is_sys, Hsys in Er. inversion Er. }
    destruct (find_tbl n d) as [t|] eqn:Hf.
    + exact (insert_rows_idext n cols (r :: rest) s d t [] 0%nat s1 b c HR Hsys Hf Hvals Hmax Er).
    + exfalso. cbn [insert_rows] in Er. unfold st_insert, ins_bad_cols, st_insert0 in Er.
      rewrite is_sys_table_is_sys, Hsys in Er.
      destruct HR as [Hinv Hok (pt & sc & ents & osc & HC)].
      rewrite (cat_rel_offset_none s d pt sc ents osc Hinv HC n Hsys Hf) in Er. cbn [bind] in Er. inversion Er.
  - (* UPDATE *)
    cbn [stmt_ok] in Hst. rename Hst into Hv.
    apply forallb_Forall in Hv. fold (set_vals sets) in *.
    cbn [run_stmt] in *. fold (set_vals sets) in *.
    destruct (existsb _ sets) eqn:Ex; [cbn in Hout; discriminate|].
    destruct (where_ids s n w) as [idl|e|] eqn:Ew; cbn [e_out e_store] in *; try discriminate.
    destruct (first_err _ idl) as [u|e0|]; cbn [e_out e_store] in *; try discriminate.
    destruct idl as [|k0 rest0]; [cbn in *; apply IdExt_refl|].
    destruct (is_sys n) eqn:Hsys.
    { exfalso. cbn [update_rows] in Hout. unfold st_update, upd_bad_cols, st_update0 in Hout.
      rewrite is_sys_table_is_sys, Hsys in Hout. cbn in Hout. discriminate. }
    destruct (find_tbl n d) as [t|] eqn:Hf.
    2:{ exfalso. unfold where_ids in Ew. rewrite (st_fetch_missing s d n HR Hsys Hf) in Ew. discriminate. }
    destruct (where_ids_spec s n w _ Ew) as (idrows & fs & Hfetch & Hids & Hev).
    destruct (update_rows s n (map fst sets) (set_vals sets) (k0 :: rest0) []) as [[s1 b] o1] eqn:Eu. cbn [e_store e_out] in *. subst o1.
    apply (update_rows_idext n (map fst sets) (set_vals sets) (k0 :: rest0) s d t [] s1 b c HR Hsys Hf Hv); [|exact Eu].
    intros k Hk. rewrite Hids in Hk. unfold fetch_rows. rewrite Hfetch.
    apply in_map_iff in Hk as (kr & <- & Hkr). apply filter_In in Hkr as [Hkr _]. apply in_map. exact Hkr.
  - (* DELETE *)
    cbn [run_stmt] in *.
    destruct (where_ids s n w) as [idl|e|] eqn:Ew; cbn [e_out e_store] in *; try discriminate.
    destruct idl as [|k0 rest0]; [cbn in *; apply IdExt_refl|].
    destruct (is_sys n) eqn:Hsys.
    { exfalso. cbn [delete_rows] in Hout. unfold st_delete in Hout. rewrite is_sys_table_is_sys, Hsys in Hout.
      cbn in Hout. discriminate. }
    destruct (find_tbl n d) as [t|] eqn:Hf.
    2:{ exfalso. unfold where_ids in Ew. rewrite (st_fetch_missing s d n HR Hsys Hf) in Ew. discriminate. }
    destruct (where_ids_spec s n w _ Ew) as (idrows & fs & Hfetch & Hids & Hev).
    destruct (st_fetch_user s d n t HR Hsys Hf) as (o & tr & Eo & Hr & Es & Ht & Hfetch').
    destruct (fetch_rows_ids s d n t o tr HR Hsys Hf Eo Hr) as (_ & _ & Hndk).
    destruct (delete_rows s n (k0 :: rest0) [] 0) as [[s1 b] o1] eqn:Eu. cbn [e_store e_out] in *. subst o1.
    apply (delete_rows_idext n (k0 :: rest0) s d t [] 0%nat s1 b c HR Hsys Hf); [| |exact Eu].
    + intros k Hk. rewrite Hids in Hk. unfold fetch_rows. rewrite Hfetch.
      apply in_map_iff in Hk as (kr & <- & Hkr). apply filter_In in Hkr as [Hkr _]. apply in_map. exact Hkr.
    + rewrite Hids. apply NoDup_map_filter. unfold fetch_rows in Hndk. rewrite Hfetch in Hndk. exact Hndk.
Qed.
