(* Lemmas about Model/Csv.v used by Properties/C19.v. *)
From Coq Require Import List ZArith String Ascii Bool Arith Lia.
From Mkdb Require Import Model.Value Model.Csv Spec.CsvSpec.
Import ListNotations.
Open Scope Z_scope.

(* ---- max_idx bounds every source index ---- *)
Lemma fold_max_ge l : forall a, (a <= fold_left Nat.max l a)%nat /\
  forall x, In x l -> (x <= fold_left Nat.max l a)%nat.
Proof.
  induction l as [|y r IH]; intros a; cbn [fold_left]; [split; [lia|intros x []]|].
  destruct (IH (Nat.max a y)) as [A B]. split; [lia|]. intros x [->|H]; [lia|apply B, H].
Qed.

Lemma max_idx_ge srcs ix : In ix srcs -> (ix <= max_idx srcs)%nat.
Proof. unfold max_idx. apply (fold_max_ge srcs 0%nat). Qed.

(* ---- csvToSql ---- *)
(* the values csvToSql produces when it succeeds *)
Fixpoint vals_of (tys : list coltype) (srcs : list nat) (rec : list string) : list value :=
  match srcs with
  | [] => []
  | ix :: ss => cellval (hd_error tys) (nth ix rec ""%string) :: vals_of (tl tys) ss rec
  end.

Lemma vals_of_length srcs rec : forall tys, List.length (vals_of tys srcs rec) = List.length srcs.
Proof. induction srcs as [|ix ss IH]; intros tys; cbn; [reflexivity|]. rewrite IH. reflexivity. Qed.

Lemma csv_spec srcs : forall tys rec,
  (List.length srcs <= List.length tys)%nat ->
  (forall ix, In ix srcs -> (ix < List.length rec)%nat) ->
  csv_to_sql tys srcs rec = if convertible tys srcs rec then CsvOk (vals_of tys srcs rec) else CsvErr.
Proof.
  induction srcs as [|ix ss IH]; intros tys rec Hl Hr; [reflexivity|].
  cbn [csv_to_sql convertible vals_of].
  assert (Hix : (ix < List.length rec)%nat) by (apply Hr; left; reflexivity).
  rewrite (nth_error_nth' rec ""%string Hix).
  destruct tys as [|ty tys']; [cbn in Hl; lia|]. cbn [tl hd_error].
  assert (Hl' : (List.length ss <= List.length tys')%nat) by (cbn in Hl; lia).
  assert (Hr' : forall i, In i ss -> (i < List.length rec)%nat) by (intros i Hi; apply Hr; right; exact Hi).
  specialize (IH tys' rec Hl' Hr'). unfold cellval.
  destruct (String.eqb (nth ix rec ""%string) null_marker) eqn:En; cbn [orb andb].
  - rewrite IH. destruct (convertible tys' ss rec); reflexivity.
  - destruct (conv ty (nth ix rec ""%string)) as [v|]; cbn [is_some andb]; [|reflexivity].
    rewrite IH. destruct (convertible tys' ss rec); reflexivity.
Qed.

(* ---- the stored row is the declarative one ---- *)
Lemma tuple_cell name cols : forall tys srcs rec,
  tuple_get name cols (vals_of tys srcs rec) = cell name cols tys srcs rec.
Proof.
  induction cols as [|c cs IH]; intros tys srcs rec; [reflexivity|].
  destruct srcs as [|ix ss]; [reflexivity|]. cbn [vals_of tuple_get cell]. rewrite IH. reflexivity.
Qed.

Lemma build_row_convert c sch rec :
  build_row sch (eff_cols sch (dstCols c)) (vals_of (colTypes c) (srcCols c) rec) = convert c sch rec.
Proof.
  unfold build_row, convert. apply map_ext. intros fd. rewrite tuple_cell. reflexivity.
Qed.

Lemma validate_fits ty v : value_fits ty v = match validate ty v with None => true | Some _ => false end.
Proof.
  destruct ty, v; cbn; try reflexivity.
  unfold int32_min, int32_max.
  destruct (z >? 2147483647) eqn:A; destruct (z <? -2147483648) eqn:B; cbn;
    destruct (-2147483648 <=? z) eqn:C; destruct (z <=? 2147483647) eqn:D; cbn; try reflexivity; lia.
Qed.

Lemma first_invalid_fits sch : forall r,
  row_fits sch r = match first_invalid sch r with None => true | Some _ => false end.
Proof.
  induction sch as [|fd sch' IH]; intros r; [reflexivity|]. destruct r as [|v r']; [reflexivity|].
  cbn [row_fits first_invalid]. rewrite validate_fits. destruct (validate (fd_type fd) v); [reflexivity|].
  cbn [andb]. apply IH.
Qed.

Definition insert_cond (c : cfg) (sch : schema) (rec : list string) : bool :=
  Nat.eqb (List.length (eff_cols sch (dstCols c))) (List.length (srcCols c)) &&
  cols_ok (map fd_name sch) (eff_cols sch (dstCols c)) [] &&
  row_fits sch (convert c sch rec) &&
  (enc_size sch (convert c sch rec) <=? maxValueSize).

Lemma insert_spec c sch rec :
  match insert_row sch (dstCols c) (vals_of (colTypes c) (srcCols c) rec) with
  | InsOk r => insert_cond c sch rec = true /\ r = convert c sch rec
  | InsErr _ => insert_cond c sch rec = false
  end.
Proof.
  unfold insert_row, insert_cond. rewrite vals_of_length, build_row_convert, first_invalid_fits.
  destruct (Nat.eqb (List.length (eff_cols sch (dstCols c))) (List.length (srcCols c))); cbn [negb andb]; [|reflexivity].
  destruct (cols_ok _ _ _); cbn [negb andb]; [|reflexivity].
  destruct (first_invalid sch (convert c sch rec)); cbn [andb]; [reflexivity|].
  destruct (enc_size sch (convert c sch rec) >? maxValueSize) eqn:E.
  - apply Z.leb_gt. lia.
  - split; [apply Z.leb_le; lia|reflexivity].
Qed.

(* ---- one record ---- *)
Inductive rec_outcome := RoStored (r : row) | RoRejected (e : err_class) | RoPanic.

Definition record_step (c : cfg) (sch : schema) (rec : list string) : rec_outcome :=
  if (List.length rec <=? max_idx (srcCols c))%nat then RoRejected ErrMalformed
  else match csv_to_sql (colTypes c) (srcCols c) rec with
       | CsvPanic => RoPanic
       | CsvErr => RoRejected ErrMalformed
       | CsvOk vals => match insert_row sch (dstCols c) vals with
                       | InsErr e => RoRejected e
                       | InsOk r => RoStored r
                       end
       end.

Lemma record_spec c sch rec : no_panic c = true ->
  match record_step c sch rec with
  | RoStored r => accepted c sch rec = true /\ r = convert c sch rec
  | RoRejected _ => accepted c sch rec = false
  | RoPanic => False
  end.
Proof.
  intros Hn. unfold no_panic in Hn. apply Nat.leb_le in Hn. unfold record_step, accepted.
  destruct (List.length rec <=? max_idx (srcCols c))%nat eqn:El.
  - apply Nat.leb_le in El. assert (H : (max_idx (srcCols c) <? List.length rec)%nat = false) by (apply Nat.ltb_ge; lia).
    rewrite H. reflexivity.
  - apply Nat.leb_gt in El. assert (H : (max_idx (srcCols c) <? List.length rec)%nat = true) by (apply Nat.ltb_lt; lia).
    rewrite H. cbn [andb].
    rewrite (csv_spec (srcCols c) (colTypes c) rec Hn).
    2:{ intros ix Hi. pose proof (max_idx_ge _ _ Hi). lia. }
    destruct (convertible (colTypes c) (srcCols c) rec); cbn [andb]; [|reflexivity].
    pose proof (insert_spec c sch rec) as Hi. unfold insert_cond in Hi.
    destruct (insert_row sch (dstCols c) (vals_of (colTypes c) (srcCols c) rec)); [exact Hi|].
    rewrite <- !andb_assoc in *. exact Hi.
Qed.

Lemma import_record c sch rec r tbl :
  import c sch (RRecord rec :: r) tbl =
  match record_step c sch rec with
  | RoStored row => (EvOk :: fst (import c sch r (tbl ++ [row])), snd (import c sch r (tbl ++ [row])))
  | RoRejected e => (EvErr e :: fst (import c sch r tbl), snd (import c sch r tbl))
  | RoPanic => ([EvPanic], tbl)
  end.
Proof.
  cbn [import]. unfold record_step.
  destruct (List.length rec <=? max_idx (srcCols c))%nat.
  - destruct (import c sch r tbl); reflexivity.
  - destruct (csv_to_sql (colTypes c) (srcCols c) rec).
    + destruct (insert_row sch (dstCols c) vals).
      * destruct (import c sch r (tbl ++ [r0])); reflexivity.
      * destruct (import c sch r tbl); reflexivity.
    + destruct (import c sch r tbl); reflexivity.
    + reflexivity.
Qed.

(* ---- the whole import ---- *)
Lemma import_exact c sch : no_panic c = true -> forall evs tbl,
  snd (import c sch evs tbl) = tbl ++ map (convert c sch) (accepted_records c sch (until_stop evs)) /\
  map is_ok (fst (import c sch evs tbl)) = map (event_accepted c sch) (until_stop evs) /\
  ~ In EvPanic (fst (import c sch evs tbl)).
Proof.
  intros Hn. induction evs as [|ev r IH]; intros tbl.
  - cbn. rewrite app_nil_r. repeat split; auto.
  - destruct ev as [rec| |].
    + rewrite import_record. pose proof (record_spec c sch rec Hn) as Hs.
      cbn [until_stop accepted_records map event_accepted].
      destruct (record_step c sch rec) as [row|e|].
      * destruct Hs as [Ha ->]. rewrite Ha. destruct (IH (tbl ++ [convert c sch rec])) as (A & B & C).
        cbn [fst snd map is_ok]. rewrite A, B, <- app_assoc. repeat split; try reflexivity.
        intros [H|H]; [discriminate|exact (C H)].
      * rewrite Hs. destruct (IH tbl) as (A & B & C). cbn [fst snd map is_ok]. rewrite A, B.
        repeat split; try reflexivity. intros [H|H]; [discriminate|exact (C H)].
      * destruct Hs.
    + cbn [import until_stop accepted_records map event_accepted]. destruct (IH tbl) as (A & B & C).
      destruct (import c sch r tbl) as [os t]. cbn [fst snd map is_ok] in *. rewrite A, B.
      repeat split; try reflexivity. intros [H|H]; [discriminate|exact (C H)].
    + cbn. rewrite app_nil_r. repeat split; try reflexivity. intros [H|[]]. discriminate.
Qed.

(* ---- a rejected record is invisible ---- *)
Lemma accepted_records_drop c sch bad evs1 : forall evs2,
  event_accepted c sch bad = false -> bad <> ROtherErr ->
  accepted_records c sch (until_stop (evs1 ++ bad :: evs2)) = accepted_records c sch (until_stop (evs1 ++ evs2)).
Proof.
  intros evs2 Hb Hn. induction evs1 as [|e r IH].
  - cbn [app]. destruct bad as [rec| |]; cbn [until_stop accepted_records].
    + cbn [event_accepted] in Hb. rewrite Hb. reflexivity.
    + reflexivity.
    + contradiction.
  - cbn [app]. destruct e as [rec| |]; cbn [until_stop accepted_records]; [rewrite IH; reflexivity|exact IH|reflexivity].
Qed.

Lemma rejected_invisible c sch evs1 bad evs2 tbl :
  no_panic c = true -> event_accepted c sch bad = false -> bad <> ROtherErr ->
  snd (import c sch (evs1 ++ bad :: evs2) tbl) = snd (import c sch (evs1 ++ evs2) tbl).
Proof.
  intros Hn Hb Hs. rewrite (proj1 (import_exact c sch Hn _ tbl)), (proj1 (import_exact c sch Hn _ tbl)).
  rewrite (accepted_records_drop c sch bad evs1 evs2 Hb Hs). reflexivity.
Qed.

Lemma ok_count c sch evs :
  List.length (filter (fun b : bool => b) (map (event_accepted c sch) evs)) = List.length (accepted_records c sch evs).
Proof.
  induction evs as [|e r IH]; [reflexivity|]. destruct e as [rec| |]; cbn [map event_accepted accepted_records filter].
  - destruct (accepted c sch rec); cbn [List.length]; rewrite IH; reflexivity.
  - exact IH.
  - exact IH.
Qed.

Lemma import_counts c sch evs tbl : no_panic c = true ->
  List.length (fst (import c sch evs tbl)) = List.length (until_stop evs) /\
  (List.length (filter is_ok (fst (import c sch evs tbl))) + List.length tbl = List.length (snd (import c sch evs tbl)))%nat.
Proof.
  intros Hn. destruct (import_exact c sch Hn evs tbl) as (A & B & _). split.
  - rewrite <- (map_length is_ok), B, map_length. reflexivity.
  - rewrite A, app_length, map_length, <- ok_count, <- B.
    assert (H : forall l, List.length (filter is_ok l) = List.length (filter (fun b : bool => b) (map is_ok l))).
    { induction l as [|x l IHl]; [reflexivity|]. cbn [filter map]. destruct (is_ok x); cbn [List.length]; rewrite IHl; reflexivity. }
    rewrite H. lia.
Qed.

(* ---- a configuration accepted by makeConfig cannot make the import goroutine panic ---- *)
Lemma col_data_types_length sch : forall dst ts, col_data_types sch dst = Some ts -> List.length ts = List.length dst.
Proof.
  induction dst as [|d r IH]; intros ts H; cbn [col_data_types] in H.
  - inversion H. reflexivity.
  - destruct (field_type sch d); [|discriminate]. destruct (col_data_types sch r) as [ts'|]; [|discriminate].
    inversion H. cbn [List.length]. rewrite (IH ts' eq_refl). reflexivity.
Qed.

Lemma make_config_no_panic sch dst src c : make_config sch dst src = Some c -> no_panic c = true.
Proof.
  unfold make_config. destruct (existsb _ src); [discriminate|].
  destruct (List.length dst <? List.length src)%nat eqn:El; [discriminate|].
  destruct (col_data_types sch dst) as [ts|] eqn:Et; [|discriminate].
  intros H. inversion H. unfold no_panic. cbn [srcCols colTypes].
  rewrite map_length, (col_data_types_length sch dst ts Et). apply Nat.leb_le. apply Nat.ltb_ge in El. exact El.
Qed.

Lemma import_exact_configured sch dst src c : make_config sch dst src = Some c -> forall evs tbl,
  snd (import c sch evs tbl) = tbl ++ map (convert c sch) (accepted_records c sch (until_stop evs)) /\
  map is_ok (fst (import c sch evs tbl)) = map (event_accepted c sch) (until_stop evs) /\
  ~ In EvPanic (fst (import c sch evs tbl)).
Proof. intros H. apply import_exact. eapply make_config_no_panic; eauto. Qed.
