(* Aggregation, column by column: the monadic loop over the select list (agg_cols) is a pure
   positional update when rows are wide enough and aggregate cells hold integers; folding it
   over the members of a group computes every output cell from its own column. *)
From Coq Require Import ZArith String Bool List Ascii Permutation Lia.
From Mkdb Require Import Model.CaseLib Model.Select Spec.SelectSpec.
Import ListNotations.

(* ---------------------------------------------------------------------------------- *)
(* rounding                                                                            *)

Lemma round_div_1 x : round_div x 1 = x.
Proof.
  unfold round_div. destruct (0 <=? x)%Z eqn:E.
  - apply Z.leb_le in E. symmetry. apply Z.div_unique with (r := 1%Z); lia.
  - apply Z.leb_gt in E. assert (H : ((2 * - x + 1) / (2 * 1) = - x)%Z) by (symmetry; apply Z.div_unique with (r := 1%Z); lia).
    rewrite H. lia.
Qed.

(* the result is a nearest integer to s / n *)
Lemma round_div_near s n : (0 < n)%Z -> (2 * Z.abs (n * round_div s n - s) <= n)%Z.
Proof.
  intros Hn. unfold round_div. destruct (0 <=? s)%Z eqn:E.
  - apply Z.leb_le in E.
    pose proof (Z.div_mod (2 * s + n) (2 * n) ltac:(lia)) as D.
    pose proof (Z.mod_pos_bound (2 * s + n) (2 * n) ltac:(lia)) as B.
    set (q := ((2 * s + n) / (2 * n))%Z) in *. set (r := ((2 * s + n) mod (2 * n))%Z) in *. lia.
  - apply Z.leb_gt in E.
    pose proof (Z.div_mod (2 * - s + n) (2 * n) ltac:(lia)) as D.
    pose proof (Z.mod_pos_bound (2 * - s + n) (2 * n) ltac:(lia)) as B.
    set (q := ((2 * - s + n) / (2 * n))%Z) in *. set (r := ((2 * - s + n) mod (2 * n))%Z) in *. lia.
Qed.

(* ---------------------------------------------------------------------------------- *)
(* counts                                                                              *)

Lemma get_set_same ci n cs : get_count ci (set_count ci n cs) = n.
Proof.
  induction cs as [|[i m] cs IH]; cbn.
  - rewrite Nat.eqb_refl. reflexivity.
  - destruct (Nat.eqb i ci) eqn:E; cbn; rewrite E; auto.
Qed.

Lemma get_set_other ci cj n cs : ci <> cj -> get_count cj (set_count ci n cs) = get_count cj cs.
Proof.
  intros H. induction cs as [|[i m] cs IH]; cbn.
  - destruct (Nat.eqb ci cj) eqn:E; auto. apply Nat.eqb_eq in E. congruence.
  - destruct (Nat.eqb i ci) eqn:E; cbn.
    + apply Nat.eqb_eq in E. subst i. destruct (Nat.eqb ci cj) eqn:E2; auto. apply Nat.eqb_eq in E2. congruence.
    + destruct (Nat.eqb i cj); auto.
Qed.

(* ---------------------------------------------------------------------------------- *)
(* one cell, one row                                                                   *)

Definition is_avg (d : derivedcol) : bool := match dc_prim d with SPAvg _ => true | _ => false end.
Definition is_count (d : derivedcol) : bool := match dc_prim d with SPCount _ => true | _ => false end.

(* new value of the representative's cell y when a row with cell x arrives as the n-th row
   of the group *)
Definition cell_upd (d : derivedcol) (first : bool) (n : Z) (x y : value) : value :=
  match dc_prim d with
  | SPCount _ => if first then y else VInt (int_of y + int_of x)
  | SPAvg _ => VInt (round_div (int_of y * (n - 1) + int_of x) n)
  | _ => y
  end.

Fixpoint cols_q (sl : list derivedcol) (first : bool) (n : Z) (rw rep : row) : row :=
  match sl, rw, rep with
  | d :: sl', x :: rw', y :: rep' => cell_upd d first n x y :: cols_q sl' first n rw' rep'
  | _, _, _ => []
  end.

(* aggregate cells hold integers *)
Definition int_cell (d : derivedcol) (v : value) : Prop :=
  (is_avg d = true \/ is_count d = true) -> exists z, v = VInt z.
Definition ints_at (sl : list derivedcol) (r : row) : Prop := Forall2 int_cell sl r.

Lemma ints_at_length sl r : ints_at sl r -> List.length r = List.length sl.
Proof. induction 1; cbn; auto. Qed.

Lemma cols_q_ints sl first n rw rep : ints_at sl rw -> ints_at sl rep -> ints_at sl (cols_q sl first n rw rep).
Proof.
  intros H. revert rep. induction H as [|d x sl rw Hx H IH]; intros rep Hr; inversion Hr as [|? y ? rep' Hy Hr']; subst; cbn.
  - constructor.
  - constructor; [| apply IH; exact Hr']. unfold int_cell, cell_upd, is_avg, is_count in *.
    destruct (dc_prim d); try (intros [?|?]; discriminate).
    + destruct first; [exact Hy | intros _; eexists; reflexivity].
    + intros _; eexists; reflexivity.
Qed.

Definition counts_ok (sl : list derivedcol) (ci : nat) (n : Z) (cs : list (nat * Z)) : Prop :=
  forall k d, nth_error sl k = Some d -> is_avg d = true -> get_count (ci + k) cs = n.

Lemma idx_row_app pre y rest : idx_row (pre ++ y :: rest) (List.length pre) = Ok y.
Proof. unfold idx_row. rewrite nth_error_app2 by lia. rewrite Nat.sub_diag. reflexivity. Qed.

Lemma firstn_pre {A} (pre : list A) y rest : firstn (List.length pre) (pre ++ y :: rest) = pre.
Proof. induction pre as [|a pre IH]; cbn; auto. rewrite IH. reflexivity. Qed.

Lemma skipn_pre {A} (pre : list A) y rest : skipn (S (List.length pre)) (pre ++ y :: rest) = rest.
Proof. induction pre as [|a pre IH]; cbn; auto. Qed.

Lemma set_nth_app pre y rest v : set_nth (pre ++ y :: rest) (List.length pre) v = Ok (pre ++ v :: rest).
Proof.
  unfold set_nth. rewrite nth_error_app2 by lia. rewrite Nat.sub_diag. cbn [nth_error].
  rewrite firstn_pre, skipn_pre. reflexivity.
Qed.

Lemma idx_row_app' pre y rest n : List.length pre = n -> idx_row (pre ++ y :: rest) n = Ok y.
Proof. intros <-. apply idx_row_app. Qed.

(* the monadic column loop is the pure positional update; every AVG position is counted once *)
Lemma agg_cols_pure sl : forall first n prw prep rw rep cs,
  List.length prw = List.length prep ->
  ints_at sl rw -> ints_at sl rep ->
  counts_ok sl (List.length prep) (n - 1) cs ->
  exists cs',
    agg_cols sl (List.length prep) first (prw ++ rw) (prep ++ rep) cs
      = Ok (prep ++ cols_q sl first n rw rep, cs') /\
    counts_ok sl (List.length prep) n cs' /\
    (forall j, (j < List.length prep)%nat -> get_count j cs' = get_count j cs).
Proof.
  induction sl as [|d sl IH]; intros first n prw prep rw rep cs L Hw Hr C.
  - inversion Hw; inversion Hr; subst. cbn. exists cs. repeat split; auto.
    intros k d H. destruct k; discriminate.
  - inversion Hw as [|? x ? rw' Hx Hw']; inversion Hr as [|? y ? rep' Hy Hr']; subst.
    assert (Ctl : forall (v : value) m cs0, (forall k d0, nth_error (d :: sl) k = Some d0 -> is_avg d0 = true ->
                                   (k <> 0)%nat -> get_count (List.length prep + k) cs0 = m) ->
                  counts_ok sl (List.length (prep ++ [v])) m cs0).
    { intros v m cs0 H k d0 Hk Hd. rewrite app_length. cbn.
      replace (List.length prep + 1 + k)%nat with (List.length prep + S k)%nat by lia. apply (H (S k) d0); auto. }
    assert (Lp : forall v : value, List.length (prw ++ [x]) = List.length (prep ++ [v])) by (intros; rewrite !app_length; cbn; lia).
    cbn [agg_cols cols_q]. unfold cell_upd.
    destruct (dc_prim d) eqn:Ed.
    + (* star: untouched *)
      destruct (IH first n (prw ++ [x]) (prep ++ [y]) rw' rep' cs (Lp y) Hw' Hr') as [cs' [E [C' F]]].
      { apply Ctl. intros k d0 Hk Hd Hne. apply (C k d0); auto. }
      exists cs'. rewrite app_length in E. cbn in E. rewrite Nat.add_1_r in E.
      rewrite <- !app_assoc in E. cbn in E. rewrite E. repeat split; auto.
      * intros k d0 Hk Hd. destruct k.
        -- cbn in Hk. inversion Hk; subst. unfold is_avg in Hd. rewrite Ed in Hd. discriminate.
        -- specialize (C' k d0 Hk Hd). rewrite app_length in C'. cbn in C'. rewrite <- C'. f_equal. lia.
      * intros j Hj. apply F. rewrite app_length. cbn. lia.
    + (* count *)
      destruct first.
      * destruct (IH true n (prw ++ [x]) (prep ++ [y]) rw' rep' cs (Lp y) Hw' Hr') as [cs' [E [C' F]]].
        { apply Ctl. intros k d0 Hk Hd Hne. apply (C k d0); auto. }
        exists cs'. rewrite app_length in E. cbn in E. rewrite Nat.add_1_r in E.
        rewrite <- !app_assoc in E. cbn in E. rewrite E. repeat split; auto.
        -- intros k d0 Hk Hd. destruct k.
           ++ cbn in Hk. inversion Hk; subst. unfold is_avg in Hd. rewrite Ed in Hd. discriminate.
           ++ specialize (C' k d0 Hk Hd). rewrite app_length in C'. cbn in C'. rewrite <- C'. f_equal. lia.
        -- intros j Hj. apply F. rewrite app_length. cbn. lia.
      * destruct Hx as [zx ->]; [right; unfold is_count; rewrite Ed; auto|].
        destruct Hy as [zy ->]; [right; unfold is_count; rewrite Ed; auto|].
        rewrite idx_row_app. cbn. rewrite (idx_row_app' _ _ _ _ L). cbn. rewrite set_nth_app. cbn.
        destruct (IH false n (prw ++ [VInt zx]) (prep ++ [VInt (zy + zx)]) rw' rep' cs (Lp _) Hw' Hr') as [cs' [E [C' F]]].
        { apply Ctl. intros k d0 Hk Hd Hne. apply (C k d0); auto. }
        exists cs'. rewrite app_length in E. cbn in E. rewrite Nat.add_1_r in E.
        rewrite <- !app_assoc in E. cbn in E. rewrite E. repeat split; auto.
        -- intros k d0 Hk Hd. destruct k.
           ++ cbn in Hk. inversion Hk; subst. unfold is_avg in Hd. rewrite Ed in Hd. discriminate.
           ++ specialize (C' k d0 Hk Hd). rewrite app_length in C'. cbn in C'. rewrite <- C'. f_equal. lia.
        -- intros j Hj. apply F. rewrite app_length. cbn. lia.
    + (* avg *)
      destruct Hx as [zx ->]; [left; unfold is_avg; rewrite Ed; auto|].
      destruct Hy as [zy ->]; [left; unfold is_avg; rewrite Ed; auto|].
      assert (Cn : get_count (List.length prep) cs = (n - 1)%Z).
      { specialize (C 0%nat d eq_refl). rewrite Nat.add_0_r in C. apply C. unfold is_avg. rewrite Ed. auto. }
      rewrite idx_row_app. cbn. rewrite (idx_row_app' _ _ _ _ L). cbn. rewrite set_nth_app. cbn.
      rewrite Cn. replace (n - 1 + 1)%Z with n by lia.
      destruct (IH first n (prw ++ [VInt zx]) (prep ++ [VInt (round_div (zy * (n - 1) + zx) n)]) rw' rep'
                   (set_count (List.length prep) n cs) (Lp _) Hw' Hr') as [cs' [E [C' F]]].
      { apply Ctl. intros k d0 Hk Hd Hne. rewrite get_set_other by lia. apply (C k d0); auto. }
      exists cs'. rewrite app_length in E. cbn in E. rewrite Nat.add_1_r in E.
      rewrite <- !app_assoc in E. cbn in E. rewrite E. repeat split; auto.
      * intros k d0 Hk Hd. destruct k.
        -- rewrite Nat.add_0_r. rewrite F by (rewrite app_length; cbn; lia). apply get_set_same.
        -- specialize (C' k d0 Hk Hd). rewrite app_length in C'. cbn in C'. rewrite <- C'. f_equal. lia.
      * intros j Hj. rewrite F by (rewrite app_length; cbn; lia). apply get_set_other. lia.
    + (* expression / plain column: untouched *)
      destruct (IH first n (prw ++ [x]) (prep ++ [y]) rw' rep' cs (Lp y) Hw' Hr') as [cs' [E [C' F]]].
      { apply Ctl. intros k d0 Hk Hd Hne. apply (C k d0); auto. }
      exists cs'. rewrite app_length in E. cbn in E. rewrite Nat.add_1_r in E.
      rewrite <- !app_assoc in E. cbn in E. rewrite E. repeat split; auto.
      * intros k d0 Hk Hd. destruct k.
        -- cbn in Hk. inversion Hk; subst. unfold is_avg in Hd. rewrite Ed in Hd. discriminate.
        -- specialize (C' k d0 Hk Hd). rewrite app_length in C'. cbn in C'. rewrite <- C'. f_equal. lia.
      * intros j Hj. apply F. rewrite app_length. cbn. lia.
Qed.

Lemma agg_cols_top sl first n rw rep cs :
  ints_at sl rw -> ints_at sl rep -> counts_ok sl 0 (n - 1) cs ->
  exists cs', agg_cols sl 0 first rw rep cs = Ok (cols_q sl first n rw rep, cs') /\ counts_ok sl 0 n cs'.
Proof.
  intros Hw Hr C.
  destruct (agg_cols_pure sl first n [] [] rw rep cs eq_refl Hw Hr C) as [cs' [E [C' _]]].
  exists cs'. split; auto.
Qed.

(* ---------------------------------------------------------------------------------- *)
(* folding over the members of a group, column by column                               *)

(* representative after the members m1 :: ms have arrived *)
Fixpoint rep_fold (sl : list derivedcol) (rep : row) (n : Z) (ms : list row) : row :=
  match ms with
  | [] => rep
  | m :: ms' => rep_fold sl (cols_q sl false (n + 1) m rep) (n + 1) ms'
  end.

Definition group_rep (sl : list derivedcol) (ms : list row) : row :=
  match ms with
  | [] => []
  | m1 :: ms' => rep_fold sl (cols_q sl true 1 m1 m1) 1 ms'
  end.

Fixpoint cell_fold_from (d : derivedcol) (y : value) (n : Z) (xs : list value) : value :=
  match xs with
  | [] => y
  | x :: xs' => cell_fold_from d (cell_upd d false (n + 1) x y) (n + 1) xs'
  end.

Definition cell_fold (d : derivedcol) (xs : list value) : value :=
  match xs with
  | [] => VNull
  | x1 :: xs' => cell_fold_from d (cell_upd d true 1 x1 x1) 1 xs'
  end.

Lemma rep_fold_snoc sl ms : forall rep n m,
  rep_fold sl rep n (ms ++ [m]) = cols_q sl false (n + Z.of_nat (List.length ms) + 1) m (rep_fold sl rep n ms).
Proof.
  induction ms as [|a ms IH]; intros rep n m; cbn [rep_fold app List.length].
  - cbn. f_equal. lia.
  - rewrite IH. f_equal. lia.
Qed.

Lemma rep_fold_ints sl ms : forall rep n,
  ints_at sl rep -> Forall (ints_at sl) ms -> ints_at sl (rep_fold sl rep n ms).
Proof.
  induction ms as [|m ms IH]; intros rep n Hr Hm; cbn; auto.
  inversion Hm; subst. apply IH; auto. apply cols_q_ints; auto.
Qed.

(* transposition: the head column of the folded representative is the fold of the head
   column of the members *)
Lemma rep_fold_cons d sl : forall ms y rep n,
  Forall (fun m => m <> []) ms ->
  rep_fold (d :: sl) (y :: rep) n ms =
  cell_fold_from d y n (map (fun m => hd VNull m) ms) :: rep_fold sl rep n (map (@tl value) ms).
Proof.
  induction ms as [|m ms IH]; intros y rep n H; cbn; auto.
  inversion H as [|? ? Hm H']; subst. destruct m as [|x m]; [congruence|].
  cbn. apply IH. exact H'.
Qed.
