(* C07: the model's aggregation meets AggSpec on COUNT, on the formation of groups, on the
   empty input, and on AVG for groups of at most two rows (cells_ok_lenient); it does NOT meet
   it on AVG for larger groups (running rounded average), see Properties/C07.v. *)
From Coq Require Import ZArith String Bool List Ascii Permutation Lia.
From Mkdb Require Import Model.CaseLib Model.Select Spec.SelectSpec
     Proofs.SelectOrder Proofs.SelectEval Proofs.SelectAggCols.
Import ListNotations.

(* ---------------------------------------------------------------------------------- *)
(* the rows the aggregation starts from                                                *)

Definition col_idx (c : colref) (fs : list field) : nat :=
  match resolve c fs with Some i => i | None => 0%nat end.

Definition seed_cell (d : derivedcol) (fs : list field) (b : row) : value :=
  match dc_prim d with
  | SPExpr (EVal (XCol c)) => nth (col_idx c fs) b VNull
  | SPCount None => VInt 1
  | SPCount (Some c) => match nth (col_idx c fs) b VNull with VNull => VInt 0 | _ => VInt 1 end
  | SPAvg c => nth (col_idx c fs) b VNull
  | _ => VNull
  end.

Definition seed (sl : list derivedcol) (fs : list field) (b : row) : row := map (fun d => seed_cell d fs b) sl.

(* shape of one select item of an aggregate query *)
Definition item_ok (d : derivedcol) (fs : list field) : Prop :=
  match dc_prim d with
  | SPExpr (EVal (XCol c)) | SPAvg c | SPCount (Some c) => exists i, resolve c fs = Some i
  | SPCount None => True
  | _ => False
  end.

Definition avg_int (d : derivedcol) (fs : list field) (b : row) : Prop :=
  match dc_prim d with
  | SPAvg c => exists z, nth (col_idx c fs) b VNull = VInt z
  | _ => True
  end.

Record typed (sl : list derivedcol) (gb : list colref) (fs : list field) (base : list row) : Prop := {
  ty_shape : agg_shape sl gb = true;
  ty_items : Forall (fun d => item_ok d fs) sl;
  ty_avg : Forall (fun b => Forall (fun d => avg_int d fs b) sl) base;
  ty_width : Forall (fun b => List.length b = List.length fs) base
}.

Lemma agg_typed_typed sl gb fs base : agg_typed sl gb fs base = true -> typed sl gb fs base.
Proof.
  unfold agg_typed. rewrite !andb_true_iff. intros [[[S I] A] W]. split; auto.
  - rewrite Forall_forall. intros d Hd. rewrite forallb_forall in I. specialize (I d Hd).
    unfold item_col in I. unfold item_ok.
    assert (Sh : forallb (fun d => match dc_prim d with
                    | SPExpr (EVal (XCol _)) => existsb (fun g => denotes g d) gb
                    | SPCount _ | SPAvg _ => true | _ => false end) sl = true).
    { unfold agg_shape in S. rewrite !andb_true_iff in S. tauto. }
    rewrite forallb_forall in Sh. specialize (Sh d Hd).
    destruct (dc_prim d) as [ | [c|] | c | [[l|c]| | | ]]; try discriminate; auto;
      destruct (resolve c fs); try discriminate; eauto.
  - rewrite Forall_forall. intros b Hb. rewrite Forall_forall. intros d Hd.
    unfold avg_args_int in A. rewrite forallb_forall in A. specialize (A d Hd).
    unfold avg_int, col_idx. destruct (dc_prim d); auto.
    destruct (resolve c fs); try discriminate. rewrite forallb_forall in A. specialize (A b Hb).
    destruct (nth n b VNull); try discriminate. eauto.
  - rewrite Forall_forall. intros b Hb. rewrite forallb_forall in W. apply Nat.eqb_eq. auto.
Qed.

Lemma item_ok_cell d fs b :
  item_ok d fs -> avg_int d fs b -> List.length b = List.length fs ->
  project_cell (dc_prim d) fs b = Ok (seed_cell d fs b).
Proof.
  unfold item_ok, avg_int, seed_cell, col_idx, project_cell. intros I A W.
  destruct (dc_prim d) as [ | [c|] | c | [[l|c]| | | ]]; try contradiction; auto;
    destruct I as [i R]; rewrite R in *; unfold lookup_idx; rewrite (resolve_find_column _ _ _ R);
    apply resolve_some in R; destruct R as [Hi _];
    unfold idx_row; (destruct (nth_error b i) eqn:E; [| apply nth_error_None in E; lia]);
    rewrite (nth_error_nth _ _ _ E) in *; cbn; auto;
    try (destruct A as [z ->]; reflexivity); try (destruct v; reflexivity).
Qed.

Lemma project_row_seed sl fs b :
  Forall (fun d => item_ok d fs) sl -> Forall (fun d => avg_int d fs b) sl -> List.length b = List.length fs ->
  project_row sl fs b = Ok (seed sl fs b).
Proof.
  intros I A W. induction sl as [|d sl IH]; cbn; auto.
  inversion I; inversion A; subst. rewrite item_ok_cell by auto. cbn. rewrite IH by auto. reflexivity.
Qed.

Lemma project_rows_seed sl fs base :
  Forall (fun d => item_ok d fs) sl ->
  Forall (fun b => Forall (fun d => avg_int d fs b) sl) base ->
  Forall (fun b => List.length b = List.length fs) base ->
  project_rows sl fs base = Ok (map (seed sl fs) base).
Proof.
  intros I A W. induction base as [|b base IH]; cbn; auto.
  inversion A; inversion W; subst. rewrite project_row_seed by auto. cbn. rewrite IH by auto. reflexivity.
Qed.

Lemma build_lookup_items sl fs : Forall (fun d => item_ok d fs) sl -> build_lookup sl fs = Ok tt.
Proof.
  induction 1 as [|d sl I _ IH]; cbn; auto. unfold item_ok in I. unfold prim_col.
  destruct (dc_prim d) as [ | [c|] | c | [[l|c]| | | ]]; try contradiction; auto;
    destruct I as [i R]; rewrite (resolve_find_column _ _ _ R); cbn; auto.
Qed.

Lemma project_header_items sl fs : Forall (fun d => item_ok d fs) sl -> exists hdr, project_header sl fs = Ok hdr.
Proof.
  induction 1 as [|d sl I _ [hdr IH]]; cbn; eauto. rewrite IH. unfold item_ok in I. unfold header_cell.
  destruct (dc_prim d) as [ | [c|] | c | [[l|c]| | | ]]; try contradiction; cbn; eauto.
  destruct I as [i R]. unfold lookup_idx. rewrite (resolve_find_column _ _ _ R).
  apply resolve_some in R. destruct R as [_ [f [Hf _]]]. rewrite Hf. cbn. eauto.
Qed.

Lemma typed_first_not_star sl gb fs base d sl' : typed sl gb fs base -> sl = d :: sl' -> dc_prim d <> SPStar.
Proof.
  intros T -> E. pose proof (ty_items _ _ _ _ T) as I. inversion I as [|? ? Hd _]; subst.
  unfold item_ok in Hd. rewrite E in Hd. exact Hd.
Qed.

Lemma typed_nonempty sl gb fs base : typed sl gb fs base -> sl <> [].
Proof.
  intros T E. pose proof (ty_shape _ _ _ _ T) as S. unfold agg_shape in S. subst sl. cbn in S.
  rewrite andb_false_r in S. discriminate.
Qed.

Lemma project_columns_seed sl gb fs base :
  typed sl gb fs base -> exists hdr, project_columns sl fs base = Ok (hdr, map (seed sl fs) base).
Proof.
  intros T. destruct sl as [|d sl'] eqn:Esl; [exfalso; eapply typed_nonempty; eauto|].
  pose proof (typed_first_not_star _ _ _ _ _ _ T eq_refl) as NS.
  destruct (project_header_items _ _ (ty_items _ _ _ _ T)) as [hdr H]. exists hdr.
  unfold project_columns. destruct (dc_prim d) eqn:Ed; try congruence;
    rewrite (build_lookup_items _ _ (ty_items _ _ _ _ T)); cbn [obind];
    rewrite (project_rows_seed _ _ _ (ty_items _ _ _ _ T) (ty_avg _ _ _ _ T) (ty_width _ _ _ _ T)); cbn [obind];
    rewrite H; reflexivity.
Qed.

Lemma seed_ints sl fs b :
  Forall (fun d => item_ok d fs) sl -> Forall (fun d => avg_int d fs b) sl -> ints_at sl (seed sl fs b).
Proof.
  intros I A. induction sl as [|d sl IH]; cbn; [constructor|].
  inversion I as [|? ? Id I']; inversion A as [|? ? Ad A']; subst. constructor; [| apply IH; auto].
  unfold int_cell, is_avg, is_count, seed_cell, avg_int in *.
  destruct (dc_prim d) as [ | [c|] | c | e]; try (intros [?|?]; discriminate); intros _; eauto.
  destruct (nth (col_idx c fs) b VNull); eauto.
Qed.

(* ---------------------------------------------------------------------------------- *)
(* group keys: the model's key and the spec's key distinguish the same rows             *)

Definition mkey (sl : list derivedcol) (gb : list colref) (r : row) : gkey :=
  flat_map (fun g => match col_to_idx sl g with Some i => [nth i r VNull] | None => [] end) gb.

Lemma dc_matches_denotes d g : dc_matches d g = denotes g d.
Proof.
  unfold dc_matches, denotes, colref_eqb. destruct (dc_prim d) as [ | | | [[|c]| | | ]]; auto.
  rewrite (andb_comm (String.eqb (cr_name c) (cr_name g))). reflexivity.
Qed.

Lemma col_to_idx_from_some sl g : forall k i,
  col_to_idx_from sl g k = Some i ->
  exists d, (k <= i)%nat /\ nth_error sl (i - k) = Some d /\ dc_matches d g = true.
Proof.
  induction sl as [|d sl IH]; intros k i; cbn; try discriminate.
  destruct (dc_matches d g) eqn:E.
  - intros H; inversion H; subst. exists d. rewrite Nat.sub_diag. auto.
  - intros H. destruct (IH _ _ H) as [d' [Hk [Hn Hm]]]. exists d'. split; [lia|].
    replace (i - k)%nat with (S (i - S k)) by lia. auto.
Qed.

Lemma group_key_pure sl gb r :
  List.length r = List.length sl -> group_key sl gb r = Ok (mkey sl gb r).
Proof.
  intros L. induction gb as [|g gb IH]; cbn; auto.
  destruct (col_to_idx sl g) as [i|] eqn:E; auto.
  unfold col_to_idx in E. apply col_to_idx_from_some in E. destruct E as [d [_ [Hn _]]].
  rewrite Nat.sub_0_r in Hn. assert (Hi : (i < List.length r)%nat) by (rewrite L; apply nth_error_Some; congruence).
  unfold idx_row. destruct (nth_error r i) eqn:E2; [| apply nth_error_None in E2; lia].
  rewrite (nth_error_nth _ _ _ E2). cbn. rewrite IH. reflexivity.
Qed.

(* the unique select item denoted by g is the one col_to_idx finds *)
Lemma unique_first sl g : forall k i d,
  List.length (filter (denotes g) sl) = 1%nat -> nth_error sl i = Some d -> denotes g d = true ->
  col_to_idx_from sl g k = Some (k + i)%nat.
Proof.
  induction sl as [|a sl IH]; intros k i d L Hn Hd.
  - destruct i; discriminate.
  - cbn in L. cbn [col_to_idx_from]. rewrite dc_matches_denotes.
    destruct (denotes g a) eqn:Ea.
    + cbn in L. destruct i as [|i]; [f_equal; lia|]. exfalso. cbn in Hn.
      assert (In d (filter (denotes g) sl)) by (apply filter_In; split; auto; eapply nth_error_In; eauto).
      destruct (filter (denotes g) sl); [contradiction | discriminate].
    + destruct i as [|i]; [cbn in Hn; inversion Hn; subst; congruence|].
      cbn in Hn. rewrite (IH (S k) i d L Hn Hd). f_equal. lia.
Qed.

Definition plain_at (sl : list derivedcol) (i : nat) : Prop :=
  exists d, nth_error sl i = Some d /\ is_plain d = true.

Lemma shape_index_sets sl gb i :
  agg_shape sl gb = true ->
  ((exists g, In g gb /\ col_to_idx sl g = Some i) <-> plain_at sl i).
Proof.
  unfold agg_shape. rewrite !andb_true_iff. intros [[S1 S2] _]. split.
  - intros [g [_ H]]. unfold col_to_idx in H. apply col_to_idx_from_some in H.
    destruct H as [d [_ [Hn Hm]]]. rewrite Nat.sub_0_r in Hn. exists d. split; auto.
    unfold dc_matches in Hm. unfold is_plain. destruct (dc_prim d) as [ | | | [[|c]| | | ]]; auto; discriminate.
  - intros [d [Hn Hp]]. rewrite forallb_forall in S1. specialize (S1 d (nth_error_In _ _ Hn)).
    unfold is_plain in Hp. destruct (dc_prim d) as [ | | | [[|c]| | | ]] eqn:Ed; try discriminate.
    apply existsb_exists in S1. destruct S1 as [g [Hg Hd]]. exists g. split; auto.
    rewrite forallb_forall in S2. specialize (S2 g Hg). apply Nat.eqb_eq in S2.
    unfold col_to_idx. rewrite (unique_first sl g 0 i d S2 Hn Hd). reflexivity.
Qed.

Lemma key_of_out_eq sl : forall r r',
  List.length r = List.length sl -> List.length r' = List.length sl ->
  (key_of_out sl r = key_of_out sl r' <->
   forall i, plain_at sl i -> nth i r VNull = nth i r' VNull).
Proof.
  induction sl as [|d sl IH]; intros r r' L L'.
  - split; auto. intros _ i [d [H _]]. destruct i; discriminate.
  - destruct r as [|v r]; destruct r' as [|v' r']; try discriminate. cbn in L, L'.
    assert (Lr : List.length r = List.length sl) by lia. assert (Lr' : List.length r' = List.length sl) by lia.
    cbn [key_of_out]. destruct (is_plain d) eqn:P.
    + split.
      * intros H. inversion H as [[Hv Hk]]. intros [|i] [d' [Hn Hp]]; cbn; auto.
        apply (proj1 (IH _ _ Lr Lr') Hk). exists d'. auto.
      * intros H. f_equal.
        -- apply (H 0%nat). exists d. auto.
        -- apply (IH _ _ Lr Lr'). intros i [d' [Hn Hp]]. apply (H (S i)). exists d'. auto.
    + rewrite (IH _ _ Lr Lr'). split.
      * intros H [|i] [d' [Hn Hp]]; cbn.
        -- cbn in Hn. inversion Hn; subst. congruence.
        -- apply H. exists d'. auto.
      * intros H i [d' [Hn Hp]]. apply (H (S i)). exists d'. auto.
Qed.

Lemma mkey_eq sl gb r r' :
  mkey sl gb r = mkey sl gb r' <->
  forall g i, In g gb -> col_to_idx sl g = Some i -> nth i r VNull = nth i r' VNull.
Proof.
  unfold mkey. induction gb as [|g gb IH]; cbn.
  - split; auto. intros _ g i [].
  - destruct (col_to_idx sl g) as [j|] eqn:E; cbn.
    + split.
      * intros H. inversion H as [[Hv Hk]]. intros g' i [<-|Hg] Hi.
        -- rewrite E in Hi. inversion Hi; subst. auto.
        -- apply (proj1 IH Hk g' i); auto.
      * intros H. f_equal.
        -- apply (H g j); auto.
        -- apply IH. intros g' i Hg Hi. apply (H g' i); auto.
    + rewrite IH. split.
      * intros H g' i [<-|Hg] Hi; [congruence|]. apply (H g' i); auto.
      * intros H g' i Hg Hi. apply (H g' i); auto.
Qed.

Lemma keys_equiv sl gb r r' :
  agg_shape sl gb = true -> List.length r = List.length sl -> List.length r' = List.length sl ->
  (mkey sl gb r = mkey sl gb r' <-> key_of_out sl r = key_of_out sl r').
Proof.
  intros S L L'. rewrite mkey_eq, (key_of_out_eq sl r r' L L'). split.
  - intros H i Hp. apply (shape_index_sets sl gb i S) in Hp. destruct Hp as [g [Hg Hi]]. eauto.
  - intros H g i Hg Hi. apply H. apply (shape_index_sets sl gb i S). eauto.
Qed.

Lemma key_of_out_seed sl fs b :
  Forall (fun d => item_ok d fs) sl -> key_of_out sl (seed sl fs b) = key_of_base sl fs b.
Proof.
  unfold key_of_base, seed. induction 1 as [|d sl I _ IH]; cbn; auto.
  unfold is_plain, seed_cell, item_ok, col_idx in *.
  destruct (dc_prim d) as [ | [c|] | c | [[l|c]| | | ]]; try contradiction; cbn; auto.
  destruct I as [i R]. rewrite R. cbn. rewrite IH. reflexivity.
Qed.

(* ---------------------------------------------------------------------------------- *)
(* plain cells of a representative are those of its first member                       *)

Lemma key_of_out_cols_q sl : forall first n rw rep,
  List.length rw = List.length sl -> List.length rep = List.length sl ->
  key_of_out sl (cols_q sl first n rw rep) = key_of_out sl rep.
Proof.
  induction sl as [|d sl IH]; intros first n [|x rw] [|y rep] L L'; try discriminate; cbn; auto.
  cbn in L, L'. rewrite IH by lia. unfold is_plain, cell_upd.
  destruct (dc_prim d) as [ | | | [[|c]| | | ]]; auto.
Qed.

Lemma cols_q_length sl : forall first n rw rep,
  List.length rw = List.length sl -> List.length rep = List.length sl ->
  List.length (cols_q sl first n rw rep) = List.length sl.
Proof. induction sl as [|d sl IH]; intros first n [|x rw] [|y rep] L L'; try discriminate; cbn; auto. Qed.

Lemma rep_fold_key sl ms : forall rep n,
  List.length rep = List.length sl -> Forall (fun m => List.length m = List.length sl) ms ->
  key_of_out sl (rep_fold sl rep n ms) = key_of_out sl rep /\
  List.length (rep_fold sl rep n ms) = List.length sl.
Proof.
  induction ms as [|m ms IH]; intros rep n L H; cbn; auto.
  inversion H; subst. destruct (IH (cols_q sl false (n + 1)%Z m rep) (n + 1)%Z) as [K Ln]; auto.
  - apply cols_q_length; auto.
  - rewrite K. split; auto. apply key_of_out_cols_q; auto.
Qed.

Lemma group_rep_key sl m ms :
  Forall (fun m => List.length m = List.length sl) (m :: ms) ->
  key_of_out sl (group_rep sl (m :: ms)) = key_of_out sl m /\
  List.length (group_rep sl (m :: ms)) = List.length sl.
Proof.
  intros H. inversion H; subst. cbn [group_rep].
  destruct (rep_fold_key sl ms (cols_q sl true 1 m m) 1) as [K L]; auto.
  - apply cols_q_length; auto.
  - rewrite K. split; auto. apply key_of_out_cols_q; auto.
Qed.

(* ---------------------------------------------------------------------------------- *)
(* the loop over the rows: one entry per group key, holding the fold of its members     *)

Section Loop.
Variables (sl : list derivedcol) (gb : list colref).

Definition members (k : gkey) (rows : list row) : list row :=
  filter (fun r => gkey_eqb (mkey sl gb r) k) rows.

Definition GS (ms : list row) (s : gstate) : Prop :=
  fst s = group_rep sl ms /\ counts_ok sl 0 (Z.of_nat (List.length ms)) (snd s).

Record Inv (gs : list (gkey * gstate)) (done : list row) : Prop := {
  inv_nodup : NoDup (map fst gs);
  inv_keys : forall k, In k (map fst gs) <-> exists r, In r done /\ mkey sl gb r = k;
  inv_state : forall k s, In (k, s) gs -> members k done <> [] /\ GS (members k done) s
}.

Lemma gkey_eqb_iff a b : gkey_eqb a b = true <-> a = b.
Proof. apply list_eqb_spec. apply value_eqb_spec. Qed.

Lemma gkey_eqb_refl a : gkey_eqb a a = true.
Proof. apply gkey_eqb_iff. reflexivity. Qed.

Lemma find_group_none k gs : find_group k gs = None -> ~ In k (map fst gs).
Proof.
  induction gs as [|[k' s] gs IH]; cbn; auto.
  destruct (gkey_eqb k' k) eqn:E; try discriminate. intros H [Hk|Hk].
  - subst. rewrite gkey_eqb_refl in E. discriminate.
  - apply IH; auto.
Qed.

Lemma find_group_some k gs s : find_group k gs = Some s -> In (k, s) gs.
Proof.
  induction gs as [|[k' s'] gs IH]; cbn; try discriminate.
  destruct (gkey_eqb k' k) eqn:E.
  - apply gkey_eqb_iff in E. subst. intros H; inversion H; auto.
  - intros H. right. auto.
Qed.

Lemma set_group_keys k s gs : map fst (set_group k s gs) = map fst gs.
Proof.
  induction gs as [|[k' s'] gs IH]; cbn; auto. destruct (gkey_eqb k' k); cbn; auto. rewrite IH. reflexivity.
Qed.

Lemma set_group_in k s gs k' s' :
  NoDup (map fst gs) -> In k (map fst gs) -> In (k', s') (set_group k s gs) ->
  (k' = k /\ s' = s) \/ (k' <> k /\ In (k', s') gs).
Proof.
  induction gs as [|[k0 s0] gs IH]; cbn; intros ND Hk H; [contradiction|].
  inversion ND as [|? ? Hn ND']; subst.
  destruct (gkey_eqb k0 k) eqn:E.
  - apply gkey_eqb_iff in E. subst k0. destruct H as [H|H].
    + inversion H; auto.
    + right. split; auto. intros ->. apply Hn. apply in_map_iff. exists (k, s'). auto.
  - assert (k0 <> k) by (intros ->; rewrite gkey_eqb_refl in E; discriminate).
    destruct H as [H|H].
    + inversion H; subst. right. auto.
    + destruct Hk as [Hk|Hk]; [congruence|]. destruct (IH ND' Hk H) as [?|[? ?]]; auto.
Qed.

Lemma members_app k a b : members k (a ++ b) = members k a ++ members k b.
Proof. apply filter_app. Qed.

Lemma members_nil k rows : (forall r, In r rows -> mkey sl gb r <> k) -> members k rows = [].
Proof.
  intros H. induction rows as [|r rows IH]; cbn; auto.
  destruct (gkey_eqb (mkey sl gb r) k) eqn:E.
  - apply gkey_eqb_iff in E. exfalso. apply (H r); cbn; auto.
  - apply IH. intros r' Hr. apply H. cbn; auto.
Qed.

Lemma members_in k rows r : In r (members k rows) -> In r rows /\ mkey sl gb r = k.
Proof. unfold members. rewrite filter_In, gkey_eqb_iff. auto. Qed.

Definition row_good (r : row) : Prop := ints_at sl r.

Lemma members_good k rows : Forall row_good rows -> Forall row_good (members k rows).
Proof.
  rewrite !Forall_forall. intros H r Hr. apply members_in in Hr. apply H. tauto.
Qed.

Lemma group_rep_ints ms : ms <> [] -> Forall row_good ms -> ints_at sl (group_rep sl ms).
Proof.
  destruct ms as [|m ms]; [congruence|]. intros _ H. inversion H; subst. cbn.
  apply rep_fold_ints; auto. apply cols_q_ints; auto.
Qed.

Lemma init_state m : row_good m -> exists s, agg_cols sl 0 true m m [] = Ok s /\ GS [m] s.
Proof.
  intros G. destruct (agg_cols_top sl true 1 m m [] G G) as [cs' [E C]].
  - intros k d _ _. reflexivity.
  - exists (cols_q sl true 1 m m, cs'). split; auto. split; auto.
Qed.

Lemma upd_state ms rep cs m :
  ms <> [] -> Forall row_good ms -> row_good m -> GS ms (rep, cs) ->
  exists s, agg_cols sl 0 false m rep cs = Ok s /\ GS (ms ++ [m]) s.
Proof.
  intros NE Gms Gm [Hr Hc]. cbn in Hr, Hc. subst rep.
  set (n := (Z.of_nat (List.length ms) + 1)%Z).
  destruct (agg_cols_top sl false n m (group_rep sl ms) cs Gm (group_rep_ints _ NE Gms)) as [cs' [E C]].
  - unfold n. replace (Z.of_nat (List.length ms) + 1 - 1)%Z with (Z.of_nat (List.length ms)) by lia. exact Hc.
  - eexists. split; [exact E|]. split; cbn.
    + destruct ms as [|m1 ms']; [congruence|]. cbn [group_rep app]. rewrite rep_fold_snoc.
      unfold n. cbn [List.length]. f_equal. lia.
    + rewrite app_length. cbn. unfold n in C. replace (Z.of_nat (List.length ms + 1)) with (Z.of_nat (List.length ms) + 1)%Z by lia.
      exact C.
Qed.

Lemma agg_step_inv gs done rw :
  Inv gs done -> Forall row_good done -> row_good rw ->
  exists gs', agg_step sl gb gs rw = Ok gs' /\ Inv gs' (done ++ [rw]).
Proof.
  intros I Gd Gr. unfold agg_step.
  rewrite group_key_pure by (apply ints_at_length; exact Gr). cbn [obind].
  set (k := mkey sl gb rw).
  destruct (find_group k gs) as [[rep cs]|] eqn:F.
  - (* existing group *)
    apply find_group_some in F. destruct (inv_state _ _ I _ _ F) as [NE G].
    destruct (upd_state _ _ _ rw NE (members_good _ _ Gd) Gr G) as [s [E G']].
    rewrite E. cbn. eexists. split; [reflexivity|].
    assert (Hk : In k (map fst gs)) by (apply in_map_iff; exists (k, (rep, cs)); auto).
    split.
    + rewrite set_group_keys. apply (inv_nodup _ _ I).
    + intros k'. rewrite set_group_keys, (inv_keys _ _ I). split.
      * intros [r [Hr Hm]]. exists r. rewrite in_app_iff. auto.
      * intros [r [Hr Hm]]. rewrite in_app_iff in Hr. destruct Hr as [Hr|[<-|[]]]; eauto.
        subst k'. apply (inv_keys _ _ I). exact Hk.
    + intros k' s' H. apply (set_group_in _ _ _ _ _ (inv_nodup _ _ I) Hk) in H.
      rewrite members_app. destruct H as [[-> ->]|[Hne H]].
      * assert (Em : members k [rw] = [rw]) by (cbn; fold k; rewrite gkey_eqb_refl; reflexivity).
        rewrite Em. split; auto. intros C. apply app_eq_nil in C. destruct C; discriminate.
      * assert (Em : members k' [rw] = []).
        { cbn. fold k. destruct (gkey_eqb k k') eqn:E2; auto. apply gkey_eqb_iff in E2. congruence. }
        rewrite Em, app_nil_r. apply (inv_state _ _ I). exact H.
  - (* new group *)
    pose proof (find_group_none _ _ F) as NK.
    destruct (init_state rw Gr) as [s [E G]]. rewrite E. cbn. eexists. split; [reflexivity|].
    assert (Mk : members k done = []).
    { apply members_nil. intros r Hr Hm. apply NK. apply (inv_keys _ _ I). eauto. }
    split.
    + rewrite map_app. cbn. apply NoDup_app_snoc; auto. apply (inv_nodup _ _ I).
    + intros k'. rewrite map_app, in_app_iff. cbn. rewrite (inv_keys _ _ I). split.
      * intros [[r [Hr Hm]]|[<-|[]]].
        -- exists r. rewrite in_app_iff. auto.
        -- exists rw. rewrite in_app_iff. cbn. auto.
      * intros [r [Hr Hm]]. rewrite in_app_iff in Hr. destruct Hr as [Hr|[<-|[]]]; eauto.
    + intros k' s' H. rewrite in_app_iff in H. rewrite members_app. destruct H as [H|[H|[]]].
      * assert (k' <> k).
        { intros ->. apply NK. apply in_map_iff. exists (k, s'). auto. }
        assert (Em : members k' [rw] = []).
        { cbn. fold k. destruct (gkey_eqb k k') eqn:E2; auto. apply gkey_eqb_iff in E2. congruence. }
        rewrite Em, app_nil_r. apply (inv_state _ _ I). exact H.
      * inversion H; subst k' s'. rewrite Mk. cbn. fold k. rewrite gkey_eqb_refl. split; [discriminate | exact G].
Qed.

Lemma agg_loop_inv rows : forall gs done,
  Inv gs done -> Forall row_good done -> Forall row_good rows ->
  exists gs', agg_loop sl gb gs rows = Ok gs' /\ Inv gs' (done ++ rows).
Proof.
  induction rows as [|rw rows IH]; intros gs done I Gd Gr; cbn.
  - exists gs. rewrite app_nil_r. auto.
  - inversion Gr; subst. destruct (agg_step_inv gs done rw I Gd) as [gs1 [E I1]]; auto.
    rewrite E. cbn. destruct (IH gs1 (done ++ [rw]) I1) as [gs' [E' I']]; auto.
    + apply Forall_app. auto.
    + exists gs'. rewrite <- app_assoc in I'. auto.
Qed.

Lemma inv_init : Inv [] [].
Proof.
  split; cbn.
  - constructor.
  - intros k. split; [tauto | intros [r [[] _]]].
  - intros k s [].
Qed.

End Loop.
