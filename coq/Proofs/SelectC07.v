(* C07: the model's aggregation meets AggSpec on COUNT, on the formation of groups, on the
   empty input, and on AVG for groups of at most two rows (cells_ok_lenient); it does NOT meet
   it on AVG for larger groups (running rounded average), see Properties/C07.v. *)
From Coq Require Import ZArith String Bool List Ascii Permutation Lia.
From Mkdb Require Import Model.CaseLib Model.Select Spec.SelectSpec
     Proofs.SelectOrder Proofs.SelectEval Proofs.SelectAggCols.
Import ListNotations.

(* ---------------------------------------------------------------------------------- *)
(* the rows the aggregation starts from                                                *)

Definition col_idx (c : colref) (fs : list field) : nat :=
  match resolve c fs with Some i => i | None => 0%nat end.

Definition seed_cell (d : derivedcol) (fs : list field) (b : row) : value :=
  match dc_prim d with
  | SPExpr (EVal (XCol c)) => nth (col_idx c fs) b VNull
  | SPCount None => VInt 1
  | SPCount (Some c) => match nth (col_idx c fs) b VNull with VNull => VInt 0 | _ => VInt 1 end
  | SPAvg c => nth (col_idx c fs) b VNull
  | _ => VNull
  end.

Definition seed (sl : list derivedcol) (fs : list field) (b : row) : row := map (fun d => seed_cell d fs b) sl.

(* shape of one select item of an aggregate query *)
Definition item_ok (d : derivedcol) (fs : list field) : Prop :=
  match dc_prim d with
  | SPExpr (EVal (XCol c)) | SPAvg c | SPCount (Some c) => exists i, resolve c fs = Some i
  | SPCount None => True
  | _ => False
  end.

Definition avg_int (d : derivedcol) (fs : list field) (b : row) : Prop :=
  match dc_prim d with
  | SPAvg c => exists z, nth (col_idx c fs) b VNull = VInt z
  | _ => True
  end.

Record typed (sl : list derivedcol) (gb : list colref) (fs : list field) (base : list row) : Prop := {
  ty_shape : agg_shape sl gb = true;
  ty_items : Forall (fun d => item_ok d fs) sl;
  ty_avg : Forall (fun b => Forall (fun d => avg_int d fs b) sl) base;
  ty_width : Forall (fun b => List.length b = List.length fs) base
}.

Lemma agg_typed_typed sl gb fs base : agg_typed sl gb fs base = true -> typed sl gb fs base.
Proof.
  unfold agg_typed. rewrite !andb_true_iff. intros [[[S I] A] W]. split; auto.
  - rewrite Forall_forall. intros d Hd. rewrite forallb_forall in I. specialize (I d Hd).
    unfold item_col in I. unfold item_ok.
    assert (Sh : forallb (fun d => match dc_prim d with
                    | SPExpr (EVal (XCol _)) => existsb (fun g => denotes g d) gb
                    | SPCount _ | SPAvg _ => true | _ => false end) sl = true).
    { unfold agg_shape in S. rewrite !andb_true_iff in S. tauto. }
    rewrite forallb_forall in Sh. specialize (Sh d Hd).
    destruct (dc_prim d) as [ | [c|] | c | [[l|c]| | | ]]; try discriminate; auto;
      destruct (resolve c fs); try discriminate; eauto.
  - rewrite Forall_forall. intros b Hb. rewrite Forall_forall. intros d Hd.
    unfold avg_args_int in A. rewrite forallb_forall in A. specialize (A d Hd).
    unfold avg_int, col_idx. destruct (dc_prim d); auto.
    destruct (resolve c fs); try discriminate. rewrite forallb_forall in A. specialize (A b Hb).
    destruct (nth n b VNull); try discriminate. eauto.
  - rewrite Forall_forall. intros b Hb. rewrite forallb_forall in W. apply Nat.eqb_eq. auto.
Qed.

Lemma item_ok_cell d fs b :
  item_ok d fs -> avg_int d fs b -> List.length b = List.length fs ->
  project_cell (dc_prim d) fs b = Ok (seed_cell d fs b).
Proof.
  unfold item_ok, avg_int, seed_cell, col_idx, project_cell. intros I A W.
  destruct (dc_prim d) as [ | [c|] | c | [[l|c]| | | ]]; try contradiction; auto;
    destruct I as [i R]; rewrite R in *; unfold lookup_idx; rewrite (resolve_find_column _ _ _ R);
    apply resolve_some in R; destruct R as [Hi _];
    unfold idx_row; (destruct (nth_error b i) eqn:E; [| apply nth_error_None in E; lia]);
    rewrite (nth_error_nth _ _ _ E) in *; cbn; auto;
    try (destruct A as [z ->]; reflexivity); try (destruct v; reflexivity).
Qed.

Lemma project_row_seed sl fs b :
  Forall (fun d => item_ok d fs) sl -> Forall (fun d => avg_int d fs b) sl -> List.length b = List.length fs ->
  project_row sl fs b = Ok (seed sl fs b).
Proof.
  intros I A W. induction sl as [|d sl IH]; cbn; auto.
  inversion I; inversion A; subst. rewrite item_ok_cell by auto. cbn. rewrite IH by auto. reflexivity.
Qed.

Lemma project_rows_seed sl fs base :
  Forall (fun d => item_ok d fs) sl ->
  Forall (fun b => Forall (fun d => avg_int d fs b) sl) base ->
  Forall (fun b => List.length b = List.length fs) base ->
  project_rows sl fs base = Ok (map (seed sl fs) base).
Proof.
  intros I A W. induction base as [|b base IH]; cbn; auto.
  inversion A; inversion W; subst. rewrite project_row_seed by auto. cbn. rewrite IH by auto. reflexivity.
Qed.

Lemma build_lookup_items sl fs : Forall (fun d => item_ok d fs) sl -> build_lookup sl fs = Ok tt.
Proof.
  induction 1 as [|d sl I _ IH]; cbn; auto. unfold item_ok in I. unfold prim_col.
  destruct (dc_prim d) as [ | [c|] | c | [[l|c]| | | ]]; try contradiction; auto;
    destruct I as [i R]; rewrite (resolve_find_column _ _ _ R); cbn; auto.
Qed.

Lemma project_header_items sl fs : Forall (fun d => item_ok d fs) sl -> exists hdr, project_header sl fs = Ok hdr.
Proof.
  induction 1 as [|d sl I _ [hdr IH]]; cbn; eauto. rewrite IH. unfold item_ok in I. unfold header_cell.
  destruct (dc_prim d) as [ | [c|] | c | [[l|c]| | | ]]; try contradiction; cbn; eauto.
  destruct I as [i R]. unfold lookup_idx. rewrite (resolve_find_column _ _ _ R).
  apply resolve_some in R. destruct R as [_ [f [Hf _]]]. rewrite Hf. cbn. eauto.
Qed.

Lemma typed_first_not_star sl gb fs base d sl' : typed sl gb fs base -> sl = d :: sl' -> dc_prim d <> SPStar.
Proof.
  intros T -> E. pose proof (ty_items _ _ _ _ T) as I. inversion I as [|? ? Hd _]; subst.
  unfold item_ok in Hd. rewrite E in Hd. exact Hd.
Qed.

Lemma typed_nonempty sl gb fs base : typed sl gb fs base -> sl <> [].
Proof.
  intros T E. pose proof (ty_shape _ _ _ _ T) as S. unfold agg_shape in S. subst sl. cbn in S.
  rewrite andb_false_r in S. discriminate.
Qed.

Lemma project_columns_seed sl gb fs base :
  typed sl gb fs base -> exists hdr, project_columns sl fs base = Ok (hdr, map (seed sl fs) base).
Proof.
  intros T. destruct sl as [|d sl'] eqn:Esl; [exfalso; eapply typed_nonempty; eauto|].
  pose proof (typed_first_not_star _ _ _ _ _ _ T eq_refl) as NS.
  destruct (project_header_items _ _ (ty_items _ _ _ _ T)) as [hdr H]. exists hdr.
  unfold project_columns. destruct (dc_prim d) eqn:Ed; try congruence;
    rewrite (build_lookup_items _ _ (ty_items _ _ _ _ T)); cbn [obind];
    rewrite (project_rows_seed _ _ _ (ty_items _ _ _ _ T) (ty_avg _ _ _ _ T) (ty_width _ _ _ _ T)); cbn [obind];
    rewrite H; reflexivity.
Qed.

Lemma seed_ints sl fs b :
  Forall (fun d => item_ok d fs) sl -> Forall (fun d => avg_int d fs b) sl -> ints_at sl (seed sl fs b).
Proof.
  intros I A. induction sl as [|d sl IH]; cbn; [constructor|].
  inversion I as [|? ? Id I']; inversion A as [|? ? Ad A']; subst. constructor; [| apply IH; auto].
  unfold int_cell, is_avg, is_count, seed_cell, avg_int in *.
  destruct (dc_prim d) as [ | [c|] | c | e]; try (intros [?|?]; discriminate); intros _; eauto.
  destruct (nth (col_idx c fs) b VNull); eauto.
Qed.

(* ---------------------------------------------------------------------------------- *)
(* group keys: the model's key and the spec's key distinguish the same rows             *)

Definition mkey (sl : list derivedcol) (gb : list colref) (r : row) : gkey :=
  flat_map (fun g => match col_to_idx sl g with Some i => [nth i r VNull] | None => [] end) gb.

Lemma dc_matches_denotes d g : dc_matches d g = denotes g d.
Proof.
  unfold dc_matches, denotes, colref_eqb. destruct (dc_prim d) as [ | | | [[|c]| | | ]]; auto.
  rewrite (andb_comm (String.eqb (cr_name c) (cr_name g))). reflexivity.
Qed.

Lemma col_to_idx_from_some sl g : forall k i,
  col_to_idx_from sl g k = Some i ->
  exists d, (k <= i)%nat /\ nth_error sl (i - k) = Some d /\ dc_matches d g = true.
Proof.
  induction sl as [|d sl IH]; intros k i; cbn; try discriminate.
  destruct (dc_matches d g) eqn:E.
  - intros H; inversion H; subst. exists d. rewrite Nat.sub_diag. auto.
  - intros H. destruct (IH _ _ H) as [d' [Hk [Hn Hm]]]. exists d'. split; [lia|].
    replace (i - k)%nat with (S (i - S k)) by lia. auto.
Qed.

Lemma group_key_pure sl gb r :
  List.length r = List.length sl -> group_key sl gb r = Ok (mkey sl gb r).
Proof.
  intros L. induction gb as [|g gb IH]; cbn; auto.
  destruct (col_to_idx sl g) as [i|] eqn:E; auto.
  unfold col_to_idx in E. apply col_to_idx_from_some in E. destruct E as [d [_ [Hn _]]].
  rewrite Nat.sub_0_r in Hn. assert (Hi : (i < List.length r)%nat) by (rewrite L; apply nth_error_Some; congruence).
  unfold idx_row. destruct (nth_error r i) eqn:E2; [| apply nth_error_None in E2; lia].
  rewrite (nth_error_nth _ _ _ E2). cbn. rewrite IH. reflexivity.
Qed.

(* the unique select item denoted by g is the one col_to_idx finds *)
Lemma unique_first sl g : forall k i d,
  List.length (filter (denotes g) sl) = 1%nat -> nth_error sl i = Some d -> denotes g d = true ->
  col_to_idx_from sl g k = Some (k + i)%nat.
Proof.
  induction sl as [|a sl IH]; intros k i d L Hn Hd.
  - destruct i; discriminate.
  - cbn in L. cbn [col_to_idx_from]. rewrite dc_matches_denotes.
    destruct (denotes g a) eqn:Ea.
    + cbn in L. destruct i as [|i]; [f_equal; lia|]. exfalso. cbn in Hn.
      assert (In d (filter (denotes g) sl)) by (apply filter_In; split; auto; eapply nth_error_In; eauto).
      destruct (filter (denotes g) sl); [contradiction | discriminate].
    + destruct i as [|i]; [cbn in Hn; inversion Hn; subst; congruence|].
      cbn in Hn. rewrite (IH (S k) i d L Hn Hd). f_equal. lia.
Qed.

Definition plain_at (sl : list derivedcol) (i : nat) : Prop :=
  exists d, nth_error sl i = Some d /\ is_plain d = true.

Lemma shape_index_sets sl gb i :
  agg_shape sl gb = true ->
  ((exists g, In g gb /\ col_to_idx sl g = Some i) <-> plain_at sl i).
Proof.
  unfold agg_shape. rewrite !andb_true_iff. intros [[S1 S2] _]. split.
  - intros [g [_ H]]. unfold col_to_idx in H. apply col_to_idx_from_some in H.
    destruct H as [d [_ [Hn Hm]]]. rewrite Nat.sub_0_r in Hn. exists d. split; auto.
    unfold dc_matches in Hm. unfold is_plain. destruct (dc_prim d) as [ | | | [[|c]| | | ]]; auto; discriminate.
  - intros [d [Hn Hp]]. rewrite forallb_forall in S1. specialize (S1 d (nth_error_In _ _ Hn)).
    unfold is_plain in Hp. destruct (dc_prim d) as [ | | | [[|c]| | | ]] eqn:Ed; try discriminate.
    apply existsb_exists in S1. destruct S1 as [g [Hg Hd]]. exists g. split; auto.
    rewrite forallb_forall in S2. specialize (S2 g Hg). apply Nat.eqb_eq in S2.
    unfold col_to_idx. rewrite (unique_first sl g 0 i d S2 Hn Hd). reflexivity.
Qed.

Lemma key_of_out_eq sl : forall r r',
  List.length r = List.length sl -> List.length r' = List.length sl ->
  (key_of_out sl r = key_of_out sl r' <->
   forall i, plain_at sl i -> nth i r VNull = nth i r' VNull).
Proof.
  induction sl as [|d sl IH]; intros r r' L L'.
  - split; auto. intros _ i [d [H _]]. destruct i; discriminate.
  - destruct r as [|v r]; destruct r' as [|v' r']; try discriminate. cbn in L, L'.
    assert (Lr : List.length r = List.length sl) by lia. assert (Lr' : List.length r' = List.length sl) by lia.
    cbn [key_of_out]. destruct (is_plain d) eqn:P.
    + split.
      * intros H. inversion H as [[Hv Hk]]. intros [|i] [d' [Hn Hp]]; cbn; auto.
        apply (proj1 (IH _ _ Lr Lr') Hk). exists d'. auto.
      * intros H. f_equal.
        -- apply (H 0%nat). exists d. auto.
        -- apply (IH _ _ Lr Lr'). intros i [d' [Hn Hp]]. apply (H (S i)). exists d'. auto.
    + rewrite (IH _ _ Lr Lr'). split.
      * intros H [|i] [d' [Hn Hp]]; cbn.
        -- cbn in Hn. inversion Hn; subst. congruence.
        -- apply H. exists d'. auto.
      * intros H i [d' [Hn Hp]]. apply (H (S i)). exists d'. auto.
Qed.

Lemma mkey_eq sl gb r r' :
  mkey sl gb r = mkey sl gb r' <->
  forall g i, In g gb -> col_to_idx sl g = Some i -> nth i r VNull = nth i r' VNull.
Proof.
  unfold mkey. induction gb as [|g gb IH]; cbn.
  - split; auto. intros _ g i [].
  - destruct (col_to_idx sl g) as [j|] eqn:E; cbn.
    + split.
      * intros H. inversion H as [[Hv Hk]]. intros g' i [<-|Hg] Hi.
        -- rewrite E in Hi. inversion Hi; subst. auto.
        -- apply (proj1 IH Hk g' i); auto.
      * intros H. f_equal.
        -- apply (H g j); auto.
        -- apply IH. intros g' i Hg Hi. apply (H g' i); auto.
    + rewrite IH. split.
      * intros H g' i [<-|Hg] Hi; [congruence|]. apply (H g' i); auto.
      * intros H g' i Hg Hi. apply (H g' i); auto.
Qed.

Lemma keys_equiv sl gb r r' :
  agg_shape sl gb = true -> List.length r = List.length sl -> List.length r' = List.length sl ->
  (mkey sl gb r = mkey sl gb r' <-> key_of_out sl r = key_of_out sl r').
Proof.
  intros S L L'. rewrite mkey_eq, (key_of_out_eq sl r r' L L'). split.
  - intros H i Hp. apply (shape_index_sets sl gb i S) in Hp. destruct Hp as [g [Hg Hi]]. eauto.
  - intros H g i Hg Hi. apply H. apply (shape_index_sets sl gb i S). eauto.
Qed.

Lemma key_of_out_seed sl fs b :
  Forall (fun d => item_ok d fs) sl -> key_of_out sl (seed sl fs b) = key_of_base sl fs b.
Proof.
  unfold key_of_base, seed. induction 1 as [|d sl I _ IH]; cbn; auto.
  unfold is_plain, seed_cell, item_ok, col_idx in *.
  destruct (dc_prim d) as [ | [c|] | c | [[l|c]| | | ]]; try contradiction; cbn; auto.
  destruct I as [i R]. rewrite R. cbn. rewrite IH. reflexivity.
Qed.

(* ---------------------------------------------------------------------------------- *)
(* plain cells of a representative are those of its first member                       *)

Lemma key_of_out_cols_q sl : forall first n rw rep,
  List.length rw = List.length sl -> List.length rep = List.length sl ->
  key_of_out sl (cols_q sl first n rw rep) = key_of_out sl rep.
Proof.
  induction sl as [|d sl IH]; intros first n [|x rw] [|y rep] L L'; try discriminate; cbn; auto.
  cbn in L, L'. rewrite IH by lia. unfold is_plain, cell_upd.
  destruct (dc_prim d) as [ | | | [[|c]| | | ]]; auto.
Qed.

Lemma cols_q_length sl : forall first n rw rep,
  List.length rw = List.length sl -> List.length rep = List.length sl ->
  List.length (cols_q sl first n rw rep) = List.length sl.
Proof. induction sl as [|d sl IH]; intros first n [|x rw] [|y rep] L L'; try discriminate; cbn; auto. Qed.

Lemma rep_fold_key sl ms : forall rep n,
  List.length rep = List.length sl -> Forall (fun m => List.length m = List.length sl) ms ->
  key_of_out sl (rep_fold sl rep n ms) = key_of_out sl rep /\
  List.length (rep_fold sl rep n ms) = List.length sl.
Proof.
  induction ms as [|m ms IH]; intros rep n L H; cbn; auto.
  inversion H; subst. destruct (IH (cols_q sl false (n + 1)%Z m rep) (n + 1)%Z) as [K Ln]; auto.
  - apply cols_q_length; auto.
  - rewrite K. split; auto. apply key_of_out_cols_q; auto.
Qed.

Lemma group_rep_key sl m ms :
  Forall (fun m => List.length m = List.length sl) (m :: ms) ->
  key_of_out sl (group_rep sl (m :: ms)) = key_of_out sl m /\
  List.length (group_rep sl (m :: ms)) = List.length sl.
Proof.
  intros H. inversion H; subst. cbn [group_rep].
  destruct (rep_fold_key sl ms (cols_q sl true 1 m m) 1) as [K L]; auto.
  - apply cols_q_length; auto.
  - rewrite K. split; auto. apply key_of_out_cols_q; auto.
Qed.

(* ---------------------------------------------------------------------------------- *)
(* the loop over the rows: one entry per group key, holding the fold of its members     *)

Lemma NoDup_app_snoc {A} (l : list A) x : NoDup l -> ~ In x l -> NoDup (l ++ [x]).
Proof.
  intros ND Hx. induction ND as [|a l Ha ND IH]; cbn.
  - constructor; auto. constructor.
  - constructor.
    + rewrite in_app_iff. cbn. intros [H|[H|[]]]; auto. subst. apply Hx. left; auto.
    + apply IH. intros H. apply Hx. right; auto.
Qed.

Section Loop.
Variables (sl : list derivedcol) (gb : list colref).

Definition members (k : gkey) (rows : list row) : list row :=
  filter (fun r => gkey_eqb (mkey sl gb r) k) rows.

Definition GS (ms : list row) (s : gstate) : Prop :=
  fst s = group_rep sl ms /\ counts_ok sl 0 (Z.of_nat (List.length ms)) (snd s).

Record Inv (gs : list (gkey * gstate)) (done : list row) : Prop := {
  inv_nodup : NoDup (map fst gs);
  inv_keys : forall k, In k (map fst gs) <-> exists r, In r done /\ mkey sl gb r = k;
  inv_state : forall k s, In (k, s) gs -> members k done <> [] /\ GS (members k done) s
}.

Lemma gkey_eqb_iff a b : gkey_eqb a b = true <-> a = b.
Proof. apply list_eqb_spec. apply value_eqb_spec. Qed.

Lemma gkey_eqb_refl a : gkey_eqb a a = true.
Proof. apply gkey_eqb_iff. reflexivity. Qed.

Lemma find_group_none k gs : find_group k gs = None -> ~ In k (map fst gs).
Proof.
  induction gs as [|[k' s] gs IH]; cbn; auto.
  destruct (gkey_eqb k' k) eqn:E; try discriminate. intros H [Hk|Hk].
  - subst. rewrite gkey_eqb_refl in E. discriminate.
  - apply IH; auto.
Qed.

Lemma find_group_some k gs s : find_group k gs = Some s -> In (k, s) gs.
Proof.
  induction gs as [|[k' s'] gs IH]; cbn; try discriminate.
  destruct (gkey_eqb k' k) eqn:E.
  - apply gkey_eqb_iff in E. subst. intros H; inversion H; auto.
  - intros H. right. auto.
Qed.

Lemma set_group_keys k s gs : map fst (set_group k s gs) = map fst gs.
Proof.
  induction gs as [|[k' s'] gs IH]; cbn; auto. destruct (gkey_eqb k' k); cbn; auto. rewrite IH. reflexivity.
Qed.

Lemma set_group_in k s gs k' s' :
  NoDup (map fst gs) -> In k (map fst gs) -> In (k', s') (set_group k s gs) ->
  (k' = k /\ s' = s) \/ (k' <> k /\ In (k', s') gs).
Proof.
  induction gs as [|[k0 s0] gs IH]; cbn; intros ND Hk H; [contradiction|].
  inversion ND as [|? ? Hn ND']; subst.
  destruct (gkey_eqb k0 k) eqn:E.
  - apply gkey_eqb_iff in E. subst k0. destruct H as [H|H].
    + inversion H; auto.
    + right. split; auto. intros ->. apply Hn. apply in_map_iff. exists (k, s'). auto.
  - assert (k0 <> k) by (intros ->; rewrite gkey_eqb_refl in E; discriminate).
    destruct H as [H|H].
    + inversion H; subst. right. auto.
    + destruct Hk as [Hk|Hk]; [congruence|]. destruct (IH ND' Hk H) as [?|[? ?]]; auto.
Qed.

Lemma members_app k a b : members k (a ++ b) = members k a ++ members k b.
Proof. apply filter_app. Qed.

Lemma members_nil k rows : (forall r, In r rows -> mkey sl gb r <> k) -> members k rows = [].
Proof.
  intros H. induction rows as [|r rows IH]; cbn; auto.
  destruct (gkey_eqb (mkey sl gb r) k) eqn:E.
  - apply gkey_eqb_iff in E. exfalso. apply (H r); cbn; auto.
  - apply IH. intros r' Hr. apply H. cbn; auto.
Qed.

Lemma members_in k rows r : In r (members k rows) -> In r rows /\ mkey sl gb r = k.
Proof. unfold members. rewrite filter_In, gkey_eqb_iff. auto. Qed.

Definition row_good (r : row) : Prop := ints_at sl r.

Lemma members_good k rows : Forall row_good rows -> Forall row_good (members k rows).
Proof.
  rewrite !Forall_forall. intros H r Hr. apply members_in in Hr. apply H. tauto.
Qed.

Lemma group_rep_ints ms : ms <> [] -> Forall row_good ms -> ints_at sl (group_rep sl ms).
Proof.
  destruct ms as [|m ms]; [congruence|]. intros _ H. inversion H; subst. cbn.
  apply rep_fold_ints; auto. apply cols_q_ints; auto.
Qed.

Lemma init_state m : row_good m -> exists s, agg_cols sl 0 true m m [] = Ok s /\ GS [m] s.
Proof.
  intros G. destruct (agg_cols_top sl true 1 m m [] G G) as [cs' [E C]].
  - intros k d _ _. reflexivity.
  - exists (cols_q sl true 1 m m, cs'). split; auto. split; auto.
Qed.

Lemma upd_state ms rep cs m :
  ms <> [] -> Forall row_good ms -> row_good m -> GS ms (rep, cs) ->
  exists s, agg_cols sl 0 false m rep cs = Ok s /\ GS (ms ++ [m]) s.
Proof.
  intros NE Gms Gm [Hr Hc]. cbn in Hr, Hc. subst rep.
  set (n := (Z.of_nat (List.length ms) + 1)%Z).
  destruct (agg_cols_top sl false n m (group_rep sl ms) cs Gm (group_rep_ints _ NE Gms)) as [cs' [E C]].
  - unfold n. replace (Z.of_nat (List.length ms) + 1 - 1)%Z with (Z.of_nat (List.length ms)) by lia. exact Hc.
  - eexists. split; [exact E|]. split; cbn.
    + destruct ms as [|m1 ms']; [congruence|]. cbn [group_rep app]. rewrite rep_fold_snoc.
      unfold n. cbn [List.length]. f_equal. lia.
    + rewrite app_length. cbn. unfold n in C. replace (Z.of_nat (List.length ms + 1)) with (Z.of_nat (List.length ms) + 1)%Z by lia.
      exact C.
Qed.

Lemma agg_step_inv gs done rw :
  Inv gs done -> Forall row_good done -> row_good rw ->
  exists gs', agg_step sl gb gs rw = Ok gs' /\ Inv gs' (done ++ [rw]).
Proof.
  intros I Gd Gr. unfold agg_step.
  rewrite group_key_pure by (apply ints_at_length; exact Gr). cbn [Select.obind].
  set (k := mkey sl gb rw).
  destruct (find_group k gs) as [[rep cs]|] eqn:F.
  - (* existing group *)
    apply find_group_some in F. destruct (inv_state _ _ I _ _ F) as [NE G].
    destruct (upd_state _ _ _ rw NE (members_good _ _ Gd) Gr G) as [s [E G']].
    rewrite E. cbn. eexists. split; [reflexivity|].
    assert (Hk : In k (map fst gs)) by (apply in_map_iff; exists (k, (rep, cs)); auto).
    split.
    + rewrite set_group_keys. apply (inv_nodup _ _ I).
    + intros k'. rewrite set_group_keys, (inv_keys _ _ I). split.
      * intros [r [Hr Hm]]. exists r. rewrite in_app_iff. auto.
      * intros [r [Hr Hm]]. rewrite in_app_iff in Hr. destruct Hr as [Hr|[<-|[]]]; eauto.
        subst k'. apply (inv_keys _ _ I). exact Hk.
    + intros k' s' H. apply (set_group_in _ _ _ _ _ (inv_nodup _ _ I) Hk) in H.
      rewrite members_app. destruct H as [[-> ->]|[Hne H]].
      * assert (Em : members k [rw] = [rw]) by (cbn; fold k; rewrite gkey_eqb_refl; reflexivity).
        rewrite Em. split; auto. intros C. apply app_eq_nil in C. destruct C; discriminate.
      * assert (Em : members k' [rw] = []).
        { cbn. fold k. destruct (gkey_eqb k k') eqn:E2; auto. apply gkey_eqb_iff in E2. congruence. }
        rewrite Em, app_nil_r. apply (inv_state _ _ I). exact H.
  - (* new group *)
    pose proof (find_group_none _ _ F) as NK.
    destruct (init_state rw Gr) as [s [E G]]. rewrite E. cbn. eexists. split; [reflexivity|].
    assert (Mk : members k done = []).
    { apply members_nil. intros r Hr Hm. apply NK. apply (inv_keys _ _ I). eauto. }
    split.
    + rewrite map_app. cbn. apply NoDup_app_snoc; auto. apply (inv_nodup _ _ I).
    + intros k'. rewrite map_app, in_app_iff. cbn. rewrite (inv_keys _ _ I). split.
      * intros [[r [Hr Hm]]|[<-|[]]].
        -- exists r. rewrite in_app_iff. auto.
        -- exists rw. rewrite in_app_iff. cbn. auto.
      * intros [r [Hr Hm]]. rewrite in_app_iff in Hr. destruct Hr as [Hr|[<-|[]]]; eauto.
    + intros k' s' H. rewrite in_app_iff in H. rewrite members_app. destruct H as [H|[H|[]]].
      * assert (k' <> k).
        { intros ->. apply NK. apply in_map_iff. exists (k, s'). auto. }
        assert (Em : members k' [rw] = []).
        { cbn. fold k. destruct (gkey_eqb k k') eqn:E2; auto. apply gkey_eqb_iff in E2. congruence. }
        rewrite Em, app_nil_r. apply (inv_state _ _ I). exact H.
      * inversion H; subst k' s'. rewrite Mk. cbn. fold k. rewrite gkey_eqb_refl. split; [discriminate | exact G].
Qed.

Lemma agg_loop_inv rows : forall gs done,
  Inv gs done -> Forall row_good done -> Forall row_good rows ->
  exists gs', agg_loop sl gb gs rows = Ok gs' /\ Inv gs' (done ++ rows).
Proof.
  induction rows as [|rw rows IH]; intros gs done I Gd Gr; cbn.
  - exists gs. rewrite app_nil_r. auto.
  - inversion Gr; subst. destruct (agg_step_inv gs done rw I Gd) as [gs1 [E I1]]; auto.
    rewrite E. cbn. destruct (IH gs1 (done ++ [rw]) I1) as [gs' [E' I']]; auto.
    + apply Forall_app. auto.
    + exists gs'. rewrite <- app_assoc in I'. auto.
Qed.

Lemma inv_init : Inv [] [].
Proof.
  split; cbn.
  - constructor.
  - intros k. split; [tauto | intros [r [[] _]]].
  - intros k s [].
Qed.

End Loop.

(* ---------------------------------------------------------------------------------- *)
(* the cells of a representative, column by column                                     *)

Lemma rep_fold_nil ms : forall n, rep_fold [] [] n ms = [].
Proof. induction ms as [|m ms IH]; intros n; cbn; auto. Qed.

Lemma group_rep_cons d sl fs grp : grp <> [] ->
  group_rep (d :: sl) (map (seed (d :: sl) fs) grp) =
  cell_fold d (map (seed_cell d fs) grp) :: group_rep sl (map (seed sl fs) grp).
Proof.
  destruct grp as [|b1 rest]; [congruence|]. intros _. cbn [map group_rep seed cols_q cell_fold].
  rewrite rep_fold_cons.
  - rewrite !map_map. cbn. reflexivity.
  - rewrite Forall_forall. intros m Hm. apply in_map_iff in Hm. destruct Hm as [b [<- _]]. discriminate.
Qed.

Lemma cell_fold_from_plain d y n xs : is_avg d = false -> is_count d = false -> cell_fold_from d y n xs = y.
Proof.
  intros A C. revert y n. induction xs as [|x xs IH]; intros y n; cbn; auto.
  rewrite IH. unfold cell_upd. unfold is_avg, is_count in *. destruct (dc_prim d); auto; discriminate.
Qed.

Definition zsum (xs : list value) : Z := fold_right Z.add 0%Z (map int_of xs).

Lemma cell_fold_from_count d a n xs : is_count d = true ->
  cell_fold_from d (VInt a) n xs = VInt (a + zsum xs).
Proof.
  intros C. revert a n. induction xs as [|x xs IH]; intros a n; cbn.
  - f_equal. unfold zsum. cbn. lia.
  - unfold cell_upd at 1. unfold is_count in C. destruct (dc_prim d) eqn:E; try discriminate.
    cbn. rewrite IH. f_equal. unfold zsum. cbn. lia.
Qed.

Lemma cell_fold_from_avg_int d a n xs : is_avg d = true -> exists z, cell_fold_from d (VInt a) n xs = VInt z.
Proof.
  intros A. revert a n. induction xs as [|x xs IH]; intros a n; cbn; eauto.
  unfold cell_upd at 1. unfold is_avg in A. destruct (dc_prim d) eqn:E; try discriminate. apply IH.
Qed.

Lemma count_seed_sum_star grp : zsum (map (fun _ : row => VInt 1) grp) = Z.of_nat (List.length grp).
Proof. unfold zsum. induction grp as [|b grp IH]; cbn [map fold_right List.length int_of]; [reflexivity|]. rewrite IH. lia. Qed.

Lemma count_seed_sum_col i grp :
  zsum (map (fun b : row => match nth i b VNull with VNull => VInt 0 | _ => VInt 1 end) grp) =
  Z.of_nat (List.length (filter (fun g => negb (value_eqb (nth i g VNull) VNull)) grp)).
Proof.
  unfold zsum. induction grp as [|b grp IH]; cbn [map fold_right filter]; [reflexivity|].
  rewrite IH. destruct (nth i b VNull); cbn [int_of value_eqb negb List.length]; lia.
Qed.

Lemma cell_fold_ok d fs grp :
  grp <> [] -> item_ok d fs -> Forall (fun b => avg_int d fs b) grp ->
  cell_ok_lenient d fs grp (cell_fold d (map (seed_cell d fs) grp)) = true.
Proof.
  destruct grp as [|b1 rest]; [congruence|]. intros _ I A.
  unfold cell_ok_lenient, cell_ok, item_ok in *. cbn [map cell_fold].
  destruct (dc_prim d) as [ | [c|] | c | [[l|c]| | | ]] eqn:Ed; try contradiction.
  - (* count(c) *)
    destruct I as [i R]. rewrite R.
    assert (Es : forall b, seed_cell d fs b = match nth i b VNull with VNull => VInt 0 | _ => VInt 1 end).
    { intros b. unfold seed_cell, col_idx. rewrite Ed, R. reflexivity. }
    rewrite Es. unfold cell_upd at 1. rewrite Ed.
    assert (Em : map (seed_cell d fs) rest = map (fun b : row => match nth i b VNull with VNull => VInt 0 | _ => VInt 1 end) rest)
      by (apply map_ext; auto).
    rewrite Em.
    assert (Hz : exists a, match nth i b1 VNull with VNull => VInt 0 | _ => VInt 1 end = VInt a /\
                           a = Z.of_nat (List.length (filter (fun g => negb (value_eqb (nth i g VNull) VNull)) [b1]))).
    { cbn. destruct (nth i b1 VNull); cbn; eauto. }
    destruct Hz as [a [Ha Hl]]. rewrite Ha, cell_fold_from_count by (unfold is_count; rewrite Ed; auto).
    rewrite count_seed_sum_col. apply value_eqb_spec. f_equal. subst a.
    cbn [filter]. destruct (negb (value_eqb (nth i b1 VNull) VNull)); cbn [List.length]; lia.
  - (* count( * ) *)
    assert (Es : forall b, seed_cell d fs b = VInt 1) by (intros b; unfold seed_cell; rewrite Ed; reflexivity).
    rewrite Es. unfold cell_upd at 1. rewrite Ed.
    assert (Em : map (seed_cell d fs) rest = map (fun _ : row => VInt 1) rest) by (apply map_ext; auto).
    rewrite Em, cell_fold_from_count by (unfold is_count; rewrite Ed; auto).
    rewrite count_seed_sum_star. apply value_eqb_spec. f_equal. cbn [List.length]. lia.
  - (* avg(c) *)
    destruct I as [i R]. rewrite R.
    assert (Es : forall b, seed_cell d fs b = nth i b VNull).
    { intros b. unfold seed_cell, col_idx. rewrite Ed, R. reflexivity. }
    assert (Ai : forall b, In b (b1 :: rest) -> exists z, nth i b VNull = VInt z).
    { intros b Hb. rewrite Forall_forall in A. specialize (A b Hb). unfold avg_int, col_idx in A. rewrite Ed, R in A. exact A. }
    rewrite Es. destruct (Ai b1 (or_introl eq_refl)) as [z1 Hz1]. rewrite Hz1.
    assert (E1 : cell_upd d true 1 (VInt z1) (VInt z1) = VInt z1).
    { unfold cell_upd. rewrite Ed. cbn [int_of]. replace (z1 * (1 - 1) + z1)%Z with z1 by lia.
      rewrite round_div_1. reflexivity. }
    rewrite E1.
    destruct rest as [|b2 [|b3 rest']].
    + (* one row *)
      apply orb_true_iff. right. cbn [map cell_fold_from fold_right List.length]. rewrite ?Hz1. cbn [int_of].
      unfold avg_ok. change (Z.of_nat 1) with 1%Z. cbn [Z.eqb]. apply Z.leb_le. lia.
    + (* two rows *)
      destruct (Ai b2 (or_intror (or_introl eq_refl))) as [z2 Hz2].
      apply orb_true_iff. right. cbn [map cell_fold_from fold_right List.length]. rewrite ?Es, ?Hz1, ?Hz2.
      assert (E2 : cell_upd d false (1 + 1) (VInt z2) (VInt z1) = VInt (round_div (z1 + (z2 + 0)) 2)).
      { unfold cell_upd. rewrite Ed. cbn [int_of]. f_equal. f_equal. lia. }
      rewrite E2. cbn [int_of]. unfold avg_ok. change (Z.of_nat 2) with 2%Z. cbn [Z.eqb].
      apply Z.leb_le. apply (round_div_near (z1 + (z2 + 0)) 2). lia.
    + (* three or more rows: only an integer is required *)
      destruct (cell_fold_from_avg_int d z1 1 (map (seed_cell d fs) (b2 :: b3 :: rest'))) as [z Hz];
        [unfold is_avg; rewrite Ed; auto|].
      rewrite Hz. reflexivity.
  - (* plain column *)
    destruct I as [i R]. rewrite R.
    rewrite cell_fold_from_plain by (unfold is_avg, is_count; rewrite Ed; auto).
    unfold cell_upd. rewrite Ed. unfold seed_cell, col_idx. rewrite Ed, R. apply value_eqb_spec. reflexivity.
Qed.

Lemma cells_fold_ok sl fs grp :
  grp <> [] -> Forall (fun d => item_ok d fs) sl -> Forall (fun b => Forall (fun d => avg_int d fs b) sl) grp ->
  cells_ok_lenient sl fs grp (group_rep sl (map (seed sl fs) grp)) = true.
Proof.
  intros NE I A. induction sl as [|d sl IH].
  - destruct grp as [|b rest]; [congruence|]. cbn. rewrite rep_fold_nil. reflexivity.
  - rewrite group_rep_cons by auto. cbn [cells_ok_lenient]. inversion I; subst.
    rewrite cell_fold_ok; auto.
    + cbn. apply IH; auto. eapply Forall_impl; [|exact A]. intros b Hb. inversion Hb; auto.
    + eapply Forall_impl; [|exact A]. intros b Hb. inversion Hb; auto.
Qed.

(* ---------------------------------------------------------------------------------- *)
(* from the loop invariant to the specification                                        *)

Lemma filter_map_swap {A B} (f : A -> B) (p : B -> bool) l : filter p (map f l) = map f (filter (fun x => p (f x)) l).
Proof. induction l as [|a l IH]; cbn; auto. destruct (p (f a)); cbn; rewrite IH; reflexivity. Qed.

Lemma key_eqb_iff a b : key_eqb a b = true <-> a = b.
Proof. apply list_eqb_spec. apply value_eqb_spec. Qed.

Lemma bool_eq_iff (a b : bool) : (a = true <-> b = true) -> a = b.
Proof. destruct a, b; intros [H1 H2]; auto; try (symmetry; apply H1; reflexivity); try (apply H2; reflexivity). Qed.

Lemma nonempty_in {A} (l : list A) : l <> [] -> exists x, In x l.
Proof. destruct l as [|a l]; [congruence|]. intros _. exists a. left; auto. Qed.

Lemma filter_all_true {A} (p : A -> bool) l : (forall x, p x = true) -> filter p l = l.
Proof. intros H. induction l as [|a l IH]; cbn; auto. rewrite H, IH. reflexivity. Qed.

Section Final.
Variables (sl : list derivedcol) (gb : list colref) (fs : list field) (base : list row).
Hypothesis T : typed sl gb fs base.

Let seeds := map (seed sl fs) base.

Lemma seeds_good : Forall (row_good sl) seeds.
Proof.
  unfold seeds. rewrite Forall_forall. intros m Hm. apply in_map_iff in Hm. destruct Hm as [b [<- Hb]].
  apply seed_ints. apply (ty_items _ _ _ _ T).
  pose proof (ty_avg _ _ _ _ T) as A. rewrite Forall_forall in A. auto.
Qed.

Lemma seed_length b : List.length (seed sl fs b) = List.length sl.
Proof. unfold seed. apply map_length. Qed.

(* what the invariant says about one entry of the final state *)
Lemma entry_spec gs k s :
  Inv sl gb gs seeds -> In (k, s) gs ->
  exists grp b1 rest,
    grp = b1 :: rest /\
    grp = filter (fun b => gkey_eqb (mkey sl gb (seed sl fs b)) k) base /\
    mkey sl gb (seed sl fs b1) = k /\ In b1 base /\
    fst s = group_rep sl (map (seed sl fs) grp) /\
    key_of_out sl (fst s) = key_of_base sl fs b1.
Proof.
  intros I H. destruct (inv_state _ _ _ _ I _ _ H) as [NE [Hr _]].
  unfold members, seeds in *. rewrite filter_map_swap in *.
  remember (filter (fun b => gkey_eqb (mkey sl gb (seed sl fs b)) k) base) as grp eqn:Eg.
  destruct grp as [|b1 rest]; [cbn in NE; congruence|].
  assert (Hb1 : In b1 (filter (fun b => gkey_eqb (mkey sl gb (seed sl fs b)) k) base)) by (rewrite <- Eg; left; auto).
  apply filter_In in Hb1. destruct Hb1 as [Hin Hk]. apply gkey_eqb_iff in Hk.
  exists (b1 :: rest), b1, rest. split; [reflexivity|]. split; [reflexivity|]. split; [exact Hk|].
  split; [exact Hin|]. split; [exact Hr|].
  rewrite Hr. cbn [map].
  destruct (group_rep_key sl (seed sl fs b1) (map (seed sl fs) rest)) as [K _].
  - constructor; [apply seed_length|]. rewrite Forall_forall. intros m Hm. apply in_map_iff in Hm.
    destruct Hm as [b [<- _]]. apply seed_length.
  - transitivity (key_of_out sl (seed sl fs b1)); [exact K|]. apply key_of_out_seed. apply (ty_items _ _ _ _ T).
Qed.

Lemma group_of_entry k b1 :
  mkey sl gb (seed sl fs b1) = k ->
  filter (fun b => gkey_eqb (mkey sl gb (seed sl fs b)) k) base = group_of sl fs base (key_of_base sl fs b1).
Proof.
  intros Hk. unfold group_of. apply filter_ext. intros b. apply bool_eq_iff.
  rewrite gkey_eqb_iff, key_eqb_iff, <- Hk.
  rewrite (keys_equiv sl gb _ _ (ty_shape _ _ _ _ T) (seed_length b) (seed_length b1)).
  rewrite !key_of_out_seed by apply (ty_items _ _ _ _ T). reflexivity.
Qed.

Lemma avg_sub grp : (forall b, In b grp -> In b base) -> Forall (fun b => Forall (fun d => avg_int d fs b) sl) grp.
Proof.
  intros H. rewrite Forall_forall. intros b Hb. pose proof (ty_avg _ _ _ _ T) as A. rewrite Forall_forall in A. auto.
Qed.

Theorem loop_meets_spec gs :
  gb <> [] -> Inv sl gb gs seeds ->
  AggSpecLenient sl gb fs base (map (fun g => fst (snd g)) gs).
Proof.
  intros NG I. unfold AggSpecLenient, AggSpecG. destruct gb as [|g0 gb'] eqn:Egb; [congruence|]. rewrite <- Egb in *.
  split; [|split].
  - (* pairwise different grouping values *)
    pose proof (inv_nodup _ _ _ _ I) as ND.
    assert (Hinj : forall e1 e2, In e1 gs -> In e2 gs ->
                key_of_out sl (fst (snd e1)) = key_of_out sl (fst (snd e2)) -> fst e1 = fst e2).
    { intros [k1 s1] [k2 s2] H1 H2 E. cbn in *.
      destruct (entry_spec _ _ _ I H1) as [? [b1 [? [_ [_ [M1 [_ [_ K1]]]]]]]].
      destruct (entry_spec _ _ _ I H2) as [? [b2 [? [_ [_ [M2 [_ [_ K2]]]]]]]].
      rewrite K1, K2 in E. rewrite <- M1, <- M2.
      apply (keys_equiv sl gb _ _ (ty_shape _ _ _ _ T) (seed_length b1) (seed_length b2)).
      rewrite !key_of_out_seed by apply (ty_items _ _ _ _ T). exact E. }
    rewrite map_map. clear I. induction gs as [|e gs' IH]; cbn; [constructor|].
    inversion ND as [|? ? Hn ND']; subst. constructor.
    + intros Hin. apply in_map_iff in Hin. destruct Hin as [e' [E He']].
      apply Hn. apply in_map_iff. exists e'. split; auto.
      symmetry. apply Hinj; cbn; auto.
    + apply IH; auto. intros e1 e2 H1 H2. apply Hinj; cbn; auto.
  - (* the grouping values of out are those of base *)
    intros kv. rewrite map_map. split.
    + intros Hin. apply in_map_iff in Hin. destruct Hin as [[k s] [E He]]. cbn in E.
      destruct (entry_spec _ _ _ I He) as [? [b1 [? [_ [_ [_ [Hb [_ K]]]]]]]].
      apply in_map_iff. exists b1. split; auto. congruence.
    + intros Hin. apply in_map_iff in Hin. destruct Hin as [b [E Hb]].
      assert (Hk : In (mkey sl gb (seed sl fs b)) (map fst gs)).
      { apply (inv_keys _ _ _ _ I). exists (seed sl fs b). split; auto. unfold seeds. apply in_map. exact Hb. }
      apply in_map_iff in Hk. destruct Hk as [[k s] [Ek He]]. cbn in Ek.
      destruct (entry_spec _ _ _ I He) as [? [b1 [? [_ [_ [M1 [_ [_ K]]]]]]]].
      apply in_map_iff. exists (k, s). split; auto. cbn. rewrite K, <- E.
      rewrite <- !key_of_out_seed by apply (ty_items _ _ _ _ T).
      apply (keys_equiv sl gb _ _ (ty_shape _ _ _ _ T) (seed_length b1) (seed_length b)). congruence.
  - (* every row is computed over its group *)
    intros o Ho. apply in_map_iff in Ho. destruct Ho as [[k s] [<- He]]. cbn.
    destruct (entry_spec _ _ _ I He) as [grp [b1 [rest [Eg [Ef [M1 [Hb [Hr K]]]]]]]].
    rewrite K, <- (group_of_entry k b1 M1), <- Ef, Hr.
    apply cells_fold_ok.
    + rewrite Eg. discriminate.
    + apply (ty_items _ _ _ _ T).
    + apply avg_sub. intros b Hb'. rewrite Ef in Hb'. apply filter_In in Hb'. tauto.
Qed.

(* without GROUP BY every row has the empty key: one group, the whole input *)
Theorem loop_meets_spec_nogroup gs :
  gb = [] -> base <> [] -> Inv sl gb gs seeds ->
  exists s, gs = [([], s)] /\ cells_ok_lenient sl fs base (fst s) = true.
Proof.
  intros EG NB I.
  assert (MK : forall r, mkey sl gb r = []) by (intros r; rewrite EG; reflexivity).
  assert (Hk : forall k, In k (map fst gs) <-> k = []).
  { intros k. rewrite (inv_keys _ _ _ _ I). split.
    - intros [r [_ <-]]. apply MK.
    - intros ->. destruct (nonempty_in base NB) as [b Hb].
      exists (seed sl fs b). split; [unfold seeds; apply in_map; exact Hb | apply MK]. }
  pose proof (inv_nodup _ _ _ _ I) as ND.
  destruct gs as [|[k s] gs'].
  - exfalso. apply (proj2 (Hk [])); auto.
  - assert (k = []) by (apply Hk; left; auto). subst k.
    destruct gs' as [|[k' s'] gs''].
    + exists s. split; auto.
      destruct (entry_spec _ _ _ I (or_introl eq_refl)) as [grp [b1 [rest [Eg [Ef [_ [_ [Hr _]]]]]]]].
      assert (Eb : grp = base).
      { rewrite Ef. apply filter_all_true. intros b. rewrite MK. reflexivity. }
      rewrite Hr, Eb. apply cells_fold_ok; auto.
      * apply (ty_items _ _ _ _ T).
      * apply (ty_avg _ _ _ _ T).
    + exfalso. assert (k' = []) by (apply Hk; right; left; auto). subst k'.
      inversion ND as [|? ? Hn _]; subst. apply Hn. left; auto.
Qed.

End Final.
