(* C14 / C01 / C02 / C17: hypothesis (H1) "a failing statement fails before its first page
   change" DERIVED from the refinement invariant.

   EvaluateInsert / EvaluateUpdate check every row (CheckInsert / CheckUpdate) and createTable
   checks every catalog row (checkCatalogRows) before the first change. Under `Rep s d` nothing
   else can fail afterwards ("no late failure"):
   * BTree.insert of a row that fits cannot fail (row ids are fresh, the tree is well formed),
   * updatePageTable finds and rewrites the catalog row of every registered table,
   * the schema of a table does not change while rows are inserted into it, and an UPDATE of
     row k does not change the other rows, so a check that passed on the store the statement
     started from still passes when the row's turn comes,
   * every id a DELETE collected is still live when its turn comes.
   Hence a statement that returns an error returns the store it was given (not even the row-id
   and LSN counters move): stmt_err_unchanged / stmt_fails_early. *)
From Coq Require Import Arith Lia Bool List NArith ZArith String Sorted Permutation.
From Mkdb Require Import Model.Engine Spec.TableSpec Spec.HistObs Proofs.TreeProofs Proofs.StoreInv
  Proofs.BytesProofs Proofs.TupleProofs Proofs.RefineForest Proofs.RefineCodec Proofs.RefineRep
  Proofs.RefineCat Proofs.RefineDML Proofs.RefineDDL Proofs.Atomic Proofs.RefineMain Proofs.RefineFail
  Gen.Params.
Import ListNotations.
Local Open Scope N_scope.
Local Open Scope string_scope.
Local Open Scope list_scope.

(* ====================== BTree.insert of a row that fits succeeds ====================== *)
Lemma bt_insert_ok s root v t :
  SInv s -> find_root root (forest s) = Some t -> (List.length v <= MV)%nat ->
  exists s1 k lsn nr, bt_insert s root v = (s1, Ok (k, lsn, nr)).
Proof.
  intros Hinv Hf Hlen. unfold bt_insert, get_tree. rewrite Hf.
  destruct (find_root_split _ _ _ Hf) as (l1 & l2 & Hfs & Ho & _ & Hrep).
  destruct Hinv as [Hw Hn Hk].
  assert (Ht_w : WFT ML MI (nextFree s) t).
  { rewrite Forall_forall in Hw. apply Hw. rewrite Hfs. apply in_or_app; right; left; reflexivity. }
  assert (Ht_k : Forall (fun x => x < lastKey s + 1) (tree_keys t)).
  { rewrite Forall_forall in Hk. eapply Forall_impl; [|apply Hk; rewrite Hfs; apply in_or_app; right; left; reflexivity].
    cbn. intros; lia. }
  destruct (tree_insert_ok ML MI PS MV ML_ge MI_ge PS_pos (nextFree s) t (lastKey s + 1) (nextLSN s) v Ht_w Ht_k Hlen)
    as (t2 & f2 & E2 & _).
  rewrite E2. eauto.
Qed.

Lemma check_row_size_ok bs : check_row_size bs = Ok tt -> (List.length bs <= MV)%nat.
Proof. unfold check_row_size. destruct (Nat.ltb_spec MV (List.length bs)); [discriminate | auto]. Qed.

Lemma check_row_size_cases bs : check_row_size bs = Ok tt \/ check_row_size bs = Err ERowTooLarge.
Proof. unfold check_row_size. destruct (Nat.ltb _ _); auto. Qed.

(* ====================== INSERT ====================== *)
(* CheckInsert on a table of the represented database reads the schema the specification has *)
Definition row_check (sch : schema) (cols : list string) (vals : list value) : res unit :=
  let cols' := match cols with [] => map fd_name sch | _ => cols end in
  if negb (Nat.eqb (List.length cols') (List.length vals)) then Err EColCount else
  match cols_err (map fd_name sch) cols' [] with
  | Some e => Err e
  | None => do bs <- encode_tuple sch (zip_set cols' vals []); check_row_size bs
  end.

Section InsertOk.
Variables (n : string) (cols : list string).

Lemma check_insert_rep s d t vals :
  Rep s d -> is_sys n = false -> find_tbl n d = Some t ->
  check_insert s n cols vals = row_check (tb_schema t) cols vals.
Proof.
  intros [Hinv Hok (pt & sc & ents & osc & HC)] Hsys Hf.
  destruct (find_tbl_In _ _ _ Hf) as [Hin Hn]. subst n.
  destruct (c_tabs _ _ _ _ _ _ HC t Hin) as (o & tr & He & Hr & Ht).
  pose proof (cat_rel_offset_in s d pt sc ents osc Hinv Hok HC _ _ He) as Eo.
  pose proof (cat_rel_schema s d pt sc ents osc Hinv Hok HC _ Hsys) as Es. rewrite Hf in Es.
  unfold check_insert, ins_precheck, row_check. rewrite is_sys_table_is_sys, Hsys, Eo. cbn [bind].
  unfold get_tree at 1. rewrite Hr. cbn [bind]. rewrite Es. cbn [bind]. cbv zeta.
  destruct (negb _); [reflexivity|]. destruct (cols_err _ _ _); [reflexivity|].
  destruct (encode_tuple _ _) as [bs|e|]; reflexivity.
Qed.

(* a row on a table that is not there (or on a catalog table) is refused by the check *)
Lemma check_insert_sys s vals : is_sys n = true -> check_insert s n cols vals = Err EOther.
Proof. intros H. unfold check_insert. rewrite is_sys_table_is_sys, H. reflexivity. Qed.

Lemma check_insert_missing s d vals :
  Rep s d -> is_sys n = false -> find_tbl n d = None -> check_insert s n cols vals = Err ETableNotExist.
Proof.
  intros [Hinv Hok (pt & sc & ents & osc & HC)] Hsys Hf.
  unfold check_insert, ins_precheck. rewrite is_sys_table_is_sys, Hsys.
  rewrite (cat_rel_offset_none s d pt sc ents osc Hinv HC n Hsys Hf). reflexivity.
Qed.

(* no late failure: a row that passed the check is stored *)
Lemma st_insert_ok s d t vals :
  Rep s d -> is_sys n = false -> find_tbl n d = Some t ->
  row_check (tb_schema t) cols vals = Ok tt ->
  exists s' ws, st_insert s n cols vals = (s', Ok ws).
Proof.
  intros [Hinv Hok (pt & sc & ents & osc & HC)] Hsys Hf Hchk.
  destruct (find_tbl_In _ _ _ Hf) as [Hin Hn]. subst n.
  destruct (c_tabs _ _ _ _ _ _ HC t Hin) as (o & tr & He & Hr & Ht).
  pose proof (cat_rel_offset_in s d pt sc ents osc Hinv Hok HC _ _ He) as Eo.
  pose proof (cat_rel_schema s d pt sc ents osc Hinv Hok HC _ Hsys) as Es. rewrite Hf in Es.
  rewrite st_insert_unfold, is_sys_table_is_sys, Hsys. unfold ins_precheck. rewrite Eo. cbn [bind].
  unfold get_tree at 1. rewrite Hr. cbn [bind]. rewrite Es. cbn [bind]. cbv zeta.
  unfold row_check in Hchk. cbv zeta in Hchk.
  destruct (negb _); [discriminate|]. destruct (cols_err _ _ _); [discriminate|].
  destruct (encode_tuple _ _) as [bs|e|]; cbn [bind] in *; try discriminate.
  apply check_row_size_ok in Hchk.
  destruct (bt_insert_ok s o bs tr Hinv Hr Hchk) as (s1 & k & lsn & nr & Ebt). rewrite Ebt.
  destruct (bt_insert_spec s o bs tr Hinv Hr s1 k lsn nr Ebt)
    as (t' & Hinv1 & -> & -> & -> & Hlk & Hptr & Hnf & Hlsn & Hlen & Hroot & Hcells & Hfind & Hframe).
  destruct (N.eqb_spec (t_off t') o) as [Esame|Emoved]; [eauto|].
  destruct Hroot as [Hroot|Hroot]; [contradiction|].
  assert (Hns : tb_name t <> "sys_pages") by (apply is_sys_false in Hsys; tauto).
  pose proof (cat_offset_not_ptroot s d pt sc ents osc HC _ _ He Hns) as Hop.
  pose proof (find_root_bound s _ pt Hinv (c_pt _ _ _ _ _ _ HC)) as Hptb.
  assert (Hpt1 : find_root (ptRoot s1) (forest s1) = Some pt).
  { rewrite Hptr, Hframe by (try congruence; lia). apply (c_pt _ _ _ _ _ _ HC). }
  destruct (update_page_table_ok s1 pt ents (tb_name t) o (t_off t') Hinv1 Hpt1
              (c_ptcells _ _ _ _ _ _ HC) (c_ptfits _ _ _ _ _ _ HC)
              (cat_names_NoDup d ents Hok (c_names _ _ _ _ _ _ HC)) He) as (s2 & ws & Eup).
  rewrite Eup. eauto.
Qed.

(* the loop of EvaluateInsert after every row passed the check: it runs to the end *)
Lemma insert_rows_ok rows : forall s d t b k,
  Rep s d -> is_sys n = false -> find_tbl n d = Some t -> Forall (Forall val_okP) rows ->
  first_err (row_check (tb_schema t) cols) rows = Ok tt ->
  nextFree (fst (fst (insert_rows s n cols rows b k))) <= OFFMAX ->
  exists c, snd (insert_rows s n cols rows b k) = OOk c.
Proof.
  induction rows as [|vals rest IH]; intros s d t b k HR Hsys Hf Hvals Hchk Hmax.
  - cbn. eauto.
  - cbn [insert_rows] in *. inversion Hvals as [|? ? Hv Hvr]; subst. cbn [first_err] in Hchk.
    destruct (row_check (tb_schema t) cols vals) as [[]|e|] eqn:Erc; try discriminate.
    destruct (st_insert_ok s d t vals HR Hsys Hf Erc) as (s1 & ws & Est). rewrite Est in *.
    assert (Hmax1 : nextFree s1 <= OFFMAX).
    { pose proof (insert_rows_free_mono rest s1 n cols (b ++ ws) (S k)) as X. lia. }
    destruct (st_insert_rep n cols s d t vals s1 ws HR Hsys Hf Hv Hmax1 Est) as (_ & _ & _ & HR1).
    match type of HR1 with Rep _ (set_rows _ ?rws _) => pose proof (find_tbl_set_rows n rws d t Hf) as Hf1 end.
    exact (IH s1 _ _ (b ++ ws) (S k) HR1 Hsys Hf1 Hvr Hchk Hmax).
Qed.

End InsertOk.

(* ====================== UPDATE ====================== *)
(* CheckUpdate of row k on a table of the represented database depends on the specification's
   schema and on the row with id k only *)
Definition upd_check (sch : schema) (cols : list string) (vals : list value) (r : row) : res unit :=
  match cols_err (map fd_name sch) cols [] with
  | Some e => Err e
  | None => do bs <- encode_tuple sch (zip_set cols vals (fill sch r [])); check_row_size bs
  end.

Section UpdateOk.
Variables (n : string) (cols : list string) (vals : list value).

Lemma check_update_rep s d t k r :
  Rep s d -> is_sys n = false -> find_tbl n d = Some t -> In (k, r) (fetch_rows s n) ->
  check_update s n k cols vals = upd_check (tb_schema t) cols vals r.
Proof.
  intros HR Hsys Hf Hkr0. pose proof HR as [Hinv Hok _].
  assert (Hk : In k (map fst (fetch_rows s n))) by (change k with (fst (k, r)); apply in_map; exact Hkr0).
  destruct (inplace_setup n s d t k HR Hsys Hf Hk)
    as (pt & sc & ents & osc & o & tr & c & l & HC & Hin & Hn & He & Eo & Hr & Es & Hids & Hc & Hlive & Hck & Hl & Hcl).
  pose proof (find_root_WFT s o tr Hinv Hr) as Hw.
  assert (Hsch : NoDup (names (tb_schema t))).
  { pose proof (d_sch _ Hok) as X. rewrite Forall_forall in X. apply X. exact Hin. }
  assert (Hcs : In c (scan_tree tr)).
  { unfold scan_tree, live. apply filter_In. split; [exact Hc | rewrite Hlive; reflexivity]. }
  assert (Hrc : exists r', In (k, r') (fetch_rows s n) /\ RowCell (tb_schema t) c r').
  { clear - Hids Hcs Hck. induction Hids as [|x [k0 r0] L1 L2 [A B] _ IH]; [contradiction|].
    destruct Hcs as [->|Hcs].
    - exists r0. cbn [fst snd] in *. split; [left; congruence | exact B].
    - destruct (IH Hcs) as (r' & X & Y). exists r'. split; [right; exact X | exact Y]. }
  destruct Hrc as (r' & Hkr & [Hval Hfit]).
  assert (r' = r).
  { destruct (fetch_rows_ids s d n t o tr HR Hsys Hf Eo Hr) as (_ & _ & Hnd).
    pose proof (NoDup_map_inj_in fst _ (k, r') (k, r) Hnd Hkr Hkr0 eq_refl) as X. congruence. }
  subst r'.
  unfold check_update, st_update, upd_bad_cols, upd_check. rewrite is_sys_table_is_sys, Hsys, Eo. cbn [bind].
  unfold get_tree at 1. rewrite Hr. cbn [bind]. rewrite Es.
  destruct (cols_err _ cols []) as [e|]; [reflexivity|].
  unfold st_update0. rewrite is_sys_table_is_sys, Hsys. rewrite Eo, Es. cbn [bind]. unfold get_tree. rewrite Hr. cbn [bind].
  rewrite (scan_right_leaves_okP _ _ Hw). cbn [of_tres bind].
  fold (leaf_pairs (leaves tr)).
  assert (Hpc : In (t_off l, c) (leaf_pairs (leaves tr))).
  { unfold leaf_pairs. apply in_flat_map. exists l. split; [exact Hl|]. apply in_map. exact Hcl. }
  rewrite <- Hck.
  rewrite (find_pair_key _ (t_off l) c); [| rewrite leaf_pairs_cells; apply (WFT_keys_NoDup _ tr Hw) | exact Hpc | exact Hlive].
  rewrite Hval, (decode_tuple_enc _ _ Hfit). cbn [bind].
  destruct (encode_tuple (tb_schema t) (zip_set cols vals (fill (tb_schema t) r []))) as [bs|e|]; cbn [bind snd]; try reflexivity.
  unfold check_row_size. destruct (Nat.ltb MV (List.length bs)); reflexivity.
Qed.

Lemma check_update_ok s k : check_update s n k cols vals = Ok tt ->
  exists s' ws, st_update s n k cols vals = (s', Ok ws).
Proof.
  unfold check_update. destruct (st_update s n k cols vals) as [s' [ws|e|]]; cbn [snd]; try discriminate. eauto.
Qed.

(* the loop of EvaluateUpdate after every matching row passed the check on the store the
   statement started from: it runs to the end *)
Lemma update_rows_ok ids : forall s d t b,
  Rep s d -> is_sys n = false -> find_tbl n d = Some t -> Forall val_okP vals ->
  (forall k, In k ids -> In k (map fst (fetch_rows s n))) -> NoDup ids ->
  (forall k r, In k ids -> In (k, r) (fetch_rows s n) -> upd_check (tb_schema t) cols vals r = Ok tt) ->
  exists c, snd (update_rows s n cols vals ids b) = OOk c.
Proof.
  induction ids as [|k rest IH]; intros s d t b HR Hsys Hf Hvals Hks Hnd Hchk.
  - cbn. eauto.
  - cbn [update_rows]. inversion Hnd as [|? ? Hnk Hnd']; subst.
    pose proof (Hks k (or_introl eq_refl)) as Hk.
    destruct (proj1 (in_map_iff _ _ _) Hk) as ([k0 r] & E & Hkr). cbn [fst] in E. subst k0.
    pose proof (check_update_rep s d t k r HR Hsys Hf Hkr) as Ec.
    rewrite (Hchk k r (or_introl eq_refl) Hkr) in Ec.
    destruct (check_update_ok s k Ec) as (s1 & ws & Est). rewrite Est.
    destruct (st_update_rep n cols vals s d t k s1 ws HR Hsys Hf Hvals Hk Est) as (HR1 & Hfr1 & _).
    match type of HR1 with Rep _ (set_rows _ ?rws _) => pose proof (find_tbl_set_rows n rws d t Hf) as Hf1 end.
    apply (IH s1 _ _ (b ++ ws) HR1 Hsys Hf1 Hvals); auto.
    + intros k' Hk'. rewrite Hfr1, map_map.
      replace (map (fun x => fst (if N.eqb (fst x) k then (fst x, build_row (tb_schema t) cols vals (snd x)) else x)) (fetch_rows s n))
        with (map fst (fetch_rows s n)); [apply Hks; right; exact Hk'|].
      apply map_ext. intros kr. destruct (N.eqb (fst kr) k); reflexivity.
    + (* the rows still to come are the rows the checks saw *)
      intros k' r' Hk' Hkr'. cbn [tb_schema]. rewrite Hfr1 in Hkr'.
      apply in_map_iff in Hkr' as ([k0 r0] & E & Hkr0). cbn [fst snd] in E.
      destruct (N.eqb_spec k0 k) as [->|Hne].
      * inversion E; subst. contradiction.
      * inversion E; subst. apply (Hchk k' r' (or_intror Hk') Hkr0).
Qed.

End UpdateOk.

(* ====================== DELETE ====================== *)
Section DeleteOk.
Variables (n : string).

Lemma st_delete_ok s d t k :
  Rep s d -> is_sys n = false -> find_tbl n d = Some t -> In k (map fst (fetch_rows s n)) ->
  exists s' ws, st_delete s n k = (s', Ok ws).
Proof.
  intros HR Hsys Hf Hk. pose proof HR as [Hinv Hok _].
  destruct (inplace_setup n s d t k HR Hsys Hf Hk)
    as (pt & sc & ents & osc & o & tr & c & l & HC & Hin & Hn & He & Eo & Hr & Es & Hids & Hc & Hlive & Hck & Hl & Hcl).
  pose proof (find_root_WFT s o tr Hinv Hr) as Hw.
  destruct (find_cell_leaf _ tr c Hw Hc Hlive) as (l2 & Hl2 & Hcl2 & Hfc). rewrite Hck in Hfc.
  unfold st_delete. rewrite is_sys_table_is_sys, Hsys. rewrite Eo. cbn [bind]. unfold get_tree. rewrite Hr, Hfc. eauto.
Qed.

Lemma delete_rows_ok ids : forall s d t b c0,
  Rep s d -> is_sys n = false -> find_tbl n d = Some t ->
  (forall k, In k ids -> In k (map fst (fetch_rows s n))) -> NoDup ids ->
  exists c, snd (delete_rows s n ids b c0) = OOk c.
Proof.
  induction ids as [|k rest IH]; intros s d t b c0 HR Hsys Hf Hks Hnd.
  - cbn. eauto.
  - cbn [delete_rows]. inversion Hnd as [|? ? Hnk Hnd']; subst.
    destruct (st_delete_ok s d t k HR Hsys Hf (Hks k (or_introl eq_refl))) as (s1 & ws & Est). rewrite Est.
    destruct (st_delete_rep n s d t k s1 ws HR Hsys Hf (Hks k (or_introl eq_refl)) Est) as (HR1 & Hfr1 & Hnf1).
    match type of HR1 with Rep _ (set_rows _ ?rws _) => pose proof (find_tbl_set_rows n rws d t Hf) as Hf1 end.
    apply (IH s1 _ _ (b ++ ws) (S c0) HR1 Hsys Hf1); auto.
    intros k' Hk'. rewrite Hfr1. apply in_map_iff.
    destruct (proj1 (in_map_iff _ _ _) (Hks k' (or_intror Hk'))) as (kr & E & Hkr).
    exists kr. split; [exact E|]. apply filter_In. split; [exact Hkr|].
    apply negb_true_iff. apply N.eqb_neq. rewrite E. intros ->. contradiction.
Qed.

End DeleteOk.

(* ====================== CREATE TABLE ====================== *)
Lemma check_encoded_ok r : check_encoded r = Ok tt -> exists bs, r = Ok bs /\ (List.length bs <= MV)%nat.
Proof.
  unfold check_encoded. destruct r as [bs|e|]; cbn [bind]; try discriminate.
  intros H. exists bs. split; [reflexivity | apply check_row_size_ok; exact H].
Qed.

(* one sys_schema row whose encoding was checked is stored *)
Lemma schema_row_step_ok n fd s d0 sch root :
  Rep s (d0 ++ [mkTbl n sch []]) -> rel_offset s "sys_schema" = Ok root ->
  check_encoded (encode_tuple schemaTableSchema (sc_tuple (n, fd))) = Ok tt ->
  exists s' root', schema_row_step s root n fd = (s', Ok root').
Proof.
  intros HR Hroot Hchk. unfold schema_row_step.
  destruct (check_encoded_ok _ Hchk) as (bs & Eenc & Hlen). rewrite Eenc.
  pose proof HR as [Hinv Hok (pt & sc & ents & osc & HC)].
  assert (osc = root).
  { pose proof (cat_rel_offset_in s _ pt sc ents osc Hinv Hok HC _ _ (c_osc _ _ _ _ _ _ HC)) as X. congruence. }
  subst osc.
  destruct (bt_insert_ok s root bs sc Hinv (c_sc _ _ _ _ _ _ HC) Hlen) as (s1 & k & lsn & nr & Ebt). rewrite Ebt.
  destruct (bt_insert_spec s root _ sc Hinv (c_sc _ _ _ _ _ _ HC) s1 k lsn nr Ebt)
    as (sc' & Hinv1 & -> & -> & -> & Hlk & Hptr & Hnf & Hlsn & _ & Hrt & Hcells & Hfind & Hframe).
  assert (Hrs : root <> ptRoot s).
  { eapply (cat_offset_not_ptroot s _ pt sc ents root HC); [apply (c_osc _ _ _ _ _ _ HC) | discriminate]. }
  pose proof (find_root_bound s _ pt Hinv (c_pt _ _ _ _ _ _ HC)) as Hptb.
  pose proof (cat_names_NoDup _ ents Hok (c_names _ _ _ _ _ _ HC)) as Hndn.
  destruct (N.eqb_spec (t_off sc') root) as [Esame|Emoved]; [eauto|].
  destruct Hrt as [Hrt|Hrt]; [contradiction|].
  assert (Hpt1 : find_root (ptRoot s1) (forest s1) = Some pt).
  { rewrite Hptr, Hframe by (try congruence; lia). apply (c_pt _ _ _ _ _ _ HC). }
  destruct (update_page_table_ok s1 pt ents "sys_schema" root (t_off sc') Hinv1 Hpt1
              (c_ptcells _ _ _ _ _ _ HC) (c_ptfits _ _ _ _ _ _ HC) Hndn (c_osc _ _ _ _ _ _ HC)) as (s2 & ws2 & Eup).
  unfold schemaTableName. rewrite Eup. eauto.
Qed.

Lemma check_schema_rows_cons n fd fds :
  check_schema_rows n (fd :: fds) = Ok tt ->
  check_encoded (encode_tuple schemaTableSchema (sc_tuple (n, fd))) = Ok tt /\ check_schema_rows n fds = Ok tt.
Proof.
  cbn [check_schema_rows].
  change [("table_name", VStr n); ("field_name", VStr (fd_name fd));
          ("field_type", VInt (code_of_coltype (fd_type fd))); ("field_length", VInt (fd_len fd))]
    with (sc_tuple (n, fd)).
  destruct (check_encoded _) as [[]|e|]; cbn [bind]; try discriminate. auto.
Qed.

Lemma insert_schema_rows_ok n fds : forall s d0 sch root,
  Rep s (d0 ++ [mkTbl n sch []]) -> rel_offset s "sys_schema" = Ok root ->
  NoDup (names (sch ++ fds)) -> check_schema_rows n fds = Ok tt ->
  nextFree (fst (insert_schema_rows s root n fds)) <= OFFMAX ->
  exists u, snd (insert_schema_rows s root n fds) = Ok u.
Proof.
  induction fds as [|fd fds IH]; intros s d0 sch root HR Hroot Hnd Hchk Hmax.
  - cbn. eauto.
  - rewrite insert_schema_rows_unfold in *. destruct (names_prefix sch fd fds Hnd) as [Hnd1 Hnd2].
    destruct (check_schema_rows_cons n fd fds Hchk) as [Hc1 Hc2].
    pose proof (schema_row_step_rep n fd s d0 sch root HR Hroot Hnd1) as Hstep.
    destruct (schema_row_step_ok n fd s d0 sch root HR Hroot Hc1) as (s1 & root1 & Est). rewrite Est in *.
    assert (Hmax1 : nextFree s1 <= OFFMAX).
    { pose proof (insert_schema_rows_free_mono n fds s1 root1) as X. lia. }
    destruct (Hstep Hmax1) as [HR1 Hroot1].
    exact (IH s1 d0 (sch ++ [fd]) root1 HR1 Hroot1 Hnd2 Hc2 Hmax).
Qed.

(* createTable after the duplicate-column, table-exists and catalog-row checks: it registers the
   table and all its columns *)
Lemma st_create_table0_ok s d n fds :
  Rep s d -> is_sys n = false -> find_tbl n d = None -> NoDup (names fds) ->
  check_catalog_rows n fds = Ok tt ->
  nextFree (fst (st_create_table0 s n fds)) <= OFFMAX ->
  exists u, snd (st_create_table0 s n fds) = Ok u.
Proof.
  intros HR Hsys Hf Hnd Hchk Hmax. pose proof HR as [Hinv Hok (pt & sc & ents & osc & HC)].
  unfold st_create_table0 in *.
  rewrite (cat_rel_offset_none s d pt sc ents osc Hinv HC n Hsys Hf) in *.
  pose proof (create_register_rep s d n) as Hreg.
  pose proof (create_page_inv s Hinv) as Hinv1. pose proof (create_page_find s Hinv) as Hcp.
  destruct (create_page s) as [s1 pg] eqn:Ecp.
  assert (Es1 : pg = nextFree s /\ ptRoot s1 = ptRoot s) by (unfold create_page in Ecp; inversion Ecp; subst; cbn; auto).
  destruct Es1 as [-> Hptr1]. cbn [fst] in Hreg, Hinv1, Hcp.
  (* insertPageTable: the sys_pages row fits whatever the offset is *)
  unfold check_catalog_rows in Hchk.
  change [("table_name", VStr n); ("file_offset", VInt 0)] with (pt_tuple (n, 0)) in Hchk.
  rewrite encode_pt_tuple in Hchk. unfold check_encoded in Hchk. cbn [bind] in Hchk.
  destruct (check_row_size (enc_pte (n, 0))) as [[]|e|] eqn:Esz; cbn [bind] in Hchk; try discriminate.
  apply check_row_size_ok in Esz. rewrite (enc_pte_length n 0 (nextFree s)) in Esz.
  pose proof (find_root_bound s _ pt Hinv (c_pt _ _ _ _ _ _ HC)) as Hptb.
  assert (Hpt1 : find_root (ptRoot s1) (forest s1) = Some pt).
  { rewrite Hptr1, Hcp. destruct (N.eqb_spec (nextFree s) (ptRoot s)); [lia|]. apply (c_pt _ _ _ _ _ _ HC). }
  assert (Eip : exists s2, insert_page_table s1 (nextFree s) n = (s2, Ok tt)).
  { unfold insert_page_table.
    change [("table_name", VStr n); ("file_offset", VInt (Z.of_N (nextFree s)))] with (pt_tuple (n, nextFree s)).
    rewrite encode_pt_tuple.
    destruct (bt_insert_ok s1 (ptRoot s1) _ pt Hinv1 Hpt1 Esz) as (s2' & k & lsn & nr & Ebt). rewrite Ebt. eauto. }
  destruct Eip as [s2 Eip]. rewrite Eip in *.
  unfold insert_schema_table in *.
  assert (Hmax2 : nextFree s2 <= OFFMAX).
  { destruct (rel_offset s2 schemaTableName) as [off|e0|]; cbn [bind fst] in Hmax; try lia.
    destruct (get_tree s2 off) as [x|e0|]; cbn [bind fst] in Hmax; try lia.
    pose proof (insert_schema_rows_free_mono n fds s2 off) as X. lia. }
  pose proof (Hreg s2 HR Hsys Hf Hmax2 eq_refl) as HR2.
  pose proof HR2 as [Hinv2 Hok2 (pt2 & sc2 & ents2 & osc2 & HC2)].
  pose proof (cat_rel_offset_in s2 _ pt2 sc2 _ osc2 Hinv2 Hok2 HC2 _ _ (c_osc _ _ _ _ _ _ HC2)) as Eosc.
  unfold schemaTableName in *. rewrite Eosc in *. cbn [bind] in *.
  unfold get_tree in *. rewrite (c_sc _ _ _ _ _ _ HC2) in *. cbn [bind] in *.
  exact (insert_schema_rows_ok n fds s2 d [] osc2 HR2 Eosc Hnd Hchk Hmax).
Qed.

(* ====================== one failing statement ====================== *)
(* (H1) derived: under the refinement invariant a statement that returns an error returns the
   very store it was given. Hypotheses: literals are Go values (stmt_ok), the file stays below
   2^63 bytes. *)
Theorem stmt_err_unchanged s d st e :
  Rep s d -> stmt_ok st = true -> nextFree (e_store (run_stmt s st)) <= OFFMAX ->
  e_out (run_stmt s st) = OErr e -> e_store (run_stmt s st) = s.
Proof.
  intros HR Hst Hmax Hout.
  destruct st as [q|n cds|n| |n|n cols rows|n sets w|n w]; try reflexivity.
  - (* CREATE TABLE *)
    clear Hst. cbn [run_stmt] in *. unfold st_create_table in *.
    set (fds := map fielddef_of cds) in *. fold (names fds) in *.
    destruct (names_distinct (names fds)) eqn:Hd; [|reflexivity].
    destruct (create_bad_rows s n fds) as [r|] eqn:Eb; [destruct r; try reflexivity; cbn in Hout; discriminate|].
    pose proof HR as [Hinv Hok (pt & sc & ents & osc & HC)].
    destruct (is_sys n) eqn:Hsys.
    { destruct (rel_offset_sys s d n HR Hsys) as [o Eo]. unfold st_create_table0. rewrite Eo. reflexivity. }
    destruct (find_tbl n d) as [t|] eqn:Hf.
    { destruct (find_tbl_In _ _ _ Hf) as [Hin Hn].
      destruct (c_tabs _ _ _ _ _ _ HC t Hin) as (o & tr & He & _). rewrite Hn in He.
      unfold st_create_table0. rewrite (cat_rel_offset_in s d pt sc ents osc Hinv Hok HC _ _ He). reflexivity. }
    exfalso. unfold create_bad_rows in Eb.
    rewrite (cat_rel_offset_none s d pt sc ents osc Hinv HC n Hsys Hf) in Eb.
    destruct (check_catalog_rows n fds) as [[]|e0|] eqn:Ec; try discriminate.
    pose proof (st_create_table0_ok s d n fds HR Hsys Hf (names_distinct_NoDup _ Hd) Ec) as Hgo.
    destruct (st_create_table0 s n fds) as [s1 r1] eqn:E0. cbn [fst snd] in Hgo.
    assert (Hm1 : nextFree s1 <= OFFMAX) by (destruct r1; cbn [e_store] in Hmax; exact Hmax).
    destruct (Hgo Hm1) as [u ->]. cbn in Hout. discriminate.
  - (* INSERT *)
    cbn [stmt_ok] in Hst.
    assert (Hvals : Forall (Forall val_okP) rows).
    { apply forallb_Forall in Hst. eapply Forall_impl; [|exact Hst]. intros r. apply forallb_Forall. }
    rewrite run_insert in *.
    destruct (first_err (check_insert s n cols) rows) as [[]|e0|] eqn:Efe; try reflexivity.
    exfalso. cbn [e_out e_store] in *.
    destruct rows as [|r0 rest]; [cbn in Hout; discriminate|].
    pose proof (first_err_ok _ _ Efe r0 (or_introl eq_refl)) as Hc0.
    destruct (is_sys n) eqn:Hsys; [rewrite (check_insert_sys n cols s r0 Hsys) in Hc0; discriminate|].
    destruct (find_tbl n d) as [t|] eqn:Hf; [|rewrite (check_insert_missing n cols s d r0 HR Hsys Hf) in Hc0; discriminate].
    rewrite (first_err_ext _ (row_check (tb_schema t) cols) (r0 :: rest)) in Efe
      by (intros a _; apply (check_insert_rep n cols s d t a HR Hsys Hf)).
    destruct (insert_rows_ok n cols (r0 :: rest) s d t [] 0%nat HR Hsys Hf Hvals Efe Hmax) as [c Hc].
    rewrite Hc in Hout. discriminate.
  - (* UPDATE *)
    cbn [stmt_ok] in Hst. apply forallb_Forall in Hst. change (set_vals sets) with (lit_vals sets) in Hst.
    rewrite run_update in *.
    destruct (set_from_col sets); [reflexivity|].
    destruct (where_ids s n w) as [ids|e1|] eqn:Ew; try reflexivity.
    destruct (first_err _ ids) as [[]|e0|] eqn:Efe; try reflexivity.
    exfalso. cbv zeta in *. cbn [e_out e_store] in *.
    destruct (is_sys n) eqn:Hsys.
    { destruct ids as [|k rest]; [cbn in Hout; discriminate|].
      pose proof (first_err_ok _ _ Efe k (or_introl eq_refl)) as Hc0. cbv beta in Hc0.
      unfold check_update, st_update, upd_bad_cols, st_update0 in Hc0. rewrite is_sys_table_is_sys, Hsys in Hc0.
      cbn in Hc0. discriminate. }
    destruct (find_tbl n d) as [t|] eqn:Hf.
    2:{ unfold where_ids in Ew. rewrite (st_fetch_missing s d n HR Hsys Hf) in Ew. discriminate. }
    destruct (where_ids_spec s n w ids Ew) as (idrows & fs & Hfetch & Hids & Hev).
    destruct (st_fetch_user s d n t HR Hsys Hf) as (o & tr & Eo & Hr & Es & Ht & Hfetch').
    rewrite Hfetch' in Hfetch. inversion Hfetch; subst idrows fs. clear Hfetch.
    destruct (fetch_rows_ids s d n t o tr HR Hsys Hf Eo Hr) as (Hidc & Hrows & Hndk).
    assert (Efr : fetch_rows s n = combine (keys_of (scan_tree tr)) (tb_rows t)) by (unfold fetch_rows; rewrite Hfetch'; reflexivity).
    rewrite <- Efr in *.
    destruct (update_rows_ok n (map fst sets) (lit_vals sets) ids s d t [] HR Hsys Hf Hst) as [c Hc].
    + intros k Hk. subst ids. apply in_map_iff in Hk as (kr & <- & Hkr). apply filter_In in Hkr as [Hkr _]. apply in_map. exact Hkr.
    + subst ids. apply NoDup_map_filter. exact Hndk.
    + intros k r Hk Hkr. rewrite <- (check_update_rep n (map fst sets) (lit_vals sets) s d t k r HR Hsys Hf Hkr).
      exact (first_err_ok _ _ Efe k Hk).
    + rewrite Hc in Hout. discriminate.
  - (* DELETE *)
    rewrite run_delete in *.
    destruct (where_ids s n w) as [ids|e1|] eqn:Ew; try reflexivity.
    cbv zeta in *. cbn [e_out e_store] in *.
    destruct (is_sys n) eqn:Hsys.
    { destruct ids as [|k rest]; [reflexivity|].
      cbn [delete_rows]. unfold st_delete. rewrite is_sys_table_is_sys, Hsys. reflexivity. }
    exfalso.
    destruct (find_tbl n d) as [t|] eqn:Hf.
    2:{ unfold where_ids in Ew. rewrite (st_fetch_missing s d n HR Hsys Hf) in Ew. discriminate. }
    destruct (where_ids_spec s n w ids Ew) as (idrows & fs & Hfetch & Hids & Hev).
    destruct (st_fetch_user s d n t HR Hsys Hf) as (o & tr & Eo & Hr & Es & Ht & Hfetch').
    rewrite Hfetch' in Hfetch. inversion Hfetch; subst idrows fs. clear Hfetch.
    destruct (fetch_rows_ids s d n t o tr HR Hsys Hf Eo Hr) as (Hidc & Hrows & Hndk).
    assert (Efr : fetch_rows s n = combine (keys_of (scan_tree tr)) (tb_rows t)) by (unfold fetch_rows; rewrite Hfetch'; reflexivity).
    rewrite <- Efr in *.
    destruct (delete_rows_ok n ids s d t [] 0%nat HR Hsys Hf) as [c Hc].
    + intros k Hk. subst ids. apply in_map_iff in Hk as (kr & <- & Hkr). apply filter_In in Hkr as [Hkr _]. apply in_map. exact Hkr.
    + subst ids. apply NoDup_map_filter. exact Hndk.
    + rewrite Hc in Hout. discriminate.
Qed.

(* the form the history lemmas use *)
Theorem stmt_fails_early s d st e :
  Rep s d -> stmt_ok st = true -> nextFree (e_store (run_stmt s st)) <= OFFMAX ->
  e_out (run_stmt s st) = OErr e -> same_pages s (e_store (run_stmt s st)).
Proof. intros HR Hst Hmax Hout. rewrite (stmt_err_unchanged s d st e HR Hst Hmax Hout). apply same_pages_refl. Qed.

Corollary stmt_err_abs s d st e :
  Rep s d -> stmt_ok st = true -> nextFree (e_store (run_stmt s st)) <= OFFMAX ->
  e_out (run_stmt s st) = OErr e -> abs (e_store (run_stmt s st)) = abs s.
Proof. intros HR Hst Hmax Hout. rewrite (stmt_err_unchanged s d st e HR Hst Hmax Hout). reflexivity. Qed.

(* ====================== statement histories: C01's refinement without (H1) ====================== *)
(* RefineMain.run_events_rep without its early_failures hypothesis: failing statements of any kind
   may occur anywhere in the history *)
Lemma run_events_rep_all evs : forall y d y' os,
  Rep (mem y) d -> stmts_only' evs = true -> forallb ev_ok evs = true ->
  run_events y evs = (SOk y', os) -> nextFree (mem y') <= OFFMAX ->
  Rep (mem y') (spec_run d (acked_stmts' evs os)) /\ nextFree (mem y) <= nextFree (mem y').
Proof.
  induction evs as [|ev r IH]; intros y d y' os HR Hso Hok Hrun Hmax.
  - cbn in Hrun. inversion Hrun; subst. cbn. split; [exact HR | lia].
  - cbn [stmts_only' forallb] in Hso, Hok. apply andb_true_iff in Hso as [Hs1 Hs2]. apply andb_true_iff in Hok as [Hk1 Hk2].
    destruct ev as [st| | | |]; try discriminate. cbn [ev_ok] in Hk1.
    cbn [run_events step] in Hrun. unfold exec in *.
    pose proof (run_stmt_free_mono (mem y) st) as Hmono.
    pose proof (stmt_err_unchanged (mem y) d st) as Hunch.
    pose proof (run_stmt_rep (mem y) d st) as Hstep.
    destruct (run_stmt (mem y) st) as [es eb ef eo] eqn:Ers. cbn [e_store e_batch e_flushed e_out] in *.
    set (y1 := mkSys es (if ef then es else disk y) (if is_ok eo then wal y ++ eb else wal y)) in *.
    destruct eo as [c|e|]; try discriminate.
    + destruct (run_events y1 r) as [fin os'] eqn:Er. inversion Hrun; subst fin os. clear Hrun.
      pose proof (run_events_free_mono r y1 y' os' Hs2 Er) as M. unfold y1 in M. cbn [mem] in M.
      destruct (IH y1 (spec_step d st) y' os') as [HR' Hm']; auto.
      { apply (Hstep c HR Hk1); [lia | reflexivity]. }
      cbn [acked_stmts' combine flat_map app]. fold (acked_stmts' r os'). cbn [spec_run].
      unfold spec_step in HR'. split; [|unfold y1 in Hm'; cbn [mem] in Hm'; lia].
      destruct (spec_exec d st); exact HR'.
    + destruct (run_events y1 r) as [fin os'] eqn:Er. inversion Hrun; subst fin os. clear Hrun.
      pose proof (run_events_free_mono r y1 y' os' Hs2 Er) as M. unfold y1 in M. cbn [mem] in M.
      assert (Es : es = mem y) by (apply (Hunch e HR Hk1); [lia | reflexivity]).
      destruct (IH y1 d y' os') as [HR' Hm']; auto.
      { unfold y1. cbn [mem]. rewrite Es. exact HR. }
      cbn [acked_stmts' combine flat_map app]. fold (acked_stmts' r os'). split; [exact HR'|].
      unfold y1 in Hm'. cbn [mem] in Hm'. lia.
Qed.

(* every state a statement history reaches represents the database the acknowledged statements
   give; in it a failing statement changes nothing *)
Theorem reachable_stmt_atomic evs y os st e :
  stmts_only' evs = true -> run_events init_sys evs = (SOk y, os) -> forallb ev_ok evs = true ->
  stmt_ok st = true -> nextFree (e_store (run_stmt (mem y) st)) <= OFFMAX ->
  e_out (run_stmt (mem y) st) = OErr e ->
  e_store (run_stmt (mem y) st) = mem y.
Proof.
  intros Hso Hrun Hok Hst Hmax Hout.
  pose proof (run_stmt_free_mono (mem y) st) as Hmono.
  destruct (run_events_rep_all evs init_sys [] y os Rep_init Hso Hok Hrun ltac:(lia)) as [HR _].
  exact (stmt_err_unchanged (mem y) _ st e HR Hst Hmax Hout).
Qed.
