From Coq Require Import List NArith Bool Arith Lia.
From Mkdb Require Import Model.Lru.
Import ListNotations.
Open Scope N_scope.

Definition keys (l : list entry) : list N := map ekey l.

Definition Inv (s : lru) : Prop :=
  NoDup (keys (entries s)) /\ (length (entries s) <= cap s)%nat.

(* ---------- basic list lemmas ---------- *)

Lemma find_entry_some k l e : find_entry k l = Some e -> In e l /\ ekey e = k.
Proof.
  induction l as [|a l IH]; cbn; [discriminate|].
  destruct (N.eqb_spec (ekey a) k) as [Heq|Hne]; intros H.
  - inversion H; subst; auto.
  - destruct (IH H) as [H1 H2]; auto.
Qed.

Lemma find_entry_none k l : find_entry k l = None <-> ~ In k (keys l).
Proof.
  induction l as [|a l IH]; cbn; [tauto|].
  destruct (N.eqb_spec (ekey a) k) as [Heq|Hne].
  - split; [discriminate|]. intros H; exfalso; apply H; auto.
  - rewrite IH. split; intros H; [intros [H1|H1]; auto | intros H1; apply H; auto].
Qed.

Lemma find_entry_in k l : In k (keys l) -> exists e, find_entry k l = Some e.
Proof.
  intros H. destruct (find_entry k l) as [e|] eqn:E; [eauto|].
  apply find_entry_none in E. contradiction.
Qed.

Lemma remove_key_keys_subset k l x : In x (keys (remove_key k l)) -> In x (keys l).
Proof.
  induction l as [|a l IH]; cbn; [tauto|].
  destruct (N.eqb (ekey a) k); cbn; [auto|]. intros [H|H]; auto.
Qed.

Lemma remove_key_in_subset k l e : In e (remove_key k l) -> In e l.
Proof.
  induction l as [|a l IH]; cbn; [tauto|].
  destruct (N.eqb (ekey a) k); cbn; [auto|]. intros [H|H]; auto.
Qed.

Lemma remove_key_NoDup k l : NoDup (keys l) -> NoDup (keys (remove_key k l)).
Proof.
  induction l as [|a l IH]; cbn; [auto|]. intros H; inversion H as [|? ? Hn Hd]; subst.
  destruct (N.eqb (ekey a) k); cbn; [auto|]. constructor; [|auto].
  intros Hin; apply Hn; eapply remove_key_keys_subset; eauto.
Qed.

Lemma remove_key_not_in k l : NoDup (keys l) -> ~ In k (keys (remove_key k l)).
Proof.
  induction l as [|a l IH]; cbn; [auto|]. intros H; inversion H as [|? ? Hn Hd]; subst.
  destruct (N.eqb_spec (ekey a) k) as [Heq|Hne]; cbn.
  - subst; auto.
  - intros [H1|H1]; [auto | apply IH; auto].
Qed.

Lemma remove_key_length_in k l :
  In k (keys l) -> length (remove_key k l) = pred (length l).
Proof.
  induction l as [|a l IH]; cbn; [tauto|].
  destruct (N.eqb_spec (ekey a) k) as [Heq|Hne]; cbn; [auto|].
  intros [H|H]; [contradiction|]. rewrite IH by auto.
  destruct l; cbn in *; [tauto | auto].
Qed.

Lemma remove_key_other k k' l :
  k <> k' -> In k' (keys l) -> In k' (keys (remove_key k l)).
Proof.
  intros Hne. induction l as [|a l IH]; cbn; [tauto|].
  destruct (N.eqb_spec (ekey a) k) as [Heq|Hne2]; cbn.
  - intros [H|H]; [congruence | auto].
  - intros [H|H]; auto.
Qed.

Lemma remove_key_split k l :
  In k (keys l) ->
  exists l1 e l2, l = l1 ++ e :: l2 /\ ekey e = k /\ ~ In k (keys l1) /\
                  remove_key k l = l1 ++ l2.
Proof.
  induction l as [|a l IH]; cbn; [tauto|].
  destruct (N.eqb_spec (ekey a) k) as [Heq|Hne]; intros H.
  - exists [], a, l. cbn. auto.
  - destruct H as [H|H]; [contradiction|].
    destruct (IH H) as (l1 & e & l2 & -> & He & Hn & Hr).
    exists (a :: l1), e, l2. cbn. rewrite Hr. repeat split; auto.
    intros [H1|H1]; auto.
Qed.

Lemma set_flag_keys k d l : keys (set_flag k d l) = keys l.
Proof.
  unfold set_flag, keys. rewrite map_map. apply map_ext. intros e.
  destruct (N.eqb (ekey e) k); reflexivity.
Qed.

Lemma set_flag_length k d l : length (set_flag k d l) = length l.
Proof. unfold set_flag. apply map_length. Qed.

(* ---------- victim ---------- *)

Lemma first_clean_spec l :
  match first_clean l with
  | None => Forall (fun e => edirty e = true) l
  | Some e => exists l1 l2, l = l1 ++ e :: l2 /\ edirty e = false /\
                            Forall (fun x => edirty x = true) l1
  end.
Proof.
  induction l as [|a l IH]; cbn; [constructor|].
  destruct (edirty a) eqn:Ea.
  - destruct (first_clean l) as [e|].
    + destruct IH as (l1 & l2 & -> & Hc & Hd). exists (a :: l1), l2. cbn. auto.
    + constructor; auto.
  - exists [], l. cbn. auto.
Qed.

Lemma victim_spec l :
  match victim l with
  | None => Forall (fun e => edirty e = true) l
  | Some e => exists l1 l2, l = l1 ++ e :: l2 /\ edirty e = false /\
                            Forall (fun x => edirty x = true) l2
  end.
Proof.
  unfold victim. pose proof (first_clean_spec (rev l)) as H.
  destruct (first_clean (rev l)) as [e|].
  - destruct H as (l1 & l2 & Hr & Hc & Hd).
    exists (rev l2), (rev l1). split; [|split; auto].
    + rewrite <- (rev_involutive l), Hr, rev_app_distr. cbn. rewrite <- app_assoc. reflexivity.
    + apply Forall_rev; auto.
  - rewrite <- (rev_involutive l). apply Forall_rev; auto.
Qed.

Lemma victim_in l e : victim l = Some e -> In e l.
Proof.
  intros H. pose proof (victim_spec l) as S. rewrite H in S.
  destruct S as (l1 & l2 & -> & _). apply in_or_app; right; left; auto.
Qed.

(* ---------- invariant ---------- *)

Lemma Inv_init c : Inv (lru_init c).
Proof. split; cbn; [constructor | lia]. Qed.

Lemma step_cap s o : cap (fst (lru_step s o)) = cap s.
Proof.
  destruct o; cbn.
  - destruct (find_entry k (entries s)); cbn; auto.
    destruct (Nat.eqb _ _); cbn; auto. destruct (victim _); cbn; auto.
  - destruct (find_entry k (entries s)); cbn; auto.
  - auto.
  - auto.
Qed.

Lemma step_Inv s o : Inv s -> Inv (fst (lru_step s o)).
Proof.
  intros [Hnd Hlen]. destruct o as [k v d|k|k|k]; cbn.
  - destruct (find_entry k (entries s)) as [e|] eqn:Ef; cbn.
    + apply find_entry_some in Ef as [Hin Hk].
      assert (Hink : In k (keys (entries s))) by (subst; apply in_map; auto).
      split; cbn.
      * constructor; [apply remove_key_not_in; auto | apply remove_key_NoDup; auto].
      * rewrite remove_key_length_in by auto.
        destruct (entries s); cbn in *; [tauto | lia].
    + apply find_entry_none in Ef.
      destruct (Nat.eqb_spec (length (entries s)) (cap s)) as [Hfull|Hnf].
      * destruct (victim (entries s)) as [ve|] eqn:Ev; cbn; [|split; auto].
        apply victim_in in Ev.
        assert (Hink : In (ekey ve) (keys (entries s))) by (apply in_map; auto).
        split; cbn.
        -- constructor; [|apply remove_key_NoDup; auto].
           intros H; apply Ef; eapply remove_key_keys_subset; eauto.
        -- rewrite remove_key_length_in by auto.
           destruct (entries s); cbn in *; [tauto | lia].
      * split; cbn; [constructor; auto | lia].
  - destruct (find_entry k (entries s)) as [e|] eqn:Ef; cbn; [|split; auto].
    apply find_entry_some in Ef as [Hin Hk].
    assert (Hink : In k (keys (entries s))) by (subst; apply in_map; auto).
    split; cbn.
    + rewrite Hk. constructor; [apply remove_key_not_in; auto | apply remove_key_NoDup; auto].
    + rewrite remove_key_length_in by auto.
      destruct (entries s); cbn in *; [tauto | lia].
  - split; cbn; [rewrite set_flag_keys; auto | rewrite set_flag_length; auto].
  - split; cbn; [rewrite set_flag_keys; auto | rewrite set_flag_length; auto].
Qed.

Lemma lru_state_cons s o ops : lru_state s (o :: ops) = lru_state (fst (lru_step s o)) ops.
Proof.
  unfold lru_state. cbn. destruct (lru_step s o) as [s1 x]. cbn.
  destruct (lru_run s1 ops). reflexivity.
Qed.

Lemma run_Inv ops : forall s, Inv s -> Inv (lru_state s ops).
Proof.
  induction ops as [|o ops IH]; intros s H; [exact H|].
  rewrite lru_state_cons. apply IH, step_Inv, H.
Qed.

Lemma run_cap ops : forall s, cap (lru_state s ops) = cap s.
Proof.
  induction ops as [|o ops IH]; intros s; [reflexivity|].
  rewrite lru_state_cons, IH. apply step_cap.
Qed.

(* (1) capacity *)
Lemma lru_capacity c ops : (length (entries (lru_state (lru_init c) ops)) <= c)%nat.
Proof.
  pose proof (run_Inv ops _ (Inv_init c)) as [_ H]. rewrite run_cap in H. exact H.
Qed.

Lemma lru_unique_keys c ops : NoDup (keys (entries (lru_state (lru_init c) ops))).
Proof. apply (run_Inv ops _ (Inv_init c)). Qed.

(* (3)+(4) victim: the evicted entry is clean, every entry less recently used than it is
   dirty, and the new list is new entry :: old list minus victim. *)
Lemma set_victim s k v d k' s' :
  Inv s ->
  lru_step s (OSet k v d) = (s', RSet true (Some k')) ->
  exists l1 e l2,
    entries s = l1 ++ e :: l2 /\ ekey e = k' /\ edirty e = false /\
    Forall (fun x => edirty x = true) l2 /\
    entries s' = mkEntry k v d :: l1 ++ l2 /\
    length (entries s) = cap s /\ ~ In k (keys (entries s)).
Proof.
  intros [Hnd Hlen]. cbn.
  destruct (find_entry k (entries s)) as [e0|] eqn:Ef; [intros H; inversion H|].
  destruct (Nat.eqb_spec (length (entries s)) (cap s)) as [Hfull|Hnf]; [|intros H; inversion H].
  pose proof (victim_spec (entries s)) as S.
  destruct (victim (entries s)) as [ve|]; [|intros H; inversion H].
  intros H; inversion H; subst; clear H.
  destruct S as (l1 & l2 & Hl & Hc & Hd).
  exists l1, ve, l2. repeat split; auto.
  - cbn. f_equal. rewrite Hl in Hnd |- *.
    clear - Hnd. induction l1 as [|a l1 IH]; cbn.
    + rewrite N.eqb_refl. reflexivity.
    + cbn in Hnd. inversion Hnd as [|? ? Hn Hd']; subst.
      destruct (N.eqb_spec (ekey a) (ekey ve)) as [Heq|Hne].
      * exfalso. apply Hn. unfold keys. rewrite map_app. apply in_or_app; right; left; auto.
      * f_equal. apply IH. exact Hd'.
  - apply find_entry_none; auto.
Qed.

(* (4) a dirty entry's key is resident after any step *)
Lemma step_keeps_dirty s o e :
  Inv s -> In e (entries s) -> edirty e = true ->
  match o with OClean k => k <> ekey e | _ => True end ->
  In (ekey e) (keys (entries (fst (lru_step s o)))).
Proof.
  intros [Hnd Hlen] Hin Hd Ho.
  assert (Hk : In (ekey e) (keys (entries s))) by (apply in_map; auto).
  destruct o as [k v d|k|k|k]; cbn.
  - destruct (find_entry k (entries s)) as [e0|] eqn:Ef; cbn.
    + destruct (N.eq_dec k (ekey e)) as [->|Hne]; [left; auto | right; apply remove_key_other; auto].
    + destruct (Nat.eqb (length (entries s)) (cap s)); cbn; [|right; auto].
      pose proof (victim_spec (entries s)) as S.
      destruct (victim (entries s)) as [ve|] eqn:Ev; cbn; [|auto].
      right. apply remove_key_other; [|auto].
      intros Heq. destruct S as (l1 & l2 & Hl & Hc & _).
      (* ve and e have the same key, hence are the same entry (NoDup) *)
      assert (ve = e).
      { clear - Hnd Hin Hl Heq. rewrite Hl in Hnd, Hin. clear Hl.
        induction l1 as [|a l1 IH]; cbn in *.
        - destruct Hin as [H|H]; [auto|]. inversion Hnd as [|? ? Hn _]; subst.
          exfalso; apply Hn. rewrite Heq. apply in_map; auto.
        - inversion Hnd as [|? ? Hn Hd']; subst. destruct Hin as [H|H].
          + subst a. exfalso; apply Hn. rewrite <- Heq. unfold keys; rewrite map_app.
            apply in_or_app; right; left; auto.
          + apply IH; auto. }
      subst. congruence.
  - destruct (find_entry k (entries s)) as [e0|] eqn:Ef; cbn; [|auto].
    apply find_entry_some in Ef as [_ Hk0].
    destruct (N.eq_dec k (ekey e)) as [->|Hne]; [left; auto | right; apply remove_key_other; auto].
  - rewrite set_flag_keys; auto.
  - rewrite set_flag_keys; auto.
Qed.

(* (5) refusal *)
Lemma set_refused_iff s k v d :
  Inv s ->
  (exists ev, snd (lru_step s (OSet k v d)) = RSet false ev) <->
  (~ In k (keys (entries s)) /\ length (entries s) = cap s /\
   Forall (fun x => edirty x = true) (entries s)).
Proof.
  intros [Hnd Hlen]. cbn. split.
  - intros [ev H].
    destruct (find_entry k (entries s)) as [e0|] eqn:Ef; [cbn in H; inversion H|].
    destruct (Nat.eqb_spec (length (entries s)) (cap s)) as [Hfull|Hnf]; [|cbn in H; inversion H].
    pose proof (victim_spec (entries s)) as S.
    destruct (victim (entries s)) as [ve|]; [cbn in H; inversion H|].
    repeat split; auto. apply find_entry_none; auto.
  - intros (Hn & Hfull & Hall). apply find_entry_none in Hn. rewrite Hn.
    rewrite Hfull, Nat.eqb_refl.
    pose proof (victim_spec (entries s)) as S.
    destruct (victim (entries s)) as [ve|]; [|cbn; eauto].
    destruct S as (l1 & l2 & Hl & Hc & _). exfalso.
    rewrite Hl in Hall. apply Forall_app in Hall as [_ Hall]. inversion Hall; subst. congruence.
Qed.

Lemma set_refused_unchanged s k v d ev :
  snd (lru_step s (OSet k v d)) = RSet false ev -> fst (lru_step s (OSet k v d)) = s /\ ev = None.
Proof.
  cbn. destruct (find_entry k (entries s)); cbn; [intros H; inversion H|].
  destruct (Nat.eqb _ _); cbn; [|intros H; inversion H].
  destruct (victim _); cbn; intros H; inversion H; auto.
Qed.

(* (6) recency order: a hit or a successful set moves the key to the front and keeps the
   relative order of all other resident entries *)
Lemma touch_order_get s k v :
  snd (lru_step s (OGet k)) = RGet (Some v) ->
  keys (entries (fst (lru_step s (OGet k)))) = k :: keys (remove_key k (entries s)).
Proof.
  cbn. destruct (find_entry k (entries s)) as [e|] eqn:Ef; cbn; [|intros H; inversion H].
  apply find_entry_some in Ef as [_ ->]. reflexivity.
Qed.

Lemma miss_unchanged s k :
  snd (lru_step s (OGet k)) = RGet None -> fst (lru_step s (OGet k)) = s.
Proof. cbn. destruct (find_entry k (entries s)); cbn; [intros H; inversion H | auto]. Qed.

(* ---------- (2) freshness: get returns the value of the latest successful set of that
   key, unless the key was evicted since ---------- *)

Definition upd (k : N) (cur : option N) (ev : lru_op * lru_out) : option N :=
  match ev with
  | (OSet k' v _, RSet true evicted) =>
      if N.eqb k' k then Some v
      else match evicted with
           | Some x => if N.eqb x k then None else cur
           | None => cur
           end
  | _ => cur
  end.

Definition stored_spec (k : N) (tr : list (lru_op * lru_out)) : option N :=
  fold_left (upd k) tr None.

Definition lookup (k : N) (s : lru) : option N := option_map eval (find_entry k (entries s)).

Lemma find_entry_remove_other k k' l :
  k <> k' -> find_entry k' (remove_key k l) = find_entry k' l.
Proof.
  intros Hne. induction l as [|a l IH]; cbn; [auto|].
  destruct (N.eqb_spec (ekey a) k) as [Heq|Hne2]; cbn.
  - destruct (N.eqb_spec (ekey a) k'); [congruence | auto].
  - destruct (N.eqb (ekey a) k'); auto.
Qed.

Lemma find_entry_remove_same k l : NoDup (keys l) -> find_entry k (remove_key k l) = None.
Proof. intros H. apply find_entry_none. apply remove_key_not_in; auto. Qed.

Lemma find_entry_set_flag k k' d l :
  option_map eval (find_entry k' (set_flag k d l)) = option_map eval (find_entry k' l).
Proof.
  induction l as [|a l IH]; cbn; [auto|].
  destruct (N.eqb (ekey a) k); cbn; destruct (N.eqb (ekey a) k'); cbn; auto.
Qed.

Lemma step_lookup s o k :
  Inv s ->
  lookup k (fst (lru_step s o)) = upd k (lookup k s) (o, snd (lru_step s o)).
Proof.
  intros [Hnd Hlen]. unfold lookup. destruct o as [k0 v d|k0|k0|k0]; cbn.
  - destruct (find_entry k0 (entries s)) as [e0|] eqn:Ef; cbn.
    + destruct (N.eqb_spec k0 k) as [->|Hne]; cbn; [auto|].
      rewrite find_entry_remove_other by auto. reflexivity.
    + destruct (Nat.eqb (length (entries s)) (cap s)); cbn.
      * destruct (victim (entries s)) as [ve|] eqn:Ev; cbn; [|auto].
        destruct (N.eqb_spec k0 k) as [->|Hne]; cbn; [auto|].
        destruct (N.eqb_spec (ekey ve) k) as [Heq|Hne2].
        -- rewrite Heq, find_entry_remove_same by auto. reflexivity.
        -- rewrite find_entry_remove_other by auto. reflexivity.
      * destruct (N.eqb_spec k0 k) as [->|Hne]; cbn; auto.
  - destruct (find_entry k0 (entries s)) as [e0|] eqn:Ef; cbn; [|auto].
    pose proof Ef as Ef'. apply find_entry_some in Ef' as [_ Hk].
    destruct (N.eqb_spec (ekey e0) k) as [Heq|Hne]; cbn.
    + subst. rewrite Ef. reflexivity.
    + rewrite find_entry_remove_other by congruence. reflexivity.
  - apply find_entry_set_flag.
  - apply find_entry_set_flag.
Qed.

Lemma run_lookup ops : forall s k,
  Inv s ->
  lookup k (lru_state s ops) =
  fold_left (upd k) (combine ops (snd (lru_run s ops))) (lookup k s).
Proof.
  induction ops as [|o ops IH]; intros s k H; [reflexivity|].
  rewrite lru_state_cons. cbn [lru_run].
  pose proof (step_lookup s o k H) as Hs.
  destruct (lru_step s o) as [s1 x] eqn:E1. cbn [fst snd] in *.
  pose proof (step_Inv s o H) as H1. rewrite E1 in H1. cbn [fst] in H1.
  rewrite (IH s1 k H1). destruct (lru_run s1 ops) as [s2 xs]. cbn.
  rewrite Hs. reflexivity.
Qed.

Lemma lru_fresh c ops k :
  lookup k (lru_state (lru_init c) ops) =
  stored_spec k (combine ops (snd (lru_run (lru_init c) ops))).
Proof. apply (run_lookup ops (lru_init c) k (Inv_init c)). Qed.

(* what a Get returns is exactly lookup *)
Lemma get_returns_lookup s k : snd (lru_step s (OGet k)) = RGet (lookup k s).
Proof. unfold lookup. cbn. destruct (find_entry k (entries s)); reflexivity. Qed.

Lemma lru_state_snoc ops : forall s o,
  lru_state s (ops ++ [o]) = fst (lru_step (lru_state s ops) o).
Proof.
  induction ops as [|a ops IH]; intros s o.
  - cbn [app]. rewrite lru_state_cons. reflexivity.
  - cbn [app]. rewrite !lru_state_cons. apply IH.
Qed.

Definition reach (c : nat) (ops : list lru_op) : lru := lru_state (lru_init c) ops.

Lemma reach_Inv c ops : Inv (reach c ops).
Proof. apply run_Inv, Inv_init. Qed.

Lemma reach_cap c ops : cap (reach c ops) = c.
Proof. unfold reach. rewrite run_cap. reflexivity. Qed.

Lemma reach_get_fresh c ops k :
  snd (lru_step (reach c ops) (OGet k)) =
  RGet (stored_spec k (combine ops (snd (lru_run (lru_init c) ops)))).
Proof. rewrite get_returns_lookup. f_equal. apply lru_fresh. Qed.

Lemma reach_victim c ops k v d k' s' :
  lru_step (reach c ops) (OSet k v d) = (s', RSet true (Some k')) ->
  exists l1 e l2,
    entries (reach c ops) = l1 ++ e :: l2 /\ ekey e = k' /\ edirty e = false /\
    Forall (fun x => edirty x = true) l2 /\
    entries s' = mkEntry k v d :: l1 ++ l2 /\
    length (entries (reach c ops)) = c /\ ~ In k (keys (entries (reach c ops))).
Proof.
  intros H. destruct (set_victim _ _ _ _ _ _ (reach_Inv c ops) H)
    as (l1 & e & l2 & H1 & H2 & H3 & H4 & H5 & H6 & H7).
  rewrite reach_cap in H6. exists l1, e, l2. repeat split; auto.
Qed.

Lemma reach_dirty_kept c ops o e :
  In e (entries (reach c ops)) -> edirty e = true ->
  match o with OClean k => k <> ekey e | _ => True end ->
  In (ekey e) (keys (entries (reach c (ops ++ [o])))).
Proof.
  intros H1 H2 H3. unfold reach. rewrite lru_state_snoc.
  apply step_keeps_dirty; auto. apply reach_Inv.
Qed.

Lemma reach_refusal c ops k v d :
  (exists ev, snd (lru_step (reach c ops) (OSet k v d)) = RSet false ev) <->
  (~ In k (keys (entries (reach c ops))) /\ length (entries (reach c ops)) = c /\
   Forall (fun x => edirty x = true) (entries (reach c ops))).
Proof.
  rewrite (set_refused_iff _ k v d (reach_Inv c ops)). rewrite reach_cap. tauto.
Qed.
