(* C09: the model of the SQL front end never panics and never runs out of fuel.
   For every production: on tokens `toks` with `length toks < fuel` the result is POk with a
   remainder no longer than `toks` (strictly shorter where the Go code consumed a token), or PErr;
   never PPanic, never PFuel. The consumption facts are what makes the fuel S (length toks)
   supplied by `parse` sufficient. *)
From Coq Require Import ZArith String Ascii List Bool Lia.
From Mkdb Require Import Model.Value Model.Ast Model.Lexer Model.Parser.
Import ListNotations.
Local Open Scope list_scope.

Definition safe {A} (r : pres A) : Prop :=
  match r with PPanic _ | PFuel => False | _ => True end.

(* remainder not longer / strictly shorter than the input *)
Definition mono {A} (toks : list ptok) (r : pres (A * list ptok)) : Prop :=
  match r with
  | POk (_, rest) => length rest <= length toks
  | PErr _ => True
  | _ => False
  end.

Definition smono {A} (toks : list ptok) (r : pres (A * list ptok)) : Prop :=
  match r with
  | POk (_, rest) => length rest < length toks
  | PErr _ => True
  | _ => False
  end.

(* for the (found, x, err) productions: found consumes, not found leaves the position alone *)
Definition omono {A} (toks : list ptok) (r : pres (option A * list ptok)) : Prop :=
  match r with
  | POk (Some _, rest) => length rest < length toks
  | POk (None, rest) => rest = toks
  | PErr _ => True
  | _ => False
  end.

Local Arguments val_of : simpl never.
Local Arguments require_int : simpl never.
Local Arguments column_reference : simpl never.
Local Arguments value_expression : simpl never.
Local Arguments predicate : simpl never.
Local Arguments and_cond : simpl never.
Local Arguments and_loop : simpl never.
Local Arguments or_cond : simpl never.
Local Arguments or_loop : simpl never.
Local Arguments set_function : simpl never.
Local Arguments derived_column : simpl never.
Local Arguments select_items : simpl never.
Local Arguments select_list : simpl never.
Local Arguments table_name : simpl never.
Local Arguments join_loop : simpl never.
Local Arguments from_clause : simpl never.
Local Arguments where_clause : simpl never.
Local Arguments group_loop : simpl never.
Local Arguments group_by_clause : simpl never.
Local Arguments table_expression : simpl never.
Local Arguments sort_loop : simpl never.
Local Arguments sort_spec_list : simpl never.
Local Arguments limit_loop : simpl never.
Local Arguments limit_offset : simpl never.
Local Arguments select_ : simpl never.
Local Arguments table_elements_loop : simpl never.
Local Arguments table_elements : simpl never.
Local Arguments create_table : simpl never.
Local Arguments create_ : simpl never.
Local Arguments show_ : simpl never.
Local Arguments use_ : simpl never.
Local Arguments insert_cols_loop : simpl never.
Local Arguments insert_vals_loop : simpl never.
Local Arguments insert_rows_loop : simpl never.
Local Arguments insert_ : simpl never.
Local Arguments update_set_loop : simpl never.
Local Arguments update_ : simpl never.
Local Arguments delete_ : simpl never.
Local Arguments parse_f : simpl never.
Local Arguments validate_group_by : simpl never.
Local Arguments atoi : simpl never.

Lemma smono_mono {A} toks (r : pres (A * list ptok)) : smono toks r -> mono toks r.
Proof. destruct r as [[a rest]| | |]; cbn; auto; lia. Qed.

Tactic Notation "dtok" ident(toks) "as" ident(s) ident(r) :=
  let k := fresh "k" in destruct toks as [|[k s] r]; [|destruct k]; cbn [length] in *.

Ltac fin := cbn in *; try tauto; try lia; auto.

(* ---- Token.Val, requireInt ---- *)
Lemma val_of_safe t : safe (val_of t).
Proof. destruct t as [k s]; unfold val_of; destruct k; fin. destruct (atoi s); fin. Qed.

Lemma require_int_ok toks : smono toks (require_int toks).
Proof.
  unfold require_int. dtok toks as s r; fin. unfold val_of; cbn. destruct (atoi s); fin.
Qed.

(* ---- ColumnReference, ValueExpression, Predicate ---- *)
Lemma column_reference_ok toks : omono toks (column_reference toks).
Proof.
  unfold column_reference. dtok toks as s r; fin. dtok r as s1 r1; fin. dtok r1 as s2 r2; fin.
Qed.

Lemma value_expression_ok toks : smono toks (value_expression toks).
Proof.
  unfold value_expression. destruct toks as [|t r]; fin.
  destruct (is_literal (fst t)).
  - pose proof (val_of_safe t). destruct (val_of t); fin.
  - pose proof (column_reference_ok (t :: r)) as H.
    destruct (column_reference (t :: r)) as [[[c|] rest]| | |]; fin.
Qed.

Lemma predicate_ok toks : smono toks (predicate toks).
Proof.
  unfold predicate. pose proof (value_expression_ok toks) as H.
  destruct (value_expression toks) as [[lhs rest]| | |]; fin.
  destruct rest as [|[k s] rest1]; fin.
  destruct (compop_of k); fin.
  pose proof (value_expression_ok rest1) as H1.
  destruct (value_expression rest1) as [[rhs rest2]| | |]; fin.
Qed.

(* ---- one-step unfoldings of the fuelled productions (by conversion) ---- *)
Lemma and_cond_S f toks :
  and_cond (S f) toks = (let* (ret, rest) := predicate toks in and_loop f ret rest).
Proof. reflexivity. Qed.

Lemma and_loop_S f ret toks :
  and_loop (S f) ret toks =
  match toks with
  | (KAnd, _) :: rest1 =>
      match ret with
      | EPred l op r => let* (rhs, rest2) := and_cond f rest1 in and_loop f (EAnd (l, op, r) rhs) rest2
      | _ => PErr ESyntax
      end
  | _ => POk (ret, toks)
  end.
Proof. reflexivity. Qed.

Lemma or_cond_S f toks :
  or_cond (S f) toks = (let* (ret, rest) := and_cond (S f) toks in or_loop f ret rest).
Proof. reflexivity. Qed.

Lemma or_loop_S f ret toks :
  or_loop (S f) ret toks =
  match toks with
  | (KOr, _) :: rest1 => let* (rhs, rest2) := or_cond f rest1 in or_loop f (EOr ret rhs) rest2
  | _ => POk (ret, toks)
  end.
Proof. reflexivity. Qed.

(* ---- AndCondition / OrCondition ---- *)
Lemma and_ok : forall fuel,
  (forall toks, length toks < fuel -> smono toks (and_cond fuel toks)) /\
  (forall ret toks, length toks < fuel -> mono toks (and_loop fuel ret toks)).
Proof.
  induction fuel as [|f [IHc IHl]]; split; intros; try lia.
  - rewrite and_cond_S. pose proof (predicate_ok toks) as Hp.
    destruct (predicate toks) as [[ret rest]| | |]; fin.
    pose proof (IHl ret rest ltac:(lia)) as Hl.
    destruct (and_loop f ret rest) as [[e r2]| | |]; fin.
  - rewrite and_loop_S. dtok toks as s r; fin.
    destruct ret as [v|l op r0|p rhs|l r0]; fin.
    pose proof (IHc r ltac:(lia)) as Hc.
    destruct (and_cond f r) as [[rhs rest2]| | |]; fin.
    pose proof (IHl (EAnd (l, op, r0) rhs) rest2 ltac:(lia)) as Hl.
    destruct (and_loop f (EAnd (l, op, r0) rhs) rest2) as [[e r3]| | |]; fin.
Qed.

Lemma and_cond_ok fuel toks : length toks < fuel -> smono toks (and_cond fuel toks).
Proof. apply and_ok. Qed.

Lemma or_ok : forall fuel,
  (forall toks, length toks < fuel -> smono toks (or_cond fuel toks)) /\
  (forall ret toks, length toks < fuel -> mono toks (or_loop fuel ret toks)).
Proof.
  induction fuel as [|f [IHc IHl]]; split; intros; try lia.
  - rewrite or_cond_S. pose proof (and_cond_ok (S f) toks ltac:(lia)) as Hp.
    destruct (and_cond (S f) toks) as [[ret rest]| | |]; fin.
    pose proof (IHl ret rest ltac:(lia)) as Hl.
    destruct (or_loop f ret rest) as [[e r2]| | |]; fin.
  - rewrite or_loop_S. dtok toks as s r; fin.
    pose proof (IHc r ltac:(lia)) as Hc.
    destruct (or_cond f r) as [[rhs rest2]| | |]; fin.
    pose proof (IHl (EOr ret rhs) rest2 ltac:(lia)) as Hl.
    destruct (or_loop f (EOr ret rhs) rest2) as [[e r3]| | |]; fin.
Qed.

Lemma or_cond_ok fuel toks : length toks < fuel -> smono toks (or_cond fuel toks).
Proof. apply or_ok. Qed.

(* ---- helper tactics: call a sub-production through its lemma ---- *)
Ltac use H :=
  match type of H with
  | smono _ ?c => destruct c as [[? ?]| | |]; fin
  | mono _ ?c => destruct c as [[? ?]| | |]; fin
  | omono _ ?c => destruct c as [[[?|] ?]| | |]; fin
  | safe ?c => destruct c; fin
  end.
Ltac call1 f L :=
  match goal with |- context [f ?a] => let H := fresh "H" in pose proof (L a) as H; use H end.
Ltac call2 f L :=
  match goal with |- context [f ?a ?b] =>
    let H := fresh "H" in pose proof (L a b ltac:(cbn in *; lia)) as H; use H end.
Ltac call3 f L :=
  match goal with |- context [f ?a ?b ?c] =>
    let H := fresh "H" in pose proof (L a b c ltac:(cbn in *; lia)) as H; use H end.

(* recursive call of a loop `f fuel acc toks` through the induction hypothesis *)
Ltac callih f IH :=
  match goal with |- context [f ?a ?b ?c] =>
    let H := fresh "H" in pose proof (IH b c ltac:(cbn in *; lia)) as H; use H end.

(* ---- SetFunctionSpecification, DerivedColumn, SelectList ---- *)
Lemma set_function_ok toks : omono toks (set_function toks).
Proof.
  unfold set_function. dtok toks as s r; fin.
  - (* AVG *) dtok r as s1 r1; fin. call1 column_reference column_reference_ok.
    dtok l as s2 r2; fin.
  - (* COUNT *) dtok r as s1 r1; fin. call1 column_reference column_reference_ok.
    + dtok l as s2 r2; fin.
    + subst. dtok r1 as s2 r2; fin. dtok r2 as s3 r3; fin.
Qed.

Lemma derived_column_ok fuel toks : length toks < fuel -> smono toks (derived_column fuel toks).
Proof.
  intros Hf. unfold derived_column. call1 set_function set_function_ok.
  subst. call2 or_cond or_cond_ok.
Qed.

Lemma select_items_S f acc toks :
  select_items (S f) acc toks =
  (let* (prim, r1) := derived_column (S f) toks in
   let* r2 :=
     match r1 with
     | (KAs, _) :: r => match r with (KIdent, _) :: _ => POk r | _ => PErr EUnexpected end
     | _ => POk r1
     end in
   let '(alias, r3) := match r2 with (KIdent, a) :: r => (a, r) | _ => (EmptyString, r2) end in
   let acc' := acc ++ [mkDC prim alias] in
   match r3 with
   | (KComma, _) :: r4 => select_items f acc' r4
   | _ => POk (acc', r3)
   end).
Proof. reflexivity. Qed.

Lemma select_items_ok : forall fuel acc toks,
  length toks < fuel -> smono toks (select_items fuel acc toks).
Proof.
  induction fuel as [|f IH]; intros acc toks Hf; try lia.
  rewrite select_items_S. call2 derived_column derived_column_ok.
  dtok l as s1 r1; fin; try (callih select_items IH).
  - (* alias without AS *) dtok r1 as s2 r2; fin. callih select_items IH.
  - (* AS *) dtok r1 as s2 r2; fin. dtok r2 as s3 r3; fin. callih select_items IH.
Qed.

Lemma select_list_ok fuel toks : length toks < fuel -> smono toks (select_list fuel toks).
Proof.
  intros Hf. unfold select_list.
  assert (G : smono toks (select_items fuel [] toks)) by (apply select_items_ok; lia).
  dtok toks as s r; fin.
Qed.

(* ---- TableName, FromClause, WhereClause, GroupByClause, TableExpression ---- *)
Lemma table_name_ok toks : smono toks (table_name toks).
Proof. unfold table_name. dtok toks as s r; fin. dtok r as s1 r1; fin. Qed.

Lemma join_loop_S f lhs toks :
  join_loop (S f) lhs toks =
  (let step (jt : jointype) (r : list ptok) : pres (tableref * list ptok) :=
     match r with
     | (KJoin, _) :: r1 =>
         let* (rhs, r2) := table_name r1 in
         match r2 with
         | (KOn, _) :: r3 =>
             let* (cond, r4) := or_cond (S f) r3 in
             join_loop f (TRJoin lhs jt rhs cond) r4
         | _ => PErr EUnexpected
         end
     | _ => PErr EUnexpected
     end in
   match toks with
   | (KLeft, _) :: r => step JLeft r
   | (KRight, _) :: r => step JRight r
   | (KInner, _) :: r => step JInner r
   | (KJoin, _) :: _ => step JInner toks
   | _ => POk (lhs, toks)
   end).
Proof. reflexivity. Qed.

Lemma join_loop_ok : forall fuel lhs toks,
  length toks < fuel -> mono toks (join_loop fuel lhs toks).
Proof.
  induction fuel as [|f IH]; intros lhs toks Hf; try lia.
  rewrite join_loop_S.
  assert (Hstep : forall jt r, length r <= length toks -> 0 < length r ->
     mono r (match r with
     | (KJoin, _) :: r1 =>
         let* (rhs, r2) := table_name r1 in
         match r2 with
         | (KOn, _) :: r3 =>
             let* (cond, r4) := or_cond (S f) r3 in
             join_loop f (TRJoin lhs jt rhs cond) r4
         | _ => PErr EUnexpected
         end
     | _ => PErr EUnexpected
     end)).
  { intros jt r Hr Hr0. dtok r as s1 r1; fin.
    call1 table_name table_name_ok. dtok l as s2 r2; fin.
    call2 or_cond or_cond_ok. callih join_loop IH. }
  dtok toks as s r; fin.
  - (* INNER *) destruct r as [|t r']; fin. pose proof (Hstep JInner (t :: r') ltac:(cbn; lia) ltac:(cbn; lia)) as H.
    cbv zeta. use H.
  - (* JOIN *) pose proof (Hstep JInner ((KJoin, s) :: r) ltac:(cbn; lia) ltac:(cbn; lia)) as H. cbv zeta. use H.
  - (* LEFT *) destruct r as [|t r']; fin. pose proof (Hstep JLeft (t :: r') ltac:(cbn; lia) ltac:(cbn; lia)) as H.
    cbv zeta. use H.
  - (* RIGHT *) destruct r as [|t r']; fin. pose proof (Hstep JRight (t :: r') ltac:(cbn; lia) ltac:(cbn; lia)) as H.
    cbv zeta. use H.
Qed.

Lemma from_clause_ok fuel toks : length toks < fuel ->
  match from_clause fuel toks with
  | POk (Some _, rest) => length rest < length toks
  | POk (None, rest) => rest = toks
  | PErr _ => True
  | _ => False
  end.
Proof.
  intros Hf. unfold from_clause. dtok toks as s r; fin.
  call1 table_name table_name_ok. call3 join_loop join_loop_ok.
Qed.

Lemma where_clause_ok fuel toks : length toks < fuel -> mono toks (where_clause fuel toks).
Proof.
  intros Hf. unfold where_clause. dtok toks as s r; fin. call2 or_cond or_cond_ok.
Qed.

Lemma group_loop_S f acc toks :
  group_loop (S f) acc toks =
  (let* (ocr, r) := column_reference toks in
   match ocr with
   | None => POk (acc, r)
   | Some cr =>
       match r with
       | (KComma, _) :: r1 => group_loop f (acc ++ [cr]) r1
       | _ => group_loop f (acc ++ [cr]) r
       end
   end).
Proof. reflexivity. Qed.

Lemma group_loop_ok : forall fuel acc toks,
  length toks < fuel -> mono toks (group_loop fuel acc toks).
Proof.
  induction fuel as [|f IH]; intros acc toks Hf; try lia.
  rewrite group_loop_S. call1 column_reference column_reference_ok.
  - dtok l as s1 r1; fin; try (callih group_loop IH).
  - subst. lia.
Qed.

Lemma group_by_clause_ok fuel toks : length toks < fuel -> mono toks (group_by_clause fuel toks).
Proof.
  intros Hf. unfold group_by_clause. dtok toks as s r; fin. dtok r as s1 r1; fin.
  call3 group_loop group_loop_ok.
Qed.

Lemma table_expression_ok fuel toks : length toks < fuel ->
  match table_expression fuel toks with
  | POk (Some _, rest) => length rest < length toks
  | POk (None, rest) => rest = toks
  | PErr _ => True
  | _ => False
  end.
Proof.
  intros Hf. unfold table_expression.
  pose proof (from_clause_ok fuel toks Hf) as H.
  destruct (from_clause fuel toks) as [[[tr|] r]| | |]; fin.
  call2 where_clause where_clause_ok. call2 group_by_clause group_by_clause_ok.
Qed.

(* ---- SortSpecificationList, LimitOffsetClause, Select ---- *)
Lemma sort_loop_S f acc toks :
  sort_loop (S f) acc toks =
  (let* (ocr, r) := column_reference toks in
   match ocr with
   | None => PErr EUnexpected
   | Some cr =>
       let '(dir, r1) :=
         match r with
         | (KAsc, _) :: r' => (SAsc, r')
         | (KDesc, _) :: r' => (SDesc, r')
         | _ => (SAsc, r)
         end in
       let acc' := acc ++ [mkSort cr dir] in
       match r1 with
       | (KComma, _) :: r2 => sort_loop f acc' r2
       | _ => POk (acc', r1)
       end
   end).
Proof. reflexivity. Qed.

Lemma sort_loop_ok : forall fuel acc toks,
  length toks < fuel -> smono toks (sort_loop fuel acc toks).
Proof.
  induction fuel as [|f IH]; intros acc toks Hf; try lia.
  rewrite sort_loop_S. call1 column_reference column_reference_ok.
  dtok l as s1 r1; fin; try (callih sort_loop IH).
  - dtok r1 as s2 r2; fin. callih sort_loop IH.
  - dtok r1 as s2 r2; fin. callih sort_loop IH.
Qed.

Lemma sort_spec_list_ok fuel toks : length toks < fuel -> mono toks (sort_spec_list fuel toks).
Proof.
  intros Hf. unfold sort_spec_list. dtok toks as s r; fin. dtok r as s1 r1; fin.
  call3 sort_loop sort_loop_ok.
Qed.

Lemma limit_loop_S f lc toks :
  limit_loop (S f) lc toks =
  match toks with
  | (KLimit, _) :: r =>
      if negb (lo_la lc) then
        let* (z, r1) := require_int r in
        limit_loop f (mkLO true (lo_oa lc) z (lo_o lc)) r1
      else limit_loop f lc r
  | (KOffset, _) :: r =>
      if negb (lo_oa lc) then
        let* (z, r1) := require_int r in
        limit_loop f (mkLO (lo_la lc) true (lo_l lc) z) r1
      else limit_loop f lc r
  | _ => POk (lc, toks)
  end.
Proof. reflexivity. Qed.

Lemma limit_loop_ok : forall fuel lc toks,
  length toks < fuel -> mono toks (limit_loop fuel lc toks).
Proof.
  induction fuel as [|f IH]; intros lc toks Hf; try lia.
  rewrite limit_loop_S. dtok toks as s r; fin.
  - destruct (negb (lo_la lc)).
    + call1 require_int require_int_ok. callih limit_loop IH.
    + callih limit_loop IH.
  - destruct (negb (lo_oa lc)).
    + call1 require_int require_int_ok. callih limit_loop IH.
    + callih limit_loop IH.
Qed.

Lemma limit_offset_ok fuel toks : length toks < fuel -> mono toks (limit_offset fuel toks).
Proof.
  intros Hf. unfold limit_offset. call3 limit_loop limit_loop_ok.
  destruct (lo_l l <? 0)%Z; fin. destruct (lo_o l <? 0)%Z; fin.
Qed.

Lemma select_ok fuel toks : length toks < fuel -> safe (select_ fuel toks).
Proof.
  intros Hf. unfold select_. call2 select_list select_list_ok.
  pose proof (table_expression_ok fuel l0 ltac:(lia)) as Ht.
  destruct (table_expression fuel l0) as [[[[[tr w] g]|] r2]| | |]; fin.
  - destruct (validate_group_by l g); fin.
    call2 sort_spec_list sort_spec_list_ok. call2 limit_offset limit_offset_ok.
  - subst. destruct (has_next l0); fin.
    + dtok l0 as s1 r1; fin.
    + destruct (validate_group_by l []); fin.
      call2 sort_spec_list sort_spec_list_ok. call2 limit_offset limit_offset_ok.
Qed.

(* ---- CREATE ---- *)
Lemma table_elements_loop_S f acc toks :
  table_elements_loop (S f) acc toks =
  match toks with
  | (KIdent, name) :: r =>
      let* (ty, r1) :=
        match r with
        | (KTInt, _) :: r' => POk (STNumeric, r')
        | (KTBigint, _) :: r' => POk (STBigInt, r')
        | (KTBool, _) :: r' => POk (STBoolean, r')
        | (KTVarchar, _) :: r' =>
            match r' with
            | (KLparen, _) :: r2 =>
                let* (z, r3) := require_int r2 in
                match r3 with
                | (KRparen, _) :: r4 => POk (STVarchar z, r4)
                | _ => PErr EUnexpected
                end
            | _ => PErr EUnexpected
            end
        | _ => PErr ESyntax
        end in
      let acc' := acc ++ [mkColDef name ty] in
      match r1 with
      | (KComma, _) :: r2 => table_elements_loop f acc' r2
      | _ => POk (acc', r1)
      end
  | _ => POk (acc, toks)
  end.
Proof. reflexivity. Qed.

Lemma table_elements_loop_ok : forall fuel acc toks,
  length toks < fuel -> mono toks (table_elements_loop fuel acc toks).
Proof.
  induction fuel as [|f IH]; intros acc toks Hf; try lia.
  rewrite table_elements_loop_S. dtok toks as s r; fin.
  dtok r as s1 r1; fin.
  - dtok r1 as s2 r2; fin; callih table_elements_loop IH.
  - dtok r1 as s2 r2; fin; callih table_elements_loop IH.
  - dtok r1 as s2 r2; fin; callih table_elements_loop IH.
  - dtok r1 as s2 r2; fin. call1 require_int require_int_ok.
    dtok l as s3 r3; fin. dtok r3 as s4 r4; fin; callih table_elements_loop IH.
Qed.

Lemma table_elements_ok fuel toks : length toks < fuel -> mono toks (table_elements fuel toks).
Proof.
  intros Hf. unfold table_elements. dtok toks as s r; fin.
  call3 table_elements_loop table_elements_loop_ok. dtok l0 as s1 r1; fin.
Qed.

Lemma create_ok fuel toks : length toks < fuel -> safe (create_ fuel toks).
Proof.
  intros Hf. unfold create_, create_table. dtok toks as s r; fin.
  - dtok r as s1 r1; fin.
  - dtok r as s1 r1; fin; call2 table_elements table_elements_ok.
Qed.

Lemma show_ok toks : safe (show_ toks).
Proof. unfold show_. dtok toks as s r; fin. destruct (String.eqb _ _); fin. Qed.

Lemma use_ok toks : safe (use_ toks).
Proof. unfold use_. dtok toks as s r; fin. Qed.

(* ---- INSERT ---- *)
Lemma insert_cols_loop_S f acc toks :
  insert_cols_loop (S f) acc toks =
  match toks with
  | (KIdent, c) :: r =>
      match r with
      | (KComma, _) :: r1 => insert_cols_loop f (acc ++ [c]) r1
      | _ => POk (acc ++ [c], r)
      end
  | _ => POk (acc, toks)
  end.
Proof. reflexivity. Qed.

Lemma insert_cols_loop_ok : forall fuel acc toks,
  length toks < fuel -> mono toks (insert_cols_loop fuel acc toks).
Proof.
  induction fuel as [|f IH]; intros acc toks Hf; try lia.
  rewrite insert_cols_loop_S. dtok toks as s r; fin. dtok r as s1 r1; fin.
  callih insert_cols_loop IH.
Qed.

Lemma insert_vals_loop_S f acc toks :
  insert_vals_loop (S f) acc toks =
  match toks with
  | t :: r =>
      if is_literal (fst t) then
        let* v := val_of t in
        match r with
        | (KComma, _) :: r1 => insert_vals_loop f (acc ++ [v]) r1
        | _ => POk (acc ++ [v], r)
        end
      else POk (acc, toks)
  | [] => POk (acc, toks)
  end.
Proof. reflexivity. Qed.

Lemma insert_vals_loop_ok : forall fuel acc toks,
  length toks < fuel -> mono toks (insert_vals_loop fuel acc toks).
Proof.
  induction fuel as [|f IH]; intros acc toks Hf; try lia.
  rewrite insert_vals_loop_S. destruct toks as [|t r]; fin.
  destruct (is_literal (fst t)); fin.
  pose proof (val_of_safe t) as Hv. destruct (val_of t); fin.
  dtok r as s1 r1; fin. callih insert_vals_loop IH.
Qed.

Lemma insert_rows_loop_S f acc toks :
  insert_rows_loop (S f) acc toks =
  match toks with
  | (KLparen, _) :: r =>
      let* (vals, r1) := insert_vals_loop (S f) [] r in
      match r1 with
      | (KRparen, _) :: r2 =>
          match r2 with
          | (KComma, _) :: r3 => insert_rows_loop f (acc ++ [vals]) r3
          | _ => POk (acc ++ [vals], r2)
          end
      | _ => PErr EUnexpected
      end
  | _ => POk (acc, toks)
  end.
Proof. reflexivity. Qed.

Lemma insert_rows_loop_ok : forall fuel acc toks,
  length toks < fuel -> mono toks (insert_rows_loop fuel acc toks).
Proof.
  induction fuel as [|f IH]; intros acc toks Hf; try lia.
  rewrite insert_rows_loop_S. dtok toks as s r; fin.
  call3 insert_vals_loop insert_vals_loop_ok.
  dtok l0 as s1 r1; fin. dtok r1 as s2 r2; fin. callih insert_rows_loop IH.
Qed.

Lemma insert_ok fuel toks : length toks < fuel -> safe (insert_ fuel toks).
Proof.
  intros Hf. unfold insert_. dtok toks as s r; fin. dtok r as s1 r1; fin.
  assert (Hc : mono r1
    (match r1 with
     | (KLparen, _) :: r' =>
         let* (cs, r'') := insert_cols_loop fuel [] r' in
         match r'' with
         | (KRparen, _) :: r3 => POk (cs, r3)
         | _ => PErr EUnexpected
         end
     | _ => POk ([], r1)
     end)).
  { dtok r1 as s2 r2; fin. call3 insert_cols_loop insert_cols_loop_ok. dtok l0 as s3 r3; fin. }
  use Hc. dtok l0 as s2 r2; fin. call3 insert_rows_loop insert_rows_loop_ok.
Qed.

(* ---- UPDATE, DELETE ---- *)
Lemma update_set_loop_S f acc toks :
  update_set_loop (S f) acc toks =
  match toks with
  | (KIdent, c) :: r =>
      match r with
      | (KEq, _) :: r1 =>
          let* (v, r2) := value_expression r1 in
          match r2 with
          | (KComma, _) :: r3 => update_set_loop f (acc ++ [(c, v)]) r3
          | _ => POk (acc ++ [(c, v)], r2)
          end
      | _ => PErr EUnexpected
      end
  | _ => POk (acc, toks)
  end.
Proof. reflexivity. Qed.

Lemma update_set_loop_ok : forall fuel acc toks,
  length toks < fuel -> mono toks (update_set_loop fuel acc toks).
Proof.
  induction fuel as [|f IH]; intros acc toks Hf; try lia.
  rewrite update_set_loop_S. dtok toks as s r; fin. dtok r as s1 r1; fin.
  call1 value_expression value_expression_ok. dtok l as s2 r2; fin.
  callih update_set_loop IH.
Qed.

Lemma update_ok fuel toks : length toks < fuel -> safe (update_ fuel toks).
Proof.
  intros Hf. unfold update_. dtok toks as s r; fin. dtok r as s1 r1; fin.
  call3 update_set_loop update_set_loop_ok. call2 where_clause where_clause_ok.
Qed.

Lemma delete_ok fuel toks : length toks < fuel -> safe (delete_ fuel toks).
Proof.
  intros Hf. unfold delete_. dtok toks as s r; fin. dtok r as s1 r1; fin.
  call2 where_clause where_clause_ok.
Qed.

(* ---- Parse ---- *)
Lemma parse_f_ok fuel toks : length toks < fuel -> safe (parse_f fuel toks).
Proof.
  intros Hf. unfold parse_f. dtok toks as s r; fin.
  - apply create_ok; lia.
  - apply delete_ok; lia.
  - apply insert_ok; lia.
  - apply select_ok; lia.
  - apply show_ok.
  - apply update_ok; lia.
  - apply use_ok.
Qed.

Theorem parse_safe toks : safe (parse toks).
Proof. unfold parse. apply parse_f_ok. lia. Qed.

(* the statements of Properties/C09.v *)
Theorem pipeline_never_panics : forall raws w, parse_pipeline raws <> PPanic w.
Proof.
  intros raws w E. pose proof (parse_safe (map classify (wrap raws))) as H.
  unfold parse_pipeline, parse_tokens in E. rewrite E in H. exact H.
Qed.

Theorem pipeline_never_out_of_fuel : forall raws, parse_pipeline raws <> PFuel.
Proof.
  intros raws E. pose proof (parse_safe (map classify (wrap raws))) as H.
  unfold parse_pipeline, parse_tokens in E. rewrite E in H. exact H.
Qed.

Theorem pipeline_statement_or_error : forall raws,
  (exists s, parse_pipeline raws = POk s) \/ (exists e, parse_pipeline raws = PErr e).
Proof.
  intros raws. pose proof (pipeline_never_panics raws). pose proof (pipeline_never_out_of_fuel raws).
  destruct (parse_pipeline raws) as [s|e|w|]; [left; eauto | right; eauto | congruence | congruence].
Qed.

Theorem tokens_never_panic : forall toks w, parse_tokens toks <> PPanic w /\ parse_tokens toks <> PFuel.
Proof.
  intros toks w. pose proof (parse_safe (map classify toks)) as H. unfold parse_tokens.
  split; intros E; rewrite E in H; exact H.
Qed.

(* fuel: any amount above the number of tokens gives the same guarantee (the bound `parse` uses
   is not special) *)
Theorem fuel_suffices : forall fuel toks, length toks < fuel -> parse_f fuel toks <> PFuel.
Proof. intros fuel toks Hf E. pose proof (parse_f_ok fuel toks Hf) as H. rewrite E in H. exact H. Qed.

(* the wrapper: total by construction (structural recursion), one token out per Cur() call *)
Lemma wrap_length raws : length (wrap raws) <= length raws.
Proof.
  assert (G : forall n raws, length raws <= n -> length (wrap raws) <= length raws).
  { induction n; intros [|r rest] Hn; cbn in *; try lia.
    destruct (wrap_one r) as [t [|]]; cbn.
    - destruct rest as [|r2 rest']; cbn in *; try lia. specialize (IHn rest' ltac:(lia)). lia.
    - specialize (IHn rest ltac:(lia)). lia. }
  apply (G (length raws)). lia.
Qed.
