(* C17: the observation oracle of Spec/SessionObs.v accepts the model's own behaviour.
   `sess_spec_accepts` judges what the implementation did on the observations alone (statement
   outcomes, tick / restart outcomes, table read-backs of the selected database); `run_sh` is what
   the model does. Theorem model_passes_sess_oracle: for every list of events - CREATE DATABASE /
   USE / SHOW DATABASES / DDL / DML statements, timer ticks, clean and unclean restarts, read-backs -
   the oracle accepts (evs, run_sh init_sess evs). Hence "Go agrees with the model on this case"
   (sess_model_agrees) implies "the oracle accepts what Go did" (sess_agreement_implies_acceptance).

   The invariant between the model state s and the oracle state (sp, cur):
     SessInv s sp (Proofs/SessionProofs.v): same keys, per database Rep (cache) d + the crash
       invariant, a non-selected database is closed; the oracle's cur is cur s;
     LegalKeys sp: every created name is non-empty and a valid directory name (so a refused
       CREATE DATABASE / USE of an illegal name never names an existing database);
     SelfAll s: MovesFromRep.SelfOk of every cache - with Rep it gives C02's (H2)
       (MovesFromRep.rep_moves_ok), which therefore is NOT a hypothesis here, unlike in
       SessionProofs.sess_hyps2. *)
From Coq Require Import Arith Lia Bool List NArith ZArith String Ascii.
From Mkdb Require Import Model.Engine Model.Session Spec.TableSpec Spec.HistObs Spec.SessionObs
  Proofs.StoreInv Proofs.RefineRep Proofs.RefineCat Proofs.RefineMain Proofs.FailsEarly
  Proofs.SessionStore Proofs.SessionProofs Proofs.OracleSound Proofs.MovesFromRep Gen.Params.
From Mkdb Require Proofs.CrashBase Proofs.CrashRedo Proofs.CrashMain.
Import ListNotations.
Local Open Scope N_scope.
Local Open Scope string_scope.
Local Open Scope list_scope.

(* ====================== the hypotheses, as a boolean evaluated along the run ====================== *)
(* one DDL / DML statement, in the cache it runs on (statements issued while no database is
   selected, CREATE DATABASE / USE / SHOW DATABASES, ticks, restarts, read-backs: no condition) *)
Definition stmt_hyp3 (s : store) (st : stmt) : bool :=
  stmt_ok st &&                                                   (* literals are Go values *)
  N.leb (nextFree (e_store (run_stmt s st))) OFFMAX &&            (* the file stays below 2^63 bytes *)
  stmt_shape st &&                                                (* no INSERT without rows, no UPDATE / DELETE on the catalog *)
  strict_stmt st.                                                 (* CREATE TABLE: not a catalog name, catalog rows storable *)

Definition shev_hyp (s : sess) (ev : sevent) : bool :=
  match ev with
  | SvStmt st =>
      if is_session_stmt st then true else
      match cur s with
      | Some c => match get_db c (dbs s) with Some y => stmt_hyp3 (mem y) st | None => true end
      | None => true
      end
  | _ => true
  end.

Fixpoint sess_oracle_hyps (s : sess) (evs : list shev) : bool :=
  match evs with
  | [] => true
  | ShRead _ :: r => sess_oracle_hyps s r
  | ShEv ev :: r => shev_hyp s ev && match fst (sess_step s ev) with Ok s1 => sess_oracle_hyps s1 r | _ => true end
  end.

(* ====================== (H2) as a boolean is complete ====================== *)
Lemma row_move_okb_complete s name cols vals : CrashRedo.row_move_ok s name cols vals -> row_move_okb s name cols vals = true.
Proof.
  unfold row_move_okb, CrashRedo.row_move_ok. destruct (is_sys_table name); [reflexivity|].
  destruct (CrashRedo.ins_prelude s name cols vals) as [[off bs]|e|]; try reflexivity.
  destruct (bt_insert s off bs) as [s1 [[[k l] nr]|e|]]; try reflexivity.
  destruct (N.eqb nr off); [reflexivity|].
  unfold move_okb, CrashRedo.move_ok. intros E. destruct (scan_res_dec _ _) as [_|N]; [reflexivity | contradiction].
Qed.

Lemma rows_move_okb_complete name cols rows : forall s,
  CrashRedo.rows_move_ok s name cols rows -> rows_move_okb s name cols rows = true.
Proof.
  induction rows as [|r rest IH]; intros s H; cbn [rows_move_okb CrashRedo.rows_move_ok] in *; [reflexivity|].
  destruct H as [A B]. rewrite (row_move_okb_complete _ _ _ _ A). cbn [andb].
  destruct (st_insert s name cols r) as [s1 [ws|e|]]; auto.
Qed.

Lemma stmt_moves_okb_complete s st : CrashRedo.stmt_moves_ok s st -> stmt_moves_okb s st = true.
Proof.
  destruct st; cbn [stmt_moves_okb CrashRedo.stmt_moves_ok]; try reflexivity.
  destruct (first_err _ rows); try reflexivity. apply rows_move_okb_complete.
Qed.

(* ====================== the two extra invariants ====================== *)
Definition legalP (n : string) : Prop := String.eqb n "" = false /\ valid_dbname n = true.
Definition LegalKeys (sp : list (string * db)) : Prop := Forall legalP (map fst sp).
Definition SelfAll (s : sess) : Prop := forall n y, get_db n (dbs s) = Some y -> SelfOk (mem y).

Lemma SelfAll_init : SelfAll init_sess.
Proof. intros n y H. discriminate H. Qed.

Lemma sp_get_In n d (sp : list (string * db)) : sp_get n sp = Some d -> In n (map fst sp).
Proof.
  intros H. rewrite sp_get_aget in H. apply aget_Some_In in H. change n with (fst (n, d)). apply in_map. exact H.
Qed.

Lemma legal_get sp n d : LegalKeys sp -> sp_get n sp = Some d -> legalP n.
Proof. intros HL H. unfold LegalKeys in HL. rewrite Forall_forall in HL. apply HL. eapply sp_get_In; eauto. Qed.

Lemma sv_sp_some s sp n y : SessInv s sp -> get_db n (dbs s) = Some y -> exists d, sp_get n sp = Some d /\ Rep (mem y) d.
Proof. intros HS E. destruct (sv_dbs _ _ HS n y E) as (d & Ed & [HR _] & _). eauto. Qed.

Lemma sv_get_none s sp n : SessInv s sp -> sp_get n sp = None -> get_db n (dbs s) = None.
Proof.
  intros HS E. destruct (get_db n (dbs s)) as [y|] eqn:Ey; [|reflexivity].
  destruct (sv_sp_some s sp n y HS Ey) as (d & Ed & _). congruence.
Qed.

Lemma sv_cur_db s sp c : SessInv s sp -> cur s = Some c ->
  exists y d, get_db c (dbs s) = Some y /\ sp_get c sp = Some d /\ Rep (mem y) d.
Proof.
  intros HS Ec. destruct (sv_get_some s sp c HS (sv_cur _ _ HS c Ec)) as [y Ey].
  destruct (sv_sp_some s sp c y HS Ey) as (d & Ed & HR). eauto.
Qed.

(* the keys of the oracle state after one event *)
Lemma spec_ev_keys sp sc ev o : map fst (fst (spec_ev sp sc ev o)) = map fst sp ++ created1 ev o.
Proof.
  destruct ev as [st| |clean]; [|cbn [spec_ev fst created1]; rewrite app_nil_r; reflexivity ..].
  destruct (is_session_stmt st) eqn:Hss.
  - destruct st; try discriminate; cbn [spec_ev created1 fst]; try (rewrite app_nil_r; reflexivity).
    destruct o as [[]|]; try (rewrite app_nil_r; reflexivity). rewrite map_app. reflexivity.
  - rewrite (spec_ev_plain _ _ _ _ Hss). cbn [fst].
    assert (Hc : created1 (SvStmt st) o = []) by (destruct st; try discriminate; reflexivity).
    rewrite Hc, app_nil_r. destruct o as [[]|]; try reflexivity. destruct sc as [c|]; [|reflexivity].
    destruct (sp_get c sp) as [d|] eqn:Ed; [|reflexivity]. apply (sp_set_keys _ _ _ _ Ed).
Qed.

(* a CREATE DATABASE the model acknowledges names a legal directory *)
Lemma created1_legal s ev r o : sess_step s ev = (r, o) -> Forall legalP (created1 ev o).
Proof.
  destruct ev as [st| |clean]; [|cbn [sess_step created1]; intros H; inversion H; constructor ..].
  destruct st as [q|tn cds|dn| |un|tn cols rows|tn sets w|tn w];
    try (intros _; cbn [created1]; destruct o as [[]|]; constructor; fail).
  cbn [sess_step sess_stmt created1].
  destruct (String.eqb (lower dn) "") eqn:E0; [intros H; inversion H; constructor|].
  destruct (valid_dbname (lower dn)) eqn:Ev; cbn [negb]; [|intros H; inversion H; constructor].
  destruct (get_db (lower dn) (dbs s)); intros H; inversion H; constructor; [split; assumption | constructor].
Qed.

Lemma LegalKeys_step s sp sc ev r o :
  LegalKeys sp -> sess_step s ev = (r, o) -> LegalKeys (fst (spec_ev sp sc ev o)).
Proof.
  intros HL Hs. unfold LegalKeys. rewrite spec_ev_keys. apply Forall_app. split; [exact HL | eapply created1_legal; eauto].
Qed.

(* ====================== the weaker hypotheses imply those of SessionProofs ====================== *)
Lemma stmt_hyp3_parts s st : stmt_hyp3 s st = true ->
  stmt_ok st = true /\ nextFree (e_store (run_stmt s st)) <= OFFMAX /\ stmt_shape st = true /\ strict_stmt st = true.
Proof.
  unfold stmt_hyp3. intros H. apply andb_true_iff in H as [H H4]. apply andb_true_iff in H as [H H3].
  apply andb_true_iff in H as [H1 H2]. apply N.leb_le in H2. auto.
Qed.

Lemma ev_hyp2_of s sp ev : SessInv s sp -> SelfAll s -> shev_hyp s ev = true -> ev_hyp2 s ev = true.
Proof.
  intros HS HA Hh. destruct ev as [st| |clean]; try reflexivity. cbn [shev_hyp ev_hyp2] in *.
  destruct (is_session_stmt st); [reflexivity|]. destruct (cur s) as [c|]; [|reflexivity].
  destruct (get_db c (dbs s)) as [y|] eqn:Ey; [|reflexivity].
  destruct (stmt_hyp3_parts _ _ Hh) as (Hok & Hmax & _ & _).
  destruct (sv_sp_some s sp c y HS Ey) as (d & _ & HR).
  unfold stmt_hyp2. rewrite Hok. apply N.leb_le in Hmax. rewrite Hmax. cbn [andb]. apply N.leb_le in Hmax.
  apply stmt_moves_okb_complete. exact (rep_moves_ok (mem y) d st HR (HA c y Ey) Hok Hmax).
Qed.

(* ====================== SelfOk of every cache is preserved ====================== *)
Lemma In_set_db n y c z (l : list (string * sys)) : In (n, y) (set_db c z l) -> (n, y) = (c, z) \/ In (n, y) l.
Proof.
  induction l as [|[m x] r IH]; cbn [set_db]; [intros [H|[]]; left; symmetry; exact H|].
  destruct (String.eqb m c).
  - intros [H|H]; [left; symmetry; exact H | right; right; exact H].
  - intros [H|H]; [right; left; exact H|]. destruct (IH H) as [X|X]; [left; exact X | right; right; exact X].
Qed.

Lemma recover_all_In : forall l l' n y', recover_all l = Ok l' -> In (n, y') l' ->
  exists y, In (n, y) l /\ recover y = Ok y'.
Proof.
  induction l as [|[m y] r IH]; intros l' n y' H Hin; cbn [recover_all] in H.
  - inversion H; subst. contradiction.
  - destruct (recover y) as [y1|e|] eqn:Ey; cbn [bind] in H; try discriminate.
    destruct (recover_all r) as [r'|e|] eqn:Er; cbn [bind] in H; try discriminate.
    inversion H; subst. destruct Hin as [E|Hin].
    + inversion E; subst. exists y. split; [left; reflexivity | exact Ey].
    + destruct (IH r' n y' eq_refl Hin) as (y0 & A & B). exists y0. split; [right; exact A | exact B].
Qed.

Lemma mem_init_sys : mem init_sys = fst create_db.
Proof. reflexivity. Qed.

Lemma SelfAll_step s sp ev s1 oo :
  SessInv s sp -> SelfAll s -> shev_hyp s ev = true -> sess_step s ev = (Ok s1, oo) -> SelfAll s1.
Proof.
  intros HS HA Hh Hs. destruct ev as [st| |clean].
  - destruct (is_session_stmt st) eqn:Hss.
    + destruct st as [q|tn cds|dn| |un|tn cols rows|tn sets w|tn w]; try discriminate; cbn [sess_step sess_stmt] in Hs.
      * (* CREATE DATABASE *)
        destruct (String.eqb (lower dn) ""); [inversion Hs; subst; exact HA|].
        destruct (valid_dbname (lower dn)); cbn [negb] in Hs; [|inversion Hs; subst; exact HA].
        destruct (get_db (lower dn) (dbs s)) eqn:Eg; inversion Hs; subst; [exact HA|].
        intros n y. cbn [dbs]. rewrite get_db_aget, aget_app, <- get_db_aget.
        destruct (get_db n (dbs s)) as [y0|] eqn:En.
        -- intros H; inversion H; subst. exact (HA n y En).
        -- destruct (String.eqb (lower dn) n); [|discriminate]. intros H; inversion H; subst.
           rewrite mem_init_sys. exact SelfOk_init.
      * (* SHOW *) inversion Hs; subst; exact HA.
      * (* USE *)
        destruct (cur s) as [c|] eqn:Ec.
        -- destruct (String.eqb_spec c (lower un)) as [Ecn|Ecn]; [inversion Hs; subst; exact HA|].
           destruct (valid_dbname (lower un)); cbn [negb] in Hs; [|inversion Hs; subst; exact HA].
           destruct (get_db (lower un) (dbs s)) as [y|] eqn:Ey; [|inversion Hs; subst; exact HA].
           destruct (get_db c (dbs s)) as [yc|] eqn:Eyc; [|inversion Hs].
           inversion Hs; subst. clear Hs.
           destruct (sv_dbs _ _ HS _ _ Ey) as (d & Ed & HD & Hm).
           assert (Hsel : is_sel (cur s) (lower un) = false) by (rewrite Ec; cbn; apply String.eqb_neq; exact Ecn).
           rewrite (open_db_id y (Hm Hsel)).
           intros n z. cbn [dbs]. rewrite !get_set_db.
           destruct (String.eqb c n); [intros H; inversion H; subst; cbn [close_db do_flush mem]; apply SelfOk_flush; exact (HA c yc Eyc)|].
           destruct (String.eqb (lower un) n); [intros H; inversion H; subst; exact (HA _ _ Ey) | apply HA].
        -- destruct (valid_dbname (lower un)); cbn [negb] in Hs; [|inversion Hs; subst; exact HA].
           destruct (get_db (lower un) (dbs s)) as [y|] eqn:Ey; [|inversion Hs; subst; exact HA].
           inversion Hs; subst. clear Hs.
           destruct (sv_dbs _ _ HS _ _ Ey) as (d & Ed & HD & Hm).
           assert (Hsel : is_sel (cur s) (lower un) = false) by (rewrite Ec; reflexivity).
           rewrite (open_db_id y (Hm Hsel)).
           intros n z. cbn [dbs]. rewrite get_set_db.
           destruct (String.eqb (lower un) n); [intros H; inversion H; subst; exact (HA _ _ Ey) | apply HA].
    + (* DDL / DML *)
      cbn [shev_hyp] in Hh. rewrite Hss in Hh.
      rewrite sess_step_stmt, (sess_stmt_plain _ _ Hss) in Hs.
      destruct (cur s) as [c|] eqn:Ec; [|cbn [fst snd] in Hs; inversion Hs; subst; exact HA].
      destruct (get_db c (dbs s)) as [y|] eqn:Ey; [|cbn [fst snd] in Hs; inversion Hs].
      destruct (stmt_hyp3_parts _ _ Hh) as (Hok & Hmax & _ & _).
      destruct (sv_sp_some s sp c y HS Ey) as (d & _ & HR).
      cbn [fst snd] in Hs. unfold exec in Hs. cbn [fst snd] in Hs.
      assert (Hself : SelfOk (e_store (run_stmt (mem y) st))).
      { destruct (e_out (run_stmt (mem y) st)) as [cnt|e|] eqn:Eo.
        - exact (run_stmt_self (mem y) d st cnt HR (HA c y Ey) Hok Hmax Eo).
        - rewrite (stmt_err_unchanged (mem y) d st e HR Hok Hmax Eo). exact (HA c y Ey).
        - cbn [sout_of] in Hs. inversion Hs. }
      assert (Es1 : dbs s1 = set_db c (mkSys (e_store (run_stmt (mem y) st))
                      (if e_flushed (run_stmt (mem y) st) then e_store (run_stmt (mem y) st) else disk y)
                      (if is_ok (e_out (run_stmt (mem y) st)) then wal y ++ e_batch (run_stmt (mem y) st) else wal y)) (dbs s)).
      { destruct (sout_of (e_out (run_stmt (mem y) st))); inversion Hs; subst; reflexivity. }
      intros n z. rewrite Es1, get_set_db.
      destruct (String.eqb c n); [intros H; inversion H; subst; cbn [mem]; exact Hself | apply HA].
  - (* tick *)
    cbn [sess_step] in Hs. destruct (cur s) as [c|]; [|inversion Hs; subst; exact HA].
    destruct (get_db c (dbs s)) as [y|] eqn:Ey; inversion Hs; subst; [|exact HA].
    intros n z. cbn [dbs]. rewrite get_set_db.
    destruct (String.eqb c n); [intros H; inversion H; subst; cbn [do_flush mem]; apply SelfOk_flush; exact (HA c y Ey) | apply HA].
  - (* restart *)
    cbn [sess_step] in Hs.
    set (l := match clean, cur s with
              | true, Some c => match get_db c (dbs s) with Some y => set_db c (close_db y) (dbs s) | None => dbs s end
              | _, _ => dbs s
              end) in Hs.
    assert (Hnd : NoDup (map fst (dbs s))) by (rewrite (sv_keys _ _ HS); apply (sv_nodup _ _ HS)).
    assert (Hbase : forall n y, In (n, y) (dbs s) -> (exists d, DbInv y d) /\ SelfOk (mem y)).
    { intros n y Hin. pose proof (aget_In_NoDup n y (dbs s) Hnd Hin) as Eg. rewrite <- get_db_aget in Eg.
      destruct (sv_dbs _ _ HS n y Eg) as (d & _ & HD & _). split; [eauto | exact (HA n y Eg)]. }
    assert (Hl : forall n y, In (n, y) l -> (exists d, DbInv y d) /\ SelfOk (mem y)).
    { unfold l. destruct clean; [|exact Hbase]. destruct (cur s) as [c|]; [|exact Hbase].
      destruct (get_db c (dbs s)) as [yc|] eqn:Eyc; [|exact Hbase].
      intros n y Hin. apply In_set_db in Hin as [E|Hin]; [|exact (Hbase n y Hin)].
      inversion E; subst.
      assert (Hc : In (c, yc) (dbs s)) by (rewrite get_db_aget in Eyc; apply aget_Some_In; exact Eyc).
      destruct (Hbase c yc Hc) as [[d HD] HSf]. split; [exists d; apply DbInv_flush; exact HD|].
      cbn [close_db do_flush mem]. apply SelfOk_flush. exact HSf. }
    destruct (recover_all l) as [l'|e|] eqn:Er; inversion Hs; subst. clear Hs.
    intros n z Hz. cbn [dbs] in Hz. rewrite get_db_aget in Hz. apply aget_Some_In in Hz.
    destruct (recover_all_In l l' n z Er Hz) as (y & Hin & Hrec).
    destruct (Hl n y Hin) as [[d HD] HSf].
    destruct (DbInv_recover y d HD) as (y' & Hrec' & _ & _ & Hseq).
    rewrite Hrec in Hrec'. inversion Hrec'; subst y'. exact (SelfOk_seq _ _ Hseq HSf).
Qed.

(* ====================== one event: the oracle's verdict ====================== *)
Definition obs_of (o : option sout) : shobs := match o with Some x => ShOut x | None => ShDone true end.

Lemma run_sh_ok s ev s1 oo r : sess_step s ev = (Ok s1, oo) -> run_sh s (ShEv ev :: r) = obs_of oo :: run_sh s1 r.
Proof. intros H. cbn [run_sh]. rewrite H. destruct oo; reflexivity. Qed.

Lemma sess_spec_ok_plain sp sc st o er orr : is_session_stmt st = false ->
  sess_spec_ok sp sc (ShEv (SvStmt st) :: er) (ShOut o :: orr) =
  match sc, o with
  | None, SOErr SENoDB => sess_spec_ok sp sc er orr
  | Some c, SOOk =>
      match sp_get c sp with
      | Some d => match spec_exec d st with
                  | SpecOk d' => sess_spec_ok (sp_set c d' sp) sc er orr
                  | SpecErr _ => false
                  end
      | None => false
      end
  | Some c, SOErr (SEStmt _) =>
      match sp_get c sp with
      | Some d => match spec_exec d st with
                  | SpecErr _ => sess_spec_ok sp sc er orr
                  | SpecOk _ => false
                  end
      | None => false
      end
  | _, _ => false
  end.
Proof. intros H. destruct st; try discriminate; reflexivity. Qed.

Lemma step_accept s sp ev s1 oo :
  SessInv s sp -> LegalKeys sp -> shev_hyp s ev = true -> sess_step s ev = (Ok s1, oo) ->
  forall er orr,
    sess_spec_ok (fst (spec_ev sp (cur s) ev oo)) (cur s1) er orr = true ->
    sess_spec_ok sp (cur s) (ShEv ev :: er) (obs_of oo :: orr) = true.
Proof.
  intros HS HL Hh Hs er orr Hrest. destruct ev as [st| |clean].
  - destruct (is_session_stmt st) eqn:Hss.
    + destruct st as [q|tn cds|dn| |un|tn cols rows|tn sets w|tn w]; try discriminate; cbn [sess_step sess_stmt] in Hs.
      * (* CREATE DATABASE *)
        destruct (String.eqb (lower dn) "") eqn:E0.
        { inversion Hs; subst s1 oo. cbn [spec_ev fst obs_of sess_spec_ok] in *.
          destruct (sp_get (lower dn) sp) as [d|] eqn:Ed.
          - destruct (legal_get _ _ _ HL Ed) as [X _]. congruence.
          - rewrite E0. cbn [negb andb]. exact Hrest. }
        destruct (valid_dbname (lower dn)) eqn:Ev; cbn [negb] in Hs.
        2:{ inversion Hs; subst s1 oo. cbn [spec_ev fst obs_of sess_spec_ok] in *.
            destruct (sp_get (lower dn) sp) as [d|] eqn:Ed.
            - destruct (legal_get _ _ _ HL Ed) as [_ X]. congruence.
            - rewrite E0, Ev. cbn [negb andb]. exact Hrest. }
        destruct (get_db (lower dn) (dbs s)) as [y|] eqn:Eg; inversion Hs; subst s1 oo; cbn [spec_ev fst obs_of sess_spec_ok cur] in *.
        -- destruct (sv_sp_some s sp _ y HS Eg) as (d & Ed & _). rewrite Ed. exact Hrest.
        -- rewrite (sv_sp_none s sp _ HS Eg), E0, Ev. cbn [negb andb]. exact Hrest.
      * (* SHOW DATABASES *)
        inversion Hs; subst s1 oo. cbn [spec_ev fst obs_of sess_spec_ok] in *.
        rewrite (sv_keys _ _ HS), (list_eqb_refl String.eqb String.eqb_eq). cbn [andb]. exact Hrest.
      * (* USE *)
        destruct (cur s) as [c|] eqn:Ec.
        -- destruct (String.eqb_spec c (lower un)) as [Ecn|Ecn].
           { inversion Hs; subst s1 oo. cbn [spec_ev fst obs_of sess_spec_ok] in *.
             destruct (sv_cur_db s sp c HS Ec) as (y & d & _ & Ed & _). rewrite <- Ecn, Ed. rewrite Ec in Hrest. exact Hrest. }
           destruct (valid_dbname (lower un)) eqn:Ev; cbn [negb] in Hs.
           2:{ inversion Hs; subst s1 oo. cbn [spec_ev fst obs_of sess_spec_ok] in *.
               destruct (sp_get (lower un) sp) as [d|] eqn:Ed.
               - destruct (legal_get _ _ _ HL Ed) as [_ X]. congruence.
               - rewrite Ev. cbn [negb andb]. rewrite Ec in Hrest. exact Hrest. }
           destruct (get_db (lower un) (dbs s)) as [y|] eqn:Ey.
           ++ destruct (get_db c (dbs s)) as [yc|] eqn:Eyc; [|inversion Hs].
              inversion Hs; subst s1 oo. cbn [spec_ev fst obs_of sess_spec_ok cur] in *.
              destruct (sv_sp_some s sp _ y HS Ey) as (d & Ed & _). rewrite Ed. exact Hrest.
           ++ inversion Hs; subst s1 oo. cbn [spec_ev fst obs_of sess_spec_ok] in *.
              rewrite (sv_sp_none s sp _ HS Ey), Ev. cbn [andb]. rewrite Ec in Hrest. exact Hrest.
        -- destruct (valid_dbname (lower un)) eqn:Ev; cbn [negb] in Hs.
           2:{ inversion Hs; subst s1 oo. cbn [spec_ev fst obs_of sess_spec_ok] in *.
               destruct (sp_get (lower un) sp) as [d|] eqn:Ed.
               - destruct (legal_get _ _ _ HL Ed) as [_ X]. congruence.
               - rewrite Ev. cbn [negb andb]. rewrite Ec in Hrest. exact Hrest. }
           destruct (get_db (lower un) (dbs s)) as [y|] eqn:Ey; inversion Hs; subst s1 oo; cbn [spec_ev fst obs_of sess_spec_ok cur] in *.
           ++ destruct (sv_sp_some s sp _ y HS Ey) as (d & Ed & _). rewrite Ed. exact Hrest.
           ++ rewrite (sv_sp_none s sp _ HS Ey), Ev. cbn [andb]. rewrite Ec in Hrest. exact Hrest.
    + (* DDL / DML *)
      cbn [shev_hyp] in Hh. rewrite Hss in Hh.
      rewrite sess_step_stmt, (sess_stmt_plain _ _ Hss) in Hs.
      rewrite (spec_ev_plain _ _ _ _ Hss) in Hrest. cbn [fst] in Hrest.
      destruct (cur s) as [c|] eqn:Ec.
      2:{ cbn [fst snd] in Hs. inversion Hs; subst s1 oo. cbn [obs_of]. rewrite (sess_spec_ok_plain _ _ _ _ _ _ Hss).
          rewrite Ec in Hrest. exact Hrest. }
      destruct (sv_cur_db s sp c HS Ec) as (y & d & Ey & Ed & HR). rewrite Ey in *.
      destruct (stmt_hyp3_parts _ _ Hh) as (Hok & Hmax & Hshape & Hstrict).
      cbn [fst snd] in Hs. unfold exec in Hs. cbn [fst snd] in Hs.
      destruct (e_out (run_stmt (mem y) st)) as [cnt|e|] eqn:Eo; cbn [sout_of] in Hs; inversion Hs; subst s1 oo;
        cbn [obs_of cur] in *; rewrite (sess_spec_ok_plain _ _ _ _ _ _ Hss), Ed.
      * destruct (run_stmt_spec_ok (mem y) d st cnt HR Hok Hshape Hmax Eo) as [d' Hd'].
        rewrite Ed in Hrest. unfold spec_step in Hrest. rewrite Hd' in *. exact Hrest.
      * destruct (model_refusal_justified (mem y) d st e HR Hok Hstrict Hmax Eo) as [e' He']. rewrite He'. exact Hrest.
  - (* tick *)
    cbn [sess_step] in Hs. cbn [spec_ev fst] in Hrest.
    assert (X : oo = None /\ cur s1 = cur s).
    { destruct (cur s) as [c|] eqn:Ec; [|inversion Hs; subst s1 oo; auto].
      destruct (get_db c (dbs s)); inversion Hs; subst s1 oo; cbn [cur]; auto. }
    destruct X as [-> Hc]. rewrite Hc in Hrest. exact Hrest.
  - (* restart *)
    cbn [sess_step] in Hs. cbn [spec_ev fst] in Hrest.
    match type of Hs with (match ?R with _ => _ end, _) = _ => destruct R as [l'|e|] end; inversion Hs; subst.
    cbn [cur] in Hrest. exact Hrest.
Qed.

(* ====================== the run ====================== *)
Lemma sess_oracle_run : forall evs s sp,
  SessInv s sp -> LegalKeys sp -> SelfAll s -> sess_oracle_hyps s evs = true ->
  sess_spec_ok sp (cur s) evs (run_sh s evs) = true.
Proof.
  induction evs as [|h r IH]; intros s sp HS HL HA Hh; [reflexivity|].
  destruct h as [ev|ns].
  - cbn [sess_oracle_hyps] in Hh. apply andb_true_iff in Hh as [Hh1 Hh2].
    destruct (sess_step_inv s sp ev HS (ev_hyp2_of s sp ev HS HA Hh1)) as (s1 & E1 & HS1 & _).
    destruct (sess_step s ev) as [r1 oo] eqn:Es. cbn [fst snd] in *. subst r1.
    rewrite (run_sh_ok s ev s1 oo r Es).
    apply (step_accept s sp ev s1 oo HS HL Hh1 Es).
    apply IH; [exact HS1 | exact (LegalKeys_step s sp (cur s) ev _ oo HL Es) | exact (SelfAll_step s sp ev s1 oo HS HA Hh1 Es) | exact Hh2].
  - cbn [sess_oracle_hyps] in Hh. cbn [run_sh].
    destruct (cur s) as [c|] eqn:Ec.
    + destruct (sv_cur_db s sp c HS Ec) as (y & d & Ey & Ed & HR). rewrite Ey.
      cbn [sess_spec_ok]. rewrite Ed.
      assert (Hm : forallb (table_matches_spec d) (map (fun n => (n, obs_table (mem y) n)) ns) = true).
      { apply forallb_forall. intros nt H. apply in_map_iff in H as (n & <- & _). apply matches_model. exact HR. }
      assert (Hn : list_eqb String.eqb ns (map fst (map (fun n => (n, obs_table (mem y) n)) ns)) = true).
      { rewrite map_map. cbn [fst]. rewrite map_id. apply (list_eqb_refl String.eqb String.eqb_eq). }
      rewrite Hn, Hm. cbn [andb]. rewrite <- Ec. apply IH; assumption.
    + cbn [sess_spec_ok]. rewrite <- Ec. apply IH; assumption.
Qed.

Theorem model_passes_sess_oracle : forall evs,
  sess_oracle_hyps init_sess evs = true -> sess_spec_accepts (evs, run_sh init_sess evs) = true.
Proof.
  intros evs Hh. unfold sess_spec_accepts. cbn [fst snd].
  apply (sess_oracle_run evs init_sess [] SessInv_init); [constructor | exact SelfAll_init | exact Hh].
Qed.

(* ====================== agreement with the model implies acceptance by the oracle ====================== *)
Lemma serr_eqb_eq a b : serr_eqb a b = true -> a = b.
Proof.
  destruct a, b; cbn [serr_eqb]; intros H; try discriminate; try reflexivity.
  f_equal. apply err_eqb_spec. exact H.
Qed.

Lemma sout_eqb_eq a b : sout_eqb a b = true -> a = b.
Proof.
  destruct a, b; cbn [sout_eqb]; intros H; try discriminate; try reflexivity.
  - f_equal. apply serr_eqb_eq. exact H.
  - f_equal. apply (list_eqb_spec String.eqb String.eqb_eq). exact H.
Qed.

Lemma shobs_eqb_eq a b : shobs_eqb a b = true -> a = b.
Proof.
  destruct a, b; cbn [shobs_eqb]; intros H; try discriminate; try reflexivity.
  - f_equal. apply sout_eqb_eq. exact H.
  - f_equal. apply Bool.eqb_prop. exact H.
  - f_equal. apply (list_eqb_spec (pair_eqb String.eqb tobs_eqb)); [|exact H].
    intros [n1 t1] [n2 t2]. unfold pair_eqb. cbn [fst snd]. rewrite andb_true_iff, String.eqb_eq, tobs_eqb_spec.
    split; [intros [-> ->]; reflexivity | intros E; inversion E; auto].
Qed.

Lemma sess_agrees_eq evs obs : sess_model_agrees (evs, obs) = true -> obs = run_sh init_sess evs.
Proof.
  unfold sess_model_agrees. cbn [fst snd]. generalize (run_sh init_sess evs). intros l. revert obs.
  induction l as [|a l IH]; intros [|b obs] H; cbn [list_eqb] in H; try discriminate; [reflexivity|].
  apply andb_true_iff in H as [H1 H2]. rewrite (shobs_eqb_eq _ _ H1), (IH _ H2). reflexivity.
Qed.

(* "MM = [] implies SM = []" for one case *)
Theorem sess_agreement_implies_acceptance : forall c,
  sess_oracle_hyps init_sess (fst c) = true -> sess_model_agrees c = true -> sess_spec_accepts c = true.
Proof.
  intros [evs obs] Hh Hag. cbn [fst] in Hh. rewrite (sess_agrees_eq evs obs Hag). apply model_passes_sess_oracle. exact Hh.
Qed.

(* the hypotheses of the isolation theorem (SessionProofs.sess_hyps2: literals, file size, (H2)),
   restricted to the real events of the case, follow from the ones above: C17_isolation_all_histories
   and C17_never_fails_all_histories apply to every case the theorems above apply to *)
Fixpoint sh_events (evs : list shev) : list sevent :=
  match evs with [] => [] | ShEv ev :: r => ev :: sh_events r | ShRead _ :: r => sh_events r end.

Lemma oracle_hyps_hyps2_gen : forall evs s sp,
  SessInv s sp -> SelfAll s -> sess_oracle_hyps s evs = true -> sess_hyps2 s (sh_events evs) = true.
Proof.
  induction evs as [|h r IH]; intros s sp HS HA Hh; [reflexivity|]. destruct h as [ev|ns]; cbn [sh_events sess_oracle_hyps] in *.
  - apply andb_true_iff in Hh as [Hh1 Hh2]. cbn [sess_hyps2].
    pose proof (ev_hyp2_of s sp ev HS HA Hh1) as H2. rewrite H2. cbn [andb].
    destruct (sess_step_inv s sp ev HS H2) as (s1 & E1 & HS1 & _).
    destruct (sess_step s ev) as [r1 oo] eqn:Es. cbn [fst snd] in *. subst r1.
    eapply IH; [exact HS1 | exact (SelfAll_step s sp ev s1 oo HS HA Hh1 Es) | exact Hh2].
  - eapply IH; eauto.
Qed.

Theorem oracle_hyps_hyps2 evs : sess_oracle_hyps init_sess evs = true -> sess_hyps2 init_sess (sh_events evs) = true.
Proof. apply (oracle_hyps_hyps2_gen evs init_sess [] SessInv_init SelfAll_init). Qed.

(* ====================== every clause of stmt_hyp3 that can be exhibited is needed ======================
   On each of these cases the oracle REJECTS the model's own behaviour (it would report a property
   violation on an implementation that does exactly what the model does). The clause about the file
   size (2^63 bytes) cannot be exhibited by computation; the refinement theorems need it. *)
Definition sh_pre : list shev := [ShEv (SvStmt (SCreateDatabase "d")); ShEv (SvStmt (SUse "d"))].

(* stmt_shape: an INSERT without rows into a table that does not exist is acknowledged *)
Definition sh_norows : list shev := sh_pre ++ [ShEv (SvStmt (SInsert "nosuch" [] []))].
(* stmt_shape: a DELETE on a catalog table that matches no row is acknowledged *)
Definition sh_syscat : list shev :=
  sh_pre ++ [ShEv (SvStmt (SDelete "sys_pages" (Some (EPred (XCol (mkCol "" "table_name")) CEq (XLit (VStr "zz"))))))].
Example sess_oracle_needs_stmt_shape :
  sess_spec_accepts (sh_norows, run_sh init_sess sh_norows) = false /\
  run_sh init_sess sh_norows = [ShOut SOOk; ShOut SOOk; ShOut SOOk] /\
  sess_spec_accepts (sh_syscat, run_sh init_sess sh_syscat) = false /\
  run_sh init_sess sh_syscat = [ShOut SOOk; ShOut SOOk; ShOut SOOk].
Proof. vm_compute. repeat split; reflexivity. Qed.

(* strict_stmt: CREATE TABLE of a catalog name / with a catalog row that cannot be stored is refused
   by the engine only, and the oracle is strict about refusals *)
Definition sh_strict1 : list shev := sh_pre ++ [ShEv (SvStmt (SCreateTable "sys_pages" [mkColDef "a" STNumeric]))].
Definition sh_strict2 : list shev := sh_pre ++ [ShEv (SvStmt (SCreateTable "v" [mkColDef "a" (STVarchar 3000000000)]))].
Example sess_oracle_needs_strict_stmt :
  sess_spec_accepts (sh_strict1, run_sh init_sess sh_strict1) = false /\
  run_sh init_sess sh_strict1 = [ShOut SOOk; ShOut SOOk; ShOut (SOErr (SEStmt ETableExists))] /\
  sess_spec_accepts (sh_strict2, run_sh init_sess sh_strict2) = false /\
  run_sh init_sess sh_strict2 = [ShOut SOOk; ShOut SOOk; ShOut (SOErr (SEStmt EIntRange))].
Proof. vm_compute. repeat split; reflexivity. Qed.

(* stmt_ok: a literal outside int64 (no Go value) wraps around in the model's encoder *)
Definition sh_lit : list shev :=
  sh_pre ++ [ShEv (SvStmt (SCreateTable "t" [mkColDef "k" STBigInt]));
             ShEv (SvStmt (SInsert "t" [] [[VInt 9223372036854775808]])); ShRead ["t"]].
Example sess_oracle_needs_stmt_ok :
  sess_spec_accepts (sh_lit, run_sh init_sess sh_lit) = false /\
  run_sh init_sess sh_lit = [ShOut SOOk; ShOut SOOk; ShOut SOOk; ShOut SOOk;
                             ShTables [("t", TRows ["k"] [(11%N, [VInt (-9223372036854775808)])])]].
Proof. vm_compute. split; reflexivity. Qed.

(* ====================== two former laxities of the oracle, repaired ======================
   (the model-vs-Go comparison sess_model_agrees was exact on these observations all along) *)
(* SHOW DATABASES answered with an error used to be accepted: the SHOW clause of sess_spec_ok only
   matched an SOShow outcome, any other outcome fell through to the DDL / DML clause, where
   spec_exec d SShowDatabase = SpecErr made the refusal "justified". The SHOW clause now takes every
   outcome and rejects all but SOShow, with or without a selected database *)
Example sess_oracle_rejects_show_error :
  sess_spec_accepts ([ShEv (SvStmt SShowDatabase)], [ShOut (SOErr SENoDB)]) = false /\
  sess_spec_accepts (sh_pre ++ [ShEv (SvStmt SShowDatabase)], [ShOut SOOk; ShOut SOOk; ShOut (SOErr (SEStmt EOther))]) = false /\
  sess_spec_accepts (sh_pre ++ [ShEv (SvStmt SShowDatabase)], [ShOut SOOk; ShOut SOOk; ShOut SOOk]) = false /\
  sess_spec_accepts (sh_pre ++ [ShEv (SvStmt SShowDatabase)], [ShOut SOOk; ShOut SOOk; ShOut (SOShow ["d"])]) = true.
Proof. vm_compute. repeat split; reflexivity. Qed.

(* a read-back used not to be compared with the names that were asked for: an empty answer, the
   answer for another table, a permuted or a partial answer are now rejected *)
Definition sh_read : list shev :=
  sh_pre ++ [ShEv (SvStmt (SCreateTable "t" [mkColDef "k" STBigInt])); ShEv (SvStmt (SInsert "t" [] [[VInt 1]])); ShRead ["t"; "u"]].
Definition sh_read_t : string * tobs := ("t", TRows ["k"] [(11%N, [VInt 1])]).
Definition sh_read_u : string * tobs := ("u", TFail ETableNotExist).
Example sess_oracle_rejects_read_names :
  sess_spec_accepts (sh_read, [ShOut SOOk; ShOut SOOk; ShOut SOOk; ShOut SOOk; ShTables []]) = false /\
  sess_spec_accepts (sh_read, [ShOut SOOk; ShOut SOOk; ShOut SOOk; ShOut SOOk; ShTables [sh_read_u]]) = false /\
  sess_spec_accepts (sh_read, [ShOut SOOk; ShOut SOOk; ShOut SOOk; ShOut SOOk; ShTables [sh_read_t]]) = false /\
  sess_spec_accepts (sh_read, [ShOut SOOk; ShOut SOOk; ShOut SOOk; ShOut SOOk; ShTables [sh_read_u; sh_read_t]]) = false /\
  sess_spec_accepts (sh_read, [ShOut SOOk; ShOut SOOk; ShOut SOOk; ShOut SOOk; ShTables [sh_read_t; sh_read_u]]) = true /\
  run_sh init_sess sh_read = [ShOut SOOk; ShOut SOOk; ShOut SOOk; ShOut SOOk; ShTables [sh_read_t; sh_read_u]].
Proof. vm_compute. repeat split; reflexivity. Qed.
