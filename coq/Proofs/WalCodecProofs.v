(* The log reader returns exactly the complete-record prefix of the log (Model/WalCodec.v). *)
From Coq Require Import Ascii NArith ZArith Bool Lia Arith List.
From Mkdb Require Import Model.WalCodec Proofs.BytesProofs Proofs.CodecBaseProofs Proofs.ParamsFacts.
Import ListNotations.
Open Scope N_scope.

Lemma rec_ok_props r : rec_ok r = true ->
  wr_op r < w8 /\ wr_lsn r < w64 /\ wr_page r < w64 /\ wr_cell r < w32 /\
  N.of_nat (length (wr_val r)) + walFixedSize < w32.
Proof. unfold rec_ok. rewrite !andb_true_iff, !N.ltb_lt. tauto. Qed.

Lemma wal_encode_length r : N.of_nat (length (wal_encode r)) = walFixedSize + N.of_nat (length (wr_val r)).
Proof. unfold wal_encode, walFixedSize. rewrite !app_length, !le_enc_length. lia. Qed.

Lemma frame_length r : N.of_nat (length (frame r)) = 4 + walFixedSize + N.of_nat (length (wr_val r)).
Proof. unfold frame, frame_len. rewrite app_length, le_enc_length. pose proof (wal_encode_length r). lia. Qed.

(* WALEntry.decode inverts WALEntry.encode, whatever follows in the buffer *)
Theorem wal_decode_encode r extra : rec_ok r = true -> wal_decode (wal_encode r ++ extra) = Ok r.
Proof.
  intros H. destruct (rec_ok_props r H) as [H1 [H2 [H3 [H4 H5]]]].
  unfold wal_decode, wal_encode. rewrite <- !app_assoc.
  rewrite rd_u1_app by exact H1. cbv beta iota.
  rewrite rd_u8_app by exact H2. cbv beta iota.
  rewrite rd_u8_app by exact H3. cbv beta iota.
  rewrite rd_u4_app by exact H4. cbv beta iota.
  rewrite rd_u4_app by (unfold walFixedSize in H5; lia). cbv beta iota.
  rewrite read_blob_app. destruct r; reflexivity.
Qed.

Lemma take_n_app a b : take_n (N.of_nat (length a)) (a ++ b) = Some (a, b).
Proof.
  unfold take_n. rewrite app_length. destruct (N.ltb_spec (N.of_nat (length a + length b)) (N.of_nat (length a))); [lia|].
  rewrite Nat2N.id. rewrite firstn_app, firstn_all, Nat.sub_diag, firstn_O, app_nil_r.
  rewrite skipn_app, skipn_all, Nat.sub_diag. reflexivity.
Qed.

Lemma take_n_short n bs : N.of_nat (length bs) < n -> take_n n bs = None.
Proof. intros H. unfold take_n. destruct (N.ltb_spec (N.of_nat (length bs)) n); [reflexivity|lia]. Qed.

Lemma frame_len_dec r : rec_ok r = true ->
  le_dec (frame_len r) = N.of_nat (length (wal_encode r)) /\ N.of_nat (length (wal_encode r)) <> 0.
Proof.
  intros H. destruct (rec_ok_props r H) as [_ [_ [_ [_ H5]]]].
  pose proof (wal_encode_length r) as L. unfold frame_len. split.
  - apply le_dec_enc_small. rewrite pow_w32. lia.
  - unfold walFixedSize in L. lia.
Qed.

(* one complete frame at the head of the log = one loop iteration *)
Lemma wal_read_loop_frame fuel r rest acc v : rec_ok r = true ->
  wal_read_loop (S fuel) (frame r ++ rest) acc v =
  wal_read_loop fuel rest (r :: acc) (v + N.of_nat (length (frame r))).
Proof.
  intros H. destruct (frame_len_dec r H) as [Hd Hnz].
  cbn [wal_read_loop]. unfold frame at 1. rewrite <- app_assoc.
  rewrite take_app by (unfold frame_len; apply le_enc_length).
  rewrite Hd. destruct (N.eqb_spec (N.of_nat (length (wal_encode r))) 0) as [E|_]; [contradiction|].
  rewrite take_n_app. rewrite <- (app_nil_r (wal_encode r)), wal_decode_encode by exact H.
  f_equal. rewrite app_nil_r. unfold frame. rewrite app_length. unfold frame_len. rewrite le_enc_length. lia.
Qed.

(* a tail on which the reader stops without consuming anything *)
Definition stops (tail : bytes) : Prop :=
  forall fuel acc v, wal_read_loop fuel tail acc v = mkWRR (rev acc) v (Ok tt).

Lemma stops_nil : stops [].
Proof. intros [|fuel] acc v; reflexivity. Qed.

(* a zero length word ends the log, whatever follows *)
Lemma stops_zero_length rest : stops (le_enc 4 0 ++ rest).
Proof.
  intros [|fuel] acc v; [reflexivity|]. cbn [wal_read_loop].
  rewrite take_app by apply le_enc_length. rewrite le_dec_enc_small by (rewrite pow_w32; reflexivity).
  reflexivity.
Qed.

(* every strict prefix of a frame - cut anywhere, inside the length word or inside the body *)
Lemma stops_strict_prefix r k : rec_ok r = true -> (k < length (frame r))%nat -> stops (firstn k (frame r)).
Proof.
  intros H Hk [|fuel] acc v; [reflexivity|]. cbn [wal_read_loop].
  destruct (frame_len_dec r H) as [Hd Hnz].
  destruct (Nat.lt_ge_cases k 4) as [Hlt|Hge].
  - assert (E : take 4 (firstn k (frame r)) = None).
    { apply take_none. rewrite firstn_length. lia. }
    rewrite E. reflexivity.
  - unfold frame in *. rewrite firstn_app.
    assert (Hl : length (frame_len r) = 4%nat) by (unfold frame_len; apply le_enc_length).
    rewrite Hl. rewrite firstn_all2 by lia.
    rewrite take_app by exact Hl. rewrite Hd.
    destruct (N.eqb_spec (N.of_nat (length (wal_encode r))) 0) as [E|_]; [contradiction|].
    rewrite take_n_short; [reflexivity|].
    rewrite firstn_length. rewrite app_length, Hl in Hk. lia.
Qed.

Lemma frames_cons r rs : frames (r :: rs) = frame r ++ frames rs.
Proof. reflexivity. Qed.

Lemma frames_app a b : frames (a ++ b) = frames a ++ frames b.
Proof. unfold frames. rewrite map_app, concat_app. reflexivity. Qed.

Lemma frames_len_cons r rs : frames_len (r :: rs) = N.of_nat (length (frame r)) + frames_len rs.
Proof. unfold frames_len. rewrite frames_cons, app_length. lia. Qed.

Lemma wal_read_loop_frames : forall rs fuel tail acc v,
  forallb rec_ok rs = true -> stops tail -> (length rs <= fuel)%nat ->
  wal_read_loop fuel (frames rs ++ tail) acc v = mkWRR (rev acc ++ rs) (v + frames_len rs) (Ok tt).
Proof.
  induction rs as [|r rs IH]; intros fuel tail acc v Hok Hstop Hfuel.
  - cbn [frames map concat app]. rewrite Hstop. unfold frames_len. cbn. rewrite app_nil_r, N.add_0_r. reflexivity.
  - cbn [forallb] in Hok. apply andb_true_iff in Hok. destruct Hok as [Hr Hrs].
    destruct fuel as [|fuel]; [cbn [length] in Hfuel; lia|].
    rewrite frames_cons, <- app_assoc, wal_read_loop_frame by exact Hr.
    rewrite IH by (try assumption; cbn [length] in Hfuel; lia).
    rewrite frames_len_cons. cbn [rev]. rewrite <- app_assoc. cbn [app]. f_equal. lia.
Qed.

Lemma frames_fuel rs tail : forallb rec_ok rs = true -> (length rs <= S (length (frames rs ++ tail)))%nat.
Proof.
  intros H. rewrite app_length.
  assert (length rs <= length (frames rs))%nat; [|lia].
  induction rs as [|r rs IH]; [cbn; lia|].
  cbn [forallb] in H. apply andb_true_iff in H. destruct H as [Hr Hrs].
  rewrite frames_cons, app_length. cbn [length]. specialize (IH Hrs).
  pose proof (frame_length r). unfold walFixedSize in *. lia.
Qed.

Theorem wal_read_stops rs tail :
  forallb rec_ok rs = true -> stops tail ->
  wal_read (frames rs ++ tail) = mkWRR rs (frames_len rs) (Ok tt).
Proof.
  intros H Hs. unfold wal_read. rewrite wal_read_loop_frames; [reflexivity | exact H | exact Hs |].
  apply frames_fuel. exact H.
Qed.

(* a log of complete records reads back as those records, and all of it is valid *)
Theorem wal_read_frames rs :
  forallb rec_ok rs = true -> wal_read (frames rs) = mkWRR rs (frames_len rs) (Ok tt).
Proof.
  intros H. rewrite <- (app_nil_r (frames rs)). apply wal_read_stops; [exact H | exact stops_nil].
Qed.

(* a log whose last record was cut anywhere (byte-granular) reads back as the complete records
   before it; validLen is the length of that complete part, so InitStorage truncates the torn tail *)
Theorem wal_read_torn rs r k :
  forallb rec_ok rs = true -> rec_ok r = true -> (k < length (frame r))%nat ->
  wal_read (frames rs ++ firstn k (frame r)) = mkWRR rs (frames_len rs) (Ok tt).
Proof.
  intros H Hr Hk. apply wal_read_stops; [exact H | apply stops_strict_prefix; assumption].
Qed.

(* a zero length word (e.g. preallocated zero bytes) ends the log *)
Theorem wal_read_zero_tail rs rest :
  forallb rec_ok rs = true ->
  wal_read (frames rs ++ le_enc 4 0 ++ rest) = mkWRR rs (frames_len rs) (Ok tt).
Proof. intros H. apply wal_read_stops; [exact H | apply stops_zero_length]. Qed.

(* ---- wal.flush ---- *)

Lemma written_app a b : written (a ++ b) = written a ++ written b.
Proof.
  induction a as [|c r IH]; [reflexivity|]. destruct c; cbn [app written]; rewrite IH; [|reflexivity].
  apply app_assoc.
Qed.

Lemma written_frame_calls fs r : written (frame_calls fs r) = frame r.
Proof. unfold frame_calls, frame. destruct fs; cbn [written]; rewrite ?app_nil_r; reflexivity. Qed.

(* the file content after a complete flush is the concatenation of the frames *)
Theorem written_flush fs rs : written (flush_calls fs rs) = frames rs.
Proof.
  induction rs as [|r rs IH]; [reflexivity|].
  unfold flush_calls in *. cbn [flat_map]. rewrite written_app, written_frame_calls, IH. reflexivity.
Qed.

(* what an interrupted flush leaves, call-granular: some complete frames and possibly the
   length word of the next one *)
Lemma cut_at_write_shape fs : forall rs j,
  exists i, (i <= length rs)%nat /\
    (cut_at_write j (flush_calls fs rs) = frames (firstn i rs) \/
     exists r, nth_error rs i = Some r /\ cut_at_write j (flush_calls fs rs) = frames (firstn i rs) ++ frame_len r).
Proof.
  unfold cut_at_write. induction rs as [|r rs IH]; intros j.
  - exists O. split; [cbn; lia|]. left. destruct j; reflexivity.
  - unfold flush_calls in *. cbn [flat_map].
    change (frame_calls fs r ++ flat_map (frame_calls fs) rs) with
      (WWrite (frame_len r) :: WWrite (wal_encode r) :: (if fs then [WSync] else []) ++ flat_map (frame_calls fs) rs).
    destruct j as [|[|j]].
    + exists O. split; [lia|]. left. reflexivity.
    + exists O. split; [lia|]. right. exists r. split; [reflexivity|].
      cbn [firstn written frames map concat app]. rewrite app_nil_r. reflexivity.
    + assert (Hgo : forall j', exists i, (i <= length (r :: rs))%nat /\
        (frame r ++ written (firstn j' (flat_map (frame_calls fs) rs)) = frames (firstn i (r :: rs)) \/
         exists r0, nth_error (r :: rs) i = Some r0 /\
           frame r ++ written (firstn j' (flat_map (frame_calls fs) rs)) = frames (firstn i (r :: rs)) ++ frame_len r0)).
      { intros j'. destruct (IH j') as [i [Hi [E|[r0 [Hn E]]]]]; exists (S i); (split; [cbn [length]; lia|]).
        - left. cbn [firstn]. rewrite frames_cons, E. reflexivity.
        - right. exists r0. split; [exact Hn|]. cbn [firstn]. rewrite frames_cons, E, app_assoc. reflexivity. }
      destruct fs; cbn [app firstn written].
      * destruct j as [|j].
        { exists 1%nat. split; [cbn [length]; lia|]. left. cbn [firstn written]. rewrite frames_cons.
          unfold frame. cbn [frames map concat]. rewrite !app_nil_r. reflexivity. }
        { cbn [firstn written]. rewrite app_assoc. exact (Hgo j). }
      * rewrite app_assoc. exact (Hgo j).
Qed.

Lemma In_firstn' {A} (x : A) : forall n l, In x (firstn n l) -> In x l.
Proof.
  induction n as [|n IH]; intros [|y l] H; cbn [firstn] in H; try contradiction.
  destruct H as [->|H]; [left; reflexivity | right; apply IH; exact H].
Qed.

(* hence: whatever call a crash precedes, recovery reads a prefix of the batch (appended to the
   complete records already in the log) *)
Theorem wal_read_interrupted_flush fs old rs j :
  forallb rec_ok old = true -> forallb rec_ok rs = true ->
  exists i, (i <= length rs)%nat /\
    wal_read (frames old ++ cut_at_write j (flush_calls fs rs)) =
    mkWRR (old ++ firstn i rs) (frames_len (old ++ firstn i rs)) (Ok tt).
Proof.
  intros Hold Hrs. destruct (cut_at_write_shape fs rs j) as [i [Hi [E|[r [Hn E]]]]]; exists i; (split; [exact Hi|]); rewrite E.
  - rewrite <- frames_app. apply wal_read_frames. rewrite forallb_app, Hold. cbn [andb].
    apply forallb_forall. intros x Hx. rewrite forallb_forall in Hrs. apply Hrs. eapply In_firstn'; eauto.
  - rewrite app_assoc, <- frames_app.
    assert (Hr : rec_ok r = true).
    { rewrite forallb_forall in Hrs. apply Hrs. eapply nth_error_In; eauto. }
    replace (frame_len r) with (firstn 4 (frame r)).
    + apply wal_read_torn; [| exact Hr |].
      * rewrite forallb_app, Hold. cbn [andb].
        apply forallb_forall. intros x Hx. rewrite forallb_forall in Hrs. apply Hrs. eapply In_firstn'; eauto.
      * pose proof (frame_length r). unfold walFixedSize in *. lia.
    + unfold frame. rewrite firstn_app.
      assert (Hl : length (frame_len r) = 4%nat) by (unfold frame_len; apply le_enc_length).
      rewrite Hl, Nat.sub_diag, firstn_O, app_nil_r. apply firstn_all2. lia.
Qed.

(* ---- the other cut mode: unsynced writes are lost (forceSync = true, as InitStorage / OpenRelation
   with forceWALSync use it): only whole records survive ---- *)

Lemma upto_last_sync_frame r l :
  upto_last_sync (frame_calls true r ++ l) = frame_calls true r ++ upto_last_sync l.
Proof.
  unfold frame_calls. cbn [app upto_last_sync].
  destruct (upto_last_sync l); reflexivity.
Qed.

Lemma cut_at_sync_shape : forall rs j,
  exists i, (i <= length rs)%nat /\ cut_at_sync j (flush_calls true rs) = frames (firstn i rs).
Proof.
  unfold cut_at_sync, flush_calls. induction rs as [|r rs IH]; intros j.
  - exists O. split; [cbn; lia|]. destruct j; reflexivity.
  - cbn [flat_map].
    destruct j as [|[|[|j]]]; try (exists O; split; [cbn [length]; lia | reflexivity]).
    change (firstn (S (S (S j))) (frame_calls true r ++ flat_map (frame_calls true) rs))
      with (frame_calls true r ++ firstn j (flat_map (frame_calls true) rs)).
    rewrite upto_last_sync_frame, written_app, written_frame_calls.
    destruct (IH j) as [i [Hi E]]. exists (S i). split; [cbn [length]; lia|].
    cbn [firstn]. rewrite frames_cons, E. reflexivity.
Qed.

Theorem wal_read_interrupted_flush_synced old rs j :
  forallb rec_ok old = true -> forallb rec_ok rs = true ->
  exists i, (i <= length rs)%nat /\
    wal_read (frames old ++ cut_at_sync j (flush_calls true rs)) =
    mkWRR (old ++ firstn i rs) (frames_len (old ++ firstn i rs)) (Ok tt).
Proof.
  intros Hold Hrs. destruct (cut_at_sync_shape rs j) as [i [Hi E]]. exists i. split; [exact Hi|].
  rewrite E, <- frames_app. apply wal_read_frames. rewrite forallb_app, Hold. cbn [andb].
  apply forallb_forall. intros x Hx. rewrite forallb_forall in Hrs. apply Hrs. eapply In_firstn'; eauto.
Qed.

(* the three known ops survive the byte-level op code *)
Lemma entry_of_rec_of_entry e : entry_of_rec (rec_of_entry e) = Some e.
Proof.
  destruct e as [o l p c v]. unfold entry_of_rec, rec_of_entry. cbn [wr_op wr_lsn wr_page wr_cell wr_val].
  destruct walops_distinct as [D1 [D2 D3]].
  destruct o; unfold op_of_code, op_code.
  - rewrite N.eqb_refl. reflexivity.
  - destruct (N.eqb_spec code_OpUpdate code_OpInsert); [congruence|]. rewrite N.eqb_refl. reflexivity.
  - destruct (N.eqb_spec code_OpDelete code_OpInsert); [congruence|].
    destruct (N.eqb_spec code_OpDelete code_OpUpdate); [congruence|]. rewrite N.eqb_refl. reflexivity.
Qed.

Lemma rec_of_entry_ok e :
  w_lsn e < w64 -> w_page e < w64 -> w_cell e < w32 -> N.of_nat (length (w_val e)) + walFixedSize < w32 ->
  rec_ok (rec_of_entry e) = true.
Proof.
  intros H1 H2 H3 H4. unfold rec_ok, rec_of_entry. cbn [wr_op wr_lsn wr_page wr_cell wr_val].
  rewrite !andb_true_iff, !N.ltb_lt. destruct walops_bytes as [B1 [B2 B3]].
  repeat split; try assumption. destruct (w_op e); unfold op_code, w8; assumption.
Qed.
