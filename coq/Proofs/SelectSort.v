(* The model's insertion sort (driven by the Go comparison function) returns a sorted
   permutation whenever the rows are wide enough and the sort columns are homogeneous; with
   no sort keys it is the identity. Also: OFFSET / LIMIT of the model = window. *)
From Coq Require Import ZArith String Bool List Ascii Permutation Sorted Lia.
From Mkdb Require Import Model.CaseLib Model.Select Spec.SelectSpec Proofs.SelectOrder Proofs.SelectEval.
Import ListNotations.

Definition ltb (keys : sortkeys) (a b : row) : bool :=
  match key_cmp keys a b with Lt => true | _ => false end.

Definition wide (keys : sortkeys) (r : row) : Prop := Forall (fun k => (fst k < List.length r)%nat) keys.
Definition tags_ok (keys : sortkeys) (a b : row) : Prop :=
  Forall (fun k => same_tag (nth (fst k) a VNull) (nth (fst k) b VNull) = true) keys.

Lemma idx_row_nth r i : (i < List.length r)%nat -> idx_row r i = Ok (nth i r VNull).
Proof.
  intros H. unfold idx_row. destruct (nth_error r i) eqn:E.
  - rewrite (nth_error_nth _ _ _ E). reflexivity.
  - apply nth_error_None in E. lia.
Qed.

Lemma value_eqb_vcmp a b : value_eqb a b = match vcmp a b with Eq => true | _ => false end.
Proof.
  destruct (value_eqb a b) eqn:E.
  - apply value_eqb_spec in E. subst. rewrite vcmp_refl. reflexivity.
  - destruct (vcmp a b) eqn:C; auto. apply vcmp_eq in C. subst.
    assert (value_eqb b b = true) by (apply value_eqb_spec; reflexivity). congruence.
Qed.

Lemma go_less_ltb keys : forall a b, wide keys a -> wide keys b -> tags_ok keys a b ->
  go_less keys a b = Ok (ltb keys a b).
Proof.
  unfold ltb. induction keys as [|[i d] keys IH]; intros a b Wa Wb T; cbn; auto.
  inversion Wa as [|? ? Ha Wa']; inversion Wb as [|? ? Hb Wb']; inversion T as [|? ? Ht T']; subst; cbn in *.
  rewrite (idx_row_nth _ _ Ha), (idx_row_nth _ _ Hb). cbn.
  rewrite value_eqb_vcmp.
  destruct (vcmp (nth i a VNull) (nth i b VNull)) eqn:C.
  - replace (dir_cmp d Eq) with Eq by (destruct d; reflexivity). apply IH; auto.
  - destruct (nth i a VNull) as [x|x|x|], (nth i b VNull) as [y|y|y|]; cbn in *; try discriminate;
      destruct d; cbn; try reflexivity.
    + apply Z.compare_lt_iff in C. apply Z.ltb_lt in C. rewrite C. reflexivity.
    + apply Z.compare_lt_iff in C. apply Z.ltb_lt in C. rewrite C. reflexivity.
    + rewrite C. reflexivity.
    + rewrite C. reflexivity.
    + destruct x, y; cbn in *; try discriminate; reflexivity.
    + destruct x, y; cbn in *; try discriminate; reflexivity.
  - destruct (nth i a VNull) as [x|x|x|], (nth i b VNull) as [y|y|y|]; cbn in *; try discriminate;
      destruct d; cbn; try reflexivity.
    + assert ((x <? y)%Z = false) as -> by (apply Z.ltb_ge; apply Z.compare_gt_iff in C; lia). reflexivity.
    + assert ((x <? y)%Z = false) as -> by (apply Z.ltb_ge; apply Z.compare_gt_iff in C; lia). reflexivity.
    + rewrite C. reflexivity.
    + rewrite C. reflexivity.
    + destruct x, y; cbn in *; try discriminate; reflexivity.
    + destruct x, y; cbn in *; try discriminate; reflexivity.
Qed.

(* pure insertion into the reversed sorted prefix *)
Fixpoint ins (keys : sortkeys) (x : row) (srev : list row) : list row :=
  match srev with
  | [] => [x]
  | y :: rest => if ltb keys x y then y :: ins keys x rest else x :: y :: rest
  end.

Definition good (keys : sortkeys) (l : list row) : Prop :=
  forall a b, In a l -> In b l -> go_less keys a b = Ok (ltb keys a b).

Lemma sort_insert_pure keys x srev :
  good keys (x :: srev) -> sort_insert keys x srev = Ok (ins keys x srev).
Proof.
  induction srev as [|y rest IH]; intros G; cbn; auto.
  rewrite (G x y) by (cbn; auto). cbn.
  destruct (ltb keys x y); auto.
  rewrite IH; auto. intros a b Ha Hb. apply G; cbn in *; tauto.
Qed.

Lemma ins_perm keys x srev : Permutation (x :: srev) (ins keys x srev).
Proof.
  induction srev as [|y rest IH]; cbn; auto.
  destruct (ltb keys x y); auto. rewrite perm_swap. constructor. exact IH.
Qed.

Definition desc (keys : sortkeys) (l : list row) : Prop := StronglySorted (fun a b => row_le keys b a) l.

Lemma ltb_false_le keys x y : ltb keys x y = false -> row_le keys y x.
Proof. unfold ltb, row_le. rewrite (key_cmp_antisym keys y x). destruct (key_cmp keys x y); cbn; congruence. Qed.

Lemma ltb_true_le keys x y : ltb keys x y = true -> row_le keys x y.
Proof. unfold ltb, row_le. destruct (key_cmp keys x y); congruence. Qed.

Lemma ins_desc keys x srev : desc keys srev -> desc keys (ins keys x srev).
Proof.
  unfold desc. induction srev as [|y rest IH]; cbn; intros H.
  - constructor; constructor.
  - inversion H as [|? ? Hs Hf]; subst. destruct (ltb keys x y) eqn:E.
    + constructor.
      * apply IH. exact Hs.
      * eapply Permutation_Forall; [apply ins_perm|]. constructor; auto. apply ltb_true_le; auto.
    + constructor.
      * exact H.
      * constructor.
        -- apply ltb_false_le; auto.
        -- eapply Forall_impl; [|exact Hf]. intros c Hc. cbn in Hc.
           apply (row_le_trans keys c y x); auto. apply ltb_false_le; auto.
Qed.

Lemma desc_rev keys l : desc keys l -> SortedBy keys (rev l).
Proof.
  unfold desc, SortedBy. induction l as [|a l IH]; cbn; intros H.
  - constructor.
  - inversion H as [|? ? Hs Hf]; subst. apply ss_app_iff. repeat split; auto.
    + constructor; constructor.
    + intros x y Hx [<-|[]]. rewrite Forall_forall in Hf. apply Hf. apply in_rev. exact Hx.
Qed.

Lemma sort_loop_spec keys : forall todo srev,
  good keys (todo ++ srev) -> desc keys srev ->
  exists s, sort_loop keys todo srev = Ok s /\ Permutation s (todo ++ srev) /\ SortedBy keys s.
Proof.
  induction todo as [|x todo IH]; intros srev G D; cbn.
  - exists (rev srev). repeat split; auto.
    + symmetry. apply Permutation_rev.
    + apply desc_rev. exact D.
  - rewrite sort_insert_pure.
    2:{ intros a b Ha Hb. apply G; cbn in *; rewrite in_app_iff; tauto. }
    cbn. destruct (IH (ins keys x srev)) as [s [E [P S]]].
    + intros a b Ha Hb. apply G; cbn; rewrite in_app_iff in *.
      * destruct Ha as [Ha|Ha]; auto. apply (Permutation_in _ (Permutation_sym (ins_perm keys x srev))) in Ha.
        destruct Ha; auto.
      * destruct Hb as [Hb|Hb]; auto. apply (Permutation_in _ (Permutation_sym (ins_perm keys x srev))) in Hb.
        destruct Hb; auto.
    + apply ins_desc. exact D.
    + exists s. repeat split; auto. rewrite P. rewrite <- ins_perm. symmetry. apply Permutation_middle.
Qed.

Theorem sort_rows_spec keys rows :
  Forall (wide keys) rows -> keys_homog keys rows = true ->
  exists s, sort_rows keys rows = Ok s /\ Permutation s rows /\ SortedBy keys s.
Proof.
  intros W H. unfold sort_rows.
  destruct (sort_loop_spec keys rows []) as [s [E [P S]]].
  - rewrite app_nil_r. intros a b Ha Hb. apply go_less_ltb.
    + rewrite Forall_forall in W. auto.
    + rewrite Forall_forall in W. auto.
    + unfold tags_ok. rewrite Forall_forall. intros k Hk.
      unfold keys_homog in H. rewrite forallb_forall in H. specialize (H k Hk).
      unfold col_homog in H. rewrite forallb_forall in H. specialize (H a Ha).
      rewrite forallb_forall in H. apply H. exact Hb.
  - constructor.
  - exists s. rewrite app_nil_r in P. auto.
Qed.

(* without sort keys the sort is the identity *)
Lemma sort_loop_nil : forall todo srev, sort_loop [] todo srev = Ok (rev srev ++ todo).
Proof.
  induction todo as [|x todo IH]; intros srev; cbn.
  - rewrite app_nil_r. reflexivity.
  - assert (E : sort_insert [] x srev = Ok (x :: srev)) by (destruct srev; reflexivity).
    rewrite E. cbn. rewrite IH. cbn. rewrite <- app_assoc. reflexivity.
Qed.

Lemma sort_rows_nil rows : sort_rows [] rows = Ok rows.
Proof. unfold sort_rows. rewrite sort_loop_nil. reflexivity. Qed.

(* OFFSET / LIMIT *)
Lemma apply_offset_skipn off rows : (0 <= off)%Z -> apply_offset off rows = Ok (skipn (Z.to_nat off) rows).
Proof.
  intros H. unfold apply_offset. destruct (Z.of_nat (List.length rows) <=? off)%Z eqn:E.
  - apply Z.leb_le in E. rewrite skipn_all2 by lia. reflexivity.
  - destruct (off <? 0)%Z eqn:N; auto. apply Z.ltb_lt in N. lia.
Qed.

Lemma apply_limit_firstn lim rows : (0 <= lim)%Z -> apply_limit lim rows = Ok (firstn (Z.to_nat lim) rows).
Proof.
  intros H. unfold apply_limit. destruct (Z.of_nat (List.length rows) <? lim)%Z eqn:E.
  - apply Z.ltb_lt in E. rewrite firstn_all2 by lia. reflexivity.
  - destruct (lim <? 0)%Z eqn:N; auto. apply Z.ltb_lt in N. lia.
Qed.

Lemma select_window_spec q rows :
  window_ok q = true -> select_window q rows = Ok (window (q_offset q) (q_limit q) rows).
Proof.
  unfold window_ok, select_window, window, q_offset, q_limit, opt_nat.
  rewrite andb_true_iff, !orb_true_iff, !negb_true_iff, !Z.leb_le. intros [Ho Hl].
  destruct (sel_offset_active q).
  - destruct Ho as [Ho|Ho]; [discriminate|]. rewrite apply_offset_skipn by auto. cbn.
    destruct (sel_limit_active q); auto.
    destruct Hl as [Hl|Hl]; [discriminate|]. apply apply_limit_firstn; auto.
  - cbn. destruct (sel_limit_active q); auto.
    destruct Hl as [Hl|Hl]; [discriminate|]. apply apply_limit_firstn; auto.
Qed.
