(* C01 / C14 refinement, part 8: what a FAILING statement leaves behind. Under the
   representation relation every failing INSERT / UPDATE / DELETE / CREATE TABLE leaves a store
   that represents a row-operation prefix of the statement (TableSpec.stmt_prefixes), or the
   unchanged database. *)
From Coq Require Import Arith Lia Bool List NArith ZArith String Sorted Permutation.
From Mkdb Require Import Model.Engine Spec.TableSpec Spec.HistObs Proofs.TreeProofs Proofs.StoreInv
  Proofs.BytesProofs Proofs.TupleProofs Proofs.RefineForest Proofs.RefineCodec Proofs.RefineRep
  Proofs.RefineCat Proofs.RefineDML Proofs.RefineDDL Proofs.Atomic Proofs.RefineMain Gen.Params.
Import ListNotations.
Local Open Scope N_scope.
Local Open Scope string_scope.
Local Open Scope list_scope.

Lemma In_firstn_In {A} j : forall (l : list A) x, In x (firstn j l) -> In x l.
Proof.
  induction j as [|j IH]; intros [|a l] x H; cbn [firstn] in H; try contradiction.
  destruct H as [->|H]; [left; reflexivity | right; apply IH; exact H].
Qed.

(* ====================== updatePageTable cannot fail on a represented catalog ====================== *)
Lemma update_page_table_ok s pt ents n o newroot :
  SInv s -> find_root (ptRoot s) (forest s) = Some pt -> PtCells (all_cells pt) ents -> Forall pt_fits ents ->
  NoDup (map fst ents) -> In (n, o) ents ->
  exists s2 ws, update_page_table s newroot n = (s2, Ok ws).
Proof.
  intros Hinv Hpt Hcells Hfit Hnd Hin.
  pose proof (find_root_WFT s _ pt Hinv Hpt) as Hw.
  unfold update_page_table, get_tree. rewrite Hpt. cbn [bind].
  rewrite (scan_right_leaves_okP _ _ Hw). cbn [of_tres bind].
  rewrite pt_find_row_flat.
  assert (HF : Forall2 (fun pc e => live_val (snd pc) (enc_pte e)) (leaf_pairs (leaves pt)) ents).
  { apply (proj2 (Forall2_map_l (fun c e => live_val c (enc_pte e)) snd _ _)). rewrite leaf_pairs_cells. exact Hcells. }
  destruct (pt_find_flat_ents n _ ents o HF Hfit Hnd Hin)
    as (pa & pg & c & pb & ea & eb & E1 & E2 & F1 & F2 & [Lv Lval] & Na & Nb & Hres).
  rewrite Hres. rewrite pt_tuple_set. cbn [fst]. rewrite encode_pt_tuple.
  rewrite Forall_forall in Hfit. destruct (Hfit _ Hin) as [_ Hlen].
  rewrite (enc_pte_length n newroot o).
  destruct (Nat.ltb_spec MV (List.length (enc_pte (n, o)))); [lia|]. eauto.
Qed.

(* ====================== INSERT ====================== *)
Section InsertFail.
Variables (n : string) (cols : list string).

Lemma st_insert0_err_rep s d vals s' e :
  Rep s d -> st_insert0 s n cols vals = (s', Err e) -> Rep s' d.
Proof.
  intros HR Hst. pose proof HR as [Hinv Hok (pt & sc & ents & osc & HC)].
  pose proof (st_insert0_inv s n cols vals Hinv) as Hinv'. rewrite Hst in Hinv'. cbn [fst] in Hinv'.
  unfold st_insert0 in Hst. rewrite is_sys_table_is_sys in Hst.
  destruct (is_sys n) eqn:Hsys; [inversion Hst; subst; exact HR|].
  destruct (find_tbl n d) as [t|] eqn:Hf.
  2:{ rewrite (cat_rel_offset_none s d pt sc ents osc Hinv HC n Hsys Hf) in Hst. cbn [bind] in Hst. inversion Hst; subst. exact HR. }
  destruct (find_tbl_In _ _ _ Hf) as [Hin Hn]. subst n.
  destruct (c_tabs _ _ _ _ _ _ HC t Hin) as (o & tr & He & Hr & Ht).
  rewrite (cat_rel_offset_in s d pt sc ents osc Hinv Hok HC _ _ He) in Hst. cbn [bind] in Hst.
  unfold get_tree at 1 in Hst. rewrite Hr in Hst. cbn [bind] in Hst.
  destruct (bind (rel_schema s (tb_name t)) _) as [[off bs]|e0|] eqn:Epre; try (inversion Hst; subst; exact HR).
  assert (off = o).
  { destruct (rel_schema s (tb_name t)) as [sch|?|]; cbn [bind] in Epre; try discriminate.
    destruct (negb _); [discriminate|]. destruct (encode_tuple _ _); cbn [bind] in Epre; inversion Epre; reflexivity. }
  subst off.
  destruct (bt_insert s o bs) as [s1 [[[k lsn] nr]|e1|]] eqn:Ebt; try (inversion Hst; fail).
  - exfalso.
    destruct (bt_insert_spec s o bs tr Hinv Hr s1 k lsn nr Ebt)
      as (t' & Hinv1 & -> & -> & -> & Hlk & Hptr & Hnf & Hlsn & Hlen & Hroot & Hcells & Hfind & Hframe).
    destruct (N.eqb_spec (t_off t') o) as [Esame|Emoved]; [inversion Hst|].
    destruct Hroot as [Hroot|Hroot]; [contradiction|].
    assert (Hns : tb_name t <> "sys_pages") by (apply is_sys_false in Hsys; tauto).
    pose proof (cat_offset_not_ptroot s d pt sc ents osc HC _ _ He Hns) as Hop.
    pose proof (find_root_bound s _ pt Hinv (c_pt _ _ _ _ _ _ HC)) as Hptb.
    assert (Hpt1 : find_root (ptRoot s1) (forest s1) = Some pt).
    { rewrite Hptr, Hframe by (try congruence; lia). apply (c_pt _ _ _ _ _ _ HC). }
    destruct (update_page_table_ok s1 pt ents (tb_name t) o (t_off t') Hinv1 Hpt1
                (c_ptcells _ _ _ _ _ _ HC) (c_ptfits _ _ _ _ _ _ HC)
                (cat_names_NoDup d ents Hok (c_names _ _ _ _ _ _ HC)) He) as (s2 & ws & Eup).
    rewrite Eup in Hst. inversion Hst.
  - inversion Hst; subst s1 e1. destruct (bt_insert_err s o bs s' e Ebt) as (A & B & _).
    eapply Rep_same_pages; eauto.
Qed.

Lemma st_insert_err_rep s d vals s' e :
  Rep s d -> st_insert s n cols vals = (s', Err e) -> Rep s' d.
Proof.
  intros HR Hst. unfold st_insert in Hst. destruct (ins_bad_cols s n cols vals); [inversion Hst; subst; exact HR|].
  eapply st_insert0_err_rep; eauto.
Qed.

Lemma insert_rows_err_rep rows : forall s d t b k s' b' e,
  Rep s d -> is_sys n = false -> find_tbl n d = Some t -> Forall (Forall val_okP) rows ->
  nextFree s' <= OFFMAX ->
  insert_rows s n cols rows b k = (s', b', OErr e) ->
  exists i new, (i < List.length rows)%nat /\ insert_all (tb_schema t) cols (firstn i rows) = Ok new /\
                Rep s' (set_rows n (tb_rows t ++ new) d).
Proof.
  induction rows as [|vals rest IH]; intros s d t b k s' b' e HR Hsys Hf Hvals Hmax Hrun.
  - cbn in Hrun. inversion Hrun.
  - cbn [insert_rows] in Hrun. inversion Hvals as [|? ? Hv Hvr]; subst.
    destruct (st_insert s n cols vals) as [s1 [ws|e1|]] eqn:Est; try (inversion Hrun; fail).
    + assert (Hmax1 : nextFree s1 <= OFFMAX).
      { pose proof (insert_rows_free_mono rest s1 n cols (b ++ ws) (S k)) as X. rewrite Hrun in X. cbn [fst] in X. lia. }
      destruct (st_insert_rep n cols s d t vals s1 ws HR Hsys Hf Hv Hmax1 Est) as (Hlen & Hce & Hchk & HR1).
      match type of HR1 with Rep _ (set_rows _ ?rows _) => pose proof (find_tbl_set_rows n rows d t Hf) as Hf1 end.
      destruct (IH s1 _ _ (b ++ ws) (S k) s' b' e HR1 Hsys Hf1 Hvr Hmax Hrun) as (i & new & Hi & Hnew & HR').
      cbn [tb_schema tb_rows] in Hnew, HR'. rewrite set_rows_set_rows, <- app_assoc in HR'. cbn [app] in HR'.
      exists (S i). eexists. split; [cbn [List.length]; lia|]. split; [|exact HR'].
      cbn [firstn insert_all]. rewrite Hlen. cbn [negb]. rewrite Hce, Hchk, Hnew. reflexivity.
    + inversion Hrun; subst s1 b' e1. exists O, []. split; [cbn; lia|]. split; [reflexivity|].
      rewrite app_nil_r, (set_rows_self n d t Hf). eapply st_insert_err_rep; eauto.
Qed.

End InsertFail.

(* ====================== UPDATE / DELETE ====================== *)
Lemma upd_ids_nil F (L : list (N * row)) : upd_ids [] F L = L.
Proof. unfold upd_ids. cbn [existsb]. apply map_id. Qed.

Lemma del_ids_nil (L : list (N * row)) : del_ids [] L = L.
Proof. unfold del_ids. cbn [existsb negb]. apply filter_true. Qed.

Lemma fetch_rows_rows s d n t : Rep s d -> is_sys n = false -> find_tbl n d = Some t ->
  map snd (fetch_rows s n) = tb_rows t /\ NoDup (map fst (fetch_rows s n)).
Proof.
  intros HR Hsys Hf. destruct (st_fetch_user s d n t HR Hsys Hf) as (o & tr & Eo & Hr & _).
  destruct (fetch_rows_ids s d n t o tr HR Hsys Hf Eo Hr) as (_ & A & B). auto.
Qed.

Section InPlaceFail.
Variables (n : string) (cols : list string) (vals : list value).

Lemma update_rows_err_rep ids : forall s d t b s' b' e,
  Rep s d -> is_sys n = false -> find_tbl n d = Some t -> Forall val_okP vals ->
  (forall k, In k ids -> In k (map fst (fetch_rows s n))) -> NoDup ids ->
  update_rows s n cols vals ids b = (s', b', OErr e) ->
  exists j, (j < List.length ids)%nat /\
    Rep s' (set_rows n (map snd (upd_ids (firstn j ids) (build_row (tb_schema t) cols vals) (fetch_rows s n))) d).
Proof.
  induction ids as [|k rest IH]; intros s d t b s' b' e HR Hsys Hf Hvals Hks Hnd Hrun.
  - cbn in Hrun. inversion Hrun.
  - cbn [update_rows] in Hrun. inversion Hnd as [|? ? Hnk Hnd']; subst.
    destruct (st_update s n k cols vals) as [s1 [ws|e1|]] eqn:Est; try (inversion Hrun; fail).
    + destruct (st_update_rep n cols vals s d t k s1 ws HR Hsys Hf Hvals (Hks k (or_introl eq_refl)) Est) as (HR1 & Hfr1 & Hnf1 & Hchk1).
      match type of HR1 with Rep _ (set_rows _ ?rows _) => pose proof (find_tbl_set_rows n rows d t Hf) as Hf1 end.
      destruct (IH s1 _ _ (b ++ ws) s' b' e HR1 Hsys Hf1 Hvals) as (j & Hj & HR'); auto.
      { intros k' Hk'. rewrite Hfr1, map_map.
        replace (map (fun x => fst (if N.eqb (fst x) k then (fst x, build_row (tb_schema t) cols vals (snd x)) else x)) (fetch_rows s n))
          with (map fst (fetch_rows s n)); [apply Hks; right; exact Hk'|].
        apply map_ext. intros kr. destruct (N.eqb (fst kr) k); reflexivity. }
      cbn [tb_schema] in HR'. exists (S j). split; [cbn [List.length]; lia|].
      rewrite set_rows_set_rows, Hfr1 in HR'. cbn [firstn].
      rewrite (upd_ids_cons k (firstn j rest) _ _) in HR'; [exact HR'|].
      intros X. apply Hnk. eapply (In_firstn_In j). exact X.
    + inversion Hrun; subst s1 b' e1. exists O. split; [cbn; lia|].
      cbn [firstn]. rewrite upd_ids_nil.
      destruct (fetch_rows_rows s d n t HR Hsys Hf) as [-> _]. rewrite (set_rows_self n d t Hf).
      pose proof (st_update_err s n k cols vals e) as X. rewrite Est in X. cbn [fst snd] in X. rewrite (X eq_refl). exact HR.
Qed.

Lemma delete_rows_err_rep ids : forall s d t b c0 s' b' e,
  Rep s d -> is_sys n = false -> find_tbl n d = Some t ->
  (forall k, In k ids -> In k (map fst (fetch_rows s n))) -> NoDup ids ->
  delete_rows s n ids b c0 = (s', b', OErr e) ->
  exists j, (j < List.length ids)%nat /\
    Rep s' (set_rows n (map snd (del_ids (firstn j ids) (fetch_rows s n))) d).
Proof.
  induction ids as [|k rest IH]; intros s d t b c0 s' b' e HR Hsys Hf Hks Hnd Hrun.
  - cbn in Hrun. inversion Hrun.
  - cbn [delete_rows] in Hrun. inversion Hnd as [|? ? Hnk Hnd']; subst.
    destruct (st_delete s n k) as [s1 [ws|e1|]] eqn:Est; try (inversion Hrun; fail).
    + destruct (st_delete_rep n s d t k s1 ws HR Hsys Hf (Hks k (or_introl eq_refl)) Est) as (HR1 & Hfr1 & Hnf1).
      match type of HR1 with Rep _ (set_rows _ ?rows _) => pose proof (find_tbl_set_rows n rows d t Hf) as Hf1 end.
      destruct (IH s1 _ _ (b ++ ws) (S c0) s' b' e HR1 Hsys Hf1) as (j & Hj & HR'); auto.
      { intros k' Hk'. rewrite Hfr1. apply in_map_iff.
        destruct (proj1 (in_map_iff _ _ _) (Hks k' (or_intror Hk'))) as (kr & E & Hkr).
        exists kr. split; [exact E|]. apply filter_In. split; [exact Hkr|].
        apply negb_true_iff. apply N.eqb_neq. rewrite E. intros ->. contradiction. }
      exists (S j). split; [cbn [List.length]; lia|].
      rewrite set_rows_set_rows, Hfr1 in HR'. cbn [firstn]. rewrite del_ids_cons in HR'. exact HR'.
    + inversion Hrun; subst s1 b' e1. exists O. split; [cbn; lia|].
      cbn [firstn]. rewrite del_ids_nil.
      destruct (fetch_rows_rows s d n t HR Hsys Hf) as [-> _]. rewrite (set_rows_self n d t Hf).
      pose proof (st_delete_err s n k e) as X. rewrite Est in X. cbn [fst snd] in X. rewrite (X eq_refl). exact HR.
Qed.

End InPlaceFail.

(* ---------- the specification's prefixes as maps over (id, row) ---------- *)
Lemma upd_ids_head_notin k X F (L : list (N * row)) :
  ~ In k (map fst L) -> upd_ids (k :: X) F L = upd_ids X F L.
Proof.
  intros Hn. unfold upd_ids. apply map_ext_in. intros kr Hkr. cbn [existsb].
  destruct (N.eqb_spec (fst kr) k) as [E|E]; [|reflexivity].
  exfalso. apply Hn. rewrite <- E. apply in_map. exact Hkr.
Qed.

Lemma del_ids_head_notin k X (L : list (N * row)) :
  ~ In k (map fst L) -> del_ids (k :: X) L = del_ids X L.
Proof.
  intros Hn. unfold del_ids. apply filter_ext_in. intros kr Hkr. cbn [existsb].
  destruct (N.eqb_spec (fst kr) k) as [E|E]; [|reflexivity].
  exfalso. apply Hn. rewrite <- E. apply in_map. exact Hkr.
Qed.

Lemma existsb_firstn_false (k : N) j (ids : list N) : ~ In k ids -> existsb (N.eqb k) (firstn j ids) = false.
Proof.
  intros Hn. destruct (existsb _ _) eqn:E; [|reflexivity]. exfalso.
  apply existsb_exists in E as (x & Hx & Ex). apply N.eqb_eq in Ex. subst x. apply Hn. eapply In_firstn_In. exact Hx.
Qed.

Lemma upd_ids_cons_row ids F k r (L : list (N * row)) :
  upd_ids ids F ((k, r) :: L) = (if existsb (N.eqb k) ids then (k, F r) else (k, r)) :: upd_ids ids F L.
Proof. reflexivity. Qed.

Lemma del_ids_cons_row ids k r (L : list (N * row)) :
  del_ids ids ((k, r) :: L) = if existsb (N.eqb k) ids then del_ids ids L else (k, r) :: del_ids ids L.
Proof. unfold del_ids. cbn [filter fst]. destruct (existsb (N.eqb k) ids); reflexivity. Qed.

Lemma update_first_ids w sch cols vals : forall idrows j,
  evaluable w (fields_of sch) idrows -> NoDup (map fst idrows) ->
  update_first j w sch cols vals (map snd idrows) =
  Ok (map snd (upd_ids (firstn j (map fst (filter (sel_pred w (fields_of sch)) idrows)))
                       (build_row sch cols vals) idrows)).
Proof.
  induction idrows as [|[k r] idrows IH]; intros j Hev Hnd; [reflexivity|].
  cbn [map snd fst] in *. inversion Hnd as [|? ? Hnk Hnd']; subst. cbn [update_first].
  assert (Hev' : evaluable w (fields_of sch) idrows).
  { intros e E. specialize (Hev e E). inversion Hev; subst. assumption. }
  rewrite (matches_sel w sch k r).
  2:{ intros e E. specialize (Hev e E). inversion Hev; subst. assumption. }
  cbn [bind filter]. destruct (sel_pred w (fields_of sch) (k, r)) eqn:Ep.
  - cbn [map fst]. destruct j as [|j'].
    + cbn [firstn]. rewrite upd_ids_nil. reflexivity.
    + cbn [firstn]. rewrite (IH j' Hev' Hnd'). cbn [bind].
      rewrite upd_ids_cons_row. cbn [existsb]. rewrite N.eqb_refl. cbn [orb map snd].
      rewrite (upd_ids_head_notin k _ _ idrows Hnk). reflexivity.
  - rewrite (IH j Hev' Hnd'). cbn [bind].
    rewrite upd_ids_cons_row.
    rewrite existsb_firstn_false; [reflexivity|].
    intros X. apply Hnk. apply in_map_iff in X as (kr & E & Hkr). apply filter_In in Hkr as [Hkr _].
    rewrite <- E. apply in_map. exact Hkr.
Qed.

Lemma delete_first_ids w sch : forall idrows j,
  evaluable w (fields_of sch) idrows -> NoDup (map fst idrows) ->
  delete_first j w sch (map snd idrows) =
  Ok (map snd (del_ids (firstn j (map fst (filter (sel_pred w (fields_of sch)) idrows))) idrows)).
Proof.
  induction idrows as [|[k r] idrows IH]; intros j Hev Hnd; [reflexivity|].
  cbn [map snd fst] in *. inversion Hnd as [|? ? Hnk Hnd']; subst. cbn [delete_first].
  assert (Hev' : evaluable w (fields_of sch) idrows).
  { intros e E. specialize (Hev e E). inversion Hev; subst. assumption. }
  rewrite (matches_sel w sch k r).
  2:{ intros e E. specialize (Hev e E). inversion Hev; subst. assumption. }
  cbn [bind filter]. destruct (sel_pred w (fields_of sch) (k, r)) eqn:Ep.
  - cbn [map fst]. destruct j as [|j'].
    + cbn [firstn]. rewrite del_ids_nil. reflexivity.
    + cbn [firstn]. rewrite (IH j' Hev' Hnd').
      rewrite del_ids_cons_row. cbn [existsb]. rewrite N.eqb_refl. cbn [orb].
      rewrite (del_ids_head_notin k _ idrows Hnk). reflexivity.
  - rewrite (IH j Hev' Hnd'). cbn [bind].
    rewrite del_ids_cons_row.
    rewrite existsb_firstn_false; [reflexivity|].
    intros X. apply Hnk. apply in_map_iff in X as (kr & E & Hkr). apply filter_In in Hkr as [Hkr _].
    rewrite <- E. apply in_map. exact Hkr.
Qed.

(* ====================== CREATE TABLE ====================== *)
Definition schema_row_step (s : store) (root : N) (tname : string) (fd : fielddef) : store * res N :=
  match encode_tuple schemaTableSchema (sc_tuple (tname, fd)) with
  | Ok bs =>
      match bt_insert s root bs with
      | (s1, Ok (_, _, newroot)) =>
          if N.eqb newroot root then (s1, Ok root)
          else match update_page_table s1 newroot schemaTableName with
               | (s2, Ok _) => (s2, Ok newroot)
               | (s2, Err e) => (s2, Err e)
               | (s2, Panic) => (s2, Panic)
               end
      | (s1, Err e) => (s1, Err e)
      | (s1, Panic) => (s1, Panic)
      end
  | Err e => (s, Err e)
  | Panic => (s, Panic)
  end.

Lemma insert_schema_rows_unfold s root tname fd r :
  insert_schema_rows s root tname (fd :: r) =
  match schema_row_step s root tname fd with
  | (s', Ok root') => insert_schema_rows s' root' tname r
  | (s', Err e) => (s', Err e)
  | (s', Panic) => (s', Panic)
  end.
Proof.
  cbn [insert_schema_rows]. unfold schema_row_step.
  change [("table_name", VStr tname); ("field_name", VStr (fd_name fd));
          ("field_type", VInt (code_of_coltype (fd_type fd))); ("field_length", VInt (fd_len fd))]
    with (sc_tuple (tname, fd)).
  destruct (encode_tuple schemaTableSchema (sc_tuple (tname, fd))) as [bs|e|]; try reflexivity.
  destruct (bt_insert s root bs) as [s1 [[[k l] nr]|e|]]; try reflexivity.
  destruct (N.eqb nr root); [reflexivity|].
  destruct (update_page_table s1 nr schemaTableName) as [s2 [ws|e|]]; reflexivity.
Qed.

Lemma schema_row_step_free_mono s root n fd : nextFree s <= nextFree (fst (schema_row_step s root n fd)).
Proof.
  unfold schema_row_step. destruct (encode_tuple _ _) as [bs|e|]; cbn [fst]; try lia.
  pose proof (bt_insert_free_mono s root bs) as M1.
  destruct (bt_insert s root bs) as [s2 [[[k l] nr]|e|]]; cbn [fst] in *; try exact M1.
  destruct (N.eqb nr root); cbn [fst]; [exact M1|].
  pose proof (update_page_table_free s2 nr schemaTableName) as M2.
  destruct (update_page_table s2 nr schemaTableName) as [s3 [ws|e|]]; cbn [fst] in *; lia.
Qed.

Lemma schema_row_step_rep n fd s d0 sch root :
  Rep s (d0 ++ [mkTbl n sch []]) -> rel_offset s "sys_schema" = Ok root -> NoDup (names (sch ++ [fd])) ->
  match schema_row_step s root n fd with
  | (s', Ok root') => nextFree s' <= OFFMAX ->
                      Rep s' (d0 ++ [mkTbl n (sch ++ [fd]) []]) /\ rel_offset s' "sys_schema" = Ok root'
  | (s', Err e) => Rep s' (d0 ++ [mkTbl n sch []])
  | (s', Panic) => True
  end.
Proof.
  intros HR Hroot Hnd1. unfold schema_row_step.
  destruct (encode_tuple schemaTableSchema (sc_tuple (n, fd))) as [bs|e|] eqn:Eenc; [|exact HR|exact I].
  destruct (encode_sc_tuple (n, fd) bs Eenc) as [-> Hi32]. cbn [snd] in Hi32.
  pose proof HR as [Hinv Hok (pt & sc & ents & osc & HC)].
  assert (osc = root).
  { pose proof (cat_rel_offset_in s _ pt sc ents osc Hinv Hok HC _ _ (c_osc _ _ _ _ _ _ HC)) as X. congruence. }
  subst osc.
  destruct (bt_insert s root (enc_sce (n, fd))) as [s1 [[[k lsn] nr]|e|]] eqn:Ebt; [| |exact I].
  2:{ destruct (bt_insert_err s root _ s1 e Ebt) as (A & B & _).
      pose proof (bt_insert_inv s root (enc_sce (n, fd)) Hinv) as X. rewrite Ebt in X. cbn [fst] in X.
      eapply Rep_same_pages; eauto. }
  destruct (bt_insert_spec s root _ sc Hinv (c_sc _ _ _ _ _ _ HC) s1 k lsn nr Ebt)
    as (sc' & Hinv1 & -> & -> & -> & Hlk & Hptr & Hnf & Hlsn & Hlen & Hrt & Hcells & Hfind & Hframe).
  assert (Hfit : sc_fits (n, fd)) by (apply sc_fits_intro; assumption).
  assert (Hok1 : DbOk (d0 ++ [mkTbl n (sch ++ [fd]) []])) by (eapply DbOk_last; eauto).
  assert (Hrs : root <> ptRoot s).
  { eapply (cat_offset_not_ptroot s _ pt sc ents root HC); [apply (c_osc _ _ _ _ _ _ HC) | discriminate]. }
  pose proof (find_root_bound s _ pt Hinv (c_pt _ _ _ _ _ _ HC)) as Hptb.
  pose proof (cat_names_NoDup _ ents Hok (c_names _ _ _ _ _ _ HC)) as Hndn.
  destruct (N.eqb_spec (t_off sc') root) as [Esame|Emoved].
  - intros Hmax1. split.
    + constructor; [exact Hinv1 | exact Hok1|]. exists pt, sc', ents, root.
      rewrite <- (map_upd_same "sys_schema" root ents Hndn (c_osc _ _ _ _ _ _ HC)).
      eapply (Cat_schema_step s s1 d0 n sch fd pt pt sc sc' ents root root); eauto.
      * pose proof (find_root_bound s1 _ sc' Hinv1 Hfind). unfold OFFMAX in *. lia.
      * rewrite Hframe by congruence. apply (c_pt _ _ _ _ _ _ HC).
      * rewrite (map_upd_same "sys_schema" root ents Hndn (c_osc _ _ _ _ _ _ HC)). apply (c_ptcells _ _ _ _ _ _ HC).
      * rewrite <- Esame. exact Hfind.
      * intros x X1 _ _. apply Hframe; congruence.
    + assert (Hpt1 : find_root (ptRoot s1) (forest s1) = Some pt).
      { rewrite Hptr, Hframe by congruence. apply (c_pt _ _ _ _ _ _ HC). }
      rewrite (rel_offset_cat s1 pt ents "sys_schema" Hinv1 Hpt1 (c_ptcells _ _ _ _ _ _ HC) (c_ptfits _ _ _ _ _ _ HC)).
      rewrite (find_assoc_unique _ root ents Hndn (c_osc _ _ _ _ _ _ HC)). reflexivity.
  - destruct Hrt as [Hrt|Hrt]; [contradiction|].
    assert (Hpt1 : find_root (ptRoot s1) (forest s1) = Some pt).
    { rewrite Hptr, Hframe by (try congruence; lia). apply (c_pt _ _ _ _ _ _ HC). }
    destruct (update_page_table_ok s1 pt ents "sys_schema" root (t_off sc') Hinv1 Hpt1
                (c_ptcells _ _ _ _ _ _ HC) (c_ptfits _ _ _ _ _ _ HC) Hndn (c_osc _ _ _ _ _ _ HC)) as (s2 & ws2 & Eup).
    unfold schemaTableName. rewrite Eup.
    destruct (update_page_table_spec s1 pt ents "sys_schema" root (t_off sc') Hinv1 Hpt1
                (c_ptcells _ _ _ _ _ _ HC) (c_ptfits _ _ _ _ _ _ HC) Hndn (c_osc _ _ _ _ _ _ HC) s2 ws2 Eup)
      as (pt' & Hinv2 & Hptr2 & Hnf2 & Hlk2 & Hpt2 & Hframe2 & Hcells2).
    intros Hmax2.
    assert (HC2 : Cat s2 (d0 ++ [mkTbl n (sch ++ [fd]) []]) pt' sc' (map (upd "sys_schema" (t_off sc')) ents) (t_off sc')).
    { eapply (Cat_schema_step s s2 d0 n sch fd pt pt' sc sc' ents root (t_off sc')); eauto.
      - congruence.
      - pose proof (find_root_bound s1 _ sc' Hinv1 Hfind). unfold OFFMAX in *. lia.
      - rewrite <- Hptr. exact Hpt2.
      - rewrite Hframe2 by (rewrite Hptr; lia). exact Hfind.
      - intros x X1 X2 X3. rewrite Hframe2 by congruence. apply Hframe; assumption. }
    split; [constructor; eauto|].
    apply (cat_rel_offset_in s2 _ pt' sc' _ (t_off sc') Hinv2 Hok1 HC2). apply (c_osc _ _ _ _ _ _ HC2).
Qed.

Lemma names_prefix (sch : schema) fd fds : NoDup (names (sch ++ fd :: fds)) ->
  NoDup (names (sch ++ [fd])) /\ NoDup (names ((sch ++ [fd]) ++ fds)).
Proof.
  intros Hnd. split; [|rewrite <- app_assoc; exact Hnd].
  unfold names in *. rewrite map_app in *. cbn [map] in *.
  change (map fd_name sch ++ fd_name fd :: map fd_name fds) with (map fd_name sch ++ [fd_name fd] ++ map fd_name fds) in Hnd.
  rewrite app_assoc in Hnd. apply NoDup_app_l in Hnd. exact Hnd.
Qed.

Lemma insert_schema_rows_err_rep n fds : forall s d0 sch root s' e,
  Rep s (d0 ++ [mkTbl n sch []]) -> rel_offset s "sys_schema" = Ok root ->
  NoDup (names (sch ++ fds)) -> nextFree s' <= OFFMAX ->
  insert_schema_rows s root n fds = (s', Err e) ->
  exists i, (i < List.length fds)%nat /\ Rep s' (d0 ++ [mkTbl n (sch ++ firstn i fds) []]).
Proof.
  induction fds as [|fd fds IH]; intros s d0 sch root s' e HR Hroot Hnd Hmax Hrun.
  - cbn in Hrun. inversion Hrun.
  - rewrite insert_schema_rows_unfold in Hrun. destruct (names_prefix sch fd fds Hnd) as [Hnd1 Hnd2].
    pose proof (schema_row_step_rep n fd s d0 sch root HR Hroot Hnd1) as Hstep.
    pose proof (schema_row_step_free_mono s root n fd) as Hm1.
    destruct (schema_row_step s root n fd) as [s1 [root1|e1|]]; cbn [fst] in Hm1; try (inversion Hrun; fail).
    + assert (Hmax1 : nextFree s1 <= OFFMAX).
      { pose proof (insert_schema_rows_free_mono n fds s1 root1) as X. rewrite Hrun in X. cbn [fst] in X. lia. }
      destruct (Hstep Hmax1) as [HR1 Hroot1].
      destruct (IH s1 d0 (sch ++ [fd]) root1 s' e HR1 Hroot1 Hnd2 Hmax Hrun) as (i & Hi & HR').
      exists (S i). split; [cbn [List.length]; lia|]. cbn [firstn]. rewrite <- app_assoc in HR'. exact HR'.
    + inversion Hrun; subst. exists O. split; [cbn; lia|]. cbn [firstn]. rewrite app_nil_r. exact Hstep.
Qed.

Lemma st_create_table0_err_rep s d n fds s' e :
  Rep s d -> NoDup (names fds) -> nextFree s' <= OFFMAX ->
  st_create_table0 s n fds = (s', Err e) ->
  Rep s' d \/ (find_tbl n d = None /\ exists i, (i < List.length fds)%nat /\ Rep s' (d ++ [mkTbl n (firstn i fds) []])).
Proof.
  intros HR Hnd Hmax Hrun. pose proof HR as [Hinv Hok (pt & sc & ents & osc & HC)].
  unfold st_create_table0 in Hrun.
  destruct (is_sys n) eqn:Hsys.
  { left. destruct (rel_offset_sys s d n HR Hsys) as [o Eo]. rewrite Eo in Hrun. inversion Hrun; subst. exact HR. }
  destruct (find_tbl n d) as [t|] eqn:Hf.
  { left. destruct (find_tbl_In _ _ _ Hf) as [Hin Hn].
    destruct (c_tabs _ _ _ _ _ _ HC t Hin) as (o & tr & He & _). rewrite Hn in He.
    rewrite (cat_rel_offset_in s d pt sc ents osc Hinv Hok HC _ _ He) in Hrun. inversion Hrun; subst. exact HR. }
  rewrite (cat_rel_offset_none s d pt sc ents osc Hinv HC n Hsys Hf) in Hrun.
  pose proof (create_register_rep s d n) as Hreg. pose proof (create_register_err_rep s d n) as Hregerr.
  destruct (create_page s) as [s1 pg] eqn:Ecp.
  assert (pg = nextFree s) by (unfold create_page in Ecp; inversion Ecp; reflexivity). subst pg. cbn [fst] in Hreg, Hregerr.
  destruct (insert_page_table s1 (nextFree s) n) as [s2 [[]|e1|]] eqn:Eip; try (inversion Hrun; fail).
  2:{ left. inversion Hrun; subst. eapply Hregerr; eauto. }
  right. split; [reflexivity|].
  unfold insert_schema_table in Hrun.
  assert (Hmax2 : nextFree s2 <= OFFMAX).
  { destruct (rel_offset s2 schemaTableName) as [off|e0|]; cbn [bind] in Hrun; try (inversion Hrun; subst; lia).
    destruct (get_tree s2 off) as [x|e0|]; cbn [bind] in Hrun; try (inversion Hrun; subst; lia).
    pose proof (insert_schema_rows_free_mono n fds s2 off) as X. rewrite Hrun in X. cbn [fst] in X. lia. }
  pose proof (Hreg s2 HR Hsys Hf Hmax2 eq_refl) as HR2.
  pose proof HR2 as [Hinv2 Hok2 (pt2 & sc2 & ents2 & osc2 & HC2)].
  pose proof (cat_rel_offset_in s2 _ pt2 sc2 _ osc2 Hinv2 Hok2 HC2 _ _ (c_osc _ _ _ _ _ _ HC2)) as Eosc.
  unfold schemaTableName in Hrun. rewrite Eosc in Hrun. cbn [bind] in Hrun.
  unfold get_tree in Hrun. rewrite (c_sc _ _ _ _ _ _ HC2) in Hrun. cbn [bind] in Hrun.
  exact (insert_schema_rows_err_rep n fds s2 d [] osc2 s' e HR2 Eosc Hnd Hmax Hrun).
Qed.

Lemma st_create_table_err_rep s d n fds s' e :
  Rep s d -> nextFree s' <= OFFMAX ->
  st_create_table s n fds = (s', Err e) ->
  Rep s' d \/ (names_distinct (names fds) = true /\ find_tbl n d = None /\
               exists i, (i < List.length fds)%nat /\ Rep s' (d ++ [mkTbl n (firstn i fds) []])).
Proof.
  intros HR Hmax Hrun. unfold st_create_table in Hrun. fold (names fds) in Hrun.
  destruct (names_distinct (names fds)) eqn:Hd; [|inversion Hrun; subst; left; exact HR].
  destruct (create_bad_rows s n fds); [inversion Hrun; subst; left; exact HR|].
  destruct (st_create_table0_err_rep s d n fds s' e HR (names_distinct_NoDup _ Hd) Hmax Hrun) as [H|(Hf & H)];
    [left; exact H | right; auto].
Qed.

Lemma names_distinct_firstn i : forall l, names_distinct l = true -> names_distinct (firstn i l) = true.
Proof.
  induction i as [|i IH]; intros l H; [reflexivity|]. destruct l as [|a r]; [reflexivity|].
  cbn [firstn names_distinct] in *. apply andb_true_iff in H as [A B]. apply andb_true_iff. split; [|apply IH; exact B].
  apply negb_true_iff. apply negb_true_iff in A. destruct (existsb (String.eqb a) (firstn i r)) eqn:E; [|reflexivity].
  apply existsb_exists in E as (x & Hin & Hx).
  assert (Hin' : In x r) by (rewrite <- (firstn_skipn i r); apply in_or_app; left; exact Hin).
  clear Hin. rename Hin' into Hin.
  assert (X : existsb (String.eqb a) r = true) by (apply existsb_exists; eauto). congruence.
Qed.

Lemma filter_length_le {A} (p : A -> bool) l : (List.length (filter p l) <= List.length l)%nat.
Proof. induction l as [|a l IH]; cbn [filter List.length]; [lia|]. destruct (p a); cbn [List.length]; lia. Qed.

(* ====================== one failing statement ====================== *)
Lemma run_stmt_err_rep s d st e :
  Rep s d -> stmt_ok st = true -> nextFree (e_store (run_stmt s st)) <= OFFMAX ->
  e_out (run_stmt s st) = OErr e ->
  exists d', (d' = d \/ In d' (stmt_prefixes d st)) /\ Rep (e_store (run_stmt s st)) d'.
Proof.
  intros HR Hst Hmax Hout.
  destruct st as [q|n cds|n| |n|n cols rows|n sets w|n w]; try (cbn [run_stmt e_store]; exists d; split; [left; reflexivity | exact HR]).
  - (* CREATE TABLE *)
    clear Hst. cbn [run_stmt] in *.
    destruct (st_create_table s n (map fielddef_of cds)) as [s1 [[]|e1|]] eqn:Ec; cbn [e_store e_out] in *; try discriminate.
    destruct (st_create_table_err_rep s d n (map fielddef_of cds) s1 e1 HR Hmax Ec)
      as [HR1|(Hnd & Hf & i & Hi & HR1)].
    + exists d. split; [left; reflexivity | exact HR1].
    + eexists. split; [|exact HR1]. right. cbn [stmt_prefixes]. right.
      apply in_flat_map. exists i. rewrite map_length in Hi. split; [apply in_seq; lia|].
      rewrite names_fielddefs in Hnd.
      cbn [spec_exec]. rewrite <- firstn_map, (names_distinct_firstn i _ Hnd). cbn [negb].
      rewrite Hf. cbn [ok_dbs]. left. rewrite <- fielddef_spec, firstn_map. reflexivity.
  - (* INSERT *)
    cbn [stmt_ok] in Hst. rename Hst into Hv.
    assert (Hvals : Forall (Forall val_okP) rows).
    { apply forallb_Forall in Hv. eapply Forall_impl; [|exact Hv]. intros r. apply forallb_Forall. }
    cbn [run_stmt] in *.
    destruct (first_err _ rows) as [u|e0|]; try (cbn [e_store]; exists d; split; [left; reflexivity | exact HR]).
    destruct (insert_rows s n cols rows [] 0) as [[s1 b] o] eqn:Er. cbn [e_store e_out] in *. subst o.
    destruct (is_sys n) eqn:Hsys; [|destruct (find_tbl n d) as [t|] eqn:Hf].
    + destruct rows as [|r rest]; [cbn in Er; inversion Er|].
      cbn [insert_rows] in Er. destruct (st_insert s n cols r) as [s2 [ws|e2|]] eqn:Est.
      * exfalso. unfold st_insert, ins_bad_cols, st_insert0 in Est. rewrite is_sys_table_is_sys, Hsys in Est. inversion Est.
      * inversion Er; subst. exists d. split; [left; reflexivity | eapply st_insert_err_rep; eauto].
      * inversion Er.
    + destruct (insert_rows_err_rep n cols rows s d t [] 0%nat s1 b e HR Hsys Hf Hvals Hmax Er) as (i & new & Hi & Hnew & HR1).
      eexists. split; [|exact HR1]. right. cbn [stmt_prefixes].
      apply in_flat_map. exists i. split; [apply in_seq; lia|].
      cbn [spec_exec]. rewrite Hf, Hnew. left. reflexivity.
    + destruct rows as [|r rest]; [cbn in Er; inversion Er|].
      cbn [insert_rows] in Er. destruct (st_insert s n cols r) as [s2 [ws|e2|]] eqn:Est.
      * exfalso. unfold st_insert, ins_bad_cols, st_insert0 in Est. rewrite is_sys_table_is_sys, Hsys in Est.
        destruct HR as [Hinv Hok (pt & sc & ents & osc & HC)].
        rewrite (cat_rel_offset_none s d pt sc ents osc Hinv HC n Hsys Hf) in Est. cbn [bind] in Est. inversion Est.
      * inversion Er; subst. exists d. split; [left; reflexivity | eapply st_insert_err_rep; eauto].
      * inversion Er.
  - (* UPDATE *)
    cbn [stmt_ok] in Hst. rename Hst into Hv.
    apply forallb_Forall in Hv. fold (set_vals sets) in *.
    cbn [run_stmt] in *. fold (set_vals sets) in *.
    destruct (existsb _ sets) eqn:Ex; [cbn [e_store]; exists d; split; [left; reflexivity | exact HR]|].
    destruct (where_ids s n w) as [ids|e1|] eqn:Ew; cbn [e_out e_store] in *;
      try (exists d; split; [left; reflexivity | exact HR]).
    destruct (first_err _ ids) as [u|e0|]; try (cbn [e_store]; exists d; split; [left; reflexivity | exact HR]).
    destruct (update_rows s n (map fst sets) (set_vals sets) ids []) as [[s1 b] o1] eqn:Eu. cbn [e_store e_out] in *. subst o1.
    destruct (is_sys n) eqn:Hsys.
    { destruct ids as [|k rest]; [cbn in Eu; inversion Eu|].
      cbn [update_rows] in Eu. unfold st_update, upd_bad_cols, st_update0 in Eu. rewrite is_sys_table_is_sys, Hsys in Eu. inversion Eu; subst.
      exists d. split; [left; reflexivity | exact HR]. }
    destruct (find_tbl n d) as [t|] eqn:Hf.
    2:{ exfalso. unfold where_ids in Ew. rewrite (st_fetch_missing s d n HR Hsys Hf) in Ew. discriminate. }
    destruct (where_ids_spec s n w ids Ew) as (idrows & fs & Hfetch & Hids & Hev).
    destruct (st_fetch_user s d n t HR Hsys Hf) as (o & tr & Eo & Hr & Es & Ht & Hfetch').
    rewrite Hfetch' in Hfetch. inversion Hfetch; subst idrows fs. clear Hfetch.
    destruct (fetch_rows_ids s d n t o tr HR Hsys Hf Eo Hr) as (Hidc & Hrows & Hndk).
    assert (Efr : fetch_rows s n = combine (keys_of (scan_tree tr)) (tb_rows t)) by (unfold fetch_rows; rewrite Hfetch'; reflexivity).
    rewrite <- Efr in *.
    destruct (update_rows_err_rep n (map fst sets) (set_vals sets) ids s d t [] s1 b e HR Hsys Hf Hv) as (j & Hj & HR1); auto.
    { intros k Hk. subst ids. apply in_map_iff in Hk as (kr & <- & Hkr). apply filter_In in Hkr as [Hkr _]. apply in_map. exact Hkr. }
    { subst ids. apply NoDup_map_filter. exact Hndk. }
    eexists. split; [|exact HR1]. right. cbn [stmt_prefixes]. rewrite Hf. fold (set_vals sets).
    apply in_flat_map. exists j. split.
    + apply in_seq. subst ids. rewrite map_length in Hj.
      pose proof (filter_length_le (sel_pred w (fields_of (tb_schema t))) (fetch_rows s n)) as X.
      rewrite <- Hrows, map_length. lia.
    + rewrite <- Hrows, (update_first_ids w (tb_schema t) (map fst sets) (set_vals sets) (fetch_rows s n) j Hev Hndk).
      subst ids. left. reflexivity.
  - (* DELETE *)
    cbn [run_stmt] in *.
    destruct (where_ids s n w) as [ids|e1|] eqn:Ew; cbn [e_out e_store] in *;
      try (exists d; split; [left; reflexivity | exact HR]).
    destruct (delete_rows s n ids [] 0) as [[s1 b] o1] eqn:Eu. cbn [e_store e_out] in *. subst o1.
    destruct (is_sys n) eqn:Hsys.
    { destruct ids as [|k rest]; [cbn in Eu; inversion Eu|].
      cbn [delete_rows] in Eu. unfold st_delete in Eu. rewrite is_sys_table_is_sys, Hsys in Eu. inversion Eu; subst.
      exists d. split; [left; reflexivity | exact HR]. }
    destruct (find_tbl n d) as [t|] eqn:Hf.
    2:{ exfalso. unfold where_ids in Ew. rewrite (st_fetch_missing s d n HR Hsys Hf) in Ew. discriminate. }
    destruct (where_ids_spec s n w ids Ew) as (idrows & fs & Hfetch & Hids & Hev).
    destruct (st_fetch_user s d n t HR Hsys Hf) as (o & tr & Eo & Hr & Es & Ht & Hfetch').
    rewrite Hfetch' in Hfetch. inversion Hfetch; subst idrows fs. clear Hfetch.
    destruct (fetch_rows_ids s d n t o tr HR Hsys Hf Eo Hr) as (Hidc & Hrows & Hndk).
    assert (Efr : fetch_rows s n = combine (keys_of (scan_tree tr)) (tb_rows t)) by (unfold fetch_rows; rewrite Hfetch'; reflexivity).
    rewrite <- Efr in *.
    destruct (delete_rows_err_rep n ids s d t [] 0%nat s1 b e HR Hsys Hf) as (j & Hj & HR1); auto.
    { intros k Hk. subst ids. apply in_map_iff in Hk as (kr & <- & Hkr). apply filter_In in Hkr as [Hkr _]. apply in_map. exact Hkr. }
    { subst ids. apply NoDup_map_filter. exact Hndk. }
    eexists. split; [|exact HR1]. right. cbn [stmt_prefixes]. rewrite Hf.
    apply in_flat_map. exists j. split.
    + apply in_seq. subst ids. rewrite map_length in Hj.
      pose proof (filter_length_le (sel_pred w (fields_of (tb_schema t))) (fetch_rows s n)) as X.
      rewrite <- Hrows, map_length. lia.
    + rewrite <- Hrows, (delete_first_ids w (tb_schema t) (fetch_rows s n) j Hev Hndk).
      subst ids. left. reflexivity.
Qed.

(* ====================== histories with arbitrary failing statements ====================== *)
Fixpoint lax_dbs (cands : list db) (evs : list event) (os : list (option outcome)) : list db :=
  match evs, os with
  | EvStmt st :: er, Some (OOk _) :: orr => lax_dbs (map (fun d => spec_step d st) cands) er orr
  | EvStmt st :: er, Some (OErr _) :: orr => lax_dbs (flat_map (fun d => d :: stmt_prefixes d st) cands) er orr
  | _ :: er, _ :: orr => lax_dbs cands er orr
  | _, _ => cands
  end.

Lemma run_events_lax evs : forall y d cands y' os,
  Rep (mem y) d -> In d cands -> stmts_only' evs = true -> forallb ev_ok evs = true ->
  run_events y evs = (SOk y', os) -> nextFree (mem y') <= OFFMAX ->
  exists d', In d' (lax_dbs cands evs os) /\ Rep (mem y') d'.
Proof.
  induction evs as [|ev r IH]; intros y d cands y' os HR Hin Hso Hok Hrun Hmax.
  - cbn in Hrun. inversion Hrun; subst. exists d. cbn. auto.
  - cbn [stmts_only' forallb] in Hso, Hok. apply andb_true_iff in Hso as [Hs1 Hs2]. apply andb_true_iff in Hok as [Hk1 Hk2].
    destruct ev as [st| | | |]; try discriminate. cbn [ev_ok] in Hk1.
    cbn [run_events step] in Hrun. unfold exec in Hrun.
    destruct (run_stmt (mem y) st) as [es eb ef eo] eqn:Ers. cbn [e_store e_batch e_flushed e_out] in *.
    set (y1 := mkSys es (if ef then es else disk y) (if is_ok eo then wal y ++ eb else wal y)) in *.
    destruct eo as [c|e|]; try discriminate;
      destruct (run_events y1 r) as [fin os'] eqn:Er; inversion Hrun; subst fin os; clear Hrun;
      pose proof (run_events_free_mono r y1 y' os' Hs2 Er) as M; unfold y1 in M; cbn [mem] in M.
    + pose proof (run_stmt_rep (mem y) d st c HR Hk1) as X. rewrite Ers in X. cbn [e_store e_out] in X.
      assert (HR1 : Rep (mem y1) (spec_step d st)) by (apply X; [lia | reflexivity]).
      cbn [lax_dbs]. eapply (IH y1 (spec_step d st)); eauto. apply in_map_iff. exists d. auto.
    + pose proof (run_stmt_err_rep (mem y) d st e HR Hk1) as X. rewrite Ers in X. cbn [e_store e_out] in X.
      destruct (X ltac:(lia) eq_refl) as (d1 & Hd1 & HR1).
      cbn [lax_dbs]. eapply (IH y1 d1); eauto. apply in_flat_map. exists d. split; [exact Hin|].
      destruct Hd1 as [->|Hd1]; [left; reflexivity | right; exact Hd1].
Qed.
