(* C01 refinement, part 3: the representation relation between a store (forest + header, catalog
   kept in the sys_pages / sys_schema trees) and a database of the plain specification, and
   what the catalog lookups and SELECT * compute under it. *)
From Coq Require Import Arith Lia Bool List NArith ZArith String Sorted.
From Mkdb Require Import Model.Engine Spec.TableSpec Spec.HistObs Proofs.TreeProofs Proofs.StoreInv
  Proofs.BytesProofs Proofs.TupleProofs Proofs.RefineForest Proofs.RefineCodec Gen.Params.
Import ListNotations.
Local Open Scope N_scope.
Local Open Scope string_scope.
Local Open Scope list_scope.

(* ---------- cells and what they hold ---------- *)
Definition live_val (c : leafcell) (bs : bytes) : Prop := lc_deleted c = false /\ lc_val c = bs.

Definition PtCells (cells : list leafcell) (ents : list (string * N)) : Prop :=
  Forall2 (fun c e => live_val c (enc_pte e)) cells ents.

Definition ScCells (cells : list leafcell) (ents : list (string * fielddef)) : Prop :=
  Forall2 (fun c e => live_val c (enc_sce e)) cells ents.

Definition RowCell (sch : schema) (c : leafcell) (r : row) : Prop :=
  lc_val c = encode_row_direct sch r /\ row_fits sch r = true.

(* the live cells of the table's tree, in scan order, hold the rows of the specification *)
Definition TableRep (sch : schema) (tr : tree) (rows : list row) : Prop :=
  Forall2 (RowCell sch) (scan_tree tr) rows.

Definition sc_entries (d : db) : list (string * fielddef) :=
  flat_map (fun t => map (pair (tb_name t)) (tb_schema t)) d.

Definition sys_db : db :=
  [mkTbl "sys_pages" pageTableSchema []; mkTbl "sys_schema" schemaTableSchema []].

Record DbOk (d : db) : Prop := mkDbOk {
  d_nodup : NoDup (map tb_name d);
  d_nonsys : Forall (fun t => is_sys (tb_name t) = false) d;
  d_sch : Forall (fun t => NoDup (names (tb_schema t))) d
}.

(* the catalog: `ents` = the (table name, root offset) pairs in sys_pages scan order. The first
   one is sys_pages' own row, whose offset is never maintained (the header field
   pageTableRoot is what follows the page-table root). *)
Record Cat (s : store) (d : db) (pt sc : tree) (ents : list (string * N)) (osc : N) : Prop := mkCat {
  c_pt : find_root (ptRoot s) (forest s) = Some pt;
  c_ptcells : PtCells (all_cells pt) ents;
  c_ptfits : Forall pt_fits ents;
  c_names : map fst ents = "sys_pages" :: "sys_schema" :: map tb_name d;
  c_offs : NoDup (ptRoot s :: map snd (tl ents));
  c_osc : In ("sys_schema", osc) ents;
  c_sc : find_root osc (forest s) = Some sc;
  c_sccells : ScCells (all_cells sc) (sc_entries (sys_db ++ d));
  c_scfits : Forall sc_fits (sc_entries (sys_db ++ d));
  c_tabs : forall t, In t d -> exists o tr,
      In (tb_name t, o) ents /\ find_root o (forest s) = Some tr /\ TableRep (tb_schema t) tr (tb_rows t)
}.

Record Rep (s : store) (d : db) : Prop := mkRep {
  r_sinv : SInv s;
  r_dbok : DbOk d;
  r_cat : exists pt sc ents osc, Cat s d pt sc ents osc
}.

(* ---------- small list facts ---------- *)
Lemma live_all cells : Forall (fun c => lc_deleted c = false) cells -> live cells = cells.
Proof.
  induction 1 as [|c r Hc _ IH]; [reflexivity|]. unfold live in *. cbn [filter]. rewrite Hc. cbn [negb]. f_equal. exact IH.
Qed.

Lemma PtCells_live cells ents : PtCells cells ents -> live cells = cells.
Proof. intros H. apply live_all. induction H as [|c e r re [A _] _ IH]; constructor; auto. Qed.

Lemma ScCells_live cells ents : ScCells cells ents -> live cells = cells.
Proof. intros H. apply live_all. induction H as [|c e r re [A _] _ IH]; constructor; auto. Qed.

Lemma find_tbl_In n d t : find_tbl n d = Some t -> In t d /\ tb_name t = n.
Proof.
  induction d as [|a d IH]; cbn [find_tbl]; [discriminate|].
  destruct (String.eqb_spec (tb_name a) n) as [E|E]; intros H.
  - inversion H; subst. split; [left|]; reflexivity.
  - destruct (IH H). split; [right|]; assumption.
Qed.

Lemma find_tbl_None n d : find_tbl n d = None <-> ~ In n (map tb_name d).
Proof.
  induction d as [|a d IH]; cbn [find_tbl map In]; [tauto|].
  destruct (String.eqb_spec (tb_name a) n) as [E|E].
  - split; [discriminate | intros H; exfalso; apply H; auto].
  - rewrite IH. tauto.
Qed.

Lemma find_tbl_unique n d t : NoDup (map tb_name d) -> In t d -> tb_name t = n -> find_tbl n d = Some t.
Proof.
  induction d as [|a d IH]; intros Hnd Hin Hn; [contradiction|].
  cbn [map] in Hnd. inversion Hnd as [|? ? Hna Hnd']; subst. cbn [find_tbl].
  destruct Hin as [->|Hin].
  - rewrite String.eqb_refl. reflexivity.
  - destruct (String.eqb_spec (tb_name a) (tb_name t)) as [E|E]; [|auto].
    exfalso. apply Hna. rewrite E. apply in_map. exact Hin.
Qed.

Lemma find_assoc_unique {B} (n : string) (o : B) (ents : list (string * B)) :
  NoDup (map fst ents) -> In (n, o) ents -> find (fun e => String.eqb (fst e) n) ents = Some (n, o).
Proof.
  induction ents as [|[n' o'] ents IH]; intros Hnd Hin; [contradiction|].
  cbn [map fst] in Hnd. inversion Hnd as [|? ? Hna Hnd']; subst. cbn [find fst].
  destruct Hin as [E|Hin].
  - inversion E; subst. rewrite String.eqb_refl. reflexivity.
  - destruct (String.eqb_spec n' n) as [->|_]; [|auto].
    exfalso. apply Hna. change n with (fst (n, o)). apply in_map. exact Hin.
Qed.

Lemma find_assoc_none {B} (n : string) (ents : list (string * B)) :
  ~ In n (map fst ents) -> find (fun e => String.eqb (fst e) n) ents = None.
Proof.
  induction ents as [|[n' o'] ents IH]; intros Hn; [reflexivity|]. cbn [find fst].
  destruct (String.eqb_spec n' n) as [->|_]; [exfalso; apply Hn; left; reflexivity|].
  apply IH. intros H. apply Hn. right. exact H.
Qed.

Lemma is_sys_false n : is_sys n = false <-> n <> "sys_pages" /\ n <> "sys_schema".
Proof.
  unfold is_sys. rewrite orb_false_iff. split.
  - intros [A B]. apply String.eqb_neq in A, B. auto.
  - intros [A B]. apply String.eqb_neq in A, B. auto.
Qed.

(* ---------- names of the catalog ---------- *)
Lemma sys_names_NoDup d : DbOk d -> NoDup ("sys_pages" :: "sys_schema" :: map tb_name d).
Proof.
  intros [Hnd Hns _].
  assert (Hn : forall x, In x (map tb_name d) -> x <> "sys_pages" /\ x <> "sys_schema").
  { intros x Hx. apply in_map_iff in Hx as (t & <- & Hin). rewrite Forall_forall in Hns.
    apply is_sys_false. auto. }
  constructor; [|constructor; [|exact Hnd]].
  - intros [H|H]; [discriminate | destruct (Hn _ H) as [A _]; congruence].
  - intros H. destruct (Hn _ H) as [_ A]. congruence.
Qed.

Lemma cat_names_NoDup d (ents : list (string * N)) :
  DbOk d -> map fst ents = "sys_pages" :: "sys_schema" :: map tb_name d -> NoDup (map fst ents).
Proof. intros H ->. apply sys_names_NoDup. exact H. Qed.

(* ---------- sys_pages lookups ---------- *)
Lemma tget_pt_name e : tget "table_name" (pt_tuple e) = VStr (fst e).
Proof. reflexivity. Qed.
Lemma tget_pt_off e : tget "file_offset" (pt_tuple e) = VInt (Z.of_N (snd e)).
Proof. reflexivity. Qed.

Lemma pt_lookup_ents name : forall cells ents,
  PtCells cells ents -> Forall pt_fits ents ->
  pt_lookup name cells =
  match find (fun e => String.eqb (fst e) name) ents with
  | Some e => Ok (snd e) | None => Err ETableNotExist end.
Proof.
  induction cells as [|c cells IH]; intros ents Hc Hf; inversion Hc as [|? e ? ents' [_ Hv] Hrest]; subst; [reflexivity|].
  inversion Hf as [|? ? He Hf']; subst.
  cbn [pt_lookup find]. rewrite Hv, (decode_pte e He). cbn [bind].
  rewrite tget_pt_name, tget_pt_off. cbn [value_eqb].
  destruct (String.eqb (fst e) name); [rewrite N2Z.id; reflexivity | apply IH; auto].
Qed.

Lemma rel_offset_cat s pt ents name :
  SInv s -> find_root (ptRoot s) (forest s) = Some pt -> PtCells (all_cells pt) ents -> Forall pt_fits ents ->
  rel_offset s name =
  match find (fun e => String.eqb (fst e) name) ents with
  | Some e => Ok (snd e) | None => Err ETableNotExist end.
Proof.
  intros Hinv Hpt Hc Hf. unfold rel_offset, get_tree. rewrite Hpt. cbn [bind].
  rewrite (scan_right_okP _ _ (find_root_WFT _ _ _ Hinv Hpt)). cbn [of_tres bind].
  unfold scan_tree. rewrite (PtCells_live _ _ Hc). apply pt_lookup_ents; auto.
Qed.

(* ---------- sys_schema lookups ---------- *)
Lemma schema_rows_ents name : forall cells ents,
  ScCells cells ents -> Forall sc_fits ents ->
  schema_rows name cells = Ok (map snd (filter (fun e => String.eqb (fst e) name) ents)).
Proof.
  induction cells as [|c cells IH]; intros ents Hc Hf; inversion Hc as [|? e ? ents' [_ Hv] Hrest]; subst; [reflexivity|].
  inversion Hf as [|? ? He Hf']; subst.
  cbn [schema_rows filter]. rewrite Hv, (decode_sce e He). cbn [bind].
  change (tget "table_name" (sc_tuple e)) with (VStr (fst e)).
  change (tget "field_name" (sc_tuple e)) with (VStr (fd_name (snd e))).
  change (tget "field_length" (sc_tuple e)) with (VInt (fd_len (snd e))).
  change (tget "field_type" (sc_tuple e)) with (VInt (code_of_coltype (fd_type (snd e)))).
  cbn [value_eqb]. destruct (String.eqb (fst e) name); [|apply IH; auto].
  rewrite coltype_code_roundtrip, (IH ents' Hrest Hf'). cbn [bind map]. destruct e as [tn [t fn fl]]. reflexivity.
Qed.

Lemma sc_entries_app a b : sc_entries (a ++ b) = sc_entries a ++ sc_entries b.
Proof. unfold sc_entries. apply flat_map_app. Qed.

Lemma filter_pair_name n n' (sch : schema) :
  map snd (filter (fun e => String.eqb (fst e) n) (map (pair n') sch)) = if String.eqb n' n then sch else [].
Proof.
  induction sch as [|fd sch IH]; [destruct (String.eqb n' n); reflexivity|].
  cbn [map filter fst]. destruct (String.eqb n' n) eqn:E; cbn [map snd]; rewrite IH; reflexivity.
Qed.

Lemma sc_entries_filter n : forall D, NoDup (map tb_name D) ->
  map snd (filter (fun e => String.eqb (fst e) n) (sc_entries D)) =
  match find_tbl n D with Some t => tb_schema t | None => [] end.
Proof.
  induction D as [|t D IH]; intros Hnd; [reflexivity|].
  cbn [map] in Hnd. inversion Hnd as [|? ? Hna Hnd']; subst.
  cbn [sc_entries flat_map find_tbl]. fold (sc_entries D).
  rewrite filter_app, map_app, filter_pair_name, (IH Hnd').
  destruct (String.eqb_spec (tb_name t) n) as [E|E]; [|reflexivity].
  assert (Hn : find_tbl n D = None) by (apply find_tbl_None; congruence).
  rewrite Hn. apply app_nil_r.
Qed.

Lemma sys_db_names_NoDup d : DbOk d -> NoDup (map tb_name (sys_db ++ d)).
Proof. intros H. exact (sys_names_NoDup d H). Qed.

Lemma find_tbl_sys_db n d : is_sys n = false -> find_tbl n (sys_db ++ d) = find_tbl n d.
Proof.
  intros H. apply is_sys_false in H as [A B]. cbn [sys_db app find_tbl tb_name].
  destruct (String.eqb_spec "sys_pages" n); [congruence|].
  destruct (String.eqb_spec "sys_schema" n); [congruence|]. reflexivity.
Qed.

Section WithCat.
Variables (s : store) (d : db) (pt sc : tree) (ents : list (string * N)) (osc : N).
Hypothesis Hinv : SInv s.
Hypothesis Hok : DbOk d.
Hypothesis HC : Cat s d pt sc ents osc.

Lemma cat_rel_offset_in n o : In (n, o) ents -> rel_offset s n = Ok o.
Proof.
  intros Hin. rewrite (rel_offset_cat s pt ents n Hinv (c_pt _ _ _ _ _ _ HC) (c_ptcells _ _ _ _ _ _ HC) (c_ptfits _ _ _ _ _ _ HC)).
  rewrite (find_assoc_unique n o ents (cat_names_NoDup d ents Hok (c_names _ _ _ _ _ _ HC)) Hin). reflexivity.
Qed.

Lemma cat_rel_offset_none n : is_sys n = false -> find_tbl n d = None -> rel_offset s n = Err ETableNotExist.
Proof.
  intros Hs Hn. rewrite (rel_offset_cat s pt ents n Hinv (c_pt _ _ _ _ _ _ HC) (c_ptcells _ _ _ _ _ _ HC) (c_ptfits _ _ _ _ _ _ HC)).
  rewrite find_assoc_none; [reflexivity|]. rewrite (c_names _ _ _ _ _ _ HC).
  apply is_sys_false in Hs as [A B]. apply find_tbl_None in Hn.
  intros [H|[H|H]]; congruence.
Qed.

Lemma cat_rel_schema n : is_sys n = false ->
  rel_schema s n = Ok (match find_tbl n d with Some t => tb_schema t | None => [] end).
Proof.
  intros Hs. unfold rel_schema, schemaTableName. rewrite (cat_rel_offset_in _ _ (c_osc _ _ _ _ _ _ HC)). cbn [bind].
  unfold get_tree. rewrite (c_sc _ _ _ _ _ _ HC). cbn [bind].
  rewrite (scan_right_okP _ _ (find_root_WFT _ _ _ Hinv (c_sc _ _ _ _ _ _ HC))). cbn [of_tres bind].
  unfold scan_tree. rewrite (ScCells_live _ _ (c_sccells _ _ _ _ _ _ HC)).
  rewrite (schema_rows_ents n _ _ (c_sccells _ _ _ _ _ _ HC) (c_scfits _ _ _ _ _ _ HC)).
  rewrite (sc_entries_filter n _ (sys_db_names_NoDup d Hok)), (find_tbl_sys_db n d Hs). reflexivity.
Qed.

(* the offsets of distinct catalog entries (other than sys_pages' own) differ, and differ from
   the page-table root *)
Lemma cat_offsets_distinct n1 o1 n2 o2 :
  In (n1, o1) ents -> In (n2, o2) ents -> n1 <> "sys_pages" -> n2 <> "sys_pages" -> n1 <> n2 -> o1 <> o2.
Proof.
  intros H1 H2 Hs1 Hs2 Hne.
  pose proof (c_names _ _ _ _ _ _ HC) as Hn. pose proof (c_offs _ _ _ _ _ _ HC) as Ho.
  destruct ents as [|[n0 o0] rest]; [contradiction|]. cbn [map fst tl] in *.
  inversion Hn as [[Hn0 Hrest]]. subst n0.
  destruct H1 as [E|H1]; [inversion E; congruence|]. destruct H2 as [E|H2]; [inversion E; congruence|].
  inversion Ho as [|? ? _ Hnd]; subst.
  assert (Hndn : NoDup (map fst rest)).
  { pose proof (cat_names_NoDup d _ Hok (c_names _ _ _ _ _ _ HC)) as X. cbn [map fst] in X. inversion X; auto. }
  clear - H1 H2 Hne Hnd. induction rest as [|[n o] rest IH]; [contradiction|].
  cbn [map snd] in Hnd. inversion Hnd as [|? ? Hno Hnd']; subst.
  destruct H1 as [E1|H1], H2 as [E2|H2].
  - congruence.
  - inversion E1; subst. intros ->. apply Hno. change o2 with (snd (n2, o2)). apply in_map. exact H2.
  - inversion E2; subst. intros ->. apply Hno. change o2 with (snd (n1, o2)). apply in_map. exact H1.
  - apply IH; auto.
Qed.

Lemma cat_offset_not_ptroot n o : In (n, o) ents -> n <> "sys_pages" -> o <> ptRoot s.
Proof.
  intros H1 Hs1.
  pose proof (c_names _ _ _ _ _ _ HC) as Hn. pose proof (c_offs _ _ _ _ _ _ HC) as Ho.
  destruct ents as [|[n0 o0] rest]; [contradiction|]. cbn [map fst tl] in *.
  inversion Hn as [[Hn0 Hrest]]. subst n0.
  destruct H1 as [E|H1]; [inversion E; congruence|].
  inversion Ho as [|? ? Hnot _]; subst. intros ->. apply Hnot. change (ptRoot s) with (snd (n, ptRoot s)). apply in_map. exact H1.
Qed.

End WithCat.

(* ---------- SELECT * ---------- *)
Lemma decode_cells_rep sch : forall cells rows,
  NoDup (names sch) -> Forall2 (RowCell sch) cells rows ->
  decode_cells sch cells = Ok (combine (keys_of cells) rows).
Proof.
  intros cells rows Hnd H. induction H as [|c r cells rows [Hv Hf] _ IH]; [reflexivity|].
  cbn [decode_cells keys_of map combine]. rewrite Hv, (decode_row_enc sch r Hnd Hf). cbn [bind].
  fold (keys_of cells). rewrite IH. reflexivity.
Qed.

Lemma Forall2_length' {A B} (R : A -> B -> Prop) l1 l2 : Forall2 R l1 l2 -> List.length l1 = List.length l2.
Proof. induction 1; cbn; auto. Qed.

Lemma scan_keys_sorted s o tr : SInv s -> find_root o (forest s) = Some tr ->
  StronglySorted N.lt (keys_of (scan_tree tr)).
Proof.
  intros Hinv Hf. destruct (find_root_WFT _ _ _ Hinv Hf) as [[h Hs] _ _ _].
  pose proof (wf_sorted ML MI tr h 0 None Hs) as Hsorted.
  unfold scan_tree, live, keys_of in *. induction (all_cells tr) as [|c cs IH]; [constructor|].
  cbn [map] in Hsorted. inversion Hsorted as [|? ? Hs' Hf']; subst. cbn [filter].
  destruct (negb (lc_deleted c)); [|auto]. cbn [map]. constructor; [auto|].
  rewrite Forall_forall in *. intros x Hx. apply Hf'. apply in_map_iff in Hx as (y & <- & Hy).
  apply filter_In in Hy as [Hy _]. apply in_map. exact Hy.
Qed.

Lemma st_fetch_user s d n t :
  Rep s d -> is_sys n = false -> find_tbl n d = Some t ->
  exists o tr, rel_offset s n = Ok o /\ find_root o (forest s) = Some tr /\
               rel_schema s n = Ok (tb_schema t) /\ TableRep (tb_schema t) tr (tb_rows t) /\
               st_fetch s n = Ok (combine (keys_of (scan_tree tr)) (tb_rows t), fields_of (tb_schema t)).
Proof.
  intros [Hinv Hok (pt & sc & ents & osc & HC)] Hs Hf.
  destruct (find_tbl_In _ _ _ Hf) as [Hin Hn]. subst n.
  destruct (c_tabs _ _ _ _ _ _ HC t Hin) as (o & tr & He & Hr & Ht).
  pose proof (cat_rel_offset_in s d pt sc ents osc Hinv Hok HC _ _ He) as Eo.
  pose proof (cat_rel_schema s d pt sc ents osc Hinv Hok HC _ Hs) as Es. rewrite Hf in Es.
  exists o, tr. repeat split; auto.
  unfold st_fetch. rewrite Eo, Es. cbn [bind]. unfold get_tree. rewrite Hr. cbn [bind].
  rewrite (scan_right_okP _ _ (find_root_WFT _ _ _ Hinv Hr)). cbn [of_tres bind].
  rewrite (decode_cells_rep _ _ _ ltac:(pose proof (d_sch _ Hok) as X; rewrite Forall_forall in X; apply X; exact Hin) Ht).
  reflexivity.
Qed.

Lemma st_fetch_missing s d n :
  Rep s d -> is_sys n = false -> find_tbl n d = None -> st_fetch s n = Err ETableNotExist.
Proof.
  intros [Hinv Hok (pt & sc & ents & osc & HC)] Hs Hf. unfold st_fetch.
  rewrite (cat_rel_offset_none s d pt sc ents osc Hinv HC n Hs Hf). reflexivity.
Qed.
