(* C17 / C18, session level: the invariant of engine.Session over a set of databases and its
   preservation by every event (CREATE DATABASE / USE / SHOW DATABASES / DDL / DML, timer tick,
   clean and unclean restart). Built on Proofs/SessionStore.v (one database: representation
   relation `Rep` of the refinement development + invariant `Inv` of the crash development). *)
From Coq Require Import Arith Lia Bool List NArith ZArith String Ascii Sorted.
From Mkdb Require Import Model.Engine Model.Session Spec.TableSpec Spec.HistObs Spec.SessionObs
  Proofs.StoreInv Proofs.RefineRep Proofs.RefineCat Proofs.RefineDDL Proofs.Atomic Proofs.RefineMain
  Proofs.SessionStore Properties.C01 Properties.C01full.
From Mkdb Require Proofs.CrashBase Proofs.CrashMain.
Import ListNotations.
Local Open Scope N_scope.
Local Open Scope string_scope.
Local Open Scope list_scope.

Lemma NoDup_app_intro_single {A} (l : list A) x : NoDup l -> ~ In x l -> NoDup (l ++ [x]).
Proof.
  intros Hnd Hx. induction Hnd as [|a l Ha Hnd IH]; cbn [app]; [constructor; [intros [] | constructor]|].
  constructor.
  - intros Hin. apply in_app_or in Hin as [Hin|[E|[]]]; [contradiction | subst; apply Hx; left; reflexivity].
  - apply IH. intros Hin. apply Hx. right. exact Hin.
Qed.

(* ====================== association lists keyed by database name ====================== *)
Section Assoc.
Context {A : Type}.
Fixpoint aget (n : string) (l : list (string * A)) : option A :=
  match l with [] => None | (m, y) :: r => if String.eqb m n then Some y else aget n r end.
Fixpoint aset (n : string) (y : A) (l : list (string * A)) : list (string * A) :=
  match l with
  | [] => [(n, y)]
  | (m, x) :: r => if String.eqb m n then (n, y) :: r else (m, x) :: aset n y r
  end.

Lemma aget_aset n m v l : aget n (aset m v l) = if String.eqb m n then Some v else aget n l.
Proof.
  induction l as [|[k x] r IH]; cbn [aset aget].
  - destruct (String.eqb m n); reflexivity.
  - destruct (String.eqb_spec k m) as [->|Hkm]; cbn [aget].
    + destruct (String.eqb m n); reflexivity.
    + rewrite IH. destruct (String.eqb_spec k n) as [->|Hkn]; [|reflexivity].
      destruct (String.eqb_spec m n) as [->|]; [congruence | reflexivity].
Qed.

Lemma aget_None n l : aget n l = None <-> ~ In n (map fst l).
Proof.
  induction l as [|[k x] r IH]; cbn [aget map fst In]; [tauto|].
  destruct (String.eqb_spec k n) as [->|Hkn].
  - split; [discriminate | intros H; exfalso; apply H; left; reflexivity].
  - rewrite IH. tauto.
Qed.

Lemma aget_Some_In n y l : aget n l = Some y -> In (n, y) l.
Proof.
  induction l as [|[k x] r IH]; cbn [aget]; [discriminate|].
  destruct (String.eqb_spec k n) as [->|Hkn]; [intros H; inversion H; left; reflexivity | intros H; right; auto].
Qed.

Lemma aget_In_NoDup n y l : NoDup (map fst l) -> In (n, y) l -> aget n l = Some y.
Proof.
  induction l as [|[k x] r IH]; intros Hnd Hin; [contradiction|].
  cbn [map fst] in Hnd. inversion Hnd as [|? ? Hk Hnd']; subst. cbn [aget].
  destruct Hin as [E|Hin].
  - inversion E; subst. rewrite String.eqb_refl. reflexivity.
  - destruct (String.eqb_spec k n) as [->|_]; [|auto].
    exfalso. apply Hk. change n with (fst (n, y)). apply in_map. exact Hin.
Qed.

Lemma aset_keys n x y l : aget n l = Some x -> map fst (aset n y l) = map fst l.
Proof.
  induction l as [|[k z] r IH]; cbn [aget aset]; [discriminate|].
  destruct (String.eqb_spec k n) as [->|Hkn]; cbn [map fst]; [reflexivity|]. intros H. rewrite IH; auto.
Qed.

Lemma aget_app n l m v : aget n (l ++ [(m, v)]) =
  match aget n l with Some x => Some x | None => if String.eqb m n then Some v else None end.
Proof.
  induction l as [|[k x] r IH]; cbn [app aget]; [reflexivity|].
  destruct (String.eqb k n); [reflexivity | exact IH].
Qed.
End Assoc.

Lemma get_db_aget : get_db = @aget sys. Proof. reflexivity. Qed.
Lemma set_db_aset : set_db = @aset sys. Proof. reflexivity. Qed.
Lemma sp_get_aget : sp_get = @aget db. Proof. reflexivity. Qed.
Lemma sp_set_aset : sp_set = @aset db. Proof. reflexivity. Qed.

(* ====================== runs and the specification state ====================== *)
Fixpoint sess_run (s : sess) (evs : list sevent) : res sess * list (option sout) :=
  match evs with
  | [] => (Ok s, [])
  | ev :: r => match sess_step s ev with
               | (Ok s1, o) => let '(fin, os) := sess_run s1 r in (fin, o :: os)
               | (bad, o) => (bad, [o])
               end
  end.

Definition is_session_stmt (st : stmt) : bool :=
  match st with SCreateDatabase _ | SUse _ | SShowDatabase => true | _ => false end.

(* the specification state of Spec/SessionObs.v sess_spec_ok: one specification database per
   created name and the selected name, driven by the events and their OBSERVED outcomes only.
   (sess_spec_ok applies spec_exec and rejects SpecErr; spec_step is the same function made total.) *)
Definition spec_ev (sp : list (string * db)) (sc : option string) (ev : sevent) (o : option sout)
  : list (string * db) * option string :=
  match ev with
  | SvStmt (SCreateDatabase name) =>
      (match o with Some SOOk => sp ++ [(lower name, [])] | _ => sp end, sc)
  | SvStmt (SUse name) => (sp, match o with Some SOOk => Some (lower name) | _ => sc end)
  | SvStmt SShowDatabase => (sp, sc)
  | SvStmt st =>
      (match o, sc with
       | Some SOOk, Some c => match sp_get c sp with Some d => sp_set c (spec_step d st) sp | None => sp end
       | _, _ => sp
       end, sc)
  | SvTick => (sp, sc)
  | SvRestart _ => (sp, None)
  end.

Fixpoint sess_spec_run (sp : list (string * db)) (sc : option string) (evs : list sevent) (os : list (option sout))
  : list (string * db) * option string :=
  match evs, os with
  | ev :: er, o :: orr => let '(sp1, sc1) := spec_ev sp sc ev o in sess_spec_run sp1 sc1 er orr
  | _, _ => (sp, sc)
  end.

(* names for which CREATE DATABASE succeeded, in order *)
Definition created1 (ev : sevent) (o : option sout) : list string :=
  match ev, o with
  | SvStmt (SCreateDatabase name), Some SOOk => [lower name]
  | _, _ => []
  end.
Fixpoint created (evs : list sevent) (os : list (option sout)) : list string :=
  match evs, os with
  | ev :: er, o :: orr => created1 ev o ++ created er orr
  | _, _ => []
  end.

(* the selected database after an event, and the statements acknowledged while n was selected *)
Definition sel_ev (sc : option string) (ev : sevent) (o : option sout) : option string :=
  match ev with
  | SvStmt (SUse name) => match o with Some SOOk => Some (lower name) | _ => sc end
  | SvRestart _ => None
  | _ => sc
  end.

(* the logical store of database n: the cache of the open relation service if n is selected,
   the data file otherwise *)
Definition is_sel (c : option string) (n : string) : bool :=
  match c with Some c' => String.eqb c' n | None => false end.
Definition logical (c : option string) (n : string) (y : sys) : store :=
  if is_sel c n then mem y else disk y.

Definition acked_here (n : string) (sc : option string) (ev : sevent) (o : option sout) : list stmt :=
  match ev, o with
  | SvStmt st, Some SOOk => if negb (is_session_stmt st) && is_sel sc n then [st] else []
  | _, _ => []
  end.

Fixpoint stmts_while (n : string) (sc : option string) (evs : list sevent) (os : list (option sout)) : list stmt :=
  match evs, os with
  | ev :: er, o :: orr => acked_here n sc ev o ++ stmts_while n (sel_ev sc ev o) er orr
  | _, _ => []
  end.

(* ====================== hypotheses on an event list, evaluated along the run ====================== *)
Definition ev_hyp2 (s : sess) (ev : sevent) : bool :=
  match ev with
  | SvStmt st =>
      if is_session_stmt st then true else
      match cur s with
      | Some c => match get_db c (dbs s) with Some y => stmt_hyp2 (mem y) st | None => true end
      | None => true
      end
  | _ => true
  end.

Fixpoint sess_hyps2 (s : sess) (evs : list sevent) : bool :=
  match evs with
  | [] => true
  | ev :: r => ev_hyp2 s ev && match fst (sess_step s ev) with Ok s1 => sess_hyps2 s1 r | _ => true end
  end.

(* the hypotheses with (H1) "a failing statement fails before its first page change" as a fourth
   clause (SessionStore.stmt_hyp), as they were stated before (H1) was derived; they imply the ones above *)
Definition ev_hyp (s : sess) (ev : sevent) : bool :=
  match ev with
  | SvStmt st =>
      if is_session_stmt st then true else
      match cur s with
      | Some c => match get_db c (dbs s) with Some y => stmt_hyp (mem y) st | None => true end
      | None => true
      end
  | _ => true
  end.

Fixpoint sess_hyps (s : sess) (evs : list sevent) : bool :=
  match evs with
  | [] => true
  | ev :: r => ev_hyp s ev && match fst (sess_step s ev) with Ok s1 => sess_hyps s1 r | _ => true end
  end.

Lemma ev_hyp_hyp2 s ev : ev_hyp s ev = true -> ev_hyp2 s ev = true.
Proof.
  destruct ev as [st| |]; cbn [ev_hyp ev_hyp2]; auto.
  destruct (is_session_stmt st); auto. destruct (cur s) as [c|]; auto.
  destruct (get_db c (dbs s)) as [y|]; auto. apply stmt_hyp_hyp2.
Qed.

Lemma sess_hyps_hyps2 evs : forall s, sess_hyps s evs = true -> sess_hyps2 s evs = true.
Proof.
  induction evs as [|ev r IH]; intros s H; [reflexivity|]. cbn [sess_hyps sess_hyps2] in *.
  apply andb_true_iff in H as [A B]. apply andb_true_iff. split; [apply ev_hyp_hyp2; exact A|].
  destruct (fst (sess_step s ev)) as [s1|e|]; auto.
Qed.

(* ====================== 1. errors of CREATE DATABASE / USE change nothing ====================== *)
Lemma create_database_err s name s' e : sess_stmt s (SCreateDatabase name) = (s', SOErr e) -> s' = s.
Proof.
  cbn [sess_stmt]. destruct (String.eqb (lower name) ""); [intros H; inversion H; reflexivity|].
  destruct (valid_dbname (lower name)); cbn [negb]; [|intros H; inversion H; reflexivity].
  destruct (get_db (lower name) (dbs s)); intros H; inversion H; reflexivity.
Qed.

Lemma use_err s name s' e : sess_stmt s (SUse name) = (s', SOErr e) -> s' = s.
Proof.
  cbn [sess_stmt]. destruct (cur s) as [c|].
  - destruct (String.eqb c (lower name)); [intros H; inversion H|].
    destruct (valid_dbname (lower name)); cbn [negb]; [|intros H; inversion H; reflexivity].
    destruct (get_db (lower name) (dbs s)) as [y|], (get_db c (dbs s)) as [yc|]; intros H; inversion H; reflexivity.
  - destruct (valid_dbname (lower name)); cbn [negb]; [|intros H; inversion H; reflexivity].
    destruct (get_db (lower name) (dbs s)); intros H; inversion H; reflexivity.
Qed.

Lemma no_database_selected s st :
  cur s = None -> is_session_stmt st = false -> sess_stmt s st = (s, SOErr SENoDB).
Proof. intros Hc Hs. destruct st; try discriminate; cbn [sess_stmt]; rewrite Hc; reflexivity. Qed.

(* ---------- statements other than CREATE DATABASE / USE / SHOW DATABASES ---------- *)
Definition sout_of (o : outcome) : sout :=
  match o with OOk _ => SOOk | OErr e => SOErr (SEStmt e) | OPanic => SOPanic end.

Lemma sess_stmt_plain s st : is_session_stmt st = false ->
  sess_stmt s st =
  match cur s with
  | None => (s, SOErr SENoDB)
  | Some c => match get_db c (dbs s) with
              | None => (s, SOPanic)
              | Some y => (mkSess (set_db c (fst (exec y st)) (dbs s)) (cur s), sout_of (snd (exec y st)))
              end
  end.
Proof.
  intros H. destruct st; try discriminate; cbn [sess_stmt]; destruct (cur s) as [c|]; try reflexivity;
    destruct (get_db c (dbs s)) as [y|]; try reflexivity;
    match goal with |- context [exec y ?st] => destruct (exec y st) as [y1 o] end; reflexivity.
Qed.

Lemma spec_ev_plain sp sc st o : is_session_stmt st = false ->
  spec_ev sp sc (SvStmt st) o =
  (match o, sc with
   | Some SOOk, Some c => match sp_get c sp with Some d => sp_set c (spec_step d st) sp | None => sp end
   | _, _ => sp
   end, sc).
Proof. intros H. destruct st; try discriminate; reflexivity. Qed.

Lemma sess_step_stmt s st :
  sess_step s (SvStmt st) =
  (match snd (sess_stmt s st) with SOPanic => Panic | _ => Ok (fst (sess_stmt s st)) end, Some (snd (sess_stmt s st))).
Proof. cbn [sess_step]. destruct (sess_stmt s st) as [s1 o]. reflexivity. Qed.

(* ====================== 3. frame ====================== *)
Lemma set_db_other n c y l : c <> n -> get_db n (set_db c y l) = get_db n l.
Proof.
  intros H. rewrite get_db_aget, set_db_aset, aget_aset. destruct (String.eqb_spec c n); [contradiction | reflexivity].
Qed.

Lemma frame_stmt s st n :
  (forall name, st <> SCreateDatabase name) ->
  cur s <> Some n -> (forall name, st = SUse name -> lower name <> n) ->
  get_db n (dbs (fst (sess_stmt s st))) = get_db n (dbs s).
Proof.
  intros Hncd Hc Hu. destruct (is_session_stmt st) eqn:Hss.
  - destruct st as [q|tn cds|dn| |un|tn cols rows|tn sets w|tn w]; try discriminate.
    + exfalso. eapply Hncd. reflexivity.
    + reflexivity.
    + specialize (Hu un eq_refl). cbn [sess_stmt]. destruct (cur s) as [c|].
      * destruct (String.eqb c (lower un)); [reflexivity|].
        destruct (valid_dbname (lower un)); cbn [negb]; [|reflexivity].
        destruct (get_db (lower un) (dbs s)) as [y|], (get_db c (dbs s)) as [yc|]; try reflexivity.
        cbn [fst dbs]. rewrite !set_db_other; [reflexivity | exact Hu | congruence].
      * destruct (valid_dbname (lower un)); cbn [negb]; [|reflexivity].
        destruct (get_db (lower un) (dbs s)) as [y|]; [|reflexivity]. cbn [fst dbs]. apply set_db_other. exact Hu.
  - rewrite (sess_stmt_plain _ _ Hss). destruct (cur s) as [c|]; [|reflexivity].
    destruct (get_db c (dbs s)) as [y|]; [|reflexivity].
    cbn [fst dbs]. apply set_db_other. congruence.
Qed.

Lemma frame_tick s n s1 o : cur s <> Some n -> sess_step s SvTick = (Ok s1, o) -> get_db n (dbs s1) = get_db n (dbs s).
Proof.
  intros Hc. cbn [sess_step]. destruct (cur s) as [c|]; [|intros H; inversion H; reflexivity].
  destruct (get_db c (dbs s)) as [y|]; intros H; inversion H; [|reflexivity].
  cbn [dbs]. apply set_db_other. congruence.
Qed.

Lemma frame_create s name n :
  get_db n (dbs s) <> None -> get_db n (dbs (fst (sess_stmt s (SCreateDatabase name)))) = get_db n (dbs s).
Proof.
  intros Hn. cbn [sess_stmt]. destruct (String.eqb (lower name) ""); [reflexivity|].
  destruct (valid_dbname (lower name)); cbn [negb]; [|reflexivity].
  destruct (get_db (lower name) (dbs s)); [reflexivity|]. cbn [fst dbs].
  rewrite get_db_aget, aget_app. rewrite <- get_db_aget. destruct (get_db n (dbs s)); [reflexivity | congruence].
Qed.

(* ====================== the session invariant ====================== *)
Record SessInv (s : sess) (sp : list (string * db)) : Prop := mkSessInv {
  sv_keys : map fst (dbs s) = map fst sp;
  sv_nodup : NoDup (map fst sp);
  sv_cur : forall c, cur s = Some c -> In c (map fst sp);
  sv_dbs : forall n y, get_db n (dbs s) = Some y ->
           exists d, sp_get n sp = Some d /\ DbInv y d /\ (is_sel (cur s) n = false -> disk y = mem y)
}.

Lemma SessInv_init : SessInv init_sess [].
Proof. constructor; cbn; [reflexivity | constructor | discriminate | discriminate]. Qed.

Lemma sv_get_some s sp n : SessInv s sp -> In n (map fst sp) -> exists y, get_db n (dbs s) = Some y.
Proof.
  intros H Hin. destruct (get_db n (dbs s)) as [y|] eqn:E; [eauto|].
  exfalso. rewrite get_db_aget in E. apply aget_None in E. apply E. rewrite (sv_keys _ _ H). exact Hin.
Qed.

Lemma sv_sp_none s sp n : SessInv s sp -> get_db n (dbs s) = None -> sp_get n sp = None.
Proof.
  intros H E. rewrite sp_get_aget. apply aget_None. rewrite <- (sv_keys _ _ H).
  rewrite get_db_aget in E. apply aget_None in E. exact E.
Qed.

Lemma init_sys_disk : disk init_sys = mem init_sys.
Proof. unfold init_sys. cbv zeta. cbn [disk mem]. reflexivity. Qed.

Lemma open_db_id y : disk y = mem y -> open_db y = y.
Proof. destruct y as [m dk w]. cbn [disk mem]. intros ->. reflexivity. Qed.

Lemma is_sel_refl n : is_sel (Some n) n = true.
Proof. cbn. apply String.eqb_refl. Qed.

(* keys never change under set_db at an existing key *)
Lemma set_db_keys c y x l : get_db c l = Some x -> map fst (set_db c y l) = map fst l.
Proof. rewrite get_db_aget, set_db_aset. apply aset_keys. Qed.

Lemma sp_set_keys c d x l : sp_get c l = Some x -> map fst (sp_set c d l) = map fst l.
Proof. rewrite sp_get_aget, sp_set_aset. apply aset_keys. Qed.

Lemma get_set_db n c y l : get_db n (set_db c y l) = if String.eqb c n then Some y else get_db n l.
Proof. rewrite get_db_aget, set_db_aset. apply aget_aset. Qed.

Lemma sp_get_set n c d l : sp_get n (sp_set c d l) = if String.eqb c n then Some d else sp_get n l.
Proof. rewrite sp_get_aget, sp_set_aset. apply aget_aset. Qed.

(* ---------- recover_all ---------- *)
Lemma recover_all_spec (P : string -> sys -> Prop) : forall l,
  (forall n y, In (n, y) l -> exists y', recover y = Ok y' /\ P n y') ->
  exists l', recover_all l = Ok l' /\ map fst l' = map fst l /\ forall n y', In (n, y') l' -> P n y'.
Proof.
  induction l as [|[n y] r IH]; intros H.
  - exists []. cbn. split; [reflexivity|]. split; [reflexivity | intros ? ? []].
  - destruct (H n y (or_introl eq_refl)) as (y' & Hr & Hp).
    destruct IH as (r' & Hr' & Hk & Hp'); [intros; apply H; right; assumption|].
    exists ((n, y') :: r'). cbn [recover_all]. rewrite Hr. cbn [bind]. rewrite Hr'. cbn [bind].
    split; [reflexivity|]. split; [cbn [map fst]; rewrite Hk; reflexivity|].
    intros m z [E|Hin]; [inversion E; subst; exact Hp | auto].
Qed.

(* ====================== one event preserves the invariant and cannot fail ====================== *)
Lemma plain_stmt_inv s sp st :
  SessInv s sp -> is_session_stmt st = false -> ev_hyp2 s (SvStmt st) = true ->
  exists s1, fst (sess_step s (SvStmt st)) = Ok s1 /\
             SessInv s1 (fst (spec_ev sp (cur s) (SvStmt st) (snd (sess_step s (SvStmt st))))) /\
             cur s1 = snd (spec_ev sp (cur s) (SvStmt st) (snd (sess_step s (SvStmt st)))).
Proof.
  intros HS Hplain Hh. unfold ev_hyp2 in Hh. rewrite Hplain in Hh.
  rewrite sess_step_stmt, (spec_ev_plain _ _ _ _ Hplain), (sess_stmt_plain _ _ Hplain). cbn [fst snd].
  destruct (cur s) as [c|] eqn:Ec; [|exists s; cbn [fst snd]; auto].
  destruct (sv_get_some s sp c HS (sv_cur _ _ HS c Ec)) as [y Ey]. rewrite Ey in *.
  destruct (sv_dbs _ _ HS _ _ Ey) as (d & Ed & HD & _).
  destruct (DbInv_exec2 y d st HD Hh) as [Hnp HD1].
  destruct (exec y st) as [y1 o]. cbn [fst snd] in *.
  destruct o as [cnt|e|]; [| |congruence]; cbn [spec_after sout_of] in *; rewrite ?Ed;
    (eexists; split; [reflexivity|]; split; [|reflexivity]);
    constructor; cbn [dbs cur].
  - rewrite (set_db_keys _ _ _ _ Ey), (sp_set_keys _ _ _ _ Ed). apply (sv_keys _ _ HS).
  - rewrite (sp_set_keys _ _ _ _ Ed). apply (sv_nodup _ _ HS).
  - intros c' Hc'. rewrite (sp_set_keys _ _ _ _ Ed). apply (sv_cur _ _ HS c'). congruence.
  - intros n z. rewrite get_set_db, sp_get_set. destruct (String.eqb_spec c n) as [<-|Hcn].
    + intros H; inversion H; subst z. eexists. split; [reflexivity|]. split; [exact HD1|].
      rewrite is_sel_refl. discriminate.
    + intros En. destruct (sv_dbs _ _ HS n z En) as (dn' & Edn & HDn & Hmn).
      exists dn'. split; [exact Edn|]. split; [exact HDn|]. rewrite <- Ec. exact Hmn.
  - rewrite (set_db_keys _ _ _ _ Ey). apply (sv_keys _ _ HS).
  - apply (sv_nodup _ _ HS).
  - intros c' Hc'. apply (sv_cur _ _ HS c'). congruence.
  - intros n z. rewrite get_set_db. destruct (String.eqb_spec c n) as [<-|Hcn].
    + intros H; inversion H; subst z. exists d. split; [exact Ed|]. split; [exact HD1|].
      rewrite is_sel_refl. discriminate.
    + intros En. destruct (sv_dbs _ _ HS n z En) as (dn' & Edn & HDn & Hmn).
      exists dn'. split; [exact Edn|]. split; [exact HDn|]. rewrite <- Ec. exact Hmn.
Qed.

Lemma sess_step_inv s sp ev :
  SessInv s sp -> ev_hyp2 s ev = true ->
  exists s1, fst (sess_step s ev) = Ok s1 /\
             SessInv s1 (fst (spec_ev sp (cur s) ev (snd (sess_step s ev)))) /\
             cur s1 = snd (spec_ev sp (cur s) ev (snd (sess_step s ev))).
Proof.
  intros HS Hh. destruct ev as [st| |clean].
  - (* statements *)
    destruct st as [q|tn cds|dn| |un|tn cols rows|tn sets w|tn w].
    3:{ (* CREATE DATABASE *)
      cbn [sess_step sess_stmt]. destruct (String.eqb_spec (lower dn) "") as [E0|E0].
      { exists s. cbn [fst snd spec_ev]. auto. }
      destruct (valid_dbname (lower dn)); cbn [negb].
      2:{ exists s. cbn [fst snd spec_ev]. auto. }
      destruct (get_db (lower dn) (dbs s)) as [y|] eqn:Eg.
      { exists s. cbn [fst snd spec_ev]. auto. }
      eexists. cbn [fst snd spec_ev]. split; [reflexivity|]. split; [|reflexivity].
      pose proof (sv_sp_none s sp _ HS Eg) as Esp.
      constructor; cbn [dbs cur].
      - rewrite !map_app, (sv_keys _ _ HS). reflexivity.
      - rewrite map_app. cbn [map fst]. apply NoDup_app_intro_single; [apply (sv_nodup _ _ HS)|].
        rewrite sp_get_aget in Esp. apply aget_None in Esp. exact Esp.
      - intros c Hc. rewrite map_app. apply in_or_app. left. apply (sv_cur _ _ HS c Hc).
      - intros n y. rewrite get_db_aget, aget_app, <- get_db_aget. rewrite sp_get_aget, aget_app, <- sp_get_aget.
        destruct (get_db n (dbs s)) as [y0|] eqn:En.
        + intros H; inversion H; subst y0. destruct (sv_dbs _ _ HS n y En) as (d & Ed & HD & Hm).
          exists d. rewrite Ed. auto.
        + rewrite (sv_sp_none s sp n HS En). destruct (String.eqb (lower dn) n); [|discriminate].
          intros H; inversion H; subst y. exists []. split; [reflexivity|]. split; [exact DbInv_init | intros _; exact init_sys_disk]. }
    4:{ (* USE *)
      cbn [sess_step sess_stmt]. destruct (cur s) as [c|] eqn:Ec.
      - destruct (String.eqb_spec c (lower un)) as [Ecn|Ecn].
        { exists s. cbn [fst snd spec_ev]. split; [reflexivity|]. split; [exact HS | congruence]. }
        destruct (valid_dbname (lower un)); cbn [negb].
        2:{ exists s. cbn [fst snd spec_ev]. auto. }
        destruct (sv_get_some s sp c HS (sv_cur _ _ HS c Ec)) as [yc Eyc]. rewrite Eyc.
        destruct (get_db (lower un) (dbs s)) as [y|] eqn:Ey.
        2:{ exists s. cbn [fst snd spec_ev]. auto. }
        eexists. cbn [fst snd spec_ev]. split; [reflexivity|]. split; [|reflexivity].
        destruct (sv_dbs _ _ HS _ _ Ey) as (d & Ed & HD & Hm).
        destruct (sv_dbs _ _ HS _ _ Eyc) as (dc & Edc & HDc & _).
        assert (Hsel : is_sel (cur s) (lower un) = false).
        { rewrite Ec. cbn. apply String.eqb_neq. exact Ecn. }
        rewrite (open_db_id y (Hm Hsel)).
        assert (Ey' : get_db c (set_db (lower un) y (dbs s)) = Some yc).
        { rewrite get_set_db. destruct (String.eqb_spec (lower un) c); [congruence | exact Eyc]. }
        constructor; cbn [dbs cur].
        + rewrite (set_db_keys _ _ _ _ Ey'), (set_db_keys _ _ _ _ Ey). apply (sv_keys _ _ HS).
        + apply (sv_nodup _ _ HS).
        + intros c' Hc'. inversion Hc'; subst c'. rewrite <- (sv_keys _ _ HS).
          rewrite get_db_aget in Ey. apply aget_Some_In in Ey. change (lower un) with (fst (lower un, y)). apply in_map. exact Ey.
        + intros n z. rewrite !get_set_db. destruct (String.eqb_spec c n) as [<-|Hcn].
          * intros H; inversion H; subst z. exists dc. split; [exact Edc|]. split; [apply DbInv_flush; exact HDc|].
            intros _. reflexivity.
          * destruct (String.eqb_spec (lower un) n) as [<-|Hun].
            -- intros H; inversion H; subst z. exists d. split; [exact Ed|]. split; [exact HD|].
               rewrite is_sel_refl. discriminate.
            -- intros En. destruct (sv_dbs _ _ HS n z En) as (dn' & Edn & HDn & Hmn).
               exists dn'. split; [exact Edn|]. split; [exact HDn|]. intros _. apply Hmn.
               rewrite Ec. cbn. apply String.eqb_neq. exact Hcn.
      - destruct (valid_dbname (lower un)); cbn [negb].
        2:{ exists s. cbn [fst snd spec_ev]. split; [reflexivity|]. split; [exact HS | exact Ec]. }
        destruct (get_db (lower un) (dbs s)) as [y|] eqn:Ey.
        2:{ exists s. cbn [fst snd spec_ev]. split; [reflexivity|]. split; [exact HS | exact Ec]. }
        eexists. cbn [fst snd spec_ev]. split; [reflexivity|]. split; [|reflexivity].
        destruct (sv_dbs _ _ HS _ _ Ey) as (d & Ed & HD & Hm).
        assert (Hsel : is_sel (cur s) (lower un) = false) by (rewrite Ec; reflexivity).
        rewrite (open_db_id y (Hm Hsel)).
        constructor; cbn [dbs cur].
        + rewrite (set_db_keys _ _ _ _ Ey). apply (sv_keys _ _ HS).
        + apply (sv_nodup _ _ HS).
        + intros c' Hc'. inversion Hc'; subst c'. rewrite <- (sv_keys _ _ HS).
          rewrite get_db_aget in Ey. apply aget_Some_In in Ey. change (lower un) with (fst (lower un, y)). apply in_map. exact Ey.
        + intros n z. rewrite get_set_db. destruct (String.eqb_spec (lower un) n) as [<-|Hun].
          * intros H; inversion H; subst z. exists d. split; [exact Ed|]. split; [exact HD|].
            rewrite is_sel_refl. discriminate.
          * intros En. destruct (sv_dbs _ _ HS n z En) as (dn' & Edn & HDn & Hmn).
            exists dn'. split; [exact Edn|]. split; [exact HDn|]. intros _. apply Hmn. rewrite Ec. reflexivity. }
    3:{ (* SHOW DATABASES *) exists s. cbn [sess_step sess_stmt fst snd spec_ev]. auto. }
    all: apply plain_stmt_inv; [exact HS | reflexivity | exact Hh].
  - (* tick *)
    cbn [sess_step]. destruct (cur s) as [c|] eqn:Ec; [|exists s; cbn [fst snd spec_ev]; auto].
    destruct (sv_get_some s sp c HS (sv_cur _ _ HS c Ec)) as [y Ey]. rewrite Ey.
    destruct (sv_dbs _ _ HS _ _ Ey) as (d & Ed & HD & _).
    eexists. cbn [fst snd spec_ev]. split; [reflexivity|]. split; [|reflexivity].
    constructor; cbn [dbs cur].
    + rewrite (set_db_keys _ _ _ _ Ey). apply (sv_keys _ _ HS).
    + apply (sv_nodup _ _ HS).
    + intros c' Hc'. apply (sv_cur _ _ HS c'). congruence.
    + intros n z. rewrite get_set_db. destruct (String.eqb_spec c n) as [<-|Hcn].
      * intros H; inversion H; subst z. exists d. split; [exact Ed|]. split; [apply DbInv_flush; exact HD|]. intros _. reflexivity.
      * intros En. destruct (sv_dbs _ _ HS n z En) as (dn' & Edn & HDn & Hmn).
        exists dn'. split; [exact Edn|]. split; [exact HDn|]. rewrite <- Ec. exact Hmn.
  - (* restart *)
    cbn [sess_step].
    set (l := match clean, cur s with
              | true, Some c => match get_db c (dbs s) with Some y => set_db c (close_db y) (dbs s) | None => dbs s end
              | _, _ => dbs s
              end).
    assert (Hl : map fst l = map fst (dbs s) /\
                 forall n y, get_db n l = Some y -> exists d, sp_get n sp = Some d /\ DbInv y d).
    { assert (Hbase : forall n y, get_db n (dbs s) = Some y -> exists d, sp_get n sp = Some d /\ DbInv y d).
      { intros n y En. destruct (sv_dbs _ _ HS n y En) as (d & Ed & HD & _). eauto. }
      unfold l. destruct clean; [|split; [reflexivity | exact Hbase]].
      destruct (cur s) as [c|]; [|split; [reflexivity | exact Hbase]].
      destruct (get_db c (dbs s)) as [yc|] eqn:Eyc; [|split; [reflexivity | exact Hbase]].
      split; [apply (set_db_keys _ _ _ _ Eyc)|].
      intros n y. rewrite get_set_db. destruct (String.eqb_spec c n) as [<-|Hcn]; [|apply Hbase].
      intros H; inversion H; subst y. destruct (Hbase c yc Eyc) as (d & Ed & HD). exists d. split; [exact Ed|].
      apply DbInv_flush. exact HD. }
    destruct Hl as [Hlk Hlp].
    assert (Hnd : NoDup (map fst l)) by (rewrite Hlk, (sv_keys _ _ HS); apply (sv_nodup _ _ HS)).
    destruct (recover_all_spec
                (fun n y' => exists d, sp_get n sp = Some d /\ DbInv y' d /\ disk y' = mem y') l) as (l' & Hr & Hk & Hp).
    { intros n y Hin. pose proof (aget_In_NoDup n y l Hnd Hin) as Eg. rewrite <- get_db_aget in Eg.
      destruct (Hlp n y Eg) as (d & Ed & HD). destruct (DbInv_recover y d HD) as (y' & Hrec & HD' & Hdm & _).
      exists y'. split; [exact Hrec|]. exists d. auto. }
    rewrite Hr. eexists. cbn [fst snd spec_ev]. split; [reflexivity|]. split; [|reflexivity].
    constructor; cbn [dbs cur].
    + rewrite Hk, Hlk. apply (sv_keys _ _ HS).
    + apply (sv_nodup _ _ HS).
    + discriminate.
    + intros n z En. rewrite get_db_aget in En. apply aget_Some_In in En.
      destruct (Hp n z En) as (d & Ed & HD & Hdm). exists d. auto.
Qed.

(* ====================== runs ====================== *)
Lemma sess_run_inv evs : forall s sp sf os,
  SessInv s sp -> sess_hyps2 s evs = true -> sess_run s evs = (sf, os) ->
  exists s', sf = Ok s' /\ SessInv s' (fst (sess_spec_run sp (cur s) evs os)) /\
             cur s' = snd (sess_spec_run sp (cur s) evs os).
Proof.
  induction evs as [|ev r IH]; intros s sp sf os HS Hh Hr.
  - cbn in Hr. inversion Hr; subst. exists s. cbn. auto.
  - cbn [sess_hyps2] in Hh. apply andb_true_iff in Hh as [Hh1 Hh2].
    destruct (sess_step_inv s sp ev HS Hh1) as (s1 & E1 & HS1 & Hc1).
    cbn [sess_run] in Hr. destruct (sess_step s ev) as [r1 o]. cbn [fst snd] in *. subst r1.
    destruct (sess_run s1 r) as [fin os'] eqn:Er. inversion Hr; subst fin os. clear Hr.
    cbn [sess_spec_run]. destruct (spec_ev sp (cur s) ev o) as [sp1 sc1]. cbn [fst snd] in *. subst sc1.
    eapply IH; eauto.
Qed.

Definition reachable2 (s : sess) : Prop :=
  exists evs os, sess_hyps2 init_sess evs = true /\ sess_run init_sess evs = (Ok s, os).

Lemma reachable2_inv s : reachable2 s -> exists sp, SessInv s sp.
Proof.
  intros (evs & os & Hh & Hr). destruct (sess_run_inv evs init_sess [] _ _ SessInv_init Hh Hr) as (s' & E & HS & _).
  inversion E; subst s'. eauto.
Qed.

Definition reachable (s : sess) : Prop :=
  exists evs os, sess_hyps init_sess evs = true /\ sess_run init_sess evs = (Ok s, os).

Lemma reachable_reachable2 s : reachable s -> reachable2 s.
Proof. intros (evs & os & Hh & Hr). exists evs, os. split; [apply sess_hyps_hyps2; exact Hh | exact Hr]. Qed.

Lemma reachable_inv s : reachable s -> exists sp, SessInv s sp.
Proof.
  intros (evs & os & Hh & Hr). apply sess_hyps_hyps2 in Hh. destruct (sess_run_inv evs init_sess [] _ _ SessInv_init Hh Hr) as (s' & E & HS & _).
  inversion E; subst s'. eauto.
Qed.

(* under the hypotheses no event fails or panics (restarts included) *)
Lemma sess_run_total2 evs sf os :
  sess_hyps2 init_sess evs = true -> sess_run init_sess evs = (sf, os) -> exists s, sf = Ok s.
Proof.
  intros Hh Hr. destruct (sess_run_inv evs init_sess [] _ _ SessInv_init Hh Hr) as (s' & E & _). eauto.
Qed.

Lemma sess_run_total evs sf os :
  sess_hyps init_sess evs = true -> sess_run init_sess evs = (sf, os) -> exists s, sf = Ok s.
Proof. intros Hh. apply sess_run_total2. apply sess_hyps_hyps2. exact Hh. Qed.

(* ---------- the specification database of n = the statements acknowledged while n was selected ---------- *)
Lemma tspec_run_app a : forall d b, TableSpec.spec_run d (a ++ b) = TableSpec.spec_run (TableSpec.spec_run d a) b.
Proof.
  induction a as [|st r IH]; intros d b; cbn [app TableSpec.spec_run]; [reflexivity|].
  destruct (spec_exec d st); apply IH.
Qed.

Lemma tspec_run_one d st : TableSpec.spec_run d [st] = spec_step d st.
Proof. unfold spec_step. cbn [TableSpec.spec_run]. destruct (spec_exec d st); reflexivity. Qed.

Lemma spec_ev_sel sp sc ev o : snd (spec_ev sp sc ev o) = sel_ev sc ev o.
Proof. destruct ev as [[]| |]; reflexivity. Qed.

Lemma acked_here_session n sc st o : is_session_stmt st = true -> acked_here n sc (SvStmt st) o = [].
Proof. intros H. unfold acked_here. rewrite H. destruct o as [[]|]; reflexivity. Qed.

Lemma spec_ev_get sp sc ev o n d0 :
  sp_get n sp = Some d0 ->
  sp_get n (fst (spec_ev sp sc ev o)) = Some (TableSpec.spec_run d0 (acked_here n sc ev o)).
Proof.
  intros Hd. destruct ev as [st| |clean]; [|cbn [spec_ev fst acked_here TableSpec.spec_run]; exact Hd ..].
  destruct (is_session_stmt st) eqn:Hss.
  - rewrite (acked_here_session _ _ _ _ Hss). cbn [TableSpec.spec_run].
    destruct st; try discriminate; cbn [spec_ev fst]; try exact Hd.
    destruct o as [[]|]; try exact Hd. rewrite sp_get_aget, aget_app, <- sp_get_aget, Hd. reflexivity.
  - rewrite (spec_ev_plain _ _ _ _ Hss). cbn [fst]. unfold acked_here. rewrite Hss. cbn [negb andb].
    destruct o as [[]|]; cbn [TableSpec.spec_run]; try exact Hd.
    destruct sc as [c|]; [|exact Hd]. cbn [is_sel].
    destruct (String.eqb_spec c n) as [->|Hcn].
    + rewrite Hd, sp_get_set, String.eqb_refl, tspec_run_one. reflexivity.
    + cbn [TableSpec.spec_run]. destruct (sp_get c sp) as [d|]; [|exact Hd].
      rewrite sp_get_set. destruct (String.eqb_spec c n); [contradiction | exact Hd].
Qed.

Lemma spec_ev_absent sp sc ev o n :
  sp_get n sp = None -> sc <> Some n ->
  (sp_get n (fst (spec_ev sp sc ev o)) = None \/ sp_get n (fst (spec_ev sp sc ev o)) = Some []) /\
  acked_here n sc ev o = [].
Proof.
  intros Hd Hsc. destruct ev as [st| |clean]; [|cbn [spec_ev fst acked_here]; auto ..].
  destruct (is_session_stmt st) eqn:Hss.
  - rewrite (acked_here_session _ _ _ _ Hss). split; [|reflexivity].
    destruct st; try discriminate; cbn [spec_ev fst]; auto.
    destruct o as [[]|]; auto. rewrite sp_get_aget, aget_app, <- sp_get_aget, Hd.
    destruct (String.eqb (lower name) n); auto.
  - rewrite (spec_ev_plain _ _ _ _ Hss). cbn [fst]. unfold acked_here. rewrite Hss. cbn [negb andb].
    assert (Hsel : is_sel sc n = false).
    { destruct sc as [c|]; [|reflexivity]. cbn. apply String.eqb_neq. congruence. }
    rewrite Hsel. split; [|destruct o as [[]|]; reflexivity].
    destruct o as [[]|]; auto. destruct sc as [c|]; auto. destruct (sp_get c sp) as [d|]; auto.
    rewrite sp_get_set. destruct (String.eqb_spec c n) as [->|]; [congruence | auto].
Qed.

Lemma sess_run_stmts evs : forall s sp sf os n,
  SessInv s sp -> sess_hyps2 s evs = true -> sess_run s evs = (sf, os) ->
  match sp_get n sp with
  | Some d0 => sp_get n (fst (sess_spec_run sp (cur s) evs os)) =
               Some (TableSpec.spec_run d0 (stmts_while n (cur s) evs os))
  | None => forall d, sp_get n (fst (sess_spec_run sp (cur s) evs os)) = Some d ->
                      d = TableSpec.spec_run [] (stmts_while n (cur s) evs os)
  end.
Proof.
  induction evs as [|ev r IH]; intros s sp sf os n HS Hh Hr.
  - cbn in Hr. inversion Hr; subst. cbn [sess_spec_run stmts_while fst TableSpec.spec_run].
    destruct (sp_get n sp) as [d0|] eqn:Ed; [reflexivity | intros d H; rewrite H in Ed; discriminate].
  - cbn [sess_hyps2] in Hh. apply andb_true_iff in Hh as [Hh1 Hh2].
    destruct (sess_step_inv s sp ev HS Hh1) as (s1 & E1 & HS1 & Hc1).
    cbn [sess_run] in Hr. destruct (sess_step s ev) as [r1 o]. cbn [fst snd] in *. subst r1.
    destruct (sess_run s1 r) as [fin os'] eqn:Er. inversion Hr; subst fin os. clear Hr.
    cbn [sess_spec_run stmts_while].
    pose proof (spec_ev_sel sp (cur s) ev o) as Hsel.
    pose proof (spec_ev_get sp (cur s) ev o n) as Hget. pose proof (spec_ev_absent sp (cur s) ev o n) as Habs.
    destruct (spec_ev sp (cur s) ev o) as [sp1 sc1]. cbn [fst snd] in *. subst sc1. rewrite <- Hsel.
    specialize (IH s1 sp1 _ _ n HS1 Hh2 Er).
    destruct (sp_get n sp) as [d0|] eqn:Ed.
    + rewrite (Hget d0 eq_refl) in IH. rewrite IH, tspec_run_app. reflexivity.
    + assert (Hsc : cur s <> Some n).
      { intros Hc. pose proof (sv_cur _ _ HS n Hc) as Hin. rewrite sp_get_aget in Ed. apply aget_None in Ed. contradiction. }
      destruct (Habs eq_refl Hsc) as [[E|E] ->]; rewrite E in IH; cbn [app]; [exact IH|].
      intros d Hd. rewrite IH in Hd. inversion Hd. reflexivity.
Qed.

(* ====================== 4. isolation ====================== *)
Lemma SessInv_rep s sp n d :
  SessInv s sp -> sp_get n sp = Some d ->
  exists y, get_db n (dbs s) = Some y /\ Rep (logical (cur s) n y) d /\
            (is_sel (cur s) n = false -> Rep (disk y) d /\ mem y = disk y).
Proof.
  intros HS Hd.
  assert (Hin : In n (map fst sp)).
  { rewrite sp_get_aget in Hd. apply aget_Some_In in Hd. change n with (fst (n, d)). apply in_map. exact Hd. }
  destruct (sv_get_some s sp n HS Hin) as [y Ey]. exists y. split; [exact Ey|].
  destruct (sv_dbs _ _ HS n y Ey) as (d' & Ed' & [HR _] & Hm). rewrite Hd in Ed'. inversion Ed'; subst d'.
  unfold logical. destruct (is_sel (cur s) n).
  - split; [exact HR | discriminate].
  - rewrite (Hm eq_refl). split; [exact HR|]. intros _. split; [exact HR | reflexivity].
Qed.

Theorem isolation2 evs s os :
  sess_hyps2 init_sess evs = true -> sess_run init_sess evs = (Ok s, os) ->
  snd (sess_spec_run [] None evs os) = cur s /\
  map fst (dbs s) = map fst (fst (sess_spec_run [] None evs os)) /\
  forall n d, sp_get n (fst (sess_spec_run [] None evs os)) = Some d ->
    d = TableSpec.spec_run [] (stmts_while n None evs os) /\
    exists y, get_db n (dbs s) = Some y /\ Rep (logical (cur s) n y) d /\
              forall t, is_sys t = false -> table_agrees (logical (cur s) n y) d t.
Proof.
  intros Hh Hr. destruct (sess_run_inv evs init_sess [] _ _ SessInv_init Hh Hr) as (s' & E & HS & Hc).
  inversion E; subst s'. cbn [init_sess cur] in *. split; [symmetry; exact Hc|]. split; [apply (sv_keys _ _ HS)|].
  intros n d Hd. split.
  { pose proof (sess_run_stmts evs init_sess [] _ _ n SessInv_init Hh Hr) as X. cbn [sp_get init_sess cur] in X. apply X. exact Hd. }
  destruct (SessInv_rep s _ n d HS Hd) as (y & Ey & HR & _).
  exists y. split; [exact Ey|]. split; [exact HR|]. intros t Ht. apply Rep_table_agrees; assumption.
Qed.

Theorem isolation evs s os :
  sess_hyps init_sess evs = true -> sess_run init_sess evs = (Ok s, os) ->
  snd (sess_spec_run [] None evs os) = cur s /\
  map fst (dbs s) = map fst (fst (sess_spec_run [] None evs os)) /\
  forall n d, sp_get n (fst (sess_spec_run [] None evs os)) = Some d ->
    d = TableSpec.spec_run [] (stmts_while n None evs os) /\
    exists y, get_db n (dbs s) = Some y /\ Rep (logical (cur s) n y) d /\
              forall t, is_sys t = false -> table_agrees (logical (cur s) n y) d t.
Proof. intros Hh. apply isolation2. apply sess_hyps_hyps2. exact Hh. Qed.

(* ====================== 2. SHOW DATABASES ====================== *)
Lemma recover_all_keys : forall l l', recover_all l = Ok l' -> map fst l' = map fst l.
Proof.
  induction l as [|[n y] r IH]; intros l' H; cbn [recover_all] in H.
  - inversion H. reflexivity.
  - destruct (recover y) as [y1|e|]; cbn [bind] in H; try discriminate.
    destruct (recover_all r) as [r'|e|]; cbn [bind] in H; try discriminate.
    inversion H; subst. cbn [map fst]. rewrite (IH r' eq_refl). reflexivity.
Qed.

Lemma step_keys s ev s1 o :
  sess_step s ev = (Ok s1, o) ->
  map fst (dbs s1) = map fst (dbs s) ++ created1 ev o /\
  (NoDup (map fst (dbs s)) -> NoDup (map fst (dbs s1))).
Proof.
  destruct ev as [st| |clean].
  - rewrite sess_step_stmt. destruct (is_session_stmt st) eqn:Hss.
    + destruct st as [q|tn cds|dn| |un|tn cols rows|tn sets w|tn w]; try discriminate; cbn [sess_stmt].
      * (* CREATE DATABASE *)
        destruct (String.eqb (lower dn) ""); [cbn [fst snd]; intros H; inversion H; subst; cbn [created1]; rewrite app_nil_r; auto|].
        destruct (valid_dbname (lower dn)); cbn [negb];
          [|cbn [fst snd]; intros H; inversion H; subst; cbn [created1]; rewrite app_nil_r; auto].
        destruct (get_db (lower dn) (dbs s)) eqn:Eg; cbn [fst snd]; intros H; inversion H; subst; cbn [created1 dbs].
        -- rewrite app_nil_r; auto.
        -- rewrite map_app. split; [reflexivity|]. intros Hnd. apply NoDup_app_intro_single; [exact Hnd|].
           rewrite get_db_aget in Eg. apply aget_None in Eg. exact Eg.
      * (* SHOW *) cbn [fst snd]. intros H; inversion H; subst. cbn [created1]. rewrite app_nil_r. auto.
      * (* USE *)
        destruct (cur s) as [c|].
        -- destruct (String.eqb c (lower un)); [cbn [fst snd]; intros H; inversion H; subst; cbn [created1]; rewrite app_nil_r; auto|].
           destruct (valid_dbname (lower un)); cbn [negb];
             [|cbn [fst snd]; intros H; inversion H; subst; cbn [created1]; rewrite app_nil_r; auto].
           destruct (get_db (lower un) (dbs s)) as [y|] eqn:Ey, (get_db c (dbs s)) as [yc|] eqn:Eyc; cbn [fst snd];
             intros H; inversion H; subst; cbn [created1 dbs]; rewrite app_nil_r; auto.
           assert (Ey' : get_db c (set_db (lower un) (open_db y) (dbs s)) = Some yc \/
                         get_db c (set_db (lower un) (open_db y) (dbs s)) = Some (open_db y)).
           { rewrite get_set_db. destruct (String.eqb (lower un) c); auto. }
           assert (K : map fst (set_db c (close_db yc) (set_db (lower un) (open_db y) (dbs s))) = map fst (dbs s)).
           { destruct Ey' as [E|E]; rewrite (set_db_keys _ _ _ _ E), (set_db_keys _ _ _ _ Ey); reflexivity. }
           rewrite K. auto.
        -- destruct (valid_dbname (lower un)); cbn [negb];
             [|cbn [fst snd]; intros H; inversion H; subst; cbn [created1]; rewrite app_nil_r; auto].
           destruct (get_db (lower un) (dbs s)) as [y|] eqn:Ey; cbn [fst snd];
             intros H; inversion H; subst; cbn [created1 dbs]; rewrite app_nil_r; auto.
           rewrite (set_db_keys _ _ _ _ Ey). auto.
    + rewrite (sess_stmt_plain _ _ Hss).
      assert (Hc : created1 (SvStmt st) o = []) by (destruct st; try discriminate; reflexivity).
      rewrite Hc, app_nil_r. destruct (cur s) as [c|]; [|cbn [fst snd]; intros H; inversion H; subst; auto].
      destruct (get_db c (dbs s)) as [y|] eqn:Ey; cbn [fst snd]; [|discriminate].
      destruct (sout_of (snd (exec y st))); intros H; inversion H; subst; cbn [dbs]; rewrite (set_db_keys _ _ _ _ Ey); auto.
  - cbn [sess_step created1]. rewrite app_nil_r. destruct (cur s) as [c|]; [|intros H; inversion H; subst; auto].
    destruct (get_db c (dbs s)) as [y|] eqn:Ey; intros H; inversion H; subst; auto.
    cbn [dbs]. rewrite (set_db_keys _ _ _ _ Ey). auto.
  - cbn [sess_step created1]. rewrite app_nil_r.
    set (l := match clean, cur s with
              | true, Some c => match get_db c (dbs s) with Some y => set_db c (close_db y) (dbs s) | None => dbs s end
              | _, _ => dbs s
              end).
    assert (Hl : map fst l = map fst (dbs s)).
    { unfold l. destruct clean; [|reflexivity]. destruct (cur s) as [c|]; [|reflexivity].
      destruct (get_db c (dbs s)) as [y|] eqn:Ey; [|reflexivity]. apply (set_db_keys _ _ _ _ Ey). }
    destruct (recover_all l) as [l'|e|] eqn:Er; intros H; inversion H; subst. cbn [dbs].
    rewrite (recover_all_keys _ _ Er), Hl. auto.
Qed.

Lemma run_keys evs : forall s s' os,
  sess_run s evs = (Ok s', os) ->
  map fst (dbs s') = map fst (dbs s) ++ created evs os /\
  (NoDup (map fst (dbs s)) -> NoDup (map fst (dbs s'))).
Proof.
  induction evs as [|ev r IH]; intros s s' os Hr.
  - cbn in Hr. inversion Hr; subst. cbn [created]. rewrite app_nil_r. auto.
  - cbn [sess_run] in Hr. destruct (sess_step s ev) as [[s1|e|] o] eqn:Es; try (inversion Hr; fail).
    destruct (sess_run s1 r) as [fin os'] eqn:Er. inversion Hr; subst fin os. clear Hr.
    destruct (step_keys _ _ _ _ Es) as [K1 N1]. destruct (IH _ _ _ Er) as [K2 N2].
    cbn [created]. split; [rewrite K2, K1, app_assoc; reflexivity | auto].
Qed.

Lemma lower_ascii_idem c : lower_ascii (lower_ascii c) = lower_ascii c.
Proof. destruct c as [[] [] [] [] [] [] [] []]; reflexivity. Qed.

Lemma lower_idem n : lower (lower n) = lower n.
Proof. induction n as [|c r IH]; cbn [lower]; [reflexivity|]. rewrite lower_ascii_idem, IH. reflexivity. Qed.

Lemma created_lower evs : forall os, Forall (fun n => lower n = n) (created evs os).
Proof.
  induction evs as [|ev r IH]; intros [|o orr]; cbn [created]; try constructor.
  apply Forall_app. split; [|apply IH].
  destruct ev as [[]| |]; cbn [created1]; try constructor. destruct o as [[]|]; constructor; [apply lower_idem | constructor].
Qed.

Theorem show_lists_created evs s os :
  sess_run init_sess evs = (Ok s, os) ->
  sess_stmt s SShowDatabase = (s, SOShow (sort_strs (created evs os))) /\
  map fst (dbs s) = created evs os /\ NoDup (created evs os) /\ Forall (fun n => lower n = n) (created evs os).
Proof.
  intros Hr. destruct (run_keys evs init_sess s os Hr) as [K N]. cbn [init_sess dbs map app] in K, N.
  split; [cbn [sess_stmt]; rewrite K; reflexivity|]. split; [exact K|]. split; [rewrite <- K; apply N; constructor | apply created_lower].
Qed.

(* the specification state has exactly one database per created name *)
Lemma spec_run_keys evs : forall sp sc os,
  map fst (fst (sess_spec_run sp sc evs os)) = map fst sp ++ created evs os.
Proof.
  induction evs as [|ev r IH]; intros sp sc [|o orr]; cbn [sess_spec_run created]; try (rewrite app_nil_r; reflexivity).
  destruct (spec_ev sp sc ev o) as [sp1 sc1] eqn:Ev. rewrite IH, app_assoc. f_equal.
  replace sp1 with (fst (spec_ev sp sc ev o)) by (rewrite Ev; reflexivity). clear Ev sp1 sc1.
  destruct ev as [st| |clean]; [|cbn [spec_ev fst created1]; rewrite app_nil_r; reflexivity ..].
  destruct (is_session_stmt st) eqn:Hss.
  - destruct st; try discriminate; cbn [spec_ev created1 fst]; try (rewrite app_nil_r; reflexivity).
    destruct o as [[]|]; try (rewrite app_nil_r; reflexivity). rewrite map_app. reflexivity.
  - rewrite (spec_ev_plain _ _ _ _ Hss). cbn [fst].
    assert (Hc : created1 (SvStmt st) o = []) by (destruct st; try discriminate; reflexivity).
    rewrite Hc, app_nil_r. destruct o as [[]|]; try reflexivity. destruct sc as [c|]; [|reflexivity].
    destruct (sp_get c sp) as [d|] eqn:Ed; [|reflexivity]. apply (sp_set_keys _ _ _ _ Ed).
Qed.

(* ====================== C18: no statement panics in a reachable session state ====================== *)
Definition stmt_bounded (s : sess) (st : stmt) : bool :=
  is_session_stmt st ||
  match cur s with
  | Some c => match get_db c (dbs s) with
              | Some y => np_hyp (mem y) st
              | None => true
              end
  | None => true
  end.

Lemma SessInv_no_panic s sp st : SessInv s sp -> stmt_bounded s st = true -> snd (sess_stmt s st) <> SOPanic.
Proof.
  intros HS Hb. unfold stmt_bounded in Hb. destruct (is_session_stmt st) eqn:Hss.
  - destruct st as [q|tn cds|dn| |un|tn cols rows|tn sets w|tn w]; try discriminate; cbn [sess_stmt].
    + destruct (String.eqb (lower dn) ""); [cbn; discriminate|].
      destruct (valid_dbname (lower dn)); cbn [negb]; [|cbn; discriminate].
      destruct (get_db (lower dn) (dbs s)); cbn; discriminate.
    + destruct (cur s) as [c|] eqn:Ec.
      * destruct (String.eqb c (lower un)); [cbn; discriminate|].
        destruct (valid_dbname (lower un)); cbn [negb]; [|cbn; discriminate].
        destruct (sv_get_some s sp c HS (sv_cur _ _ HS c Ec)) as [yc ->].
        destruct (get_db (lower un) (dbs s)); cbn; discriminate.
      * destruct (valid_dbname (lower un)); cbn [negb]; [|cbn; discriminate].
        destruct (get_db (lower un) (dbs s)); cbn; discriminate.
  - cbn [orb] in Hb. rewrite (sess_stmt_plain _ _ Hss). destruct (cur s) as [c|] eqn:Ec; [|cbn; discriminate].
    destruct (sv_get_some s sp c HS (sv_cur _ _ HS c Ec)) as [y Ey]. rewrite Ey in *. cbn [snd].
    destruct (sv_dbs _ _ HS _ _ Ey) as (d & _ & [HR _] & _).
    pose proof (run_stmt_no_panic (mem y) d st HR Hb) as Hnp.
    unfold exec. cbn [snd]. destruct (e_out (run_stmt (mem y) st)); cbn [sout_of]; congruence.
Qed.

Theorem statement_no_panic s st : reachable s -> stmt_bounded s st = true -> snd (sess_stmt s st) <> SOPanic.
Proof. intros Hr Hb. destruct (reachable_inv s Hr) as [sp HS]. eapply SessInv_no_panic; eauto. Qed.
