(* C06: the nested-loop join of the model produces, as a multiset, the declarative join
   (matching pairs, plus NULL-padded unmatched outer rows), for every join tree; and the
   naming rules (alias / table name, self-join, ambiguity). *)
From Coq Require Import ZArith String Bool List Ascii Permutation Lia.
From Mkdb Require Import Model.CaseLib Model.Select Spec.SelectSpec
     Proofs.SelectOrder Proofs.SelectEval.
Import ListNotations.

(* ---------------------------------------------------------------------------------- *)
(* the loops compute filters and flat_maps when the condition is typed on every pair   *)

Lemma join_scan_pure cond tf mk inner :
  (forall x, In x inner -> is_some (sem_cond cond tf (mk x)) = true) ->
  join_scan cond tf mk inner = Ok (filter (holds cond tf) (map mk inner)).
Proof.
  induction inner as [|x inner IH]; intros H; cbn; auto.
  rewrite (holds_eval _ _ _ (H x (or_introl eq_refl))). cbn.
  rewrite IH by (intros y Hy; apply H; right; auto). cbn.
  destruct (holds cond tf (mk x)); reflexivity.
Qed.

Definition outer_rows (c : row -> bool) (mk : row -> row -> row) (pad : option (row -> row))
           (inner : list row) (o : row) : list row :=
  match filter c (map (mk o) inner), pad with
  | [], Some p => [p o]
  | ms, _ => ms
  end.

Lemma join_outer_pure cond tf mk pad outer inner :
  (forall o x, In o outer -> In x inner -> is_some (sem_cond cond tf (mk o x)) = true) ->
  join_outer cond tf mk pad outer inner =
  Ok (flat_map (outer_rows (holds cond tf) mk pad inner) outer).
Proof.
  induction outer as [|o outer IH]; intros H; cbn; auto.
  rewrite join_scan_pure by (intros x Hx; apply H; cbn; auto). cbn.
  rewrite IH by (intros o' x Ho Hx; apply H; cbn; auto). cbn.
  unfold outer_rows. destruct (filter (holds cond tf) (map (mk o) inner)), pad; reflexivity.
Qed.

(* ---------------------------------------------------------------------------------- *)
(* permutation lemmas                                                                  *)

Lemma flat_map_pointwise {A B} (f g : A -> list B) l :
  (forall x, In x l -> Permutation (f x) (g x)) -> Permutation (flat_map f l) (flat_map g l).
Proof.
  induction l as [|a l IH]; intros H; cbn; auto.
  apply Permutation_app; [apply H; left; auto | apply IH; intros x Hx; apply H; right; auto].
Qed.

Lemma flat_map_app_perm {A B} (f g : A -> list B) l :
  Permutation (flat_map (fun x => f x ++ g x) l) (flat_map f l ++ flat_map g l).
Proof.
  induction l as [|a l IH]; cbn; auto.
  rewrite IH. rewrite <- !app_assoc. apply Permutation_app_head.
  rewrite !app_assoc. apply Permutation_app_tail. apply Permutation_app_comm.
Qed.

Lemma filter_perm {A} (p : A -> bool) l l' : Permutation l l' -> Permutation (filter p l) (filter p l').
Proof.
  induction 1; cbn; auto.
  - destruct (p x); auto.
  - destruct (p x), (p y); auto. apply perm_swap.
  - etransitivity; eauto.
Qed.

Lemma matching_perm_l c L L' R : Permutation L L' -> Permutation (matching c L R) (matching c L' R).
Proof. intros P. unfold matching. apply Permutation_flat_map. exact P. Qed.

Lemma matching_perm_r c L R R' : Permutation R R' -> Permutation (matching c L R) (matching c L R').
Proof.
  intros P. unfold matching. apply flat_map_pointwise. intros l _.
  apply filter_perm. apply Permutation_map. exact P.
Qed.

Lemma forallb_perm_eq {A} (p : A -> bool) l l' : Permutation l l' -> forallb p l = forallb p l'.
Proof.
  induction 1; cbn; auto.
  - congruence.
  - destruct (p x), (p y); reflexivity.
  - congruence.
Qed.

Lemma unmatched_left_perm c L L' R R' n :
  Permutation L L' -> Permutation R R' -> Permutation (unmatched_left c L R n) (unmatched_left c L' R' n).
Proof.
  intros PL PR. unfold unmatched_left. apply Permutation_map.
  rewrite (filter_ext _ (fun l => forallb (fun r => negb (c (l ++ r))) R')).
  - apply filter_perm. exact PL.
  - intros l. apply forallb_perm_eq. exact PR.
Qed.

Lemma unmatched_right_perm c L L' R R' n :
  Permutation L L' -> Permutation R R' -> Permutation (unmatched_right c L R n) (unmatched_right c L' R' n).
Proof.
  intros PL PR. unfold unmatched_right. apply Permutation_map.
  rewrite (filter_ext _ (fun r => forallb (fun l => negb (c (l ++ r))) L')).
  - apply filter_perm. exact PR.
  - intros r. apply forallb_perm_eq. exact PL.
Qed.

Lemma filter_nil_forallb {A} (p : A -> bool) l : filter p l = [] <-> forallb (fun x => negb (p x)) l = true.
Proof.
  induction l as [|a l IH]; cbn; [tauto|].
  destruct (p a); cbn; [split; discriminate | exact IH].
Qed.

(* LEFT join: interleaved output = matching pairs ++ padded unmatched rows *)
Lemma left_rows_perm c L R n :
  Permutation (flat_map (outer_rows c (fun l r => l ++ r) (Some (fun l => l ++ nulls n)) R) L)
              (matching c L R ++ unmatched_left c L R n).
Proof.
  unfold matching, unmatched_left. induction L as [|l L IH]; cbn; auto.
  unfold outer_rows at 1. unfold row in *.
  destruct (filter c (map (fun r => l ++ r) R)) as [|m ms] eqn:E.
  - assert (F : forallb (fun r => negb (c (l ++ r))) R = true).
    { apply filter_nil_forallb in E. rewrite forallb_forall in *. intros r Hr. apply (E (l ++ r)).
      apply in_map_iff. eauto. }
    rewrite F. cbn. rewrite IH. apply Permutation_middle.
  - assert (F : forallb (fun r => negb (c (l ++ r))) R = false).
    { destruct (forallb (fun r => negb (c (l ++ r))) R) eqn:F; auto.
      assert (filter c (map (fun r => l ++ r) R) = []).
      { apply filter_nil_forallb. rewrite forallb_forall in *. intros x Hx. apply in_map_iff in Hx.
        destruct Hx as [r [<- Hr]]. auto. }
      congruence. }
    rewrite F. rewrite IH. rewrite <- app_assoc. reflexivity.
Qed.

Lemma filter_as_flat_map {A B} (c : B -> bool) (h : A -> B) l :
  filter c (map h l) = flat_map (fun x => if c (h x) then [h x] else []) l.
Proof. induction l as [|a l IH]; cbn; auto. rewrite IH. destruct (c (h a)); reflexivity. Qed.

(* swapping the two loops *)
Lemma matching_swap c L R :
  Permutation (flat_map (fun r => filter c (map (fun l => l ++ r) L)) R) (matching c L R).
Proof.
  unfold matching. induction R as [|r R IH]; cbn.
  - induction L; cbn; auto.
  - rewrite IH. rewrite filter_as_flat_map. rewrite <- flat_map_app_perm.
    apply flat_map_pointwise. intros l _. destruct (c (l ++ r)); reflexivity.
Qed.

Lemma right_rows_perm c L R n :
  Permutation (flat_map (outer_rows c (fun r l => l ++ r) (Some (fun r => nulls n ++ r)) L) R)
              (matching c L R ++ unmatched_right c L R n).
Proof.
  rewrite <- matching_swap. unfold unmatched_right. induction R as [|r R IH]; cbn; auto.
  unfold outer_rows at 1. unfold row in *.
  destruct (filter c (map (fun l => l ++ r) L)) as [|m ms] eqn:E.
  - assert (F : forallb (fun l => negb (c (l ++ r))) L = true).
    { apply filter_nil_forallb in E. rewrite forallb_forall in *. intros l Hl. apply (E (l ++ r)).
      apply in_map_iff. eauto. }
    rewrite F. cbn. rewrite IH. apply Permutation_middle.
  - assert (F : forallb (fun l => negb (c (l ++ r))) L = false).
    { destruct (forallb (fun l => negb (c (l ++ r))) L) eqn:F; auto.
      assert (filter c (map (fun l => l ++ r) L) = []).
      { apply filter_nil_forallb. rewrite forallb_forall in *. intros x Hx. apply in_map_iff in Hx.
        destruct Hx as [l [<- Hl]]. auto. }
      congruence. }
    rewrite F. rewrite IH. rewrite <- app_assoc. reflexivity.
Qed.

Lemma inner_rows_eq c L R :
  flat_map (outer_rows c (fun l r => l ++ r) None R) L = matching c L R.
Proof.
  unfold matching. apply flat_map_ext. intros l. unfold outer_rows, row in *.
  destruct (filter c (map (fun r => l ++ r) R)); reflexivity.
Qed.

(* ---------------------------------------------------------------------------------- *)
(* the theorem                                                                         *)

Theorem join_model_meets_spec d : forall j fs base,
  join_sem d j = Some (fs, base) ->
  exists rows, nested_loop_join d j = Ok (fs, rows) /\ Permutation rows base.
Proof.
  induction j as [name alias | l IHl jt r IHr cond]; intros fs base H.
  - cbn in *. destruct (fetch d name) as [[cols rows]|]; cbn in H; try discriminate.
    destruct (forallb (fun rw : list value => Nat.eqb (List.length rw) (List.length cols)) rows); try discriminate.
    inversion H; subst. eexists. split; reflexivity.
  - cbn [join_sem] in H.
    destruct (join_sem d l) as [[lf L]|] eqn:El; cbn in H; try discriminate.
    destruct (join_sem d r) as [[rf R]|] eqn:Er; cbn in H; try discriminate.
    destruct (forallb (fun lr => forallb (fun rr => is_some (sem_cond cond (lf ++ rf) (lr ++ rr))) R) L) eqn:WT; try discriminate.
    destruct (IHl _ _ eq_refl) as [L' [ML PL]]. destruct (IHr _ _ eq_refl) as [R' [MR PR]].
    assert (Typed : forall lr rr, In lr L' -> In rr R' -> is_some (sem_cond cond (lf ++ rf) (lr ++ rr)) = true).
    { intros lr rr Hl Hr. rewrite forallb_forall in WT.
      assert (Hl' : In lr L) by (eapply Permutation_in; eauto).
      assert (Hr' : In rr R) by (eapply Permutation_in; eauto).
      specialize (WT lr Hl'). rewrite forallb_forall in WT. auto. }
    cbn [nested_loop_join]. rewrite ML, MR. cbn [Select.obind].
    destruct jt; try discriminate; inversion H; subst; clear H.
    + (* LEFT *)
      rewrite join_outer_pure by (intros; apply Typed; auto). cbn. eexists. split; [reflexivity|].
      rewrite left_rows_perm. apply Permutation_app.
      * rewrite (matching_perm_l _ _ _ _ PL). apply matching_perm_r. exact PR.
      * apply unmatched_left_perm; auto.
    + (* RIGHT *)
      rewrite join_outer_pure by (intros; apply Typed; auto). cbn. eexists. split; [reflexivity|].
      rewrite right_rows_perm. apply Permutation_app.
      * rewrite (matching_perm_l _ _ _ _ PL). apply matching_perm_r. exact PR.
      * apply unmatched_right_perm; auto.
    + (* INNER *)
      rewrite join_outer_pure by (intros; apply Typed; auto). cbn. eexists. split; [reflexivity|].
      rewrite inner_rows_eq. rewrite (matching_perm_l _ _ _ _ PL). apply matching_perm_r. exact PR.
Qed.

Theorem join_model_joinspec j d :
  join_tree_ok j d = true -> exists res, nested_loop_join d j = Ok res /\ JoinSpec j d res.
Proof.
  unfold join_tree_ok, JoinSpec. destruct (join_sem d j) as [[fs base]|] eqn:E; try discriminate. intros _.
  destruct (join_model_meets_spec d j fs base E) as [rows [M P]].
  exists (fs, rows). split; auto. exists fs, base. auto.
Qed.

Lemma fields_eqb_iff a b : fields_eqb a b = true <-> a = b.
Proof.
  apply (list_eqb_spec field_eqb). intros [x y] [x' y']. unfold field_eqb. cbn.
  rewrite andb_true_iff, !String.eqb_eq. split; [intros [-> ->]; auto | intros H; inversion H; auto].
Qed.

Theorem check_join_iff j d res : check_join j d res = true <-> JoinSpec j d res.
Proof.
  unfold check_join, JoinSpec. destruct (join_sem d j) as [[fs base]|].
  - rewrite andb_true_iff, fields_eqb_iff, perm_b_iff. split.
    + intros [-> P]. exists fs, base. auto.
    + intros [fs' [base' [E [-> P]]]]. inversion E; subst. auto.
  - split; [discriminate | intros [? [? [? _]]]; discriminate].
Qed.

(* ---------------------------------------------------------------------------------- *)
(* names: alias / table name, self-join, ambiguity                                     *)

Definition fields_of (tid : string) (cols : list string) : list field := map (fun c => (tid, c)) cols.

Lemma positions_app {A} (p : A -> bool) l1 l2 k :
  positions_from p (l1 ++ l2) k = positions_from p l1 k ++ positions_from p l2 (k + List.length l1).
Proof.
  revert k. induction l1 as [|a l1 IH]; intros k; cbn.
  - rewrite Nat.add_0_r. reflexivity.
  - rewrite IH. replace (S k + List.length l1)%nat with (k + S (List.length l1))%nat by lia.
    destruct (p a); reflexivity.
Qed.

Lemma positions_none {A} (p : A -> bool) l k : (forall x, In x l -> p x = false) -> positions_from p l k = [].
Proof.
  revert k. induction l as [|a l IH]; intros k H; cbn; auto.
  rewrite (H a) by (left; auto). apply IH. intros x Hx. apply H. right; auto.
Qed.

Lemma positions_some {A} (p : A -> bool) l k x : In x l -> p x = true -> positions_from p l k <> [].
Proof.
  revert k. induction l as [|a l IH]; intros k Hin Hp; [contradiction|]. destruct Hin as [<-|Hx]; cbn.
  - rewrite Hp. discriminate.
  - destruct (p a); [discriminate | apply IH; auto].
Qed.

Lemma positions_col tid cols c (q : field -> bool) : forall i k,
  NoDup cols -> nth_error cols i = Some c ->
  (forall f, q f = String.eqb (snd f) c && q (fst f, c)) -> q (tid, c) = true ->
  positions_from q (fields_of tid cols) k = [(k + i)%nat].
Proof.
  unfold fields_of. induction cols as [|a cols IH]; intros i k ND Hn Hq Ht; [destruct i; discriminate|].
  inversion ND as [|? ? Ha ND']; subst. destruct i as [|i]; cbn in Hn.
  - inversion Hn; subst a. cbn. rewrite Ht. rewrite Nat.add_0_r. f_equal.
    apply positions_none. intros f Hf. apply in_map_iff in Hf. destruct Hf as [c' [<- Hc']].
    rewrite Hq. cbn. destruct (String.eqb c' c) eqn:E; auto. apply String.eqb_eq in E. subst. contradiction.
  - cbn. assert (E : q (tid, a) = false).
    { rewrite Hq. cbn. destruct (String.eqb a c) eqn:E; auto. apply String.eqb_eq in E. subst.
      exfalso. apply Ha. eapply nth_error_In; eauto. }
    rewrite E. rewrite (IH i (S k) ND' Hn Hq Ht). f_equal. lia.
Qed.

Lemma find_qualified q c fs :
  q <> ""%string ->
  find_column (mkCol q c) fs =
  match positions_from (fun f => String.eqb (snd f) c && String.eqb (fst f) q) fs 0 with
  | [] => Err EFieldNotFound
  | i :: _ => Ok i
  end.
Proof.
  intros Hq. unfold find_column, lookup_col_idx_by_id, match_idxs. cbn.
  destruct (String.eqb q "") eqn:E; [apply String.eqb_eq in E; congruence|].
  rewrite match_idxs_positions. reflexivity.
Qed.

Lemma find_unqualified c fs :
  find_column (mkCol "" c) fs =
  match positions_from (fun f => String.eqb (snd f) c) fs 0 with
  | [] => Err EFieldNotFound
  | [i] => Ok i
  | _ => Err EFieldAmbiguous
  end.
Proof. unfold find_column, lookup_field_idx, match_idxs. cbn. rewrite match_idxs_positions. reflexivity. Qed.

(* a table is addressed by its alias when it has one, by its name otherwise *)
Theorem names_by_alias d n a cols rows c i :
  fetch d n = Some (cols, rows) -> NoDup cols -> nth_error cols i = Some c -> a <> ""%string ->
  exists fs, nested_loop_join d (TRName n (Some a)) = Ok (fs, rows) /\
    find_column (mkCol a c) fs = Ok i /\
    find_column (mkCol "" c) fs = Ok i /\
    (n <> a -> n <> ""%string -> find_column (mkCol n c) fs = Err EFieldNotFound).
Proof.
  intros F ND Hn Ha. cbn [nested_loop_join]. rewrite F. eexists. split; [reflexivity|].
  change (map (fun c0 : string => (a, c0)) cols) with (fields_of a cols). repeat split.
  - rewrite find_qualified by auto.
    rewrite (positions_col a cols c _ i 0 ND Hn); auto.
    + intros f. cbn. rewrite String.eqb_refl. destruct (String.eqb (snd f) c); reflexivity.
    + cbn. rewrite !String.eqb_refl. reflexivity.
  - rewrite find_unqualified. rewrite (positions_col a cols c _ i 0 ND Hn); auto.
    + intros f. cbn. rewrite String.eqb_refl, andb_true_r. reflexivity.
    + cbn. apply String.eqb_refl.
  - intros Hna Hn0. rewrite find_qualified by auto. rewrite positions_none; auto.
    intros f Hf. apply in_map_iff in Hf. destruct Hf as [c' [<- _]]. cbn.
    destruct (String.eqb a n) eqn:E; [apply String.eqb_eq in E; congruence|]. apply andb_false_r.
Qed.

Theorem names_by_table_name d n cols rows c i :
  fetch d n = Some (cols, rows) -> NoDup cols -> nth_error cols i = Some c -> n <> ""%string ->
  exists fs, nested_loop_join d (TRName n None) = Ok (fs, rows) /\ find_column (mkCol n c) fs = Ok i.
Proof.
  intros F ND Hn Hn0. cbn [nested_loop_join]. rewrite F. eexists. split; [reflexivity|].
  change (map (fun c0 : string => (n, c0)) cols) with (fields_of n cols).
  rewrite find_qualified by auto. rewrite (positions_col n cols c _ i 0 ND Hn); auto.
  - intros f. cbn. rewrite String.eqb_refl. destruct (String.eqb (snd f) c); reflexivity.
  - cbn. rewrite !String.eqb_refl. reflexivity.
Qed.

(* the same table joined to itself under two aliases: each side is addressable, the bare
   column name is ambiguous *)
Theorem names_self_join a b cols c i :
  NoDup cols -> nth_error cols i = Some c -> a <> b -> a <> ""%string -> b <> ""%string ->
  let fs := fields_of a cols ++ fields_of b cols in
  find_column (mkCol a c) fs = Ok i /\
  find_column (mkCol b c) fs = Ok (List.length cols + i)%nat /\
  find_column (mkCol "" c) fs = Err EFieldAmbiguous.
Proof.
  intros ND Hn Hab Ha Hb fs. unfold fs.
  assert (La : @List.length (string * string) (fields_of a cols) = List.length cols) by apply map_length.
  repeat split.
  - rewrite find_qualified by auto. rewrite positions_app.
    rewrite (positions_col a cols c _ i 0 ND Hn); auto.
    + intros f. cbn. rewrite String.eqb_refl. destruct (String.eqb (snd f) c); reflexivity.
    + cbn. rewrite !String.eqb_refl. reflexivity.
  - rewrite find_qualified by auto. rewrite positions_app.
    rewrite positions_none.
    + rewrite La. cbn. rewrite (positions_col b cols c _ i _ ND Hn); auto.
      * intros f. cbn. rewrite String.eqb_refl. destruct (String.eqb (snd f) c); reflexivity.
      * cbn. rewrite !String.eqb_refl. reflexivity.
    + intros f Hf. apply in_map_iff in Hf. destruct Hf as [c' [<- _]]. cbn.
      destruct (String.eqb a b) eqn:E; [apply String.eqb_eq in E; congruence|]. apply andb_false_r.
  - rewrite find_unqualified. rewrite positions_app.
    rewrite (positions_col a cols c _ i 0 ND Hn), La; auto.
    + rewrite (positions_col b cols c _ i _ ND Hn); auto.
      * intros f. cbn. rewrite String.eqb_refl, andb_true_r. reflexivity.
      * cbn. apply String.eqb_refl.
    + intros f. cbn. rewrite String.eqb_refl, andb_true_r. reflexivity.
    + cbn. apply String.eqb_refl.
Qed.

(* an unqualified name that exists on both sides of a join is ambiguous ... *)
Lemma positions_some_len {A} (p : A -> bool) l k x : In x l -> p x = true -> (1 <= List.length (positions_from p l k))%nat.
Proof.
  intros H1 H2. pose proof (positions_some p l k x H1 H2). destruct (positions_from p l k); [congruence | cbn; lia].
Qed.

Lemma ambiguous_of_two (l : list nat) :
  (1 + 1 <= List.length l)%nat ->
  match l with [] => Err EFieldNotFound | [i] => Ok i | _ => Err EFieldAmbiguous end = Err EFieldAmbiguous.
Proof. destruct l as [|x [|y l]]; cbn; intros H; try lia. reflexivity. Qed.

Theorem names_ambiguous (lf rf : list field) c :
  In c (map snd lf) -> In c (map snd rf) -> find_column (mkCol "" c) (lf ++ rf) = Err EFieldAmbiguous.
Proof.
  intros Hl Hr. rewrite find_unqualified, positions_app.
  apply in_map_iff in Hl. destruct Hl as [f1 [E1 H1]]. apply in_map_iff in Hr. destruct Hr as [f2 [E2 H2]].
  apply ambiguous_of_two. rewrite app_length.
  apply Nat.add_le_mono.
  - apply (positions_some_len _ lf _ f1 H1). cbn. rewrite E1. apply String.eqb_refl.
  - apply (positions_some_len _ rf _ f2 H2). cbn. rewrite E2. apply String.eqb_refl.
Qed.

(* ... and a join whose condition starts with such a name is rejected as soon as one pair of
   rows is looked at, whatever the join type *)
Theorem join_rejects_ambiguous d l r jt c op rhs lf L rf R :
  nested_loop_join d l = Ok (lf, L) -> nested_loop_join d r = Ok (rf, R) ->
  L <> [] -> R <> [] -> jt <> JFull ->
  In c (map snd lf) -> In c (map snd rf) ->
  nested_loop_join d (TRJoin l jt r (EPred (XCol (mkCol "" c)) op rhs)) = Err EFieldAmbiguous.
Proof.
  intros ML MR NL NR NF Hl Hr. cbn [nested_loop_join]. rewrite ML, MR. cbn [Select.obind].
  destruct L as [|l0 L]; [congruence|]. destruct R as [|r0 R]; [congruence|].
  pose proof (names_ambiguous lf rf c Hl Hr) as A.
  destruct jt; try congruence;
    cbn [join_outer join_scan evaluate Select.obind]; unfold eval_cmp; cbn [eval_primary Select.obind];
    rewrite A; reflexivity.
Qed.
