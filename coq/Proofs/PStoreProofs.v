(* C16: under the discipline `ok_run`, a bounded page cache is invisible - every page reads as
   in the unbounded reference map, for every capacity and every flush visiting order. *)
From Coq Require Import List NArith Bool Arith Lia.
From Mkdb Require Import Model.Lru Proofs.LruProofs Model.PStore Spec.PStoreSpec.
Import ListNotations.
Open Scope N_scope.

(* ---- association maps ---- *)
Lemma aget_aset_same k v m : aget k (aset k v m) = Some v.
Proof.
  induction m as [|[a x] r IH]; cbn; [rewrite N.eqb_refl; reflexivity|].
  destruct (N.eqb_spec a k) as [->|Hne]; cbn; [rewrite N.eqb_refl; reflexivity|].
  destruct (N.eqb_spec a k); [contradiction | exact IH].
Qed.

Lemma aget_aset_other k k' v m : k <> k' -> aget k' (aset k v m) = aget k' m.
Proof.
  intros Hne. induction m as [|[a x] r IH]; cbn.
  - destruct (N.eqb_spec k k'); [contradiction | reflexivity].
  - destruct (N.eqb_spec a k) as [->|Hne2]; cbn.
    + destruct (N.eqb_spec k k'); [contradiction | reflexivity].
    + destruct (N.eqb_spec a k'); [reflexivity | exact IH].
Qed.

Lemma heap_get_aset_same o c h : heap_get o (aset o c h) = c.
Proof. unfold heap_get. rewrite aget_aset_same. reflexivity. Qed.
Lemma heap_get_aset_other o o' c h : o <> o' -> heap_get o' (aset o c h) = heap_get o' h.
Proof. intros H. unfold heap_get. rewrite aget_aset_other by exact H. reflexivity. Qed.
Lemma file_get_aset_same k c f : file_get k (aset k c f) = c.
Proof. unfold file_get. rewrite aget_aset_same. reflexivity. Qed.
Lemma file_get_aset_other k k' c f : k <> k' -> file_get k' (aset k c f) = file_get k' f.
Proof. intros H. unfold file_get. rewrite aget_aset_other by exact H. reflexivity. Qed.
Lemma ref_get_aset_same k c m : ref_get k (aset k c m) = c.
Proof. unfold ref_get. rewrite aget_aset_same. reflexivity. Qed.
Lemma ref_get_aset_other k k' c m : k <> k' -> ref_get k' (aset k c m) = ref_get k' m.
Proof. intros H. unfold ref_get. rewrite aget_aset_other by exact H. reflexivity. Qed.

(* ---- facts about LRU entries ---- *)
Lemma find_entry_in_keys k l e : find_entry k l = Some e -> In e l /\ ekey e = k.
Proof. apply find_entry_some. Qed.

Lemma find_entry_unique l e :
  NoDup (keys l) -> In e l -> find_entry (ekey e) l = Some e.
Proof.
  induction l as [|a l IH]; cbn; intros Hnd Hin; [contradiction|].
  inversion Hnd as [|? ? Hn Hd]; subst. destruct Hin as [->|Hin].
  - rewrite N.eqb_refl. reflexivity.
  - destruct (N.eqb_spec (ekey a) (ekey e)) as [E|_]; [|auto].
    exfalso. apply Hn. rewrite E. apply in_map. exact Hin.
Qed.

(* the invariant *)
Record PInv (s : pstore) (ref : amap) (pend : list N) : Prop := mkPInv {
  pi_lru : Inv (ps_cache s);
  pi_view : forall k, ps_view s k = ref_get k ref;
  pi_clean : forall e, In e (entries (ps_cache s)) -> edirty e = false -> ~ In (ekey e) pend ->
                       heap_get (eval e) (ps_heap s) = file_get (ekey e) (ps_file s);
  pi_fresh : forall e, In e (entries (ps_cache s)) -> eval e < ps_next s;
  pi_objs : NoDup (map eval (entries (ps_cache s)))
}.

Lemma cached_obj_lookup k s : cached_obj k s = lookup k (ps_cache s).
Proof. reflexivity. Qed.

Lemma In_removeN k x l : In x (removeN k l) <-> In x l /\ x <> k.
Proof.
  induction l as [|a l IH]; cbn; [tauto|].
  destruct (N.eqb_spec a k) as [->|Hne]; cbn; rewrite IH; split.
  - intros [A B]; auto.
  - intros [[A|A] B]; [congruence | auto].
  - intros [A|[A B]]; [subst; auto | auto].
  - intros [[A|A] B]; auto.
Qed.

Lemma PInv_init cap : PInv (ps_init cap) [] [].
Proof.
  constructor; cbn.
  - apply Inv_init.
  - intros k. reflexivity.
  - intros e [].
  - intros e [].
  - constructor.
Qed.

(* entries after a successful set: the new entry in front of old entries (minus key / victim) *)
Lemma set_entries c k v d c1 ev :
  lru_step c (OSet k v d) = (c1, RSet true ev) ->
  exists rest, entries c1 = mkEntry k v d :: rest /\ (forall e, In e rest -> In e (entries c)) /\
               (forall e, In e rest -> ekey e <> k \/ True).
Proof.
  cbn. destruct (find_entry k (entries c)) as [e0|].
  - intros H; inversion H; subst. eexists; split; [reflexivity|]. split; [|auto].
    intros e He. eapply remove_key_in_subset; eauto.
  - destruct (Nat.eqb _ _).
    + destruct (victim (entries c)) as [ve|]; intros H; inversion H; subst.
      eexists; split; [reflexivity|]. split; [|auto]. intros e He. eapply remove_key_in_subset; eauto.
    + intros H; inversion H; subst. eexists; split; [reflexivity|]. split; auto.
Qed.

(* a NoDup-by-object list stays so when a fresh object is added in front of a sub-list *)
Lemma NoDup_objs_sub (l rest : list entry) x :
  NoDup (map eval l) -> (forall e, In e rest -> In e l) -> NoDup (map eval rest) ->
  (forall e, In e l -> eval e <> eval x) -> NoDup (map eval (x :: rest)).
Proof.
  intros Hl Hsub Hr Hx. cbn. constructor; [|exact Hr].
  intros Hin. apply in_map_iff in Hin as (e & He & Hine). apply (Hx e); auto.
Qed.

Lemma remove_key_NoDup_objs k l : NoDup (map eval l) -> NoDup (map eval (remove_key k l)).
Proof.
  induction l as [|a l IH]; cbn; [auto|]. intros H; inversion H as [|? ? Hn Hd]; subst.
  destruct (N.eqb (ekey a) k); cbn; [auto|]. constructor; [|auto].
  intros Hin. apply Hn. apply in_map_iff in Hin as (e & He & Hine). rewrite <- He. apply in_map.
  eapply remove_key_in_subset; eauto.
Qed.

Lemma set_objs_NoDup c k v d c1 ev :
  NoDup (map eval (entries c)) -> (forall e, In e (entries c) -> eval e <> v) ->
  lru_step c (OSet k v d) = (c1, RSet true ev) -> NoDup (map eval (entries c1)).
Proof.
  intros Hnd Hfresh. cbn. destruct (find_entry k (entries c)) as [e0|].
  - intros H; inversion H; subst. cbn. constructor; [|apply remove_key_NoDup_objs; exact Hnd].
    intros Hin. apply in_map_iff in Hin as (e & He & Hine). apply (Hfresh e); [|exact He].
    eapply remove_key_in_subset; eauto.
  - destruct (Nat.eqb _ _).
    + destruct (victim (entries c)) as [ve|]; intros H; inversion H; subst.
      cbn. constructor; [|apply remove_key_NoDup_objs; exact Hnd].
      intros Hin. apply in_map_iff in Hin as (e & He & Hine). apply (Hfresh e); [|exact He].
      eapply remove_key_in_subset; eauto.
    + intros H; inversion H; subst. cbn. constructor; [|exact Hnd].
      intros Hin. apply in_map_iff in Hin as (e & He & Hine). apply (Hfresh e); auto.
Qed.

(* the evicted key (if any) was resident, clean, and differs from the inserted key *)
Lemma set_evicted c k v d c1 x :
  Inv c -> lru_step c (OSet k v d) = (c1, RSet true (Some x)) ->
  exists e, In e (entries c) /\ ekey e = x /\ edirty e = false /\ x <> k.
Proof.
  intros Hi H. destruct (set_victim c k v d x c1 Hi H) as (l1 & e & l2 & E & Ek & Ed & _ & _ & _ & Hnk).
  exists e. repeat split; auto.
  - rewrite E. apply in_or_app. right. left. reflexivity.
  - intros ->. apply Hnk. rewrite E. unfold keys. rewrite map_app. apply in_or_app. right. left. exact Ek.
Qed.

Lemma lookup_after_set c k v d c1 ev k' :
  Inv c -> lru_step c (OSet k v d) = (c1, RSet true ev) ->
  lookup k' c1 = if N.eqb k k' then Some v
                 else match ev with
                      | Some x => if N.eqb x k' then None else lookup k' c
                      | None => lookup k' c
                      end.
Proof.
  intros Hi Hs. pose proof (step_lookup c (OSet k v d) k' Hi) as H. rewrite Hs in H. exact H.
Qed.

Lemma ps_view_eq s k :
  ps_view s k = match lookup k (ps_cache s) with
                | Some o => heap_get o (ps_heap s)
                | None => file_get k (ps_file s)
                end.
Proof. reflexivity. Qed.

Lemma resident_eq s k : resident k s = match lookup k (ps_cache s) with Some _ => true | None => false end.
Proof. reflexivity. Qed.

Lemma lookup_obj_in c k o : lookup k c = Some o -> exists e, In e (entries c) /\ eval e = o /\ ekey e = k.
Proof.
  unfold lookup. destruct (find_entry k (entries c)) as [e|] eqn:Ef; [|discriminate].
  intros H; inversion H; subst. apply find_entry_some in Ef as [A B]. eauto.
Qed.

(* installing a new object for key k (cache miss or allocation) *)
Lemma install_inv s ref pend k cont c1 ev (fileside : bool) :
  PInv s ref pend ->
  lru_step (ps_cache s) (OSet k (ps_next s) false) = (c1, RSet true ev) ->
  let s1 := mkPS c1 (aset (ps_next s) cont (ps_heap s)) (ps_file s) (ps_next s + 1) in
  forall ref1 pend1,
  (* the view of k afterwards is cont; ref1 must agree *)
  ref_get k ref1 = cont -> (forall k', k' <> k -> ref_get k' ref1 = ref_get k' ref) ->
  (* clean/pending bookkeeping for k *)
  (~ In k pend1 -> cont = file_get k (ps_file s)) ->
  (forall k', k' <> k -> (In k' pend1 <-> In k' pend)) ->
  (* pending pages are still resident afterwards *)
  (forall k', In k' pend1 -> resident k' s1 = true) ->
  PInv s1 ref1 pend1.
Proof.
  intros [Hi Hv Hc Hf Ho] Hstep s1 ref1 pend1 Hk Hother Hclean Hpend Hres.
  destruct (set_entries _ _ _ _ _ _ Hstep) as (rest & Erest & Hsub & _).
  assert (Hfresh_obj : forall e, In e (entries (ps_cache s)) -> eval e <> ps_next s).
  { intros e He. specialize (Hf e He). lia. }
  constructor; cbn [ps_cache ps_heap ps_file ps_next s1].
  - pose proof (step_Inv (ps_cache s) (OSet k (ps_next s) false) Hi) as H1. rewrite Hstep in H1. exact H1.
  - intros k'. rewrite ps_view_eq. cbn [ps_cache ps_heap ps_file s1].
    rewrite (lookup_after_set _ _ _ _ _ _ k' Hi Hstep).
    destruct (N.eqb_spec k k') as [<-|Hne].
    + rewrite heap_get_aset_same. symmetry. exact Hk.
    + rewrite (Hother k') by congruence. rewrite <- (Hv k'), ps_view_eq.
      assert (Hkeep : match lookup k' (ps_cache s) with
                      | Some o => heap_get o (aset (ps_next s) cont (ps_heap s))
                      | None => file_get k' (ps_file s)
                      end =
                      match lookup k' (ps_cache s) with
                      | Some o => heap_get o (ps_heap s)
                      | None => file_get k' (ps_file s)
                      end).
      { destruct (lookup k' (ps_cache s)) as [o|] eqn:El; [|reflexivity].
        rewrite heap_get_aset_other; [reflexivity|].
        destruct (lookup_obj_in _ _ _ El) as (e & He & Heo & _). specialize (Hf e He). lia. }
      destruct ev as [x|]; [|exact Hkeep].
      destruct (N.eqb_spec x k') as [->|Hne2]; [|exact Hkeep].
      (* k' was evicted: it was clean and not pending, so heap = file *)
      destruct (set_evicted _ _ _ _ _ _ Hi Hstep) as (e & He & Hek & Hed & _).
      unfold lookup. rewrite <- Hek, (find_entry_unique _ e (proj1 Hi) He). cbn [option_map].
      symmetry. apply Hc; auto. rewrite Hek. intros Hp.
      apply (proj2 (Hpend k' ltac:(congruence))) in Hp.
      specialize (Hres k' Hp). rewrite resident_eq in Hres. cbn [ps_cache s1] in Hres.
      rewrite (lookup_after_set _ _ _ _ _ _ k' Hi Hstep) in Hres.
      destruct (N.eqb_spec k k'); [contradiction|]. rewrite N.eqb_refl in Hres. discriminate.
  - intros e He Hd Hnp. rewrite Erest in He. destruct He as [<-|He].
    + cbn [eval ekey]. rewrite heap_get_aset_same. apply Hclean. exact Hnp.
    + rewrite heap_get_aset_other by (apply not_eq_sym, Hfresh_obj, Hsub, He).
      apply Hc; auto. intros Hp.
      (* ekey e <> k because keys are unique in c1 and k is the head *)
      pose proof (step_Inv (ps_cache s) (OSet k (ps_next s) false) Hi) as H1. rewrite Hstep in H1.
      cbn [fst] in H1. destruct H1 as [Hnd1 _]. rewrite Erest in Hnd1. cbn [keys map ekey] in Hnd1.
      inversion Hnd1 as [|? ? Hn _]; subst.
      assert (ekey e <> k). { intros E. apply Hn. rewrite <- E. apply in_map. exact He. }
      apply Hnp. apply (proj2 (Hpend (ekey e) H)). exact Hp.
  - intros e He. rewrite Erest in He. destruct He as [<-|He]; cbn [eval]; [lia|].
    specialize (Hf e (Hsub e He)). lia.
  - eapply set_objs_NoDup; eauto.
Qed.

From Coq Require Import Permutation.

(* ---- cache hits and flag changes only permute / re-flag entries ---- *)
Lemma find_entry_first_split k l e :
  find_entry k l = Some e ->
  exists l1 l2, l = l1 ++ e :: l2 /\ remove_key k l = l1 ++ l2.
Proof.
  induction l as [|a l IH]; cbn; [discriminate|].
  destruct (N.eqb_spec (ekey a) k) as [E|E]; intros H.
  - inversion H; subst. exists [], l. auto.
  - destruct (IH H) as (l1 & l2 & -> & Hr). exists (a :: l1), l2. cbn. rewrite Hr. auto.
Qed.

Lemma hit_perm k l e : find_entry k l = Some e -> Permutation (e :: remove_key k l) l.
Proof.
  intros H. destruct (find_entry_first_split k l e H) as (l1 & l2 & -> & ->). apply Permutation_middle.
Qed.

Lemma set_flag_evals k d l : map eval (set_flag k d l) = map eval l.
Proof.
  unfold set_flag. rewrite map_map. apply map_ext. intros e. destruct (N.eqb (ekey e) k); reflexivity.
Qed.

Lemma lookup_set_flag k d c k' :
  lookup k' (mkLru (cap c) (set_flag k d (entries c))) = lookup k' c.
Proof. unfold lookup. cbn [entries]. apply find_entry_set_flag. Qed.

Lemma in_set_flag k d l e :
  In e (set_flag k d l) -> exists e0, In e0 l /\ ekey e = ekey e0 /\ eval e = eval e0 /\
                                      (edirty e = edirty e0 \/ (ekey e0 = k /\ edirty e = d)).
Proof.
  unfold set_flag. intros H. apply in_map_iff in H as (e0 & He & Hin). exists e0. split; [exact Hin|].
  destruct (N.eqb_spec (ekey e0) k) as [E|E]; subst e; cbn; auto.
Qed.

Lemma objs_inj (l : list entry) e e2 :
  NoDup (map eval l) -> In e l -> In e2 l -> eval e = eval e2 -> e = e2.
Proof.
  induction l as [|a l IH]; cbn; [tauto|]. intros Hnd. inversion Hnd as [|? ? Hn Hd]; subst.
  intros [->|A] [->|B] E; auto.
  - exfalso. apply Hn. rewrite E. apply in_map. exact B.
  - exfalso. apply Hn. rewrite <- E. apply in_map. exact A.
Qed.

(* ---- flushing one dirty page: written to the file, marked clean, moved to the front ---- *)
Definition flush_one (h : amap) (acc : lru * amap) (k : N) : lru * amap :=
  let '(c, f) := acc in
  match find_entry k (entries c) with
  | Some e =>
      if edirty e then
        (mkLru (cap c) (mkEntry k (eval e) false :: remove_key k (entries c)), aset k (heap_get (eval e) h) f)
      else (c, f)
  | None => (c, f)
  end.

Lemma flush_one_inv h n ref pend c f k :
  PInv (mkPS c h f n) ref pend ->
  PInv (mkPS (fst (flush_one h (c, f) k)) h (snd (flush_one h (c, f) k)) n) ref pend.
Proof.
  intros HI. pose proof HI as [Hi Hv Hc Hf Ho]. cbn [ps_cache ps_heap ps_file ps_next] in *.
  unfold flush_one. destruct (find_entry k (entries c)) as [e|] eqn:Ef; [|exact HI].
  destruct (edirty e) eqn:Ed; [|exact HI]. cbn [fst snd].
  pose proof (find_entry_some _ _ _ Ef) as [He Hek].
  assert (Hstep : lru_step c (OSet k (eval e) false) =
                  (mkLru (cap c) (mkEntry k (eval e) false :: remove_key k (entries c)), RSet true None)).
  { cbn. rewrite Ef. reflexivity. }
  pose proof (hit_perm k _ e Ef) as Hp.
  constructor; cbn [ps_cache ps_heap ps_file ps_next].
  - pose proof (step_Inv c (OSet k (eval e) false) Hi) as H. rewrite Hstep in H. exact H.
  - intros k'. rewrite ps_view_eq. cbn [ps_cache ps_heap ps_file].
    rewrite (lookup_after_set _ _ _ _ _ _ k' Hi Hstep). rewrite <- (Hv k'), ps_view_eq. cbn [ps_cache ps_heap ps_file].
    destruct (N.eqb_spec k k') as [<-|Hne].
    + unfold lookup. rewrite Ef. reflexivity.
    + destruct (lookup k' c); [reflexivity|]. apply file_get_aset_other. exact Hne.
  - intros x [<-|Hx] Hd Hnp; cbn [eval ekey].
    + rewrite file_get_aset_same. reflexivity.
    + assert (Hxk : ekey x <> k).
      { pose proof (remove_key_not_in k (entries c) (proj1 Hi)) as Hn. intros E. apply Hn.
        unfold keys. apply in_map_iff. exists x. split; [exact E | exact Hx]. }
      rewrite file_get_aset_other by congruence. apply Hc; auto. eapply remove_key_in_subset; eauto.
  - intros x [<-|Hx]; cbn [eval]; [apply Hf; exact He | apply Hf; eapply remove_key_in_subset; eauto].
  - cbn [entries map eval]. change (eval e :: map eval (remove_key k (entries c))) with (map eval (e :: remove_key k (entries c))).
    eapply Permutation_NoDup; [symmetry; apply Permutation_map; exact Hp | exact Ho].
Qed.

Lemma flush_fold_inv h n ref pend todo : forall c f,
  PInv (mkPS c h f n) ref pend ->
  PInv (mkPS (fst (fold_left (flush_one h) todo (c, f))) h (snd (fold_left (flush_one h) todo (c, f))) n) ref pend.
Proof.
  induction todo as [|k r IH]; intros c f HI; [exact HI|].
  cbn [fold_left]. pose proof (flush_one_inv h n ref pend c f k HI) as H1.
  destruct (flush_one h (c, f) k) as [c1 f1]. cbn [fst snd] in H1. apply IH. exact H1.
Qed.

(* ---- one step ---- *)
Lemma step_inv s ref pend op :
  PInv s ref pend -> step_ok s op = true ->
  (forall k, In k (pend_step pend op) -> resident k (fst (ps_step s op)) = true) ->
  PInv (fst (ps_step s op)) (ref_step ref op) (pend_step pend op).
Proof.
  intros HI Hok Hres. pose proof HI as [Hi Hv Hc Hf Ho].
  destruct op as [k|k c|k o c|order].
  - (* fetch *)
    cbn [ps_step] in *. unfold step_ok in Hok. cbn [ps_step] in Hok.
    destruct (lru_step (ps_cache s) (OGet k)) as [c1 out] eqn:Eg.
    pose proof (get_returns_lookup (ps_cache s) k) as Hg. rewrite Eg in Hg. cbn [snd] in Hg. subst out.
    destruct (lookup k (ps_cache s)) as [o|] eqn:El.
    + (* hit *)
      cbn [fst ref_step pend_step]. cbn in Eg.
      unfold lookup in El. destruct (find_entry k (entries (ps_cache s))) as [e|] eqn:Ef; [|discriminate].
      inversion Eg; subst c1. clear Eg.
      pose proof (hit_perm k _ e Ef) as Hp.
      assert (Hlk : forall k', lookup k' (mkLru (cap (ps_cache s)) (e :: remove_key k (entries (ps_cache s)))) = lookup k' (ps_cache s)).
      { intros k'. pose proof (step_lookup (ps_cache s) (OGet k) k' Hi) as H. cbn in H. rewrite Ef in H. exact H. }
      constructor; cbn [ps_cache ps_heap ps_file ps_next].
      * pose proof (step_Inv (ps_cache s) (OGet k) Hi) as H. cbn in H. rewrite Ef in H. exact H.
      * intros k'. rewrite ps_view_eq. cbn [ps_cache ps_heap ps_file]. rewrite Hlk. rewrite <- ps_view_eq. apply Hv.
      * intros x Hx. apply Hc. eapply Permutation_in; eauto.
      * intros x Hx. apply Hf. eapply Permutation_in; eauto.
      * eapply Permutation_NoDup; [symmetry; apply Permutation_map; exact Hp | exact Ho].
    + (* miss *)
      destruct (lru_step (ps_cache s) (OSet k (ps_next s) false)) as [c2 [okb ev| |]] eqn:Es;
        try (cbn in Hok; discriminate).
      destruct okb; [|cbn in Hok; discriminate].
      cbn [fst ref_step pend_step] in *.
      apply (install_inv s ref pend k (file_get k (ps_file s)) c2 ev true HI Es); auto.
      * rewrite <- (Hv k), ps_view_eq, El. reflexivity.
      * intros; tauto.
  - (* alloc *)
    cbn [ps_step] in *. unfold step_ok in Hok. cbn [ps_step] in Hok.
    destruct (lru_step (ps_cache s) (OSet k (ps_next s) false)) as [c2 [okb ev| |]] eqn:Es;
      try (cbn in Hok; discriminate).
    destruct okb; [|cbn in Hok; discriminate].
    cbn [fst ref_step pend_step] in *.
    apply (install_inv s ref pend k c c2 ev false HI Es); auto.
    + apply ref_get_aset_same.
    + intros k' Hne. apply ref_get_aset_other. congruence.
    + intros Hn. exfalso. apply Hn. left. reflexivity.
    + intros k' Hne. cbn [In]. rewrite In_removeN. split; [intros [E|[A _]]; [congruence|exact A] | intros A; right; auto].
  - (* modify through the resident object *)
    cbn [ps_step step_ok] in *. rewrite cached_obj_lookup in *.
    destruct (lookup k (ps_cache s)) as [o'|] eqn:El; [|discriminate].
    apply N.eqb_eq in Hok. subst o'. rewrite N.eqb_refl. cbn [fst lru_step ref_step pend_step] in *.
    destruct (lookup_obj_in _ _ _ El) as (e & He & Heo & Hek).
    constructor; cbn [ps_cache ps_heap ps_file ps_next].
    + pose proof (step_Inv (ps_cache s) (ODirty k) Hi) as H. exact H.
    + intros k'. rewrite ps_view_eq. cbn [ps_cache ps_heap ps_file]. rewrite lookup_set_flag.
      destruct (N.eq_dec k k') as [<-|Hne].
      * rewrite El, heap_get_aset_same, ref_get_aset_same. reflexivity.
      * rewrite ref_get_aset_other by exact Hne. rewrite <- (Hv k'), ps_view_eq.
        destruct (lookup k' (ps_cache s)) as [o2|] eqn:El2; [|reflexivity].
        rewrite heap_get_aset_other; [reflexivity|].
        (* distinct keys hold distinct objects *)
        destruct (lookup_obj_in _ _ _ El2) as (e2 & He2 & Heo2 & Hek2).
        intros E. assert (e = e2) by (apply (objs_inj _ e e2 Ho He He2); congruence).
        subst e2. congruence.
    + intros x Hx Hd Hnp. cbn [entries] in Hx. unfold set_flag in Hx.
      apply in_map_iff in Hx as (x0 & Hx & Hx0).
      destruct (N.eqb_spec (ekey x0) k) as [E|E]; [subst x; cbn in Hd; discriminate|]. subst x.
      rewrite heap_get_aset_other.
      * apply Hc; auto. intros Hp. apply Hnp. apply In_removeN. split; [exact Hp | exact E].
      * intros E2. assert (e = x0) by (apply (objs_inj _ e x0 Ho He Hx0); congruence).
        subst x0. congruence.
    + intros x Hx. cbn [entries] in Hx. destruct (in_set_flag _ _ _ _ Hx) as (x0 & Hx0 & _ & Ev & _).
      rewrite Ev. apply Hf. exact Hx0.
    + cbn [entries]. rewrite set_flag_evals. exact Ho.
  - (* flush *)
    cbn [ps_step ref_step pend_step].
    set (todo := order ++ map ekey (filter edirty (entries (ps_cache s)))).
    assert (E : forall acc,
      fold_left (fun (acc : lru * amap) k =>
                   let '(c, f) := acc in
                   match find_entry k (entries c) with
                   | Some e => if edirty e then
                       (mkLru (cap c) (mkEntry k (eval e) false :: remove_key k (entries c)),
                        aset k (heap_get (eval e) (ps_heap s)) f) else (c, f)
                   | None => (c, f)
                   end) todo acc = fold_left (flush_one (ps_heap s)) todo acc) by reflexivity.
    rewrite E.
    pose proof (flush_fold_inv (ps_heap s) (ps_next s) ref pend todo (ps_cache s) (ps_file s)) as H.
    destruct (fold_left (flush_one (ps_heap s)) todo (ps_cache s, ps_file s)) as [c1 f1].
    cbn [fst snd] in *. apply H. destruct s; exact HI.
Qed.

(* ---- whole runs ---- *)
Fixpoint ref_run (m : amap) (ops : list pop) : amap :=
  match ops with [] => m | op :: r => ref_run (ref_step m op) r end.

Lemma run_inv ops : forall s ref pend,
  PInv s ref pend -> ok_run s pend ops = true ->
  exists pend', PInv (fst (ps_run s ops)) (ref_run ref ops) pend'.
Proof.
  induction ops as [|op r IH]; intros s ref pend HI Hok.
  - cbn. eauto.
  - cbn [ok_run] in Hok. apply andb_true_iff in Hok as [Hok Hrest]. apply andb_true_iff in Hok as [Hso Hres].
    rewrite forallb_forall in Hres.
    pose proof (step_inv s ref pend op HI Hso Hres) as H1.
    cbn [ps_run ref_run]. destruct (ps_step s op) as [s1 x] eqn:Es. cbn [fst] in *.
    destruct (IH s1 (ref_step ref op) (pend_step pend op) H1 Hrest) as (pend' & H2).
    destruct (ps_run s1 r) as [s2 xs]. cbn [fst] in *. eauto.
Qed.

(* what a fetch returns *)
Lemma fetch_returns_view s k : match snd (ps_step s (PFetch k)) with
                               | PObj _ c => c = ps_view s k
                               | _ => True
                               end.
Proof.
  cbn [ps_step]. pose proof (get_returns_lookup (ps_cache s) k) as Hg.
  destruct (lru_step (ps_cache s) (OGet k)) as [c1 out]. cbn [snd] in Hg. subst out.
  rewrite ps_view_eq. destruct (lookup k (ps_cache s)) as [o|]; cbn [snd]; [reflexivity|].
  destruct (lru_step (ps_cache s) (OSet k (ps_next s) false)) as [c2 [[|] ev| |]]; cbn [snd]; auto.
Qed.

(* C16, page-store level: for every capacity and every operation list that respects the
   discipline, every page reads as in the unbounded reference *)
Theorem cache_invisible cap ops k :
  ok_run (ps_init cap) [] ops = true ->
  ps_view (fst (ps_run (ps_init cap) ops)) k = ref_get k (ref_run [] ops).
Proof.
  intros Hok. destruct (run_inv ops (ps_init cap) [] [] (PInv_init cap) Hok) as (pend' & [_ Hv _ _ _]).
  apply Hv.
Qed.

Lemma ok_run_app ops : forall s pend op,
  ok_run s pend (ops ++ [op]) = true ->
  ok_run s pend ops = true /\ step_ok (fst (ps_run s ops)) op = true.
Proof.
  induction ops as [|o r IH]; intros s pend op H.
  - cbn in *. apply andb_true_iff in H as [H _]. apply andb_true_iff in H as [H _]. auto.
  - cbn [app ok_run] in H. apply andb_true_iff in H as [H1 H2].
    destruct (IH _ _ _ H2) as [A B]. cbn [ok_run ps_run]. rewrite H1, A.
    destruct (ps_step s o) as [s1 x]. cbn [fst] in *.
    destruct (ps_run s1 r) as [s2 xs]. cbn [fst] in *. auto.
Qed.

(* and so does every fetch issued at any point of such a run *)
Theorem fetch_sees_reference cap ops k :
  ok_run (ps_init cap) [] (ops ++ [PFetch k]) = true ->
  match snd (ps_step (fst (ps_run (ps_init cap) ops)) (PFetch k)) with
  | PObj _ c => c = ref_get k (ref_run [] ops)
  | _ => False
  end.
Proof.
  intros Hok. destruct (ok_run_app _ _ _ _ Hok) as [Hok1 Hso].
  pose proof (fetch_returns_view (fst (ps_run (ps_init cap) ops)) k) as Hf.
  unfold step_ok in Hso.
  assert (Hnu : snd (ps_step (fst (ps_run (ps_init cap) ops)) (PFetch k)) <> PUnit).
  { cbn [ps_step]. destruct (lru_step _ (OGet k)) as [c1 [ | [o|] | ]]; cbn [snd]; try discriminate;
      destruct (lru_step _ (OSet k _ false)) as [c2 [[|] ev| |]]; cbn [snd]; discriminate. }
  destruct (snd (ps_step (fst (ps_run (ps_init cap) ops)) (PFetch k))); try discriminate; [|congruence].
  rewrite Hf. apply cache_invisible. exact Hok1.
Qed.
