(* C20: the oracle of the correspondence run (Spec/ConsoleSpec.v `spec_accepts`: Go submitted
   exactly the normalised statements of the script, in order, and then hit end of input) accepts
   the model's own behaviour on every in-scope case, hence "the model agrees with Go" implies "the
   oracle accepts what Go did".

   Part 1 (key level): `model_agrees` compares the observation with BOTH the byte-level model
   (`session_bytes` on the chunks) and, for scripted cases, the key-level model (`session_keys` on
   the delivered keys); the key-level conjunct and `C20_submitted` give the oracle's verdict. Of
   `hyps_hold` only the first two conjuncts (well-formed units, the delivery is a cutting of the
   script) are used.

   Part 2 (byte level): the byte-level model alone suffices. For every key list that can be
   encoded (Enter, runes >= 32 other than surrogates, paste markers in the right mode)
   and EVERY cutting of its encoding into Read chunks, `session_bytes chunks = session_keys keys`:
   UTF-8 decoding of every encoded rune (all four length classes), partial sequences waiting for
   the next Read, the 256-byte buffer, the fuel of the model's loops. U+FFFD is covered:
   bytesToKey answers utf8.RuneError for it, and since fix commit f013140 readLine tells that answer
   from "no key yet" / "invalid byte" by the number of bytes consumed (Model/Console.v `next_key`);
   before the fix the terminal dropped a typed U+FFFD and this file had to exclude it. *)
From Coq Require Import List NArith ZArith Bool Arith Lia Zify.
From Mkdb Require Import Model.CaseLib Model.Console Spec.ConsoleSpec Proofs.ConsoleProofs.
Import ListNotations.
Open Scope N_scope.

(* lia on / and mod by constants (N.modulo is translated to Z.rem) *)
Local Ltac Zify.zify_post_hook ::= Z.to_euclidean_division_equations.

(* ---------- the comparison functions are equalities ---------- *)

Lemma list_N_eqb_spec a b : list_N_eqb a b = true <-> a = b.
Proof.
  revert b. induction a as [|x a IH]; destruct b as [|y b]; cbn; try (split; discriminate); [tauto|].
  rewrite andb_true_iff, N.eqb_eq, IH. split; [intros [-> ->]; auto | intros E; inversion E; auto].
Qed.

Lemma rl_out_eqb_spec a b : out_eqb a b = true <-> a = b.
Proof.
  destruct a, b; cbn; try (split; discriminate); try tauto.
  rewrite andb_true_iff, Bool.eqb_true_iff, (list_eqb_spec list_N_eqb list_N_eqb_spec).
  split; [intros [-> ->]; auto | intros E; inversion E; auto].
Qed.

Lemma outs_eqb_spec a b : list_eqb out_eqb a b = true <-> a = b.
Proof. apply list_eqb_spec, rl_out_eqb_spec. Qed.

Lemma stmts_eqb_spec (a b : list (list N)) : list_eqb list_N_eqb a b = true <-> a = b.
Proof. apply list_eqb_spec, list_N_eqb_spec. Qed.

(* ---------- the oracle on a session that consists of lines only ---------- *)

Lemma existsb_rev {A} (f : A -> bool) l : existsb f (rev l) = existsb f l.
Proof.
  induction l as [|a l IH]; [reflexivity|]. cbn [rev existsb].
  rewrite existsb_app, IH. cbn [existsb]. rewrite orb_false_r. apply orb_comm.
Qed.

Lemma submitted_app a b : submitted (a ++ b) = submitted a ++ submitted b.
Proof. unfold submitted. rewrite map_app, concat_app. reflexivity. Qed.

Lemma close_all_lines os : all_lines os = true -> close_session os = os ++ [Eof].
Proof. unfold all_lines, close_session. intros H. apply negb_true_iff in H. rewrite H. reflexivity. Qed.

(* what the oracle asks of an observation, as a function of the script *)
Definition accepts_obs (us : list (list N * list N)) (obs : list rl_out) : bool :=
  list_eqb list_N_eqb (submitted obs) (map (fun u => normalise (fst u)) us) &&
  match rev obs with
  | Eof :: ls => all_lines ls
  | _ => false
  end.

Lemma spec_accepts_scripted c us pcs :
  c_script c = Some (us, pcs) -> spec_accepts c = accepts_obs us (c_obs c).
Proof. intros H. unfold spec_accepts, accepts_obs. rewrite H. reflexivity. Qed.

Lemma key_session_accepted us pcs :
  forallb wf_unit us = true ->
  concat (map snd pcs) = script_keys us ->
  accepts_obs us (session_keys (final_enter pcs)) = true.
Proof.
  intros Hwf Hcat. destruct (console_script us pcs Hwf Hcat) as (A & B & _).
  unfold session_keys, final_enter, accepts_obs.
  rewrite (close_all_lines _ B). rewrite submitted_app, A.
  change (submitted [Eof]) with (@nil (list N)). rewrite app_nil_r.
  rewrite rev_app_distr. cbn [rev app].
  unfold all_lines. rewrite existsb_rev. fold (all_lines (fst (run init_term false (deliver pcs ++ [keyEnter])))).
  rewrite B, andb_true_r. apply stmts_eqb_spec. reflexivity.
Qed.

(* the two hypotheses about the script inside hyps_hold *)
Lemma hyps_script c us pcs :
  c_script c = Some (us, pcs) -> hyps_hold c = true ->
  forallb wf_unit us = true /\ concat (map snd pcs) = script_keys us /\
  concat (c_chunks c) = encode_keys (final_enter pcs).
Proof.
  intros Hs H. unfold hyps_hold in H. rewrite Hs in H.
  apply andb_true_iff in H as [H H3]. apply andb_true_iff in H as [H1 H2].
  apply list_N_eqb_spec in H2, H3. auto.
Qed.

(* the oracle accepts the model's own answer (key-level model) on every in-scope case *)
Lemma oracle_accepts_model chunks us pcs consts :
  forallb wf_unit us = true ->
  concat (map snd pcs) = script_keys us ->
  spec_accepts (mkCase chunks (Some (us, pcs)) consts (session_keys (final_enter pcs))) = true.
Proof. intros Hwf Hcat. cbn [spec_accepts c_script c_obs]. exact (key_session_accepted us pcs Hwf Hcat). Qed.

Lemma agreement_implies_acceptance c :
  hyps_hold c = true -> model_agrees c = true -> spec_accepts c = true.
Proof.
  intros Hh Hm. destruct (c_script c) as [[us pcs]|] eqn:Hs.
  - rewrite (spec_accepts_scripted c us pcs Hs).
    destruct (hyps_script c us pcs Hs Hh) as (Hwf & Hcat & _).
    unfold model_agrees in Hm. rewrite Hs in Hm. apply andb_true_iff in Hm as [_ Hm].
    apply outs_eqb_spec in Hm. rewrite <- Hm. exact (key_session_accepted us pcs Hwf Hcat).
  - unfold spec_accepts. rewrite Hs. reflexivity.
Qed.

(* ==================================================================================== *)
(* Part 2: bytes -> keys. UTF-8 decoding of every encodable rune, the read loop          *)
(* ==================================================================================== *)

(* destruct every comparison in the goal, closing contradictory branches at once *)
Ltac cmp :=
  repeat (match goal with
          | |- context [?a <=? ?b] => destruct (N.leb_spec a b); try lia
          | |- context [?a <? ?b] => destruct (N.ltb_spec a b); try lia
          | |- context [?a =? ?b] => destruct (N.eqb_spec a b); try lia
          end; cbn [andb orb negb]).

Definition enc_rune (r : N) : bool :=
  ((r =? keyEnter) || (32 <=? r)) && negb ((55296 <=? r) && (r <=? 57343)) &&
  (r <=? 1114111).

Lemma enc_rune_facts r : enc_rune r = true ->
  (r = 13 \/ 32 <= r) /\ (r < 55296 \/ 57343 < r) /\ r <= 1114111.
Proof.
  unfold enc_rune, keyEnter. intros H.
  repeat (apply andb_true_iff in H as [H ?]).
  repeat match goal with
  | H : negb _ = true |- _ => apply negb_true_iff in H
  | H : _ || _ = true |- _ => apply orb_true_iff in H
  | H : _ && _ = false |- _ => apply andb_false_iff in H
  end.
  repeat split; try (apply N.leb_le; assumption).
  - destruct H as [H|H]; [left; apply N.eqb_eq, H | right; apply N.leb_le, H].
  - destruct H1 as [H1|H1]; apply N.leb_gt in H1; [left|right]; lia.
Qed.

Lemma ctrl_none b : b = 13 \/ 24 <= b -> ctrl_key b = None.
Proof. intros H. unfold ctrl_key, keyHome. cmp. reflexivity. Qed.

Lemma btk_plain b0 r0 p : ctrl_key b0 = None -> b0 <> 27 ->
  bytes_to_key (b0 :: r0) p =
  if negb (full_rune (b0 :: r0)) then BNone (b0 :: r0)
  else let '(r, l) := decode_rune (b0 :: r0) in
       if r =? runeError then BNone (skipn l (b0 :: r0)) else BKey r (skipn l (b0 :: r0)).
Proof.
  intros Hc He. unfold bytes_to_key. rewrite Hc.
  replace (b0 =? keyEscape) with false by (symmetry; apply N.eqb_neq; exact He).
  destruct p; reflexivity.
Qed.

Lemma lead_none b : b < 194 -> utf8_lead b = None.
Proof. intros H. unfold utf8_lead. cmp. reflexivity. Qed.

Lemma lead2 b : 194 <= b <= 223 -> utf8_lead b = Some (2%nat, 128, 191).
Proof. intros H. unfold utf8_lead. cmp. reflexivity. Qed.

Lemma lead3 b : 224 <= b <= 239 ->
  utf8_lead b = Some (3%nat, if b =? 224 then 160 else 128, if b =? 237 then 159 else 191).
Proof. intros H. unfold utf8_lead. cmp; reflexivity. Qed.

Lemma lead4 b : 240 <= b <= 244 ->
  utf8_lead b = Some (4%nat, if b =? 240 then 144 else 128, if b =? 244 then 143 else 191).
Proof. intros H. unfold utf8_lead. cmp; reflexivity. Qed.

(* ---- DecodeRune / FullRune on a complete sequence, by length class ---- *)
Lemma dec1 b0 tl : b0 < 128 ->
  full_rune (b0 :: tl) = true /\ decode_rune (b0 :: tl) = (b0, 1%nat).
Proof.
  intros H. unfold full_rune, decode_rune. rewrite (lead_none b0) by lia.
  destruct (N.ltb_spec b0 128); [auto | lia].
Qed.

Lemma dec2 b0 b1 tl lo hi : utf8_lead b0 = Some (2%nat, lo, hi) -> in_rng b1 lo hi = true ->
  full_rune (b0 :: b1 :: tl) = true /\
  decode_rune (b0 :: b1 :: tl) = ((b0 mod 32) * 64 + (b1 mod 64), 2%nat).
Proof.
  intros H1 H2. unfold full_rune, decode_rune. rewrite H1, H2.
  cbn [length Nat.leb Nat.ltb negb]. auto.
Qed.

Lemma dec3 b0 b1 b2 tl lo hi : utf8_lead b0 = Some (3%nat, lo, hi) -> in_rng b1 lo hi = true ->
  cont b2 = true ->
  full_rune (b0 :: b1 :: b2 :: tl) = true /\
  decode_rune (b0 :: b1 :: b2 :: tl) = ((b0 mod 16) * 4096 + (b1 mod 64) * 64 + (b2 mod 64), 3%nat).
Proof.
  intros H1 H2 H3. unfold full_rune, decode_rune. rewrite H1, H2, H3.
  cbn [length Nat.leb Nat.ltb negb]. auto.
Qed.

Lemma dec4 b0 b1 b2 b3 tl lo hi : utf8_lead b0 = Some (4%nat, lo, hi) -> in_rng b1 lo hi = true ->
  cont b2 = true -> cont b3 = true ->
  full_rune (b0 :: b1 :: b2 :: b3 :: tl) = true /\
  decode_rune (b0 :: b1 :: b2 :: b3 :: tl) =
    ((b0 mod 8) * 262144 + (b1 mod 64) * 4096 + (b2 mod 64) * 64 + (b3 mod 64), 4%nat).
Proof.
  intros H1 H2 H3 H4. unfold full_rune, decode_rune. rewrite H1, H2, H3, H4.
  cbn [length Nat.leb Nat.ltb negb]. auto.
Qed.

(* ---- FullRune on a proper prefix of a valid sequence ---- *)
Lemma part1 b0 sz lo hi : utf8_lead b0 = Some (sz, lo, hi) -> (2 <= sz)%nat -> full_rune [b0] = false.
Proof.
  intros H1 H2. unfold full_rune. rewrite H1. cbn [length].
  destruct (Nat.leb_spec sz 1); [lia | reflexivity].
Qed.

Lemma part2 b0 b1 sz lo hi : utf8_lead b0 = Some (sz, lo, hi) -> (3 <= sz)%nat ->
  in_rng b1 lo hi = true -> full_rune [b0; b1] = false.
Proof.
  intros H1 H2 H3. unfold full_rune. rewrite H1, H3. cbn [length negb].
  destruct (Nat.leb_spec sz 2); [lia | reflexivity].
Qed.

Lemma part3 b0 b1 b2 sz lo hi : utf8_lead b0 = Some (sz, lo, hi) -> (4 <= sz)%nat ->
  in_rng b1 lo hi = true -> cont b2 = true -> full_rune [b0; b1; b2] = false.
Proof.
  intros H1 H2 H3 H4. unfold full_rune. rewrite H1, H3, H4. cbn [length negb].
  destruct (Nat.leb_spec sz 3); [lia | reflexivity].
Qed.

Lemma in_rng_iff b lo hi : in_rng b lo hi = true <-> lo <= b <= hi.
Proof. unfold in_rng. rewrite andb_true_iff, !N.leb_le. tauto. Qed.

Lemma cont_iff b : cont b = true <-> 128 <= b <= 191.
Proof. apply (in_rng_iff b 128 191). Qed.

(* ---- the bytes of the encoding, by length class ---- *)
Lemma utf8_encode_1 r : r < 128 -> utf8_encode r = [r].
Proof. intros H. unfold utf8_encode. cmp. reflexivity. Qed.

Lemma utf8_encode_2 r : 128 <= r < 2048 -> utf8_encode r = [192 + r / 64; 128 + r mod 64].
Proof. intros H. unfold utf8_encode. cmp. reflexivity. Qed.

Lemma utf8_encode_3 r : 2048 <= r < 65536 ->
  utf8_encode r = [224 + r / 4096; 128 + (r / 64) mod 64; 128 + r mod 64].
Proof. intros H. unfold utf8_encode. cmp. reflexivity. Qed.

Lemma utf8_encode_4 r : 65536 <= r ->
  utf8_encode r = [240 + r / 262144; 128 + (r / 4096) mod 64; 128 + (r / 64) mod 64; 128 + r mod 64].
Proof. intros H. unfold utf8_encode. cmp. reflexivity. Qed.

Lemma bytes2 r : 128 <= r < 2048 ->
  let b0 := 192 + r / 64 in let b1 := 128 + r mod 64 in
  194 <= b0 <= 223 /\ 128 <= b1 <= 191 /\ (b0 mod 32) * 64 + (b1 mod 64) = r.
Proof. intros H b0 b1. subst b0 b1. repeat split; lia. Qed.

Lemma bytes3 r : 2048 <= r < 65536 -> (r < 55296 \/ 57343 < r) ->
  let b0 := 224 + r / 4096 in let b1 := 128 + (r / 64) mod 64 in let b2 := 128 + r mod 64 in
  224 <= b0 <= 239 /\ (if b0 =? 224 then 160 else 128) <= b1 <= (if b0 =? 237 then 159 else 191) /\
  128 <= b2 <= 191 /\ (b0 mod 16) * 4096 + (b1 mod 64) * 64 + (b2 mod 64) = r.
Proof.
  intros H Hs b0 b1 b2. subst b0 b1 b2. split; [lia|]. split; [|split; lia].
  destruct (N.eqb_spec (224 + r / 4096) 224); destruct (N.eqb_spec (224 + r / 4096) 237); lia.
Qed.

Lemma bytes4 r : 65536 <= r <= 1114111 ->
  let b0 := 240 + r / 262144 in let b1 := 128 + (r / 4096) mod 64 in
  let b2 := 128 + (r / 64) mod 64 in let b3 := 128 + r mod 64 in
  240 <= b0 <= 244 /\ (if b0 =? 240 then 144 else 128) <= b1 <= (if b0 =? 244 then 143 else 191) /\
  128 <= b2 <= 191 /\ 128 <= b3 <= 191 /\
  (b0 mod 8) * 262144 + (b1 mod 64) * 4096 + (b2 mod 64) * 64 + (b3 mod 64) = r.
Proof.
  intros H b0 b1 b2 b3. subst b0 b1 b2 b3. split; [lia|]. split; [|repeat split; lia].
  destruct (N.eqb_spec (240 + r / 262144) 240); destruct (N.eqb_spec (240 + r / 262144) 244); lia.
Qed.

Lemma next_key_none a p : bytes_to_key a p = BNone a -> next_key a p = BNone a.
Proof. intros H. unfold next_key. rewrite H, Nat.sub_diag. reflexivity. Qed.

Lemma prefix_cases {A} (l a b : list A) : l = a ++ b -> b <> [] ->
  exists n, (n < length l)%nat /\ a = firstn n l.
Proof.
  intros -> Hb. exists (length a). split.
  - rewrite app_length. destruct b; [contradiction | cbn; lia].
  - rewrite firstn_app, Nat.sub_diag, firstn_all. cbn. rewrite app_nil_r. reflexivity.
Qed.

(* bytesToKey on the encoding of an encodable rune, followed by anything, in either mode: the rune
   and the bytes after it - except that for U+FFFD the answer is utf8.RuneError (BNone), with the
   three bytes consumed *)
Lemma rune_btk r tail p : enc_rune r = true ->
  bytes_to_key (utf8_encode r ++ tail) p = if r =? runeError then BNone tail else BKey r tail.
Proof.
  intros H. destruct (enc_rune_facts r H) as (Hlo & Hsur & Hmax).
  destruct (N.lt_ge_cases r 128) as [C1|C1]; [|destruct (N.lt_ge_cases r 2048) as [C2|C2];
    [|destruct (N.lt_ge_cases r 65536) as [C3|C3]]].
  - rewrite utf8_encode_1 by lia. cbn [app].
    rewrite btk_plain by (try apply ctrl_none; lia).
    destruct (dec1 r tail C1) as [F D]. rewrite F, D. cbn [negb]. cbn beta iota.
    reflexivity.
  - rewrite utf8_encode_2 by lia. cbn [app].
    destruct (bytes2 r (conj C1 C2)) as (B0 & B1 & V).
    rewrite btk_plain by (try apply ctrl_none; lia).
    destruct (dec2 _ _ tail _ _ (lead2 _ B0) (proj2 (in_rng_iff _ _ _) B1)) as [F D].
    rewrite F, D, V. cbn [negb]. cbn beta iota. reflexivity.
  - rewrite utf8_encode_3 by lia. cbn [app].
    destruct (bytes3 r (conj C2 C3) Hsur) as (B0 & B1 & B2 & V).
    rewrite btk_plain by (try apply ctrl_none; lia).
    destruct (dec3 _ _ _ tail _ _ (lead3 _ B0) (proj2 (in_rng_iff _ _ _) B1) (proj2 (cont_iff _) B2)) as [F D].
    rewrite F, D, V. cbn [negb]. cbn beta iota. reflexivity.
  - rewrite utf8_encode_4 by lia. cbn [app].
    destruct (bytes4 r (conj C3 Hmax)) as (B0 & B1 & B2 & B3 & V).
    rewrite btk_plain by (try apply ctrl_none; lia).
    destruct (dec4 _ _ _ _ tail _ _ (lead4 _ B0) (proj2 (in_rng_iff _ _ _) B1) (proj2 (cont_iff _) B2)
                (proj2 (cont_iff _) B3)) as [F D].
    rewrite F, D, V. cbn [negb]. cbn beta iota. reflexivity.
Qed.

(* what readLine takes from bytesToKey (next_key: a RuneError answer that consumed exactly three
   bytes is the key U+FFFD): every encodable rune, U+FFFD included, is decoded to itself *)
Lemma rune_key r tail p : enc_rune r = true -> next_key (utf8_encode r ++ tail) p = BKey r tail.
Proof.
  intros H. unfold next_key. rewrite (rune_btk r tail p H).
  destruct (N.eqb_spec r runeError) as [->|Hne]; [|reflexivity].
  change (utf8_encode runeError) with [239; 191; 189]. cbn [app length].
  replace (Datatypes.S (Datatypes.S (Datatypes.S (length tail))) - length tail)%nat with 3%nat by lia.
  reflexivity.
Qed.

(* a proper prefix of the encoding of an encodable rune is no key: it waits for the next Read *)
Lemma rune_partial_btk r a b p : enc_rune r = true -> utf8_encode r = a ++ b -> b <> [] ->
  bytes_to_key a p = BNone a.
Proof.
  intros H Hab Hb. destruct (enc_rune_facts r H) as (Hlo & Hsur & Hmax).
  destruct (prefix_cases _ _ _ Hab Hb) as (n & Hn & ->). clear Hab Hb.
  destruct (N.lt_ge_cases r 128) as [C1|C1]; [|destruct (N.lt_ge_cases r 2048) as [C2|C2];
    [|destruct (N.lt_ge_cases r 65536) as [C3|C3]]].
  - rewrite utf8_encode_1 in * by lia. cbn [length] in Hn.
    destruct n as [|n]; [destruct p; reflexivity | lia].
  - rewrite utf8_encode_2 in * by lia. cbn [length] in Hn.
    destruct (bytes2 r (conj C1 C2)) as (B0 & B1 & V).
    destruct n as [|[|n]]; [destruct p; reflexivity | | lia]. cbn [firstn].
    rewrite btk_plain by (try apply ctrl_none; lia).
    rewrite (part1 _ _ _ _ (lead2 _ B0)) by lia. reflexivity.
  - rewrite utf8_encode_3 in * by lia. cbn [length] in Hn.
    destruct (bytes3 r (conj C2 C3) Hsur) as (B0 & B1 & B2 & V).
    destruct n as [|[|[|n]]]; [destruct p; reflexivity | | | lia]; cbn [firstn];
      rewrite btk_plain by (try apply ctrl_none; lia).
    + rewrite (part1 _ _ _ _ (lead3 _ B0)) by lia. reflexivity.
    + rewrite (part2 _ _ _ _ _ (lead3 _ B0) ltac:(lia) (proj2 (in_rng_iff _ _ _) B1)). reflexivity.
  - rewrite utf8_encode_4 in * by lia. cbn [length] in Hn.
    destruct (bytes4 r (conj C3 Hmax)) as (B0 & B1 & B2 & B3 & V).
    destruct n as [|[|[|[|n]]]]; [destruct p; reflexivity | | | | lia]; cbn [firstn];
      rewrite btk_plain by (try apply ctrl_none; lia).
    + rewrite (part1 _ _ _ _ (lead4 _ B0)) by lia. reflexivity.
    + rewrite (part2 _ _ _ _ _ (lead4 _ B0) ltac:(lia) (proj2 (in_rng_iff _ _ _) B1)). reflexivity.
    + rewrite (part3 _ _ _ _ _ _ (lead4 _ B0) ltac:(lia) (proj2 (in_rng_iff _ _ _) B1) (proj2 (cont_iff _) B2)). reflexivity.
Qed.

(* ---------- keys that have an encoding, by paste mode ---------- *)
Definition key_ok (p : bool) (k : N) : bool :=
  (if p then k =? keyPasteEnd else k =? keyPasteStart) || enc_rune k.

Definition next_p (p : bool) (k : N) : bool :=
  if p then negb (k =? keyPasteEnd) else k =? keyPasteStart.

Fixpoint enc_ok (p : bool) (ks : list N) : bool :=
  match ks with
  | [] => true
  | k :: r => key_ok p k && enc_ok (next_p p k) r
  end.

Lemma enc_rune_not_marker k : enc_rune k = true ->
  (k =? keyPasteStart) = false /\ (k =? keyPasteEnd) = false.
Proof.
  intros H. destruct (enc_rune_facts k H) as (_ & Hs & _). unfold keyPasteStart, keyPasteEnd.
  split; apply N.eqb_neq; lia.
Qed.

Lemma encode_key_rune k : enc_rune k = true -> encode_key k = utf8_encode k.
Proof. intros H. unfold encode_key. destruct (enc_rune_not_marker k H) as [-> ->]. reflexivity. Qed.

Lemma key_ok_cases p k : key_ok p k = true ->
  (p = false /\ k = keyPasteStart) \/ (p = true /\ k = keyPasteEnd) \/ enc_rune k = true.
Proof.
  unfold key_ok. intros H. apply orb_true_iff in H as [H|H]; [|auto].
  destruct p; apply N.eqb_eq in H; auto.
Qed.

Lemma rune_partial r a b p : enc_rune r = true -> utf8_encode r = a ++ b -> b <> [] ->
  next_key a p = BNone a.
Proof. intros H Hab Hb. apply next_key_none. exact (rune_partial_btk r a b p H Hab Hb). Qed.

Lemma key_decodes p k tail : key_ok p k = true -> next_key (encode_key k ++ tail) p = BKey k tail.
Proof.
  intros H. destruct (key_ok_cases p k H) as [[-> ->]|[[-> ->]|Hr]].
  - reflexivity.
  - reflexivity.
  - rewrite (encode_key_rune k Hr). apply rune_key, Hr.
Qed.

Lemma key_partial p k a b : key_ok p k = true -> encode_key k = a ++ b -> b <> [] ->
  next_key a p = BNone a.
Proof.
  intros H Hab Hb. destruct (key_ok_cases p k H) as [[-> ->]|[[-> ->]|Hr]].
  - destruct (prefix_cases _ _ _ Hab Hb) as (n & Hn & ->).
    change (encode_key keyPasteStart) with paste_start_seq in *. cbn [paste_start_seq length] in Hn.
    destruct n as [|[|[|[|[|[|n]]]]]]; [reflexivity..|lia].
  - destruct (prefix_cases _ _ _ Hab Hb) as (n & Hn & ->).
    change (encode_key keyPasteEnd) with paste_end_seq in *. cbn [paste_end_seq length] in Hn.
    destruct n as [|[|[|[|[|[|n]]]]]]; [reflexivity..|lia].
  - rewrite (encode_key_rune k Hr) in Hab. exact (rune_partial k a b p Hr Hab Hb).
Qed.

Lemma utf8_encode_len r : (1 <= length (utf8_encode r) <= 4)%nat.
Proof. unfold utf8_encode. cmp; cbn [length]; lia. Qed.

Lemma encode_key_len k : (1 <= length (encode_key k) <= 6)%nat.
Proof.
  unfold encode_key. destruct (k =? keyPasteStart); [cbn; lia|].
  destruct (k =? keyPasteEnd); [cbn; lia|]. pose proof (utf8_encode_len k). lia.
Qed.

(* the paste mode after a key that does not end the session *)
Lemma process_paste t lip k :
  match process_key t lip k with
  | PStop _ => True
  | PCont t' _ => paste t' = next_p (paste t) k
  | PLine _ _ t' => paste t' = next_p (paste t) k
  end.
Proof.
  destruct t as [ln p]. unfold process_key, handle_key, next_p, add_key. cbn [paste line].
  destruct p; cbn [negb andb].
  - destruct (k =? keyPasteEnd) eqn:E1; cbn [negb paste]; [reflexivity|].
    destruct (k =? keyEnter); cbn [negb]; [|reflexivity].
    destruct (split_statements ln) as [ss c]. destruct c; reflexivity.
  - destruct ((k =? keyCtrlD) && match ln with [] => true | _ => false end); [exact I|].
    destruct (k =? keyCtrlC); [exact I|].
    destruct (k =? keyPasteStart) eqn:E1; [reflexivity|].
    destruct (k =? keyEnter).
    + destruct (split_statements ln) as [ss c]. destruct c; reflexivity.
    + destruct (is_edit_key k); [exact I|]. destruct (k =? keyCtrlD); [reflexivity|].
      destruct (is_printable k); reflexivity.
Qed.

(* ---------- the key-level session as one recursive function ---------- *)
Fixpoint sess (t : term) (lip : bool) (ks : list N) : list rl_out :=
  match ks with
  | [] => [Eof]
  | k :: r =>
      match process_key t lip k with
      | PStop o => [o]
      | PCont t' lip' => sess t' lip' r
      | PLine ss p t' => Line ss p :: sess t' (paste t') r
      end
  end.

Lemma close_run_sess ks : forall t lip, close_session (fst (run t lip ks)) = sess t lip ks.
Proof.
  induction ks as [|k r IH]; intros t lip; [reflexivity|]. cbn [run sess].
  destruct (process_key t lip k) as [o|t' lip'|ss p t'] eqn:E.
  - apply process_stop in E. cbn [fst]. unfold close_session. cbn [existsb]. rewrite E. reflexivity.
  - apply IH.
  - rewrite <- IH. destruct (run t' (paste t') r) as [os x]. cbn [fst].
    unfold close_session. cbn [existsb is_stop orb]. destruct (existsb is_stop os); reflexivity.
Qed.

Lemma session_keys_sess ks : session_keys ks = sess init_term false ks.
Proof. apply close_run_sess. Qed.

(* ---------- the inner loop of readLine on a prefix of the encoding of a key list ---------- *)
Definition partial (rest : list N) (ks : list N) : Prop :=
  match ks with
  | [] => rest = []
  | k :: _ => exists b, b <> [] /\ encode_key k = rest ++ b
  end.

Lemma encode_keys_cons k r : encode_keys (k :: r) = encode_key k ++ encode_keys r.
Proof. reflexivity. Qed.

Lemma partial_short rest ks : partial rest ks -> (length rest <= 5)%nat.
Proof.
  destruct ks as [|k r]; cbn [partial].
  - intros ->. cbn. lia.
  - intros (b & Hb & E). pose proof (encode_key_len k) as L. rewrite E, app_length in L.
    destruct b; [contradiction | cbn [length] in L; lia].
Qed.

Lemma partial_all rest ks : partial rest ks -> rest = encode_keys ks -> ks = [].
Proof.
  destruct ks as [|k r]; [reflexivity|]. cbn [partial]. intros (b & Hb & E) H.
  rewrite encode_keys_cons, E in H. apply (f_equal (@length N)) in H.
  rewrite !app_length in H. destruct b; [contradiction | cbn [length] in H; lia].
Qed.

Lemma inner_sim ks : forall t lip rem more f,
  rem ++ more = encode_keys ks -> enc_ok (paste t) ks = true -> (length rem < f)%nat ->
  match inner f t lip rem with
  | IStop o => sess t lip ks = [o] /\ is_stop o = true
  | ILine ss p t' rest =>
      exists ks', sess t lip ks = Line ss p :: sess t' (paste t') ks' /\
                  rest ++ more = encode_keys ks' /\ enc_ok (paste t') ks' = true /\
                  (length rest < length rem)%nat
  | IMore t' lip' rest =>
      exists ks', sess t lip ks = sess t' lip' ks' /\
                  rest ++ more = encode_keys ks' /\ enc_ok (paste t') ks' = true /\
                  partial rest ks' /\ (length rest <= length rem)%nat
  end.
Proof.
  induction ks as [|k r IH]; intros t lip rem more f Hb Hok Hf.
  - change (encode_keys []) with (@nil N) in Hb. apply app_eq_nil in Hb as [-> ->].
    destruct f as [|f]; [cbn in Hf; lia|]. cbn [inner].
    change (next_key [] (paste t)) with (BNone []).
    exists []. cbn [partial length]. repeat split; auto.
  - rewrite encode_keys_cons in Hb. cbn [enc_ok] in Hok. apply andb_true_iff in Hok as [Hk Hr].
    assert (Hcase : (exists x, rem = encode_key k ++ x /\ x ++ more = encode_keys r) \/
                    (exists b, b <> [] /\ encode_key k = rem ++ b)).
    { apply app_eq_app in Hb as [l [[H1 H2]|[H1 H2]]].
      - left. exists l. auto.
      - destruct l as [|y l].
        + left. exists []. rewrite app_nil_r in H1. cbn [app] in H2. rewrite app_nil_r. auto.
        + right. exists (y :: l). split; [discriminate | exact H1]. }
    destruct f as [|f]; [lia|]. cbn [inner sess].
    destruct Hcase as [(x & -> & Hx)|(b & Hne & Hkb)].
    + rewrite (key_decodes _ _ x Hk). pose proof (process_paste t lip k) as Hp.
      pose proof (encode_key_len k) as Hl. rewrite app_length in Hf.
      destruct (process_key t lip k) as [o|t' lip'|ss p t'] eqn:E.
      * split; [reflexivity | exact (process_stop _ _ _ _ E)].
      * rewrite <- Hp in Hr. specialize (IH t' lip' x more f Hx Hr ltac:(lia)).
        destruct (inner f t' lip' x) as [o|t2 lip2 rest|ss p t2 rest].
        -- exact IH.
        -- destruct IH as (ks' & A & B & C & D & F). exists ks'. rewrite app_length.
           repeat split; auto. lia.
        -- destruct IH as (ks' & A & B & C & F). exists ks'. rewrite app_length.
           repeat split; auto. lia.
      * rewrite <- Hp in Hr. exists r. rewrite app_length. repeat split; auto. lia.
    + rewrite (key_partial _ _ _ _ Hk Hkb Hne).
      exists (k :: r). cbn [sess enc_ok partial]. rewrite Hk, Hr.
      repeat split; auto. exists b. auto.
Qed.

(* ---------- Read on the chunked source ---------- *)
Lemma src_read_spec cap src : (1 <= cap)%nat ->
  match src_read cap src with
  | None => src = []
  | Some (data, src') =>
      concat src = data ++ concat src' /\
      total_len src = (length data + total_len src')%nat /\
      (total_len src' + length src' < total_len src + length src)%nat
  end.
Proof.
  intros Hc. destruct src as [|c r]; cbn [src_read]; [reflexivity|].
  destruct (Nat.leb_spec (length c) cap) as [Hl|Hl].
  - cbn [concat total_len length]. repeat split; lia.
  - cbn [concat total_len length]. rewrite app_assoc, firstn_skipn.
    pose proof (firstn_skipn cap c) as E. apply (f_equal (@length N)) in E. rewrite app_length in E.
    rewrite skipn_length in *. repeat split; lia.
Qed.

(* ---------- one ReadLine call ---------- *)
Lemma read_line_sim fuel : forall t lip rem src ks,
  rem ++ concat src = encode_keys ks -> enc_ok (paste t) ks = true ->
  (total_len src + length src < fuel)%nat ->
  match read_line fuel t lip rem src with
  | (Line ss p, t', rem', src') =>
      exists ks', sess t lip ks = Line ss p :: sess t' (paste t') ks' /\
                  rem' ++ concat src' = encode_keys ks' /\ enc_ok (paste t') ks' = true /\
                  (length rem' + total_len src' < length rem + total_len src)%nat
  | (o, _, _, _) => sess t lip ks = [o]
  end.
Proof.
  induction fuel as [|fuel IH]; intros t lip rem src ks Hb Hok Hf; [lia|].
  cbn [read_line].
  pose proof (inner_sim ks t lip rem (concat src) (Datatypes.S (length rem)) Hb Hok ltac:(lia)) as HI.
  destruct (inner (Datatypes.S (length rem)) t lip rem) as [o|t1 lip1 rest|ss p t1 rest].
  - destruct HI as [A B]. destruct o; [discriminate B | exact A | exact A].
  - destruct HI as (ks' & A & B & C & D & F).
    pose proof (partial_short _ _ D) as Hs.
    pose proof (src_read_spec (inBufSize - length rest) src) as HR.
    assert (Hcap : (1 <= inBufSize - length rest)%nat) by (unfold inBufSize; lia).
    specialize (HR Hcap).
    destruct (src_read (inBufSize - length rest) src) as [[data src']|].
    + destruct HR as (R1 & R2 & R3).
      assert (Hb' : (rest ++ data) ++ concat src' = encode_keys ks')
        by (rewrite <- app_assoc, <- R1; exact B).
      specialize (IH t1 lip1 (rest ++ data) src' ks' Hb' C ltac:(lia)).
      destruct (read_line fuel t1 lip1 (rest ++ data) src') as [[[o t2] rem2] src2].
      rewrite A. destruct o; [|exact IH|exact IH].
      destruct IH as (ks2 & I1 & I2 & I3 & I4). exists ks2. rewrite app_length in I4.
      repeat split; auto. lia.
    + subst src. cbn [concat] in B. rewrite app_nil_r in B.
      rewrite (partial_all _ _ D B) in A. exact A.
  - destruct HI as (ks' & A & B & C & F). exists ks'. repeat split; auto. lia.
Qed.

(* ---------- the session ---------- *)
Lemma session_loop_sim n : forall t rem src ks,
  rem ++ concat src = encode_keys ks -> enc_ok (paste t) ks = true ->
  (length rem + total_len src < n)%nat ->
  session_loop n t rem src = sess t (paste t) ks.
Proof.
  induction n as [|n IH]; intros t rem src ks Hb Hok Hn; [lia|].
  cbn [session_loop].
  pose proof (read_line_sim (src_fuel src + 4) t (paste t) rem src ks Hb Hok) as HR.
  assert (Hf : (total_len src + length src < src_fuel src + 4)%nat) by (unfold src_fuel; lia).
  specialize (HR Hf).
  destruct (read_line (src_fuel src + 4) t (paste t) rem src) as [[[o t'] rem'] src'].
  destruct o as [ss p| |]; [|symmetry; exact HR|symmetry; exact HR].
  destruct HR as (ks' & A & B & C & D). rewrite A. f_equal. apply IH; auto. lia.
Qed.

(* THE byte-level link: whatever the cutting into Read chunks, the byte-level session on the
   encoding of an encodable key list is the key-level session on the keys *)
Lemma bytes_session_is_key_session chunks ks :
  enc_ok false ks = true -> concat chunks = encode_keys ks ->
  session_bytes chunks = session_keys ks.
Proof.
  intros Hok Hb. rewrite session_keys_sess. unfold session_bytes.
  apply (session_loop_sim _ init_term [] chunks ks); auto. cbn [length]. lia.
Qed.

(* ---------- the keys of an in-scope delivery are encodable ---------- *)
Lemma item_enc k : item_ok k = true -> enc_rune k = true.
Proof.
  unfold item_ok, brk. intros H. apply orb_true_iff in H as [H|H].
  - apply N.eqb_eq in H. subst k. reflexivity.
  - unfold valid_rune in H. apply andb_true_iff in H as [H _]. apply andb_true_iff in H as [Hp Hx].
    unfold is_printable in Hp. apply andb_true_iff in Hp as [Hp _]. apply N.leb_le in Hp.
    apply N.eqb_eq in Hx. unfold fix_rune, runeError in Hx.
    unfold enc_rune, keyEnter. revert Hx. cmp; intros; try lia; reflexivity.
Qed.

Lemma enc_ok_runes p its tail : forallb enc_rune its = true -> enc_ok p (its ++ tail) = enc_ok p tail.
Proof.
  induction its as [|k r IH]; intros H; [reflexivity|]. cbn [forallb] in H.
  apply andb_true_iff in H as [Hk Hr]. cbn [app enc_ok].
  destruct (enc_rune_not_marker k Hk) as [M1 M2].
  unfold key_ok, next_p. rewrite Hk, M1, M2, orb_true_r. cbn [andb negb].
  destruct p; exact (IH Hr).
Qed.

Lemma enc_ok_deliver pcs tail :
  forallb (fun pc : bool * list N => forallb enc_rune (snd pc)) pcs = true ->
  enc_ok false (deliver pcs ++ tail) = enc_ok false tail.
Proof.
  induction pcs as [|[pf its] r IH]; intros H; [reflexivity|].
  cbn [forallb snd] in H. apply andb_true_iff in H as [Hi Hr].
  unfold deliver in *. cbn [map concat fst snd]. rewrite <- app_assoc. destruct pf.
  - cbn [app enc_ok]. change (key_ok false keyPasteStart) with true.
    change (next_p false keyPasteStart) with true. cbn [andb].
    rewrite <- app_assoc, (enc_ok_runes true its _ Hi). cbn [app enc_ok].
    change (key_ok true keyPasteEnd) with true. change (next_p true keyPasteEnd) with false.
    cbn [andb]. exact (IH Hr).
  - rewrite (enc_ok_runes false its _ Hi). exact (IH Hr).
Qed.

Lemma forallb_concat_snd (f : N -> bool) (pcs : list (bool * list N)) :
  forallb f (concat (map snd pcs)) = true ->
  forallb (fun pc : bool * list N => forallb f (snd pc)) pcs = true.
Proof.
  induction pcs as [|pc r IH]; intros H; [reflexivity|]. cbn [map concat] in H.
  rewrite forallb_app in H. apply andb_true_iff in H as [A B]. cbn [forallb]. rewrite A, (IH B). reflexivity.
Qed.

Lemma forallb_imp {A} (f h : A -> bool) l :
  (forall x, f x = true -> h x = true) -> forallb f l = true -> forallb h l = true.
Proof.
  intros Hh. induction l as [|x l IH]; cbn [forallb]; [auto|]. intros Hf.
  apply andb_true_iff in Hf as [F1 F2]. rewrite (Hh x F1), (IH F2). reflexivity.
Qed.

Lemma script_enc_ok us pcs :
  forallb wf_unit us = true -> concat (map snd pcs) = script_keys us ->
  enc_ok false (final_enter pcs) = true.
Proof.
  intros Hwf Hcat. unfold final_enter. rewrite enc_ok_deliver; [reflexivity|].
  apply forallb_concat_snd. rewrite Hcat.
  exact (forallb_imp _ _ _ item_enc (script_items us Hwf)).
Qed.

(* in-scope cases: the byte-level model and the key-level model give the same answer *)
Lemma scripted_bytes_are_keys c us pcs :
  c_script c = Some (us, pcs) -> hyps_hold c = true ->
  session_bytes (c_chunks c) = session_keys (final_enter pcs).
Proof.
  intros Hs Hh. destruct (hyps_script c us pcs Hs Hh) as (Hwf & Hcat & Hbytes).
  exact (bytes_session_is_key_session _ _ (script_enc_ok us pcs Hwf Hcat) Hbytes).
Qed.

(* agreement of the BYTE-level model with Go suffices for the oracle's acceptance *)
Lemma byte_agreement_implies_acceptance c :
  hyps_hold c = true ->
  list_eqb out_eqb (session_bytes (c_chunks c)) (c_obs c) = true -> spec_accepts c = true.
Proof.
  intros Hh Hm. destruct (c_script c) as [[us pcs]|] eqn:Hs.
  - rewrite (spec_accepts_scripted c us pcs Hs).
    destruct (hyps_script c us pcs Hs Hh) as (Hwf & Hcat & _).
    apply outs_eqb_spec in Hm. rewrite <- Hm, (scripted_bytes_are_keys c us pcs Hs Hh).
    exact (key_session_accepted us pcs Hwf Hcat).
  - unfold spec_accepts. rewrite Hs. reflexivity.
Qed.
