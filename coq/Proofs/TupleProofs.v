(* Round trip and refusal theorems for Model/Tuple.v (storage/relation.go Tuple.Encode /
   Tuple.Decode / FieldDef.Validate). *)
From Coq Require Import Ascii String NArith ZArith Bool Lia Arith List.
From Mkdb Require Import Model.Tuple Proofs.BytesProofs.
Import ListNotations.
Local Open Scope N_scope.

(* ---- the map ---- *)
Lemma tget_tset_same k v m : tget k (tset k v m) = v.
Proof.
  induction m as [|[k' v'] r IH]; cbn.
  - rewrite String.eqb_refl. reflexivity.
  - destruct (String.eqb_spec k' k) as [->|Hne]; cbn.
    + rewrite String.eqb_refl. reflexivity.
    + destruct (String.eqb_spec k' k); [contradiction | exact IH].
Qed.

Lemma tget_tset_other k k' v m : k <> k' -> tget k' (tset k v m) = tget k' m.
Proof.
  intros Hne. induction m as [|[k0 v0] r IH]; cbn.
  - destruct (String.eqb_spec k k'); [contradiction | reflexivity].
  - destruct (String.eqb_spec k0 k) as [->|Hne0]; cbn.
    + destruct (String.eqb_spec k k'); [contradiction | reflexivity].
    + destruct (String.eqb_spec k0 k'); [reflexivity | exact IH].
Qed.

(* ---- value validity (what Validate accepts) ---- *)
Definition int64_ok (z : Z) : bool := ((-9223372036854775808 <=? z) && (z <=? 9223372036854775807))%Z.

(* a value the engine can hold for a column of type t: NULL, or the right Go type, with INT
   inside 32 bits and BIGINT inside 64 bits (Go int64) *)
Definition value_fits (t : coltype) (v : value) : bool :=
  match v, t with
  | VNull, _ => true
  | VInt z, TInt => int32_ok z
  | VInt z, TBigInt => int64_ok z
  | VStr s, TVarchar => N.ltb (N.of_nat (String.length s)) 4294967296
  | VBool _, TBoolean => true
  | _, _ => false
  end.

Lemma validate_fits t v : v <> VNull -> value_fits t v = true -> validate t v = Ok tt.
Proof.
  destruct v, t; cbn; try discriminate; try congruence; intros _ H; try reflexivity.
  rewrite H. reflexivity.
Qed.

Lemma string_length_bytes s : length (bytes_of_string s) = String.length s.
Proof.
  unfold bytes_of_string. induction s as [|c s IH]; cbn; [reflexivity | rewrite IH; reflexivity].
Qed.

Lemma read_padded_exact k a rest : length a = k -> read_padded k (a ++ rest) = Some (a, rest).
Proof.
  intros H. unfold read_padded. destruct k as [|k'].
  - destruct a; [reflexivity | discriminate].
  - destruct a as [|x a']; [discriminate|]. cbn [app].
    change (x :: a' ++ rest) with ((x :: a') ++ rest).
    rewrite firstn_app, H, firstn_all2 by lia. rewrite app_length, Nat.sub_diag by lia.
    replace (S k' - (length (x :: a') + length rest))%nat with 0%nat by lia.
    replace (S k' - length (x :: a'))%nat with 0%nat by lia.
    cbn [firstn zeros repeat]. rewrite !app_nil_r.
    rewrite skipn_app, skipn_all2 by lia. replace (S k' - length (x :: a'))%nat with 0%nat by lia.
    reflexivity.
Qed.

(* one value round trip *)
Lemma dec_enc_value t v rest :
  v <> VNull -> value_fits t v = true ->
  dec_value t (enc_value t v ++ rest) = Ok (v, rest).
Proof.
  intros Hnn Hfit. destruct v as [z|s|b|], t; cbn in Hfit; try discriminate; try congruence.
  - (* INT *)
    unfold dec_value, enc_value. rewrite read_u_app by (apply twos_enc_bound; lia).
    rewrite twos_dec_enc; [reflexivity | lia |].
    unfold int32_ok in Hfit. apply andb_true_iff in Hfit as [A B]. apply Z.leb_le in A, B. cbn. lia.
  - (* BIGINT *)
    unfold dec_value, enc_value. rewrite read_u_app by (apply twos_enc_bound; lia).
    rewrite twos_dec_enc; [reflexivity | lia |].
    unfold int64_ok in Hfit. apply andb_true_iff in Hfit as [A B]. apply Z.leb_le in A, B. cbn. lia.
  - (* VARCHAR *)
    unfold dec_value, enc_value. apply N.ltb_lt in Hfit. rewrite <- app_assoc.
    rewrite read_u_app by (cbn; lia). rewrite Nat2N.id.
    rewrite read_padded_exact by apply string_length_bytes.
    rewrite string_bytes_roundtrip. reflexivity.
  - (* BOOLEAN *)
    unfold dec_value, enc_value. rewrite read_bool_enc. reflexivity.
Qed.

(* ---- rows: schema with distinct column names, row aligned with the schema ---- *)
Fixpoint row_fits (sch : schema) (r : row) : bool :=
  match sch, r with
  | [], [] => true
  | fd :: sr, v :: vr => value_fits (fd_type fd) v && row_fits sr vr
  | _, _ => false
  end.

Definition names (sch : schema) : list string := map fd_name sch.

(* the tuple map built from a row *)
Fixpoint tuple_of (sch : schema) (r : row) : tuple :=
  match sch, r with
  | fd :: sr, v :: vr => (fd_name fd, v) :: tuple_of sr vr
  | _, _ => []
  end.

Fixpoint encode_row_direct (sch : schema) (r : row) : bytes :=
  match sch, r with
  | fd :: sr, v :: vr =>
      match v with
      | VNull => enc_bool true ++ encode_row_direct sr vr
      | _ => enc_bool false ++ enc_value (fd_type fd) v ++ encode_row_direct sr vr
      end
  | _, _ => []
  end.

Lemma tget_tuple_of_notin sch r k : ~ In k (names sch) -> tget k (tuple_of sch r) = VNull.
Proof.
  revert r. induction sch as [|fd sr IH]; intros r Hn; [destruct r; reflexivity|].
  destruct r as [|v vr]; [reflexivity|]. cbn [tuple_of tget].
  destruct (String.eqb_spec (fd_name fd) k) as [E|E].
  - exfalso. apply Hn. left. exact E.
  - apply IH. intros H. apply Hn. right. exact H.
Qed.

(* encoding through the map = encoding the row directly, when names are distinct *)
Lemma encode_tuple_of sch : forall r m,
  NoDup (names sch) -> row_fits sch r = true ->
  (forall fd v, In (fd, v) (combine sch r) -> tget (fd_name fd) m = v) ->
  encode_tuple sch m = Ok (encode_row_direct sch r).
Proof.
  induction sch as [|fd sr IH]; intros r m Hnd Hfit Hm.
  - destruct r; [reflexivity | discriminate].
  - destruct r as [|v vr]; [discriminate|]. cbn [row_fits] in Hfit. apply andb_true_iff in Hfit as [Hv Hr].
    inversion Hnd as [|? ? Hn Hnd']; subst.
    cbn [encode_tuple encode_row_direct]. rewrite (Hm fd v) by (left; reflexivity).
    assert (IH' : encode_tuple sr m = Ok (encode_row_direct sr vr)).
    { apply IH; auto. intros fd' v' Hin. apply Hm. right. exact Hin. }
    destruct v as [z|s|b|]; cbn [bind].
    + rewrite (validate_fits (fd_type fd) (VInt z)) by (auto; discriminate). cbn [bind]. rewrite IH'. reflexivity.
    + rewrite (validate_fits (fd_type fd) (VStr s)) by (auto; discriminate). cbn [bind]. rewrite IH'. reflexivity.
    + rewrite (validate_fits (fd_type fd) (VBool b)) by (auto; discriminate). cbn [bind]. rewrite IH'. reflexivity.
    + rewrite IH'. reflexivity.
Qed.

(* decoding fills the map field by field *)
Lemma decode_tuple_direct sch : forall r m rest,
  row_fits sch r = true ->
  decode_tuple sch (encode_row_direct sch r ++ rest) m =
  Ok (fold_left (fun acc p => match snd p with VNull => acc | v => tset (fd_name (fst p)) v acc end)
                (combine sch r) m) \/ False.
Proof.
  induction sch as [|fd sr IH]; intros r m rest Hfit.
  - destruct r; [left; reflexivity | discriminate].
  - destruct r as [|v vr]; [discriminate|]. cbn [row_fits] in Hfit. apply andb_true_iff in Hfit as [Hv Hr].
    left. cbn [encode_row_direct decode_tuple combine fold_left fst snd].
    destruct v as [z|s|b|].
    + rewrite <- !app_assoc. rewrite read_bool_enc.
      rewrite dec_enc_value by (auto; discriminate). cbn [bind fst snd].
      destruct (IH vr (tset (fd_name fd) (VInt z) m) rest Hr) as [E|[]]. exact E.
    + rewrite <- !app_assoc. rewrite read_bool_enc.
      rewrite dec_enc_value by (auto; discriminate). cbn [bind fst snd].
      destruct (IH vr (tset (fd_name fd) (VStr s) m) rest Hr) as [E|[]]. exact E.
    + rewrite <- !app_assoc. rewrite read_bool_enc.
      rewrite dec_enc_value by (auto; discriminate). cbn [bind fst snd].
      destruct (IH vr (tset (fd_name fd) (VBool b) m) rest Hr) as [E|[]]. exact E.
    + rewrite <- app_assoc. rewrite read_bool_enc.
      destruct (IH vr m rest Hr) as [E|[]]. exact E.
Qed.

Definition fill (sch : schema) (r : row) (m : tuple) : tuple :=
  fold_left (fun acc p => match snd p with VNull => acc | v => tset (fd_name (fst p)) v acc end)
            (combine sch r) m.

Lemma fill_cons fd sr v vr m :
  fill (fd :: sr) (v :: vr) m = fill sr vr (match v with VNull => m | _ => tset (fd_name fd) v m end).
Proof. unfold fill. cbn [combine fold_left fst snd]. destruct v; reflexivity. Qed.

Lemma fill_get_other sch : forall r m k, ~ In k (names sch) -> tget k (fill sch r m) = tget k m.
Proof.
  induction sch as [|fd sr IH]; intros r m k Hn; [reflexivity|].
  destruct r as [|v vr]; [reflexivity|]. rewrite fill_cons.
  assert (Hk : fd_name fd <> k) by (intros E; apply Hn; left; exact E).
  assert (Hn' : ~ In k (names sr)) by (intros H; apply Hn; right; exact H).
  rewrite IH by exact Hn'. destruct v; try reflexivity; apply tget_tset_other; exact Hk.
Qed.

Lemma fill_get sch : forall r m,
  NoDup (names sch) -> length r = length sch ->
  (forall k, In k (names sch) -> tget k m = VNull) ->
  map (fun fd => tget (fd_name fd) (fill sch r m)) sch = r.
Proof.
  induction sch as [|fd sr IH]; intros r m Hnd Hlen Hm.
  - destruct r; [reflexivity | discriminate].
  - destruct r as [|v vr]; [discriminate|]. inversion Hnd as [|? ? Hn Hnd']; subst.
    cbn [map]. rewrite fill_cons. cbn [length] in Hlen. f_equal.
    + rewrite fill_get_other by exact Hn.
      destruct v; try apply tget_tset_same. apply Hm. left. reflexivity.
    + apply IH; [exact Hnd' | lia |].
      intros k Hk. destruct v; try (apply Hm; right; exact Hk);
        (rewrite tget_tset_other; [apply Hm; right; exact Hk | intros E; subst; contradiction]).
Qed.

Lemma row_fits_length sch : forall r, row_fits sch r = true -> length r = length sch.
Proof.
  induction sch as [|fd sr IH]; intros [|v vr] H; try discriminate; [reflexivity|].
  cbn in *. apply andb_true_iff in H as [_ H]. rewrite (IH vr H). reflexivity.
Qed.

(* C08: every accepted row is read back exactly *)
Theorem decode_encode_row sch r :
  NoDup (names sch) -> row_fits sch r = true ->
  exists bs, encode_tuple sch (tuple_of sch r) = Ok bs /\ decode_row sch bs = Ok r.
Proof.
  intros Hnd Hfit. exists (encode_row_direct sch r). split.
  - apply (encode_tuple_of sch r (tuple_of sch r) Hnd Hfit).
    clear Hfit. revert r Hnd. induction sch as [|fd sr IH]; intros r Hnd fd' v' Hin; [destruct r; contradiction|].
    destruct r as [|v vr]; [contradiction|]. inversion Hnd as [|? ? Hn Hnd']; subst.
    cbn [combine] in Hin. cbn [tuple_of tget]. destruct Hin as [E|Hin].
    + inversion E; subst. rewrite String.eqb_refl. reflexivity.
    + destruct (String.eqb_spec (fd_name fd) (fd_name fd')) as [E|E].
      * exfalso. apply Hn. rewrite E. apply in_map. eapply in_combine_l; eauto.
      * apply IH; auto.
  - unfold decode_row. rewrite <- (app_nil_r (encode_row_direct sch r)).
    destruct (decode_tuple_direct sch r [] [] Hfit) as [E|[]]. rewrite E. cbn [bind]. f_equal.
    apply fill_get; [exact Hnd | apply row_fits_length; exact Hfit | reflexivity].
Qed.

(* C08: refusal - a value of the wrong type or an INT outside 32 bits makes Encode fail with the
   error Validate decides, whatever the other values are *)
Theorem encode_refuses sch m fd :
  In fd sch ->
  (forall fd0, In fd0 sch -> fd_name fd0 = fd_name fd -> fd0 = fd) ->
  tget (fd_name fd) m <> VNull ->
  validate (fd_type fd) (tget (fd_name fd) m) <> Ok tt ->
  exists e, encode_tuple sch m = Err e /\ (e = ETypeMismatch \/ e = EIntRange).
Proof.
  intros Hin Huniq Hnn Hbad.
  assert (Hv : forall t v, exists r, validate t v = r /\ (r = Ok tt \/ r = Err ETypeMismatch \/ r = Err EIntRange)).
  { intros t v. eexists; split; [reflexivity|]. destruct t, v; cbn; auto. destruct (int32_ok z); auto. }
  induction sch as [|fd0 sr IH]; [contradiction|].
  cbn [encode_tuple].
  destruct (tget (fd_name fd0) m) eqn:Eg.
  1-3: (destruct (Hv (fd_type fd0) (tget (fd_name fd0) m)) as (r & Er & Hr); rewrite Eg in Er; rewrite Er;
        destruct Hr as [-> | [-> | ->]]; cbn [bind]; [|eauto|eauto];
        destruct Hin as [-> | Hin]; [exfalso; apply Hbad; rewrite Eg; exact Er|];
        destruct (IH Hin) as (e & Ee & He); [intros; apply Huniq; auto; right; auto|];
        rewrite Ee; cbn [bind]; eauto).
  destruct Hin as [-> | Hin]; [congruence|].
  destruct (IH Hin) as (e & Ee & He); [intros; apply Huniq; auto; right; auto|].
  rewrite Ee. cbn [bind]. eauto.
Qed.
