(* C02 / C03 / C04 / C14: the observation oracle accepts the model's own behaviour on histories of
   ALL event kinds of Model/Engine.v: statements, flushes, crash-restarts (Proofs/OracleCrash.v) and
   in addition
     HEv (EvTornFlush W)      (C04) a crash inside flushPages after the pages W, then restart;
     HEv (EvCrashInLog st j)  (C03) a crash inside the log append of st after j records, then restart.
   EvTornFlush: when the model has a torn file (`torn_disk y W = Some _`, the in-place case)
   recovery gives back the cache up to dirty flags (CrashTornInv.torn_flush_inv), as for a plain
   crash; when it has none the model's step FAILS (run_h: [HOut (OBerr EUnmodelled); HDead]) and the
   oracle rejects that (it accepts HOut OBok only): excluded by the boolean `torn_ok`.
   EvCrashInLog: for an INSERT / UPDATE / DELETE that the model acknowledges, the recovered cache is
   `prefix_state` (equal up to dirty flags and page LSNs) of the store after the first i row
   operations (CrashPrefix.crash_in_log; (H2) comes from MovesFromRep.rep_moves_ok), and that store
   represents a member of TableSpec.stmt_prefixes (prefix_ok below: the specification side). The
   oracle widens its candidates to all of stmt_prefixes; the read-back of the statement's table
   that follows narrows them to the one the model is in (narrow_readback). *)
From Coq Require Import Arith Lia Bool List NArith ZArith String Sorted Permutation.
From Mkdb Require Import Model.Engine Spec.TableSpec Spec.HistObs Proofs.TreeProofs Proofs.StoreInv
  Proofs.BytesProofs Proofs.TupleProofs Proofs.RefineForest Proofs.RefineCodec Proofs.RefineRep
  Proofs.RefineCat Proofs.RefineDML Proofs.RefineDDL Proofs.Atomic Proofs.RefineMain Proofs.RefineFail
  Proofs.FailsEarly Proofs.SessionStore Proofs.CrashBase Proofs.CrashPages Proofs.CrashRedo Proofs.CrashLog
  Proofs.CrashMain Proofs.CrashPrefix Proofs.CrashTorn Proofs.CrashTornInv Proofs.CrashHist
  Proofs.MovesFromRep Proofs.HistNoH1 Proofs.OracleIds Proofs.OracleKeys Proofs.OracleSound Proofs.OracleCrash
  Gen.Params.
Import ListNotations.
Local Open Scope N_scope.
Local Open Scope string_scope.
Local Open Scope list_scope.

(* ====================== A. stores equal up to dirty flags and page LSNs ====================== *)
Lemma Rep_seqg el a S d : seqg el a S -> SInv a -> Rep S d -> Rep a d.
Proof.
  intros [Hf Hp _] Hinv [_ Hok (pt & sc & ents & osc & HC)]. constructor; auto.
  destruct HC as [Cpt Cptc Cfits Cn Coffs Cosc Csc Cscc Cscf Ctabs].
  pose proof (ger_find_root el (ptRoot S) _ _ Hf) as Fpt. rewrite Cpt in Fpt.
  destruct (find_root (ptRoot S) (forest a)) as [pt'|] eqn:Ept; [|contradiction].
  pose proof (ger_find_root el osc _ _ Hf) as Fsc. rewrite Csc in Fsc.
  destruct (find_root osc (forest a)) as [sc'|] eqn:Esc; [|contradiction].
  exists pt', sc', ents, osc. constructor; auto.
  - rewrite Hp. exact Ept.
  - rewrite <- (erase_cells el pt'), Fpt, erase_cells. exact Cptc.
  - rewrite Hp. exact Coffs.
  - rewrite <- (erase_cells el sc'), Fsc, erase_cells. exact Cscc.
  - intros t Ht. destruct (Ctabs t Ht) as (o & tr & He & Hr & HT).
    pose proof (ger_find_root el o _ _ Hf) as F. rewrite Hr in F.
    destruct (find_root o (forest a)) as [tr'|] eqn:Etr; [|contradiction].
    exists o, tr'. split; [exact He|]. split; [exact Etr|].
    unfold TableRep, scan_tree in *. rewrite <- (erase_cells el tr'), F, erase_cells. exact HT.
Qed.

Lemma roots_erase el f : roots (map (erase el) f) = roots f.
Proof. unfold roots. rewrite map_map. apply map_ext. intros t. apply erase_off. Qed.

Lemma SelfOk_seqg el a b : seqg el a b -> SelfOk b -> SelfOk a.
Proof.
  intros S (A & B & C). split; [|split].
  - rewrite (seqg_rel_offset el a b _ S). exact A.
  - rewrite (sg_free el _ _ S). exact B.
  - intros o t Ho. rewrite (sg_pt el _ _ S). destruct (find_root_In _ _ _ Ho) as [Hin Hoff].
    assert (Hr : In o (roots (forest b))).
    { rewrite <- (roots_erase el), <- (sg_forest el _ _ S), roots_erase. unfold roots. rewrite <- Hoff. apply in_map. exact Hin. }
    destruct (in_roots_find _ _ Hr) as [t' Ht']. eapply C; eauto.
Qed.

Lemma seqg_ids el a b n : seqg el a b -> ids a n = ids b n.
Proof. intros S. unfold ids, fetch_rows. rewrite (seqg_st_fetch el a b n S). reflexivity. Qed.

Lemma seqg_keys el a b : seqg el a b -> KeyKept b a.
Proof.
  intros S k (t & Hin & Hk). pose proof (sg_forest el _ _ S) as E.
  assert (Hin' : In (erase el t) (map (erase el) (forest a))) by (rewrite E; apply in_map; exact Hin).
  apply in_map_iff in Hin' as (t' & Et & Ht').
  exists t'. split; [exact Ht'|]. rewrite <- (erase_cells el t'), Et, erase_cells. exact Hk.
Qed.

Lemma OInvC_seqg el a S d seen gmax cr crP pn :
  OInvC S d seen gmax cr crP pn -> seqg el a S -> SInv a -> OInvC a d seen gmax cr crP pn.
Proof.
  intros [A B C E] HS Hinv. constructor; auto.
  - exact (Rep_seqg el a S d HS Hinv A).
  - destruct B as [B|B]; [left; exact B | right; apply (seqg_keys el _ _ HS); exact B].
  - intros n i Hsys Hi Hk. rewrite (seqg_ids el _ _ n HS) in Hi. exact (C n i Hsys Hi Hk).
Qed.

(* ====================== B. the store after the first i row operations ====================== *)
Lemma firstn_min_len {A} i (l : list A) : firstn (Nat.min i (List.length l)) l = firstn i l.
Proof.
  destruct (Nat.le_ge_cases i (List.length l)) as [H|H].
  - rewrite Nat.min_l by exact H. reflexivity.
  - rewrite Nat.min_r by exact H. rewrite firstn_all, firstn_all2 by exact H. reflexivity.
Qed.

Lemma Forall_firstn' {A} (P : A -> Prop) i l : Forall P l -> Forall P (firstn i l).
Proof. rewrite !Forall_forall. intros H x Hx. apply H. eapply In_firstn_In. exact Hx. Qed.

Lemma NoDup_firstn' {A} i : forall (l : list A), NoDup l -> NoDup (firstn i l).
Proof.
  induction i as [|i IH]; intros l H; [constructor|]. destruct l as [|a l]; [constructor|].
  inversion H; subst. cbn [firstn]. constructor; [|apply IH; assumption].
  intros X. apply (In_firstn_In i) in X. contradiction.
Qed.

Lemma insert_rows_firstn_ok n cols rows : forall i s b k s' b' c,
  insert_rows s n cols rows b k = (s', b', OOk c) ->
  exists s_i b_i c_i, insert_rows s n cols (firstn i rows) b k = (s_i, b_i, OOk c_i) /\ nextFree s_i <= nextFree s'.
Proof.
  induction rows as [|r rest IH]; intros i s b k s' b' c H.
  - rewrite firstn_nil. cbn [insert_rows] in *. inversion H; subst. exists s', b', c. split; [reflexivity | lia].
  - destruct i as [|i].
    + cbn [firstn insert_rows]. exists s, b, k. split; [reflexivity|].
      pose proof (insert_rows_free_mono (r :: rest) s n cols b k) as X. rewrite H in X. exact X.
    + cbn [firstn insert_rows] in *. destruct (st_insert s n cols r) as [s1 [ws|e|]]; try (inversion H; fail).
      exact (IH i _ _ _ _ _ _ H).
Qed.

Lemma update_rows_firstn_ok n cols vals ids : forall i s b s' b' c,
  update_rows s n cols vals ids b = (s', b', OOk c) ->
  exists s_i b_i c_i, update_rows s n cols vals (firstn i ids) b = (s_i, b_i, OOk c_i).
Proof.
  induction ids as [|k rest IH]; intros i s b s' b' c H.
  - rewrite firstn_nil. eauto.
  - destruct i as [|i]; [cbn [firstn update_rows]; eauto|].
    cbn [firstn update_rows] in *. destruct (st_update s n k cols vals) as [s1 [ws|e|]]; try (inversion H; fail).
    exact (IH i _ _ _ _ _ H).
Qed.

Lemma delete_rows_firstn_ok n ids : forall i s b k0 s' b' c,
  delete_rows s n ids b k0 = (s', b', OOk c) ->
  exists s_i b_i c_i, delete_rows s n (firstn i ids) b k0 = (s_i, b_i, OOk c_i).
Proof.
  induction ids as [|k rest IH]; intros i s b k0 s' b' c H.
  - rewrite firstn_nil. eauto.
  - destruct i as [|i]; [cbn [firstn delete_rows]; eauto|].
    cbn [firstn delete_rows] in *. destruct (st_delete s n k) as [s1 [ws|e|]]; try (inversion H; fail).
    exact (IH i _ _ _ _ _ _ H).
Qed.

(* the table a row statement works on *)
Definition stmt_table (st : stmt) : string :=
  match st with SInsert n _ _ | SUpdate n _ _ | SDelete n _ => n | _ => "" end.

(* every row-operation prefix of a row statement differs from the database in that one table *)
Lemma prefixes_shape d st t :
  is_dml st = true -> find_tbl (stmt_table st) d = Some t ->
  forall d', In d' (stmt_prefixes d st) -> exists rows, d' = set_rows (stmt_table st) rows d.
Proof.
  intros Hd Hf d' Hin. destruct st as [q|n cds|n| |n|n cols rows|n sets w|n w]; try discriminate;
    cbn [stmt_table stmt_prefixes] in *.
  - apply in_flat_map in Hin as (i & _ & Hin). cbn [spec_exec] in Hin. rewrite Hf in Hin.
    destruct (insert_all _ _ _); cbn [ok_dbs] in Hin; try contradiction.
    destruct Hin as [<-|[]]. eauto.
  - rewrite Hf in Hin. apply in_flat_map in Hin as (i & _ & Hin).
    destruct (update_first _ _ _ _ _ _); try contradiction. destruct Hin as [<-|[]]. eauto.
  - rewrite Hf in Hin. apply in_flat_map in Hin as (i & _ & Hin).
    destruct (delete_first _ _ _ _); try contradiction. destruct Hin as [<-|[]]. eauto.
Qed.

(* the specification side of C03_prefix_state: the store after the first i row operations of an
   acknowledged INSERT / UPDATE / DELETE represents a member of stmt_prefixes; its ids extend those
   of the store before, and no key is lost *)
Lemma prefix_ok s d st c i :
  Rep s d -> SelfOk s -> RefineMain.stmt_ok st = true -> stmt_shape st = true -> is_dml st = true ->
  nextFree (e_store (run_stmt s st)) <= OFFMAX -> e_out (run_stmt s st) = OOk c ->
  exists t d_i, find_tbl (stmt_table st) d = Some t /\ is_sys (stmt_table st) = false /\
    In d_i (stmt_prefixes d st) /\
    Rep (run_rows s st i) d_i /\ SelfOk (run_rows s st i) /\ IdExt s (run_rows s st i) /\ KeyKept s (run_rows s st i).
Proof.
  intros HR HS Hst Hsh Hdml Hmax Hout.
  destruct st as [q|n cds|n| |n|n cols rows|n sets w|n w]; try discriminate; cbn [stmt_table].
  - (* INSERT *)
    cbn [RefineMain.stmt_ok] in Hst. pose proof (vals_ok_rows _ Hst) as Hvals.
    cbn [run_stmt] in *. destruct (first_err _ rows) as [u|e0|]; try discriminate.
    destruct (insert_rows s n cols rows [] 0) as [[s1 b] o] eqn:Er. cbn [e_store e_out] in *. subst o.
    destruct rows as [|r rest]; [cbn in Hsh; discriminate|].
    destruct (is_sys n) eqn:Hsys.
    { exfalso. cbn [insert_rows] in Er. unfold st_insert, ins_bad_cols, st_insert0 in Er.
      rewrite is_sys_table_is_sys, Hsys in Er. inversion Er. }
    destruct (find_tbl n d) as [t|] eqn:Hf.
    2:{ exfalso. cbn [insert_rows] in Er. unfold st_insert, ins_bad_cols, st_insert0 in Er.
        rewrite is_sys_table_is_sys, Hsys in Er.
        destruct HR as [Hinv Hok (pt & sc & ents & osc & HC)].
        rewrite (cat_rel_offset_none s d pt sc ents osc Hinv HC n Hsys Hf) in Er. cbn [bind] in Er. inversion Er. }
    destruct (insert_rows_firstn_ok n cols (r :: rest) i s [] 0%nat s1 b c Er) as (s_i & b_i & c_i & Ei & Hnf).
    assert (Hmax_i : nextFree s_i <= OFFMAX) by lia.
    pose proof (Forall_firstn' _ i _ Hvals) as Hvals_i.
    destruct (insert_rows_rep n cols (firstn i (r :: rest)) s d t [] 0%nat s_i b_i c_i HR Hsys Hf Hvals_i Hmax_i Ei)
      as (new & Hnew & HR_i).
    cbn [run_rows]. rewrite Ei. cbn [fst].
    exists t, (set_rows n (tb_rows t ++ new) d). split; [reflexivity|]. split; [reflexivity|]. split; [|split; [exact HR_i|split; [|split]]].
    + cbn [stmt_prefixes]. apply in_flat_map. exists (Nat.min i (List.length (r :: rest))). split; [apply in_seq; lia|].
      rewrite firstn_min_len. cbn [spec_exec]. rewrite Hf, Hnew. left. reflexivity.
    + pose proof (rows_walk n cols (firstn i (r :: rest)) s d [] 0%nat HR HS Hvals_i) as X. rewrite Ei in X. cbn [fst snd] in X.
      destruct (X Hmax_i) as [_ Y]. exact (Y c_i eq_refl).
    + exact (insert_rows_idext n cols (firstn i (r :: rest)) s d t [] 0%nat s_i b_i c_i HR Hsys Hf Hvals_i Hmax_i Ei).
    + pose proof (insert_rows_keys (firstn i (r :: rest)) s n cols [] 0%nat (r_sinv _ _ HR)) as X. rewrite Ei in X. exact X.
  - (* UPDATE *)
    cbn [RefineMain.stmt_ok] in Hst. rename Hst into Hv. apply forallb_Forall in Hv.
    cbn [run_stmt run_rows] in *. change (upd_vals sets) with (set_vals sets). fold (set_vals sets) in *.
    destruct (existsb _ sets) eqn:Ex; [cbn in Hout; discriminate|].
    destruct (where_ids s n w) as [idl|e|] eqn:Ew; cbn [e_out e_store] in *; try discriminate.
    destruct (first_err _ idl) as [u|e0|]; cbn [e_out e_store] in *; try discriminate.
    cbn [stmt_shape] in Hsh. apply negb_true_iff in Hsh. rename Hsh into Hsys.
    destruct (find_tbl n d) as [t|] eqn:Hf.
    2:{ exfalso. unfold where_ids in Ew. rewrite (st_fetch_missing s d n HR Hsys Hf) in Ew. discriminate. }
    destruct (where_ids_spec s n w idl Ew) as (idrows & fs & Hfetch & Hids & Hev).
    destruct (st_fetch_user s d n t HR Hsys Hf) as (o & tr & Eo & Hr & Es & Ht & Hfetch').
    rewrite Hfetch' in Hfetch. inversion Hfetch; subst idrows fs. clear Hfetch.
    destruct (fetch_rows_ids s d n t o tr HR Hsys Hf Eo Hr) as (Hidc & Hrows & Hndk).
    assert (Efr : fetch_rows s n = combine (keys_of (scan_tree tr)) (tb_rows t)) by (unfold fetch_rows; rewrite Hfetch'; reflexivity).
    rewrite <- Efr in *.
    destruct (update_rows s n (map fst sets) (set_vals sets) idl []) as [[s1 b] o1] eqn:Eu. cbn [e_store e_out] in *. subst o1.
    destruct (update_rows_firstn_ok n _ _ idl i s [] s1 b c Eu) as (s_i & b_i & c_i & Ei).
    assert (Hks : forall k, In k (firstn i idl) -> In k (map fst (fetch_rows s n))).
    { intros k Hk. apply In_firstn_In in Hk. subst idl. apply in_map_iff in Hk as (kr & <- & Hkr).
      apply filter_In in Hkr as [Hkr _]. apply in_map. exact Hkr. }
    assert (Hnd : NoDup (firstn i idl)).
    { apply NoDup_firstn'. subst idl. apply NoDup_map_filter. exact Hndk. }
    destruct (update_rows_rep n (map fst sets) (set_vals sets) (firstn i idl) s d t [] s_i b_i c_i HR Hsys Hf Hv Hks Hnd Ei) as (HR_i & _).
    rewrite Ei. cbn [fst].
    eexists t, _. split; [reflexivity|]. split; [exact Hsys|]. split; [|split; [exact HR_i|split; [|split]]].
    + cbn [stmt_prefixes]. rewrite Hf. fold (set_vals sets).
      apply in_flat_map. exists (Nat.min i (List.length idl)). split.
      * apply in_seq. pose proof (filter_length_le (sel_pred w (fields_of (tb_schema t))) (fetch_rows s n)) as X.
        assert (List.length idl <= List.length (tb_rows t))%nat by (subst idl; rewrite <- Hrows, !map_length; exact X). lia.
      * rewrite <- Hrows, (update_first_ids w (tb_schema t) (map fst sets) (set_vals sets) (fetch_rows s n) _ Hev Hndk).
        rewrite <- Hids, firstn_min_len. left. reflexivity.
    + pose proof (update_rows_uinv n (map fst sets) (set_vals sets) (firstn i idl) s [] (UInv_rep n s d HR HS)) as X.
      rewrite Ei in X. apply X.
    + exact (update_rows_idext n (map fst sets) (set_vals sets) (firstn i idl) s d t [] s_i b_i c_i HR Hsys Hf Hv Hks Ei).
    + pose proof (update_rows_keys (firstn i idl) s n (map fst sets) (set_vals sets) []) as X. rewrite Ei in X. exact X.
  - (* DELETE *)
    cbn [run_stmt run_rows] in *.
    destruct (where_ids s n w) as [idl|e|] eqn:Ew; cbn [e_out e_store] in *; try discriminate.
    cbn [stmt_shape] in Hsh. apply negb_true_iff in Hsh. rename Hsh into Hsys.
    destruct (find_tbl n d) as [t|] eqn:Hf.
    2:{ exfalso. unfold where_ids in Ew. rewrite (st_fetch_missing s d n HR Hsys Hf) in Ew. discriminate. }
    destruct (where_ids_spec s n w idl Ew) as (idrows & fs & Hfetch & Hids & Hev).
    destruct (st_fetch_user s d n t HR Hsys Hf) as (o & tr & Eo & Hr & Es & Ht & Hfetch').
    rewrite Hfetch' in Hfetch. inversion Hfetch; subst idrows fs. clear Hfetch.
    destruct (fetch_rows_ids s d n t o tr HR Hsys Hf Eo Hr) as (Hidc & Hrows & Hndk).
    assert (Efr : fetch_rows s n = combine (keys_of (scan_tree tr)) (tb_rows t)) by (unfold fetch_rows; rewrite Hfetch'; reflexivity).
    rewrite <- Efr in *.
    destruct (delete_rows s n idl [] 0) as [[s1 b] o1] eqn:Eu. cbn [e_store e_out] in *. subst o1.
    destruct (delete_rows_firstn_ok n idl i s [] 0%nat s1 b c Eu) as (s_i & b_i & c_i & Ei).
    assert (Hks : forall k, In k (firstn i idl) -> In k (map fst (fetch_rows s n))).
    { intros k Hk. apply In_firstn_In in Hk. subst idl. apply in_map_iff in Hk as (kr & <- & Hkr).
      apply filter_In in Hkr as [Hkr _]. apply in_map. exact Hkr. }
    assert (Hnd : NoDup (firstn i idl)).
    { apply NoDup_firstn'. subst idl. apply NoDup_map_filter. exact Hndk. }
    destruct (delete_rows_rep n (firstn i idl) s d t [] 0%nat s_i b_i c_i HR Hsys Hf Hks Hnd Ei) as (HR_i & _).
    rewrite Ei. cbn [fst].
    eexists t, _. split; [reflexivity|]. split; [exact Hsys|]. split; [|split; [exact HR_i|split; [|split]]].
    + cbn [stmt_prefixes]. rewrite Hf.
      apply in_flat_map. exists (Nat.min i (List.length idl)). split.
      * apply in_seq. pose proof (filter_length_le (sel_pred w (fields_of (tb_schema t))) (fetch_rows s n)) as X.
        assert (List.length idl <= List.length (tb_rows t))%nat by (subst idl; rewrite <- Hrows, !map_length; exact X). lia.
      * rewrite <- Hrows, (delete_first_ids w (tb_schema t) (fetch_rows s n) _ Hev Hndk).
        rewrite <- Hids, firstn_min_len. left. reflexivity.
    + pose proof (delete_rows_uinv n (firstn i idl) s [] 0%nat (UInv_rep n s d HR HS)) as X.
      rewrite Ei in X. apply X.
    + exact (delete_rows_idext n (firstn i idl) s d t [] 0%nat s_i b_i c_i HR Hsys Hf Hks Hnd Ei).
    + pose proof (delete_rows_keys (firstn i idl) s n [] 0%nat) as X. rewrite Ei in X. exact X.
Qed.

(* ====================== C. the two new events, on the model side ====================== *)
(* a crash inside the log append of an acknowledged row statement *)
Lemma cil_step y d st j c seen gmax cr crP pn :
  RInv y -> OInvC (mem y) d seen gmax cr crP pn ->
  RefineMain.stmt_ok st = true -> stmt_shape st = true -> is_dml st = true ->
  nextFree (e_store (run_stmt (mem y) st)) <= OFFMAX -> e_out (run_stmt (mem y) st) = OOk c ->
  exists y' t d_i, step y (EvCrashInLog st j) = (SOk y', None) /\ RInv y' /\
    find_tbl (stmt_table st) d = Some t /\ is_sys (stmt_table st) = false /\
    In d_i (stmt_prefixes d st) /\ OInvC (mem y') d_i seen gmax cr crP pn.
Proof.
  intros HRI HI Hst Hsh Hdml Hmax Eo.
  pose proof (oc_rep _ _ _ _ _ _ _ HI) as HR. destruct HRI as (HI2 & HS & _).
  pose proof (rep_stmt_atomic (mem y) d st HR Hst Hmax) as Hat.
  pose proof (rep_moves_ok (mem y) d st HR HS Hst Hmax) as Hmv.
  destruct (crash_in_log y st c j (proj1 HI2) Hdml Hmv Eo) as (y' & Hstep & _ & _ & (Gj & Lj & _) & _ & HI').
  set (i := started (op_sizes (mem y) st) j) in *.
  destruct (prefix_ok (mem y) d st c i HR HS Hst Hsh Hdml Hmax Eo) as (t & d_i & Hf & Hsys & Hin & HRi & HSi & Hext & Hkeys).
  exists y', t, d_i. split; [exact Hstep|].
  pose proof (good_s _ Gj) as Hinv'.
  split.
  - split; [exact (inv2_step y (EvCrashInLog st j) y' None HI2 (conj Hat Hmv) Hstep)|].
    split; [exact (SelfOk_seqg true _ _ Lj HSi)|]. exists d_i. exact (Rep_seqg true _ _ _ Lj Hinv' HRi).
  - split; [exact Hf|]. split; [exact Hsys|]. split; [exact Hin|].
    apply (OInvC_seqg true (mem y') (run_rows (mem y) st i)); [|exact Lj|exact Hinv'].
    eapply OInvC_ext; [exact HI | exact HRi | exact Hext | exact Hkeys |].
    intros m Hm. destruct (prefixes_shape d st t Hdml Hf d_i Hin) as [rows ->].
    apply (oc_cr _ _ _ _ _ _ _ HI). eapply find_tbl_set_rows_some; exact Hm.
Qed.

(* a crash inside a flush for which the model has a torn file *)
Lemma torn_step y d W dk seen gmax cr crP pn :
  RInv y -> OInvC (mem y) d seen gmax cr crP pn -> torn_disk y W = Some dk ->
  exists y', step y (EvTornFlush W) = (SOk y', None) /\ RInv y' /\ OInvC (mem y') d seen gmax cr crP pn.
Proof.
  intros HRI HI Ht. pose proof (oc_rep _ _ _ _ _ _ _ HI) as HR. destruct HRI as ([HIv HT] & HS & _).
  destruct (torn_flush_inv y W dk HIv HT Ht) as (y' & _ & Sf & _ & Hstep & HI' & HT').
  assert (Hinv' : SInv (mem y')). { destruct HI' as (_ & _ & _ & _ & [G _]). exact (good_s _ G). }
  pose proof (seq_seqL _ _ Sf) as SL.
  exists y'. split; [exact Hstep|]. split.
  - split; [split; assumption|]. split; [exact (SelfOk_seq _ _ Sf HS)|]. exists d. exact (Rep_seqg true _ _ _ SL Hinv' HR).
  - exact (OInvC_seqg true _ _ _ _ _ _ _ _ HI SL Hinv').
Qed.

(* ====================== D. the oracle looks at its candidates as a set ====================== *)
Lemma len0_ext {A} (l1 l2 : list A) :
  (forall x, In x l1 <-> In x l2) -> Nat.eqb (List.length l1) 0 = Nat.eqb (List.length l2) 0.
Proof.
  intros H. destruct l1 as [|a l1], l2 as [|b l2]; try reflexivity; exfalso.
  - apply (proj2 (H b)). left. reflexivity.
  - apply (proj1 (H a)). left. reflexivity.
Qed.

Lemma forallb_set_ext {A} (p : A -> bool) l1 l2 : (forall x, In x l1 <-> In x l2) -> forallb p l1 = forallb p l2.
Proof.
  intros H. apply eq_true_iff_eq. rewrite !forallb_forall. split; intros X x Hx; apply X; apply H; exact Hx.
Qed.

Lemma flat_map_set_ext {A B} (f : A -> list B) l1 l2 :
  (forall x, In x l1 <-> In x l2) -> forall z, In z (flat_map f l1) <-> In z (flat_map f l2).
Proof.
  intros H z. rewrite !in_flat_map. split; intros (x & Hx & Hz); exists x; (split; [apply H; exact Hx | exact Hz]).
Qed.

Lemma filter_set_ext {A} (p : A -> bool) l1 l2 :
  (forall x, In x l1 <-> In x l2) -> forall z, In z (filter p l1) <-> In z (filter p l2).
Proof. intros H z. rewrite !filter_In, (H z). reflexivity. Qed.

Lemma spec_ok_ext md : is_lax md = false -> forall evs obs b1 b2 c1 c2 seen gmax,
  (forall x, In x c1 <-> In x c2) ->
  spec_ok md b1 c1 seen gmax evs obs = spec_ok md b2 c2 seen gmax evs obs.
Proof.
  intros Hlax. induction evs as [|h er IH]; intros obs b1 b2 c1 c2 seen gmax H.
  - destruct obs; reflexivity.
  - destruct h as [[st| | |st j|W]|ns|]; destruct obs as [|[[|e|]|l|hd ps| |] orr]; cbn [spec_ok]; try reflexivity;
      rewrite ?Hlax.
    + (* statement, acknowledged *)
      rewrite (len0_ext _ _ (flat_map_set_ext (fun d => ok_dbs (spec_exec d st)) c1 c2 H)). f_equal.
      apply IH. apply flat_map_set_ext. exact H.
    + (* statement, refused *)
      f_equal; [destruct md; try reflexivity; apply forallb_set_ext; exact H | apply IH; exact H].
    + apply IH; exact H.
    + apply IH; exact H.
    + apply IH. apply flat_map_set_ext. exact H.
    + apply IH; exact H.
    + rewrite (len0_ext _ _ (filter_set_ext (fun d => forallb (table_matches_spec d) l) c1 c2 H)). f_equal.
      apply IH. apply filter_set_ext. exact H.
    + apply IH; exact H.
    + apply IH; exact H.
    + apply IH; exact H.
    + apply IH; exact H.
    + apply IH; exact H.
    + apply IH; exact H.
    + apply IH; exact H.
Qed.

(* after a crash inside a log append: the read-back of the statement's table leaves exactly the
   prefix the model is in *)
Lemma narrow_readback md b1 b2 d_i c' seen gmax ns r l o :
  is_lax md = false ->
  In d_i c' -> (forall d', In d' c' -> forallb (table_matches_spec d') l = true -> d' = d_i) ->
  spec_ok md b1 [d_i] seen gmax (HReadTables ns :: r) (HTables l :: o) = true ->
  spec_ok md b2 c' seen gmax (HReadTables ns :: r) (HTables l :: o) = true.
Proof.
  intros Hlax Hin Huniq H. cbn [spec_ok] in *. cbn [filter] in H.
  destruct (forallb (table_matches_spec d_i) l) eqn:Em; [|cbn in H; discriminate].
  cbn [List.length Nat.eqb negb andb] in H.
  assert (Hset : forall x, In x (filter (fun d => forallb (table_matches_spec d) l) c') <-> In x [d_i]).
  { intros x. rewrite filter_In. split.
    - intros [A B]. left. symmetry. apply Huniq; assumption.
    - intros [<-|[]]. split; assumption. }
  rewrite (len0_ext _ [d_i] Hset). cbn [List.length Nat.eqb negb andb].
  apply andb_true_iff in H as [H1 H2]. rewrite H1. cbn [andb].
  rewrite <- H2. apply spec_ok_ext; assumption.
Qed.

Lemma prefix_unique d st t s' d_i ns :
  is_dml st = true -> find_tbl (stmt_table st) d = Some t -> is_sys (stmt_table st) = false ->
  In d_i (stmt_prefixes d st) -> Rep s' d_i -> In (stmt_table st) ns ->
  forall d', In d' (stmt_prefixes d st) ->
    forallb (table_matches_spec d') (map (fun n => (n, obs_table s' n)) ns) = true -> d' = d_i.
Proof.
  intros Hdml Hf Hsys Hin HR Hns d' Hd' Hm.
  destruct (prefixes_shape d st t Hdml Hf d_i Hin) as [ri ->]. destruct (prefixes_shape d st t Hdml Hf d' Hd') as [r' ->].
  clear Hin Hd'. set (n := stmt_table st) in *.
  rewrite forallb_forall in Hm. specialize (Hm (n, obs_table s' n) (in_map (fun n => (n, obs_table s' n)) _ _ Hns)).
  pose proof (matches_model s' _ n HR) as Hm2.
  unfold table_matches_spec in Hm, Hm2.
  change (String.eqb n "sys_pages" || String.eqb n "sys_schema") with (is_sys n) in *. rewrite Hsys in *.
  unfold spec_table in *. rewrite (find_tbl_set_rows n ri d t Hf) in Hm2. rewrite (find_tbl_set_rows n r' d t Hf) in Hm. cbn [tb_schema tb_rows] in *.
  destruct (obs_table s' n) as [c2 r2|e|]; try discriminate.
  apply andb_true_iff in Hm as [Hm _]. apply andb_true_iff in Hm as [_ Hm].
  apply andb_true_iff in Hm2 as [Hm2 _]. apply andb_true_iff in Hm2 as [_ Hm2].
  apply (list_eqb_spec row_eqb row_eqb_spec) in Hm. apply (list_eqb_spec row_eqb row_eqb_spec) in Hm2.
  congruence.
Qed.

(* ====================== E. the hypothesis on the two new events, as a boolean ====================== *)
(* EvCrashInLog st j: st is an INSERT / UPDATE / DELETE that the model acknowledges (literals Go
   values, shape as for C01, frontier <= 2^63) ... *)
Definition cil_stmt_ok (s : store) (st : stmt) : bool :=
  is_dml st && RefineMain.stmt_ok st && stmt_shape st &&
  N.leb (nextFree (e_store (run_stmt s st))) OFFMAX && is_ok (e_out (run_stmt s st)).

(* ... and the history ends there or goes on with a read-back that includes st's table;
   EvTornFlush W: the model has a torn file for W *)
Fixpoint torn_ok (y : sys) (hevs : list hevent) : bool :=
  match hevs with
  | [] => true
  | HEv ev :: r =>
      match ev with
      | EvTornFlush W => match torn_disk y W with Some _ => true | None => false end
      | EvCrashInLog st _ =>
          cil_stmt_ok (mem y) st &&
          match r with [] => true | HReadTables ns :: _ => mem_str (stmt_table st) ns | _ => false end
      | _ => true
      end &&
      match step y ev with (SOk y1, _) => torn_ok y1 r | _ => true end
  | _ :: r => torn_ok y r
  end.

(* histories without the two events satisfy it *)
Lemma torn_ok_of_shape_c hevs : hist_shape_c hevs = true -> forall y, torn_ok y hevs = true.
Proof.
  induction hevs as [|h r IH]; intros Hsh y; [reflexivity|].
  cbn [hist_shape_c forallb] in Hsh. apply andb_true_iff in Hsh as [H1 H2].
  destruct h as [[st| | |st j|W]|ns|]; try discriminate; cbn [torn_ok andb]; try (apply IH; exact H2);
    destruct (step y _) as [[y1|e|] o]; try reflexivity; apply IH; exact H2.
Qed.

Section RunT.
Variable md : smode.
Variable strict_hev : hevent -> bool.
Hypothesis strict_refusal : forall s d st e,
  md = MStrict -> Rep s d -> RefineMain.stmt_ok st = true -> strict_hev (HEv (EvStmt st)) = true ->
  nextFree (e_store (run_stmt s st)) <= OFFMAX ->
  e_out (run_stmt s st) = OErr e -> exists e', spec_exec d st = SpecErr e'.
Hypothesis md_not_lax : is_lax md = false.

Lemma oracle_run_t : forall hevs y d seen gmax cr crP pn base,
  RInv y -> OInvC (mem y) d seen gmax cr crP pn ->
  forallb hev_ok hevs = true -> forallb hev_stmt_shape hevs = true ->
  (md = MStrict -> forallb strict_hev hevs = true) ->
  frontier_ok y hevs = true -> reads_cover cr crP pn hevs = true -> torn_ok y hevs = true ->
  spec_ok md base [d] seen gmax hevs (run_h y hevs) = true.
Proof.
  induction hevs as [|h r IH]; intros y d seen gmax cr crP pn base HRI HI Hok Hss Hstr Hfr Hrc Htk; [reflexivity|].
  cbn [forallb] in Hok, Hss.
  apply andb_true_iff in Hok as [Hok1 Hok2]. apply andb_true_iff in Hss as [Hss1 Hss2].
  assert (Hstr2 : md = MStrict -> forallb strict_hev r = true).
  { intros E. specialize (Hstr E). cbn [forallb] in Hstr. apply andb_true_iff in Hstr as [_ X]. exact X. }
  pose proof (oc_rep _ _ _ _ _ _ _ HI) as HR.
  destruct h as [[st| | |st j|W]|ns|].
  - (* a statement *)
    cbn [hev_ok RefineMain.ev_ok] in Hok1. cbn [hev_stmt_shape] in Hss1.
    cbn [torn_ok andb] in Htk.
    cbn [run_h frontier_ok] in *.
    apply andb_true_iff in Hfr as [Hmax Hfr]. apply N.leb_le in Hmax.
    assert (Hev1 : ev_ok1 y (EvStmt st)).
    { split; [exact (rep_stmt_atomic (mem y) d st HR Hok1 Hmax) | split; assumption]. }
    pose proof (fun y1 o => RInv_step y (EvStmt st) y1 o HRI Hev1) as Hstep.
    rewrite step_stmt in *.
    destruct (e_out (run_stmt (mem y) st)) as [c|e|] eqn:Eo.
    + (* acknowledged *)
      specialize (Hstep _ _ eq_refl).
      destruct (run_stmt_spec_ok (mem y) d st c HR Hok1 Hss1 Hmax Eo) as [d' Hd'].
      pose proof (run_stmt_rep (mem y) d st c HR Hok1 Hmax Eo) as HR'. unfold spec_step in HR'. rewrite Hd' in HR'.
      pose proof (run_stmt_idext (mem y) d st c HR Hok1 Hmax Eo) as Hext.
      pose proof (run_stmt_keys (mem y) st (r_sinv _ _ HR)) as Hkeys.
      cbn [oobs_of spec_ok flat_map ok_dbs]. rewrite Hd'. cbn [ok_dbs app List.length Nat.eqb negb andb].
      set (cr' := match st with SCreateTable n _ => n :: cr | _ => cr end).
      assert (HI' : OInvC (mem (fst (exec y st))) d' seen gmax cr' crP pn).
      { rewrite mem_exec. eapply OInvC_ext; eauto. intros n Hn.
        destruct (spec_exec_tables d st d' n Hd' Hn) as [X|[cols ->]].
        - pose proof (oc_cr _ _ _ _ _ _ _ HI n X) as Y. unfold cr'. destruct st; try exact Y. right. exact Y.
        - left. reflexivity. }
      apply (IH _ d' seen gmax cr' crP pn _ Hstep HI' Hok2 Hss2 Hstr2 Hfr); [|exact Htk].
      unfold cr'. destruct st; exact Hrc.
    + (* refused: nothing changed *)
      specialize (Hstep _ _ eq_refl).
      pose proof (stmt_err_unchanged (mem y) d st e HR Hok1 Hmax Eo) as Hun.
      cbn [oobs_of spec_ok]. rewrite md_not_lax.
      assert (Hstrict : (match md with
                         | MStrict => forallb (fun d0 => match spec_exec d0 st with SpecErr _ => true | SpecOk _ => false end) [d]
                         | _ => true end) = true).
      { destruct md eqn:Emd; try reflexivity. cbn [forallb].
        specialize (Hstr eq_refl). cbn [forallb] in Hstr. apply andb_true_iff in Hstr as [Hs1 _].
        destruct (strict_refusal (mem y) d st e eq_refl HR Hok1 Hs1 Hmax Eo) as [e' ->]. reflexivity. }
      rewrite Hstrict. cbn [andb].
      set (cr' := match st with SCreateTable n _ => n :: cr | _ => cr end).
      assert (HI' : OInvC (mem (fst (exec y st))) d seen gmax cr' crP pn).
      { rewrite mem_exec, Hun. destruct HI as [A B C E]. constructor; auto.
        intros n Hn. specialize (E n Hn). unfold cr'. destruct st; try exact E. right. exact E. }
      apply (IH _ d seen gmax cr' crP pn _ Hstep HI' Hok2 Hss2 Hstr2 Hfr); [|exact Htk].
      unfold cr'. destruct st; exact Hrc.
    + (* a panic: impossible *)
      exfalso. apply (run_stmt_no_panic (mem y) d st HR); [|exact Eo].
      unfold np_hyp. destruct st; try exact Hok1; (apply andb_true_iff; split; [exact Hok1 | apply N.leb_le; exact Hmax]).
  - (* a flush *)
    pose proof (RInv_step y EvFlush (do_flush y) None HRI I eq_refl) as Hstep.
    cbn [run_h step frontier_ok torn_ok andb] in *. cbn [spec_ok].
    assert (HI' : OInvC (mem (do_flush y)) d seen gmax cr crP pn).
    { cbn [do_flush mem]. eapply OInvC_ext; [exact HI | apply Rep_flush; exact HR | | apply flush_keys | apply (oc_cr _ _ _ _ _ _ _ HI)].
      split; [cbn; lia|]. intros m i _ Hi. rewrite ids_flush in Hi. left. exact Hi. }
    exact (IH _ d seen gmax cr crP pn _ Hstep HI' Hok2 Hss2 Hstr2 Hfr Hrc Htk).
  - (* a crash-restart *)
    pose proof HRI as ([HInv _] & _).
    destruct (inv_recover y HInv) as (rr & _ & Hrec & Sf & Gf & _).
    assert (Hs : step y EvCrash = (SOk (mkSys (flush rr) (flush rr) (wal y)), None)) by (cbn [step]; rewrite Hrec; reflexivity).
    pose proof (RInv_step y EvCrash _ None HRI I Hs) as Hstep.
    cbn [run_h frontier_ok torn_ok andb] in *. rewrite Hs in *. cbn [spec_ok]. rewrite md_not_lax.
    assert (HI' : OInvC (mem (mkSys (flush rr) (flush rr) (wal y))) d seen gmax cr crP pn).
    { cbn [mem]. destruct HI as [A B C E]. constructor; auto.
      - exact (Rep_recovered rr (mem y) d Sf (good_s _ Gf) A).
      - destruct B as [B|B]; [left; exact B | right; apply (seq_keys _ _ Sf); exact B].
      - intros n i Hsys Hi Hk. rewrite (seq_ids _ _ n Sf) in Hi. exact (C n i Hsys Hi Hk). }
    exact (IH _ d seen gmax cr crP pn _ Hstep HI' Hok2 Hss2 Hstr2 Hfr Hrc Htk).
  - (* a crash inside the log append of a row statement *)
    cbn [torn_ok] in Htk. apply andb_true_iff in Htk as [Hc Htk]. apply andb_true_iff in Hc as [Hc Hnext].
    unfold cil_stmt_ok in Hc.
    apply andb_true_iff in Hc as [Hc Hisok]. apply andb_true_iff in Hc as [Hc Hmax].
    apply andb_true_iff in Hc as [Hc Hshape]. apply andb_true_iff in Hc as [Hdml Hstok]. apply N.leb_le in Hmax.
    destruct (e_out (run_stmt (mem y) st)) as [c| |] eqn:Eo; try discriminate.
    destruct (cil_step y d st j c seen gmax cr crP pn HRI HI Hstok Hshape Hdml Hmax Eo)
      as (y' & t & d_i & Hs & HRI' & Hf & Hsys & Hin & HI').
    cbn [run_h frontier_ok andb reads_cover] in *. rewrite Hs in *. cbn [spec_ok flat_map]. rewrite app_nil_r.
    destruct r as [|h2 r2]; [reflexivity|]. destruct h2 as [e2|ns|]; try discriminate.
    apply mem_str_In in Hnext.
    pose proof (IH y' d_i seen gmax cr crP pn base HRI' HI' Hok2 Hss2 Hstr2 Hfr Hrc Htk) as X.
    cbn [run_h] in X |- *.
    apply (narrow_readback md base _ d_i _ seen gmax ns r2 _ _ md_not_lax Hin); [|exact X].
    exact (prefix_unique d st t (mem y') d_i ns Hdml Hf Hsys Hin (oc_rep _ _ _ _ _ _ _ HI') Hnext).
  - (* a crash inside a flush *)
    cbn [torn_ok] in Htk. apply andb_true_iff in Htk as [Htd Htk].
    destruct (torn_disk y W) as [dk|] eqn:Etd; [|discriminate].
    destruct (torn_step y d W dk seen gmax cr crP pn HRI HI Etd) as (y' & Hs & HRI' & HI').
    cbn [run_h frontier_ok andb reads_cover] in *. rewrite Hs in *. cbn [spec_ok]. rewrite md_not_lax.
    exact (IH _ d seen gmax cr crP pn _ HRI' HI' Hok2 Hss2 Hstr2 Hfr Hrc Htk).
  - (* a table read-back *)
    cbn [run_h frontier_ok reads_cover torn_ok] in *. apply andb_true_iff in Hrc as [Hcov Hrc].
    pose proof HI as [_ Hg Hold Hcr].
    set (s := mem y) in *.
    set (l := map (fun n => (n, obs_table s n)) ns).
    cbn [spec_ok]. fold l.
    set (user := filter (fun nt : string * tobs => negb (is_sys (fst nt))) l).
    assert (Hl : forall nt, In nt l -> exists n, In n ns /\ nt = (n, obs_table s n)).
    { intros nt H. apply in_map_iff in H as (n & <- & Hn). eauto. }
    assert (Hu : forall nt, In nt user -> exists n, In n ns /\ is_sys n = false /\ nt = (n, obs_table s n)).
    { intros nt H. apply filter_In in H as [H1 H2]. destruct (Hl nt H1) as (n & Hn & ->).
      cbn [fst] in H2. apply negb_true_iff in H2. eauto. }
    assert (Hm : forallb (table_matches_spec d) l = true).
    { apply forallb_forall. intros nt H. destruct (Hl nt H) as (n & _ & ->). apply matches_model. exact HR. }
    cbn [filter]. rewrite Hm. cbn [List.length Nat.eqb negb andb].
    assert (Hfresh : forallb (fresh_ok seen gmax) user = true).
    { apply forallb_forall. intros nt H. destruct (Hu nt H) as (n & Hn & Hsys & ->).
      unfold fresh_ok. apply forallb_forall. intros i Hi. rewrite ids_obs in Hi.
      rewrite forallb_forall in Hcov. specialize (Hcov n Hn). rewrite Hsys in Hcov. cbn [orb] in Hcov.
      destruct (N.leb_spec i gmax) as [Hle|Hgt].
      - destruct (Hold n i Hsys Hi Hle) as [Hc Hp].
        apply (proj2 (mem_str_In n crP)) in Hc. rewrite Hc in Hcov. cbn [negb] in Hcov. rewrite orb_false_r in Hcov.
        apply mem_str_In in Hcov. specialize (Hp Hcov).
        apply orb_true_iff. left. apply existsb_exists. exists i. split; [exact Hp | apply N.eqb_refl].
      - apply orb_true_iff. right. apply N.ltb_lt. exact Hgt. }
    rewrite Hfresh. cbn [andb].
    apply (IH y d _ _ cr cr ns base); auto.
    change (mem y) with s. constructor.
    + exact HR.
    + destruct (fold_max_in (flat_map (fun nt : string * tobs => ids_of (snd nt)) user) gmax) as [E|E].
      * rewrite E. exact Hg.
      * right. apply in_flat_map in E as (nt & Hnt & Hi). destruct (Hu nt Hnt) as (n & _ & Hsys & ->).
        cbn [snd] in Hi. rewrite ids_obs in Hi. exact (ids_has_key s d n _ HR Hsys Hi).
    + intros n i Hsys Hi _. split.
      * apply Hcr. intros Hf. rewrite (ids_missing s d n HR Hsys Hf) in Hi. exact Hi.
      * intros Hn. change (fun (acc : list (string * list N)) (nt : string * tobs) => set_seen (fst nt) (ids_of (snd nt)) acc) with seen_step.
        rewrite (prev_ids_fold n (ids s n)); [exact Hi| |].
        -- intros nt Hnt E. destruct (Hu nt Hnt) as (n' & _ & _ & ->). cbn [fst snd] in *. subst n'. apply ids_obs.
        -- right. apply in_map_iff. exists (n, obs_table s n). split; [reflexivity|].
           apply filter_In. split; [apply in_map_iff; exists n; auto | cbn [fst]; rewrite Hsys; reflexivity].
    + exact Hcr.
  - (* a page dump *)
    cbn [run_h frontier_ok reads_cover torn_ok] in *. unfold dump_of. cbn [spec_ok].
    exact (IH _ d seen gmax cr crP pn _ HRI HI Hok2 Hss2 Hstr2 Hfr Hrc Htk).
Qed.
End RunT.

(* ====================== the theorems ====================== *)
Theorem model_passes_oracle_torn : forall hevs,
  forallb hev_ok hevs = true ->                      (* literals are Go values *)
  forallb hev_stmt_shape hevs = true ->              (* no INSERT without rows, no UPDATE / DELETE on the catalog *)
  frontier_ok init_sys hevs = true ->                (* the data file stays below 2^63 bytes *)
  reads_cover [] [] [] hevs = true ->                (* read-backs do not skip a table and come back to it *)
  torn_ok init_sys hevs = true ->                    (* torn flushes the model defines; crashes in the log append of acknowledged row statements, read back *)
  spec_accepts (hevs, run_h init_sys hevs) = true.
Proof.
  intros hevs Hok Hss Hfr Hrc Htk. unfold spec_accepts. cbn [fst snd].
  apply (oracle_run_t MNormal (fun _ => true)) with (cr := []) (crP := []) (pn := []); auto.
  - intros s d st e E. discriminate E.
  - apply RInv_init.
  - apply OInvC_init.
  - intros E. discriminate E.
Qed.

Theorem model_passes_oracle_torn_strict : forall hevs,
  forallb hev_ok hevs = true -> forallb hev_stmt_shape hevs = true ->
  frontier_ok init_sys hevs = true -> reads_cover [] [] [] hevs = true ->
  forallb strict_hev hevs = true -> torn_ok init_sys hevs = true ->
  spec_accepts_strict (hevs, run_h init_sys hevs) = true.
Proof.
  intros hevs Hok Hss Hfr Hrc Hst Htk. unfold spec_accepts_strict. cbn [fst snd].
  apply (oracle_run_t MStrict strict_hev) with (cr := []) (crP := []) (pn := []); auto.
  - intros s d st e _ HR Hk Hs Hmax Hout. exact (model_refusal_justified s d st e HR Hk Hs Hmax Hout).
  - apply RInv_init.
  - apply OInvC_init.
Qed.

(* agreement with the model (MM) implies acceptance by the oracle (SM), every event kind included *)
Theorem agreement_implies_acceptance_torn : forall c,
  forallb hev_ok (fst c) = true -> forallb hev_stmt_shape (fst c) = true ->
  frontier_ok init_sys (fst c) = true -> reads_cover [] [] [] (fst c) = true -> torn_ok init_sys (fst c) = true ->
  model_agrees c = true -> spec_accepts c = true.
Proof.
  intros [hevs obs] Hok Hss Hfr Hrc Htk Hag. cbn [fst snd] in *. unfold model_agrees in Hag. cbn [fst snd] in Hag.
  pose proof (model_passes_oracle_torn hevs Hok Hss Hfr Hrc Htk) as H. unfold spec_accepts in *. cbn [fst snd] in *.
  rewrite <- (spec_ok_sim MNormal hevs _ _ _ _ (run_h init_sys hevs) obs); [exact H|].
  exact (list_eqb_Forall2 hobs_eqb hobs_sim hobs_eqb_sim _ _ Hag).
Qed.

Theorem agreement_implies_strict_acceptance_torn : forall c,
  forallb hev_ok (fst c) = true -> forallb hev_stmt_shape (fst c) = true ->
  frontier_ok init_sys (fst c) = true -> reads_cover [] [] [] (fst c) = true ->
  forallb strict_hev (fst c) = true -> torn_ok init_sys (fst c) = true ->
  model_agrees c = true -> spec_accepts_strict c = true.
Proof.
  intros [hevs obs] Hok Hss Hfr Hrc Hst Htk Hag. cbn [fst snd] in *. unfold model_agrees in Hag. cbn [fst snd] in Hag.
  pose proof (model_passes_oracle_torn_strict hevs Hok Hss Hfr Hrc Hst Htk) as H. unfold spec_accepts_strict in *. cbn [fst snd] in *.
  rewrite <- (spec_ok_sim MStrict hevs _ _ _ _ (run_h init_sys hevs) obs); [exact H|].
  exact (list_eqb_Forall2 hobs_eqb hobs_sim hobs_eqb_sim _ _ Hag).
Qed.

(* the crash version in the form of the property files: hypotheses first *)
Theorem agreement_implies_strict_acceptance_crash' : forall c,
  hist_shape_c (fst c) = true -> forallb hev_ok (fst c) = true -> forallb hev_stmt_shape (fst c) = true ->
  frontier_ok init_sys (fst c) = true -> reads_cover [] [] [] (fst c) = true -> forallb strict_hev (fst c) = true ->
  model_agrees c = true -> spec_accepts_strict c = true.
Proof. intros c A B C D E F G. exact (agreement_implies_strict_acceptance_crash c G A B C D E F). Qed.

(* ====================== every part of torn_ok is needed ======================
   On each of these histories the oracle REJECTS the model's own behaviour although every other
   hypothesis holds: *)
Definition other_hyps (h : list hevent) : bool :=
  forallb hev_ok h && forallb hev_stmt_shape h && frontier_ok init_sys h && reads_cover [] [] [] h && forallb strict_hev h.

(* a torn flush the model does not define (C04_refuted's structural flush: 8 rows, flush, the 9th
   insert splits the leaf, old leaf and new root written): the model's step fails, run_h ends with
   [HOut (OBerr EUnmodelled); HDead], the oracle accepts HOut OBok only *)
Definition h_struct : list hevent :=
  HEv (EvStmt (SCreateTable "t" [mkColDef "a" STNumeric])) ::
  map (fun i => HEv (EvStmt (SInsert "t" [] [[VInt (Z.of_nat i)]]))) (List.seq 0 8) ++
  [HEv EvFlush; HEv (EvStmt (SInsert "t" [] [[VInt 8]])); HEv (EvTornFlush [12288; 20480])].
Example oracle_needs_torn_defined :
  other_hyps h_struct = true /\ torn_ok init_sys h_struct = false /\
  skipn 11 (run_h init_sys h_struct) = [HOut (OBerr EUnmodelled); HDead] /\
  spec_accepts_strict (h_struct, run_h init_sys h_struct) = false /\
  spec_accepts (h_struct, run_h init_sys h_struct) = false.
Proof. vm_compute. repeat split; reflexivity. Qed.

(* a crash inside the log append of a statement the model REFUSES (nothing is logged, recovery
   gives back the state before): stmt_prefixes of an INSERT into a table that does not exist is
   empty - it should contain the database itself -, so the oracle is left without candidates *)
Definition h_cil_refused : list hevent :=
  [HEv (EvCrashInLog (SInsert "nosuch" [] [[VInt 1]]) 0); HReadTables ["nosuch"]].
Example oracle_needs_cil_acknowledged :
  other_hyps h_cil_refused = true /\ torn_ok init_sys h_cil_refused = false /\
  run_h init_sys h_cil_refused = [HOut OBok; HTables [("nosuch", TFail ETableNotExist)]] /\
  spec_accepts_strict (h_cil_refused, run_h init_sys h_cil_refused) = false /\
  spec_accepts (h_cil_refused, run_h init_sys h_cil_refused) = false.
Proof. vm_compute. repeat split; reflexivity. Qed.

(* no read-back of the statement's table after the crash: the strict oracle keeps every prefix as a
   candidate and demands that ALL of them refuse a statement that is refused. DELETE of the row
   a = 1, cut before its record (the row is still there); an UPDATE that makes that row too large is
   refused - rightly; the candidate "row deleted" would accept it *)
Fixpoint str_x (n : nat) : string := match n with O => "" | S k => String "x" (str_x k) end.
Definition h_cil_noread (between : hevent) : list hevent :=
  [HEv (EvStmt (SCreateTable "t" [mkColDef "a" STNumeric; mkColDef "b" (STVarchar 500)]));
   HEv (EvStmt (SCreateTable "u" [mkColDef "a" STNumeric]));
   HEv (EvStmt (SInsert "t" [] [[VInt 1; VStr "x"]]));
   HEv (EvCrashInLog (SDelete "t" (Some (EPred (XCol (mkCol "" "a")) CEq (XLit (VInt 1))))) 0);
   between;
   HEv (EvStmt (SUpdate "t" [("b", XLit (VStr (str_x 450)))] (Some (EPred (XCol (mkCol "" "a")) CEq (XLit (VInt 1))))))].
Example strict_oracle_needs_readback_after_cil :
  forallb (fun b => let h := h_cil_noread b in
             other_hyps h && negb (torn_ok init_sys h) &&
             negb (spec_accepts_strict (h, run_h init_sys h)) && spec_accepts (h, run_h init_sys h))
          [HDumpPages; HReadTables ["u"]] = true /\
  (let h := h_cil_noread (HReadTables ["t"]) in
   other_hyps h && torn_ok init_sys h && spec_accepts_strict (h, run_h init_sys h)) = true /\
  map (fun o => match o with HOut x => Some x | _ => None end) (run_h init_sys (h_cil_noread HDumpPages)) =
    [Some OBok; Some OBok; Some OBok; Some OBok; None; Some (OBerr ERowTooLarge)].
Proof. vm_compute. repeat split; reflexivity. Qed.
