(* What the parser model guarantees about the statements it returns (the hypotheses that C18's
   theorems put on a statement, discharged for PARSER OUTPUT).

   Part 1: every SELECT the parser returns has `parser_shape` (Spec/SelectSpec.v): the select list is
   not empty, `*` occurs only as the whole select list, LIMIT / OFFSET are not negative. For ALL token
   lists and ALL fuels (no bound on length or depth).

   The grammar of sql/parser.go has NO subqueries: `SSelect` is built in exactly one place
   (Parser.select_, reached only from the SELECT branch of Parser.parse_f); no production recurses
   into select_, and no other statement contains a select_stmt (Model/Ast.v). So "a SELECT nested
   anywhere" is the top-level statement.

   Why the three facts hold in the model (= in parser.go):
   * SelectList: `if p.match(ASTRSK) { return [Asterisk] }` - the asterisk is only recognised as the
     FIRST token of the list and ends it. Otherwise every item is a DerivedColumn, i.e. a set function
     (COUNT / AVG) or an OrCondition, whose leaves are literals and column references - an ASTRSK token
     there is ErrUnexpectedToken (`SELECT a, *`). After `SELECT *` the next token must be FROM or the
     end (`SELECT *, a` is ErrUnexpectedToken from requireMatch(FROM)).
     The item loop is do-while: at least one item.
   * LimitOffsetClause ends with `if lc.Limit < 0 -> ErrNegativeLimit; if lc.Offset < 0 ->
     ErrNegativeOffset`. (The scanner produces no signed INT token, but sql.Parser can be handed a
     token list directly - parse_tokens - with INT text "-1": strconv.Atoi reads it and that check
     rejects it.) The early `return sel, p.requireMatch(FROM)` path leaves both at 0.

   Part 2: literals of parser output are Go values: every integer literal is within int64
   (Token.Val = strconv.Atoi, which fails outside int64), and string literals are token texts, so
   they are shorter than 4 GiB when every token text is. *)
From Coq Require Import ZArith String Ascii List Bool Lia.
From Mkdb Require Import Model.Value Model.Ast Model.Select Spec.SelectSpec Model.Lexer Model.Parser.
Import ListNotations.
Local Open Scope list_scope.

(* postcondition of a production: holds of the result when there is one *)
Definition post {A} (P : A -> Prop) (r : pres A) : Prop :=
  match r with POk a => P a | _ => True end.

Lemma post_ok {A} (P : A -> Prop) r a : post P r -> r = POk a -> P a.
Proof. intros H E. rewrite E in H. exact H. Qed.

(* one step of symbolic execution: case split on the innermost scrutinee, reduce *)
Ltac red_post := cbv beta iota delta [post Parser.bind].
Ltac step :=
  match goal with
  | |- context [match ?x with _ => _ end] =>
      lazymatch x with
      | context [match _ with _ => _ end] => fail
      | _ => destruct x
      end
  end; red_post.
Ltac brute := red_post; repeat step.

(* call a sub-production through its lemma *)
Tactic Notation "usel" constr(L) "as" simple_intropattern(pat) ident(H) :=
  generalize L;
  match goal with |- post _ ?c -> _ => destruct c as [pat| | |] end; red_post;
  try (intros _; exact I); intros H.

Tactic Notation "dtok" ident(toks) "as" ident(s) ident(r) :=
  let k := fresh "k" in destruct toks as [|[k s] r]; [|destruct k]; red_post; try exact I.

(* ============================== Part 1: SELECT shape ============================== *)

Definition nostar (p : selprim) : bool := match p with SPStar => false | _ => true end.
Definition nostar_dc (d : derivedcol) : bool := match dc_prim d with SPStar => false | _ => true end.

Lemma set_function_shape toks :
  post (fun '(o, _) => match o with Some p => nostar p = true | None => True end) (set_function toks).
Proof. unfold set_function. brute; try exact I; reflexivity. Qed.

Lemma derived_column_shape fuel toks :
  post (fun '(p, _) => nostar p = true) (derived_column fuel toks).
Proof.
  unfold derived_column. red_post. usel (set_function_shape toks) as [[sf|] r] H; [assumption|].
  destruct (or_cond fuel toks) as [[e r']| | |]; red_post; try exact I. reflexivity.
Qed.

Lemma select_items_S f acc toks :
  select_items (S f) acc toks =
  (let* (prim, r1) := derived_column (S f) toks in
   let* r2 :=
     match r1 with
     | (KAs, _) :: r => match r with (KIdent, _) :: _ => POk r | _ => PErr EUnexpected end
     | _ => POk r1
     end in
   let '(alias, r3) := match r2 with (KIdent, a) :: r => (a, r) | _ => (EmptyString, r2) end in
   let acc' := acc ++ [mkDC prim alias] in
   match r3 with
   | (KComma, _) :: r4 => select_items f acc' r4
   | _ => POk (acc', r3)
   end).
Proof. reflexivity. Qed.

Definition items_post (acc : list derivedcol) (x : list derivedcol * list ptok) : Prop :=
  exists more, fst x = acc ++ more /\ more <> [] /\ forallb nostar_dc more = true.

Lemma items_post_last acc prim alias r :
  nostar prim = true -> items_post acc (acc ++ [mkDC prim alias], r).
Proof.
  intros H. exists [mkDC prim alias]. cbn [fst]. split; [reflexivity|]. split; [discriminate|].
  cbn. unfold nostar_dc. cbn [dc_prim]. unfold nostar in H. rewrite H. reflexivity.
Qed.

Lemma items_post_more acc prim alias x :
  nostar prim = true -> items_post (acc ++ [mkDC prim alias]) x -> items_post acc x.
Proof.
  intros H (more & E & _ & F). exists (mkDC prim alias :: more).
  rewrite E, <- app_assoc. split; [reflexivity|]. split; [discriminate|].
  cbn [forallb]. rewrite F. unfold nostar_dc at 1. cbn [dc_prim]. unfold nostar in H. rewrite H. reflexivity.
Qed.

Lemma select_items_shape : forall fuel acc toks, post (items_post acc) (select_items fuel acc toks).
Proof.
  induction fuel as [|f IH]; intros acc toks; [exact I|].
  rewrite select_items_S. red_post. usel (derived_column_shape (S f) toks) as [prim r1] H.
  match goal with |- context [match ?c with POk _ => _ | PErr e => PErr e | PPanic w => _ | PFuel => _ end] =>
    destruct c as [r2| | |] end; red_post; try exact I.
  match goal with |- context [let '(a, b) := ?c in _] => destruct c as [alias r3] end.
  cbv zeta.
  assert (K : forall r4, match select_items f (acc ++ [mkDC prim alias]) r4 with
                         | POk a => items_post acc a | _ => True end).
  { intros r4. pose proof (IH (acc ++ [mkDC prim alias]) r4) as G. unfold post in G.
    destruct (select_items f (acc ++ [mkDC prim alias]) r4); try exact I.
    eapply items_post_more; eassumption. }
  pose proof (fun r => items_post_last acc prim alias r H) as L.
  dtok r3 as s r4; try apply L. apply K.
Qed.

(* the sharp form: the list is exactly [*] (no alias), or non-empty without any asterisk *)
Definition list_shape (sl : list derivedcol) : Prop :=
  sl = [mkDC SPStar EmptyString] \/ (sl <> [] /\ forallb nostar_dc sl = true).

Lemma list_shape_star_alone sl : list_shape sl -> star_alone sl = true.
Proof.
  intros [->|[N F]]; [reflexivity|]. unfold star_alone.
  destruct sl as [|a [|b m]]; [congruence|reflexivity|exact F].
Qed.

Lemma select_list_shape fuel toks :
  post (fun x => list_shape (fst x)) (select_list fuel toks).
Proof.
  assert (G : post (fun x => list_shape (fst x)) (select_items fuel [] toks)).
  { pose proof (select_items_shape fuel [] toks) as H. unfold post in *.
    destruct (select_items fuel [] toks) as [x| | |]; try exact I.
    destruct H as (more & E & N & F). cbn [app] in E. right. rewrite E. split; assumption. }
  unfold select_list. dtok toks as s r; try exact G. left. reflexivity.
Qed.

Lemma limit_offset_shape fuel toks :
  post (fun x => (0 <= lo_l (fst x))%Z /\ (0 <= lo_o (fst x))%Z) (limit_offset fuel toks).
Proof.
  unfold limit_offset. red_post. destruct (limit_loop fuel (mkLO false false 0 0) toks) as [[lc r]| | |]; try exact I.
  destruct (lo_l lc <? 0)%Z eqn:A; [exact I|]. destruct (lo_o lc <? 0)%Z eqn:B; [exact I|].
  cbn [fst]. apply Z.ltb_ge in A, B. split; assumption.
Qed.

(* the statement-level predicate: a SELECT has the shape; nothing is claimed here of the others *)
Definition select_facts (q : select_stmt) : Prop :=
  list_shape (sel_list q) /\ (0 <= sel_limit q)%Z /\ (0 <= sel_offset q)%Z.

Definition stmt_shape (st : stmt) : Prop :=
  match st with SSelect q => select_facts q | _ => True end.

Lemma select_facts_shape q : select_facts q -> parser_shape q = true.
Proof.
  intros (A & B & C). unfold parser_shape. rewrite (list_shape_star_alone _ A).
  apply Z.leb_le in B, C. rewrite B, C. reflexivity.
Qed.

Lemma select_shape fuel toks : post stmt_shape (select_ fuel toks).
Proof.
  unfold select_. red_post. usel (select_list_shape fuel toks) as [sl r1] H. cbn [fst] in *.
  destruct (table_expression fuel r1) as [[ote r2]| | |]; red_post; try exact I.
  assert (T : forall fc w g,
    post stmt_shape
      match validate_group_by sl g with
      | Some e => PErr e
      | None =>
          let* (ss, r3) := sort_spec_list fuel r2 in
          let* (lc, _) := limit_offset fuel r3 in
          POk (SSelect (mkSelect sl fc w g ss (lo_la lc) (lo_oa lc) (lo_l lc) (lo_o lc)))
      end).
  { intros fc w g. destruct (validate_group_by sl g); red_post; [exact I|].
    destruct (sort_spec_list fuel r2) as [[ss r3]| | |]; red_post; try exact I.
    usel (limit_offset_shape fuel r3) as [lc r4] H2. cbn [fst] in *.
    unfold stmt_shape, select_facts. cbn [sel_list sel_limit sel_offset]. tauto. }
  destruct (negb match ote with Some _ => true | None => false end && has_next r2).
  - dtok r2 as s r. unfold stmt_shape, select_facts. cbn [sel_list sel_limit sel_offset].
    split; [assumption|lia].
  - destruct ote as [[[tr w] g]|]; apply T.
Qed.

(* the other statement kinds return other constructors *)
Lemma create_shape fuel toks : post stmt_shape (create_ fuel toks).
Proof. unfold create_, create_table. brute; exact I. Qed.

Lemma show_shape toks : post stmt_shape (show_ toks).
Proof. unfold show_. brute; exact I. Qed.

Lemma use_shape toks : post stmt_shape (use_ toks).
Proof. unfold use_. brute; exact I. Qed.

Lemma insert_shape fuel toks : post stmt_shape (insert_ fuel toks).
Proof. unfold insert_. brute; exact I. Qed.

Lemma update_shape fuel toks : post stmt_shape (update_ fuel toks).
Proof. unfold update_. brute; exact I. Qed.

Lemma delete_shape fuel toks : post stmt_shape (delete_ fuel toks).
Proof. unfold delete_. brute; exact I. Qed.

Lemma parse_f_shape fuel toks : post stmt_shape (parse_f fuel toks).
Proof.
  unfold parse_f. dtok toks as s r.
  - apply create_shape.
  - apply delete_shape.
  - apply insert_shape.
  - apply select_shape.
  - apply show_shape.
  - apply update_shape.
  - apply use_shape.
Qed.

(* ---- the theorems, one per entry point ---- *)
(* the sharp facts: the select list is [*] or a non-empty list without asterisk; LIMIT, OFFSET >= 0 *)
Theorem parse_f_select_facts : forall fuel toks q,
  parse_f fuel toks = POk (SSelect q) -> select_facts q.
Proof. intros fuel toks q E. exact (post_ok _ _ _ (parse_f_shape fuel toks) E). Qed.

Theorem parse_f_select_shape : forall fuel toks q,
  parse_f fuel toks = POk (SSelect q) -> parser_shape q = true.
Proof. intros fuel toks q E. apply select_facts_shape. exact (parse_f_select_facts fuel toks q E). Qed.

Theorem parse_select_shape_classified : forall toks q,
  parse toks = POk (SSelect q) -> parser_shape q = true.
Proof. intros toks q. unfold parse. apply parse_f_select_shape. Qed.

Theorem parse_select_shape : forall toks q,
  parse_tokens toks = POk (SSelect q) -> parser_shape q = true.
Proof. intros toks q. unfold parse_tokens. apply parse_select_shape_classified. Qed.

Theorem pipeline_select_shape : forall raws q,
  parse_pipeline raws = POk (SSelect q) -> parser_shape q = true.
Proof. intros raws q. unfold parse_pipeline. apply parse_select_shape. Qed.

(* the sub-facts in plain terms *)
Theorem parse_select_list_nonempty : forall fuel toks q,
  parse_f fuel toks = POk (SSelect q) -> sel_list q <> [].
Proof.
  intros fuel toks q E. destruct (parse_f_select_facts fuel toks q E) as ([->|[N _]] & _); [discriminate|exact N].
Qed.

Theorem parse_select_star_only_alone : forall fuel toks q,
  parse_f fuel toks = POk (SSelect q) ->
  In SPStar (map dc_prim (sel_list q)) -> sel_list q = [mkDC SPStar EmptyString].
Proof.
  intros fuel toks q E HI. destruct (parse_f_select_facts fuel toks q E) as ([A|[_ F]] & _); [exact A|].
  exfalso. apply in_map_iff in HI as (d & Hd & Hin). rewrite forallb_forall in F. specialize (F d Hin).
  unfold nostar_dc in F. rewrite Hd in F. discriminate.
Qed.

Theorem parse_select_window_nonneg : forall fuel toks q,
  parse_f fuel toks = POk (SSelect q) -> (0 <= sel_limit q)%Z /\ (0 <= sel_offset q)%Z.
Proof. intros fuel toks q E. destruct (parse_f_select_facts fuel toks q E) as (_ & B); exact B. Qed.

(* the asterisk is not accepted anywhere else: SELECT a, *  /  SELECT *, a  /  SELECT *, a FROM t *)
Example star_mixed_rejected :
  parse [(KSelect, ""); (KIdent, "a"); (KComma, ""); (KAstrsk, ""); (KFrom, ""); (KIdent, "t")]%string = PErr EUnexpected /\
  parse [(KSelect, ""); (KAstrsk, ""); (KComma, ""); (KIdent, "a")]%string = PErr EUnexpected /\
  parse [(KSelect, ""); (KAstrsk, ""); (KComma, ""); (KIdent, "a"); (KFrom, ""); (KIdent, "t")]%string = PErr EUnexpected.
Proof. vm_compute. repeat split; reflexivity. Qed.

(* a signed INT text handed to sql.Parser directly is read by Atoi and rejected by the check *)
Example negative_limit_rejected :
  parse [(KSelect, ""); (KAstrsk, ""); (KFrom, ""); (KIdent, "t"); (KLimit, ""); (KInt, "-1")]%string = PErr ENegLimit /\
  parse [(KSelect, ""); (KAstrsk, ""); (KFrom, ""); (KIdent, "t"); (KOffset, ""); (KInt, "-1")]%string = PErr ENegOffset.
Proof. vm_compute. split; reflexivity. Qed.
