(* Crash theory, part 8 (C04): a flush cut short by a crash, in-place case. The torn data file is
   the old file with the leaves in W replaced by their cache versions. Replaying the log on it:
   records whose leaf is in W are skipped (page LSN) or tolerated (key exists); the others are
   redone on the old leaf exactly as in the replay from the old file, in LSN order. *)
From Coq Require Import Arith Lia Bool List NArith Permutation.
From Mkdb Require Import Model.Engine Proofs.TreeProofs Proofs.StoreInv Proofs.CrashBase Proofs.CrashPages
  Proofs.CrashRedo Proofs.CrashLog Proofs.CrashMain Proofs.CrashPrefix Gen.Params.
Import ListNotations.
Local Open Scope N_scope.

(* ====================== replacing leaves ====================== *)
Fixpoint repl (sg : tree -> tree) (t : tree) : tree :=
  match t with
  | TLeaf _ _ _ _ _ _ _ _ => sg t
  | TNode off l d kids rgt =>
      TNode off l d
        ((fix go (ks : list (N * tree)) : list (N * tree) :=
            match ks with [] => [] | (sp, c) :: r => (sp, repl sg c) :: go r end) kids)
        (repl sg rgt)
  end.

Definition rkids (sg : tree -> tree) (kids : list (N * tree)) : list (N * tree) :=
  map (fun sc => (fst sc, repl sg (snd sc))) kids.

Lemma repl_node sg off l d kids rgt :
  repl sg (TNode off l d kids rgt) = TNode off l d (rkids sg kids) (repl sg rgt).
Proof.
  cbn [repl]. f_equal. unfold rkids. induction kids as [|[s c] r IH]; [reflexivity|].
  cbn [map fst snd]. f_equal. exact IH.
Qed.

(* sg maps leaves to leaves with the same offset *)
Definition lp (sg : tree -> tree) : Prop :=
  forall l, is_leaf l -> is_leaf (sg l) /\ t_off (sg l) = t_off l.

Lemma repl_leaf sg l : is_leaf l -> repl sg l = sg l.
Proof. destruct l; [reflexivity | contradiction]. Qed.

Lemma repl_off sg t : lp sg -> t_off (repl sg t) = t_off t.
Proof. intros H. destruct t; [apply H; exact I | rewrite repl_node; reflexivity]. Qed.

Lemma leaves_of_leaf l : is_leaf l -> leaves l = [l].
Proof. destruct l; [reflexivity | contradiction]. Qed.
Lemma nodes_of_leaf l : is_leaf l -> nodes l = [l].
Proof. destruct l; [reflexivity | contradiction]. Qed.

Lemma repl_leaves sg t : lp sg -> leaves (repl sg t) = map sg (leaves t).
Proof.
  intros H. induction t as [off l d cells hl hr ls rs | off l d kids rgt IHk IHr] using tree_ind2.
  - cbn [repl leaves map]. apply leaves_of_leaf. apply H. exact I.
  - rewrite repl_node, !leaves_node, map_app, IHr. f_equal.
    unfold kids_leaves, rkids. induction kids as [|[s c] r IH]; [reflexivity|].
    inversion IHk as [|? ? Hc Hr]; subst. cbn [snd] in Hc.
    cbn [map flat_map fst snd]. rewrite map_app, Hc, (IH Hr). reflexivity.
Qed.

Lemma repl_nodes sg t : lp sg -> nodes (repl sg t) = map (repl sg) (nodes t).
Proof.
  intros H. induction t as [off l d cells hl hr ls rs | off l d kids rgt IHk IHr] using tree_ind2.
  - cbn [repl nodes map]. apply nodes_of_leaf. apply H. exact I.
  - rewrite (nodes_node off l d kids rgt). cbn [map]. rewrite repl_node, nodes_node. f_equal.
    rewrite map_app, IHr. f_equal.
    unfold kids_nodes, rkids. induction kids as [|[s c] r IH]; [reflexivity|].
    inversion IHk as [|? ? Hc Hr]; subst. cbn [snd] in Hc.
    cbn [map flat_map fst snd]. rewrite map_app, Hc, (IH Hr). reflexivity.
Qed.

Lemma repl_offsets sg t : lp sg -> offsets_of (repl sg t) = offsets_of t.
Proof.
  intros H. unfold offsets_of. rewrite (repl_nodes sg t H), map_map. apply map_ext.
  intros n. apply repl_off. exact H.
Qed.

Lemma repl_ext sg tg t : (forall x, In x (leaves t) -> sg x = tg x) -> repl sg t = repl tg t.
Proof.
  induction t as [off l0 d cells hl hr ls rs | off l0 d kids rgt IHk IHr] using tree_ind2; intros H.
  - cbn [repl]. apply H. left. reflexivity.
  - rewrite !repl_node. rewrite leaves_node in H. f_equal.
    + unfold rkids. apply (map_kids_ext (repl sg) (repl tg)).
      rewrite Forall_forall in *. intros sc Hsc. apply IHk; [exact Hsc|].
      intros l Hl. apply H. apply in_or_app. left. unfold kids_leaves. apply in_flat_map. eauto.
    + apply IHr. intros l Hl. apply H. apply in_or_app. right. exact Hl.
Qed.

Lemma repl_id sg t : (forall x, In x (leaves t) -> sg x = x) -> repl sg t = t.
Proof.
  induction t as [off l0 d cells hl hr ls rs | off l0 d kids rgt IHk IHr] using tree_ind2; intros H.
  - cbn [repl]. apply H. left. reflexivity.
  - rewrite repl_node. rewrite leaves_node in H. f_equal.
    + unfold rkids. rewrite <- (map_id kids) at 2. apply map_ext_in. intros [s c] Hsc. cbn [fst snd]. f_equal.
      rewrite Forall_forall in IHk. apply (IHk (s, c) Hsc).
      intros l Hl. apply H. apply in_or_app. left. unfold kids_leaves. apply in_flat_map. exists (s, c). auto.
    + apply IHr. intros l Hl. apply H. apply in_or_app. right. exact Hl.
Qed.

Lemma repl_comp sg tg t : lp tg -> repl sg (repl tg t) = repl (fun l => sg (tg l)) t.
Proof.
  intros H. induction t as [off l d cells hl hr ls rs | off l d kids rgt IHk IHr] using tree_ind2.
  - cbn [repl]. apply repl_leaf. apply H. exact I.
  - rewrite !repl_node, IHr. f_equal. unfold rkids. rewrite map_kids_map.
    apply (map_kids_ext (fun t => repl sg (repl tg t)) (repl (fun l => sg (tg l)))). exact IHk.
Qed.

(* ---------- descent through a tree with replaced leaves ---------- *)
Lemma child_for_rkids sg k kids rgt :
  child_for k (rkids sg kids) (repl sg rgt) = repl sg (child_for k kids rgt).
Proof.
  induction kids as [|[s c] r IH]; [reflexivity|].
  cbn [rkids map fst snd child_for]. destruct (N.ltb k s); [reflexivity | exact IH].
Qed.

Lemma sep_hit_rkids sg k kids : sep_hit k (rkids sg kids) = sep_hit k kids.
Proof.
  induction kids as [|[s c] r IH]; [reflexivity|]. cbn [rkids map fst snd sep_hit]. f_equal. exact IH.
Qed.

Lemma descend_is_leaf k t : is_leaf (descend k t).
Proof. apply (leaves_is_leaf t). apply descend_in_leaves. Qed.

Lemma descend_leaf k l : is_leaf l -> descend k l = l.
Proof. destruct l; [reflexivity | contradiction]. Qed.

Lemma repl_descend sg t : lp sg -> forall k, descend k (repl sg t) = sg (descend k t).
Proof.
  intros H. induction t as [off l d cells hl hr ls rs | off l d kids rgt IHk IHr] using tree_ind2; intros k.
  - cbn [repl descend]. apply descend_leaf. apply H. exact I.
  - rewrite repl_node, !descend_node, child_for_rkids.
    apply (Forall_kids_child (fun c => descend k (repl sg c) = sg (descend k c))); [|apply IHr].
    eapply Forall_impl; [|exact IHk]. cbn. intros sc Hsc. apply Hsc.
Qed.

Definition has_key (k : N) (l : tree) : bool := existsb (fun c => N.eqb (lc_key c) k) (leaf_cells l).

Lemma key_exists_of_leaf k l : is_leaf l -> key_exists k l = has_key k l.
Proof. destruct l; [reflexivity | contradiction]. Qed.

(* key_exists = a separator on the path equals k, or the leaf reached holds k *)
Lemma key_exists_repl sg t : lp sg -> forall k,
  has_key k (sg (descend k t)) = has_key k (descend k t) -> key_exists k (repl sg t) = key_exists k t.
Proof.
  intros H. induction t as [off l d cells hl hr ls rs | off l d kids rgt IHk IHr] using tree_ind2; intros k Hk.
  - cbn [repl descend] in *. rewrite key_exists_of_leaf by (apply H; exact I). exact Hk.
  - rewrite repl_node, !key_exists_node, sep_hit_rkids, child_for_rkids. f_equal.
    rewrite descend_node in Hk. revert Hk.
    apply (Forall_kids_child (fun c => has_key k (sg (descend k c)) = has_key k (descend k c) ->
                                       key_exists k (repl sg c) = key_exists k c)); [|apply IHr].
    eapply Forall_impl; [|exact IHk]. cbn. intros sc Hsc. apply Hsc.
Qed.

Lemma key_exists_repl_true sg t : lp sg -> forall k,
  has_key k (sg (descend k t)) = true -> key_exists k (repl sg t) = true.
Proof.
  intros H. induction t as [off l d cells hl hr ls rs | off l d kids rgt IHk IHr] using tree_ind2; intros k Hk.
  - cbn [repl descend] in *. rewrite key_exists_of_leaf by (apply H; exact I). exact Hk.
  - rewrite repl_node, key_exists_node, sep_hit_rkids, child_for_rkids. apply orb_true_iff. right.
    rewrite descend_node in Hk. revert Hk.
    apply (Forall_kids_child (fun c => has_key k (sg (descend k c)) = true -> key_exists k (repl sg c) = true)); [|apply IHr].
    eapply Forall_impl; [|exact IHk]. cbn. intros sc Hsc. apply Hsc.
Qed.

Lemma key_exists_true_cases k t :
  key_exists k t = true -> has_key k (descend k t) = false ->
  forall sg, lp sg -> key_exists k (repl sg t) = true.
Proof.
  induction t as [off l d cells hl hr ls rs | off l d kids rgt IHk IHr] using tree_ind2; intros Hke Hno sg H.
  - cbn [descend] in Hno. cbn [key_exists] in Hke. unfold has_key in Hno. cbn [leaf_cells] in Hno. congruence.
  - rewrite repl_node, key_exists_node, sep_hit_rkids, child_for_rkids.
    rewrite key_exists_node in Hke. rewrite descend_node in Hno.
    destruct (sep_hit k kids); [reflexivity|]. cbn [orb] in *.
    revert Hke Hno.
    apply (Forall_kids_child (fun c => key_exists k c = true -> has_key k (descend k c) = false ->
                                       key_exists k (repl sg c) = true)).
    + eapply Forall_impl; [|exact IHk]. cbn. intros sc Hsc A B. apply Hsc; auto.
    + intros A B. apply IHr; auto.
Qed.

Lemma on_right_spine_leaf k l : is_leaf l -> on_right_spine k l = true.
Proof. destruct l; [reflexivity | contradiction]. Qed.

Lemma repl_on_right_spine' sg t k : lp sg -> on_right_spine k (repl sg t) = on_right_spine k t.
Proof.
  intros H. induction t as [off l d cells hl hr ls rs | off l d kids rgt IH].
  - cbn [repl]. rewrite !on_right_spine_leaf; auto; [exact I | apply H; exact I].
  - rewrite repl_node. cbn [on_right_spine]. f_equal; [|exact IH].
    unfold rkids. clear IH. induction kids as [|[s c] r IHk]; [reflexivity|]. cbn [map forallb fst snd]. rewrite IHk. reflexivity.
Qed.

Lemma rightmost_leaf l : is_leaf l -> rightmost l = l.
Proof. destruct l; [reflexivity | contradiction]. Qed.

Lemma repl_rightmost' sg t : lp sg -> rightmost (repl sg t) = sg (rightmost t).
Proof.
  intros H. induction t as [off l d cells hl hr ls rs | off l d kids rgt IH].
  - cbn [repl rightmost]. apply rightmost_leaf. apply H. exact I.
  - rewrite repl_node. cbn [rightmost]. exact IH.
Qed.

(* ====================== in-place operations are leaf replacements ====================== *)
Lemma touch_is_repl pg k lsn g t : touch_leaf pg k lsn g t = repl (touch_leaf pg k lsn g) t.
Proof.
  induction t as [off l d cells hl hr ls rs | off l d kids rgt IHk IHr] using tree_ind2; [reflexivity|].
  rewrite touch_leaf_node, repl_node, <- IHr. f_equal. unfold rkids.
  apply (map_kids_ext (touch_leaf pg k lsn g) (repl (touch_leaf pg k lsn g))). exact IHk.
Qed.

Lemma lp_touch pg k lsn g : lp (touch_leaf pg k lsn g).
Proof.
  intros l Hl. destruct l as [off a b c hl hr ls rs|]; [|contradiction].
  cbn [touch_leaf]. destruct (N.eqb off pg); split; reflexivity || exact I.
Qed.

Definition new_leaf (k lsn : N) (v : bytes) (l : tree) : tree :=
  match l with
  | TLeaf off _ _ cells hl hr ls rs => TLeaf off lsn true (insert_cell (mkLC k false v) cells) hl hr ls rs
  | _ => l
  end.

(* the leaf at offset o receives the new cell *)
Definition ins_fun (k lsn : N) (v : bytes) (o : N) : tree -> tree :=
  fun l => if N.eqb (t_off l) o then new_leaf k lsn v l else l.

Lemma lp_ins k lsn v o : lp (ins_fun k lsn v o).
Proof.
  intros l Hl. destruct l as [off a b c hl hr ls rs|]; [|contradiction].
  unfold ins_fun. cbn [t_off]. destruct (N.eqb off o); split; reflexivity || exact I.
Qed.

Lemma rightmost_in_nodes t : In (rightmost t) (nodes t).
Proof.
  induction t as [off l d cells hl hr ls rs | off l d kids rgt IH]; [left; reflexivity|].
  rewrite nodes_node. cbn [rightmost]. right. apply in_or_app. right. exact IH.
Qed.

Lemma in_kids_offsets x kids : In x (kids_offsets kids) <-> exists sc, In sc kids /\ In x (offsets_of (snd sc)).
Proof. unfold kids_offsets. apply in_flat_map. Qed.

Lemma ins_right_inplace t : forall k lsn v free,
  NoDup (offsets_of t) ->
  free <= snd (ins_right ML MI PS t k lsn v free) /\
  (snd (ins_right ML MI PS t k lsn v free) = free ->
   fst (ins_right ML MI PS t k lsn v free) = IFit (repl (ins_fun k lsn v (t_off (rightmost t))) t)) /\
  (forall a s b, fst (ins_right ML MI PS t k lsn v free) = ISplit a s b ->
                 free < snd (ins_right ML MI PS t k lsn v free)).
Proof.
  pose proof PS_pos as Hps.
  induction t as [off l d cells hl hr ls rs | off l d kids rgt IH]; intros k lsn v free Hnd.
  - cbn [ins_right rightmost t_off]. destruct (Nat.ltb _ ML); cbn [fst snd].
    + split; [lia|]. split; [|discriminate]. intros _. cbn [repl]. unfold ins_fun. cbn [t_off new_leaf].
      rewrite N.eqb_refl. reflexivity.
    + split; [lia|]. split; [lia|]. intros; lia.
  - rewrite offsets_node in Hnd. inversion Hnd as [|? ? Hoff Hnd']; subst.
    destruct (IH k lsn v free (NoDup_app_remove_l _ _ Hnd')) as (A & B & C).
    cbn [ins_right rightmost].
    destruct (ins_right ML MI PS rgt k lsn v free) as [[r'|lft sep r'] f] eqn:E; cbn [fst snd] in *.
    + split; [exact A|]. split; [|discriminate]. intros Ef. specialize (B Ef). inversion B; subst r'.
      rewrite repl_node. f_equal. f_equal. unfold rkids. rewrite <- (map_id kids) at 1.
      apply map_ext_in. intros [s c] Hsc. cbn [fst snd]. f_equal. symmetry. apply repl_id.
      intros x Hx. unfold ins_fun. destruct (N.eqb_spec (t_off x) (t_off (rightmost rgt))) as [Ex|]; [|reflexivity].
      exfalso. apply NoDup_app_inv in Hnd' as (_ & _ & Hd). apply (Hd (t_off x)).
      * apply in_kids_offsets. exists (s, c). split; [exact Hsc|]. apply node_offset_in. apply leaves_sub_nodes. exact Hx.
      * rewrite Ex. apply node_offset_in. apply rightmost_in_nodes.
    + assert (Hf : free < f) by (eapply C; reflexivity).
      destruct (Nat.ltb _ MI); cbn [fst snd].
      * split; [lia|]. split; [lia | discriminate].
      * destruct (nth_error _ _) as [[msep mchild]|]; cbn [fst snd].
        -- split; [lia|]. split; [lia|]. intros; lia.
        -- split; [lia|]. split; [lia | discriminate].
Qed.

Lemma tree_insert_inplace n k lsn v free t' :
  NoDup (offsets_of n) -> tree_insert ML MI PS MV n k lsn v free = TOk (t', free) ->
  t' = repl (ins_fun k lsn v (t_off (rightmost n))) n /\
  key_exists k n = false /\ on_right_spine k n = true /\ (MV <? length v)%nat = false.
Proof.
  intros Hnd. unfold tree_insert.
  destruct (key_exists k n); [discriminate|].
  destruct (on_right_spine k n); [|discriminate]. cbn [negb].
  destruct (Nat.ltb MV (length v)); [discriminate|].
  destruct (ins_right_inplace n k lsn v free Hnd) as (A & B & C).
  destruct (ins_right ML MI PS n k lsn v free) as [[t1|a s b] f]; cbn [fst snd] in *; intros H; inversion H; subst.
  - specialize (B eq_refl). inversion B. auto.
  - exfalso. pose proof PS_pos. specialize (C a s b eq_refl). lia.
Qed.

(* a tree insert that allocates nothing keeps the root page *)
Lemma tree_insert_inplace_off n k lsn v free t' :
  NoDup (offsets_of n) -> tree_insert ML MI PS MV n k lsn v free = TOk (t', free) -> t_off t' = t_off n.
Proof.
  intros Hnd H. destruct (tree_insert_inplace _ _ _ _ _ _ Hnd H) as (-> & _). apply repl_off. apply lp_ins.
Qed.

Lemma tree_insert_free_le n k lsn v free t' nf :
  NoDup (offsets_of n) -> tree_insert ML MI PS MV n k lsn v free = TOk (t', nf) ->
  free <= nf /\ (t_off t' <> t_off n -> free < nf).
Proof.
  intros Hnd. unfold tree_insert.
  destruct (key_exists k n); [discriminate|].
  destruct (negb (on_right_spine k n)); [discriminate|].
  destruct (Nat.ltb MV (length v)); [discriminate|].
  destruct (ins_right_inplace n k lsn v free Hnd) as (A & B & C).
  pose proof (ins_right_root n k lsn v free) as R. pose proof PS_pos.
  destruct (ins_right ML MI PS n k lsn v free) as [[t1|a s b] f]; cbn [fst snd] in *; intros H0; inversion H0; subst.
  - split; [exact A|]. intros Hne. congruence.
  - split; [lia|]. intros _. lia.
Qed.

(* ---------- forests ---------- *)
Definition mapF (sg : tree -> tree) (f : list tree) : list tree := map (repl sg) f.

Lemma mapF_offsets sg f : lp sg -> all_offsets (mapF sg f) = all_offsets f.
Proof.
  intros H. unfold all_offsets, mapF. rewrite flat_map_concat_map, map_map, <- flat_map_concat_map.
  apply flat_map_ext. intros t. apply repl_offsets. exact H.
Qed.

Lemma leaf_offset_in l t : In l (leaves t) -> In (t_off l) (offsets_of t).
Proof. intros H. apply node_offset_in. apply leaves_sub_nodes. exact H. Qed.

Lemma touch_forest_mapF pg k lsn g f :
  NoDup (all_offsets f) -> touch_forest pg k lsn g f = mapF (touch_leaf pg k lsn g) f.
Proof.
  induction f as [|t f IH]; intros Hn; [reflexivity|].
  cbn [all_offsets flat_map] in Hn. fold (all_offsets f) in Hn.
  apply NoDup_app_inv in Hn as (Ha & Hf & Hd). cbn [touch_forest mapF map].
  destruct (has_page pg t) eqn:Ehp.
  - rewrite <- touch_is_repl. f_equal. fold (mapF (touch_leaf pg k lsn g) f).
    apply has_page_in in Ehp. clear IH. induction f as [|u f IHf]; [reflexivity|].
    cbn [mapF map]. f_equal.
    + symmetry. apply repl_id. intros x Hx.
      destruct x as [off a b c hl hr ls rs|]; [|exfalso; exact (leaves_is_leaf _ _ Hx)].
      cbn [touch_leaf]. destruct (N.eqb_spec off pg) as [E|]; [|reflexivity].
      exfalso. apply (Hd pg Ehp). apply in_all_offsets. exists u. split; [left; reflexivity|].
      subst pg. apply (leaf_offset_in _ _ Hx).
    + apply IHf.
      * cbn [all_offsets flat_map] in Hf. fold (all_offsets f) in Hf. apply NoDup_app_remove_l in Hf. exact Hf.
      * intros x Hx Hy. apply (Hd x Hx). cbn [all_offsets flat_map]. apply in_or_app. right. exact Hy.
  - f_equal; [|apply IH; exact Hf]. symmetry. apply repl_id. intros x Hx.
    destruct x as [off a b c hl hr ls rs|]; [|exfalso; exact (leaves_is_leaf _ _ Hx)].
    cbn [touch_leaf]. destruct (N.eqb_spec off pg) as [E|]; [|reflexivity].
    exfalso. subst pg. pose proof (leaf_offset_in _ _ Hx) as Hin. apply has_page_in in Hin. cbn [t_off] in Hin. congruence.
Qed.

Lemma replace_root_mapF p n f sg :
  NoDup (all_offsets f) -> find_root p f = Some n ->
  (forall t x, In t f -> In x (leaves t) -> ~ In x (leaves n) -> sg x = x) ->
  replace_root p (repl sg n) f = mapF sg f.
Proof.
  intros Hn Hf Hsg. destruct (find_root_split _ _ _ Hf) as (l1 & l2 & -> & Ho & _ & Hrep).
  rewrite Hrep. unfold mapF. rewrite map_app. cbn [map].
  rewrite all_offsets_app in Hn. cbn [all_offsets flat_map] in Hn. fold (all_offsets l2) in Hn.
  apply NoDup_app_inv in Hn as (H1 & H2 & Hd1). apply NoDup_app_inv in H2 as (Hnn & H3 & Hd2).
  assert (G : forall l, (forall t, In t l -> In t (l1 ++ n :: l2)) ->
              (forall t x, In t l -> In x (leaves t) -> ~ In x (leaves n)) -> map (repl sg) l = l).
  { intros l Hsub Hnot. rewrite <- (map_id l) at 2. apply map_ext_in. intros t Ht. apply repl_id.
    intros x Hx. apply (Hsg t x); auto. eapply Hnot; eauto. }
  rewrite (G l1), (G l2); [reflexivity | | | |].
  - intros t Ht. apply in_or_app. right. right. exact Ht.
  - intros t x Ht Hx Hxn. apply (Hd2 (t_off x)); [apply (leaf_offset_in _ _ Hxn)|].
    apply in_all_offsets. exists t. split; [exact Ht | apply (leaf_offset_in _ _ Hx)].
  - intros t Ht. apply in_or_app. left. exact Ht.
  - intros t x Ht Hx Hxn. apply (Hd1 (t_off x)).
    + apply in_all_offsets. exists t. split; [exact Ht | apply (leaf_offset_in _ _ Hx)].
    + apply in_or_app. left. apply (leaf_offset_in _ _ Hxn).
Qed.

(* ====================== mixing two versions of the leaves ====================== *)
Definition inW (W : list N) (o : N) : bool := existsb (N.eqb o) W.

Definition default_leaf (o : N) : tree := TLeaf o 0 false [] false false 0 0.

(* the final (cache) version of the leaf at offset o, as flushPages writes it *)
Definition fin_of (R : list tree) (o : N) : tree :=
  match find (fun l => N.eqb (t_off l) o) (flat_map leaves R) with
  | Some l => erase false l
  | None => default_leaf o
  end.

Definition mixfun (W : list N) (fin : N -> tree) : tree -> tree :=
  fun l => if inW W (t_off l) then fin (t_off l) else l.

Definition fin_ok (fin : N -> tree) : Prop := forall o, is_leaf (fin o) /\ t_off (fin o) = o.

Lemma fin_of_ok R : fin_ok (fin_of R).
Proof.
  intros o. unfold fin_of. destruct (find _ _) as [l|] eqn:E; [|split; [exact I | reflexivity]].
  apply find_some in E as [Hin Ho]. apply N.eqb_eq in Ho. apply in_flat_map in Hin as (t & _ & Hl).
  pose proof (leaves_is_leaf _ _ Hl) as Hleaf. destruct l; [|contradiction]. split; [exact I | exact Ho].
Qed.

Lemma lp_mix W fin : fin_ok fin -> lp (mixfun W fin).
Proof.
  intros Hf l Hl. unfold mixfun. destruct (inW W (t_off l)); [apply Hf | auto].
Qed.

(* a leaf map that only changes the leaf at offset o *)
Definition only_at (o : N) (tg : tree -> tree) : Prop :=
  lp tg /\ forall l, is_leaf l -> t_off l <> o -> tg l = l.

Lemma only_at_touch pg k lsn g : only_at pg (touch_leaf pg k lsn g).
Proof.
  split; [apply lp_touch|]. intros l Hl Hne. destruct l as [off a b c hl hr ls rs|]; [|contradiction].
  cbn [touch_leaf t_off] in *. destruct (N.eqb_spec off pg); [contradiction | reflexivity].
Qed.

Lemma only_at_ins k lsn v o : only_at o (ins_fun k lsn v o).
Proof.
  split; [apply lp_ins|]. intros l Hl Hne. unfold ins_fun. destruct (N.eqb_spec (t_off l) o); [contradiction | reflexivity].
Qed.

Lemma inW_false_ne W o o' : inW W o = false -> inW W o' = true -> o' <> o.
Proof. intros A B ->. congruence. Qed.

Lemma mapF_comp sg tg f : lp tg -> mapF sg (mapF tg f) = mapF (fun l => sg (tg l)) f.
Proof. intros H. unfold mapF. rewrite map_map. apply map_ext. intros t. apply repl_comp. exact H. Qed.

Lemma mapF_ext sg tg f : (forall l, is_leaf l -> sg l = tg l) -> mapF sg f = mapF tg f.
Proof.
  intros H. unfold mapF. apply map_ext. intros t. apply repl_ext. intros x Hx. apply H. apply (leaves_is_leaf _ _ Hx).
Qed.

(* target leaf not in W: the change and the mixing commute *)
Lemma mix_commute W fin o tg f :
  fin_ok fin -> only_at o tg -> inW W o = false ->
  mapF tg (mapF (mixfun W fin) f) = mapF (mixfun W fin) (mapF tg f).
Proof.
  intros Hf [Hlp Hid] HW. rewrite !mapF_comp by (apply lp_mix; exact Hf) || exact Hlp.
  apply mapF_ext. intros l Hl. unfold mixfun.
  destruct (Hlp l Hl) as [Hl' Ho']. rewrite Ho'.
  destruct (inW W (t_off l)) eqn:E; [|reflexivity].
  pose proof (inW_false_ne W o (t_off l) HW E) as Hne.
  destruct (Hf (t_off l)) as [A B]. apply Hid; [exact A | rewrite B; exact Hne].
Qed.

(* target leaf in W: the change disappears under the mixing *)
Lemma mix_absorb W fin o tg f :
  only_at o tg -> inW W o = true ->
  mapF (mixfun W fin) (mapF tg f) = mapF (mixfun W fin) f.
Proof.
  intros [Hlp Hid] HW. rewrite mapF_comp by exact Hlp.
  apply mapF_ext. intros l Hl. unfold mixfun.
  destruct (Hlp l Hl) as [Hl' Ho']. rewrite Ho'.
  destruct (inW W (t_off l)) eqn:E; [reflexivity|].
  apply Hid; [exact Hl|]. intros Heq. rewrite Heq in E. congruence.
Qed.

(* ---------- pages of a forest with replaced leaves ---------- *)
Lemma page_in_mapF sg f p b n : lp sg -> page_in f p b n -> page_in (mapF sg f) p b (repl sg n).
Proof.
  intros H (t & Ht & Hin & Hp & Hb). exists (repl sg t). split; [apply in_map; exact Ht|]. split; [|split].
  - rewrite (repl_nodes sg t H). apply in_map. exact Hin.
  - rewrite repl_off by exact H. exact Hp.
  - rewrite repl_off by exact H. exact Hb.
Qed.

Lemma find_node_mapF sg f p b n :
  lp sg -> NoDup (all_offsets f) -> find_node p f = Some (b, n) ->
  find_node p (mapF sg f) = Some (b, repl sg n).
Proof.
  intros H Hn Hf. apply find_node_complete; [rewrite mapF_offsets by exact H; exact Hn|].
  apply page_in_mapF; [exact H|]. apply find_node_sound. exact Hf.
Qed.

Lemma find_node_mapF_none sg f p :
  lp sg -> find_node p f = None -> find_node p (mapF sg f) = None.
Proof.
  intros H Hf. destruct (find_node p (mapF sg f)) as [[b n]|] eqn:E; [|reflexivity]. exfalso.
  apply find_node_sound in E as (t' & Ht' & Hin & Hp & _).
  apply in_map_iff in Ht' as (t & <- & Ht).
  assert (Hoff : In p (offsets_of t)).
  { rewrite <- (repl_offsets sg t H), <- Hp. apply node_offset_in. exact Hin. }
  clear - Hf Ht Hoff. induction f as [|a f IH]; [contradiction|]. cbn [find_node] in Hf.
  destruct (find_in_tree p a) eqn:Ea; [discriminate|].
  destruct Ht as [->|Ht]; [exact (find_in_tree_none _ _ Ea Hoff) | apply IH; assumption].
Qed.

Lemma leaf_node_in_leaves t : forall n, In n (nodes t) -> is_leaf n -> In n (leaves t).
Proof.
  induction t as [off l d cells hl hr ls rs | off l d kids rgt IHk IHr] using tree_ind2; intros n Hin Hl.
  - exact Hin.
  - rewrite nodes_node in Hin. rewrite leaves_node. destruct Hin as [<-|Hin]; [contradiction|].
    apply in_app_or in Hin as [Hin|Hin]; apply in_or_app; [left|right; apply IHr; assumption].
    apply in_kids_nodes in Hin as (sc & Hsc & Hn). unfold kids_leaves. apply in_flat_map. exists sc. split; [exact Hsc|].
    rewrite Forall_forall in IHk. apply IHk; assumption.
Qed.

Lemma find_root_unique f t : NoDup (all_offsets f) -> In t f -> find_root (t_off t) f = Some t.
Proof.
  unfold find_root. induction f as [|a f IH]; intros Hn Hin; [contradiction|].
  cbn [all_offsets flat_map] in Hn. fold (all_offsets f) in Hn.
  apply NoDup_app_inv in Hn as (Ha & Hf & Hd). cbn [find].
  destruct Hin as [->|Hin]; [rewrite N.eqb_refl; reflexivity|].
  destruct (N.eqb_spec (t_off a) (t_off t)) as [E|_]; [|apply IH; assumption].
  exfalso. apply (Hd (t_off a)); [apply node_offset_in; apply root_in_nodes|].
  apply in_all_offsets. exists t. split; [exact Hin|]. rewrite E. apply node_offset_in. apply root_in_nodes.
Qed.

Lemma page_in_root f p n : NoDup (all_offsets f) -> page_in f p true n ->
  In n f /\ t_off n = p /\ find_root p f = Some n /\ NoDup (offsets_of n).
Proof.
  intros Hn (t & Ht & Hin & Hp & Hb). symmetry in Hb. apply N.eqb_eq in Hb.
  assert (Hndt : NoDup (offsets_of t)).
  { clear - Hn Ht. induction f as [|a f IH]; [contradiction|].
    cbn [all_offsets flat_map] in Hn. fold (all_offsets f) in Hn. apply NoDup_app_inv in Hn as (Ha & Hf & _).
    destruct Ht as [->|Ht]; auto. }
  assert (n = t) by (apply root_node_unique; auto; congruence). subst n.
  repeat split; auto. rewrite <- Hp. apply find_root_unique; assumption.
Qed.

Lemma descend_rightmost k t : on_right_spine k t = true -> descend k t = rightmost t.
Proof.
  induction t as [off l d cells hl hr ls rs | off l d kids rgt IH]; intros H; [reflexivity|].
  apply on_right_spine_node in H as [Hk Hr]. rewrite descend_node. cbn [rightmost].
  assert (E : child_for k kids rgt = rgt).
  { clear - Hk. induction kids as [|[s c] r IHk]; [reflexivity|]. inversion Hk as [|? ? Hs Hrest]; subst.
    cbn [child_for fst] in *. destruct (N.ltb_spec k s); [lia | apply IHk; exact Hrest]. }
  rewrite E. apply IH. exact Hr.
Qed.

Lemma ins_right_snd_repl sg t : forall k lsn v free,
  lp sg -> NoDup (offsets_of t) -> sg (rightmost t) = rightmost t ->
  snd (ins_right ML MI PS t k lsn v free) = free ->
  snd (ins_right ML MI PS (repl sg t) k lsn v free) = free.
Proof.
  intros k lsn v free Hlp. revert k lsn v free.
  induction t as [off l d cells hl hr ls rs | off l d kids rgt IH]; intros k lsn v free Hnd Hsg Hs.
  - cbn [repl rightmost] in *. rewrite Hsg. exact Hs.
  - cbn [rightmost] in Hsg. rewrite repl_node.
    rewrite offsets_node in Hnd. inversion Hnd as [|? ? _ Hnd']; subst. apply NoDup_app_remove_l in Hnd'.
    destruct (ins_right_inplace rgt k lsn v free Hnd') as (A & B & C).
    assert (Hin : snd (ins_right ML MI PS rgt k lsn v free) = free).
    { cbn [ins_right] in Hs. destruct (ins_right ML MI PS rgt k lsn v free) as [[r'|lft sep r'] f]; cbn [fst snd] in *; [exact Hs|].
      exfalso. specialize (C _ _ _ eq_refl). pose proof PS_pos.
      destruct (Nat.ltb _ MI); cbn [snd] in Hs; [lia|]. destruct (nth_error _ _) as [[? ?]|]; cbn [snd] in Hs; lia. }
    specialize (IH k lsn v free Hnd' Hsg Hin).
    assert (Hnd2 : NoDup (offsets_of (repl sg rgt))) by (rewrite repl_offsets by exact Hlp; exact Hnd').
    destruct (ins_right_inplace (repl sg rgt) k lsn v free Hnd2) as (_ & B2 & _). specialize (B2 IH).
    cbn [ins_right]. destruct (ins_right ML MI PS (repl sg rgt) k lsn v free) as [r2 f2]. cbn [fst snd] in *.
    subst r2. exact IH.
Qed.

Lemma redo_root_move_free s o n l : nextFree (fst (redo_root_move s o n l)) = nextFree s.
Proof. unfold redo_root_move. repeat (break_match; cbn [fst]; try reflexivity). Qed.

Lemma insert_cell_has c cells : existsb (fun x => N.eqb (lc_key x) (lc_key c)) (insert_cell c cells) = true.
Proof.
  induction cells as [|x r IH]; cbn [insert_cell existsb].
  - rewrite N.eqb_refl. reflexivity.
  - destruct (N.ltb (lc_key x) (lc_key c)); cbn [existsb]; [rewrite IH; apply orb_true_r | rewrite N.eqb_refl; reflexivity].
Qed.

(* ====================== one record on the mixed store ====================== *)
(* every leaf of f in W is "behind" its final version: LSN at most the final one, keys included *)
Definition Mono (W : list N) (fin : N -> tree) (f : list tree) : Prop :=
  forall t l, In t f -> In l (leaves t) -> inW W (t_off l) = true ->
    t_lsn l <= t_lsn (fin (t_off l)) /\ (forall k, has_key k l = true -> has_key k (fin (t_off l)) = true).

Lemma repl_lsn_ge W fin f t n :
  Mono W fin f -> In t f -> In n (nodes t) -> t_lsn n <= t_lsn (repl (mixfun W fin) n).
Proof.
  intros Hm Ht Hin. destruct n as [off l d cells hl hr ls rs | off l d kids rgt].
  - cbn [repl]. unfold mixfun. cbn [t_off]. destruct (inW W off) eqn:E; [|lia].
    apply (Hm t (TLeaf off l d cells hl hr ls rs) Ht); [|exact E]. apply leaf_node_in_leaves; [exact Hin | exact I].
  - rewrite repl_node. cbn [t_lsn]. lia.
Qed.

Lemma tree_insert_inplace_snd n k lsn v free t' :
  NoDup (offsets_of n) -> tree_insert ML MI PS MV n k lsn v free = TOk (t', free) ->
  snd (ins_right ML MI PS n k lsn v free) = free.
Proof.
  intros Hnd. unfold tree_insert.
  destruct (key_exists k n); [discriminate|].
  destruct (negb (on_right_spine k n)); [discriminate|].
  destruct (Nat.ltb MV (length v)); [discriminate|].
  destruct (ins_right_inplace n k lsn v free Hnd) as (A & B & C). pose proof PS_pos.
  destruct (ins_right ML MI PS n k lsn v free) as [[t1|a s b] f]; cbn [fst snd] in *; intros H0; inversion H0; subst; [reflexivity|].
  specialize (C _ _ _ eq_refl). lia.
Qed.

(* the rightmost leaf is the old version: the insert is redone on it, with the same result *)
Lemma sim_tree_insert_out sg n k lsn v free t' :
  lp sg -> NoDup (offsets_of n) -> tree_insert ML MI PS MV n k lsn v free = TOk (t', free) ->
  sg (rightmost n) = rightmost n ->
  tree_insert ML MI PS MV (repl sg n) k lsn v free =
  TOk (repl (ins_fun k lsn v (t_off (rightmost n))) (repl sg n), free).
Proof.
  intros Hlp Hnd Hti Hsg.
  destruct (tree_insert_inplace _ _ _ _ _ _ Hnd Hti) as (_ & Hke & Hsp & Hmv).
  pose proof (tree_insert_inplace_snd _ _ _ _ _ _ Hnd Hti) as Hsnd.
  unfold tree_insert.
  rewrite (key_exists_repl sg n Hlp k), Hke.
  2:{ rewrite (descend_rightmost k n Hsp), Hsg. reflexivity. }
  rewrite repl_on_right_spine' by exact Hlp. rewrite Hsp. cbn [negb]. rewrite Hmv.
  assert (Hnd2 : NoDup (offsets_of (repl sg n))) by (rewrite repl_offsets by exact Hlp; exact Hnd).
  pose proof (ins_right_snd_repl sg n k lsn v free Hlp Hnd Hsg Hsnd) as Hs2.
  destruct (ins_right_inplace (repl sg n) k lsn v free Hnd2) as (_ & B & _). specialize (B Hs2).
  destruct (ins_right ML MI PS (repl sg n) k lsn v free) as [r2 f2]. cbn [fst snd] in *. subst r2 f2.
  rewrite (repl_rightmost' sg n Hlp), Hsg. reflexivity.
Qed.

Lemma tree_insert_key_exists n k lsn v free : key_exists k n = true ->
  tree_insert ML MI PS MV n k lsn v free = TErr KeyExists.
Proof. intros H. unfold tree_insert. rewrite H. reflexivity. Qed.

Lemma tree_insert_err_key n k lsn v free :
  tree_insert ML MI PS MV n k lsn v free = TErr KeyExists -> key_exists k n = true.
Proof.
  unfold tree_insert. destruct (key_exists k n); [reflexivity|].
  destruct (negb (on_right_spine k n)); [discriminate|].
  destruct (Nat.ltb MV (length v)); [discriminate|].
  destruct (ins_right ML MI PS n k lsn v free) as [[t1|a s b] f]; discriminate.
Qed.

(* a key the tree holds is still held after mixing in later leaf versions *)
Lemma key_exists_mix W fin f t k :
  fin_ok fin -> Mono W fin f -> In t f -> key_exists k t = true -> key_exists k (repl (mixfun W fin) t) = true.
Proof.
  intros Hf Hm Ht Hk. pose proof (lp_mix W fin Hf) as Hlp.
  destruct (has_key k (descend k t)) eqn:E.
  - apply key_exists_repl_true; [exact Hlp|]. unfold mixfun.
    destruct (inW W (t_off (descend k t))) eqn:EW; [|exact E].
    apply (Hm t (descend k t) Ht (descend_in_leaves k t) EW). exact E.
  - apply key_exists_true_cases; assumption.
Qed.

Lemma has_key_new_leaf k lsn v l : is_leaf l -> has_key k (new_leaf k lsn v l) = true.
Proof.
  destruct l as [off a b c hl hr ls rs|]; [|contradiction]. intros _.
  unfold has_key. cbn [new_leaf leaf_cells]. apply (insert_cell_has (mkLC k false v) c).
Qed.

Lemma In_mapF sg f t : In t f -> In (repl sg t) (mapF sg f).
Proof. apply in_map. Qed.

Lemma nodup_tree f t : NoDup (all_offsets f) -> In t f -> NoDup (offsets_of t).
Proof.
  induction f as [|a f IH]; intros Hn Ht; [contradiction|].
  cbn [all_offsets flat_map] in Hn. fold (all_offsets f) in Hn. apply NoDup_app_inv in Hn as (Ha & Hf & _).
  destruct Ht as [->|Ht]; auto.
Qed.

Lemma tree_of_offset_unique f t1 t2 o :
  NoDup (all_offsets f) -> In t1 f -> In t2 f -> In o (offsets_of t1) -> In o (offsets_of t2) -> t1 = t2.
Proof.
  induction f as [|a f IH]; intros Hn H1 H2 O1 O2; [contradiction|].
  cbn [all_offsets flat_map] in Hn. fold (all_offsets f) in Hn. apply NoDup_app_inv in Hn as (Ha & Hf & Hd).
  destruct H1 as [->|H1], H2 as [->|H2]; auto.
  - exfalso. apply (Hd o O1). apply in_all_offsets. eauto.
  - exfalso. apply (Hd o O2). apply in_all_offsets. eauto.
Qed.

Lemma leaf_offset_unique f t1 t2 x1 x2 :
  NoDup (all_offsets f) -> In t1 f -> In t2 f -> In x1 (leaves t1) -> In x2 (leaves t2) ->
  t_off x1 = t_off x2 -> t1 = t2 /\ x1 = x2.
Proof.
  intros Hn H1 H2 L1 L2 E.
  assert (t1 = t2).
  { apply (tree_of_offset_unique f t1 t2 (t_off x1)); auto; [apply (leaf_offset_in _ _ L1) | rewrite E; apply (leaf_offset_in _ _ L2)]. }
  subst t2. split; [reflexivity|].
  apply (nodup_map_inj t_off (nodes t1)); [apply (nodup_tree f); assumption | apply leaves_sub_nodes; exact L1 | apply leaves_sub_nodes; exact L2 | exact E].
Qed.

Lemma rightmost_in_leaves n : In (rightmost n) (leaves n).
Proof. apply leaf_node_in_leaves; [apply rightmost_in_nodes | apply rightmost_is_leaf]. Qed.

Lemma sim_step W fin s g w s' :
  fin_ok fin -> NoDup (all_offsets (forest s)) ->
  forest g = mapF (mixfun W fin) (forest s) -> nextFree g = nextFree s ->
  replay_one s w = RCont s' -> nextFree s' = nextFree s ->
  Mono W fin (forest s') ->
  exists g', replay_one g w = RCont g' /\ forest g' = mapF (mixfun W fin) (forest s') /\ nextFree g' = nextFree s'.
Proof.
  intros Hfin Hn Hg Hnf Hrep Hip Hmono.
  pose proof (lp_mix W fin Hfin) as Hlp. set (sg := mixfun W fin) in *.
  unfold replay_one in *. fold (pre s w) in *. fold (pre g w) in *. rewrite pre_forest in *.
  destruct (find_node (w_page w) (forest s)) as [[b n]|] eqn:Ef; [|discriminate].
  rewrite Hg, (find_node_mapF sg _ _ _ _ Hlp Hn Ef).
  pose proof (find_node_sound _ _ _ _ Ef) as Hpi.
  destruct Hpi as (t0 & Ht0 & Hin0 & Hp0 & Hb0).
  destruct (N.leb_spec (w_lsn w) (t_lsn n)) as [Hskip|Hns].
  { (* skipped in the original replay: skipped here too *)
    inversion Hrep; subst s'. rewrite pre_forest in Hmono.
    pose proof (repl_lsn_ge W fin (forest s) t0 n Hmono Ht0 Hin0) as Hge. fold sg in Hge.
    destruct (N.leb_spec (w_lsn w) (t_lsn (repl sg n))) as [_|Hbad]; [|lia].
    eexists. split; [reflexivity|]. rewrite !pre_forest, !pre_nextFree. auto. }
  destruct (w_op w) eqn:Eop.
  - (* insert *)
    destruct b; [|discriminate]. cbn [negb] in *.
    destruct (page_in_root (forest s) (w_page w) n Hn (ex_intro _ t0 (conj Ht0 (conj Hin0 (conj Hp0 Hb0)))))
      as (Hnf0 & Hoffn & Hfr & Hndn).
    rewrite pre_nextFree in *.
    destruct (tree_insert ML MI PS MV n (w_cell w) (w_lsn w) (w_val w) (nextFree s)) as [[t' nf]|e] eqn:Eti.
    + (* applied in the original replay *)
      assert (Hnfeq : nf = nextFree s /\ t_off t' = w_page w).
      { destruct (tree_insert_free_le _ _ _ _ _ _ _ Hndn Eti) as [Hle Hlt].
        destruct (N.eqb_spec (t_off t') (w_page w)) as [E|E].
        - inversion Hrep; subst s'. cbn [nextFree] in Hip. auto.
        - exfalso. rewrite <- Hoffn in E. specialize (Hlt E).
          match type of Hrep with context [redo_root_move ?a ?b0 ?c ?d] =>
            pose proof (redo_root_move_free a b0 c d) as Hrf; destruct (redo_root_move a b0 c d) as [s2 [u|e|]] end;
            try discriminate.
          inversion Hrep; subst s2. cbn [fst nextFree] in Hrf. lia. }
      destruct Hnfeq as [-> Hoff']. rewrite Hoff', N.eqb_refl in Hrep. inversion Hrep; subst s'. clear Hrep.
      cbn [forest nextFree] in *.
      destruct (tree_insert_inplace _ _ _ _ _ _ Hndn Eti) as (Et' & Hke & Hsp & Hmv).
      set (o := t_off (rightmost n)) in *. set (tg := ins_fun (w_cell w) (w_lsn w) (w_val w) o) in *.
      assert (Hs'f : replace_root (w_page w) t' (forest s) = mapF tg (forest s)).
      { rewrite Et'. apply replace_root_mapF; [exact Hn | exact Hfr|].
        intros t x Ht Hx Hnx. apply (proj2 (only_at_ins _ _ _ o)); [apply (leaves_is_leaf _ _ Hx)|].
        intros Heq. apply Hnx.
        destruct (leaf_offset_unique (forest s) t n x (rightmost n) Hn Ht Hnf0 Hx (rightmost_in_leaves n) Heq) as [-> ->].
        apply rightmost_in_leaves. }
      rewrite Hs'f in Hmono |- *.
      destruct (inW W o) eqn:EW.
      * (* the rightmost leaf is already the final version: it holds the key *)
        assert (Hk : key_exists (w_cell w) (repl sg n) = true).
        { apply key_exists_repl_true; [exact Hlp|].
          rewrite (descend_rightmost _ _ Hsp). unfold sg, mixfun. fold o. rewrite EW.
          assert (Hl' : In (tg (rightmost n)) (leaves (repl tg n))).
          { rewrite (repl_leaves tg n (lp_ins _ _ _ _)). apply in_map.
            apply leaf_node_in_leaves; [apply rightmost_in_nodes | apply rightmost_is_leaf]. }
          assert (Eo : t_off (tg (rightmost n)) = o) by (apply (lp_ins _ _ _ _); apply rightmost_is_leaf).
          destruct (Hmono (repl tg n) (tg (rightmost n)) (In_mapF tg _ _ Hnf0) Hl') as [_ Hkeys]; [rewrite Eo; exact EW|].
          rewrite Eo in Hkeys. apply Hkeys. unfold tg, ins_fun. fold o. rewrite N.eqb_refl.
          apply has_key_new_leaf. apply rightmost_is_leaf. }
        assert (Hfg : mapF sg (forest s) = mapF sg (mapF tg (forest s)))
          by (symmetry; apply (mix_absorb W fin o tg); [apply only_at_ins | exact EW]).
        destruct (N.leb (w_lsn w) (t_lsn (repl sg n))).
        { eexists. split; [reflexivity|]. rewrite !pre_forest, !pre_nextFree. split; [rewrite Hg; exact Hfg | exact Hnf]. }
        rewrite (tree_insert_key_exists _ _ _ _ _ Hk).
        eexists. split; [reflexivity|]. cbn [forest nextFree]. rewrite ?pre_forest, ?pre_nextFree.
        split; [rewrite ?Hg; exact Hfg | exact Hnf].
      * (* the rightmost leaf is the old version: redo *)
        assert (Hsgr : sg (rightmost n) = rightmost n) by (unfold sg, mixfun; fold o; rewrite EW; reflexivity).
        assert (Hlq : t_lsn (repl sg n) = t_lsn n).
        { destruct n as [? ? ? ? ? ? ? ?|? ? ? ? ?]; [cbn [repl rightmost] in *; rewrite Hsgr; reflexivity | rewrite repl_node; reflexivity]. }
        rewrite Hlq. destruct (N.leb_spec (w_lsn w) (t_lsn n)) as [Hbad|_]; [lia|].
        rewrite Hnf, (sim_tree_insert_out sg n _ _ _ _ t' Hlp Hndn Eti Hsgr). fold o. fold tg.
        rewrite repl_off by apply lp_ins. rewrite repl_off by exact Hlp. rewrite Hoffn, N.eqb_refl.
        eexists. split; [reflexivity|]. cbn [forest nextFree]. split; [|reflexivity].
        rewrite <- Hoffn.
        rewrite (replace_root_mapF (t_off n) (repl sg n) (mapF sg (forest s)) tg).
        -- apply (mix_commute W fin o tg); [exact Hfin | apply only_at_ins | exact EW].
        -- rewrite mapF_offsets by exact Hlp. exact Hn.
        -- rewrite <- (repl_off sg n Hlp). apply find_root_unique; [rewrite mapF_offsets by exact Hlp; exact Hn|].
           apply In_mapF. exact Hnf0.
        -- intros t x Ht Hx Hnx. apply (proj2 (only_at_ins _ _ _ o)); [apply (leaves_is_leaf _ _ Hx)|].
           intros Heq. apply Hnx.
           apply in_map_iff in Ht as (t1 & <- & Ht1).
           rewrite (repl_leaves sg t1 Hlp) in Hx. apply in_map_iff in Hx as (x1 & <- & Hx1).
           rewrite (repl_leaves sg n Hlp).
           assert (Ex1 : t_off x1 = t_off (rightmost n)).
           { unfold o in Heq. rewrite <- Heq. symmetry. apply Hlp. apply (leaves_is_leaf _ _ Hx1). }
           destruct (leaf_offset_unique (forest s) t1 n x1 (rightmost n) Hn Ht1 Hnf0 Hx1 (rightmost_in_leaves n) Ex1) as [-> ->].
           apply in_map. apply rightmost_in_leaves.
    + (* the original replay tolerated "key exists" *)
      destruct e; try discriminate. inversion Hrep; subst s'. clear Hrep. cbn [forest nextFree] in *.
      rewrite ?pre_forest, ?pre_nextFree in *.
      pose proof (tree_insert_err_key _ _ _ _ _ Eti) as Hk.
      destruct (N.leb (w_lsn w) (t_lsn (repl sg n))).
      { eexists. split; [reflexivity|]. rewrite !pre_forest, !pre_nextFree. auto. }
      rewrite (tree_insert_key_exists (repl sg n) _ _ _ _ (key_exists_mix W fin (forest s) n _ Hfin Hmono Hnf0 Hk)).
      eexists. split; [reflexivity|]. cbn [forest nextFree]. rewrite ?pre_forest, ?pre_nextFree. auto.
  - (* update *)
    destruct n as [off ll d cells hl hr ls rs|]; [|discriminate].
    destruct (Nat.ltb MV (length (w_val w))) eqn:Emv; [discriminate|].
    destruct (existsb _ cells) eqn:Eex; [|discriminate].
    inversion Hrep; subst s'. clear Hrep. cbn [set_forest forest nextFree] in *. rewrite ?pre_forest in *.
    cbn [t_off] in Hp0. subst off.
    set (tg := touch_leaf (w_page w) (w_cell w) (w_lsn w) (fun x => mkLC (lc_key x) (lc_deleted x) (w_val w))) in *.
    rewrite (touch_forest_mapF _ _ _ _ _ Hn) in Hmono |- *. fold tg in Hmono |- *.
    cbn [repl].
    change (sg (TLeaf (w_page w) ll d cells hl hr ls rs))
      with (if inW W (w_page w) then fin (w_page w) else TLeaf (w_page w) ll d cells hl hr ls rs).
    destruct (inW W (w_page w)) eqn:EW.
    + (* the leaf is already the final version: skipped *)
      assert (Hl : In (TLeaf (w_page w) ll d cells hl hr ls rs) (leaves t0)) by (apply leaf_node_in_leaves; [exact Hin0 | exact I]).
      assert (Hl' : In (tg (TLeaf (w_page w) ll d cells hl hr ls rs)) (leaves (repl tg t0))).
      { rewrite (repl_leaves tg t0 (lp_touch _ _ _ _)). apply in_map. exact Hl. }
      destruct (Hmono _ _ (In_mapF tg _ _ Ht0) Hl') as [Hlsn _].
      { unfold tg. rewrite touch_off. exact EW. }
      unfold tg in Hlsn at 1 2. rewrite (touch_leaf_at _ _ _ _ _ _ _ _ _ _ _ _ eq_refl) in Hlsn. cbn [t_lsn t_off] in Hlsn.
      destruct (N.leb_spec (w_lsn w) (t_lsn (fin (w_page w)))) as [_|Hbad]; [|lia].
      eexists. split; [reflexivity|]. rewrite pre_forest, pre_nextFree. split; [|rewrite pre_nextFree; exact Hnf].
      rewrite Hg. symmetry. apply (mix_absorb W fin (w_page w) tg); [apply only_at_touch | exact EW].
    + cbn [t_lsn] in Hns |- *. destruct (N.leb_spec (w_lsn w) ll) as [Hbad|_]; [lia|]. rewrite Eex.
      eexists. split; [reflexivity|]. cbn [set_forest forest nextFree]. rewrite ?pre_forest, ?pre_nextFree.
      split; [|exact Hnf]. rewrite ?Hg.
      rewrite touch_forest_mapF by (rewrite mapF_offsets by exact Hlp; exact Hn). fold tg.
      apply (mix_commute W fin (w_page w) tg); [exact Hfin | apply only_at_touch | exact EW].
  - (* delete *)
    destruct n as [off ll d cells hl hr ls rs|]; [|discriminate].
    destruct (existsb _ cells) eqn:Eex; [|discriminate].
    inversion Hrep; subst s'. clear Hrep. cbn [set_forest forest nextFree] in *. rewrite ?pre_forest in *.
    cbn [t_off] in Hp0. subst off.
    set (tg := touch_leaf (w_page w) (w_cell w) (w_lsn w) (fun x => mkLC (lc_key x) true (lc_val x))) in *.
    rewrite (touch_forest_mapF _ _ _ _ _ Hn) in Hmono |- *. fold tg in Hmono |- *.
    cbn [repl].
    change (sg (TLeaf (w_page w) ll d cells hl hr ls rs))
      with (if inW W (w_page w) then fin (w_page w) else TLeaf (w_page w) ll d cells hl hr ls rs).
    destruct (inW W (w_page w)) eqn:EW.
    + assert (Hl : In (TLeaf (w_page w) ll d cells hl hr ls rs) (leaves t0)) by (apply leaf_node_in_leaves; [exact Hin0 | exact I]).
      assert (Hl' : In (tg (TLeaf (w_page w) ll d cells hl hr ls rs)) (leaves (repl tg t0))).
      { rewrite (repl_leaves tg t0 (lp_touch _ _ _ _)). apply in_map. exact Hl. }
      destruct (Hmono _ _ (In_mapF tg _ _ Ht0) Hl') as [Hlsn _].
      { unfold tg. rewrite touch_off. exact EW. }
      unfold tg in Hlsn at 1 2. rewrite (touch_leaf_at _ _ _ _ _ _ _ _ _ _ _ _ eq_refl) in Hlsn. cbn [t_lsn t_off] in Hlsn.
      destruct (N.leb_spec (w_lsn w) (t_lsn (fin (w_page w)))) as [_|Hbad]; [|lia].
      eexists. split; [reflexivity|]. rewrite pre_forest, pre_nextFree. split; [|rewrite pre_nextFree; exact Hnf].
      rewrite Hg. symmetry. apply (mix_absorb W fin (w_page w) tg); [apply only_at_touch | exact EW].
    + cbn [t_lsn] in Hns |- *. destruct (N.leb_spec (w_lsn w) ll) as [Hbad|_]; [lia|]. rewrite Eex.
      eexists. split; [reflexivity|]. cbn [set_forest forest nextFree]. rewrite ?pre_forest, ?pre_nextFree.
      split; [|exact Hnf]. rewrite ?Hg.
      rewrite touch_forest_mapF by (rewrite mapF_offsets by exact Hlp; exact Hn). fold tg.
      apply (mix_commute W fin (w_page w) tg); [exact Hfin | apply only_at_touch | exact EW].
Qed.

(* ====================== what an in-place replay step does ====================== *)
Definition grows (lsn : N) (o : N) (tg : tree -> tree) : Prop :=
  only_at o tg /\
  forall l, is_leaf l -> t_off l = o ->
    t_lsn (tg l) = lsn /\ forall k, has_key k l = true -> has_key k (tg l) = true.

Lemma insert_cell_keeps c cells k :
  existsb (fun x => N.eqb (lc_key x) k) cells = true ->
  existsb (fun x => N.eqb (lc_key x) k) (insert_cell c cells) = true.
Proof.
  induction cells as [|x r IH]; cbn [insert_cell existsb]; [discriminate|]. intros H.
  destruct (N.ltb (lc_key x) (lc_key c)); cbn [existsb].
  - apply orb_true_iff in H as [H|H]; [rewrite H; reflexivity | rewrite (IH H); apply orb_true_r].
  - rewrite H. apply orb_true_r.
Qed.

Lemma map_cell_keeps k0 g cells k :
  (forall x, lc_key (g x) = lc_key x) ->
  existsb (fun x => N.eqb (lc_key x) k) (map_cell k0 g cells) = existsb (fun x => N.eqb (lc_key x) k) cells.
Proof.
  intros Hg. unfold map_cell. induction cells as [|x r IH]; [reflexivity|]. cbn [map existsb]. rewrite IH. f_equal.
  destruct (N.eqb (lc_key x) k0); [rewrite Hg|]; reflexivity.
Qed.

Lemma grows_ins k lsn v o : grows lsn o (ins_fun k lsn v o).
Proof.
  split; [apply only_at_ins|]. intros l Hl Ho. unfold ins_fun. rewrite Ho, N.eqb_refl.
  destruct l as [off a b c hl hr ls rs|]; [|contradiction]. cbn [new_leaf t_lsn]. split; [reflexivity|].
  intros k0. unfold has_key. cbn [leaf_cells]. apply insert_cell_keeps.
Qed.

Lemma grows_touch pg k lsn g : (forall x, lc_key (g x) = lc_key x) -> grows lsn pg (touch_leaf pg k lsn g).
Proof.
  intros Hg. split; [apply only_at_touch|]. intros l Hl Ho.
  destruct l as [off a b c hl hr ls rs|]; [|contradiction]. cbn [t_off] in Ho.
  rewrite (touch_leaf_at _ _ _ _ _ _ _ _ _ _ _ _ Ho). cbn [t_lsn]. split; [reflexivity|].
  intros k0. unfold has_key. cbn [leaf_cells]. rewrite map_cell_keeps by exact Hg. auto.
Qed.

Lemma replay_one_inplace_shape s w s' :
  NoDup (all_offsets (forest s)) -> replay_one s w = RCont s' -> nextFree s' = nextFree s ->
  ptRoot s' = ptRoot s /\
  (forest s' = forest s \/ exists o tg, grows (w_lsn w) o tg /\ forest s' = mapF tg (forest s)).
Proof.
  intros Hn Hrep Hip. unfold replay_one in Hrep. fold (pre s w) in Hrep. rewrite pre_forest in Hrep.
  destruct (find_node (w_page w) (forest s)) as [[b n]|] eqn:Ef; [|discriminate].
  pose proof (find_node_sound _ _ _ _ Ef) as Hpi.
  destruct (N.leb (w_lsn w) (t_lsn n)).
  { inversion Hrep; subst s'. rewrite pre_ptRoot, pre_forest. auto. }
  destruct (w_op w) eqn:Eop.
  - destruct b; [|discriminate]. cbn [negb] in Hrep.
    destruct (page_in_root (forest s) (w_page w) n Hn Hpi) as (Hnf0 & Hoffn & Hfr & Hndn).
    rewrite pre_nextFree in Hrep.
    destruct (tree_insert ML MI PS MV n (w_cell w) (w_lsn w) (w_val w) (nextFree s)) as [[t' nf]|e] eqn:Eti.
    + destruct (tree_insert_free_le _ _ _ _ _ _ _ Hndn Eti) as [Hle Hlt].
      destruct (N.eqb_spec (t_off t') (w_page w)) as [E|E].
      * inversion Hrep; subst s'. cbn [nextFree forest ptRoot] in *. subst nf. rewrite pre_ptRoot. split; [reflexivity|].
        destruct (tree_insert_inplace _ _ _ _ _ _ Hndn Eti) as (Et' & _).
        right. exists (t_off (rightmost n)), (ins_fun (w_cell w) (w_lsn w) (w_val w) (t_off (rightmost n))).
        split; [apply grows_ins|]. rewrite Et'. apply replace_root_mapF; [exact Hn | exact Hfr|].
        intros t x Ht Hx Hnx. apply (proj2 (only_at_ins _ _ _ (t_off (rightmost n)))); [apply (leaves_is_leaf _ _ Hx)|].
        intros Heq. apply Hnx.
        destruct (leaf_offset_unique (forest s) t n x (rightmost n) Hn Ht Hnf0 Hx (rightmost_in_leaves n) Heq) as [-> ->].
        apply rightmost_in_leaves.
      * exfalso. rewrite <- Hoffn in E. specialize (Hlt E).
        match type of Hrep with context [redo_root_move ?a ?b0 ?c ?d] =>
          pose proof (redo_root_move_free a b0 c d) as Hrf; destruct (redo_root_move a b0 c d) as [s2 [u|e|]] end;
          try discriminate.
        inversion Hrep; subst s2. cbn [fst nextFree] in Hrf. lia.
    + destruct e; try discriminate. inversion Hrep; subst s'. cbn [forest ptRoot]. rewrite ?pre_forest, ?pre_ptRoot. auto.
  - destruct n as [off ll d cells hl hr ls rs|]; [|discriminate].
    destruct (Nat.ltb MV (length (w_val w))); [discriminate|].
    destruct (existsb _ cells); [|discriminate].
    inversion Hrep; subst s'. cbn [set_forest forest ptRoot]. rewrite ?pre_forest, ?pre_ptRoot. split; [reflexivity|].
    right. exists (w_page w), (touch_leaf (w_page w) (w_cell w) (w_lsn w) (fun x => mkLC (lc_key x) (lc_deleted x) (w_val w))).
    split; [apply grows_touch; reflexivity|]. apply touch_forest_mapF. exact Hn.
  - destruct n as [off ll d cells hl hr ls rs|]; [|discriminate].
    destruct (existsb _ cells); [|discriminate].
    inversion Hrep; subst s'. cbn [set_forest forest ptRoot]. rewrite ?pre_forest, ?pre_ptRoot. split; [reflexivity|].
    right. exists (w_page w), (touch_leaf (w_page w) (w_cell w) (w_lsn w) (fun x => mkLC (lc_key x) true (lc_val x))).
    split; [apply grows_touch; reflexivity|]. apply touch_forest_mapF. exact Hn.
Qed.

(* replay never lowers the allocation frontier *)
Lemma replay_one_free_mono s w s' :
  NoDup (all_offsets (forest s)) -> replay_one s w = RCont s' -> nextFree s <= nextFree s'.
Proof.
  intros Hn Hrep. unfold replay_one in Hrep. fold (pre s w) in Hrep. rewrite pre_forest in Hrep.
  destruct (find_node (w_page w) (forest s)) as [[b n]|] eqn:Ef; [|discriminate].
  pose proof (find_node_sound _ _ _ _ Ef) as Hpi.
  destruct (N.leb (w_lsn w) (t_lsn n)).
  { inversion Hrep; subst s'. rewrite ?pre_nextFree. lia. }
  destruct (w_op w) eqn:Eop.
  - destruct b; [|discriminate]. cbn [negb] in Hrep.
    destruct (page_in_root (forest s) (w_page w) n Hn Hpi) as (Hnf0 & Hoffn & Hfr & Hndn).
    rewrite pre_nextFree in Hrep.
    destruct (tree_insert ML MI PS MV n (w_cell w) (w_lsn w) (w_val w) (nextFree s)) as [[t' nf]|e] eqn:Eti.
    + destruct (tree_insert_free_le _ _ _ _ _ _ _ Hndn Eti) as [Hle _].
      destruct (N.eqb (t_off t') (w_page w)); [inversion Hrep; subst s'; exact Hle|].
      match type of Hrep with context [redo_root_move ?a ?b0 ?c ?d] =>
        pose proof (redo_root_move_free a b0 c d) as Hrf; destruct (redo_root_move a b0 c d) as [s2 [u|e|]] end;
        try discriminate.
      inversion Hrep; subst s2. cbn [fst nextFree] in Hrf. lia.
    + destruct e; try discriminate. inversion Hrep; subst s'. cbn [nextFree]. rewrite ?pre_nextFree. lia.
  - destruct n as [off ll d cells hl hr ls rs|]; [|discriminate].
    destruct (Nat.ltb MV (length (w_val w))); [discriminate|].
    destruct (existsb _ cells); [|discriminate].
    inversion Hrep; subst s'. cbn [set_forest nextFree]. rewrite ?pre_nextFree. lia.
  - destruct n as [off ll d cells hl hr ls rs|]; [|discriminate].
    destruct (existsb _ cells); [|discriminate].
    inversion Hrep; subst s'. cbn [set_forest nextFree]. rewrite ?pre_nextFree. lia.
Qed.

(* ====================== leaves only move forward ====================== *)
(* the record's LSN is above every page LSN of the store (the LSN discipline for new records) *)
Definition fresh (s : store) (w : walentry) : Prop :=
  Forall (fun t => Forall (fun n => t_lsn n < w_lsn w) (nodes t)) (forest s).

Fixpoint fresh_run (s : store) (ws : list walentry) : Prop :=
  match ws with
  | [] => True
  | w :: rest => fresh s w /\ match replay_one s w with RCont s1 => fresh_run s1 rest | _ => True end
  end.

Definition leq_leaves (f f' : list tree) : Prop :=
  forall t l, In t f -> In l (leaves t) ->
  exists t' l', In t' f' /\ In l' (leaves t') /\ t_off l' = t_off l /\ t_lsn l <= t_lsn l' /\
                forall k, has_key k l = true -> has_key k l' = true.

Lemma leq_leaves_refl f : leq_leaves f f.
Proof. intros t l Ht Hl. exists t, l. repeat split; auto. lia. Qed.

Lemma leq_leaves_trans f g h : leq_leaves f g -> leq_leaves g h -> leq_leaves f h.
Proof.
  intros A B t l Ht Hl. destruct (A t l Ht Hl) as (t1 & l1 & H1 & H2 & H3 & H4 & H5).
  destruct (B t1 l1 H1 H2) as (t2 & l2 & G1 & G2 & G3 & G4 & G5).
  exists t2, l2. repeat split; auto; [congruence | lia].
Qed.

Lemma leq_leaves_step s w s' :
  NoDup (all_offsets (forest s)) -> replay_one s w = RCont s' -> nextFree s' = nextFree s -> fresh s w ->
  leq_leaves (forest s) (forest s').
Proof.
  intros Hn Hrep Hip Hfr. destruct (replay_one_inplace_shape s w s' Hn Hrep Hip) as [_ [E|(o & tg & [[Hlp Hid] Hg] & E)]].
  - rewrite E. apply leq_leaves_refl.
  - rewrite E. intros t l Ht Hl. pose proof (leaves_is_leaf _ _ Hl) as Hleaf.
    exists (repl tg t), (tg l). split; [apply In_mapF; exact Ht|].
    split; [rewrite (repl_leaves tg t Hlp); apply in_map; exact Hl|].
    split; [apply Hlp; exact Hleaf|].
    destruct (N.eq_dec (t_off l) o) as [Eo|Eo].
    + destruct (Hg l Hleaf Eo) as [A B]. split; [|exact B]. rewrite A.
      unfold fresh in Hfr. rewrite Forall_forall in Hfr. specialize (Hfr t Ht). rewrite Forall_forall in Hfr.
      apply N.lt_le_incl. apply Hfr. apply leaves_sub_nodes. exact Hl.
    + rewrite (Hid l Hleaf Eo). split; [lia | auto].
Qed.

Lemma replay_one_nodup s w s' :
  NoDup (all_offsets (forest s)) -> replay_one s w = RCont s' -> nextFree s' = nextFree s ->
  NoDup (all_offsets (forest s')).
Proof.
  intros Hn Hrep Hip. destruct (replay_one_inplace_shape s w s' Hn Hrep Hip) as [_ [E|(o & tg & [[Hlp _] _] & E)]]; rewrite E.
  - exact Hn.
  - rewrite mapF_offsets by exact Hlp. exact Hn.
Qed.

Lemma replay_one_free_le s0 w0 s2 : replay_one s0 w0 = RCont s2 -> nextFree s0 <= nextFree s2.
Proof.
  intros E2. unfold replay_one in E2. fold (pre s0 w0) in E2.
  destruct (find_node (w_page w0) (forest (pre s0 w0))) as [[b n]|]; [|discriminate].
  destruct (N.leb (w_lsn w0) (t_lsn n)); [inversion E2; subst; rewrite pre_nextFree; lia|].
  destruct (w_op w0).
  + destruct (negb b); [discriminate|]. rewrite pre_nextFree in E2.
    destruct (tree_insert ML MI PS MV n (w_cell w0) (w_lsn w0) (w_val w0) (nextFree s0)) as [[t' nf]|e] eqn:Eti.
    * assert (Hle : nextFree s0 <= nf).
      { unfold tree_insert in Eti. destruct (key_exists _ n); [discriminate|].
        destruct (negb _); [discriminate|]. destruct (Nat.ltb _ _); [discriminate|].
        destruct (ins_right_offsets ML MI PS n (w_cell w0) (w_lsn w0) (w_val w0) (nextFree s0)) as (m & _ & Hf).
        destruct (ins_right ML MI PS n _ _ _ _) as [[t1|a s b0] f]; cbn [snd] in Hf; inversion Eti; subst; pose proof PS_pos; lia. }
      destruct (N.eqb (t_off t') (w_page w0)); [inversion E2; subst; exact Hle|].
      match type of E2 with context [redo_root_move ?a ?b0 ?c ?d] =>
        pose proof (redo_root_move_free a b0 c d) as Hrf; destruct (redo_root_move a b0 c d) as [s3 [u|e|]] end;
        try discriminate.
      inversion E2; subst s3. cbn [fst nextFree] in Hrf. lia.
    * destruct e; try discriminate. inversion E2; subst. cbn [nextFree]. rewrite ?pre_nextFree. lia.
  + destruct n; [|discriminate]. destruct (Nat.ltb _ _); [discriminate|]. destruct (existsb _ _); [|discriminate].
    inversion E2; subst. cbn [set_forest nextFree]. rewrite ?pre_nextFree. lia.
  + destruct n; [|discriminate]. destruct (existsb _ _); [|discriminate].
    inversion E2; subst. cbn [set_forest nextFree]. rewrite ?pre_nextFree. lia.
Qed.

Lemma replay_free_le ws : forall s r, replay s ws = RCont r -> nextFree s <= nextFree r.
Proof.
  induction ws as [|w rest IH]; intros s r H.
  - cbn in H. inversion H; subst. lia.
  - cbn [replay] in H. destruct (replay_one s w) as [s1| | |] eqn:E; try discriminate.
    pose proof (replay_one_free_le _ _ _ E). specialize (IH _ _ H). lia.
Qed.

(* an in-place replay: offsets stay distinct, the catalog root stays, leaves only move forward *)
Lemma replay_inplace ws : forall s r,
  NoDup (all_offsets (forest s)) -> replay s ws = RCont r -> nextFree r = nextFree s ->
  NoDup (all_offsets (forest r)) /\ ptRoot r = ptRoot s /\
  (fresh_run s ws -> leq_leaves (forest s) (forest r)).
Proof.
  induction ws as [|w rest IH]; intros s r Hn Hrep Hip.
  - cbn in Hrep. inversion Hrep; subst. split; [exact Hn|]. split; [reflexivity|]. intros _. apply leq_leaves_refl.
  - cbn [replay] in Hrep. destruct (replay_one s w) as [s1| | |] eqn:E1; try discriminate.
    pose proof (replay_one_free_le s w s1 E1) as Hm1. pose proof (replay_free_le rest s1 r Hrep) as Hm2.
    assert (Hip1 : nextFree s1 = nextFree s) by lia.
    pose proof (replay_one_nodup s w s1 Hn E1 Hip1) as Hn1.
    destruct (IH s1 r Hn1 Hrep (eq_trans Hip (eq_sym Hip1))) as (A & B & C).
    destruct (replay_one_inplace_shape s w s1 Hn E1 Hip1) as [Hpt _].
    split; [exact A|]. split; [congruence|]. intros Hfr. cbn [fresh_run] in Hfr. rewrite E1 in Hfr. destruct Hfr as [F1 F2].
    eapply leq_leaves_trans; [eapply leq_leaves_step; eauto | apply C; exact F2].
Qed.

(* ---------- the final version of a leaf, looked up by offset ---------- *)
Lemma fin_of_leaf R t l : NoDup (all_offsets R) -> In t R -> In l (leaves t) -> fin_of R (t_off l) = erase false l.
Proof.
  intros Hn Ht Hl. unfold fin_of.
  destruct (find (fun x => N.eqb (t_off x) (t_off l)) (flat_map leaves R)) as [x|] eqn:E.
  - apply find_some in E as [Hin Ho]. apply N.eqb_eq in Ho. apply in_flat_map in Hin as (t2 & Ht2 & Hx).
    destruct (leaf_offset_unique R t2 t x l Hn Ht2 Ht Hx Hl Ho) as [_ ->]. reflexivity.
  - exfalso. assert (Hin : In l (flat_map leaves R)) by (apply in_flat_map; eauto).
    pose proof (find_none _ _ E l Hin) as Hf. cbn in Hf. rewrite N.eqb_refl in Hf. discriminate.
Qed.

Lemma has_key_erase k l : has_key k (erase false l) = has_key k l.
Proof. unfold has_key. rewrite erase_leaf_cells. reflexivity. Qed.

Lemma mono_of_leq W f R : NoDup (all_offsets R) -> leq_leaves f R -> Mono W (fin_of R) f.
Proof.
  intros Hn Hle t l Ht Hl _. destruct (Hle t l Ht Hl) as (t' & l' & A & B & C & D & E).
  rewrite <- C, (fin_of_leaf R t' l' Hn A B), erase_lsn. split; [exact D|].
  intros k Hk. rewrite has_key_erase. apply E. exact Hk.
Qed.

(* ====================== replaying on the mixed store ====================== *)
Theorem torn_replay W ws : forall s g r,
  NoDup (all_offsets (forest s)) -> replay s ws = RCont r -> nextFree r = nextFree s -> fresh_run s ws ->
  forest g = mapF (mixfun W (fin_of (forest r))) (forest s) -> nextFree g = nextFree s ->
  exists g', replay g ws = RCont g' /\ forest g' = mapF (mixfun W (fin_of (forest r))) (forest r) /\
             nextFree g' = nextFree r.
Proof.
  induction ws as [|w rest IH]; intros s g r Hn Hrep Hip Hfr Hg Hnf.
  - cbn in Hrep. inversion Hrep; subst. exists g. auto.
  - cbn [replay] in Hrep. destruct (replay_one s w) as [s1| | |] eqn:E1; try discriminate.
    pose proof (replay_one_free_le s w s1 E1) as Hm1. pose proof (replay_free_le rest s1 r Hrep) as Hm2.
    assert (Hip1 : nextFree s1 = nextFree s) by lia.
    pose proof (replay_one_nodup s w s1 Hn E1 Hip1) as Hn1.
    cbn [fresh_run] in Hfr. rewrite E1 in Hfr. destruct Hfr as [F1 F2].
    destruct (replay_inplace rest s1 r Hn1 Hrep (eq_trans Hip (eq_sym Hip1))) as (Hnr & _ & Hle).
    pose proof (mono_of_leq W (forest s1) (forest r) Hnr (Hle F2)) as Hmono.
    destruct (sim_step W (fin_of (forest r)) s g w s1 (fin_of_ok _) Hn Hg Hnf E1 Hip1 Hmono) as (g1 & Hr1 & Hg1 & Hnf1).
    destruct (IH s1 g1 r Hn1 Hrep (eq_trans Hip (eq_sym Hip1)) F2 Hg1 Hnf1) as (g' & Hr' & Hg' & Hnf').
    exists g'. cbn [replay]. rewrite Hr1. auto.
Qed.

(* ====================== the model's torn data file is such a mix ====================== *)
Fixpoint merge_kids (W : list N) (a b : list (N * tree)) : option (list (N * tree)) :=
  match a, b with
  | [], [] => Some []
  | (sa, ca) :: ra, (sb, cb) :: rb =>
      if N.eqb sa sb then
        match merge_tree W ca cb, merge_kids W ra rb with
        | Some c, Some r => Some ((sa, c) :: r)
        | _, _ => None
        end
      else None
  | _, _ => None
  end.

Lemma merge_tree_node W od ld dd kd rd om lm dm km rm :
  merge_tree W (TNode od ld dd kd rd) (TNode om lm dm km rm) =
  if N.eqb od om && N.eqb ld lm && negb dm then
    match merge_kids W kd km, merge_tree W rd rm with
    | Some k, Some r => Some (TNode od ld false k r)
    | _, _ => None
    end
  else None.
Proof.
  cbn [merge_tree]. destruct (N.eqb od om && N.eqb ld lm && negb dm); [|reflexivity].
  assert (E : (fix go (a b : list (N * tree)) : option (list (N * tree)) :=
                 match a, b with
                 | [], [] => Some []
                 | (sa, ca) :: ra, (sb, cb) :: rb =>
                     if N.eqb sa sb then
                       match merge_tree W ca cb, go ra rb with
                       | Some c, Some r => Some ((sa, c) :: r)
                       | _, _ => None
                       end
                     else None
                 | _, _ => None
                 end) kd km = merge_kids W kd km).
  { revert km. induction kd as [|[sa ca] ra IH]; intros [|[sb cb] rb]; cbn [merge_kids]; try reflexivity.
    rewrite IH. reflexivity. }
  rewrite E. reflexivity.
Qed.

Lemma merge_tree_repl W R d : forall m g,
  merge_tree W d m = Some g -> erase false d = d ->
  (forall l, In l (leaves m) -> fin_of R (t_off l) = erase false l) ->
  g = repl (mixfun W (fin_of R)) d.
Proof.
  induction d as [od ld dd cd hld hrd lsd rsd | od ld dd kd rd IHk IHr] using tree_ind2; intros m g Hm Hc Hfin.
  - destruct m as [om lm dm cm hlm hrm lsm rsm|]; [|discriminate]. cbn [merge_tree] in Hm.
    destruct (N.eqb_spec od om) as [E|]; [|discriminate]. inversion Hm; subst g om. clear Hm.
    cbn [repl]. unfold mixfun, inW. cbn [t_off]. destruct (existsb (N.eqb od) W); [|reflexivity].
    symmetry. exact (Hfin (TLeaf od lm dm cm hlm hrm lsm rsm) (or_introl eq_refl)).
  - destruct m as [|om lm dm km rm]; [discriminate|]. rewrite merge_tree_node in Hm.
    destruct (N.eqb od om && N.eqb ld lm && negb dm); [|discriminate].
    destruct (merge_kids W kd km) as [k|] eqn:Ek; [|discriminate].
    destruct (merge_tree W rd rm) as [r|] eqn:Er; [|discriminate]. inversion Hm; subst g. clear Hm.
    rewrite erase_node in Hc. injection Hc as Hd Hkc Hrc. subst dd.
    rewrite leaves_node in Hfin. rewrite repl_node. f_equal.
    + clear Er Hrc IHr. revert km k Ek Hfin.
      induction kd as [|[sa ca] ra IH]; intros [|[sb cb] rb] k Ek Hfin; cbn [merge_kids] in Ek; try discriminate.
      * inversion Ek. reflexivity.
      * destruct (N.eqb sa sb); [|discriminate].
        destruct (merge_tree W ca cb) as [c|] eqn:Ec; [|discriminate].
        destruct (merge_kids W ra rb) as [r0|] eqn:Er0; [|discriminate]. inversion Ek; subst k. clear Ek.
        inversion IHk as [|? ? Hca Hra]; subst. cbn [snd] in Hca.
        cbn [ekids map fst snd] in Hkc. injection Hkc as Hcc Hrc'.
        cbn [rkids map fst snd]. f_equal.
        -- f_equal. apply (Hca cb c Ec); [exact Hcc|].
           intros l Hl. apply Hfin. cbn [kids_leaves flat_map snd]. rewrite <- app_assoc. apply in_or_app. left. exact Hl.
        -- apply (IH Hra Hrc' rb r0 Er0).
           intros l Hl. apply Hfin. cbn [kids_leaves flat_map snd]. rewrite <- app_assoc. apply in_or_app. right. exact Hl.
    + apply (IHr rm r Er); [exact Hrc|]. intros l Hl. apply Hfin. apply in_or_app. right. exact Hl.
Qed.

Lemma merge_forest_mapF W R : forall df mf gf,
  merge_forest W df mf = Some gf -> (forall t, In t df -> erase false t = t) ->
  (forall t l, In t mf -> In l (leaves t) -> fin_of R (t_off l) = erase false l) ->
  gf = mapF (mixfun W (fin_of R)) df.
Proof.
  induction df as [|a ra IH]; intros [|b rb] gf Hm Hc Hfin; cbn [merge_forest] in Hm; try discriminate.
  - inversion Hm. reflexivity.
  - destruct (merge_tree W a b) as [t|] eqn:Et; [|discriminate].
    destruct (merge_forest W ra rb) as [r|] eqn:Er; [|discriminate]. inversion Hm; subst gf. cbn [mapF map]. f_equal.
    + apply (merge_tree_repl W R a b t Et); [apply Hc; left; reflexivity|].
      intros l Hl. apply (Hfin b l); [left; reflexivity | exact Hl].
    + apply (IH rb r Er); [intros t0 Ht0; apply Hc; right; exact Ht0|].
      intros t0 l Ht0 Hl. apply (Hfin t0 l); [right; exact Ht0 | exact Hl].
Qed.

(* the final versions are the same whether read from the cache or from the replayed store *)
Lemma leaves_fclean f : flat_map leaves (fclean f) = map (erase false) (flat_map leaves f).
Proof.
  induction f as [|t f IH]; [reflexivity|]. cbn [fclean map flat_map]. rewrite map_app, erase_leaves. f_equal. exact IH.
Qed.

Lemma fin_of_fclean f g o : fclean f = fclean g -> fin_of f o = fin_of g o.
Proof.
  intros H.
  assert (G : forall h, fin_of h o = match find (fun l => N.eqb (t_off l) o) (flat_map leaves (fclean h)) with
                                    | Some l => l | None => default_leaf o end).
  { intros h. unfold fin_of. rewrite leaves_fclean, find_map_off. destruct (find _ _); reflexivity. }
  rewrite (G f), (G g), H. reflexivity.
Qed.

Lemma erase_repl_same el sg t :
  lp sg -> (forall l, In l (leaves t) -> erase el (sg l) = erase el l) -> erase el (repl sg t) = erase el t.
Proof.
  intros Hlp. induction t as [off l d cells hl hr ls rs | off l d kids rgt IHk IHr] using tree_ind2; intros H.
  - cbn [repl]. apply H. left. reflexivity.
  - rewrite repl_node, !erase_node. rewrite leaves_node in H. f_equal.
    + unfold ekids, rkids. rewrite map_kids_map.
      apply (map_kids_ext (fun t => erase el (repl sg t)) (erase el)).
      rewrite Forall_forall in *. intros sc Hsc. apply IHk; [exact Hsc|].
      intros x Hx. apply H. apply in_or_app. left. unfold kids_leaves. apply in_flat_map. eauto.
    + apply IHr. intros x Hx. apply H. apply in_or_app. right. exact Hx.
Qed.

Lemma fclean_mix_final W R : NoDup (all_offsets R) -> fclean (mapF (mixfun W (fin_of R)) R) = fclean R.
Proof.
  intros Hn. unfold fclean, mapF. rewrite map_map. apply map_ext_in. intros t Ht.
  apply erase_repl_same; [apply lp_mix; apply fin_of_ok|].
  intros l Hl. unfold mixfun. destruct (inW W (t_off l)); [|reflexivity].
  rewrite (fin_of_leaf R t l Hn Ht Hl). apply erase_idem.
Qed.

(* replay never touches the catalog root field *)
Lemma replay_one_ptRoot s w s' : replay_one s w = RCont s' -> ptRoot s' = ptRoot s.
Proof.
  unfold replay_one. fold (pre s w).
  destruct (find_node (w_page w) (forest (pre s w))) as [[b n]|]; [|discriminate].
  destruct (N.leb (w_lsn w) (t_lsn n)); [intros H; inversion H; subst; apply pre_ptRoot|].
  destruct (w_op w).
  - destruct (negb b); [discriminate|].
    destruct (tree_insert ML MI PS MV n (w_cell w) (w_lsn w) (w_val w) _) as [[t' nf]|e].
    + destruct (N.eqb (t_off t') (w_page w)); [intros H; inversion H; subst; cbn [ptRoot]; apply pre_ptRoot|].
      match goal with |- context [redo_root_move ?a ?b0 ?c ?d] =>
        assert (Hp : ptRoot (fst (redo_root_move a b0 c d)) = ptRoot a)
          by (unfold redo_root_move; repeat (break_match; cbn [fst]; try reflexivity));
        destruct (redo_root_move a b0 c d) as [s2 [u|e|]] end; try discriminate.
      intros H; inversion H; subst. cbn [fst ptRoot] in Hp. rewrite Hp. apply pre_ptRoot.
    + destruct e; try discriminate. intros H; inversion H; subst. cbn [ptRoot]. apply pre_ptRoot.
  - destruct n; [|discriminate]. destruct (Nat.ltb _ _); [discriminate|]. destruct (existsb _ _); [|discriminate].
    intros H; inversion H; subst. cbn [set_forest ptRoot]. apply pre_ptRoot.
  - destruct n; [|discriminate]. destruct (existsb _ _); [|discriminate].
    intros H; inversion H; subst. cbn [set_forest ptRoot]. apply pre_ptRoot.
Qed.

Lemma replay_ptRoot ws : forall s r, replay s ws = RCont r -> ptRoot r = ptRoot s.
Proof.
  induction ws as [|w rest IH]; intros s r H.
  - cbn in H. inversion H; reflexivity.
  - cbn [replay] in H. destruct (replay_one s w) as [s1| | |] eqn:E; try discriminate.
    rewrite (IH _ _ H). apply (replay_one_ptRoot _ _ _ E).
Qed.

(* ---------- records older than the data file are inert on the mixed store too ---------- *)
Lemma replay_one_inert_mix W fin s d w :
  fin_ok fin -> Good s -> Mono W fin (forest s) -> rec_inert s w ->
  forest d = mapF (mixfun W fin) (forest s) -> nextLSN d = nextLSN s -> lastKey d = lastKey s ->
  replay_one d w = RCont d.
Proof.
  intros Hfin [[Hw Hn Hk] _] Hmono (Hlt & Hkb & b & n & Hpi & Hd) Hf Hnl Hlk.
  pose proof (lp_mix W fin Hfin) as Hlp. set (sg := mixfun W fin) in *.
  unfold replay_one. fold (pre d w). rewrite (pre_id d w) by (rewrite ?Hnl, ?Hlk; assumption).
  rewrite Hf, (find_node_complete (mapF sg (forest s)) (w_page w) b (repl sg n)).
  2:{ rewrite mapF_offsets by exact Hlp. exact Hn. }
  2:{ apply page_in_mapF; assumption. }
  destruct Hpi as (t & Ht & Hin & Hp & Hb).
  pose proof (repl_lsn_ge W fin (forest s) t n Hmono Ht Hin) as Hge. fold sg in Hge.
  destruct (N.leb_spec (w_lsn w) (t_lsn (repl sg n))) as [_|Hgt]; [reflexivity|].
  destruct Hd as [Hd|(Hop & -> & Hkey)]; [lia|]. rewrite Hop. cbn [negb].
  rewrite Forall_forall in Hw, Hk. pose proof (Hw t Ht) as Wt.
  assert (n = t).
  { apply root_node_unique; [apply Wt | exact Hin |]. symmetry in Hb. apply N.eqb_eq in Hb. congruence. }
  subst n. destruct Wt as [[h Hs] _ _ _].
  pose proof (key_exists_stored t h 0 None _ Hs Hkey) as Hke.
  rewrite (tree_insert_key_exists _ _ _ _ _ (key_exists_mix W fin (forest s) t _ Hfin Hmono Ht Hke)).
  f_equal. rewrite <- Hf. apply keyup_id. rewrite Hlk.
  specialize (Hk t Ht). rewrite Forall_forall in Hk. apply Hk. unfold tree_keys. apply in_or_app. right. exact Hkey.
Qed.

Lemma replay_inert_mix W fin s d log :
  fin_ok fin -> Good s -> Mono W fin (forest s) -> LogInv s log ->
  forest d = mapF (mixfun W fin) (forest s) -> nextLSN d = nextLSN s -> lastKey d = lastKey s ->
  replay d log = RCont d.
Proof.
  intros Hfin G Hm HL Hf Hnl Hlk. induction HL as [|w r Hw _ IH]; [reflexivity|].
  cbn [replay]. rewrite (replay_one_inert_mix W fin s d w Hfin G Hm Hw Hf Hnl Hlk). exact IH.
Qed.

(* ====================== C04, in-place case ====================== *)
Theorem torn_recover W dsk m old new r fd :
  Good dsk -> fclean (forest dsk) = forest dsk -> NoDup (all_offsets (forest m)) ->
  LogInv dsk old -> replay dsk new = RCont r -> seq r m -> fresh_run dsk new ->
  nextFree m = nextFree dsk -> ptRoot m = ptRoot dsk ->
  merge_forest W (forest dsk) (forest m) = Some fd ->
  exists g', replay (set_forest dsk fd) (old ++ new) = RCont g' /\ seq g' m.
Proof.
  intros Gd Hclean Hnm HLold Hrep [Sf Sp Sn] Hfresh Hnf Hpt Hmerge.
  pose proof Gd as [[_ Hnd _] _].
  assert (Hip : nextFree r = nextFree dsk) by congruence.
  destruct (replay_inplace new dsk r Hnd Hrep Hip) as (Hnr & _ & Hle). specialize (Hle Hfresh).
  set (fin := fin_of (forest r)).
  assert (Hfd : fd = mapF (mixfun W fin) (forest dsk)).
  { rewrite (merge_forest_mapF W (forest m) _ _ _ Hmerge).
    - apply mapF_ext. intros l _. unfold mixfun, fin. destruct (inW W (t_off l)); [|reflexivity].
      apply fin_of_fclean. symmetry. exact Sf.
    - intros t Ht. unfold fclean in Hclean.
      rewrite <- Hclean in Ht. apply in_map_iff in Ht as (t0 & <- & _). apply erase_idem.
    - intros t l Ht Hl. apply (fin_of_leaf (forest m) t l); assumption. }
  pose proof (mono_of_leq W (forest dsk) (forest r) Hnr Hle) as Hmono. fold fin in Hmono.
  set (d := set_forest dsk fd).
  assert (Hold : replay d old = RCont d).
  { apply (replay_inert_mix W fin dsk d old (fin_of_ok _) Gd Hmono HLold); [exact Hfd | reflexivity | reflexivity]. }
  destruct (torn_replay W new dsk d r Hnd Hrep Hip Hfresh Hfd eq_refl) as (g' & Hr' & Hg' & Hnf').
  exists g'. split; [rewrite (replay_app d old new d Hold); exact Hr'|].
  constructor.
  - rewrite Hg'. unfold fin. rewrite (fclean_mix_final W (forest r) Hnr). exact Sf.
  - rewrite (replay_ptRoot _ _ _ Hr'). cbn [d set_forest ptRoot]. congruence.
  - congruence.
Qed.
