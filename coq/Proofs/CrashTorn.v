(* Crash theory, part 8 (C04): a flush cut short by a crash, in-place case. The torn data file is
   the old file with the leaves in W replaced by their cache versions. Replaying the log on it:
   records whose leaf is in W are skipped (page LSN) or tolerated (key exists); the others are
   redone on the old leaf exactly as in the replay from the old file, in LSN order. *)
From Coq Require Import Arith Lia Bool List NArith Permutation.
From Mkdb Require Import Model.Engine Proofs.TreeProofs Proofs.StoreInv Proofs.CrashBase Proofs.CrashPages
  Proofs.CrashRedo Proofs.CrashLog Proofs.CrashMain Proofs.CrashPrefix Proofs.CrashHist Gen.Params.
Import ListNotations.
Local Open Scope N_scope.

(* ====================== replacing leaves ====================== *)
Fixpoint repl (sg : tree -> tree) (t : tree) : tree :=
  match t with
  | TLeaf _ _ _ _ _ _ _ _ => sg t
  | TNode off l d kids rgt =>
      TNode off l d
        ((fix go (ks : list (N * tree)) : list (N * tree) :=
            match ks with [] => [] | (sp, c) :: r => (sp, repl sg c) :: go r end) kids)
        (repl sg rgt)
  end.

Definition rkids (sg : tree -> tree) (kids : list (N * tree)) : list (N * tree) :=
  map (fun sc => (fst sc, repl sg (snd sc))) kids.

Lemma repl_node sg off l d kids rgt :
  repl sg (TNode off l d kids rgt) = TNode off l d (rkids sg kids) (repl sg rgt).
Proof.
  cbn [repl]. f_equal. unfold rkids. induction kids as [|[s c] r IH]; [reflexivity|].
  cbn [map fst snd]. f_equal. exact IH.
Qed.

(* sg maps leaves to leaves with the same offset *)
Definition lp (sg : tree -> tree) : Prop :=
  forall l, is_leaf l -> is_leaf (sg l) /\ t_off (sg l) = t_off l.

Lemma repl_leaf sg l : is_leaf l -> repl sg l = sg l.
Proof. destruct l; [reflexivity | contradiction]. Qed.

Lemma repl_off sg t : lp sg -> t_off (repl sg t) = t_off t.
Proof. intros H. destruct t; [apply H; exact I | rewrite repl_node; reflexivity]. Qed.

Lemma leaves_of_leaf l : is_leaf l -> leaves l = [l].
Proof. destruct l; [reflexivity | contradiction]. Qed.
Lemma nodes_of_leaf l : is_leaf l -> nodes l = [l].
Proof. destruct l; [reflexivity | contradiction]. Qed.

Lemma repl_leaves sg t : lp sg -> leaves (repl sg t) = map sg (leaves t).
Proof.
  intros H. induction t as [off l d cells hl hr ls rs | off l d kids rgt IHk IHr] using tree_ind2.
  - cbn [repl leaves map]. apply leaves_of_leaf. apply H. exact I.
  - rewrite repl_node, !leaves_node, map_app, IHr. f_equal.
    unfold kids_leaves, rkids. induction kids as [|[s c] r IH]; [reflexivity|].
    inversion IHk as [|? ? Hc Hr]; subst. cbn [snd] in Hc.
    cbn [map flat_map fst snd]. rewrite map_app, Hc, (IH Hr). reflexivity.
Qed.

Lemma repl_nodes sg t : lp sg -> nodes (repl sg t) = map (repl sg) (nodes t).
Proof.
  intros H. induction t as [off l d cells hl hr ls rs | off l d kids rgt IHk IHr] using tree_ind2.
  - cbn [repl nodes map]. apply nodes_of_leaf. apply H. exact I.
  - rewrite (nodes_node off l d kids rgt). cbn [map]. rewrite repl_node, nodes_node. f_equal.
    rewrite map_app, IHr. f_equal.
    unfold kids_nodes, rkids. induction kids as [|[s c] r IH]; [reflexivity|].
    inversion IHk as [|? ? Hc Hr]; subst. cbn [snd] in Hc.
    cbn [map flat_map fst snd]. rewrite map_app, Hc, (IH Hr). reflexivity.
Qed.

Lemma repl_offsets sg t : lp sg -> offsets_of (repl sg t) = offsets_of t.
Proof.
  intros H. unfold offsets_of. rewrite (repl_nodes sg t H), map_map. apply map_ext.
  intros n. apply repl_off. exact H.
Qed.

Lemma repl_ext sg tg t : (forall x, In x (leaves t) -> sg x = tg x) -> repl sg t = repl tg t.
Proof.
  induction t as [off l0 d cells hl hr ls rs | off l0 d kids rgt IHk IHr] using tree_ind2; intros H.
  - cbn [repl]. apply H. left. reflexivity.
  - rewrite !repl_node. rewrite leaves_node in H. f_equal.
    + unfold rkids. apply (map_kids_ext (repl sg) (repl tg)).
      rewrite Forall_forall in *. intros sc Hsc. apply IHk; [exact Hsc|].
      intros l Hl. apply H. apply in_or_app. left. unfold kids_leaves. apply in_flat_map. eauto.
    + apply IHr. intros l Hl. apply H. apply in_or_app. right. exact Hl.
Qed.

Lemma repl_id sg t : (forall x, In x (leaves t) -> sg x = x) -> repl sg t = t.
Proof.
  induction t as [off l0 d cells hl hr ls rs | off l0 d kids rgt IHk IHr] using tree_ind2; intros H.
  - cbn [repl]. apply H. left. reflexivity.
  - rewrite repl_node. rewrite leaves_node in H. f_equal.
    + unfold rkids. rewrite <- (map_id kids) at 2. apply map_ext_in. intros [s c] Hsc. cbn [fst snd]. f_equal.
      rewrite Forall_forall in IHk. apply (IHk (s, c) Hsc).
      intros l Hl. apply H. apply in_or_app. left. unfold kids_leaves. apply in_flat_map. exists (s, c). auto.
    + apply IHr. intros l Hl. apply H. apply in_or_app. right. exact Hl.
Qed.

Lemma repl_comp sg tg t : lp tg -> repl sg (repl tg t) = repl (fun l => sg (tg l)) t.
Proof.
  intros H. induction t as [off l d cells hl hr ls rs | off l d kids rgt IHk IHr] using tree_ind2.
  - cbn [repl]. apply repl_leaf. apply H. exact I.
  - rewrite !repl_node, IHr. f_equal. unfold rkids. rewrite map_kids_map.
    apply (map_kids_ext (fun t => repl sg (repl tg t)) (repl (fun l => sg (tg l)))). exact IHk.
Qed.

(* ---------- descent through a tree with replaced leaves ---------- *)
Lemma child_for_rkids sg k kids rgt :
  child_for k (rkids sg kids) (repl sg rgt) = repl sg (child_for k kids rgt).
Proof.
  induction kids as [|[s c] r IH]; [reflexivity|].
  cbn [rkids map fst snd child_for]. destruct (N.ltb k s); [reflexivity | exact IH].
Qed.

Lemma sep_hit_rkids sg k kids : sep_hit k (rkids sg kids) = sep_hit k kids.
Proof.
  induction kids as [|[s c] r IH]; [reflexivity|]. cbn [rkids map fst snd sep_hit]. f_equal. exact IH.
Qed.

Lemma descend_is_leaf k t : is_leaf (descend k t).
Proof. apply (leaves_is_leaf t). apply descend_in_leaves. Qed.

Lemma descend_leaf k l : is_leaf l -> descend k l = l.
Proof. destruct l; [reflexivity | contradiction]. Qed.

Lemma repl_descend sg t : lp sg -> forall k, descend k (repl sg t) = sg (descend k t).
Proof.
  intros H. induction t as [off l d cells hl hr ls rs | off l d kids rgt IHk IHr] using tree_ind2; intros k.
  - cbn [repl descend]. apply descend_leaf. apply H. exact I.
  - rewrite repl_node, !descend_node, child_for_rkids.
    apply (Forall_kids_child (fun c => descend k (repl sg c) = sg (descend k c))); [|apply IHr].
    eapply Forall_impl; [|exact IHk]. cbn. intros sc Hsc. apply Hsc.
Qed.

Definition has_key (k : N) (l : tree) : bool := existsb (fun c => N.eqb (lc_key c) k) (leaf_cells l).

Lemma key_exists_of_leaf k l : is_leaf l -> key_exists k l = has_key k l.
Proof. destruct l; [reflexivity | contradiction]. Qed.

(* key_exists = a separator on the path equals k, or the leaf reached holds k *)
Lemma key_exists_repl sg t : lp sg -> forall k,
  has_key k (sg (descend k t)) = has_key k (descend k t) -> key_exists k (repl sg t) = key_exists k t.
Proof.
  intros H. induction t as [off l d cells hl hr ls rs | off l d kids rgt IHk IHr] using tree_ind2; intros k Hk.
  - cbn [repl descend] in *. rewrite key_exists_of_leaf by (apply H; exact I). exact Hk.
  - rewrite repl_node, !key_exists_node, sep_hit_rkids, child_for_rkids. f_equal.
    rewrite descend_node in Hk. revert Hk.
    apply (Forall_kids_child (fun c => has_key k (sg (descend k c)) = has_key k (descend k c) ->
                                       key_exists k (repl sg c) = key_exists k c)); [|apply IHr].
    eapply Forall_impl; [|exact IHk]. cbn. intros sc Hsc. apply Hsc.
Qed.

Lemma key_exists_repl_true sg t : lp sg -> forall k,
  has_key k (sg (descend k t)) = true -> key_exists k (repl sg t) = true.
Proof.
  intros H. induction t as [off l d cells hl hr ls rs | off l d kids rgt IHk IHr] using tree_ind2; intros k Hk.
  - cbn [repl descend] in *. rewrite key_exists_of_leaf by (apply H; exact I). exact Hk.
  - rewrite repl_node, key_exists_node, sep_hit_rkids, child_for_rkids. apply orb_true_iff. right.
    rewrite descend_node in Hk. revert Hk.
    apply (Forall_kids_child (fun c => has_key k (sg (descend k c)) = true -> key_exists k (repl sg c) = true)); [|apply IHr].
    eapply Forall_impl; [|exact IHk]. cbn. intros sc Hsc. apply Hsc.
Qed.

Lemma key_exists_true_cases k t :
  key_exists k t = true -> has_key k (descend k t) = false ->
  forall sg, lp sg -> key_exists k (repl sg t) = true.
Proof.
  induction t as [off l d cells hl hr ls rs | off l d kids rgt IHk IHr] using tree_ind2; intros Hke Hno sg H.
  - cbn [descend] in Hno. cbn [key_exists] in Hke. unfold has_key in Hno. cbn [leaf_cells] in Hno. congruence.
  - rewrite repl_node, key_exists_node, sep_hit_rkids, child_for_rkids.
    rewrite key_exists_node in Hke. rewrite descend_node in Hno.
    destruct (sep_hit k kids); [reflexivity|]. cbn [orb] in *.
    revert Hke Hno.
    apply (Forall_kids_child (fun c => key_exists k c = true -> has_key k (descend k c) = false ->
                                       key_exists k (repl sg c) = true)).
    + eapply Forall_impl; [|exact IHk]. cbn. intros sc Hsc A B. apply Hsc; auto.
    + intros A B. apply IHr; auto.
Qed.

Lemma on_right_spine_leaf k l : is_leaf l -> on_right_spine k l = true.
Proof. destruct l; [reflexivity | contradiction]. Qed.

Lemma repl_on_right_spine' sg t k : lp sg -> on_right_spine k (repl sg t) = on_right_spine k t.
Proof.
  intros H. induction t as [off l d cells hl hr ls rs | off l d kids rgt IH].
  - cbn [repl]. rewrite !on_right_spine_leaf; auto; [exact I | apply H; exact I].
  - rewrite repl_node. cbn [on_right_spine]. f_equal; [|exact IH].
    unfold rkids. clear IH. induction kids as [|[s c] r IHk]; [reflexivity|]. cbn [map forallb fst snd]. rewrite IHk. reflexivity.
Qed.

Lemma rightmost_leaf l : is_leaf l -> rightmost l = l.
Proof. destruct l; [reflexivity | contradiction]. Qed.

Lemma repl_rightmost' sg t : lp sg -> rightmost (repl sg t) = sg (rightmost t).
Proof.
  intros H. induction t as [off l d cells hl hr ls rs | off l d kids rgt IH].
  - cbn [repl rightmost]. apply rightmost_leaf. apply H. exact I.
  - rewrite repl_node. cbn [rightmost]. exact IH.
Qed.

(* ====================== in-place operations are leaf replacements ====================== *)
Lemma touch_is_repl pg k lsn g t : touch_leaf pg k lsn g t = repl (touch_leaf pg k lsn g) t.
Proof.
  induction t as [off l d cells hl hr ls rs | off l d kids rgt IHk IHr] using tree_ind2; [reflexivity|].
  rewrite touch_leaf_node, repl_node, <- IHr. f_equal. unfold rkids.
  apply (map_kids_ext (touch_leaf pg k lsn g) (repl (touch_leaf pg k lsn g))). exact IHk.
Qed.

Lemma lp_touch pg k lsn g : lp (touch_leaf pg k lsn g).
Proof.
  intros l Hl. destruct l as [off a b c hl hr ls rs|]; [|contradiction].
  cbn [touch_leaf]. destruct (N.eqb off pg); split; reflexivity || exact I.
Qed.

Definition new_leaf (k lsn : N) (v : bytes) (l : tree) : tree :=
  match l with
  | TLeaf off _ _ cells hl hr ls rs => TLeaf off lsn true (insert_cell (mkLC k false v) cells) hl hr ls rs
  | _ => l
  end.

(* the leaf at offset o receives the new cell *)
Definition ins_fun (k lsn : N) (v : bytes) (o : N) : tree -> tree :=
  fun l => if N.eqb (t_off l) o then new_leaf k lsn v l else l.

Lemma lp_ins k lsn v o : lp (ins_fun k lsn v o).
Proof.
  intros l Hl. destruct l as [off a b c hl hr ls rs|]; [|contradiction].
  unfold ins_fun. cbn [t_off]. destruct (N.eqb off o); split; reflexivity || exact I.
Qed.

Lemma rightmost_in_nodes t : In (rightmost t) (nodes t).
Proof.
  induction t as [off l d cells hl hr ls rs | off l d kids rgt IH]; [left; reflexivity|].
  rewrite nodes_node. cbn [rightmost]. right. apply in_or_app. right. exact IH.
Qed.

Lemma in_kids_offsets x kids : In x (kids_offsets kids) <-> exists sc, In sc kids /\ In x (offsets_of (snd sc)).
Proof. unfold kids_offsets. apply in_flat_map. Qed.

Lemma ins_right_inplace t : forall k lsn v free,
  NoDup (offsets_of t) ->
  free <= snd (ins_right ML MI PS t k lsn v free) /\
  (snd (ins_right ML MI PS t k lsn v free) = free ->
   fst (ins_right ML MI PS t k lsn v free) = IFit (repl (ins_fun k lsn v (t_off (rightmost t))) t)) /\
  (forall a s b, fst (ins_right ML MI PS t k lsn v free) = ISplit a s b ->
                 free < snd (ins_right ML MI PS t k lsn v free)).
Proof.
  pose proof PS_pos as Hps.
  induction t as [off l d cells hl hr ls rs | off l d kids rgt IH]; intros k lsn v free Hnd.
  - cbn [ins_right rightmost t_off]. destruct (Nat.ltb _ ML); cbn [fst snd].
    + split; [lia|]. split; [|discriminate]. intros _. cbn [repl]. unfold ins_fun. cbn [t_off new_leaf].
      rewrite N.eqb_refl. reflexivity.
    + split; [lia|]. split; [lia|]. intros; lia.
  - rewrite offsets_node in Hnd. inversion Hnd as [|? ? Hoff Hnd']; subst.
    destruct (IH k lsn v free (NoDup_app_remove_l _ _ Hnd')) as (A & B & C).
    cbn [ins_right rightmost].
    destruct (ins_right ML MI PS rgt k lsn v free) as [[r'|lft sep r'] f] eqn:E; cbn [fst snd] in *.
    + split; [exact A|]. split; [|discriminate]. intros Ef. specialize (B Ef). inversion B; subst r'.
      rewrite repl_node. f_equal. f_equal. unfold rkids. rewrite <- (map_id kids) at 1.
      apply map_ext_in. intros [s c] Hsc. cbn [fst snd]. f_equal. symmetry. apply repl_id.
      intros x Hx. unfold ins_fun. destruct (N.eqb_spec (t_off x) (t_off (rightmost rgt))) as [Ex|]; [|reflexivity].
      exfalso. apply NoDup_app_inv in Hnd' as (_ & _ & Hd). apply (Hd (t_off x)).
      * apply in_kids_offsets. exists (s, c). split; [exact Hsc|]. apply node_offset_in. apply leaves_sub_nodes. exact Hx.
      * rewrite Ex. apply node_offset_in. apply rightmost_in_nodes.
    + assert (Hf : free < f) by (eapply C; reflexivity).
      destruct (Nat.ltb _ MI); cbn [fst snd].
      * split; [lia|]. split; [lia | discriminate].
      * destruct (nth_error _ _) as [[msep mchild]|]; cbn [fst snd].
        -- split; [lia|]. split; [lia|]. intros; lia.
        -- split; [lia|]. split; [lia | discriminate].
Qed.

Lemma tree_insert_inplace n k lsn v free t' :
  NoDup (offsets_of n) -> tree_insert ML MI PS MV n k lsn v free = TOk (t', free) ->
  t' = repl (ins_fun k lsn v (t_off (rightmost n))) n /\
  key_exists k n = false /\ on_right_spine k n = true /\ (MV <? length v)%nat = false.
Proof.
  intros Hnd. unfold tree_insert.
  destruct (key_exists k n); [discriminate|].
  destruct (on_right_spine k n); [|discriminate]. cbn [negb].
  destruct (Nat.ltb MV (length v)); [discriminate|].
  destruct (ins_right_inplace n k lsn v free Hnd) as (A & B & C).
  destruct (ins_right ML MI PS n k lsn v free) as [[t1|a s b] f]; cbn [fst snd] in *; intros H; inversion H; subst.
  - specialize (B eq_refl). inversion B. auto.
  - exfalso. pose proof PS_pos. specialize (C a s b eq_refl). lia.
Qed.

(* a tree insert that allocates nothing keeps the root page *)
Lemma tree_insert_inplace_off n k lsn v free t' :
  NoDup (offsets_of n) -> tree_insert ML MI PS MV n k lsn v free = TOk (t', free) -> t_off t' = t_off n.
Proof.
  intros Hnd H. destruct (tree_insert_inplace _ _ _ _ _ _ Hnd H) as (-> & _). apply repl_off. apply lp_ins.
Qed.

Lemma tree_insert_free_le n k lsn v free t' nf :
  NoDup (offsets_of n) -> tree_insert ML MI PS MV n k lsn v free = TOk (t', nf) ->
  free <= nf /\ (t_off t' <> t_off n -> free < nf).
Proof.
  intros Hnd. unfold tree_insert.
  destruct (key_exists k n); [discriminate|].
  destruct (negb (on_right_spine k n)); [discriminate|].
  destruct (Nat.ltb MV (length v)); [discriminate|].
  destruct (ins_right_inplace n k lsn v free Hnd) as (A & B & C).
  pose proof (ins_right_root n k lsn v free) as R. pose proof PS_pos.
  destruct (ins_right ML MI PS n k lsn v free) as [[t1|a s b] f]; cbn [fst snd] in *; intros H0; inversion H0; subst.
  - split; [exact A|]. intros Hne. congruence.
  - split; [lia|]. intros _. lia.
Qed.

(* ---------- forests ---------- *)
Definition mapF (sg : tree -> tree) (f : list tree) : list tree := map (repl sg) f.

Lemma mapF_offsets sg f : lp sg -> all_offsets (mapF sg f) = all_offsets f.
Proof.
  intros H. unfold all_offsets, mapF. rewrite flat_map_concat_map, map_map, <- flat_map_concat_map.
  apply flat_map_ext. intros t. apply repl_offsets. exact H.
Qed.

Lemma leaf_offset_in l t : In l (leaves t) -> In (t_off l) (offsets_of t).
Proof. intros H. apply node_offset_in. apply leaves_sub_nodes. exact H. Qed.

Lemma touch_forest_mapF pg k lsn g f :
  NoDup (all_offsets f) -> touch_forest pg k lsn g f = mapF (touch_leaf pg k lsn g) f.
Proof.
  induction f as [|t f IH]; intros Hn; [reflexivity|].
  cbn [all_offsets flat_map] in Hn. fold (all_offsets f) in Hn.
  apply NoDup_app_inv in Hn as (Ha & Hf & Hd). cbn [touch_forest mapF map].
  destruct (has_page pg t) eqn:Ehp.
  - rewrite <- touch_is_repl. f_equal. fold (mapF (touch_leaf pg k lsn g) f).
    apply has_page_in in Ehp. clear IH. induction f as [|u f IHf]; [reflexivity|].
    cbn [mapF map]. f_equal.
    + symmetry. apply repl_id. intros x Hx.
      destruct x as [off a b c hl hr ls rs|]; [|exfalso; exact (leaves_is_leaf _ _ Hx)].
      cbn [touch_leaf]. destruct (N.eqb_spec off pg) as [E|]; [|reflexivity].
      exfalso. apply (Hd pg Ehp). apply in_all_offsets. exists u. split; [left; reflexivity|].
      subst pg. apply (leaf_offset_in _ _ Hx).
    + apply IHf.
      * cbn [all_offsets flat_map] in Hf. fold (all_offsets f) in Hf. apply NoDup_app_remove_l in Hf. exact Hf.
      * intros x Hx Hy. apply (Hd x Hx). cbn [all_offsets flat_map]. apply in_or_app. right. exact Hy.
  - f_equal; [|apply IH; exact Hf]. symmetry. apply repl_id. intros x Hx.
    destruct x as [off a b c hl hr ls rs|]; [|exfalso; exact (leaves_is_leaf _ _ Hx)].
    cbn [touch_leaf]. destruct (N.eqb_spec off pg) as [E|]; [|reflexivity].
    exfalso. subst pg. pose proof (leaf_offset_in _ _ Hx) as Hin. apply has_page_in in Hin. cbn [t_off] in Hin. congruence.
Qed.

Lemma replace_root_mapF p n f sg :
  NoDup (all_offsets f) -> find_root p f = Some n ->
  (forall t x, In t f -> In x (leaves t) -> ~ In x (leaves n) -> sg x = x) ->
  replace_root p (repl sg n) f = mapF sg f.
Proof.
  intros Hn Hf Hsg. destruct (find_root_split _ _ _ Hf) as (l1 & l2 & -> & Ho & _ & Hrep).
  rewrite Hrep. unfold mapF. rewrite map_app. cbn [map].
  rewrite all_offsets_app in Hn. cbn [all_offsets flat_map] in Hn. fold (all_offsets l2) in Hn.
  apply NoDup_app_inv in Hn as (H1 & H2 & Hd1). apply NoDup_app_inv in H2 as (Hnn & H3 & Hd2).
  assert (G : forall l, (forall t, In t l -> In t (l1 ++ n :: l2)) ->
              (forall t x, In t l -> In x (leaves t) -> ~ In x (leaves n)) -> map (repl sg) l = l).
  { intros l Hsub Hnot. rewrite <- (map_id l) at 2. apply map_ext_in. intros t Ht. apply repl_id.
    intros x Hx. apply (Hsg t x); auto. eapply Hnot; eauto. }
  rewrite (G l1), (G l2); [reflexivity | | | |].
  - intros t Ht. apply in_or_app. right. right. exact Ht.
  - intros t x Ht Hx Hxn. apply (Hd2 (t_off x)); [apply (leaf_offset_in _ _ Hxn)|].
    apply in_all_offsets. exists t. split; [exact Ht | apply (leaf_offset_in _ _ Hx)].
  - intros t Ht. apply in_or_app. left. exact Ht.
  - intros t x Ht Hx Hxn. apply (Hd1 (t_off x)).
    + apply in_all_offsets. exists t. split; [exact Ht | apply (leaf_offset_in _ _ Hx)].
    + apply in_or_app. left. apply (leaf_offset_in _ _ Hxn).
Qed.
