From Coq Require Import Ascii String NArith ZArith Bool Lia Arith List.
From Mkdb Require Import Model.Bytes.
Import ListNotations.
Open Scope N_scope.

Lemma le_enc_length w : forall n, length (le_enc w n) = w.
Proof. induction w as [|w IH]; intros n; cbn; [reflexivity | rewrite IH; reflexivity]. Qed.

Lemma N_ascii_mod n : N_of_ascii (ascii_of_N (n mod 256)) = n mod 256.
Proof. apply N_ascii_embedding. apply N.mod_upper_bound. discriminate. Qed.

Lemma le_dec_enc w : forall n, le_dec (le_enc w n) = n mod (256 ^ N.of_nat w).
Proof.
  induction w as [|w IH]; intros n.
  - cbn. rewrite N.mod_1_r. reflexivity.
  - cbn [le_enc le_dec]. rewrite N_ascii_mod, IH.
    rewrite Nat2N.inj_succ, N.pow_succ_r'.
    rewrite (N.mod_mul_r n 256 (256 ^ N.of_nat w)); [reflexivity | discriminate |].
    apply N.pow_nonzero. discriminate.
Qed.

Lemma le_dec_enc_small w n : n < 256 ^ N.of_nat w -> le_dec (le_enc w n) = n.
Proof. intros H. rewrite le_dec_enc. apply N.mod_small. exact H. Qed.

Lemma le_dec_bound bs : le_dec bs < 256 ^ N.of_nat (length bs).
Proof.
  induction bs as [|b r IH].
  - cbn. lia.
  - cbn [le_dec length]. rewrite Nat2N.inj_succ, N.pow_succ_r'.
    pose proof (N_ascii_bounded b). lia.
Qed.

Lemma le_enc_dec bs : le_enc (length bs) (le_dec bs) = bs.
Proof.
  induction bs as [|b r IH]; [reflexivity|].
  cbn [length le_dec le_enc].
  pose proof (N_ascii_bounded b) as Hb.
  assert (H1 : (N_of_ascii b + 256 * le_dec r) mod 256 = N_of_ascii b).
  { rewrite N.mul_comm, N.mod_add by discriminate. apply N.mod_small. exact Hb. }
  assert (H2 : (N_of_ascii b + 256 * le_dec r) / 256 = le_dec r).
  { rewrite N.mul_comm, N.div_add by discriminate. rewrite N.div_small by exact Hb. reflexivity. }
  rewrite H1, H2, ascii_N_embedding, IH. reflexivity.
Qed.

Lemma take_app k a b : length a = k -> take k (a ++ b) = Some (a, b).
Proof.
  intros H. unfold take. rewrite app_length.
  destruct (Nat.ltb_spec (length a + length b) k) as [Hlt|Hge]; [lia|].
  subst k. rewrite firstn_app, firstn_all, Nat.sub_diag, firstn_O, app_nil_r.
  rewrite skipn_app, skipn_all, Nat.sub_diag. reflexivity.
Qed.

Lemma take_some k bs h r : take k bs = Some (h, r) -> bs = h ++ r /\ length h = k.
Proof.
  unfold take. destruct (Nat.ltb_spec (length bs) k) as [Hlt|Hge]; [discriminate|].
  intros H; inversion H; subst. split; [symmetry; apply firstn_skipn|].
  apply firstn_length_le. exact Hge.
Qed.

Lemma take_none k bs : take k bs = None <-> (length bs < k)%nat.
Proof.
  unfold take. destruct (Nat.ltb_spec (length bs) k); split; auto; try discriminate; lia.
Qed.

Lemma read_u_app w n rest : n < 256 ^ N.of_nat w -> read_u w (le_enc w n ++ rest) = Some (n, rest).
Proof.
  intros H. unfold read_u. rewrite take_app by apply le_enc_length.
  rewrite le_dec_enc_small by exact H. reflexivity.
Qed.

Lemma read_bool_enc b rest : read_bool (enc_bool b ++ rest) = Some (b, rest).
Proof. destruct b; cbn; reflexivity. Qed.

Lemma twos_dec_enc w z :
  (0 < w)%nat ->
  (- 2 ^ (8 * Z.of_nat w - 1) <= z < 2 ^ (8 * Z.of_nat w - 1))%Z ->
  twos_dec w (twos_enc w z) = z.
Proof.
  intros Hw Hz. unfold twos_dec, twos_enc.
  set (m := (2 ^ (8 * Z.of_nat w))%Z).
  assert (Hm : (m = 2 * 2 ^ (8 * Z.of_nat w - 1))%Z).
  { unfold m. rewrite <- Z.pow_succ_r by lia. f_equal. lia. }
  assert (Hmpos : (0 < m)%Z) by (unfold m; apply Z.pow_pos_nonneg; lia).
  assert (Hhalf : (m / 2 = 2 ^ (8 * Z.of_nat w - 1))%Z).
  { rewrite Hm, Z.mul_comm, Z.div_mul by lia. reflexivity. }
  rewrite Z2N.id by (apply Z.mod_pos_bound; exact Hmpos).
  rewrite Hhalf.
  destruct (Z.ltb_spec (z mod m) (2 ^ (8 * Z.of_nat w - 1))) as [Hlt|Hge].
  - destruct (Z.neg_nonneg_cases z) as [Hneg|Hnn].
    + exfalso. assert ((z mod m = z + m)%Z).
      { symmetry. apply Z.mod_unique with (q := (-1)%Z); lia. }
      lia.
    + apply Z.mod_small. lia.
  - destruct (Z.neg_nonneg_cases z) as [Hneg|Hnn].
    + assert ((z mod m = z + m)%Z).
      { symmetry. apply Z.mod_unique with (q := (-1)%Z); lia. }
      lia.
    + exfalso. rewrite Z.mod_small in Hge by lia. lia.
Qed.

Lemma twos_enc_bound w z : (0 < w)%nat -> twos_enc w z < 256 ^ N.of_nat w.
Proof.
  intros Hw. unfold twos_enc.
  assert (Hp : (0 < 2 ^ (8 * Z.of_nat w))%Z) by (apply Z.pow_pos_nonneg; lia).
  pose proof (Z.mod_pos_bound z _ Hp) as [H0 H1].
  apply N2Z.inj_lt. rewrite Z2N.id by exact H0.
  rewrite N2Z.inj_pow. change (Z.of_N 256) with (2 ^ 8)%Z.
  rewrite <- Z.pow_mul_r by lia. rewrite nat_N_Z. exact H1.
Qed.

Lemma string_bytes_roundtrip s : string_of_bytes (bytes_of_string s) = s.
Proof. apply string_of_list_ascii_of_string. Qed.

Lemma bytes_string_roundtrip b : bytes_of_string (string_of_bytes b) = b.
Proof. apply list_ascii_of_string_of_list_ascii. Qed.

Lemma zeros_length k : length (zeros k) = k.
Proof. apply repeat_length. Qed.
