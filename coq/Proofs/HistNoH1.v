(* C02's hypothesis (H1) (`stmt_atomic`: a statement that returns an error changed no page) derived
   from the refinement invariant, for histories of statements, flushes, crash-restarts, crashes
   inside a log append (C03) and crashes inside a flush (C04).
   `hist_ok2` (a boolean) keeps only: literals are Go values (RefineMain.stmt_ok), the allocation
   frontier after the statement is <= 2^63. No (H1), no (H2): hist_ok2 -> hist_ok1 -> hist_ok. *)
From Coq Require Import Arith Lia Bool List NArith ZArith String.
From Mkdb Require Import Model.Engine Spec.TableSpec Spec.HistObs Proofs.StoreInv Proofs.RefineRep
  Proofs.RefineCat Proofs.RefineMain Proofs.FailsEarly Proofs.SessionStore
  Proofs.CrashBase Proofs.CrashMain Proofs.CrashHist Proofs.MovesFromRep.
Import ListNotations.
Local Open Scope N_scope.

(* (H1) in one store that represents a database *)
Theorem rep_stmt_atomic s d st :
  Rep s d -> RefineMain.stmt_ok st = true -> nextFree (e_store (run_stmt s st)) <= OFFMAX ->
  stmt_atomic s st.
Proof.
  intros HR Hst Hmax. unfold stmt_atomic. intros Hno.
  destruct (e_out (run_stmt s st)) as [c|e|] eqn:Eo; [discriminate| |].
  - rewrite (stmt_err_unchanged s d st e HR Hst Hmax Eo). apply seq_refl.
  - exfalso. apply (run_stmt_no_panic s d st HR); [|exact Eo].
    unfold np_hyp. destruct st; try exact Hst; (apply andb_true_iff; split; [exact Hst | apply N.leb_le; exact Hmax]).
Qed.

(* a crash inside the log append of st (C03's event) asks of st what EvStmt asks; a crash inside a
   flush (C04's event) asks nothing: when the model has no torn file the step fails and the
   history ends there *)
Definition ev_ok2 (y : sys) (ev : event) : bool :=
  match ev with
  | EvStmt st => RefineMain.stmt_ok st && N.leb (nextFree (e_store (run_stmt (mem y) st))) OFFMAX
  | EvFlush | EvCrash => true
  | EvCrashInLog st _ => RefineMain.stmt_ok st && N.leb (nextFree (e_store (run_stmt (mem y) st))) OFFMAX
  | EvTornFlush _ => true
  end.

Fixpoint hist_ok2 (y : sys) (evs : list event) : bool :=
  match evs with
  | [] => true
  | ev :: r => ev_ok2 y ev && match step y ev with (SOk y1, _) => hist_ok2 y1 r | _ => true end
  end.

Lemma ev_ok2_ok1 y ev : RInv y -> ev_ok2 y ev = true -> ev_ok1 y ev.
Proof.
  intros (_ & _ & d & HR) H. destruct ev; cbn [ev_ok2 ev_ok1] in *; try exact I.
  - apply andb_true_iff in H as [Hst Hmax]. apply N.leb_le in Hmax.
    split; [exact (rep_stmt_atomic (mem y) d st HR Hst Hmax) | split; assumption].
  - apply andb_true_iff in H as [Hst Hmax]. apply N.leb_le in Hmax.
    split; [exact (rep_stmt_atomic (mem y) d st HR Hst Hmax) | split; assumption].
Qed.

Lemma hist_ok2_hist_ok1 evs : forall y, RInv y -> hist_ok2 y evs = true -> hist_ok1 y evs.
Proof.
  induction evs as [|ev r IH]; intros y HI H; cbn [hist_ok1 hist_ok2] in *; [exact I|].
  apply andb_true_iff in H as [Hev Hrest]. pose proof (ev_ok2_ok1 y ev HI Hev) as H1.
  split; [exact H1|].
  destruct (step y ev) as [[y1|e|] o] eqn:Es; try exact I.
  apply IH; [eapply RInv_step; eauto | exact Hrest].
Qed.

Theorem hist_ok2_sound evs : hist_ok2 init_sys evs = true -> hist_ok1 init_sys evs.
Proof. apply hist_ok2_hist_ok1. apply RInv_init. Qed.

Lemma hist_ok2_snoc evs : forall y y' os ev,
  hist_ok2 y evs = true -> run_events y evs = (SOk y', os) -> ev_ok2 y' ev = true -> hist_ok2 y (evs ++ [ev]) = true.
Proof.
  induction evs as [|e0 r IH]; intros y y' os ev Hok Hr Hev.
  - cbn in Hr. inversion Hr; subst. cbn [app hist_ok2]. rewrite Hev. cbn [andb].
    destruct (step y' ev) as [[y1|e|] o]; reflexivity.
  - cbn [hist_ok2 app] in *. apply andb_true_iff in Hok as [A B]. rewrite A. cbn [andb]. cbn [run_events] in Hr.
    destruct (step y e0) as [[y1|e|] o] eqn:Es; try reflexivity.
    destruct (run_events y1 r) as [fin os'] eqn:Er. inversion Hr; subst.
    eapply IH; eauto.
Qed.

(* along such a history - failing statements of any kind, flushes, crash-restarts - the cache
   always represents a database of the specification *)
Theorem hist_ok2_rep evs y os :
  hist_ok2 init_sys evs = true -> run_events init_sys evs = (SOk y, os) ->
  SelfOk (mem y) /\ exists d, Rep (mem y) d.
Proof. intros H R. exact (hist_ok1_rep evs y os (hist_ok2_sound evs H) R). Qed.
