(* C05 / C06 / C07 / C18 (SELECT part): the observation oracles of Spec/SelectObs.v accept the
   model's own behaviour; hence "the model agrees with Go on this case" (mm_select) implies "the
   oracle accepts what Go did" (sm_c05, sm_c06, sm_c07, sm_c07_lenient, sm_c18).

   mm_select compares Go's answer with `select q d` up to the freedom ORDER BY leaves (rows equal,
   or a window of some sorted permutation of the model's rows before sorting). The oracles are
   stated on the declarative semantics of Spec/SelectSpec.v (sem_single, sem_joined, agg_input).
   The link is: in the scope the oracle judges, `select_core` of the model returns the header and
   the sort keys of the declarative semantics and its rows up to a permutation (exactly, for one
   table); the model's sort then returns a sorted permutation, and anything mm_select tolerates
   is again a sorted permutation of the same rows.

   Hypotheses that turn out to be needed are boolean predicates on the case (hyp_c06, hyp_c07,
   f8b_free); Properties/C06.v, C07.v show by vm_compute that the oracle rejects the model
   without them. *)
From Coq Require Import ZArith String Bool List Ascii Permutation Sorted Lia.
From Mkdb Require Import Model.CaseLib Model.Select Spec.SelectSpec Spec.SelectObs
     Proofs.SelectOrder Proofs.SelectEval Proofs.SelectSort Proofs.SelectC05 Proofs.SelectC06
     Proofs.SelectAggCols Proofs.SelectC07 Proofs.SelectC07Main Proofs.SelectC18.
Import ListNotations.

(* ================================================================================== *)
(* 0. what agreement with the model says about Go's answer                             *)

Definition not_ok {A} (o : outcome A) : Prop := forall a, o <> Ok a.

Lemma not_ok_bind_l {A B} (o : outcome A) (f : A -> outcome B) : not_ok o -> not_ok (Select.obind o f).
Proof. intros H b. destruct o as [a| |]; cbn; try discriminate. exfalso. exact (H a eq_refl). Qed.

Lemma not_ok_bind_r {A B} (o : outcome A) (f : A -> outcome B) :
  (forall a, o = Ok a -> not_ok (f a)) -> not_ok (Select.obind o f).
Proof. intros H b. destruct o as [a| |]; cbn; try discriminate. apply H. reflexivity. Qed.

(* the model does not answer with rows: neither does Go *)
Lemma mm_not_ok d q g : not_ok (select q d) -> mm_select (d, q, g) = true ->
  match g with GOk _ _ => False | _ => True end.
Proof.
  intros N. unfold mm_select. destruct (select q d) as [[hdr out]| |] eqn:E.
  - exfalso. exact (N _ eq_refl).
  - destruct g; auto; discriminate.
  - destruct g; auto; discriminate.
Qed.

(* the model answers with rows: Go answers with the same header and with the same rows, or with
   a window of a sorted permutation of the rows the model had before sorting *)
Lemma mm_ok d q g hdr out : select q d = Ok (hdr, out) -> mm_select (d, q, g) = true ->
  exists r, g = GOk hdr r /\
    (r = out \/
     exists tr rest hdr' rows k ks,
       sel_from q = tr :: rest /\ select_core q d tr = Ok (hdr', rows, k :: ks) /\
       check_window (k :: ks) (q_offset q) (q_limit q) rows r = true).
Proof.
  intros E. unfold mm_select. rewrite E. destruct g as [f r| | |]; try discriminate.
  rewrite andb_true_iff, orb_true_iff, fields_eqb_iff, rows_eqb_iff. intros [<- H].
  exists r. split; auto. destruct H as [H|H]; [left; auto|right].
  destruct (sel_from q) as [|tr rest]; try discriminate.
  destruct (select_core q d tr) as [[[hdr' rows] [|k ks]]| |] eqn:C; try discriminate.
  exists tr, rest, hdr', rows, k, ks. auto.
Qed.

(* select in terms of select_core *)
Lemma select_of_core q d tr rest hdr rows keys s :
  sel_from q = tr :: rest -> select_core q d tr = Ok (hdr, rows, keys) -> sort_rows keys rows = Ok s ->
  select q d = (out <~ select_window q s ;; Ok (hdr, out)).
Proof. intros F C S. unfold select. rewrite F, C. cbn. rewrite S. reflexivity. Qed.

Lemma select_core_not_ok q d tr rest : sel_from q = tr :: rest -> not_ok (nested_loop_join d tr) -> not_ok (select q d).
Proof.
  intros F N. unfold select. rewrite F. apply not_ok_bind_l. unfold select_core. apply not_ok_bind_l. exact N.
Qed.

(* ================================================================================== *)
(* 1. C18: under the hypotheses the correspondence run evaluates, no panic              *)

Theorem c18_agreement_implies_acceptance c : hyp_c18 c = true -> mm_select c = true -> sm_c18 c = true.
Proof.
  destruct c as [[d q] g]. unfold hyp_c18, sm_c18. rewrite andb_true_iff. intros [PS WF] M.
  pose proof (select_no_panic d q PS WF) as NP. unfold mm_select in M.
  destruct (select q d) as [[hdr out]|e|w]; destruct g; try discriminate; auto.
  exfalso. exact (NP w eq_refl).
Qed.

(* ================================================================================== *)
(* 2. C05: one table                                                                   *)

(* on a well-typed query the model's select_core IS the declarative semantics *)
Lemma core_single d q hdr base keys :
  nonempty_list q = true -> no_aggregate q = true ->
  sem_single q d = Some (hdr, base, keys) ->
  exists tr, sel_from q = [tr] /\ select_core q d tr = Ok (hdr, base, keys) /\
             Forall (wide keys) base /\ keys_homog keys base = true.
Proof.
  intros NE NA E.
  assert (NE' : sel_list q <> []) by (unfold nonempty_list in NE; destruct (sel_list q); congruence).
  unfold sem_single in E.
  destruct (sel_from q) as [|[name alias|] [|? ?]] eqn:EF; try discriminate.
  destruct (fetch d name) as [[cols rows]|] eqn:FE; cbn in E; try discriminate.
  destruct (forallb (fun rw : list value => Nat.eqb (List.length rw) (List.length cols)) rows) eqn:WD; try discriminate.
  destruct (sem_filter (sel_where q) (table_fields name alias cols) rows) as [kept|] eqn:SF; cbn in E; try discriminate.
  destruct (sem_project (sel_list q) (table_fields name alias cols) kept) as [base'|] eqn:SP; cbn in E; try discriminate.
  destruct (out_header (sel_list q) (table_fields name alias cols)) as [hdr'|] eqn:OH; cbn in E; try discriminate.
  destruct (sem_sortkeys (sel_sort q) hdr') as [keys'|] eqn:SK; cbn in E; try discriminate.
  destruct (keys_homog keys' base') eqn:KH; try discriminate.
  inversion E; subst hdr' base' keys'. clear E.
  unfold no_aggregate in NA. rewrite andb_true_iff in NA. destruct NA as [NA NG].
  destruct (sel_group q) eqn:EG; try discriminate. clear NG.
  assert (Wrows : Forall (fun rw => List.length rw = List.length (table_fields name alias cols)) rows).
  { rewrite Forall_forall. intros rw Hrw. rewrite forallb_forall in WD. specialize (WD rw Hrw).
    apply Nat.eqb_eq in WD. unfold table_fields. rewrite map_length. exact WD. }
  assert (Wkept : Forall (fun rw => List.length rw = List.length (table_fields name alias cols)) kept).
  { unfold sem_filter in SF. destruct (sel_where q).
    - destruct (forallb _ rows); try discriminate. inversion SF; subst.
      rewrite Forall_forall in *. intros rw Hrw. apply filter_In in Hrw. apply Wrows. tauto.
    - inversion SF; subst. exact Wrows. }
  pose proof (sem_project_width _ _ _ _ _ Wkept SP OH) as Wbase.
  pose proof (sem_sortkeys_lt _ _ _ SK) as Klt.
  exists (TRName name alias). repeat split; auto.
  - unfold select_core. cbn [nested_loop_join]. rewrite FE. cbn.
    rewrite table_fields_eq.
    rewrite (sem_filter_model _ _ _ _ SF). cbn.
    rewrite (project_columns_sem _ _ _ _ _ NE' NA SP OH). cbn.
    unfold aggregate_rows. unfold no_aggr_list in NA. unfold has_aggr, is_aggr.
    assert (EA : existsb (fun d0 => match dc_prim d0 with SPCount _ | SPAvg _ => true | _ => false end) (sel_list q) = false)
      by (apply negb_true_iff; exact NA).
    rewrite EA, EG. cbn.
    rewrite (sem_sortkeys_model _ _ _ SK). reflexivity.
  - rewrite Forall_forall in *. intros rw Hrw. unfold wide. rewrite Forall_forall. intros k Hk.
    rewrite (Wbase rw Hrw). apply Klt. exact Hk.
Qed.

Theorem c05_agreement_implies_acceptance c : mm_select c = true -> sm_c05 c = true.
Proof.
  destruct c as [[d q] g]. intros M. unfold sm_c05. destruct (well_typed q d) eqn:WT; auto.
  pose proof WT as WT0. unfold well_typed in WT. rewrite !andb_true_iff in WT. destruct WT as [[[NE NA] WO] SS].
  destruct (sem_single q d) as [[[hdr base] keys]|] eqn:E; try discriminate. clear SS.
  destruct (core_single d q hdr base keys NE NA E) as [tr [F [C [W KH]]]].
  destruct (sort_rows_spec keys base W KH) as [s [ES [PS SSo]]].
  assert (Sel : select q d = Ok (hdr, window (q_offset q) (q_limit q) s)).
  { rewrite (select_of_core q d tr [] hdr base keys s F C ES). rewrite (select_window_spec _ _ WO). reflexivity. }
  destruct (mm_ok _ _ _ _ _ Sel M) as [r [-> H]].
  unfold check_select. rewrite E. cbn [fst snd]. rewrite andb_true_iff. split; [apply fields_eqb_iff; reflexivity|].
  destruct H as [->|[tr' [rest [hdr' [rows [k [ks [F' [C' CW]]]]]]]]].
  - apply check_window_iff. unfold OrderedWindow. destruct keys as [|k ks].
    + rewrite sort_rows_nil in ES. inversion ES; subst. reflexivity.
    + exists s. auto.
  - rewrite F in F'. inversion F'; subst tr' rest. rewrite C in C'. inversion C'; subst. exact CW.
Qed.

(* ================================================================================== *)
(* 3. shared: permutations through WHERE / projection, safety of select_core, sorting   *)

Lemma all_some_map_perm {A B} (f : A -> option B) l l' :
  Permutation l l' -> forall r, all_some (map f l) = Some r ->
  exists r', all_some (map f l') = Some r' /\ Permutation r r'.
Proof.
  induction 1 as [|x l l' P IH|x y l|l l' l'' P1 IH1 P2 IH2]; intros r H.
  - exists r. auto.
  - cbn [map] in H. apply all_some_cons in H. destruct H as [a [r0 [Ha [Hr ->]]]].
    destruct (IH _ Hr) as [r0' [E P']]. exists (a :: r0'). cbn [map]. cbn. rewrite Ha, E. auto.
  - cbn [map] in H. apply all_some_cons in H. destruct H as [a [r0 [Ha [Hr ->]]]].
    apply all_some_cons in Hr. destruct Hr as [b [r1 [Hb [Hr ->]]]].
    exists (b :: a :: r1). cbn [map]. cbn. rewrite Ha, Hb, Hr. split; auto. apply perm_swap.
  - destruct (IH1 _ H) as [r' [E' P']]. destruct (IH2 _ E') as [r'' [E'' P'']].
    exists r''. split; auto. etransitivity; eauto.
Qed.

Lemma sem_filter_perm w fs rows rows' kept :
  Permutation rows rows' -> sem_filter w fs rows = Some kept ->
  exists kept', sem_filter w fs rows' = Some kept' /\ Permutation kept kept'.
Proof.
  intros P. unfold sem_filter. destruct w as [e|].
  - rewrite (forallb_perm_eq _ _ _ P). destruct (forallb _ rows'); try discriminate.
    intros H; inversion H; subst. eexists. split; [reflexivity|]. apply filter_perm. exact P.
  - intros H; inversion H; subst. eauto.
Qed.

Lemma sem_project_perm sl fs rows rows' base :
  Permutation rows rows' -> sem_project sl fs rows = Some base ->
  exists base', sem_project sl fs rows' = Some base' /\ Permutation base base'.
Proof. unfold sem_project. intros P H. eapply all_some_map_perm; eauto. Qed.

Lemma sem_filter_width w fs rows kept n :
  Forall (fun rw : row => List.length rw = n) rows -> sem_filter w fs rows = Some kept ->
  Forall (fun rw : row => List.length rw = n) kept.
Proof.
  unfold sem_filter. intros W. destruct w.
  - destruct (forallb _ rows); try discriminate. intros H; inversion H; subst.
    rewrite Forall_forall in *. intros rw Hrw. apply filter_In in Hrw. apply W. tauto.
  - intros H; inversion H; subst. exact W.
Qed.

(* the pipeline of select_core never panics on well-formed tables and leaves rows of one width
   whose columns are homogeneous, and sort keys inside that width (the body of
   SelectC18.select_no_panic, kept as a lemma) *)
Lemma select_core_safe d q tr :
  db_wf d = true -> sel_list q <> [] ->
  (all_star (sel_list q) = true \/ match sel_list q with d0 :: _ => dc_prim d0 <> SPStar | [] => True end) ->
  safe (select_core q d tr)
       (fun '(h, r, k) => exists n, rows_ok n r /\ Forall (fun x => (fst x < n)%nat) k).
Proof.
  intros WF NE Sh. unfold select_core.
  eapply safe_bind; [apply join_safe; exact WF|].
  intros [fields rows] RO.
  eapply safe_bind.
  - instantiate (1 := fun kept => rows_ok (List.length fields) kept).
    destruct (sel_where q) as [w|]; [apply filter_rows_safe; auto | exact RO].
  - intros kept RK.
    eapply safe_bind; [apply (project_columns_safe _ _ _ NE Sh RK)|].
    intros [hdr rows2] AP.
    eapply safe_bind.
    + instantiate (1 := fun rows3 => rows_ok (List.length hdr) rows3).
      destruct AP as [[St R2]|[L [R2 I]]].
      * apply aggregate_safe_star; auto.
      * rewrite L. apply aggregate_safe; auto.
    + intros rows3 R3.
      eapply safe_bind; [apply sort_idxs_safe|]. intros keys K. cbn. eauto.
Qed.

Lemma select_core_rows_ok d q tr hdr rows keys :
  db_wf d = true -> sel_list q <> [] ->
  (all_star (sel_list q) = true \/ match sel_list q with d0 :: _ => dc_prim d0 <> SPStar | [] => True end) ->
  select_core q d tr = Ok (hdr, rows, keys) ->
  exists n, rows_ok n rows /\ Forall (fun x => (fst x < n)%nat) keys.
Proof.
  intros WF NE Sh E. pose proof (select_core_safe d q tr WF NE Sh) as S. rewrite E in S. exact S.
Qed.

(* the model's sort on such rows: a sorted permutation *)
Lemma sort_rows_ok keys rows n :
  rows_ok n rows -> Forall (fun k => (fst k < n)%nat) keys ->
  exists s, sort_rows keys rows = Ok s /\ Permutation s rows /\ SortedBy keys s.
Proof.
  intros [W C] K. unfold sort_rows.
  destruct (sort_loop_spec keys rows []) as [s [E [P S]]].
  - rewrite app_nil_r. intros a b Ha Hb. rewrite Forall_forall in W. apply go_less_ltb.
    + unfold wide. rewrite (W a Ha). exact K.
    + unfold wide. rewrite (W b Hb). exact K.
    + unfold tags_ok. rewrite Forall_forall. intros k _. apply compat_nth. apply C; auto.
  - constructor.
  - exists s. rewrite app_nil_r in P. auto.
Qed.

Lemma select_window_inactive q rows :
  sel_limit_active q = false -> sel_offset_active q = false -> select_window q rows = Ok rows.
Proof. intros L O. unfold select_window. rewrite L, O. reflexivity. Qed.

Lemma q_window_inactive q :
  sel_limit_active q = false -> sel_offset_active q = false -> q_offset q = None /\ q_limit q = None.
Proof. intros L O. unfold q_offset, q_limit, opt_nat. rewrite L, O. auto. Qed.

(* without LIMIT / OFFSET: what the model returns, and everything mm_select tolerates, is a
   sorted permutation of the rows select_core produced *)
Lemma mm_sorted_perm d q g tr rest hdr rows keys n :
  sel_from q = tr :: rest -> select_core q d tr = Ok (hdr, rows, keys) ->
  rows_ok n rows -> Forall (fun k => (fst k < n)%nat) keys ->
  sel_limit_active q = false -> sel_offset_active q = false ->
  mm_select (d, q, g) = true ->
  exists r, g = GOk hdr r /\ Permutation r rows /\ SortedBy keys r.
Proof.
  intros F C RO K L O M.
  destruct (sort_rows_ok keys rows n RO K) as [s [ES [PS SS]]].
  assert (Sel : select q d = Ok (hdr, s)).
  { rewrite (select_of_core q d tr rest hdr rows keys s F C ES). rewrite select_window_inactive by auto. reflexivity. }
  destruct (mm_ok _ _ _ _ _ Sel M) as [r [-> H]]. exists r. split; auto.
  destruct H as [->|[tr' [rest' [hdr' [rows' [k [ks [F' [C' CW]]]]]]]]]; auto.
  rewrite F in F'. inversion F'; subst tr' rest'. rewrite C in C'. inversion C'; subst hdr' rows' keys.
  destruct (q_window_inactive q L O) as [-> ->] in CW.
  apply check_window_iff in CW. cbn in CW. destruct CW as [s' [P' [S' ->]]]. auto.
Qed.

(* ================================================================================== *)
(* 4. C06: joins                                                                       *)

Fixpoint no_full_join (t : tableref) : bool :=
  match t with
  | TRName _ _ => true
  | TRJoin l jt r _ => no_full_join l && match jt with JFull => false | _ => true end && no_full_join r
  end.

(* the select list is not empty (sql.Parser: SelectList is do-while); table contents as
   storage.Fetch returns them; no FULL join (the grammar has none: ParseSpec.wf_tref) *)
Definition hyp_c06 (c : sel_case) : bool :=
  let '(d, q, _) := c in nonempty_list q && db_wf d && forallb no_full_join (sel_from q).

Lemma out_header_shape sl fs hdr :
  out_header sl fs = Some hdr ->
  all_star sl = true \/ match sl with d0 :: _ => dc_prim d0 <> SPStar | [] => True end.
Proof.
  unfold out_header. destruct (is_star sl) eqn:S.
  - intros _. left. unfold is_star in S. destruct sl as [|d0 [|? ?]]; try discriminate.
    cbn. destruct (dc_prim d0); try discriminate. reflexivity.
  - intros H. right. destruct sl as [|d0 sl]; auto.
    cbn [map] in H. apply all_some_cons in H. destruct H as [f [? [Hf _]]].
    intros Ed. unfold out_field in Hf. rewrite Ed in Hf. discriminate.
Qed.

Lemma core_joined d q hdr base keys :
  nonempty_list q = true -> no_aggregate q = true ->
  sem_joined q d = Some (hdr, base, keys) ->
  exists j rows, sel_from q = [j] /\ select_core q d j = Ok (hdr, rows, keys) /\ Permutation rows base /\
    (all_star (sel_list q) = true \/ match sel_list q with d0 :: _ => dc_prim d0 <> SPStar | [] => True end).
Proof.
  intros NE NA E.
  assert (NE' : sel_list q <> []) by (unfold nonempty_list in NE; destruct (sel_list q); congruence).
  unfold sem_joined in E. destruct (sel_from q) as [|j [|? ?]] eqn:EF; try discriminate.
  destruct (join_sem d j) as [[fs jrows]|] eqn:J; cbn in E; try discriminate.
  destruct (sem_filter (sel_where q) fs jrows) as [kept|] eqn:SF; cbn in E; try discriminate.
  destruct (sem_project (sel_list q) fs kept) as [base'|] eqn:SP; cbn in E; try discriminate.
  destruct (out_header (sel_list q) fs) as [hdr'|] eqn:OH; cbn in E; try discriminate.
  destruct (sem_sortkeys (sel_sort q) hdr') as [keys'|] eqn:SK; cbn in E; try discriminate.
  inversion E; subst hdr' base' keys'. clear E.
  unfold no_aggregate in NA. rewrite andb_true_iff in NA. destruct NA as [NA NG].
  destruct (sel_group q) eqn:EG; try discriminate. clear NG.
  destruct (join_model_meets_spec d j fs jrows J) as [mrows [MJ PJ]].
  destruct (sem_filter_perm _ _ _ _ _ (Permutation_sym PJ) SF) as [kept' [SF' PK]].
  destruct (sem_project_perm _ _ _ _ _ PK SP) as [base' [SP' PB]].
  exists j, base'. repeat split; auto.
  - unfold select_core. rewrite MJ. cbn.
    rewrite (sem_filter_model _ _ _ _ SF'). cbn.
    rewrite (project_columns_sem _ _ _ _ _ NE' NA SP' OH). cbn.
    unfold aggregate_rows. unfold no_aggr_list in NA. unfold has_aggr, is_aggr.
    assert (EA : existsb (fun d0 => match dc_prim d0 with SPCount _ | SPAvg _ => true | _ => false end) (sel_list q) = false)
      by (apply negb_true_iff; exact NA).
    rewrite EA, EG. cbn.
    rewrite (sem_sortkeys_model _ _ _ SK). reflexivity.
  - symmetry. exact PB.
  - eapply out_header_shape; eauto.
Qed.

(* a reference the oracle says must be rejected is rejected by the model's lookup *)
Lemma must_reject_find c fs : must_reject c fs = true -> not_ok (find_column c fs).
Proof.
  unfold must_reject, find_column, lookup_field_idx, lookup_col_idx_by_id, match_idxs. intros H i.
  rewrite !match_idxs_positions. destruct (String.eqb (cr_qual c) "") eqn:Q.
  - rewrite (positions_ext (fun f => String.eqb (f_col f) (cr_name c)) (ref_names c)).
    + destruct (positions_from (ref_names c) fs 0) as [|j [|? ?]]; discriminate.
    + intros f. unfold ref_names, f_col. rewrite Q. cbn. rewrite andb_true_r. reflexivity.
  - rewrite (positions_ext (fun f => String.eqb (f_col f) (cr_name c) && String.eqb (f_table f) (cr_qual c)) (ref_names c)).
    + destruct (positions_from (ref_names c) fs 0) as [|j [|? ?]]; discriminate.
    + intros f. unfold ref_names, f_col, f_table. rewrite Q. reflexivity.
Qed.

Lemma eval_primary_unresolved x fs rw :
  existsb (fun c => must_reject c fs) (vexpr_refs x) = true -> not_ok (eval_primary x fs rw).
Proof.
  destruct x as [v|c]; cbn; try discriminate. rewrite orb_false_r. intros H.
  apply not_ok_bind_l. apply must_reject_find. exact H.
Qed.

Lemma eval_cmp_unresolved l op r fs rw :
  existsb (fun c => must_reject c fs) (vexpr_refs l ++ vexpr_refs r) = true -> not_ok (eval_cmp l op r fs rw).
Proof.
  rewrite existsb_app, orb_true_iff. intros [H|H]; unfold eval_cmp.
  - apply not_ok_bind_l. apply eval_primary_unresolved. exact H.
  - apply not_ok_bind_r. intros a _. apply not_ok_bind_l. apply eval_primary_unresolved. exact H.
Qed.

Lemma evaluate_unresolved e fs rw :
  existsb (fun c => must_reject c fs) (expr_refs e) = true -> not_ok (evaluate e fs rw).
Proof.
  induction e as [v | l op r | [[l op] r] rhs IH | e1 IH1 e2 IH2]; cbn [expr_refs evaluate].
  - destruct v as [v|c]; cbn; discriminate.
  - intros H. apply not_ok_bind_l. apply eval_cmp_unresolved. exact H.
  - rewrite app_assoc, existsb_app, orb_true_iff. intros [H|H].
    + apply not_ok_bind_l. apply eval_cmp_unresolved. exact H.
    + apply not_ok_bind_r. intros a _. apply not_ok_bind_l. apply IH. exact H.
  - rewrite existsb_app, orb_true_iff. intros [H|H].
    + apply not_ok_bind_l. apply IH1. exact H.
    + apply not_ok_bind_r. intros a _. apply not_ok_bind_l. apply IH2. exact H.
Qed.

Lemma join_outer_unresolved cond tf mk pad outer inner :
  existsb (fun c => must_reject c tf) (expr_refs cond) = true -> outer <> [] -> inner <> [] ->
  not_ok (join_outer cond tf mk pad outer inner).
Proof.
  intros H NO NI. destruct outer as [|o outer]; [congruence|]. destruct inner as [|x inner]; [congruence|].
  cbn [join_outer join_scan]. apply not_ok_bind_l. apply not_ok_bind_l. apply evaluate_unresolved. exact H.
Qed.

Lemma perm_nonempty {A} (l l' : list A) x xs : Permutation l (x :: xs) -> l <> [].
Proof. intros P E. subst. apply Permutation_nil in P. discriminate. Qed.

Lemma unresolved_not_ok d t :
  no_full_join t = true -> unresolved_evaluated d t = true -> not_ok (nested_loop_join d t).
Proof.
  induction t as [name alias | l IHl jt r IHr cond]; cbn [no_full_join unresolved_evaluated nested_loop_join]; try discriminate.
  rewrite !andb_true_iff, !orb_true_iff. intros [[NL NJ] NR] [[U|U]|U].
  - apply not_ok_bind_l. apply IHl; auto.
  - apply not_ok_bind_r. intros [lf L] _. apply not_ok_bind_l. apply IHr; auto.
  - destruct (join_sem d l) as [[lf [|l0 L]]|] eqn:JL; try discriminate.
    destruct (join_sem d r) as [[rf [|r0 R]]|] eqn:JR; try discriminate.
    destruct (join_model_meets_spec d l _ _ JL) as [L' [ML PL]].
    destruct (join_model_meets_spec d r _ _ JR) as [R' [MR PR]].
    rewrite ML, MR. cbn [Select.obind].
    pose proof (perm_nonempty _ L' _ _ PL) as NL'. pose proof (perm_nonempty _ L' _ _ PR) as NR'.
    destruct jt; try discriminate; apply not_ok_bind_l; apply join_outer_unresolved; auto.
Qed.

Theorem c06_agreement_implies_acceptance c : hyp_c06 c = true -> mm_select c = true -> sm_c06 c = true.
Proof.
  destruct c as [[d q] g]. unfold hyp_c06, sm_c06. rewrite !andb_true_iff. intros [[NE WF] NF] M.
  destruct (sel_from q) as [|j [|? ?]] eqn:F; auto.
  destruct (join_sem d j) as [p|] eqn:J.
  - destruct (plain_query q) eqn:PQ; auto.
    destruct (sem_joined q d) as [[[hdr base] keys]|] eqn:SJ; auto.
    unfold plain_query in PQ. rewrite !andb_true_iff, !negb_true_iff in PQ. destruct PQ as [[NA L] O].
    destruct (core_joined d q hdr base keys NE NA SJ) as [j' [rows [F' [C [P Sh]]]]].
    rewrite F in F'. inversion F'; subst j'.
    assert (NE' : sel_list q <> []) by (unfold nonempty_list in NE; destruct (sel_list q); congruence).
    destruct (select_core_rows_ok d q j hdr rows keys WF NE' Sh C) as [n [RO K]].
    destruct (mm_sorted_perm d q g j [] hdr rows keys n F C RO K L O M) as [r [-> [PR SR]]].
    rewrite !andb_true_iff. repeat split.
    + apply fields_eqb_iff. reflexivity.
    + apply perm_b_iff. etransitivity; eauto.
    + apply sortedb_iff. exact SR.
  - destruct (unresolved_evaluated d j) eqn:U; auto.
    cbn in NF. rewrite andb_true_r in NF.
    pose proof (mm_not_ok d q g (select_core_not_ok q d j [] F (unresolved_not_ok d j NF U)) M) as G.
    destruct g; auto.
Qed.

(* ================================================================================== *)
(* 5. C07: aggregates                                                                  *)

(* table contents as storage.Fetch returns them (needed for ORDER BY on the result) *)
Definition hyp_c07 (c : sel_case) : bool := let '(d, _, _) := c in db_wf d.

(* excludes the recorded finding F8b (running rounded average) *)
Definition no_avg_c (c : sel_case) : bool := let '(_, q, _) := c in no_avg (sel_list q).

Lemma find_column_accepts c fs : must_reject c fs = false -> exists i, find_column c fs = Ok i.
Proof.
  unfold must_reject, find_column, lookup_field_idx, lookup_col_idx_by_id, match_idxs. intros H.
  rewrite !match_idxs_positions. destruct (String.eqb (cr_qual c) "") eqn:Q.
  - rewrite (positions_ext (fun f => String.eqb (f_col f) (cr_name c)) (ref_names c)).
    + destruct (positions_from (ref_names c) fs 0) as [|j [|? ?]]; try discriminate. eauto.
    + intros f. unfold ref_names, f_col. rewrite Q. cbn. rewrite andb_true_r. reflexivity.
  - rewrite (positions_ext (fun f => String.eqb (f_col f) (cr_name c) && String.eqb (f_table f) (cr_qual c)) (ref_names c)).
    + destruct (positions_from (ref_names c) fs 0) as [|j [|? ?]]; try discriminate; eauto.
    + intros f. unfold ref_names, f_col, f_table. rewrite Q. reflexivity.
Qed.

Lemma sort_idxs_accepts ssl hdr :
  sort_must_reject ssl hdr = false -> exists keys, sort_idxs ssl hdr = Ok keys.
Proof.
  unfold sort_must_reject. induction ssl as [|s ssl IH]; cbn; eauto.
  rewrite orb_false_iff. intros [H1 H2].
  destruct (find_column_accepts _ _ H1) as [i ->]. destruct (IH H2) as [more ->]. cbn. eauto.
Qed.

(* an ORDER BY column the oracle says must be rejected: the model refuses with an error value *)
Lemma sort_idxs_rejects ssl hdr :
  sort_must_reject ssl hdr = true -> exists e, sort_idxs ssl hdr = Err e.
Proof.
  unfold sort_must_reject. induction ssl as [|s ssl IH]; cbn; try discriminate.
  destruct (must_reject (ss_key s) hdr) eqn:R; cbn.
  - intros _. pose proof (must_reject_find _ _ R) as N. pose proof (find_column_safe (ss_key s) hdr) as S.
    destruct (find_column (ss_key s) hdr) as [i|e|w]; cbn in S.
    + exfalso. exact (N i eq_refl).
    + destruct e; eauto.
    + contradiction.
  - intros H. destruct (find_column_accepts _ _ R) as [i ->]. destruct (IH H) as [e ->]. cbn. eauto.
Qed.

Lemma mm_err d q g e : select q d = Err e -> mm_select (d, q, g) = true -> exists e', g = GErr e'.
Proof. intros E. unfold mm_select. rewrite E. destruct g; try discriminate. eauto. Qed.

(* the header the model builds for an aggregate query is the declarative one *)
Lemma header_items sl fs : Forall (fun d => item_ok d fs) sl ->
  exists hdr, project_header sl fs = Ok hdr /\ all_some (map (fun d => out_field d fs) sl) = Some hdr.
Proof.
  induction 1 as [|d sl I _ [hdr [IH1 IH2]]]; cbn [project_header map]; eauto.
  assert (H : exists f, header_cell d fs = Ok f /\ out_field d fs = Some f).
  { unfold item_ok in I. unfold header_cell, out_field.
    destruct (dc_prim d) as [ | [c|] | c | [[l|c]| | | ]]; try contradiction; cbn; eauto.
    destruct I as [i R]. rewrite R. cbn. unfold lookup_idx. rewrite (resolve_find_column _ _ _ R).
    apply resolve_some in R. destruct R as [_ [f [Hf _]]]. rewrite Hf. cbn. eauto. }
  destruct H as [f [H1 H2]]. exists (f :: hdr). rewrite H1, IH1. cbn. rewrite H2, IH2. auto.
Qed.

Lemma items_not_star sl fs : Forall (fun d => item_ok d fs) sl -> is_star sl = false.
Proof.
  intros I. unfold is_star. destruct sl as [|d [|? ?]]; auto. inversion I as [|? ? Id _]; subst.
  unfold item_ok in Id. destruct (dc_prim d); auto. contradiction.
Qed.

Lemma project_columns_seed_hdr sl gb fs base :
  typed sl gb fs base ->
  exists hdr, out_header sl fs = Some hdr /\ project_columns sl fs base = Ok (hdr, map (seed sl fs) base).
Proof.
  intros T. destruct sl as [|d sl'] eqn:Esl; [exfalso; eapply typed_nonempty; eauto|].
  pose proof (typed_first_not_star _ _ _ _ _ _ T eq_refl) as NS.
  destruct (header_items _ _ (ty_items _ _ _ _ T)) as [hdr [H1 H2]]. exists hdr. split.
  - unfold out_header. rewrite (items_not_star _ _ (ty_items _ _ _ _ T)). exact H2.
  - unfold project_columns. destruct (dc_prim d) eqn:Ed; try congruence;
      rewrite (build_lookup_items _ _ (ty_items _ _ _ _ T)); cbn [Select.obind];
      rewrite (project_rows_seed _ _ _ (ty_items _ _ _ _ T) (ty_avg _ _ _ _ T) (ty_width _ _ _ _ T)); cbn [Select.obind];
      rewrite H1; reflexivity.
Qed.

(* in the scope of the C07 oracle: select_core of the model = the aggregation of Properties/C07.v
   (agg_run) on a permutation of the declarative input, under the declarative header *)
Lemma core_agg d q fs base :
  agg_input q d = Some (fs, base) -> agg_typed (sel_list q) (sel_group q) fs base = true ->
  exists j base' hdr out,
    sel_from q = [j] /\ Permutation base base' /\
    agg_typed (sel_list q) (sel_group q) fs base' = true /\
    out_header (sel_list q) fs = Some hdr /\
    agg_run (sel_list q) (sel_group q) fs base' = Ok out /\
    select_core q d j = (keys <~ sort_idxs (sel_sort q) hdr ;; Ok (hdr, out, keys)).
Proof.
  intros AI AT. unfold agg_input in AI.
  destruct (sel_from q) as [|j [|? ?]] eqn:F; try discriminate.
  destruct (join_sem d j) as [[fs0 jrows]|] eqn:J; cbn in AI; try discriminate.
  destruct (sem_filter (sel_where q) fs0 jrows) as [kept|] eqn:SF; cbn in AI; try discriminate.
  inversion AI; subst fs0 kept. clear AI.
  destruct (join_model_meets_spec d j fs jrows J) as [mrows [MJ PJ]].
  destruct (sem_filter_perm _ _ _ _ _ (Permutation_sym PJ) SF) as [base' [SF' PK]].
  assert (AT' : agg_typed (sel_list q) (sel_group q) fs base' = true)
    by (rewrite <- (agg_typed_perm _ _ _ _ _ PK); exact AT).
  pose proof (agg_typed_typed _ _ _ _ AT') as T'.
  destruct (project_columns_seed_hdr _ _ _ _ T') as [hdr [OH P]].
  destruct (agg_model_lenient _ _ _ _ AT') as [out [E _]].
  exists j, base', hdr, out. repeat split; auto.
  unfold select_core. rewrite MJ. cbn. rewrite (sem_filter_model _ _ _ _ SF'). cbn.
  unfold agg_run in E. rewrite P in *. cbn in *. rewrite E. reflexivity.
Qed.

(* AggSpec does not depend on the order of the result rows ... *)
Lemma agg_spec_perm_out cells sl gb fs base out out' :
  Permutation out out' -> AggSpecG cells sl gb fs base out -> AggSpecG cells sl gb fs base out'.
Proof.
  intros P. unfold AggSpecG. destruct gb as [|g gb].
  - intros [o [-> H]]. apply Permutation_length_1_inv in P. subst. eauto.
  - intros [S1 [S2 S3]]. repeat split.
    + eapply Permutation_NoDup; [apply Permutation_map; exact P | exact S1].
    + intros H. apply S2. eapply Permutation_in; [apply Permutation_map; symmetry; exact P | exact H].
    + intros H. eapply Permutation_in; [apply Permutation_map; exact P | apply S2; exact H].
    + intros o Ho. apply S3. eapply Permutation_in; [symmetry; exact P | exact Ho].
Qed.

(* ... nor, AVG included, on the order of the input rows: every cell test is a function of the
   multiset of the group (sum, size, non-NULL count) or of a grouping value all members share *)
Lemma zsum_perm (f : row -> Z) l l' :
  Permutation l l' -> fold_right Z.add 0%Z (map f l) = fold_right Z.add 0%Z (map f l').
Proof. induction 1; cbn; lia. Qed.

Lemma cell_ok_perm sl0 fs d grp grp' v :
  Forall (fun d => item_ok d fs) sl0 -> In d sl0 -> Permutation grp grp' ->
  (forall g g', In g grp -> In g' grp -> key_of_base sl0 fs g = key_of_base sl0 fs g') ->
  cell_ok d fs grp' v = true -> cell_ok d fs grp v = true.
Proof.
  intros I Hd P K. unfold cell_ok.
  destruct (dc_prim d) as [ | [c|] | c | [[l|c]| | | ]] eqn:Ed; try discriminate; auto.
  - destruct (resolve c fs); auto.
    rewrite (Permutation_length (l := filter _ grp) (l' := filter (fun g => negb (value_eqb (nth n g VNull) VNull)) grp')); auto.
    apply filter_perm. exact P.
  - rewrite (Permutation_length P). auto.
  - destruct (resolve c fs); auto. destruct v; auto.
    rewrite (zsum_perm _ _ _ P), (Permutation_length P). auto.
  - destruct (resolve c fs) as [i|] eqn:R; try discriminate.
    destruct grp' as [|g' r']; try discriminate.
    destruct grp as [|g r]; [apply Permutation_nil in P; discriminate|].
    intros H1. apply value_eqb_spec in H1. subst v. apply value_eqb_spec.
    symmetry. apply (key_component sl0 fs g g' I) with (d := d) (c := c); auto.
    apply K; [left; auto|]. eapply Permutation_in; [symmetry; exact P|]. left; auto.
Qed.

Lemma cells_lenient_perm sl0 sl fs grp grp' : forall o,
  Forall (fun d => item_ok d fs) sl0 -> (forall d, In d sl -> In d sl0) -> Permutation grp grp' ->
  (forall g g', In g grp -> In g' grp -> key_of_base sl0 fs g = key_of_base sl0 fs g') ->
  cells_ok_lenient sl fs grp' o = true -> cells_ok_lenient sl fs grp o = true.
Proof.
  intros o I. revert o. induction sl as [|d sl IH]; intros [|v o] Sub P K; cbn; auto.
  rewrite !andb_true_iff. intros [H1 H2]. split; [|apply IH; auto; intros d' Hd'; apply Sub; right; auto].
  assert (C : cell_ok d fs grp' v = true -> cell_ok d fs grp v = true).
  { apply (cell_ok_perm sl0); auto. apply Sub. left; auto. }
  unfold cell_ok_lenient in *. destruct (dc_prim d); auto.
  rewrite (Permutation_length P). apply orb_true_iff in H1. apply orb_true_iff. destruct H1; auto.
Qed.

Lemma agg_spec_lenient_perm sl gb fs base base' out :
  typed sl gb fs base -> Permutation base base' ->
  AggSpecLenient sl gb fs base' out -> AggSpecLenient sl gb fs base out.
Proof.
  intros T P. pose proof (ty_items _ _ _ _ T) as I. unfold AggSpecLenient, AggSpecG. destruct gb as [|g gb].
  - intros [o [-> H]]. exists o. split; auto.
    apply (cells_lenient_perm sl sl fs base base' o I); auto.
    intros g g' _ _. rewrite !key_of_base_aggr; auto; apply (typed_nogroup_aggr _ _ _ T).
  - intros [S1 [S2 S3]]. split; auto. split.
    + intros k. rewrite S2. rewrite !in_map_iff. split; intros [b [E Hb]]; exists b; split; auto.
      * eapply Permutation_in; [symmetry; exact P | exact Hb].
      * eapply Permutation_in; [exact P | exact Hb].
    + intros o Ho. apply (cells_lenient_perm sl sl fs _ (group_of sl fs base' (key_of_out sl o)) o I); auto.
      * apply group_of_perm. exact P.
      * intros x y Hx Hy. rewrite (group_of_key _ _ _ _ _ Hx), (group_of_key _ _ _ _ _ Hy). reflexivity.
Qed.

(* the oracle, for any cell test the model meets and that does not depend on the input order *)
Lemma c07_generic cells d q g :
  (forall gb fs base out, agg_typed (sel_list q) gb fs base = true -> agg_run (sel_list q) gb fs base = Ok out ->
     AggSpecG cells (sel_list q) gb fs base out) ->
  (forall gb fs base base' out, typed (sel_list q) gb fs base -> Permutation base base' ->
     AggSpecG cells (sel_list q) gb fs base' out -> AggSpecG cells (sel_list q) gb fs base out) ->
  hyp_c07 (d, q, g) = true -> mm_select (d, q, g) = true -> sm_c07_with (check_agg_g cells) (d, q, g) = true.
Proof.
  intros A B. unfold hyp_c07, sm_c07_with. intros WF M.
  destruct (agg_query_typed q d) eqn:AQ; auto.
  unfold agg_query_typed in AQ. rewrite !andb_true_iff, !negb_true_iff in AQ. destruct AQ as [[L O] AT].
  destruct (agg_input q d) as [[fs base]|] eqn:AI; try discriminate.
  destruct (core_agg d q fs base AI AT) as [j [base' [hdr [out [F [PB [AT' [OH [E C]]]]]]]]].
  rewrite OH. destruct (sort_must_reject (sel_sort q) hdr) eqn:SMR.
  - (* a sort key the engine has to reject: the model refuses, so does Go *)
    destruct (sort_idxs_rejects _ _ SMR) as [e SI]. rewrite SI in C. cbn in C.
    assert (Sel : select q d = Err e) by (unfold select; rewrite F, C; reflexivity).
    destruct (mm_err _ _ _ _ Sel M) as [e' ->]. reflexivity.
  - destruct (sort_idxs_accepts _ _ SMR) as [keys SI]. rewrite SI in C. cbn in C.
    pose proof (agg_typed_typed _ _ _ _ AT') as T'.
    assert (NE' : sel_list q <> []) by (eapply typed_nonempty; eauto).
    assert (Sh : all_star (sel_list q) = true \/ match sel_list q with d0 :: _ => dc_prim d0 <> SPStar | [] => True end).
    { right. destruct (sel_list q) as [|d0 sl'] eqn:Esl; auto. eapply typed_first_not_star; eauto. }
    destruct (select_core_rows_ok d q j hdr out keys WF NE' Sh C) as [n [RO K]].
    destruct (mm_sorted_perm d q g j [] hdr out keys n F C RO K L O M) as [r [-> [PR SR]]].
    rewrite !andb_true_iff. repeat split.
    + apply check_agg_g_iff. apply (B _ _ base base'); auto.
      * apply agg_typed_typed. exact AT.
      * apply (agg_spec_perm_out cells _ _ _ _ out r); [symmetry; exact PR|]. apply A; auto.
    + apply fields_eqb_iff. reflexivity.
    + destruct (sem_sortkeys (sel_sort q) hdr) as [keys0|] eqn:SK0; auto.
      apply sem_sortkeys_model in SK0. rewrite SI in SK0. inversion SK0; subst keys0.
      apply sortedb_iff. exact SR.
Qed.

(* everything but AVG over three or more rows: all aggregate queries *)
Theorem c07_agreement_implies_lenient_acceptance c :
  hyp_c07 c = true -> mm_select c = true -> sm_c07_lenient c = true.
Proof.
  destruct c as [[d q] g]. apply (c07_generic cells_ok_lenient).
  - intros gb fs base out AT E. destruct (agg_model_lenient _ _ _ _ AT) as [out' [E' S]].
    rewrite E in E'. inversion E'; subst. exact S.
  - intros gb fs base base' out T P S. eapply agg_spec_lenient_perm; eauto.
Qed.

(* the full oracle: queries without avg() *)
Theorem c07_agreement_implies_acceptance_no_avg c :
  hyp_c07 c = true -> no_avg_c c = true -> mm_select c = true -> sm_c07 c = true.
Proof.
  destruct c as [[d q] g]. intros H N. cbn in N. revert H. apply (c07_generic cells_ok).
  - intros gb fs base out AT E. destruct (agg_no_avg_full _ _ _ _ N AT) as [out' [E' S]].
    rewrite E in E'. inversion E'; subst. exact S.
  - intros gb fs base base' out T P S. eapply agg_spec_perm; eauto.
Qed.

(* the full oracle, with the exact exclusion of F8b: no avg() in the select list, or every group
   of the declarative input (FROM / WHERE rows with equal grouping values; the whole input
   without GROUP BY) has at most two rows *)
Definition groups_small (sl : list derivedcol) (gb : list colref) (fs : list field) (base : list row) : bool :=
  no_avg sl ||
  match gb with
  | [] => (List.length base <=? 2)%nat
  | _ => forallb (fun rw => (List.length (group_of sl fs base (key_of_base sl fs rw)) <=? 2)%nat) base
  end.

Definition f8b_free (c : sel_case) : bool :=
  let '(d, q, _) := c in
  match agg_input q d with
  | Some (fs, base) => groups_small (sel_list q) (sel_group q) fs base
  | None => true
  end.

Lemma lenient_strict_small sl fs grp : forall o,
  no_avg sl = true \/ (List.length grp <= 2)%nat ->
  cells_ok_lenient sl fs grp o = true -> cells_ok sl fs grp o = true.
Proof.
  intros o [N|S]; [apply lenient_no_avg; auto|]. revert o.
  induction sl as [|d sl IH]; intros [|v o]; cbn; auto.
  rewrite !andb_true_iff. intros [H1 H2]. split; auto.
  unfold cell_ok_lenient in H1. destruct (dc_prim d) eqn:Ed; auto.
  apply orb_true_iff in H1. destruct H1 as [H1|H1]; auto.
  apply andb_true_iff in H1. destruct H1 as [H1 _]. apply Nat.leb_le in H1. lia.
Qed.

Lemma check_lenient_strict sl gb fs base out :
  groups_small sl gb fs base = true -> check_agg_lenient sl gb fs base out = true -> check_agg sl gb fs base out = true.
Proof.
  unfold groups_small, check_agg_lenient, check_agg, check_agg_g. rewrite orb_true_iff. intros G.
  destruct gb as [|g gb].
  - destruct out as [|o [|? ?]]; auto. apply lenient_strict_small.
    destruct G as [G|G]; auto. right. apply Nat.leb_le. exact G.
  - rewrite !andb_true_iff. intros [[[H1 H2] H3] H4]. repeat split; auto.
    rewrite forallb_forall in *. intros o Ho. apply lenient_strict_small; auto.
    destruct G as [G|G]; auto. right.
    specialize (H2 o Ho). apply existsb_exists in H2. destruct H2 as [rw [Hrw E]].
    apply key_eqb_iff in E. rewrite E. apply Nat.leb_le. apply G. exact Hrw.
Qed.

Theorem c07_agreement_implies_acceptance c :
  hyp_c07 c = true -> f8b_free c = true -> mm_select c = true -> sm_c07 c = true.
Proof.
  intros H G M. pose proof (c07_agreement_implies_lenient_acceptance c H M) as S.
  destruct c as [[d q] g]. unfold sm_c07_lenient, sm_c07, sm_c07_with, f8b_free in *.
  destruct (agg_query_typed q d); auto.
  destruct (agg_input q d) as [[fs base]|]; auto.
  destruct (match out_header (sel_list q) fs with Some hdr => sort_must_reject (sel_sort q) hdr | None => false end); auto.
  destruct g; auto.
  rewrite andb_true_iff in *. destruct S as [S1 S2]. split; auto.
  apply check_lenient_strict; auto.
Qed.
