(* C08, byte-exact Tuple.Encode sub-check: the oracle `tuple_spec` (Spec/TupleObs.v: decoding
   what Go encoded gives the values back) and the proposed `tuple_spec_strict` (round trip + size
   law + refusal conditions, stated with Spec/TableSpec.v row_err / row_size) accept the model's own
   behaviour (encode_tuple / decode_row of Model/Tuple.v) for every schema and every tuple map;
   hence "the model agrees with Go on this case" (tuple_model_agrees) implies "the oracle accepts
   what Go did".

   No condition on the schema is needed (column names may repeat: every column of one name reads
   the same value of the map). One hypothesis on the case, on the INPUT:
   `tuple_vals_ok`: the values the schema's columns read are Go values - integers within int64,
   strings shorter than 2^32 bytes (RefineCodec.val_ok, the `hev_ok` of C01). The model's integers
   are unbounded: a BIGINT column given 2^63 is encoded modulo 2^64 and decoded as -2^63, which the
   oracle rightly rejects (oracle_rejects_model_without_vals_ok); Go cannot hold such a value.
   (An earlier `tuple_model_agrees` did not look at a decode that Go failed to do, which needed a
   second hypothesis on the observation; it now compares it with the model, which decodes
   everything it encodes: failed_decode_now_disagrees.) *)
From Coq Require Import Arith Lia Bool List NArith ZArith String Ascii.
From Mkdb Require Import Model.Engine Spec.TableSpec Spec.HistObs Spec.TupleObs Proofs.BytesProofs
  Proofs.TupleProofs Proofs.RefineCodec.
Import ListNotations.
Local Open Scope N_scope.
Local Open Scope string_scope.
Local Open Scope list_scope.

(* ====================== the hypotheses ====================== *)
Definition tuple_vals_ok (c : tuple_case) : bool :=
  let '(sch, m, _, _) := c in forallb (fun fd => val_ok (tget (fd_name fd) m)) sch.

(* what the model does on the input of a case *)
Definition tuple_model_obs (sch : schema) (m : tuple) : res bytes * option row :=
  (encode_tuple sch m,
   match encode_tuple sch m with
   | Ok bs => match decode_row sch bs with Ok r => Some r | _ => None end
   | _ => None
   end).

(* ====================== equalities ====================== *)
Lemma bytes_eqb_eq a b : bytes_eqb a b = true <-> a = b.
Proof. apply list_eqb_spec. intros x y. apply Ascii.eqb_eq. Qed.

Lemma row_eqb_eq a b : row_eqb a b = true <-> a = b.
Proof. apply list_eqb_spec. apply value_eqb_spec. Qed.

Lemma row_eqb_refl a : row_eqb a a = true.
Proof. apply row_eqb_eq. reflexivity. Qed.

Lemma vals_ok_Forall sch m :
  forallb (fun fd => val_ok (tget (fd_name fd) m)) sch = true ->
  Forall (fun v => val_ok v = true) (row_of sch m).
Proof.
  intros H. unfold row_of. apply Forall_forall. intros v Hv. apply in_map_iff in Hv as (fd & <- & Hin).
  rewrite forallb_forall in H. exact (H fd Hin).
Qed.

(* ====================== reading back by name, names possibly repeated ====================== *)
Definition or_else (v d : value) : value := match v with VNull => d | _ => v end.

Lemma fill_row_of_get m k : forall sch acc,
  tget k (fill sch (row_of sch m) acc) =
  if existsb (String.eqb k) (names sch) then or_else (tget k m) (tget k acc) else tget k acc.
Proof.
  induction sch as [|fd sr IH]; intros acc; [reflexivity|].
  change (row_of (fd :: sr) m) with (tget (fd_name fd) m :: row_of sr m).
  rewrite fill_cons, IH. clear IH. cbn [names map existsb]. fold (names sr).
  set (v := tget (fd_name fd) m).
  set (acc1 := match v with VNull => acc | _ => tset (fd_name fd) v acc end).
  destruct (String.eqb_spec k (fd_name fd)) as [E|Hne]; cbn [orb].
  - subst k. fold v.
    assert (E2 : tget (fd_name fd) acc1 = or_else v (tget (fd_name fd) acc)).
    { subst acc1. unfold or_else. destruct v; try apply tget_tset_same. reflexivity. }
    assert (E1 : or_else v (tget (fd_name fd) acc1) = or_else v (tget (fd_name fd) acc)).
    { rewrite E2. unfold or_else. destruct v; reflexivity. }
    destruct (existsb (String.eqb (fd_name fd)) (names sr)); [exact E1 | exact E2].
  - assert (E : tget k acc1 = tget k acc).
    { subst acc1. destruct v; try reflexivity; apply tget_tset_other; congruence. }
    rewrite E. reflexivity.
Qed.

Lemma row_of_fill_row_of sch m : row_of sch (fill sch (row_of sch m) []) = row_of sch m.
Proof.
  unfold row_of at 1 3. apply map_ext_in. intros fd Hin. rewrite fill_row_of_get.
  assert (Hex : existsb (String.eqb (fd_name fd)) (names sch) = true).
  { apply existsb_exists. exists (fd_name fd). split; [apply in_map; exact Hin | apply String.eqb_refl]. }
  rewrite Hex. unfold or_else. destruct (tget (fd_name fd) m); reflexivity.
Qed.

(* ====================== what Tuple.Encode does, in the specification's terms ====================== *)
(* accepted: every value is valid for its column, the size is the specification's, and decoding
   gives the values back *)
Lemma encode_ok_spec sch m bs :
  forallb (fun fd => val_ok (tget (fd_name fd) m)) sch = true ->
  encode_tuple sch m = Ok bs ->
  row_err sch (row_of sch m) = None /\ List.length bs = row_size sch (row_of sch m) /\
  decode_row sch bs = Ok (row_of sch m).
Proof.
  intros Hok H. pose proof (vals_ok_Forall sch m Hok) as Hf. rewrite encode_tuple_vals in H.
  destruct (encode_vals_ok sch _ bs H (row_of_length sch m) Hf) as (A & B & C & D).
  split; [exact C|]. split; [exact D|]. subst bs.
  unfold decode_row. rewrite (decode_tuple_enc sch _ B). cbn [bind]. f_equal.
  exact (row_of_fill_row_of sch m).
Qed.

(* refused: some value is invalid for its column; the error is the specification's *)
Lemma encode_vals_err sch : forall r e,
  encode_vals sch r = Err e -> row_err sch r = Some e /\ (e = ETypeMismatch \/ e = EIntRange).
Proof.
  induction sch as [|fd sr IH]; intros r e H; [destruct r; discriminate|].
  destruct r as [|v vr]; [discriminate|].
  assert (Hcase : v = VNull \/ v <> VNull) by (destruct v; auto; right; discriminate).
  destruct Hcase as [->|Hnn].
  - cbn [encode_vals] in H. cbn [row_err value_ok].
    destruct (encode_vals sr vr) as [rest|e0|] eqn:Er; cbn [bind] in H; try discriminate.
    inversion H; subst e0. exact (IH vr e Er).
  - destruct (encode_vals_cons_nn fd sr v vr Hnn) as [E1 _]. rewrite E1 in H. clear E1.
    cbn [row_err].
    destruct (validate (fd_type fd) v) as [[]|e0|] eqn:Ev; cbn [bind] in H.
    + rewrite (validate_value_ok _ _ Hnn Ev).
      destruct (encode_vals sr vr) as [rest|e1|] eqn:Er; cbn [bind] in H; try discriminate.
      inversion H; subst e1. exact (IH vr e Er).
    + inversion H; subst e0. clear H.
      destruct v as [z|s|b|], (fd_type fd); cbn in Ev |- *; try congruence;
        try (inversion Ev; subst; auto; fail).
      unfold Tuple.int32_ok in Ev. unfold TableSpec.int32_ok.
      destruct (_ && _); [discriminate | inversion Ev; subst; auto].
    + discriminate H.
Qed.

Lemma encode_vals_no_panic sch : forall r, encode_vals sch r <> Panic.
Proof.
  induction sch as [|fd sr IH]; intros r; [destruct r; discriminate|].
  destruct r as [|v vr]; [discriminate|]. specialize (IH vr).
  assert (Hv : validate (fd_type fd) v <> Panic).
  { destruct v, (fd_type fd); cbn; try discriminate. destruct (Tuple.int32_ok z); discriminate. }
  cbn [encode_vals].
  destruct v; destruct (validate (fd_type fd) _) as [[]| |]; cbn [bind]; try discriminate; try congruence;
    destruct (encode_vals sr vr); cbn [bind]; try discriminate; congruence.
Qed.

Lemma encode_err_spec sch m e :
  encode_tuple sch m = Err e ->
  row_err sch (row_of sch m) = Some e /\ (e = ETypeMismatch \/ e = EIntRange).
Proof. rewrite encode_tuple_vals. apply encode_vals_err. Qed.

Lemma encode_no_panic sch m : encode_tuple sch m <> Panic.
Proof. rewrite encode_tuple_vals. apply encode_vals_no_panic. Qed.

(* ====================== the oracles accept the model ====================== *)
Theorem tuple_oracle_accepts_model : forall sch m,
  forallb (fun fd => val_ok (tget (fd_name fd) m)) sch = true ->
  tuple_spec (sch, m, fst (tuple_model_obs sch m), snd (tuple_model_obs sch m)) = true /\
  tuple_spec_strict (sch, m, fst (tuple_model_obs sch m), snd (tuple_model_obs sch m)) = true.
Proof.
  intros sch m Hok. unfold tuple_model_obs, tuple_spec, tuple_spec_strict. cbn [fst snd].
  fold (row_of sch m).
  destruct (encode_tuple sch m) as [bs|e|] eqn:Ee.
  - destruct (encode_ok_spec sch m bs Hok Ee) as (A & B & C). rewrite A, B, C, Nat.eqb_refl, row_eqb_refl. auto.
  - destruct (encode_err_spec sch m e Ee) as (A & [-> | ->]); rewrite A; auto.
  - exfalso. exact (encode_no_panic sch m Ee).
Qed.

(* ====================== agreement implies acceptance ====================== *)
Lemma agreement_facts sch m enc dec :
  tuple_model_agrees (sch, m, enc, dec) = true ->
  encode_tuple sch m = enc /\
  match enc, dec with
  | Ok bs, Some r => decode_row sch bs = Ok r
  | Ok bs, None => forall r, decode_row sch bs <> Ok r
  | _, _ => True
  end.
Proof.
  unfold tuple_model_agrees. intros H. apply andb_true_iff in H as [H1 H2].
  assert (E : encode_tuple sch m = enc).
  { destruct (encode_tuple sch m) as [x|x|], enc as [y|y|]; cbn in H1; try discriminate; try reflexivity.
    - apply bytes_eqb_eq in H1. subst. reflexivity.
    - f_equal. destruct x, y; cbn in H1; try discriminate; reflexivity. }
  split; [exact E|]. destruct enc as [bs|e|]; auto. destruct dec as [r|].
  - destruct (decode_row sch bs) as [r'| |]; try discriminate. apply row_eqb_eq in H2. subst. reflexivity.
  - destruct (decode_row sch bs) as [r'| |]; try discriminate; intros r; discriminate.
Qed.

Theorem tuple_agreement_implies_strict_acceptance : forall c : tuple_case,
  tuple_vals_ok c = true -> tuple_model_agrees c = true -> tuple_spec_strict c = true.
Proof.
  intros [[[sch m] enc] dec] Hok Hag. unfold tuple_vals_ok in *.
  destruct (agreement_facts sch m enc dec Hag) as [Ee Hd]. unfold tuple_spec_strict. fold (row_of sch m).
  destruct enc as [bs|e|].
  - destruct (encode_ok_spec sch m bs Hok Ee) as (A & B & C).
    destruct dec as [r|]; [|exfalso; exact (Hd _ C)].
    rewrite C in Hd. inversion Hd; subst.
    rewrite A, B, Nat.eqb_refl, row_eqb_refl. reflexivity.
  - destruct (encode_err_spec sch m e Ee) as (A & [-> | ->]); rewrite A; reflexivity.
  - exfalso. exact (encode_no_panic sch m Ee).
Qed.

(* the strict oracle implies the one the check uses *)
Lemma tuple_spec_strict_implies_spec c : tuple_spec_strict c = true -> tuple_spec c = true.
Proof.
  destruct c as [[[sch m] enc] dec]. unfold tuple_spec_strict, tuple_spec.
  destruct enc as [bs|e|]; auto. intros H. apply andb_true_iff in H as [_ H].
  destruct dec; [exact H | discriminate].
Qed.

Theorem tuple_agreement_implies_acceptance : forall c : tuple_case,
  tuple_vals_ok c = true -> tuple_model_agrees c = true -> tuple_spec c = true.
Proof.
  intros c Hok Hag. apply tuple_spec_strict_implies_spec.
  exact (tuple_agreement_implies_strict_acceptance c Hok Hag).
Qed.

(* ====================== the hypothesis is needed ====================== *)
(* a BIGINT column given 2^63: the model (unbounded integers) encodes it modulo 2^64 and reads back
   -2^63; the oracles reject that - rightly; Go's int64 cannot hold the value *)
Example oracle_rejects_model_without_vals_ok :
  let sch := [mkField TBigInt "a" 0] in
  let m := [("a", VInt 9223372036854775808)] in
  let c := (sch, m, fst (tuple_model_obs sch m), snd (tuple_model_obs sch m)) in
  tuple_vals_ok c = false /\ tuple_model_agrees c = true /\
  tuple_spec c = false /\ tuple_spec_strict c = false /\
  snd (tuple_model_obs sch m) = Some [VInt (-9223372036854775808)].
Proof. vm_compute. repeat split; reflexivity. Qed.

(* Go encoded the row as the model does but failed to decode it: the agreement function now
   notices (the model decodes these bytes), as the oracles do *)
Example failed_decode_now_disagrees :
  let sch := [mkField TInt "a" 0] in
  let m := [("a", VInt 5)] in
  let c := (sch, m, encode_tuple sch m, None) in
  tuple_vals_ok c = true /\ tuple_model_agrees c = false /\
  tuple_spec c = false /\ tuple_spec_strict c = false /\ decode_row sch (B [0; 5; 0; 0; 0]) = Ok [VInt 5] /\
  tuple_model_agrees (sch, m, encode_tuple sch m, Some [VInt 5]) = true.
Proof. vm_compute. repeat split; reflexivity. Qed.

(* what `tuple_spec` lets through and `tuple_spec_strict` (the oracle of the check) does not: a
   valid row refused, an encoding with a byte too many that still decodes (Decode ignores trailing
   bytes), a panic; the agreement function rejects all three as well *)
Example tuple_spec_strict_rejects :
  let sch := [mkField TInt "a" 0] in
  let m := [("a", VInt 5)] in
  tuple_spec (sch, m, Err ETypeMismatch, None) = true /\
  tuple_spec_strict (sch, m, Err ETypeMismatch, None) = false /\
  tuple_spec (sch, m, Ok (B [0; 5; 0; 0; 0; 0]), Some [VInt 5]) = true /\
  tuple_spec_strict (sch, m, Ok (B [0; 5; 0; 0; 0; 0]), Some [VInt 5]) = false /\
  tuple_spec (sch, m, Panic, None) = true /\
  tuple_spec_strict (sch, m, Panic, None) = false /\
  tuple_spec_strict (sch, m, Ok (B [0; 5; 0; 0; 0]), Some [VInt 5]) = true /\
  tuple_model_agrees (sch, m, Err ETypeMismatch, None) = false /\
  tuple_model_agrees (sch, m, Ok (B [0; 5; 0; 0; 0; 0]), Some [VInt 5]) = false /\
  tuple_model_agrees (sch, m, Panic, None) = false.
Proof. vm_compute. repeat split; reflexivity. Qed.
