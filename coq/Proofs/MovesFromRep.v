(* C02's hypothesis (H2) (`stmt_moves_ok`: the catalog row rewritten by updatePageTable, found by
   table name, is the first live row holding the old root offset - the row redoRootMove rewrites)
   derived from the refinement invariant `Rep` of the C01 development.

   `Rep s d` alone does not imply it: `Cat.c_offs` says nothing about the offset stored in sys_pages'
   OWN catalog row (the first row of sys_pages; the code never maintains it, the header field
   pageTableRoot is what follows the page-table root). A store satisfying Rep in which that stale
   offset equals the root of a user table would make redoRootMove rewrite sys_pages' own row. Such
   a store is not reachable: the stale offset is the offset of the very first page of the file (PS),
   which stays a page of the sys_pages tree for ever, while every other root is allocated later.
   This is the extra invariant `SelfOk` below; it is established by create_db and preserved by
   every primitive of the relation layer. *)
From Coq Require Import Arith Lia Bool List NArith ZArith String Sorted Permutation.
From Mkdb Require Import Model.Engine Spec.TableSpec Spec.HistObs Proofs.TreeProofs Proofs.StoreInv
  Proofs.BytesProofs Proofs.TupleProofs Proofs.RefineForest Proofs.RefineCodec Proofs.RefineRep
  Proofs.RefineCat Proofs.RefineDML Proofs.RefineDDL Proofs.Atomic Proofs.RefineMain Proofs.RefineFail
  Proofs.CrashBase Proofs.CrashPages Proofs.CrashRedo Proofs.CrashLog Proofs.CrashMain Proofs.CrashPrefix
  Proofs.CrashTorn Proofs.CrashTornInv Proofs.CrashHist Gen.Params.
Import ListNotations.
Local Open Scope N_scope.
Local Open Scope string_scope.
Local Open Scope list_scope.

(* ====================== the extra invariant ====================== *)
(* sys_pages' own catalog row holds PS (the first page of the file); every root of the forest
   other than the page-table root lies above PS *)
Definition SelfOk (s : store) : Prop :=
  rel_offset s "sys_pages" = Ok PS /\ PS < nextFree s /\
  forall o t, find_root o (forest s) = Some t -> o = ptRoot s \/ PS < o.

Lemma rel_offset_frame s s' n :
  ptRoot s' = ptRoot s -> find_root (ptRoot s) (forest s') = find_root (ptRoot s) (forest s) ->
  rel_offset s' n = rel_offset s n.
Proof. intros Hp Hf. unfold rel_offset, get_tree. rewrite Hp, Hf. reflexivity. Qed.

(* the general frame rule: the page-table tree is untouched, roots are old ones or fresh ones *)
Lemma SelfOk_frame s s' :
  SInv s -> SelfOk s -> ptRoot s' = ptRoot s ->
  find_root (ptRoot s) (forest s') = find_root (ptRoot s) (forest s) ->
  nextFree s <= nextFree s' ->
  (forall o t, find_root o (forest s') = Some t ->
               (exists t0, find_root o (forest s) = Some t0) \/ nextFree s <= o) ->
  SelfOk s'.
Proof.
  intros Hinv (A & B & C) Hp Hf Hn Hr. split; [|split].
  - rewrite (rel_offset_frame s s' _ Hp Hf). exact A.
  - lia.
  - intros o t Ho. rewrite Hp. destruct (Hr o t Ho) as [[t0 H0]|H0]; [eapply C; eauto | right; lia].
Qed.

Lemma SelfOk_ext s s' :
  SInv s -> SelfOk s -> forest s' = forest s -> ptRoot s' = ptRoot s -> nextFree s <= nextFree s' -> SelfOk s'.
Proof.
  intros Hinv H Hf Hp Hn. apply (SelfOk_frame s s' Hinv H Hp); [rewrite Hf; reflexivity | exact Hn|].
  intros o t Ho. left. rewrite Hf in Ho. eauto.
Qed.

(* ---------- equality up to dirty flags ---------- *)
Lemma in_roots_find o f : In o (roots f) -> exists t, find_root o f = Some t.
Proof.
  intros Hin. destruct (find_root o f) as [t|] eqn:E; [eauto|]. exfalso.
  apply in_map_iff in Hin as (t & Ht & Hin). rewrite find_root_None in E. exact (E t Hin Ht).
Qed.

Lemma roots_fclean f : roots (fclean f) = roots f.
Proof. unfold roots, fclean. rewrite map_map. apply map_ext. intros t. apply erase_off. Qed.

Lemma SelfOk_seq a b : seq a b -> SelfOk b -> SelfOk a.
Proof.
  intros S (A & B & C). split; [|split].
  - rewrite (seq_rel_offset a b _ S). exact A.
  - rewrite (seq_free _ _ S). exact B.
  - intros o t Ho. rewrite (seq_pt _ _ S). destruct (find_root_In _ _ _ Ho) as [Hin Hoff].
    assert (Hr : In o (roots (forest b))).
    { rewrite <- roots_fclean, <- (seq_forest _ _ S), roots_fclean. unfold roots. rewrite <- Hoff. apply in_map. exact Hin. }
    destruct (in_roots_find _ _ Hr) as [t' Ht']. eapply C; eauto.
Qed.

Lemma SelfOk_flush s : SelfOk s -> SelfOk (flush s).
Proof. apply SelfOk_seq. apply seq_flush. Qed.

(* ---------- the initial database ---------- *)
Lemma roots_above f p :
  Forall (fun t => t_off t = p \/ PS < t_off t) f ->
  forall o t, find_root o f = Some t -> o = p \/ PS < o.
Proof.
  intros H o t Ho. destruct (find_root_In _ _ _ Ho) as [Hin Hoff]. rewrite Forall_forall in H.
  rewrite <- Hoff. apply H. exact Hin.
Qed.

Lemma SelfOk_init : SelfOk (fst create_db).
Proof.
  split; [vm_compute; reflexivity|]. split; [vm_compute; reflexivity|].
  apply roots_above. vm_compute.
  repeat (apply Forall_cons; [first [left; reflexivity | right; reflexivity]|]). apply Forall_nil.
Qed.

Lemma SelfOk_pt s : SelfOk s -> exists pt, find_root (ptRoot s) (forest s) = Some pt.
Proof.
  intros (A & _). unfold rel_offset, get_tree in A.
  destruct (find_root (ptRoot s) (forest s)) as [pt|]; [eauto | discriminate].
Qed.

(* ====================== the primitives of the relation layer ====================== *)
Lemma bt_insert_not_ok s root v s1 r :
  bt_insert s root v = (s1, r) -> (forall x, r <> Ok x) ->
  forest s1 = forest s /\ ptRoot s1 = ptRoot s /\ nextFree s1 = nextFree s.
Proof.
  unfold bt_insert. cbv zeta. destruct (get_tree s root) as [t|e|].
  - destruct (tree_insert ML MI PS MV t (lastKey s + 1) (nextLSN s) v (nextFree s)) as [[t' nf]|e].
    + intros H Hn. inversion H; subst. exfalso. eapply Hn. reflexivity.
    + intros H _. inversion H; subst. cbn. auto.
  - intros H _. inversion H; subst. auto.
  - intros H _. inversion H; subst. auto.
Qed.

(* when the root of a tree moves, its old offset no longer names a tree *)
Lemma bt_insert_old_root_gone s root v t s1 k lsn nr :
  SInv s -> find_root root (forest s) = Some t -> bt_insert s root v = (s1, Ok (k, lsn, nr)) ->
  nr <> root -> find_root root (forest s1) = None.
Proof.
  intros Hinv Hf Hb Hne. unfold bt_insert, get_tree in Hb. cbv zeta in Hb. rewrite Hf in Hb.
  destruct (tree_insert ML MI PS MV t (lastKey s + 1) (nextLSN s) v (nextFree s)) as [[t' nf]|e];
    [|destruct e; inversion Hb].
  inversion Hb; subst. clear Hb. cbn [forest].
  destruct (find_root_split root (forest s) t Hf) as (l1 & l2 & Ef & Hoff & _ & Hrep). rewrite Hrep.
  pose proof (roots_NoDup _ (si_nodup _ Hinv)) as Hnd. rewrite Ef in Hnd. unfold roots in Hnd.
  rewrite map_app in Hnd. cbn [map] in Hnd. apply NoDup_mid_notin in Hnd as [Na Nb].
  apply find_root_None. intros x Hx. apply in_app_or in Hx as [Hx|[<-|Hx]].
  - intros E. apply Na. rewrite Hoff, <- E. apply in_map. exact Hx.
  - exact Hne.
  - intros E. apply Nb. rewrite Hoff, <- E. apply in_map. exact Hx.
Qed.

(* an insert into a tree other than the page table leaves the page-table tree alone *)
Lemma bt_insert_pt_frame s pt root v s1 r :
  SInv s -> find_root (ptRoot s) (forest s) = Some pt -> root <> ptRoot s ->
  bt_insert s root v = (s1, r) ->
  SInv s1 /\ ptRoot s1 = ptRoot s /\ find_root (ptRoot s) (forest s1) = Some pt /\ nextFree s <= nextFree s1 /\
  (forall o t, find_root o (forest s1) = Some t -> (exists t0, find_root o (forest s) = Some t0) \/ nextFree s <= o).
Proof.
  intros Hinv Hpt Hne Hb.
  pose proof (bt_insert_inv s root v Hinv) as Hinv1. rewrite Hb in Hinv1. cbn [fst] in Hinv1.
  split; [exact Hinv1|].
  assert (Hbad : (forall x, r <> Ok x) ->
    ptRoot s1 = ptRoot s /\ find_root (ptRoot s) (forest s1) = Some pt /\ nextFree s <= nextFree s1 /\
    (forall o t, find_root o (forest s1) = Some t -> (exists t0, find_root o (forest s) = Some t0) \/ nextFree s <= o)).
  { intros Hn. destruct (bt_insert_not_ok _ _ _ _ _ Hb Hn) as (A & B & C). rewrite A, B, C.
    split; [reflexivity|]. split; [exact Hpt|]. split; [lia|]. intros o t Ho. left. eauto. }
  destruct r as [[[k lsn] nr]|e|]; [|apply Hbad; intros x; discriminate|apply Hbad; intros x; discriminate].
  destruct (find_root root (forest s)) as [t|] eqn:Er.
  2:{ exfalso. unfold bt_insert, get_tree in Hb. rewrite Er in Hb. inversion Hb. }
  destruct (bt_insert_spec s root v t Hinv Er s1 k lsn nr Hb)
    as (t' & _ & _ & _ & -> & _ & Hp1 & Hnf & _ & _ & Hrt & _ & Hfind & Hframe).
  pose proof (find_root_bound s _ pt Hinv Hpt) as Hptb.
  split; [exact Hp1|]. split; [|split; [exact Hnf|]].
  - rewrite Hframe; [exact Hpt | congruence|]. destruct Hrt as [Hrt|Hrt]; [congruence | lia].
  - intros o t0 Ho. destruct (N.eq_dec o (t_off t')) as [->|N1].
    + destruct Hrt as [Hrt|Hrt]; [left; rewrite Hrt; eauto | right; exact Hrt].
    + destruct (N.eq_dec o root) as [->|N2]; [left; eauto|]. left. rewrite Hframe in Ho by assumption. eauto.
Qed.

Lemma bt_insert_self s pt root v s1 r :
  SInv s -> SelfOk s -> find_root (ptRoot s) (forest s) = Some pt -> root <> ptRoot s ->
  bt_insert s root v = (s1, r) -> SelfOk s1.
Proof.
  intros Hinv HS Hpt Hne Hb.
  destruct (bt_insert_pt_frame s pt root v s1 r Hinv Hpt Hne Hb) as (_ & A & B & C & D).
  apply (SelfOk_frame s s1 Hinv HS A); [rewrite B; symmetry; exact Hpt | exact C | exact D].
Qed.

Lemma update_page_table_not_ok s nr n s2 r :
  update_page_table s nr n = (s2, r) -> (forall ws, r <> Ok ws) -> s2 = s.
Proof.
  intros H Hn. revert H. unfold update_page_table.
  repeat break_match; intros H; inversion H; subst; try reflexivity; exfalso; eapply Hn; reflexivity.
Qed.

Lemma rel_offset_cells s pt n :
  SInv s -> find_root (ptRoot s) (forest s) = Some pt -> rel_offset s n = pt_lookup n (live (all_cells pt)).
Proof.
  intros Hinv Hpt. unfold rel_offset, get_tree. rewrite Hpt. cbn [bind].
  rewrite (scan_right_okP _ _ (find_root_WFT _ _ _ Hinv Hpt)). reflexivity.
Qed.

Lemma rel_offset_head s pt o0 rest :
  SInv s -> find_root (ptRoot s) (forest s) = Some pt -> PtCells (all_cells pt) (("sys_pages", o0) :: rest) ->
  pt_fits ("sys_pages", o0) -> rel_offset s "sys_pages" = Ok o0.
Proof.
  intros Hinv Hpt Hc Hfit. rewrite (rel_offset_cells s pt _ Hinv Hpt), (PtCells_live _ _ Hc).
  destruct (all_cells pt) as [|c cs]; inversion Hc as [|? ? ? ? [_ Hv] _]; subst.
  cbn [pt_lookup]. rewrite Hv, (decode_pte _ Hfit). cbn [bind].
  rewrite tget_pt_name, tget_pt_off. cbn [fst snd value_eqb]. rewrite String.eqb_refl, N2Z.id. reflexivity.
Qed.

Lemma cat_head s d pt sc ents osc : Cat s d pt sc ents osc -> exists o0 rest, ents = ("sys_pages", o0) :: rest.
Proof.
  intros HC. pose proof (c_names _ _ _ _ _ _ HC) as Hn. destruct ents as [|[n0 o0] rest]; [discriminate|].
  cbn [map fst] in Hn. inversion Hn; subst. eauto.
Qed.

(* updatePageTable for a table other than sys_pages does not touch sys_pages' own row *)
Lemma update_page_table_self s pt o0 rest n o nr s2 r :
  SInv s -> SelfOk s -> find_root (ptRoot s) (forest s) = Some pt ->
  PtCells (all_cells pt) (("sys_pages", o0) :: rest) -> Forall pt_fits (("sys_pages", o0) :: rest) ->
  NoDup (map fst (("sys_pages", o0) :: rest)) -> In (n, o) (("sys_pages", o0) :: rest) -> n <> "sys_pages" ->
  update_page_table s nr n = (s2, r) -> SelfOk s2.
Proof.
  intros Hinv HS Hpt Hc Hfit Hnd Hin Hn Hu.
  destruct r as [ws|e|];
    [|rewrite (update_page_table_not_ok _ _ _ _ _ Hu); [exact HS | intros x; discriminate]
     |rewrite (update_page_table_not_ok _ _ _ _ _ Hu); [exact HS | intros x; discriminate]].
  destruct (update_page_table_spec s pt _ n o nr Hinv Hpt Hc Hfit Hnd Hin s2 ws Hu)
    as (pt' & Hinv2 & Hp2 & Hnf2 & _ & Hpt2 & Hframe2 & Hcells2).
  assert (Eh : map (upd n nr) (("sys_pages", o0) :: rest) = ("sys_pages", o0) :: map (upd n nr) rest).
  { cbn [map]. f_equal. unfold upd. cbn [fst]. destruct (String.eqb_spec "sys_pages" n); [congruence | reflexivity]. }
  rewrite Eh in Hcells2. inversion Hfit as [|? ? Hfit0 _]; subst.
  pose proof HS as (A & B & C).
  rewrite (rel_offset_head s pt o0 rest Hinv Hpt Hc Hfit0) in A. inversion A; subst o0.
  split; [|split].
  - apply (rel_offset_head s2 pt' PS (map (upd n nr) rest) Hinv2); [rewrite Hp2; exact Hpt2 | exact Hcells2 | exact Hfit0].
  - rewrite Hnf2. exact B.
  - intros o' t Ho. rewrite Hp2. destruct (N.eq_dec o' (ptRoot s)) as [->|Ne]; [left; reflexivity|].
    rewrite Hframe2 in Ho by exact Ne. eapply C; eauto.
Qed.

Lemma pt_lookup_app n cells more o : pt_lookup n cells = Ok o -> pt_lookup n (cells ++ more) = Ok o.
Proof.
  induction cells as [|c r IH]; cbn [pt_lookup app]; [discriminate|].
  destruct (decode_tuple pageTableSchema (lc_val c) []) as [m|e|]; cbn [bind]; try discriminate.
  destruct (value_eqb _ _); [intros H; exact H | exact IH].
Qed.

(* insertPageTable appends a row to sys_pages and follows its root in the header *)
Lemma insert_page_table_self s pt pg name s2 r :
  SInv s -> SelfOk s -> find_root (ptRoot s) (forest s) = Some pt ->
  insert_page_table s pg name = (s2, r) -> SelfOk s2.
Proof.
  intros Hinv HS Hpt Hip. unfold insert_page_table in Hip.
  destruct (encode_tuple _ _) as [bs|e|]; [|inversion Hip; subst; exact HS|inversion Hip; subst; exact HS].
  destruct (bt_insert s (ptRoot s) bs) as [s1 [[[k lsn] nr]|e|]] eqn:Eb; inversion Hip; subst; clear Hip.
  - destruct (bt_insert_spec s (ptRoot s) bs pt Hinv Hpt s1 k lsn nr Eb)
      as (t' & Hinv1 & _ & _ & -> & _ & Hp1 & Hnf & _ & _ & Hrt & Hcells & Hfind & Hframe).
    destruct HS as (A & B & C). split; [|split]; cbn [ptRoot forest nextFree].
    + unfold rel_offset, get_tree. cbn [ptRoot forest]. rewrite Hfind. cbn [bind].
      rewrite (scan_right_okP _ _ (find_root_WFT _ _ _ Hinv1 Hfind)). cbn [of_tres bind].
      unfold scan_tree. rewrite Hcells, live_app. apply pt_lookup_app.
      rewrite <- (rel_offset_cells s pt _ Hinv Hpt). exact A.
    + lia.
    + intros o t Ho. destruct (N.eq_dec o (t_off t')) as [->|N1]; [left; reflexivity|].
      destruct (N.eq_dec o (ptRoot s)) as [->|N2].
      * exfalso. rewrite (bt_insert_old_root_gone s (ptRoot s) bs pt s1 _ _ _ Hinv Hpt Eb) in Ho; [discriminate | congruence].
      * rewrite Hframe in Ho by assumption. destruct (C o t Ho) as [X|X]; [contradiction | right; exact X].
  - destruct (bt_insert_not_ok _ _ _ _ _ Eb) as (X & Y & Z); [intros x; discriminate|].
    apply (SelfOk_ext s s2 Hinv HS X Y). lia.
  - destruct (bt_insert_not_ok _ _ _ _ _ Eb) as (X & Y & Z); [intros x; discriminate|].
    apply (SelfOk_ext s s2 Hinv HS X Y). lia.
Qed.

Lemma create_page_self s : SInv s -> SelfOk s -> SelfOk (fst (create_page s)).
Proof.
  intros Hinv HS. destruct (SelfOk_pt s HS) as [pt Hpt].
  pose proof (find_root_bound s _ pt Hinv Hpt) as Hb. pose proof PS_pos as Hps.
  apply (SelfOk_frame s _ Hinv HS); [reflexivity| | unfold create_page; cbn [fst nextFree]; lia|].
  - rewrite (create_page_find s Hinv). destruct (N.eqb_spec (nextFree s) (ptRoot s)); [lia | reflexivity].
  - intros o t Ho. rewrite (create_page_find s Hinv) in Ho.
    destruct (N.eqb_spec (nextFree s) o); [right; lia | left; eauto].
Qed.

(* an in-place cell change on a page of a tree other than the page table *)
Lemma touch_self s o t pg k lsn g lk lsn' :
  SInv s -> SelfOk s -> find_root o (forest s) = Some t -> o <> ptRoot s -> In pg (offsets_of t) ->
  SelfOk (mkStore (touch_forest pg k lsn g (forest s)) lk (ptRoot s) (nextFree s) lsn').
Proof.
  intros Hinv HS Hf Hne Hpg.
  destruct (touch_forest_find (forest s) o t pg k lsn g (si_nodup _ Hinv) Hf Hpg) as [T1 T2].
  apply (SelfOk_frame s _ Hinv HS); cbn [ptRoot forest nextFree]; [reflexivity | apply T2; congruence | lia|].
  intros o' t' Ho. left. destruct (N.eq_dec o' o) as [->|N1]; [eauto|]. rewrite T2 in Ho by exact N1. eauto.
Qed.

(* ====================== one row of an INSERT ====================== *)
Lemma rel_offset_entry s d pt sc ents osc n off :
  SInv s -> Cat s d pt sc ents osc -> rel_offset s n = Ok off -> In (n, off) ents.
Proof.
  intros Hinv HC H.
  rewrite (rel_offset_cat s pt ents n Hinv (c_pt _ _ _ _ _ _ HC) (c_ptcells _ _ _ _ _ _ HC) (c_ptfits _ _ _ _ _ _ HC)) in H.
  destruct (find _ ents) as [e|] eqn:E; [|discriminate]. apply find_some in E as [Hin Hn].
  apply String.eqb_eq in Hn. inversion H; subst. destruct e; exact Hin.
Qed.

Lemma not_sys_table n : is_sys_table n = false -> n <> "sys_pages".
Proof.
  unfold is_sys_table, pageTableName. intros H. apply orb_false_iff in H as [A _]. apply String.eqb_neq in A. exact A.
Qed.

(* insert into the tree of a catalogued table other than sys_pages, then (whatever the new root)
   updatePageTable for that table *)
Lemma root_insert_self s d n off v s1 r :
  Rep s d -> SelfOk s -> rel_offset s n = Ok off -> n <> "sys_pages" ->
  bt_insert s off v = (s1, r) ->
  SelfOk s1 /\ forall nr s2 r2, update_page_table s1 nr n = (s2, r2) -> SelfOk s2.
Proof.
  intros [Hinv Hok (pt & sc & ents & osc & HC)] HS Hro Hn Hb.
  pose proof (rel_offset_entry s d pt sc ents osc n off Hinv HC Hro) as Hin.
  pose proof (cat_offset_not_ptroot s d pt sc ents osc HC n off Hin Hn) as Hne.
  destruct (bt_insert_pt_frame s pt off v s1 r Hinv (c_pt _ _ _ _ _ _ HC) Hne Hb) as (Hinv1 & Hp1 & Hpt1 & Hnf & Hroots).
  assert (HS1 : SelfOk s1) by (exact (bt_insert_self s pt off v s1 r Hinv HS (c_pt _ _ _ _ _ _ HC) Hne Hb)).
  split; [exact HS1|]. intros nr s2 r2 Hu.
  pose proof (cat_names_NoDup d ents Hok (c_names _ _ _ _ _ _ HC)) as Hnd.
  pose proof (c_ptcells _ _ _ _ _ _ HC) as Hc. pose proof (c_ptfits _ _ _ _ _ _ HC) as Hfit.
  destruct (cat_head _ _ _ _ _ _ HC) as (o0 & rest & E). subst ents.
  eapply (update_page_table_self s1 pt o0 rest n off nr s2 r2); eauto. rewrite Hp1. exact Hpt1.
Qed.

Lemma ins_prelude_off s n cols vals off bs :
  ins_prelude s n cols vals = Ok (off, bs) -> rel_offset s n = Ok off /\ exists t, find_root off (forest s) = Some t.
Proof.
  unfold ins_prelude. destruct (rel_offset s n) as [o|e|]; cbn [bind]; try discriminate.
  unfold get_tree. destruct (find_root o (forest s)) as [t|] eqn:Ef; cbn [bind]; try discriminate.
  destruct (rel_schema s n) as [sch|e|]; cbn [bind]; try discriminate.
  destruct (negb _); try discriminate.
  destruct (encode_tuple _ _) as [b|e|]; cbn [bind]; try discriminate.
  intros H. inversion H; subst. eauto.
Qed.

Lemma st_insert_self s d n cols vals s' ws :
  Rep s d -> SelfOk s -> st_insert s n cols vals = (s', Ok ws) -> SelfOk s'.
Proof.
  intros HR HS Hst.
  destruct (st_insert_shape _ _ _ _ _ _ Hst) as (off & bs & b1 & k & lsn & nr & Hsys & Hpre & Hbt & Hcase).
  destruct (ins_prelude_off _ _ _ _ _ _ Hpre) as [Hro _].
  destruct (root_insert_self s d n off bs b1 _ HR HS Hro (not_sys_table _ Hsys) Hbt) as [H1 H2].
  destruct Hcase as [(_ & -> & _)|(_ & ws' & Hup & _)]; [exact H1 | eapply H2; exact Hup].
Qed.

(* ====================== (H2) for one row ====================== *)
Lemma pt_scan_agree P Q pg cs rest :
  (forall c, In c cs -> lc_deleted c = false ->
     exists m, decode_tuple pageTableSchema (lc_val c) [] = Ok m /\ P m = Q m) ->
  pt_scan P pg cs rest = pt_scan Q pg cs rest.
Proof.
  induction cs as [|c cr IH]; intros H; cbn [pt_scan]; [reflexivity|].
  destruct (lc_deleted c) eqn:Ed; [apply IH; intros x Hx; apply H; right; exact Hx|].
  destruct (H c (or_introl eq_refl) Ed) as (m & Em & Epq). rewrite Em. cbn [bind]. rewrite Epq.
  destruct (Q m); [reflexivity|]. apply IH. intros x Hx. apply H. right. exact Hx.
Qed.

Lemma pt_find_agree n off ls :
  (forall l c, In l ls -> In c (leaf_cells l) -> lc_deleted c = false ->
     exists m, decode_tuple pageTableSchema (lc_val c) [] = Ok m /\ off_pred off m = name_pred n m) ->
  pt_find_off off ls = pt_find_row n ls.
Proof.
  induction ls as [|l r IH]; intros H; [reflexivity|].
  rewrite pt_find_off_cons, pt_find_row_cons, IH by (intros l' c Hl; apply H; right; exact Hl).
  apply pt_scan_agree. intros c Hc. apply (H l c (or_introl eq_refl) Hc).
Qed.

Lemma Forall2_in_l {A B} (R : A -> B -> Prop) l1 l2 x :
  Forall2 R l1 l2 -> In x l1 -> exists y, In y l2 /\ R x y.
Proof.
  induction 1 as [|a b l1 l2 Hab _ IH]; intros Hin; [contradiction|]. destruct Hin as [->|Hin].
  - exists b. split; [left; reflexivity | exact Hab].
  - destruct (IH Hin) as (y & Hy & Hr). exists y. split; [right; exact Hy | exact Hr].
Qed.

(* the row found by name is the only live row holding the old root offset: distinct tables have
   distinct roots (Cat.c_offs), and sys_pages' own row holds PS, which is no table's root (SelfOk) *)
Lemma row_move_ok_rep s d n cols vals : Rep s d -> SelfOk s -> row_move_ok s n cols vals.
Proof.
  intros HR HS. unfold row_move_ok.
  destruct (is_sys_table n) eqn:Hsys; [exact I|].
  destruct (ins_prelude s n cols vals) as [[off bs]|e|] eqn:Hpre; try exact I.
  destruct (bt_insert s off bs) as [s1 [[[k lsn] nr]|e|]] eqn:Hbt; try exact I.
  destruct (N.eqb_spec nr off) as [E|Hmv]; [exact I|].
  destruct (ins_prelude_off _ _ _ _ _ _ Hpre) as [Hro [tr Htr]].
  pose proof (not_sys_table _ Hsys) as Hn.
  destruct HR as [Hinv Hok (pt & sc & ents & osc & HC)].
  pose proof (rel_offset_entry s d pt sc ents osc n off Hinv HC Hro) as Hin.
  pose proof (cat_offset_not_ptroot s d pt sc ents osc HC n off Hin Hn) as Hne.
  destruct (bt_insert_pt_frame s pt off bs s1 _ Hinv (c_pt _ _ _ _ _ _ HC) Hne Hbt) as (Hinv1 & Hp1 & Hpt1 & _ & _).
  unfold move_ok, cat_scan, get_tree. rewrite Hp1, Hpt1. cbn [bind].
  assert (Hw : WFT ML MI (nextFree s1) pt).
  { apply (find_root_WFT s1 (ptRoot s1) pt Hinv1). rewrite Hp1. exact Hpt1. }
  rewrite (scan_right_leaves_okP _ _ Hw). cbn [of_tres bind].
  pose proof (cat_names_NoDup d ents Hok (c_names _ _ _ _ _ _ HC)) as Hnd.
  apply pt_find_agree. intros l c Hl Hc Hlive.
  assert (Hcell : In c (all_cells pt)) by (unfold all_cells; apply in_flat_map; eauto).
  destruct (Forall2_in_l _ _ _ c (c_ptcells _ _ _ _ _ _ HC) Hcell) as (e & He & [_ Hv]).
  assert (Hfit : pt_fits e).
  { pose proof (c_ptfits _ _ _ _ _ _ HC) as X. rewrite Forall_forall in X. apply X. exact He. }
  exists (pt_tuple e). split; [rewrite Hv; apply decode_pte; exact Hfit|].
  unfold off_pred, name_pred. rewrite tget_pt_off, tget_pt_name. cbn [value_eqb].
  destruct e as [n2 o2]. cbn [fst snd] in *.
  destruct (String.eqb_spec n2 n) as [->|Hn2].
  - rewrite (assoc_fun ents n o2 off Hnd He Hin). apply Z.eqb_refl.
  - apply Z.eqb_neq. intros E. apply N2Z.inj in E. subst o2.
    destruct (string_dec n2 "sys_pages") as [->|Hs2].
    + (* sys_pages' own row *)
      pose proof (cat_rel_offset_in s d pt sc ents osc Hinv Hok HC _ _ He) as Eself.
      destruct HS as (A & _ & C). rewrite A in Eself. inversion Eself; subst off.
      destruct (C _ _ Htr) as [X|X]; [contradiction | lia].
    + exact (cat_offsets_distinct s d pt sc ents osc Hok HC n2 off n off He Hin Hs2 Hn Hn2 eq_refl).
Qed.

(* ====================== a whole INSERT ====================== *)
Ltac last_conj H := repeat (match type of H with _ /\ _ => destruct H as [_ H] end).

Lemma vals_ok_rows rows : forallb (forallb val_ok) rows = true -> Forall (Forall val_okP) rows.
Proof.
  intros Hv. apply forallb_Forall in Hv. eapply Forall_impl; [|exact Hv]. intros r. apply forallb_Forall.
Qed.

Lemma rows_walk n cols rows : forall s d b k,
  Rep s d -> SelfOk s -> Forall (Forall val_okP) rows ->
  nextFree (fst (fst (insert_rows s n cols rows b k))) <= OFFMAX ->
  rows_move_ok s n cols rows /\
  (forall c, snd (insert_rows s n cols rows b k) = OOk c -> SelfOk (fst (fst (insert_rows s n cols rows b k)))).
Proof.
  induction rows as [|r rest IH]; intros s d b k HR HS Hv Hmax.
  - cbn. split; [exact I | intros; exact HS].
  - inversion Hv as [|? ? Hv1 Hv2]; subst. cbn [rows_move_ok insert_rows] in *.
    pose proof (row_move_ok_rep s d n cols r HR HS) as Hrow.
    destruct (st_insert s n cols r) as [s1 [ws|e|]] eqn:Est.
    + destruct (st_insert_shape _ _ _ _ _ _ Est) as (off & bs & b1 & k0 & lsn & nr & Hsys & Hpre & _).
      destruct (ins_prelude_off _ _ _ _ _ _ Hpre) as [Hro _].
      rewrite is_sys_table_is_sys in Hsys.
      destruct (find_tbl n d) as [t|] eqn:Hf.
      2:{ exfalso. destruct HR as [Hinv Hok (pt & sc & ents & osc & HC)].
          rewrite (cat_rel_offset_none s d pt sc ents osc Hinv HC n Hsys Hf) in Hro. discriminate. }
      assert (Hmax1 : nextFree s1 <= OFFMAX).
      { pose proof (insert_rows_free_mono rest s1 n cols (b ++ ws) (S k)) as X. lia. }
      pose proof (st_insert_rep n cols s d t r s1 ws HR Hsys Hf Hv1 Hmax1 Est) as HR1. cbv zeta in HR1.
      last_conj HR1.
      pose proof (st_insert_self s d n cols r s1 ws HR HS Est) as HS1.
      destruct (IH s1 _ (b ++ ws) (S k) HR1 HS1 Hv2 Hmax) as [A B].
      split; [split; [exact Hrow | exact A] | exact B].
    + split; [split; [exact Hrow | exact I] | intros c Hc; cbn in Hc; discriminate].
    + split; [split; [exact Hrow | exact I] | intros c Hc; cbn in Hc; discriminate].
Qed.

(* (H2) holds in every store satisfying the refinement invariant *)
Theorem rep_moves_ok s d st :
  Rep s d -> SelfOk s -> RefineMain.stmt_ok st = true -> nextFree (e_store (run_stmt s st)) <= OFFMAX ->
  stmt_moves_ok s st.
Proof.
  intros HR HS Hst Hmax. destruct st; cbn [stmt_moves_ok]; try exact I.
  cbn [RefineMain.stmt_ok] in Hst. cbn [run_stmt] in Hmax.
  destruct (first_err _ rows) as [u|e0|]; try exact I.
  refine (proj1 (rows_walk table cols rows s d [] 0%nat HR HS (vals_ok_rows _ Hst) _)).
  destruct (insert_rows s table cols rows [] 0) as [[s1 b] o]. exact Hmax.
Qed.

(* ====================== UPDATE / DELETE: in-place changes of one user table ====================== *)
(* what the row loops need: the page-table tree is never touched, so this is preserved by every
   st_update / st_delete whatever its result *)
Definition UInv (n : string) (s : store) : Prop :=
  SInv s /\ SelfOk s /\ (is_sys_table n = false -> forall off, rel_offset s n = Ok off -> off <> ptRoot s).

Lemma UInv_rep n s d : Rep s d -> SelfOk s -> UInv n s.
Proof.
  intros HR HS. split; [apply HR|]. split; [exact HS|]. intros Hsys off Hro.
  destruct HR as [Hinv Hok (pt & sc & ents & osc & HC)].
  apply (cat_offset_not_ptroot s d pt sc ents osc HC n off); [|apply not_sys_table; exact Hsys].
  eapply rel_offset_entry; eauto.
Qed.

Lemma touch_uinv n s off t pg k g :
  UInv n s -> is_sys_table n = false -> rel_offset s n = Ok off -> find_root off (forest s) = Some t ->
  In pg (offsets_of t) -> (forall x, lc_key (g x) = lc_key x) ->
  UInv n (mkStore (touch_forest pg k (nextLSN s) g (forest s)) (lastKey s) (ptRoot s) (nextFree s) (nextLSN s + 1)).
Proof.
  intros (Hinv & HS & Hne) Hsys Hro Hf Hpg Hg. pose proof (Hne Hsys off Hro) as Hne1.
  split; [apply touch_store_inv; assumption|]. split; [eapply touch_self; eauto|].
  intros _ off' Hro'. cbn [ptRoot]. apply (Hne Hsys). rewrite <- Hro'. symmetry.
  apply rel_offset_frame; cbn [ptRoot forest]; [reflexivity|].
  destruct (touch_forest_find (forest s) off t pg k (nextLSN s) g (si_nodup _ Hinv) Hf Hpg) as [_ T2].
  apply T2. congruence.
Qed.

Lemma st_update0_uinv n s k cols vals : UInv n s -> UInv n (fst (st_update0 s n k cols vals)).
Proof.
  intros HU. unfold st_update0. destruct (is_sys_table n) eqn:Hsys; [exact HU|].
  destruct (rel_offset s n) as [off|e|] eqn:Hro; cbn [bind fst]; try exact HU.
  unfold get_tree. destruct (find_root off (forest s)) as [t|] eqn:Hf; cbn [bind fst]; try exact HU.
  destruct (rel_schema s n) as [sch|e|]; cbn [bind fst]; try exact HU.
  pose proof HU as (Hinv & _).
  rewrite (scan_right_leaves_okP _ _ (find_root_WFT _ _ _ Hinv Hf)). cbn [of_tres bind].
  destruct (find _ _) as [[pg c]|] eqn:Efind; cbn [fst]; [|exact HU].
  destruct (bind _ _) as [bs|e|]; cbn [fst]; try exact HU.
  destruct (Nat.ltb _ _); cbn [fst]; [exact HU|].
  apply find_some in Efind as [Hin _]. apply leaf_pairs_in in Hin as (l & Hl & -> & _).
  apply (touch_uinv n s off t); auto. apply leaf_off_in_offsets. exact Hl.
Qed.

Lemma st_update_uinv n s k cols vals : UInv n s -> UInv n (fst (st_update s n k cols vals)).
Proof.
  intros HU. unfold st_update. destruct (upd_bad_cols _ _ _); [exact HU | apply st_update0_uinv; exact HU].
Qed.

Lemma st_delete_uinv n s k : UInv n s -> UInv n (fst (st_delete s n k)).
Proof.
  intros HU. unfold st_delete. destruct (is_sys_table n) eqn:Hsys; [exact HU|].
  destruct (rel_offset s n) as [off|e|] eqn:Hro; cbn [bind fst]; try exact HU.
  unfold get_tree. destruct (find_root off (forest s)) as [t|] eqn:Hf; cbn [fst]; try exact HU.
  destruct (find_cell k t) as [[pg c]|] eqn:Ef; cbn [fst]; [|exact HU].
  apply (touch_uinv n s off t); auto.
  unfold find_cell in Ef. pose proof (descend_in_leaves k t) as Hd.
  destruct (descend k t) as [off' l d cells hl hr ls rs|]; [|discriminate].
  destruct (find _ cells) as [c'|]; [|discriminate]. destruct (lc_deleted c'); [discriminate|].
  inversion Ef; subst. apply (leaf_off_in_offsets t _ Hd).
Qed.

Lemma update_rows_uinv n cols vals ids : forall s b,
  UInv n s -> UInv n (fst (fst (update_rows s n cols vals ids b))).
Proof.
  induction ids as [|k rest IH]; intros s b HU; cbn [update_rows fst]; [exact HU|].
  pose proof (st_update_uinv n s k cols vals HU) as H1.
  destruct (st_update s n k cols vals) as [s1 [ws|e|]]; cbn [fst] in *; [apply IH; exact H1 | exact H1 | exact H1].
Qed.

Lemma delete_rows_uinv n ids : forall s b c,
  UInv n s -> UInv n (fst (fst (delete_rows s n ids b c))).
Proof.
  induction ids as [|k rest IH]; intros s b c HU; cbn [delete_rows fst]; [exact HU|].
  pose proof (st_delete_uinv n s k HU) as H1.
  destruct (st_delete s n k) as [s1 [ws|e|]]; cbn [fst] in *; [apply IH; exact H1 | exact H1 | exact H1].
Qed.

(* ====================== CREATE TABLE ====================== *)
Lemma schema_row_step_self n fd s dd root :
  Rep s dd -> SelfOk s -> rel_offset s "sys_schema" = Ok root -> SelfOk (fst (schema_row_step s root n fd)).
Proof.
  intros HR HS Hro. unfold schema_row_step.
  destruct (encode_tuple _ _) as [bs|e|]; cbn [fst]; try exact HS.
  destruct (bt_insert s root bs) as [s1 r] eqn:Eb.
  destruct (root_insert_self s dd "sys_schema" root bs s1 r HR HS Hro ltac:(discriminate) Eb) as [H1 H2].
  destruct r as [[[k lsn] nr]|e|]; cbn [fst]; try exact H1.
  destruct (N.eqb nr root); cbn [fst]; [exact H1|].
  destruct (update_page_table s1 nr schemaTableName) as [s2 r2] eqn:Eu.
  pose proof (H2 nr s2 r2 Eu) as H3. destruct r2; cbn [fst]; exact H3.
Qed.

Lemma insert_schema_rows_self n fds : forall s d0 sch root,
  Rep s (d0 ++ [mkTbl n sch []]) -> SelfOk s -> rel_offset s "sys_schema" = Ok root ->
  NoDup (names (sch ++ fds)) -> nextFree (fst (insert_schema_rows s root n fds)) <= OFFMAX ->
  SelfOk (fst (insert_schema_rows s root n fds)).
Proof.
  induction fds as [|fd fds IH]; intros s d0 sch root HR HS Hro Hnd Hmax; [exact HS|].
  rewrite insert_schema_rows_unfold in *.
  destruct (names_prefix sch fd fds Hnd) as [Hnd1 Hnd2].
  pose proof (schema_row_step_rep n fd s d0 sch root HR Hro Hnd1) as Hrep.
  pose proof (schema_row_step_self n fd s _ root HR HS Hro) as Hself.
  destruct (schema_row_step s root n fd) as [s1 [root'|e|]]; cbn [fst] in *; try exact Hself.
  assert (Hmax1 : nextFree s1 <= OFFMAX) by (pose proof (insert_schema_rows_free_mono n fds s1 root'); lia).
  destruct (Hrep Hmax1) as [HR1 Hro1].
  apply (IH s1 d0 (sch ++ [fd]) root' HR1 Hself Hro1 Hnd2 Hmax).
Qed.

Lemma st_create_table0_self s d n fds s' :
  Rep s d -> SelfOk s -> is_sys n = false -> NoDup (names fds) -> nextFree s' <= OFFMAX ->
  st_create_table0 s n fds = (s', Ok tt) -> SelfOk s'.
Proof.
  intros HR HS Hsys Hnd Hmax Hrun. pose proof HR as [Hinv Hok (pt & sc & ents & osc & HC)].
  destruct (st_create_table0_rep s d n fds s' HR Hsys Hnd Hmax Hrun) as [Hf _].
  unfold st_create_table0 in Hrun.
  rewrite (cat_rel_offset_none s d pt sc ents osc Hinv HC n Hsys Hf) in Hrun.
  pose proof (create_register_rep s d n) as Hreg.
  pose proof (create_page_self s Hinv HS) as HS1. pose proof (create_page_inv s Hinv) as Hinv1.
  pose proof (create_page_extend s Hinv _ _ (c_pt _ _ _ _ _ _ HC)) as Hpt1.
  set (s1 := fst (create_page s)) in *.
  change (create_page s) with (s1, nextFree s) in Hrun. cbv iota beta in Hrun.
  destruct (insert_page_table s1 (nextFree s) n) as [s2 [[]|e|]] eqn:Eip; try (inversion Hrun; fail).
  assert (HS2 : SelfOk s2) by (exact (insert_page_table_self s1 pt (nextFree s) n s2 _ Hinv1 HS1 Hpt1 Eip)).
  unfold insert_schema_table in Hrun.
  assert (Hmax2 : nextFree s2 <= OFFMAX).
  { destruct (rel_offset s2 schemaTableName) as [off|e|]; cbn [bind] in Hrun; try (inversion Hrun; fail).
    destruct (get_tree s2 off) as [x|e|]; cbn [bind] in Hrun; try (inversion Hrun; fail).
    pose proof (insert_schema_rows_free_mono n fds s2 off) as X. rewrite Hrun in X. cbn [fst] in X. lia. }
  pose proof (Hreg s2 HR Hsys Hf Hmax2 eq_refl) as HR2.
  pose proof HR2 as [Hinv2 Hok2 (pt2 & sc2 & ents2 & osc2 & HC2)].
  pose proof (cat_rel_offset_in s2 _ pt2 sc2 _ osc2 Hinv2 Hok2 HC2 _ _ (c_osc _ _ _ _ _ _ HC2)) as Eosc.
  unfold schemaTableName in Hrun. rewrite Eosc in Hrun. cbn [bind] in Hrun.
  unfold get_tree in Hrun. rewrite (c_sc _ _ _ _ _ _ HC2) in Hrun. cbn [bind] in Hrun.
  pose proof (insert_schema_rows_self n fds s2 d [] osc2 HR2 HS2 Eosc Hnd) as X.
  rewrite Hrun in X. apply X. exact Hmax.
Qed.

(* ====================== one acknowledged statement ====================== *)
Lemma run_stmt_self s d st c :
  Rep s d -> SelfOk s -> RefineMain.stmt_ok st = true -> nextFree (e_store (run_stmt s st)) <= OFFMAX ->
  e_out (run_stmt s st) = OOk c -> SelfOk (e_store (run_stmt s st)).
Proof.
  intros HR HS Hst Hmax Hout. destruct st as [q|n cds|n| |n|n cols rows|n sets w|n w]; try (cbn in Hout; discriminate).
  - (* CREATE TABLE *)
    cbn [run_stmt] in *.
    destruct (is_sys n) eqn:Hsys.
    { exfalso. destruct (rel_offset_sys s d n HR Hsys) as [o Eo]. unfold st_create_table, create_bad_rows, st_create_table0 in Hout.
      rewrite Eo in Hout. destruct (names_distinct _); cbn in Hout; discriminate. }
    destruct (st_create_table s n (map fielddef_of cds)) as [s1 [[]|e|]] eqn:Ec; cbn [e_store e_out] in *; try discriminate.
    apply SelfOk_flush. apply st_create_table_ok_inv in Ec as (Hd & _ & Ec).
    apply (st_create_table0_self s d n (map fielddef_of cds) s1 HR HS Hsys); auto.
    apply names_distinct_NoDup. exact Hd.
  - (* INSERT *)
    cbn [RefineMain.stmt_ok] in Hst. cbn [run_stmt] in *.
    destruct (first_err _ rows) as [u|e0|]; try discriminate.
    pose proof (rows_walk n cols rows s d [] 0%nat HR HS (vals_ok_rows _ Hst)) as X.
    destruct (insert_rows s n cols rows [] 0) as [[s1 b] o]. cbn [e_store e_out fst snd] in *.
    destruct (X Hmax) as [_ Y]. exact (Y c Hout).
  - (* UPDATE *)
    cbn [run_stmt] in *.
    destruct (existsb _ sets); [cbn in Hout; discriminate|].
    destruct (where_ids s n w) as [ids|e|]; cbn [e_out e_store] in *; try discriminate.
    destruct (first_err _ ids) as [u|e0|]; cbn [e_out e_store] in *; try discriminate.
    match goal with |- context [update_rows s n ?cs ?vs ids []] =>
      pose proof (update_rows_uinv n cs vs ids s [] (UInv_rep n s d HR HS)) as X;
      destruct (update_rows s n cs vs ids []) as [[s1 b] o] end.
    cbn [e_store fst] in *. apply X.
  - (* DELETE *)
    cbn [run_stmt] in *.
    destruct (where_ids s n w) as [ids|e|]; cbn [e_out e_store] in *; try discriminate.
    pose proof (delete_rows_uinv n ids s [] 0%nat (UInv_rep n s d HR HS)) as X.
    destruct (delete_rows s n ids [] 0) as [[s1 b] o]. cbn [e_store fst] in *. apply X.
Qed.

(* ====================== the store after the first i row operations (C03) ====================== *)
(* Rep and SelfOk look at cells, offsets, the page-table root and the allocation frontier only:
   they are insensitive to dirty flags and page LSNs (el = true) *)
Lemma Rep_upto el a S d : seqg el a S -> SInv a -> Rep S d -> Rep a d.
Proof.
  intros [Hf Hp _] Hinv [_ Hok (pt & sc & ents & osc & HC)]. constructor; auto.
  destruct HC as [Cpt Cptc Cfits Cn Coffs Cosc Csc Cscc Cscf Ctabs].
  pose proof (ger_find_root el (ptRoot S) _ _ Hf) as Fpt. rewrite Cpt in Fpt.
  destruct (find_root (ptRoot S) (forest a)) as [pt'|] eqn:Ept; [|contradiction].
  pose proof (ger_find_root el osc _ _ Hf) as Fsc. rewrite Csc in Fsc.
  destruct (find_root osc (forest a)) as [sc'|] eqn:Esc; [|contradiction].
  exists pt', sc', ents, osc. constructor; auto.
  - rewrite Hp. exact Ept.
  - rewrite <- (erase_cells el pt'), Fpt, erase_cells. exact Cptc.
  - rewrite Hp. exact Coffs.
  - rewrite <- (erase_cells el sc'), Fsc, erase_cells. exact Cscc.
  - intros t Ht. destruct (Ctabs t Ht) as (o & tr & He & Hr & HT).
    pose proof (ger_find_root el o _ _ Hf) as F. rewrite Hr in F.
    destruct (find_root o (forest a)) as [tr'|] eqn:Etr; [|contradiction].
    exists o, tr'. split; [exact He|]. split; [exact Etr|].
    unfold TableRep, scan_tree in *. rewrite <- (erase_cells el tr'), F, erase_cells. exact HT.
Qed.

Lemma roots_erase_g el f : roots (map (erase el) f) = roots f.
Proof. unfold roots. rewrite map_map. apply map_ext. intros t. apply erase_off. Qed.

Lemma SelfOk_upto el a b : seqg el a b -> SelfOk b -> SelfOk a.
Proof.
  intros S (A & B & C). split; [|split].
  - rewrite (seqg_rel_offset el a b _ S). exact A.
  - rewrite (sg_free el _ _ S). exact B.
  - intros o t Ho. rewrite (sg_pt el _ _ S). destruct (find_root_In _ _ _ Ho) as [Hin Hoff].
    assert (Hr : In o (roots (forest b))).
    { rewrite <- (roots_erase_g el), <- (sg_forest el _ _ S), roots_erase_g. unfold roots. rewrite <- Hoff. apply in_map. exact Hin. }
    destruct (in_roots_find _ _ Hr) as [t' Ht']. eapply C; eauto.
Qed.

Lemma Forall_firstn_p {A} (P : A -> Prop) i l : Forall P l -> Forall P (firstn i l).
Proof. rewrite !Forall_forall. intros H x Hx. apply H. eapply In_firstn_In. exact Hx. Qed.

Lemma NoDup_firstn_p {A} i : forall (l : list A), NoDup l -> NoDup (firstn i l).
Proof.
  induction i as [|i IH]; intros l H; [constructor|]. destruct l as [|a l]; [constructor|].
  inversion H; subst. cbn [firstn]. constructor; [|apply IH; assumption].
  intros X. apply (In_firstn_In i) in X. contradiction.
Qed.

Lemma forallb_firstn_p {A} (p : A -> bool) i : forall l, forallb p l = true -> forallb p (firstn i l) = true.
Proof.
  induction i as [|i IH]; intros l H; [reflexivity|]. destruct l as [|a l]; [reflexivity|].
  cbn [firstn forallb] in *. apply andb_true_iff in H as [Ha Hl]. rewrite Ha. cbn [andb]. apply IH. exact Hl.
Qed.

Lemma first_err_firstn {A} (chk : A -> res unit) i : forall l u,
  first_err chk l = Ok u -> exists u', first_err chk (firstn i l) = Ok u'.
Proof.
  induction i as [|i IH]; intros l u H; [exists tt; reflexivity|]. destruct l as [|a l]; [exists tt; reflexivity|].
  cbn [firstn first_err] in *. destruct (chk a) as [x|e|]; try discriminate. exact (IH l u H).
Qed.

(* a row loop that succeeds on the whole list succeeds on every prefix of it *)
Lemma insert_rows_prefix_ok n cols rows : forall i s b k s' b' c,
  insert_rows s n cols rows b k = (s', b', OOk c) ->
  exists s_i b_i c_i, insert_rows s n cols (firstn i rows) b k = (s_i, b_i, OOk c_i) /\ nextFree s_i <= nextFree s'.
Proof.
  induction rows as [|r rest IH]; intros i s b k s' b' c H.
  - rewrite firstn_nil. cbn [insert_rows] in *. inversion H; subst. exists s', b', c. split; [reflexivity | lia].
  - destruct i as [|i].
    + cbn [firstn insert_rows]. exists s, b, k. split; [reflexivity|].
      pose proof (insert_rows_free_mono (r :: rest) s n cols b k) as X. rewrite H in X. exact X.
    + cbn [firstn insert_rows] in *. destruct (st_insert s n cols r) as [s1 [ws|e|]]; try (inversion H; fail).
      exact (IH i _ _ _ _ _ _ H).
Qed.

Lemma update_rows_prefix_ok n cols vals ids : forall i s b s' b' c,
  update_rows s n cols vals ids b = (s', b', OOk c) ->
  exists s_i b_i c_i, update_rows s n cols vals (firstn i ids) b = (s_i, b_i, OOk c_i).
Proof.
  induction ids as [|k rest IH]; intros i s b s' b' c H.
  - rewrite firstn_nil. eauto.
  - destruct i as [|i]; [cbn [firstn update_rows]; eauto|].
    cbn [firstn update_rows] in *. destruct (st_update s n k cols vals) as [s1 [ws|e|]]; try (inversion H; fail).
    exact (IH i _ _ _ _ _ H).
Qed.

Lemma delete_rows_prefix_ok n ids : forall i s b k0 s' b' c,
  delete_rows s n ids b k0 = (s', b', OOk c) ->
  exists s_i b_i c_i, delete_rows s n (firstn i ids) b k0 = (s_i, b_i, OOk c_i).
Proof.
  induction ids as [|k rest IH]; intros i s b k0 s' b' c H.
  - rewrite firstn_nil. eauto.
  - destruct i as [|i]; [cbn [firstn delete_rows]; eauto|].
    cbn [firstn delete_rows] in *. destruct (st_delete s n k) as [s1 [ws|e|]]; try (inversion H; fail).
    exact (IH i _ _ _ _ _ _ H).
Qed.

(* the store after the first i row operations of an acknowledged statement still satisfies the
   refinement invariant: it represents the database after INSERT of the first i rows / UPDATE or
   DELETE of the first i matching ids *)
Lemma prefix_rep s d st c i :
  Rep s d -> SelfOk s -> RefineMain.stmt_ok st = true ->
  nextFree (e_store (run_stmt s st)) <= OFFMAX -> e_out (run_stmt s st) = OOk c ->
  SelfOk (run_rows s st i) /\ exists d_i, Rep (run_rows s st i) d_i.
Proof.
  intros HR HS Hst Hmax Hout.
  destruct st as [q|n cds|n| |n|n cols rows|n sets w|n w]; cbn [run_rows]; try (split; [exact HS | exists d; exact HR]).
  - (* INSERT: the first i rows are an INSERT statement of their own *)
    cbn [RefineMain.stmt_ok] in Hst. cbn [run_stmt] in Hmax, Hout.
    destruct (first_err (check_insert s n cols) rows) as [u|e0|] eqn:Efe; try discriminate.
    destruct (insert_rows s n cols rows [] 0) as [[s1 b] o] eqn:Er. cbn [e_store e_out] in *. subst o.
    destruct (insert_rows_prefix_ok n cols rows i s [] 0%nat s1 b c Er) as (s_i & b_i & c_i & Ei & Hnf).
    destruct (first_err_firstn (check_insert s n cols) i rows u Efe) as [u' Efi].
    assert (Hrun : run_stmt s (SInsert n cols (firstn i rows)) = mkEffect s_i b_i false (OOk c_i)).
    { cbn [run_stmt]. rewrite Efi, Ei. reflexivity. }
    assert (Hst_i : RefineMain.stmt_ok (SInsert n cols (firstn i rows)) = true).
    { cbn [RefineMain.stmt_ok]. apply forallb_firstn_p. exact Hst. }
    pose proof (run_stmt_self s d _ c_i HR HS Hst_i) as X1.
    pose proof (run_stmt_rep s d _ c_i HR Hst_i) as X2.
    rewrite Hrun in X1, X2. cbn [e_store e_out] in X1, X2. rewrite Ei. cbn [fst].
    assert (Hmax_i : nextFree s_i <= OFFMAX) by lia.
    split; [exact (X1 Hmax_i eq_refl) | eexists; exact (X2 Hmax_i eq_refl)].
  - (* UPDATE *)
    cbn [RefineMain.stmt_ok] in Hst. rename Hst into Hv. apply forallb_Forall in Hv.
    cbn [run_stmt] in Hmax, Hout. change (upd_vals sets) with (set_vals sets). fold (set_vals sets) in *.
    destruct (existsb _ sets) eqn:Ex; [cbn in Hout; discriminate|].
    destruct (where_ids s n w) as [idl|e|] eqn:Ew; cbn [e_out e_store] in *; try discriminate.
    destruct (first_err _ idl) as [u|e0|]; cbn [e_out e_store] in *; try discriminate.
    destruct (update_rows s n (map fst sets) (set_vals sets) idl []) as [[s1 b] o1] eqn:Eu. cbn [e_store e_out] in *. subst o1.
    destruct (update_rows_prefix_ok n _ _ idl i s [] s1 b c Eu) as (s_i & b_i & c_i & Ei).
    split.
    { pose proof (update_rows_uinv n (map fst sets) (set_vals sets) (firstn i idl) s [] (UInv_rep n s d HR HS)) as X.
      apply X. }
    rewrite Ei. cbn [fst].
    destruct (is_sys n) eqn:Hsys.
    { destruct (firstn i idl) as [|k rest]; [cbn [update_rows] in Ei; inversion Ei; subst; exists d; exact HR|].
      exfalso. cbn [update_rows] in Ei. unfold st_update, upd_bad_cols, st_update0 in Ei.
      rewrite is_sys_table_is_sys, Hsys in Ei. cbn in Ei. discriminate. }
    destruct (find_tbl n d) as [t|] eqn:Hf.
    2:{ exfalso. unfold where_ids in Ew. rewrite (st_fetch_missing s d n HR Hsys Hf) in Ew. discriminate. }
    destruct (where_ids_spec s n w idl Ew) as (idrows & fs & Hfetch & Hids & Hev).
    destruct (st_fetch_user s d n t HR Hsys Hf) as (o & tr & Eo & Hr & Es & Ht & Hfetch').
    rewrite Hfetch' in Hfetch. inversion Hfetch; subst idrows fs. clear Hfetch.
    destruct (fetch_rows_ids s d n t o tr HR Hsys Hf Eo Hr) as (Hidc & Hrows & Hndk).
    assert (Efr : fetch_rows s n = combine (keys_of (scan_tree tr)) (tb_rows t)) by (unfold fetch_rows; rewrite Hfetch'; reflexivity).
    rewrite <- Efr in *.
    assert (Hks : forall k, In k (firstn i idl) -> In k (map fst (fetch_rows s n))).
    { intros k Hk. apply In_firstn_In in Hk. subst idl. apply in_map_iff in Hk as (kr & <- & Hkr).
      apply filter_In in Hkr as [Hkr _]. apply in_map. exact Hkr. }
    assert (Hnd : NoDup (firstn i idl)).
    { apply NoDup_firstn_p. subst idl. apply NoDup_map_filter. exact Hndk. }
    destruct (update_rows_rep n (map fst sets) (set_vals sets) (firstn i idl) s d t [] s_i b_i c_i HR Hsys Hf Hv Hks Hnd Ei) as (HR_i & _).
    eexists. exact HR_i.
  - (* DELETE *)
    cbn [run_stmt] in Hmax, Hout.
    destruct (where_ids s n w) as [idl|e|] eqn:Ew; cbn [e_out e_store] in *; try discriminate.
    destruct (delete_rows s n idl [] 0) as [[s1 b] o1] eqn:Eu. cbn [e_store e_out] in *. subst o1.
    destruct (delete_rows_prefix_ok n idl i s [] 0%nat s1 b c Eu) as (s_i & b_i & c_i & Ei).
    split.
    { pose proof (delete_rows_uinv n (firstn i idl) s [] 0%nat (UInv_rep n s d HR HS)) as X. apply X. }
    rewrite Ei. cbn [fst].
    destruct (is_sys n) eqn:Hsys.
    { destruct (firstn i idl) as [|k rest]; [cbn [delete_rows] in Ei; inversion Ei; subst; exists d; exact HR|].
      exfalso. cbn [delete_rows] in Ei. unfold st_delete in Ei. rewrite is_sys_table_is_sys, Hsys in Ei.
      cbn in Ei. discriminate. }
    destruct (find_tbl n d) as [t|] eqn:Hf.
    2:{ exfalso. unfold where_ids in Ew. rewrite (st_fetch_missing s d n HR Hsys Hf) in Ew. discriminate. }
    destruct (where_ids_spec s n w idl Ew) as (idrows & fs & Hfetch & Hids & Hev).
    destruct (st_fetch_user s d n t HR Hsys Hf) as (o & tr & Eo & Hr & Es & Ht & Hfetch').
    rewrite Hfetch' in Hfetch. inversion Hfetch; subst idrows fs. clear Hfetch.
    destruct (fetch_rows_ids s d n t o tr HR Hsys Hf Eo Hr) as (Hidc & Hrows & Hndk).
    assert (Hks : forall k, In k (firstn i idl) -> In k (map fst (fetch_rows s n))).
    { intros k Hk. apply In_firstn_In in Hk. subst idl.
      assert (Efr : fetch_rows s n = combine (keys_of (scan_tree tr)) (tb_rows t)) by (unfold fetch_rows; rewrite Hfetch'; reflexivity).
      rewrite Efr. apply in_map_iff in Hk as (kr & <- & Hkr).
      apply filter_In in Hkr as [Hkr _]. apply in_map. exact Hkr. }
    assert (Hnd : NoDup (firstn i idl)).
    { apply NoDup_firstn_p. subst idl.
      assert (Efr : fetch_rows s n = combine (keys_of (scan_tree tr)) (tb_rows t)) by (unfold fetch_rows; rewrite Hfetch'; reflexivity).
      rewrite <- Efr. apply NoDup_map_filter. exact Hndk. }
    destruct (delete_rows_rep n (firstn i idl) s d t [] 0%nat s_i b_i c_i HR Hsys Hf Hks Hnd Ei) as (HR_i & _).
    eexists. exact HR_i.
Qed.

(* ====================== histories of statements, flushes and crash-restarts ====================== *)
(* (H1) the statement is atomic when it fails; its literals are Go values; the allocation frontier
   stays within int64 - no (H2). A crash inside the log append of a statement (C03's event) asks of
   that statement what EvStmt asks; a crash inside a flush (C04's event) asks nothing: when the
   model has no torn file for W the step fails and the history ends. *)
Definition ev_ok1 (y : sys) (ev : event) : Prop :=
  match ev with
  | EvStmt st => stmt_atomic (mem y) st /\ RefineMain.stmt_ok st = true /\
                 nextFree (e_store (run_stmt (mem y) st)) <= OFFMAX
  | EvFlush | EvCrash => True
  | EvCrashInLog st _ => stmt_atomic (mem y) st /\ RefineMain.stmt_ok st = true /\
                         nextFree (e_store (run_stmt (mem y) st)) <= OFFMAX
  | EvTornFlush _ => True
  end.

Fixpoint hist_ok1 (y : sys) (evs : list event) : Prop :=
  match evs with
  | [] => True
  | ev :: r => ev_ok1 y ev /\ match step y ev with (SOk y1, _) => hist_ok1 y1 r | _ => True end
  end.

(* the crash invariant together with the refinement invariant of the cache *)
Definition RInv (y : sys) : Prop := Inv2 y /\ SelfOk (mem y) /\ exists d, Rep (mem y) d.

Lemma RInv_init : RInv init_sys.
Proof. split; [apply inv2_init|]. split; [apply SelfOk_init | exists []; apply Rep_init]. Qed.

Lemma ev_ok1_ev_ok y ev : RInv y -> ev_ok1 y ev -> CrashHist.ev_ok y ev.
Proof.
  intros (_ & HS & d & HR) H. destruct ev; cbn [ev_ok1 CrashHist.ev_ok] in *; try exact I.
  - destruct H as (Hat & Hst & Hmax). split; [exact Hat|]. apply (rep_moves_ok (mem y) d st HR HS Hst Hmax).
  - destruct H as (Hat & Hst & Hmax). split; [exact Hat|]. apply (rep_moves_ok (mem y) d st HR HS Hst Hmax).
Qed.

(* the recovered cache: equal to the lost one up to dirty flags, so it represents the same database *)
Lemma Rep_recovered r m d : seq (flush r) m -> SInv (flush r) -> Rep m d -> Rep (flush r) d.
Proof.
  intros S Hinv HR. apply (Rep_same_pages (flush m) (flush r) d (Rep_flush m d HR) Hinv).
  - pose proof (seq_forest _ _ S) as X. rewrite flush_forest, fclean_idem in X. rewrite !flush_forest. exact X.
  - exact (seq_pt _ _ S).
Qed.

Lemma RInv_step y ev y1 o : RInv y -> ev_ok1 y ev -> step y ev = (SOk y1, o) -> RInv y1.
Proof.
  intros HI Hok Hs. pose proof (ev_ok1_ev_ok y ev HI Hok) as Hok'.
  destruct HI as (HI2 & HS & d & HR).
  split; [exact (inv2_step y ev y1 o HI2 Hok' Hs)|].
  destruct ev; cbn [ev_ok1] in Hok.
  - destruct Hok as (Hat & Hst & Hmax). cbn [step] in Hs. unfold exec in Hs.
    destruct (e_out (run_stmt (mem y) st)) as [c|e|] eqn:Eo; inversion Hs; subst; cbn [mem].
    + split; [exact (run_stmt_self _ d st c HR HS Hst Hmax Eo)|].
      exists (spec_step d st). exact (run_stmt_rep _ d st c HR Hst Hmax Eo).
    + split.
      * apply (SelfOk_seq _ (mem y)); [apply Hat; rewrite Eo; reflexivity | exact HS].
      * destruct (run_stmt_err_rep (mem y) d st e HR Hst Hmax Eo) as (d' & _ & HR'). eauto.
  - cbn [step] in Hs. inversion Hs; subst. cbn [do_flush mem].
    split; [apply SelfOk_flush; exact HS | exists d; apply Rep_flush; exact HR].
  - cbn [step] in Hs. destruct HI2 as [HI _]. destruct (inv_recover y HI) as (r & _ & Hrec & Sf & Gf & _).
    rewrite Hrec in Hs. inversion Hs; subst. cbn [mem].
    split; [apply (SelfOk_seq _ _ Sf HS) | exists d; apply (Rep_recovered r (mem y) d Sf (good_s _ Gf) HR)].
  - (* a crash inside the log append of st *)
    destruct Hok as (Hat & Hst & Hmax). destruct Hok' as [_ Hmv]. destruct HI2 as [HI _].
    destruct (e_flushed (run_stmt (mem y) st)) eqn:Efl.
    + (* CREATE TABLE: flushed, nothing logged: the recovered cache is the statement's result *)
      destruct (flushed_shape _ _ Efl) as [Eok Eb].
      destruct (e_out (run_stmt (mem y) st)) as [c|e|] eqn:Eo; try discriminate.
      pose proof (run_stmt_self _ d st c HR HS Hst Hmax Eo) as HS1.
      pose proof (run_stmt_rep _ d st c HR Hst Hmax Eo) as HR1.
      destruct HI as (r & Hrep & Hseq & Gr & HGL).
      pose proof (log_stmt (wal y) (mem y) st HGL) as HL. rewrite Eo, Eb, app_nil_r in HL. cbn [is_ok] in HL.
      cbn [step] in Hs. rewrite Efl, Eo, Eb, firstn_nil, app_nil_r in Hs. cbn [is_ok] in Hs.
      set (es := e_store (run_stmt (mem y) st)) in *.
      assert (HI0 : Inv (mkSys es es (wal y))).
      { exists es. cbn [mem disk wal]. split; [apply replay_inert; apply HL|].
        split; [apply seq_refl|]. split; [apply HL | exact HL]. }
      destruct (inv_recover _ HI0) as (r0 & _ & Hrec & Sf & Gf & _). rewrite Hrec in Hs. inversion Hs; subst.
      cbn [mem] in *.
      split; [apply (SelfOk_seq _ _ Sf HS1) | eexists; apply (Rep_recovered r0 es _ Sf (good_s _ Gf) HR1)].
    + destruct (is_ok (e_out (run_stmt (mem y) st))) eqn:Eok.
      * (* INSERT / UPDATE / DELETE: the recovered cache is, up to dirty flags and page LSNs, the
           store after the first i row operations *)
        destruct (e_out (run_stmt (mem y) st)) as [c| |] eqn:Eo; try discriminate.
        assert (Hd : is_dml st = true) by (apply (ok_unflushed_is_dml (mem y)); [rewrite Eo; reflexivity | exact Efl]).
        destruct (crash_in_log y st c j HI Hd Hmv Eo) as (y' & Hst' & _ & _ & (Gj & Lj & _) & _ & _).
        rewrite Hst' in Hs. inversion Hs; subst.
        destruct (prefix_rep (mem y) d st c (started (op_sizes (mem y) st) j) HR HS Hst Hmax Eo) as [HSi [d_i HRi]].
        split; [exact (SelfOk_upto true _ _ Lj HSi) | exists d_i; exact (Rep_upto true _ _ _ Lj (good_s _ Gj) HRi)].
      * (* the statement failed: a plain crash-restart *)
        cbn [step] in Hs. rewrite Efl, Eok in Hs. rewrite <- (recover_disk_wal (mem y)) in Hs.
        destruct (inv_recover y HI) as (r & _ & Hrec & Sf & Gf & _).
        destruct y as [m dk w]. cbn [mem disk wal] in *. rewrite Hrec in Hs. inversion Hs; subst. cbn [mem].
        split; [apply (SelfOk_seq _ _ Sf HS) | exists d; apply (Rep_recovered r m d Sf (good_s _ Gf) HR)].
  - (* a crash inside a flush: the recovered cache equals the lost one up to dirty flags *)
    destruct HI2 as [HI HT]. cbn [step] in Hs. destruct (torn_disk y W) as [dk|] eqn:Et; [|discriminate].
    destruct (torn_flush_inv y W dk HI HT Et) as (y' & Hrec & Sf & _ & _ & HI' & _).
    rewrite Hrec in Hs. inversion Hs; subst.
    assert (Hinv' : SInv (mem y1)). { destruct HI' as (_ & _ & _ & _ & [G _]). exact (good_s _ G). }
    split; [exact (SelfOk_seq _ _ Sf HS) | exists d; exact (Rep_upto true _ _ _ (seq_seqL _ _ Sf) Hinv' HR)].
Qed.

Lemma hist_ok1_hist_ok evs : forall y, RInv y -> hist_ok1 y evs -> hist_ok y evs.
Proof.
  induction evs as [|ev r IH]; intros y HI H; cbn [hist_ok hist_ok1] in *; [exact I|].
  destruct H as [Hev Hrest]. split; [apply ev_ok1_ev_ok; assumption|].
  destruct (step y ev) as [[y1|e|] o] eqn:Es; try exact I.
  apply IH; [eapply RInv_step; eauto | exact Hrest].
Qed.

Lemma RInv_run evs : forall y y' os,
  RInv y -> hist_ok1 y evs -> run_events y evs = (SOk y', os) -> RInv y'.
Proof.
  induction evs as [|ev r IH]; intros y y' os HI Hok Hr.
  - cbn in Hr. inversion Hr; subst. exact HI.
  - cbn [hist_ok1] in Hok. destruct Hok as [Hev Hrest]. cbn [run_events] in Hr.
    destruct (step y ev) as [[y1|e|] o] eqn:Es; try discriminate.
    destruct (run_events y1 r) as [fin os'] eqn:Er. inversion Hr; subst.
    eapply IH; [eapply RInv_step; eauto | exact Hrest | exact Er].
Qed.

Lemma hist_ok1_snoc evs : forall y y' os ev,
  hist_ok1 y evs -> run_events y evs = (SOk y', os) -> ev_ok1 y' ev -> hist_ok1 y (evs ++ [ev]).
Proof.
  induction evs as [|a r IH]; intros y y' os ev Hok Hr Hev.
  - cbn in Hr. inversion Hr; subst. cbn [app hist_ok1]. split; [exact Hev|].
    destruct (step y' ev) as [[y1|e|] o]; exact I.
  - cbn [hist_ok1 app] in *. destruct Hok as [A B]. split; [exact A|]. cbn [run_events] in Hr.
    destruct (step y a) as [[y1|e|] o] eqn:Es; try discriminate.
    destruct (run_events y1 r) as [fin os'] eqn:Er. inversion Hr; subst. eapply IH; eauto.
Qed.

(* the hypothesis of the C02 theorems, without (H2) *)
Theorem hist_ok1_sound evs : hist_ok1 init_sys evs -> hist_ok init_sys evs.
Proof. apply hist_ok1_hist_ok. apply RInv_init. Qed.

Theorem hist_ok1_reachable evs y os :
  hist_ok1 init_sys evs -> run_events init_sys evs = (SOk y, os) -> reachable_c y.
Proof. intros H R. exists evs, os. split; [apply hist_ok1_sound; exact H | exact R]. Qed.

(* along such a history the cache always represents a database of the specification (C01's Rep),
   crash-restarts included *)
Theorem hist_ok1_rep evs y os :
  hist_ok1 init_sys evs -> run_events init_sys evs = (SOk y, os) ->
  SelfOk (mem y) /\ exists d, Rep (mem y) d.
Proof. intros H R. apply (RInv_run evs init_sys y os RInv_init H R). Qed.

(* ---------- the same hypothesis as a boolean: failing statements fail before their first page
   change (Atomic.fails_early, the condition of C01's theorems) ---------- *)
Definition ev_ok1b (y : sys) (ev : event) : bool :=
  match ev with
  | EvStmt st =>
      RefineMain.stmt_ok st && N.leb (nextFree (e_store (run_stmt (mem y) st))) OFFMAX &&
      match e_out (run_stmt (mem y) st) with
      | OOk _ => true
      | OErr _ => fails_early (mem y) st
      | OPanic => false
      end
  | EvFlush | EvCrash => true
  | _ => false
  end.

Fixpoint hist_ok1b (y : sys) (evs : list event) : bool :=
  match evs with
  | [] => true
  | ev :: r => ev_ok1b y ev && match step y ev with (SOk y1, _) => hist_ok1b y1 r | _ => true end
  end.

Lemma ev_ok1b_sound y ev : ev_ok1b y ev = true -> ev_ok1 y ev.
Proof.
  destruct ev; cbn [ev_ok1b ev_ok1]; try (intros; exact I); try discriminate.
  intros H. apply andb_true_iff in H as [H Hf]. apply andb_true_iff in H as [Hst Hmax].
  apply N.leb_le in Hmax. split; [|split; assumption].
  unfold stmt_atomic. intros Hno.
  destruct (e_out (run_stmt (mem y) st)) as [c|e|] eqn:Eo; try discriminate.
  destruct (fails_early_same_pages (mem y) st e Eo Hf) as (A & B & C & _).
  constructor; [rewrite A; reflexivity | exact B | exact C].
Qed.

Theorem hist_ok1b_sound evs : forall y, hist_ok1b y evs = true -> hist_ok1 y evs.
Proof.
  induction evs as [|ev r IH]; intros y H; cbn [hist_ok1b hist_ok1] in *; [exact I|].
  apply andb_true_iff in H as [A B]. split; [apply ev_ok1b_sound; exact A|].
  destruct (step y ev) as [[y1|e|] o]; try exact I. apply IH. exact B.
Qed.
