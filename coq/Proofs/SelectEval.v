(* The model's evaluator agrees with the declarative meaning of names, comparisons and
   conditions wherever the latter is defined (used by C05, C06, C07). *)
From Coq Require Import ZArith String Bool List Ascii Permutation Sorted Lia.
From Mkdb Require Import Model.CaseLib Model.Select Spec.SelectSpec Proofs.SelectOrder.
Import ListNotations.

Lemma match_idxs_positions p fs i : match_idxs_from p fs i = positions_from p fs i.
Proof. revert i. induction fs as [|f fs IH]; intros i; cbn; auto. rewrite IH. reflexivity. Qed.

Lemma positions_ext {A} (p q : A -> bool) l i :
  (forall x, p x = q x) -> positions_from p l i = positions_from q l i.
Proof. intros H. revert i. induction l as [|x l IH]; intros i; cbn; auto. rewrite H, IH. reflexivity. Qed.

Lemma positions_lt {A} (p : A -> bool) l i j :
  In j (positions_from p l i) -> (i <= j < i + List.length l)%nat /\ exists x, nth_error l (j - i) = Some x /\ p x = true.
Proof.
  revert i. induction l as [|x l IH]; intros i; cbn; [tauto|].
  destruct (p x) eqn:E.
  - intros [<-|H].
    + split; [lia|]. rewrite Nat.sub_diag. cbn. eauto.
    + destruct (IH _ H) as [Hr [y [Hy Hp]]]. split; [lia|].
      replace (j - i)%nat with (S (j - S i)) by lia. cbn. eauto.
  - intros H. destruct (IH _ H) as [Hr [y [Hy Hp]]]. split; [lia|].
    replace (j - i)%nat with (S (j - S i)) by lia. cbn. eauto.
Qed.

Lemma resolve_some c fs i :
  resolve c fs = Some i -> (i < List.length fs)%nat /\ exists f, nth_error fs i = Some f /\ ref_names c f = true.
Proof.
  unfold resolve. destruct (positions_from (ref_names c) fs 0) as [|j [|? ?]] eqn:E; try discriminate.
  intros H. inversion H; subst.
  assert (Hin : In i (positions_from (ref_names c) fs 0)) by (rewrite E; left; auto).
  apply positions_lt in Hin. destruct Hin as [Hr [x [Hx Hp]]]. rewrite Nat.sub_0_r in Hx.
  split; [lia|eauto].
Qed.

Lemma resolve_find_column c fs i : resolve c fs = Some i -> find_column c fs = Ok i.
Proof.
  unfold resolve, find_column, lookup_field_idx, lookup_col_idx_by_id, match_idxs.
  rewrite !match_idxs_positions. destruct (String.eqb (cr_qual c) "") eqn:Q.
  - rewrite (positions_ext (fun f => String.eqb (f_col f) (cr_name c)) (ref_names c)).
    + destruct (positions_from (ref_names c) fs 0) as [|j [|? ?]]; try discriminate. intros H; inversion H; auto.
    + intros f. unfold ref_names, f_col. rewrite Q. cbn. rewrite andb_true_r. reflexivity.
  - rewrite (positions_ext (fun f => String.eqb (f_col f) (cr_name c) && String.eqb (f_table f) (cr_qual c)) (ref_names c)).
    + destruct (positions_from (ref_names c) fs 0) as [|j [|? ?]]; try discriminate. intros H; inversion H; auto.
    + intros f. unfold ref_names, f_col, f_table. rewrite Q. reflexivity.
Qed.

Lemma sem_operand_eval x fs r v : sem_operand x fs r = Some v -> eval_primary x fs r = Ok v.
Proof.
  destruct x as [l|c]; cbn.
  - intros H; inversion H; auto.
  - destruct (resolve c fs) as [i|] eqn:R; cbn; try discriminate.
    rewrite (resolve_find_column _ _ _ R). cbn. unfold idx_row. intros ->. reflexivity.
Qed.

Lemma string_eqb_compare x y : String.eqb x y = match String.compare x y with Eq => true | _ => false end.
Proof.
  destruct (String.eqb x y) eqn:E.
  - apply String.eqb_eq in E. subst. rewrite string_compare_refl. reflexivity.
  - destruct (String.compare x y) eqn:C; auto. apply string_compare_eq in C. subst.
    rewrite String.eqb_refl in E. discriminate.
Qed.

Lemma z_eqb_compare x y : Z.eqb x y = match Z.compare x y with Eq => true | _ => false end.
Proof.
  destruct (Z.eqb x y) eqn:E.
  - apply Z.eqb_eq in E. subst. rewrite Z.compare_refl. reflexivity.
  - destruct (Z.compare x y) eqn:C; auto. apply Z.compare_eq in C. subst. rewrite Z.eqb_refl in E. discriminate.
Qed.

Definition cmp_dispatch (op : compop) (a b : value) : outcome bool :=
  match op with
  | CEq => Ok (value_eqb a b)
  | CNeq => Ok (negb (value_eqb a b))
  | CGt => cmp_ord true cmp_gt a b
  | CGte => cmp_ord false cmp_ge a b
  | CLt => cmp_ord true cmp_lt a b
  | CLte => cmp_ord false cmp_le a b
  end.

Lemma sem_cmp_dispatch op a b t : sem_cmp op a b = Some t -> cmp_dispatch op a b = Ok t.
Proof.
  destruct a as [x| x | x |], b as [y | y | y |]; cbn; try discriminate.
  - intros H; inversion H; subst; clear H.
    destruct op; cbn; rewrite ?z_eqb_compare; destruct (Z.compare x y); reflexivity.
  - intros H; inversion H; subst; clear H.
    destruct op; cbn; rewrite ?string_eqb_compare; destruct (String.compare x y); reflexivity.
  - destruct op; try discriminate; intros H; inversion H; reflexivity.
Qed.

Lemma eval_cmp_unfold l op r fs rw :
  eval_cmp l op r fs rw =
  (a <~ eval_primary l fs rw ;; b <~ eval_primary r fs rw ;; cmp_dispatch op a b).
Proof. unfold eval_cmp, cmp_dispatch. destruct (eval_primary l fs rw); cbn; auto. Qed.

Lemma sem_pred_eval l op r fs rw t : sem_pred l op r fs rw = Some t -> eval_cmp l op r fs rw = Ok t.
Proof.
  unfold sem_pred. rewrite eval_cmp_unfold.
  destruct (sem_operand l fs rw) as [a|] eqn:A; cbn; try discriminate.
  destruct (sem_operand r fs rw) as [b|] eqn:B; cbn; try discriminate.
  rewrite (sem_operand_eval _ _ _ _ A), (sem_operand_eval _ _ _ _ B). cbn. apply sem_cmp_dispatch.
Qed.

Lemma sem_cond_eval e : forall fs rw t, sem_cond e fs rw = Some t -> evaluate e fs rw = Ok (VBool t).
Proof.
  induction e as [v | l op r | [[l op] r] rhs IH | e1 IH1 e2 IH2]; intros fs rw t; cbn.
  - destruct v as [[ | | b | ]|]; try discriminate. intros H; inversion H; auto.
  - intros H. rewrite (sem_pred_eval _ _ _ _ _ _ H). reflexivity.
  - destruct (sem_pred l op r fs rw) as [a|] eqn:A; cbn; try discriminate.
    destruct (sem_cond rhs fs rw) as [b|] eqn:B; cbn; try discriminate.
    rewrite (sem_pred_eval _ _ _ _ _ _ A). cbn. rewrite (IH _ _ _ B). cbn. intros H; inversion H; auto.
  - destruct (sem_cond e1 fs rw) as [a|] eqn:A; cbn; try discriminate.
    destruct (sem_cond e2 fs rw) as [b|] eqn:B; cbn; try discriminate.
    rewrite (IH1 _ _ _ A). cbn. rewrite (IH2 _ _ _ B). cbn. intros H; inversion H; auto.
Qed.

Lemma holds_eval e fs rw :
  is_some (sem_cond e fs rw) = true -> evaluate e fs rw = Ok (VBool (holds e fs rw)).
Proof.
  unfold holds. destruct (sem_cond e fs rw) as [t|] eqn:E; cbn; try discriminate.
  intros _. rewrite (sem_cond_eval _ _ _ _ E). destruct t; reflexivity.
Qed.

Lemma filter_rows_sem e fs rows :
  forallb (fun rw => is_some (sem_cond e fs rw)) rows = true ->
  filter_rows e fs rows = Ok (filter (holds e fs) rows).
Proof.
  induction rows as [|rw rows IH]; cbn; auto.
  rewrite andb_true_iff. intros [H1 H2]. rewrite (holds_eval _ _ _ H1). cbn. rewrite (IH H2). cbn.
  destruct (holds e fs rw); reflexivity.
Qed.

Lemma sem_filter_model w fs rows kept :
  sem_filter w fs rows = Some kept ->
  match w with Some e => filter_rows e fs rows | None => Ok rows end = Ok kept.
Proof.
  unfold sem_filter. destruct w as [e|].
  - destruct (forallb _ rows) eqn:F; try discriminate. intros H; inversion H; subst.
    apply filter_rows_sem. exact F.
  - intros H; inversion H; auto.
Qed.

Lemma all_some_map_some {A} (l : list A) : all_some (map Some l) = Some l.
Proof. induction l as [|a l IH]; cbn; auto. rewrite IH. reflexivity. Qed.

Lemma all_some_cons {A} (o : option A) l r :
  all_some (o :: l) = Some r -> exists a r', o = Some a /\ all_some l = Some r' /\ r = a :: r'.
Proof.
  cbn. destruct o as [a|]; try discriminate. destruct (all_some l) as [r'|]; try discriminate.
  intros H; inversion H; eauto.
Qed.

Lemma all_some_length {A} (l : list (option A)) r : all_some l = Some r -> List.length r = List.length l.
Proof.
  revert r. induction l as [|o l IH]; intros r H.
  - inversion H; auto.
  - apply all_some_cons in H. destruct H as [a [r' [-> [H ->]]]]. cbn. f_equal. auto.
Qed.
