(* C01 / C02: the observation oracle accepts the model's own behaviour - histories WITH
   crash-restarts (HEv EvCrash at statement boundaries) in addition to statements, flushes, table
   read-backs and page dumps.
   A crash-restart (recovery = InitStorage on data file + log) gives a cache equal to the lost one
   up to dirty flags (CrashMain.inv_recover under the crash invariant RInv of MovesFromRep.v), so it
   represents the same database and shows the same rows with the same ids; the row-id counter need
   not be the same, but it is at least every key of the file (Good), and every id the oracle has
   been shown is still a key of the file (OracleKeys.KeyKept). The invariant therefore bounds the
   oracle's gmax by a key of the file instead of by the counter. *)
From Coq Require Import Arith Lia Bool List NArith ZArith String Sorted Permutation.
From Mkdb Require Import Model.Engine Spec.TableSpec Spec.HistObs Proofs.TreeProofs Proofs.StoreInv
  Proofs.BytesProofs Proofs.TupleProofs Proofs.RefineForest Proofs.RefineCodec Proofs.RefineRep
  Proofs.RefineCat Proofs.RefineDML Proofs.RefineDDL Proofs.Atomic Proofs.RefineMain Proofs.RefineFail
  Proofs.FailsEarly Proofs.SessionStore Proofs.CrashBase Proofs.CrashPages Proofs.CrashMain Proofs.CrashHist
  Proofs.MovesFromRep Proofs.HistNoH1 Proofs.OracleIds Proofs.OracleKeys Proofs.OracleSound Gen.Params.
Import ListNotations.
Local Open Scope N_scope.
Local Open Scope string_scope.
Local Open Scope list_scope.

(* the events: those of the C01 check and crash-restarts *)
Definition hev_shape_c (h : hevent) : bool :=
  match h with
  | HEv (EvStmt _) | HEv EvFlush | HEv EvCrash | HReadTables _ | HDumpPages => true
  | HEv _ => false
  end.
Definition hist_shape_c (hevs : list hevent) : bool := forallb hev_shape_c hevs.

Lemma hist_shape_c_of hevs : hist_shape hevs = true -> hist_shape_c hevs = true.
Proof.
  unfold hist_shape, hist_shape_c. intros H. apply forallb_forall. intros h Hh.
  rewrite forallb_forall in H. specialize (H h Hh). destruct h as [[st| | |st j|W]|ns|]; try discriminate; reflexivity.
Qed.

(* ---------- keys and ids ---------- *)
Lemma seq_keys a b : seq a b -> KeyKept b a.
Proof.
  intros S k (t & Hin & Hk). pose proof (seq_forest _ _ S) as E.
  assert (Hin' : In (erase false t) (fclean (forest a))).
  { rewrite E. unfold fclean. apply in_map. exact Hin. }
  unfold fclean in Hin'. apply in_map_iff in Hin' as (t' & Et & Ht').
  exists t'. split; [exact Ht'|]. rewrite <- (erase_cells false t'), Et, erase_cells. exact Hk.
Qed.

Lemma seq_ids a b n : seq a b -> ids a n = ids b n.
Proof. intros S. unfold ids, fetch_rows. rewrite (seq_st_fetch a b n S). reflexivity. Qed.

Lemma ids_has_key s d n i : Rep s d -> is_sys n = false -> In i (ids s n) -> has_key (forest s) i.
Proof.
  intros HR Hsys Hi. destruct (find_tbl n d) as [t|] eqn:Hf.
  - destruct (st_fetch_user s d n t HR Hsys Hf) as (o & tr & Eo & Hr & _).
    rewrite (ids_user s d n t o tr HR Hsys Hf Eo Hr) in Hi.
    destruct (find_root_In _ _ _ Hr) as [Hin _]. exists tr. split; [exact Hin|].
    unfold keys_of, scan_tree, live in *. apply in_map_iff in Hi as (c & <- & Hc).
    apply filter_In in Hc as [Hc _]. apply in_map. exact Hc.
  - rewrite (ids_missing s d n HR Hsys Hf) in Hi. contradiction.
Qed.

Lemma fold_max_in l : forall g, fold_left N.max l g = g \/ In (fold_left N.max l g) l.
Proof.
  induction l as [|a l IH]; intros g; cbn [fold_left]; [left; reflexivity|].
  destruct (IH (N.max g a)) as [E|E]; [|right; right; exact E].
  rewrite E. destruct (N.max_spec g a) as [[_ ->]|[_ ->]]; [right; left; reflexivity | left; reflexivity].
Qed.

(* ---------- the invariant ---------- *)
Record OInvC (s : store) (d : db) (seen : list (string * list N)) (gmax : N) (cr crP pn : list string) : Prop := mkOInvC {
  oc_rep : Rep s d;
  oc_g : gmax = 0 \/ has_key (forest s) gmax;
  oc_old : forall n i, is_sys n = false -> In i (ids s n) -> i <= gmax ->
             In n crP /\ (In n pn -> In i (prev_ids n seen));
  oc_cr : forall n, find_tbl n d <> None -> In n cr
}.

Lemma OInvC_init : OInvC (mem init_sys) [] [] 0 [] [] [].
Proof.
  change (mem init_sys) with (fst create_db). constructor.
  - exact Rep_init.
  - left. reflexivity.
  - intros n i Hsys Hi _. exfalso. rewrite (ids_missing _ [] n Rep_init Hsys eq_refl) in Hi. exact Hi.
  - intros n H. exfalso. apply H. reflexivity.
Qed.

Lemma oc_gmax_le s d seen gmax cr crP pn : OInvC s d seen gmax cr crP pn -> gmax <= lastKey s.
Proof.
  intros [HR [->|Hk] _ _]; [lia|]. exact (has_key_le s gmax (r_sinv _ _ HR) Hk).
Qed.

(* the ids only grow above the counter, the keys stay: the invariant moves along *)
Lemma OInvC_ext s s' d d' seen gmax cr cr' crP pn :
  OInvC s d seen gmax cr crP pn -> Rep s' d' -> IdExt s s' -> KeyKept s s' ->
  (forall n, find_tbl n d' <> None -> In n cr') -> OInvC s' d' seen gmax cr' crP pn.
Proof.
  intros HI HR' [L H] HK Hcr. pose proof (oc_gmax_le _ _ _ _ _ _ _ HI) as Hg. destruct HI as [HR A C D].
  constructor; auto.
  - destruct A as [A|A]; [left; exact A | right; apply HK; exact A].
  - intros n i Hsys Hi Hk. destruct (H n i Hsys Hi) as [X|X]; [exact (C n i Hsys X Hk) | lia].
Qed.

Section RunC.
Variable md : smode.
Variable strict_hev : hevent -> bool.
Hypothesis strict_refusal : forall s d st e,
  md = MStrict -> Rep s d -> RefineMain.stmt_ok st = true -> strict_hev (HEv (EvStmt st)) = true ->
  nextFree (e_store (run_stmt s st)) <= OFFMAX ->
  e_out (run_stmt s st) = OErr e -> exists e', spec_exec d st = SpecErr e'.
Hypothesis md_not_lax : is_lax md = false.

Lemma oracle_run_c : forall hevs y d seen gmax cr crP pn base,
  RInv y -> OInvC (mem y) d seen gmax cr crP pn ->
  hist_shape_c hevs = true -> forallb hev_ok hevs = true -> forallb hev_stmt_shape hevs = true ->
  (md = MStrict -> forallb strict_hev hevs = true) ->
  frontier_ok y hevs = true -> reads_cover cr crP pn hevs = true ->
  spec_ok md base [d] seen gmax hevs (run_h y hevs) = true.
Proof.
  induction hevs as [|h r IH]; intros y d seen gmax cr crP pn base HRI HI Hsh Hok Hss Hstr Hfr Hrc; [reflexivity|].
  cbn [hist_shape_c forallb] in Hsh, Hok, Hss. apply andb_true_iff in Hsh as [Hsh1 Hsh2].
  apply andb_true_iff in Hok as [Hok1 Hok2]. apply andb_true_iff in Hss as [Hss1 Hss2].
  assert (Hstr2 : md = MStrict -> forallb strict_hev r = true).
  { intros E. specialize (Hstr E). cbn [forallb] in Hstr. apply andb_true_iff in Hstr as [_ X]. exact X. }
  pose proof (oc_rep _ _ _ _ _ _ _ HI) as HR.
  destruct h as [[st| | | |]|ns|]; try discriminate.
  - (* a statement *)
    cbn [hev_ok RefineMain.ev_ok] in Hok1. cbn [hev_stmt_shape] in Hss1.
    cbn [run_h frontier_ok] in *.
    apply andb_true_iff in Hfr as [Hmax Hfr]. apply N.leb_le in Hmax.
    assert (Hev1 : ev_ok1 y (EvStmt st)).
    { split; [exact (rep_stmt_atomic (mem y) d st HR Hok1 Hmax) | split; assumption]. }
    pose proof (fun y1 o => RInv_step y (EvStmt st) y1 o HRI Hev1) as Hstep.
    rewrite step_stmt in *.
    destruct (e_out (run_stmt (mem y) st)) as [c|e|] eqn:Eo.
    + (* acknowledged *)
      specialize (Hstep _ _ eq_refl).
      destruct (run_stmt_spec_ok (mem y) d st c HR Hok1 Hss1 Hmax Eo) as [d' Hd'].
      pose proof (run_stmt_rep (mem y) d st c HR Hok1 Hmax Eo) as HR'. unfold spec_step in HR'. rewrite Hd' in HR'.
      pose proof (run_stmt_idext (mem y) d st c HR Hok1 Hmax Eo) as Hext.
      pose proof (run_stmt_keys (mem y) st (r_sinv _ _ HR)) as Hkeys.
      cbn [oobs_of spec_ok flat_map ok_dbs]. rewrite Hd'. cbn [ok_dbs app List.length Nat.eqb negb andb].
      set (cr' := match st with SCreateTable n _ => n :: cr | _ => cr end).
      assert (HI' : OInvC (mem (fst (exec y st))) d' seen gmax cr' crP pn).
      { rewrite mem_exec. eapply OInvC_ext; eauto. intros n Hn.
        destruct (spec_exec_tables d st d' n Hd' Hn) as [X|[cols ->]].
        - pose proof (oc_cr _ _ _ _ _ _ _ HI n X) as Y. unfold cr'. destruct st; try exact Y. right. exact Y.
        - left. reflexivity. }
      apply (IH _ d' seen gmax cr' crP pn _ Hstep HI' Hsh2 Hok2 Hss2 Hstr2 Hfr).
      unfold cr'. destruct st; exact Hrc.
    + (* refused: nothing changed *)
      specialize (Hstep _ _ eq_refl).
      pose proof (stmt_err_unchanged (mem y) d st e HR Hok1 Hmax Eo) as Hun.
      cbn [oobs_of spec_ok]. rewrite md_not_lax.
      assert (Hstrict : (match md with
                         | MStrict => forallb (fun d0 => match spec_exec d0 st with SpecErr _ => true | SpecOk _ => false end) [d]
                         | _ => true end) = true).
      { destruct md eqn:Emd; try reflexivity. cbn [forallb].
        specialize (Hstr eq_refl). cbn [forallb] in Hstr. apply andb_true_iff in Hstr as [Hs1 _].
        destruct (strict_refusal (mem y) d st e eq_refl HR Hok1 Hs1 Hmax Eo) as [e' ->]. reflexivity. }
      rewrite Hstrict. cbn [andb].
      set (cr' := match st with SCreateTable n _ => n :: cr | _ => cr end).
      assert (HI' : OInvC (mem (fst (exec y st))) d seen gmax cr' crP pn).
      { rewrite mem_exec, Hun. destruct HI as [A B C E]. constructor; auto.
        intros n Hn. specialize (E n Hn). unfold cr'. destruct st; try exact E. right. exact E. }
      apply (IH _ d seen gmax cr' crP pn _ Hstep HI' Hsh2 Hok2 Hss2 Hstr2 Hfr).
      unfold cr'. destruct st; exact Hrc.
    + (* a panic: impossible *)
      exfalso. apply (run_stmt_no_panic (mem y) d st HR); [|exact Eo].
      unfold np_hyp. destruct st; try exact Hok1; (apply andb_true_iff; split; [exact Hok1 | apply N.leb_le; exact Hmax]).
  - (* a flush *)
    pose proof (RInv_step y EvFlush (do_flush y) None HRI I eq_refl) as Hstep.
    cbn [run_h step frontier_ok andb] in *. cbn [spec_ok].
    assert (HI' : OInvC (mem (do_flush y)) d seen gmax cr crP pn).
    { cbn [do_flush mem]. eapply OInvC_ext; [exact HI | apply Rep_flush; exact HR | | apply flush_keys | apply (oc_cr _ _ _ _ _ _ _ HI)].
      split; [cbn; lia|]. intros m i _ Hi. rewrite ids_flush in Hi. left. exact Hi. }
    exact (IH _ d seen gmax cr crP pn _ Hstep HI' Hsh2 Hok2 Hss2 Hstr2 Hfr Hrc).
  - (* a crash-restart: recovery succeeds and gives back the cache up to dirty flags *)
    pose proof HRI as ([HInv _] & _).
    destruct (inv_recover y HInv) as (rr & _ & Hrec & Sf & Gf & _).
    assert (Hs : step y EvCrash = (SOk (mkSys (flush rr) (flush rr) (wal y)), None)) by (cbn [step]; rewrite Hrec; reflexivity).
    pose proof (RInv_step y EvCrash _ None HRI I Hs) as Hstep.
    cbn [run_h frontier_ok andb] in *. rewrite Hs in *. cbn [spec_ok]. rewrite md_not_lax.
    assert (HI' : OInvC (mem (mkSys (flush rr) (flush rr) (wal y))) d seen gmax cr crP pn).
    { cbn [mem]. destruct HI as [A B C E]. constructor; auto.
      - exact (Rep_recovered rr (mem y) d Sf (good_s _ Gf) A).
      - destruct B as [B|B]; [left; exact B | right; apply (seq_keys _ _ Sf); exact B].
      - intros n i Hsys Hi Hk. rewrite (seq_ids _ _ n Sf) in Hi. exact (C n i Hsys Hi Hk). }
    exact (IH _ d seen gmax cr crP pn _ Hstep HI' Hsh2 Hok2 Hss2 Hstr2 Hfr Hrc).
  - (* a table read-back *)
    cbn [run_h frontier_ok reads_cover] in *. apply andb_true_iff in Hrc as [Hcov Hrc].
    pose proof HI as [_ Hg Hold Hcr].
    set (s := mem y) in *.
    set (l := map (fun n => (n, obs_table s n)) ns).
    cbn [spec_ok]. fold l.
    set (user := filter (fun nt : string * tobs => negb (is_sys (fst nt))) l).
    assert (Hl : forall nt, In nt l -> exists n, In n ns /\ nt = (n, obs_table s n)).
    { intros nt H. apply in_map_iff in H as (n & <- & Hn). eauto. }
    assert (Hu : forall nt, In nt user -> exists n, In n ns /\ is_sys n = false /\ nt = (n, obs_table s n)).
    { intros nt H. apply filter_In in H as [H1 H2]. destruct (Hl nt H1) as (n & Hn & ->).
      cbn [fst] in H2. apply negb_true_iff in H2. eauto. }
    assert (Hm : forallb (table_matches_spec d) l = true).
    { apply forallb_forall. intros nt H. destruct (Hl nt H) as (n & _ & ->). apply matches_model. exact HR. }
    cbn [filter]. rewrite Hm. cbn [List.length Nat.eqb negb andb].
    assert (Hfresh : forallb (fresh_ok seen gmax) user = true).
    { apply forallb_forall. intros nt H. destruct (Hu nt H) as (n & Hn & Hsys & ->).
      unfold fresh_ok. apply forallb_forall. intros i Hi. rewrite ids_obs in Hi.
      rewrite forallb_forall in Hcov. specialize (Hcov n Hn). rewrite Hsys in Hcov. cbn [orb] in Hcov.
      destruct (N.leb_spec i gmax) as [Hle|Hgt].
      - destruct (Hold n i Hsys Hi Hle) as [Hc Hp].
        apply (proj2 (mem_str_In n crP)) in Hc. rewrite Hc in Hcov. cbn [negb] in Hcov. rewrite orb_false_r in Hcov.
        apply mem_str_In in Hcov. specialize (Hp Hcov).
        apply orb_true_iff. left. apply existsb_exists. exists i. split; [exact Hp | apply N.eqb_refl].
      - apply orb_true_iff. right. apply N.ltb_lt. exact Hgt. }
    rewrite Hfresh. cbn [andb].
    apply (IH y d _ _ cr cr ns base); auto.
    change (mem y) with s. constructor.
    + exact HR.
    + destruct (fold_max_in (flat_map (fun nt : string * tobs => ids_of (snd nt)) user) gmax) as [E|E].
      * rewrite E. exact Hg.
      * right. apply in_flat_map in E as (nt & Hnt & Hi). destruct (Hu nt Hnt) as (n & _ & Hsys & ->).
        cbn [snd] in Hi. rewrite ids_obs in Hi. exact (ids_has_key s d n _ HR Hsys Hi).
    + intros n i Hsys Hi _. split.
      * apply Hcr. intros Hf. rewrite (ids_missing s d n HR Hsys Hf) in Hi. exact Hi.
      * intros Hn. change (fun (acc : list (string * list N)) (nt : string * tobs) => set_seen (fst nt) (ids_of (snd nt)) acc) with seen_step.
        rewrite (prev_ids_fold n (ids s n)); [exact Hi| |].
        -- intros nt Hnt E. destruct (Hu nt Hnt) as (n' & _ & _ & ->). cbn [fst snd] in *. subst n'. apply ids_obs.
        -- right. apply in_map_iff. exists (n, obs_table s n). split; [reflexivity|].
           apply filter_In. split; [apply in_map_iff; exists n; auto | cbn [fst]; rewrite Hsys; reflexivity].
    + exact Hcr.
  - (* a page dump *)
    cbn [run_h frontier_ok reads_cover] in *. unfold dump_of. cbn [spec_ok].
    exact (IH _ d seen gmax cr crP pn _ HRI HI Hsh2 Hok2 Hss2 Hstr2 Hfr Hrc).
Qed.
End RunC.

(* ====================== the theorems ====================== *)
Theorem model_passes_oracle_crash : forall hevs,
  hist_shape_c hevs = true ->                        (* statements, flushes, crash-restarts, read-backs, page dumps *)
  forallb hev_ok hevs = true ->                      (* literals are Go values *)
  forallb hev_stmt_shape hevs = true ->              (* no INSERT without rows, no UPDATE / DELETE on the catalog *)
  frontier_ok init_sys hevs = true ->                (* the data file stays below 2^63 bytes *)
  reads_cover [] [] [] hevs = true ->                (* read-backs do not skip a table and come back to it *)
  spec_accepts (hevs, run_h init_sys hevs) = true.
Proof.
  intros hevs Hsh Hok Hss Hfr Hrc. unfold spec_accepts. cbn [fst snd].
  apply (oracle_run_c MNormal (fun _ => true)) with (cr := []) (crP := []) (pn := []); auto.
  - intros s d st e E. discriminate E.
  - apply RInv_init.
  - apply OInvC_init.
  - intros E. discriminate E.
Qed.

Theorem model_passes_oracle_crash_strict : forall hevs,
  hist_shape_c hevs = true -> forallb hev_ok hevs = true -> forallb hev_stmt_shape hevs = true ->
  frontier_ok init_sys hevs = true -> reads_cover [] [] [] hevs = true ->
  forallb strict_hev hevs = true ->
  spec_accepts_strict (hevs, run_h init_sys hevs) = true.
Proof.
  intros hevs Hsh Hok Hss Hfr Hrc Hst. unfold spec_accepts_strict. cbn [fst snd].
  apply (oracle_run_c MStrict strict_hev) with (cr := []) (crP := []) (pn := []); auto.
  - intros s d st e _ HR Hk Hs Hmax Hout. exact (model_refusal_justified s d st e HR Hk Hs Hmax Hout).
  - apply RInv_init.
  - apply OInvC_init.
Qed.


(* agreement with the model (MM) implies acceptance by the oracle (SM), crash-restarts included *)
Theorem agreement_implies_acceptance_crash : forall c,
  model_agrees c = true ->
  hist_shape_c (fst c) = true -> forallb hev_ok (fst c) = true -> forallb hev_stmt_shape (fst c) = true ->
  frontier_ok init_sys (fst c) = true -> reads_cover [] [] [] (fst c) = true ->
  spec_accepts c = true.
Proof.
  intros [hevs obs] Hag Hsh Hok Hss Hfr Hrc. cbn [fst snd] in *. unfold model_agrees in Hag. cbn [fst snd] in Hag.
  pose proof (model_passes_oracle_crash hevs Hsh Hok Hss Hfr Hrc) as H. unfold spec_accepts in *. cbn [fst snd] in *.
  rewrite <- (spec_ok_sim MNormal hevs _ _ _ _ (run_h init_sys hevs) obs); [exact H|].
  exact (list_eqb_Forall2 hobs_eqb hobs_sim hobs_eqb_sim _ _ Hag).
Qed.

Theorem agreement_implies_strict_acceptance_crash : forall c,
  model_agrees c = true ->
  hist_shape_c (fst c) = true -> forallb hev_ok (fst c) = true -> forallb hev_stmt_shape (fst c) = true ->
  frontier_ok init_sys (fst c) = true -> reads_cover [] [] [] (fst c) = true -> forallb strict_hev (fst c) = true ->
  spec_accepts_strict c = true.
Proof.
  intros [hevs obs] Hag Hsh Hok Hss Hfr Hrc Hst. cbn [fst snd] in *. unfold model_agrees in Hag. cbn [fst snd] in Hag.
  pose proof (model_passes_oracle_crash_strict hevs Hsh Hok Hss Hfr Hrc Hst) as H. unfold spec_accepts_strict in *. cbn [fst snd] in *.
  rewrite <- (spec_ok_sim MStrict hevs _ _ _ _ (run_h init_sys hevs) obs); [exact H|].
  exact (list_eqb_Forall2 hobs_eqb hobs_sim hobs_eqb_sim _ _ Hag).
Qed.
