(* C17 / C18, store level: what one statement, one flush and one recovery do to a database that
   satisfies BOTH the representation relation of the refinement development (Proofs/RefineRep.v
   `Rep`) and the invariant of the crash development (Proofs/CrashMain.v `Inv`).
   - no statement panics on a represented store (the model's Panic branches are catalog lookups on
     malformed catalog rows and `eval_primary` on a short row; `Rep` excludes them);
   - `Rep` is insensitive to dirty flags and counters (`Rep_seq`), hence survives recovery;
   - the root-move hypothesis of the crash development as a boolean (`stmt_moves_okb`). *)
From Coq Require Import Arith Lia Bool List NArith ZArith String Ascii Sorted Permutation.
From Mkdb Require Import Model.Engine Spec.TableSpec Spec.HistObs Proofs.TreeProofs Proofs.StoreInv
  Proofs.BytesProofs Proofs.TupleProofs Proofs.RefineForest Proofs.RefineCodec Proofs.RefineRep
  Proofs.RefineCat Proofs.RefineDML Proofs.RefineDDL Proofs.Atomic Proofs.RefineMain Proofs.RefineFail
  Proofs.FailsEarly Gen.Params.
From Mkdb Require Proofs.CrashBase Proofs.CrashPages Proofs.CrashRedo Proofs.CrashLog Proofs.CrashMain
  Proofs.CrashHist.
Import ListNotations.
Local Open Scope N_scope.
Local Open Scope string_scope.
Local Open Scope list_scope.

(* ====================== the codec and the evaluator never panic ====================== *)
Lemma encode_tuple_np sch m : encode_tuple sch m <> Panic.
Proof.
  induction sch as [|fd r IH]; cbn [encode_tuple]; [discriminate|].
  destruct (encode_tuple r m) as [rest|e|]; [| |congruence];
    destruct (tget (fd_name fd) m) as [z|x|b|]; cbn [bind]; try discriminate;
    destruct (fd_type fd); cbn [validate bind]; try discriminate;
    destruct (Tuple.int32_ok z); cbn [bind]; discriminate.
Qed.

Lemma dec_value_np t bs : dec_value t bs <> Panic.
Proof.
  unfold dec_value. destruct t.
  - destruct (read_u 4 bs) as [[n r]|]; discriminate.
  - destruct (read_u 4 bs) as [[n r]|]; [|discriminate].
    destruct (read_padded (N.to_nat n) r) as [[x r']|]; discriminate.
  - destruct (read_bool bs) as [[b r]|]; discriminate.
  - destruct (read_u 8 bs) as [[n r]|]; discriminate.
Qed.

Lemma decode_tuple_np sch : forall bs m, decode_tuple sch bs m <> Panic.
Proof.
  induction sch as [|fd r IH]; intros bs m; cbn [decode_tuple]; [discriminate|].
  destruct (read_bool bs) as [[[|] bs']|]; [apply IH | | discriminate].
  pose proof (dec_value_np (fd_type fd) bs') as H.
  destruct (dec_value (fd_type fd) bs') as [vr|e|]; cbn [bind]; [apply IH | discriminate | congruence].
Qed.

Lemma decode_row_len sch bs r : decode_row sch bs = Ok r -> List.length r = List.length sch.
Proof.
  unfold decode_row. destruct (decode_tuple sch bs []) as [m|e|]; cbn [bind]; try discriminate.
  intros H. inversion H. apply map_length.
Qed.

Lemma decode_row_np sch bs : decode_row sch bs <> Panic.
Proof.
  unfold decode_row. pose proof (decode_tuple_np sch bs []) as H.
  destruct (decode_tuple sch bs []) as [m|e|]; cbn [bind]; [discriminate | discriminate | congruence].
Qed.

Definition width_ok {A} (w : nat) (rows : list (A * row)) : Prop :=
  Forall (fun kr => List.length (snd kr) = w) rows.

Lemma decode_cells_np sch : forall cells,
  match decode_cells sch cells with
  | Ok rows => width_ok (List.length sch) rows
  | Err _ => True
  | Panic => False
  end.
Proof.
  induction cells as [|c r IH]; cbn [decode_cells]; [constructor|].
  pose proof (decode_row_np sch (lc_val c)) as Hn. pose proof (decode_row_len sch (lc_val c)) as Hl.
  destruct (decode_row sch (lc_val c)) as [rw|e|]; cbn [bind]; [|exact I|congruence].
  destruct (decode_cells sch r) as [rest|e|]; cbn [bind]; [|exact I|exact IH].
  constructor; [cbn [snd]; apply Hl; reflexivity | exact IH].
Qed.

Lemma lookup_by_id_lt q c : forall fs i,
  match lookup_by_id q c fs i with
  | Ok j => (j < i + List.length fs)%nat
  | Err _ => True
  | Panic => False
  end.
Proof.
  induction fs as [|f r IH]; intros i; cbn [lookup_by_id]; [exact I|].
  destruct (_ && _); [cbn [List.length]; lia|].
  specialize (IH (S i)). destruct (lookup_by_id q c r (S i)); auto. cbn [List.length]. lia.
Qed.

Lemma lookup_name_lt c : forall fs i found,
  (forall k, found = Some k -> (k < i)%nat) ->
  match lookup_name c fs i found with
  | Ok j => (j < i + List.length fs)%nat
  | Err _ => True
  | Panic => False
  end.
Proof.
  induction fs as [|f r IH]; intros i found Hf; cbn [lookup_name].
  - destruct found as [k|]; [|exact I]. specialize (Hf k eq_refl). cbn [List.length]. lia.
  - destruct (String.eqb (f_col f) c).
    + destruct found as [k|]; [exact I|].
      assert (H : forall k, Some i = Some k -> (k < S i)%nat) by (intros k E; inversion E; lia).
      specialize (IH (S i) (Some i) H). destruct (lookup_name c r (S i) (Some i)); auto. cbn [List.length]. lia.
    + assert (H : forall k, found = Some k -> (k < S i)%nat) by (intros k E; specialize (Hf k E); lia).
      specialize (IH (S i) found H). destruct (lookup_name c r (S i) found); auto. cbn [List.length]. lia.
Qed.

Lemma find_column_lt c fs :
  match find_column c fs with
  | Ok j => (j < List.length fs)%nat
  | Err _ => True
  | Panic => False
  end.
Proof.
  unfold find_column. destruct (String.eqb (cr_qual c) "").
  - apply (lookup_name_lt (cr_name c) fs 0 None). intros k E. discriminate.
  - apply (lookup_by_id_lt (cr_qual c) (cr_name c) fs 0).
Qed.

Lemma eval_primary_np x fs r : List.length r = List.length fs -> eval_primary x fs r <> Panic.
Proof.
  intros Hl. destruct x as [v|c]; cbn [eval_primary]; [discriminate|].
  pose proof (find_column_lt c fs) as H. destruct (find_column c fs) as [i|e|]; cbn [bind]; [|discriminate|contradiction].
  destruct (nth_error r i) eqn:E; [discriminate|]. apply nth_error_None in E. lia.
Qed.

Lemma cmp_ord_np st test a b : cmp_ord st test a b <> Panic.
Proof. unfold cmp_ord. destruct a, b, st; discriminate. Qed.

Lemma eval_pred_np l op r fs rw : List.length rw = List.length fs -> eval_pred l op r fs rw <> Panic.
Proof.
  intros Hl. unfold eval_pred.
  pose proof (eval_primary_np l fs rw Hl) as H1. pose proof (eval_primary_np r fs rw Hl) as H2.
  destruct (eval_primary l fs rw) as [a|e|]; cbn [bind]; [|discriminate|congruence].
  destruct (eval_primary r fs rw) as [b|e|]; cbn [bind]; [|discriminate|congruence].
  destruct op; try discriminate; apply cmp_ord_np.
Qed.

Lemma evaluate_np e fs rw : List.length rw = List.length fs -> evaluate e fs rw <> Panic.
Proof.
  intros Hl. induction e as [x|l op r|[[l op] r] rhs IH|a IHa b IHb]; cbn [evaluate].
  - destruct x; discriminate.
  - pose proof (eval_pred_np l op r fs rw Hl) as H. destruct (eval_pred l op r fs rw); cbn [bind]; congruence.
  - pose proof (eval_pred_np l op r fs rw Hl) as H.
    destruct (eval_pred l op r fs rw) as [x|e|]; cbn [bind]; [|discriminate|congruence].
    destruct (evaluate rhs fs rw) as [v|e|]; cbn [bind]; [|discriminate|congruence].
    destruct v; discriminate.
  - destruct (evaluate a fs rw) as [v|e|]; cbn [bind]; [|discriminate|congruence].
    destruct (evaluate b fs rw) as [v2|e|]; cbn [bind]; [|discriminate|congruence].
    destruct v, v2; discriminate.
Qed.

Lemma filter_rows_np {A} e fs : forall rows : list (A * row),
  width_ok (List.length fs) rows -> filter_rows e fs rows <> Panic.
Proof.
  induction rows as [|[a rw] r IH]; intros Hw; cbn [filter_rows]; [discriminate|].
  inversion Hw as [|? ? H1 H2]; subst. cbn [snd] in H1.
  pose proof (evaluate_np e fs rw H1) as Hn.
  destruct (evaluate e fs rw) as [v|x|]; cbn [bind]; [|discriminate|congruence].
  specialize (IH H2). destruct (filter_rows e fs r) as [rest|x|]; cbn [bind]; [|discriminate|congruence].
  destruct v as [z|x|[|]|]; discriminate.
Qed.

Lemma of_tres_np {A} (r : tres A) : of_tres r <> Panic.
Proof. destruct r as [a|[]]; discriminate. Qed.

Lemma get_tree_np s o : get_tree s o <> Panic.
Proof. unfold get_tree. destruct (find_root o (forest s)); discriminate. Qed.

Lemma bt_insert_np s root v : snd (bt_insert s root v) <> Panic.
Proof.
  unfold bt_insert. pose proof (get_tree_np s root) as H.
  destruct (get_tree s root) as [t|e|]; cbn [snd]; [|discriminate|congruence].
  destruct (tree_insert ML MI PS MV t (lastKey s + 1) (nextLSN s) v (nextFree s)) as [[t' nf]|e]; cbn [snd]; [discriminate|].
  apply of_tres_np.
Qed.

(* ====================== catalog lookups on a represented store ====================== *)
Lemma rel_offset_np s d n : Rep s d -> rel_offset s n <> Panic.
Proof.
  intros [Hinv Hok (pt & sc & ents & osc & HC)].
  rewrite (rel_offset_cat s pt ents n Hinv (c_pt _ _ _ _ _ _ HC) (c_ptcells _ _ _ _ _ _ HC) (c_ptfits _ _ _ _ _ _ HC)).
  destruct (find _ ents); discriminate.
Qed.

Lemma rel_schema_ok s d n : Rep s d -> exists sch, rel_schema s n = Ok sch.
Proof.
  intros [Hinv Hok (pt & sc & ents & osc & HC)].
  unfold rel_schema, schemaTableName.
  rewrite (cat_rel_offset_in s d pt sc ents osc Hinv Hok HC _ _ (c_osc _ _ _ _ _ _ HC)). cbn [bind].
  unfold get_tree. rewrite (c_sc _ _ _ _ _ _ HC). cbn [bind].
  rewrite (scan_right_okP _ _ (find_root_WFT _ _ _ Hinv (c_sc _ _ _ _ _ _ HC))). cbn [of_tres bind].
  unfold scan_tree. rewrite (ScCells_live _ _ (c_sccells _ _ _ _ _ _ HC)).
  rewrite (schema_rows_ents n _ _ (c_sccells _ _ _ _ _ _ HC) (c_scfits _ _ _ _ _ _ HC)). eauto.
Qed.

(* SELECT * of ANY table name (catalog tables included): never a panic, and every row is as wide
   as the field list *)
Lemma st_fetch_np s d n : Rep s d ->
  match st_fetch s n with
  | Ok (rows, fs) => width_ok (List.length fs) rows
  | Err _ => True
  | Panic => False
  end.
Proof.
  intros HR. unfold st_fetch.
  pose proof (rel_offset_np s d n HR) as H1.
  destruct (rel_offset s n) as [off|e|]; cbn [bind]; [|exact I|congruence].
  destruct (rel_schema_ok s d n HR) as [sch ->]. cbn [bind].
  pose proof (get_tree_np s off) as H2.
  destruct (get_tree s off) as [t|e|]; cbn [bind]; [|exact I|congruence].
  pose proof (of_tres_np (scan_right t)) as H3.
  destruct (of_tres (scan_right t)) as [cells|e|]; cbn [bind]; [|exact I|congruence].
  pose proof (decode_cells_np sch cells) as H4.
  destruct (decode_cells sch cells) as [rows|e|]; cbn [bind]; [|exact I|exact H4].
  rewrite map_length. exact H4.
Qed.

Lemma where_ids_np s d n w : Rep s d -> where_ids s n w <> Panic.
Proof.
  intros HR. unfold where_ids. pose proof (st_fetch_np s d n HR) as H.
  destruct (st_fetch s n) as [[rows fs]|e|]; cbn [bind]; [|discriminate|contradiction].
  destruct w as [e|]; [|discriminate].
  pose proof (filter_rows_np e fs rows H) as H2.
  destruct (filter_rows e fs rows) as [keep|x|]; cbn [bind]; [discriminate | discriminate | congruence].
Qed.

(* ====================== single-row operations ====================== *)
Lemma st_insert_np n cols s d vals : Rep s d -> snd (st_insert s n cols vals) <> Panic.
Proof.
  intros HR. pose proof HR as [Hinv Hok (pt & sc & ents & osc & HC)].
  unfold st_insert. destruct (ins_bad_cols s n cols vals); [cbn [snd]; discriminate|].
  unfold st_insert0. rewrite is_sys_table_is_sys.
  destruct (is_sys n) eqn:Hsys; [cbn [snd]; discriminate|].
  destruct (find_tbl n d) as [t|] eqn:Hf.
  2:{ rewrite (cat_rel_offset_none s d pt sc ents osc Hinv HC n Hsys Hf). cbn [bind snd]. discriminate. }
  destruct (find_tbl_In _ _ _ Hf) as [Hin Hn]. subst n.
  destruct (c_tabs _ _ _ _ _ _ HC t Hin) as (o & tr & He & Hr & Ht).
  rewrite (cat_rel_offset_in s d pt sc ents osc Hinv Hok HC _ _ He). cbn [bind].
  unfold get_tree at 1. rewrite Hr. cbn [bind].
  rewrite (cat_rel_schema s d pt sc ents osc Hinv Hok HC _ Hsys), Hf. cbn [bind].
  destruct (negb _); [cbn [snd]; discriminate|].
  match goal with |- context [encode_tuple ?a ?b] =>
    pose proof (encode_tuple_np a b) as Hen; destruct (encode_tuple a b) as [bs|e|] end;
    cbn [bind]; [|cbn [snd]; discriminate|congruence].
  pose proof (bt_insert_np s o bs) as Hbn.
  destruct (bt_insert s o bs) as [s1 [[[k lsn] nr]|e1|]] eqn:Ebt; cbn [snd] in *; [|discriminate|congruence].
  destruct (bt_insert_spec s o bs tr Hinv Hr s1 k lsn nr Ebt)
    as (t' & Hinv1 & -> & -> & -> & Hlk & Hptr & Hnf & Hlsn & Hlen & Hroot & Hcells & Hfind & Hframe).
  destruct (N.eqb_spec (t_off t') o) as [Esame|Emoved]; [cbn [snd]; discriminate|].
  destruct Hroot as [Hroot|Hroot]; [contradiction|].
  assert (Hns : tb_name t <> "sys_pages") by (apply is_sys_false in Hsys; tauto).
  pose proof (cat_offset_not_ptroot s d pt sc ents osc HC _ _ He Hns) as Hop.
  pose proof (find_root_bound s _ pt Hinv (c_pt _ _ _ _ _ _ HC)) as Hptb.
  assert (Hpt1 : find_root (ptRoot s1) (forest s1) = Some pt).
  { rewrite Hptr, Hframe by (try congruence; lia). apply (c_pt _ _ _ _ _ _ HC). }
  destruct (update_page_table_ok s1 pt ents (tb_name t) o (t_off t') Hinv1 Hpt1
              (c_ptcells _ _ _ _ _ _ HC) (c_ptfits _ _ _ _ _ _ HC)
              (cat_names_NoDup d ents Hok (c_names _ _ _ _ _ _ HC)) He) as (s2 & ws & Eup).
  rewrite Eup. cbn [snd]. discriminate.
Qed.

Lemma st_update_np n cols vals s d k : Rep s d -> snd (st_update s n k cols vals) <> Panic.
Proof.
  intros HR. unfold st_update. destruct (upd_bad_cols s n cols); [cbn [snd]; discriminate|]. unfold st_update0.
  destruct (is_sys_table n); [cbn [snd]; discriminate|].
  pose proof (rel_offset_np s d n HR) as H1.
  destruct (rel_offset s n) as [off|e|]; cbn [bind]; [|cbn [snd]; discriminate|congruence].
  pose proof (get_tree_np s off) as H2.
  destruct (get_tree s off) as [t|e|]; cbn [bind]; [|cbn [snd]; discriminate|congruence].
  destruct (rel_schema_ok s d n HR) as [sch ->]. cbn [bind].
  pose proof (of_tres_np (scan_right_leaves t)) as H3.
  destruct (of_tres (scan_right_leaves t)) as [ls|e|]; cbn [bind]; [|cbn [snd]; discriminate|congruence].
  destruct (find _ _) as [[pg c]|]; [|cbn [snd]; discriminate].
  pose proof (decode_tuple_np sch (lc_val c) []) as H4.
  destruct (decode_tuple sch (lc_val c) []) as [m|e|]; cbn [bind]; [|cbn [snd]; discriminate|congruence].
  pose proof (encode_tuple_np sch (zip_set cols vals m)) as H5.
  destruct (encode_tuple sch (zip_set cols vals m)) as [bs|e|]; [|cbn [snd]; discriminate|congruence].
  destruct (Nat.ltb MV (List.length bs)); cbn [snd]; discriminate.
Qed.

Lemma st_delete_np n s d k : Rep s d -> snd (st_delete s n k) <> Panic.
Proof.
  intros HR. unfold st_delete. destruct (is_sys_table n); [cbn [snd]; discriminate|].
  pose proof (rel_offset_np s d n HR) as H1.
  destruct (rel_offset s n) as [off|e|]; cbn [bind]; [|cbn [snd]; discriminate|congruence].
  pose proof (get_tree_np s off) as H2.
  destruct (get_tree s off) as [t|e|]; [|cbn [snd]; discriminate|congruence].
  destruct (find_cell k t) as [[pg c]|]; cbn [snd]; discriminate.
Qed.

(* the checks in front of the row loops *)
Lemma check_insert_np n cols s d vals : Rep s d -> check_insert s n cols vals <> Panic.
Proof.
  intros HR. unfold check_insert. destruct (is_sys_table n); [discriminate|]. unfold ins_precheck.
  pose proof (rel_offset_np s d n HR) as H1.
  destruct (rel_offset s n) as [off|e|]; cbn [bind]; [|discriminate|congruence].
  pose proof (get_tree_np s off) as H2.
  destruct (get_tree s off) as [t|e|]; cbn [bind]; [|discriminate|congruence].
  destruct (rel_schema_ok s d n HR) as [sch ->]. cbn [bind].
  destruct (negb _); [cbn [bind]; discriminate|].
  destruct (cols_err _ _ _); [cbn [bind]; discriminate|].
  match goal with |- context [encode_tuple ?a ?b] =>
    pose proof (encode_tuple_np a b) as Hen; destruct (encode_tuple a b) as [bs|e|] end;
    cbn [bind snd]; [|discriminate|congruence].
  unfold check_row_size. destruct (Nat.ltb _ _); discriminate.
Qed.

Lemma check_update_np n cols vals s d k : Rep s d -> check_update s n k cols vals <> Panic.
Proof.
  intros HR. unfold check_update. pose proof (st_update_np n cols vals s d k HR) as H.
  destruct (snd (st_update s n k cols vals)); [discriminate | discriminate | congruence].
Qed.

Lemma first_err_np {A} (chk : A -> res unit) l : (forall a, chk a <> Panic) -> first_err chk l <> Panic.
Proof.
  intros H. induction l as [|a l IH]; [discriminate|]. cbn [first_err].
  pose proof (H a) as Ha. destruct (chk a) as [u|e|]; [exact IH | discriminate | congruence].
Qed.

Lemma check_encoded_np r : r <> Panic -> check_encoded r <> Panic.
Proof.
  intros H. unfold check_encoded. destruct r as [bs|e|]; cbn [bind]; [|discriminate|congruence].
  unfold check_row_size. destruct (Nat.ltb _ _); discriminate.
Qed.

Lemma check_catalog_rows_np n fds : check_catalog_rows n fds <> Panic.
Proof.
  unfold check_catalog_rows.
  match goal with |- context [check_encoded ?r] =>
    pose proof (check_encoded_np r (encode_tuple_np _ _)) as H; destruct (check_encoded r) as [u|e|] end;
    cbn [bind]; [|discriminate|congruence].
  induction fds as [|fd r IH]; [discriminate|]. cbn [check_schema_rows].
  match goal with |- context [check_encoded ?r] =>
    pose proof (check_encoded_np r (encode_tuple_np _ _)) as H1; destruct (check_encoded r) as [u1|e|] end;
    cbn [bind]; [exact IH | discriminate | congruence].
Qed.

Lemma create_bad_rows_np s n fds : create_bad_rows s n fds = Some Panic -> False.
Proof.
  unfold create_bad_rows. destruct (rel_offset s n) as [o|[]|]; try discriminate.
  pose proof (check_catalog_rows_np n fds) as H.
  destruct (check_catalog_rows n fds) as [u|e|]; [discriminate | discriminate | congruence].
Qed.

(* ====================== multi-row statements ====================== *)
Lemma st_insert_ok_user n cols s d vals s1 ws :
  Rep s d -> st_insert s n cols vals = (s1, Ok ws) -> is_sys n = false /\ exists t, find_tbl n d = Some t.
Proof.
  intros [Hinv Hok (pt & sc & ents & osc & HC)] Hst. unfold st_insert in Hst.
  destruct (ins_bad_cols s n cols vals); [inversion Hst|]. unfold st_insert0 in Hst. rewrite is_sys_table_is_sys in Hst.
  destruct (is_sys n) eqn:Hsys; [inversion Hst|]. split; [reflexivity|].
  destruct (find_tbl n d) as [t|] eqn:Hf; [eauto|].
  rewrite (cat_rel_offset_none s d pt sc ents osc Hinv HC n Hsys Hf) in Hst. cbn [bind] in Hst. inversion Hst.
Qed.

Lemma insert_rows_np n cols rows : forall s d b k,
  Rep s d -> Forall (Forall val_okP) rows ->
  nextFree (fst (fst (insert_rows s n cols rows b k))) <= OFFMAX ->
  snd (insert_rows s n cols rows b k) <> OPanic.
Proof.
  induction rows as [|vals rest IH]; intros s d b k HR Hvals Hmax; cbn [insert_rows] in *; [cbn [snd]; discriminate|].
  inversion Hvals as [|? ? Hv Hvr]; subst.
  pose proof (st_insert_np n cols s d vals HR) as Hn.
  destruct (st_insert s n cols vals) as [s1 [ws|e|]] eqn:Est; cbn [snd] in *; [|discriminate|congruence].
  destruct (st_insert_ok_user n cols s d vals s1 ws HR Est) as (Hsys & t & Hf).
  assert (Hmax1 : nextFree s1 <= OFFMAX).
  { pose proof (insert_rows_free_mono rest s1 n cols (b ++ ws) (S k)) as X. lia. }
  destruct (st_insert_rep n cols s d t vals s1 ws HR Hsys Hf Hv Hmax1 Est) as (_ & _ & _ & HR1).
  eapply IH; eauto.
Qed.

Lemma update_rows_np n cols vals ids : forall s d t b,
  Rep s d -> is_sys n = false -> find_tbl n d = Some t -> Forall val_okP vals ->
  (forall k, In k ids -> In k (map fst (fetch_rows s n))) -> NoDup ids ->
  snd (update_rows s n cols vals ids b) <> OPanic.
Proof.
  induction ids as [|k rest IH]; intros s d t b HR Hsys Hf Hvals Hks Hnd; cbn [update_rows]; [cbn [snd]; discriminate|].
  inversion Hnd as [|? ? Hnk Hnd']; subst.
  pose proof (st_update_np n cols vals s d k HR) as Hn.
  destruct (st_update s n k cols vals) as [s1 [ws|e1|]] eqn:Est; cbn [snd] in *; [|discriminate|congruence].
  destruct (st_update_rep n cols vals s d t k s1 ws HR Hsys Hf Hvals (Hks k (or_introl eq_refl)) Est) as (HR1 & Hfr1 & Hnf1 & Hchk1).
  match type of HR1 with Rep _ (set_rows _ ?rows _) => pose proof (find_tbl_set_rows n rows d t Hf) as Hf1 end.
  eapply (IH s1 _ _ (b ++ ws) HR1 Hsys Hf1 Hvals); [|exact Hnd'].
  intros k' Hk'. rewrite Hfr1, map_map.
  replace (map (fun x => fst (if N.eqb (fst x) k then (fst x, build_row (tb_schema t) cols vals (snd x)) else x)) (fetch_rows s n))
    with (map fst (fetch_rows s n)); [apply Hks; right; exact Hk'|].
  apply map_ext. intros kr. destruct (N.eqb (fst kr) k); reflexivity.
Qed.

Lemma delete_rows_np n ids : forall s d t b c0,
  Rep s d -> is_sys n = false -> find_tbl n d = Some t ->
  (forall k, In k ids -> In k (map fst (fetch_rows s n))) -> NoDup ids ->
  snd (delete_rows s n ids b c0) <> OPanic.
Proof.
  induction ids as [|k rest IH]; intros s d t b c0 HR Hsys Hf Hks Hnd; cbn [delete_rows]; [cbn [snd]; discriminate|].
  inversion Hnd as [|? ? Hnk Hnd']; subst.
  pose proof (st_delete_np n s d k HR) as Hn.
  destruct (st_delete s n k) as [s1 [ws|e1|]] eqn:Est; cbn [snd] in *; [|discriminate|congruence].
  destruct (st_delete_rep n s d t k s1 ws HR Hsys Hf (Hks k (or_introl eq_refl)) Est) as (HR1 & Hfr1 & Hnf1).
  match type of HR1 with Rep _ (set_rows _ ?rows _) => pose proof (find_tbl_set_rows n rows d t Hf) as Hf1 end.
  eapply (IH s1 _ _ (b ++ ws) (S c0) HR1 Hsys Hf1); [|exact Hnd'].
  intros k' Hk'. rewrite Hfr1. apply in_map_iff.
  destruct (proj1 (in_map_iff _ _ _) (Hks k' (or_intror Hk'))) as (kr & E & Hkr).
  exists kr. split; [exact E|]. apply filter_In. split; [exact Hkr|].
  apply negb_true_iff. apply N.eqb_neq. rewrite E. intros ->. contradiction.
Qed.

(* ====================== CREATE TABLE ====================== *)
Lemma schema_row_step_np n fd s d0 sch root :
  Rep s (d0 ++ [mkTbl n sch []]) -> rel_offset s "sys_schema" = Ok root ->
  snd (schema_row_step s root n fd) <> Panic.
Proof.
  intros HR Hroot. unfold schema_row_step.
  pose proof (encode_tuple_np schemaTableSchema (sc_tuple (n, fd))) as Hen.
  destruct (encode_tuple schemaTableSchema (sc_tuple (n, fd))) as [bs|e|] eqn:Eenc; [|cbn [snd]; discriminate|congruence].
  pose proof HR as [Hinv Hok (pt & sc & ents & osc & HC)].
  assert (osc = root).
  { pose proof (cat_rel_offset_in s _ pt sc ents osc Hinv Hok HC _ _ (c_osc _ _ _ _ _ _ HC)) as X. congruence. }
  subst osc.
  pose proof (bt_insert_np s root bs) as Hbn.
  destruct (bt_insert s root bs) as [s1 [[[k lsn] nr]|e|]] eqn:Ebt; cbn [snd] in *; [|discriminate|congruence].
  destruct (bt_insert_spec s root _ sc Hinv (c_sc _ _ _ _ _ _ HC) s1 k lsn nr Ebt)
    as (sc' & Hinv1 & -> & -> & -> & Hlk & Hptr & Hnf & Hlsn & Hlen & Hrt & Hcells & Hfind & Hframe).
  assert (Hrs : root <> ptRoot s).
  { eapply (cat_offset_not_ptroot s _ pt sc ents root HC); [apply (c_osc _ _ _ _ _ _ HC) | discriminate]. }
  pose proof (find_root_bound s _ pt Hinv (c_pt _ _ _ _ _ _ HC)) as Hptb.
  pose proof (cat_names_NoDup _ ents Hok (c_names _ _ _ _ _ _ HC)) as Hndn.
  destruct (N.eqb_spec (t_off sc') root) as [Esame|Emoved]; [cbn [snd]; discriminate|].
  destruct Hrt as [Hrt|Hrt]; [contradiction|].
  assert (Hpt1 : find_root (ptRoot s1) (forest s1) = Some pt).
  { rewrite Hptr, Hframe by (try congruence; lia). apply (c_pt _ _ _ _ _ _ HC). }
  destruct (update_page_table_ok s1 pt ents "sys_schema" root (t_off sc') Hinv1 Hpt1
              (c_ptcells _ _ _ _ _ _ HC) (c_ptfits _ _ _ _ _ _ HC) Hndn (c_osc _ _ _ _ _ _ HC)) as (s2 & ws2 & Eup).
  unfold schemaTableName. rewrite Eup. cbn [snd]. discriminate.
Qed.

Lemma insert_schema_rows_np n fds : forall s d0 sch root,
  Rep s (d0 ++ [mkTbl n sch []]) -> rel_offset s "sys_schema" = Ok root ->
  NoDup (names (sch ++ fds)) -> nextFree (fst (insert_schema_rows s root n fds)) <= OFFMAX ->
  snd (insert_schema_rows s root n fds) <> Panic.
Proof.
  induction fds as [|fd fds IH]; intros s d0 sch root HR Hroot Hnd Hmax; [cbn; discriminate|].
  rewrite insert_schema_rows_unfold in *. destruct (names_prefix sch fd fds Hnd) as [Hnd1 Hnd2].
  pose proof (schema_row_step_rep n fd s d0 sch root HR Hroot Hnd1) as Hstep.
  pose proof (schema_row_step_np n fd s d0 sch root HR Hroot) as Hnp.
  destruct (schema_row_step s root n fd) as [s1 [root1|e1|]]; cbn [snd] in *; [|discriminate|congruence].
  assert (Hmax1 : nextFree s1 <= OFFMAX).
  { pose proof (insert_schema_rows_free_mono n fds s1 root1) as X. lia. }
  destruct (Hstep Hmax1) as [HR1 Hroot1].
  eapply (IH s1 d0 (sch ++ [fd]) root1); eauto.
Qed.

Lemma insert_page_table_np s pg n : snd (insert_page_table s pg n) <> Panic.
Proof.
  unfold insert_page_table.
  match goal with |- context [encode_tuple ?a ?b] =>
    pose proof (encode_tuple_np a b) as Hen; destruct (encode_tuple a b) as [bs|e|] end;
    [|cbn [snd]; discriminate|congruence].
  pose proof (bt_insert_np s (ptRoot s) bs) as Hbn.
  destruct (bt_insert s (ptRoot s) bs) as [s1 [[[k lsn] nr]|e|]]; cbn [snd] in *; [discriminate|discriminate|congruence].
Qed.

Lemma st_create_table0_np s d n fds :
  Rep s d -> NoDup (names fds) -> nextFree (fst (st_create_table0 s n fds)) <= OFFMAX ->
  snd (st_create_table0 s n fds) <> Panic.
Proof.
  intros HR Hnd Hmax. pose proof HR as [Hinv Hok (pt & sc & ents & osc & HC)].
  unfold st_create_table0 in *.
  destruct (is_sys n) eqn:Hsys.
  { destruct (rel_offset_sys s d n HR Hsys) as [o Eo]. rewrite Eo. cbn [snd]. discriminate. }
  destruct (find_tbl n d) as [t|] eqn:Hf.
  { destruct (find_tbl_In _ _ _ Hf) as [Hin Hn].
    destruct (c_tabs _ _ _ _ _ _ HC t Hin) as (o & tr & He & _). rewrite Hn in He.
    rewrite (cat_rel_offset_in s d pt sc ents osc Hinv Hok HC _ _ He). cbn [snd]. discriminate. }
  rewrite (cat_rel_offset_none s d pt sc ents osc Hinv HC n Hsys Hf) in *.
  pose proof (create_register_rep s d n) as Hreg.
  destruct (create_page s) as [s1 pg] eqn:Ecp.
  assert (pg = nextFree s) by (unfold create_page in Ecp; inversion Ecp; reflexivity). subst pg. cbn [fst] in Hreg.
  pose proof (insert_page_table_np s1 (nextFree s) n) as Hipn.
  destruct (insert_page_table s1 (nextFree s) n) as [s2 [[]|e1|]] eqn:Eip; cbn [snd] in *; [|discriminate|congruence].
  unfold insert_schema_table in *.
  assert (Hmax2 : nextFree s2 <= OFFMAX).
  { destruct (rel_offset s2 schemaTableName) as [off|e0|]; cbn [bind fst] in Hmax; try exact Hmax.
    destruct (get_tree s2 off) as [x|e0|]; cbn [bind fst] in Hmax; try exact Hmax.
    pose proof (insert_schema_rows_free_mono n fds s2 off) as X. lia. }
  pose proof (Hreg s2 HR Hsys Hf Hmax2 eq_refl) as HR2.
  pose proof HR2 as [Hinv2 Hok2 (pt2 & sc2 & ents2 & osc2 & HC2)].
  pose proof (cat_rel_offset_in s2 _ pt2 sc2 _ osc2 Hinv2 Hok2 HC2 _ _ (c_osc _ _ _ _ _ _ HC2)) as Eosc.
  unfold schemaTableName in *. rewrite Eosc in *. cbn [bind] in *.
  unfold get_tree in *. rewrite (c_sc _ _ _ _ _ _ HC2) in *. cbn [bind] in *.
  exact (insert_schema_rows_np n fds s2 d [] osc2 HR2 Eosc Hnd Hmax).
Qed.

Lemma st_create_table_np s d n fds :
  Rep s d -> nextFree (fst (st_create_table s n fds)) <= OFFMAX ->
  snd (st_create_table s n fds) <> Panic.
Proof.
  intros HR Hmax. unfold st_create_table in *. fold (names fds) in *.
  destruct (names_distinct (names fds)) eqn:Hd; [|cbn [snd]; discriminate].
  destruct (create_bad_rows s n fds) as [r|] eqn:Eb;
    [|apply (st_create_table0_np s d n fds HR (names_distinct_NoDup _ Hd) Hmax)].
  cbn [snd]. intros ->. (* the check itself does not panic: its tuples hold a string / an integer per column *)
  revert Eb. apply create_bad_rows_np.
Qed.

(* ====================== one statement never panics ====================== *)
(* hypotheses: INSERT / UPDATE literals are Go values
   (int64, strings < 4 GiB); CREATE TABLE / INSERT keep the file below 2^63 bytes. DELETE, SELECT
   and the session statements need none. *)
Definition np_hyp (s : store) (st : stmt) : bool :=
  match st with
  | SCreateTable _ _ | SInsert _ _ _ => stmt_ok st && N.leb (nextFree (e_store (run_stmt s st))) OFFMAX
  | _ => stmt_ok st
  end.

Theorem run_stmt_no_panic s d st :
  Rep s d -> np_hyp s st = true -> e_out (run_stmt s st) <> OPanic.
Proof.
  intros HR Hh.
  destruct st as [q|n cds|n| |n|n cols rows|n sets w|n w]; try (cbn [run_stmt e_out]; discriminate).
  1,2: cbn [np_hyp] in Hh; apply andb_true_iff in Hh as [Hst Hmax]; apply N.leb_le in Hmax.
  3,4: cbn [np_hyp] in Hh; rename Hh into Hst.
  - (* CREATE TABLE *)
    clear Hst. cbn [run_stmt] in *.
    pose proof (st_create_table_np s d n (map fielddef_of cds) HR) as Hn.
    destruct (st_create_table s n (map fielddef_of cds)) as [s1 [[]|e|]]; cbn [e_out e_store fst snd] in *;
      [discriminate | discriminate |].
    exfalso. apply Hn; [exact Hmax | reflexivity].
  - (* INSERT *)
    cbn [stmt_ok] in Hst.
    assert (Hvals : Forall (Forall val_okP) rows).
    { apply forallb_Forall in Hst. eapply Forall_impl; [|exact Hst]. intros r. apply forallb_Forall. }
    cbn [run_stmt] in *.
    pose proof (first_err_np (check_insert s n cols) rows (fun r => check_insert_np n cols s d r HR)) as Hfe.
    destruct (first_err _ rows) as [u|e0|]; [|cbn [e_out]; discriminate|congruence].
    pose proof (insert_rows_np n cols rows s d [] 0%nat HR Hvals) as Hn.
    destruct (insert_rows s n cols rows [] 0) as [[s1 b] o]. cbn [e_out e_store fst snd] in *. apply Hn. exact Hmax.
  - (* UPDATE *)
    cbn [stmt_ok] in Hst. apply forallb_Forall in Hst. fold (set_vals sets) in *.
    cbn [run_stmt] in *. fold (set_vals sets) in *.
    destruct (existsb _ sets); [cbn [e_out]; discriminate|].
    pose proof (where_ids_np s d n w HR) as Hw.
    destruct (where_ids s n w) as [ids|e|] eqn:Ew; cbn [e_out]; [|discriminate|congruence].
    pose proof (first_err_np (fun k => check_update s n k (map fst sets) (set_vals sets)) ids
                  (fun k => check_update_np n (map fst sets) (set_vals sets) s d k HR)) as Hfe.
    destruct (first_err _ ids) as [u|e0|]; [|cbn [e_out]; discriminate|congruence].
    destruct (is_sys n) eqn:Hsys.
    { destruct ids as [|k rest]; [cbn; discriminate|].
      cbn [update_rows]. unfold st_update, upd_bad_cols, st_update0. rewrite is_sys_table_is_sys, Hsys. cbn. discriminate. }
    destruct (find_tbl n d) as [t|] eqn:Hf.
    2:{ exfalso. unfold where_ids in Ew. rewrite (st_fetch_missing s d n HR Hsys Hf) in Ew. discriminate. }
    destruct (where_ids_spec s n w ids Ew) as (idrows & fs & Hfetch & Hids & Hev).
    destruct (st_fetch_user s d n t HR Hsys Hf) as (o & tr & Eo & Hr & Es & Ht & Hfetch').
    rewrite Hfetch' in Hfetch. inversion Hfetch; subst idrows fs. clear Hfetch.
    destruct (fetch_rows_ids s d n t o tr HR Hsys Hf Eo Hr) as (Hidc & Hrows & Hndk).
    assert (Efr : fetch_rows s n = combine (keys_of (scan_tree tr)) (tb_rows t)) by (unfold fetch_rows; rewrite Hfetch'; reflexivity).
    rewrite <- Efr in *.
    pose proof (update_rows_np n (map fst sets) (set_vals sets) ids s d t [] HR Hsys Hf Hst) as Hn.
    destruct (update_rows s n (map fst sets) (set_vals sets) ids []) as [[s1 b] o1]. cbn [e_out snd] in *.
    apply Hn.
    + intros k Hk. subst ids. apply in_map_iff in Hk as (kr & <- & Hkr). apply filter_In in Hkr as [Hkr _]. apply in_map. exact Hkr.
    + subst ids. apply NoDup_map_filter. exact Hndk.
  - (* DELETE *)
    cbn [run_stmt] in *.
    pose proof (where_ids_np s d n w HR) as Hw.
    destruct (where_ids s n w) as [ids|e|] eqn:Ew; cbn [e_out]; [|discriminate|congruence].
    destruct (is_sys n) eqn:Hsys.
    { destruct ids as [|k rest]; [cbn; discriminate|].
      cbn [delete_rows]. unfold st_delete. rewrite is_sys_table_is_sys, Hsys. cbn. discriminate. }
    destruct (find_tbl n d) as [t|] eqn:Hf.
    2:{ exfalso. unfold where_ids in Ew. rewrite (st_fetch_missing s d n HR Hsys Hf) in Ew. discriminate. }
    destruct (where_ids_spec s n w ids Ew) as (idrows & fs & Hfetch & Hids & Hev).
    destruct (st_fetch_user s d n t HR Hsys Hf) as (o & tr & Eo & Hr & Es & Ht & Hfetch').
    rewrite Hfetch' in Hfetch. inversion Hfetch; subst idrows fs. clear Hfetch.
    destruct (fetch_rows_ids s d n t o tr HR Hsys Hf Eo Hr) as (Hidc & Hrows & Hndk).
    assert (Efr : fetch_rows s n = combine (keys_of (scan_tree tr)) (tb_rows t)) by (unfold fetch_rows; rewrite Hfetch'; reflexivity).
    rewrite <- Efr in *.
    pose proof (delete_rows_np n ids s d t [] 0%nat HR Hsys Hf) as Hn.
    destruct (delete_rows s n ids [] 0) as [[s1 b] o1]. cbn [e_out snd] in *.
    apply Hn.
    + intros k Hk. subst ids. apply in_map_iff in Hk as (kr & <- & Hkr). apply filter_In in Hkr as [Hkr _]. apply in_map. exact Hkr.
    + subst ids. apply NoDup_map_filter. exact Hndk.
Qed.

(* ====================== Rep does not see dirty flags or counters ====================== *)
Lemma seq_find_root a b o t2 :
  CrashBase.seq a b -> find_root o (forest b) = Some t2 ->
  exists t1, find_root o (forest a) = Some t1 /\ all_cells t1 = all_cells t2.
Proof.
  intros [Hf _ _] H2. pose proof (CrashBase.fclean_find_root o _ _ Hf) as F. rewrite H2 in F.
  destruct (find_root o (forest a)) as [t1|]; [|contradiction]. exists t1. split; [reflexivity|].
  rewrite <- (CrashBase.erase_cells false t1), F. apply CrashBase.erase_cells.
Qed.

Lemma Rep_seq a b d : CrashBase.seq a b -> SInv a -> Rep b d -> Rep a d.
Proof.
  intros S Hinva [Hinv Hok (pt & sc & ents & osc & HC)]. constructor; [exact Hinva | exact Hok|].
  destruct HC as [A1 A2 A3 A4 A5 A6 A7 A8 A9 A10].
  pose proof (CrashBase.seq_pt _ _ S) as Hp.
  rewrite <- Hp in A1, A5.
  destruct (seq_find_root a b _ pt S A1) as (pt1 & F1 & C1).
  destruct (seq_find_root a b _ sc S A7) as (sc1 & F2 & C2).
  exists pt1, sc1, ents, osc. constructor; auto.
  - rewrite C1. exact A2.
  - rewrite C2. exact A8.
  - intros t Ht. destruct (A10 t Ht) as (o & tr & X1 & X2 & X3).
    destruct (seq_find_root a b _ tr S X2) as (tr1 & F3 & C3).
    exists o, tr1. split; [exact X1|]. split; [exact F3|].
    unfold TableRep, scan_tree in *. rewrite C3. exact X3.
Qed.

Lemma same_pages_seq s s' : same_pages s s' -> CrashBase.seq s' s.
Proof. intros (A & B & C & _). constructor; [rewrite A; reflexivity | exact B | exact C]. Qed.

(* ====================== the root-move hypothesis of the crash development, as a boolean ====================== *)
Definition scan_res_dec : forall a b : res (option (N * leafcell * tuple)), {a = b} + {a <> b}.
Proof. repeat decide equality. Defined.

Definition move_okb (s1 : store) (oldroot : N) (name : string) : bool :=
  if scan_res_dec (CrashRedo.cat_scan s1 (pt_find_off oldroot)) (CrashRedo.cat_scan s1 (pt_find_row name))
  then true else false.

Definition row_move_okb (s : store) (name : string) (cols : list string) (vals : list value) : bool :=
  if is_sys_table name then true else
  match CrashRedo.ins_prelude s name cols vals with
  | Ok (off, bs) =>
      match bt_insert s off bs with
      | (s1, Ok (_, _, newroot)) => if N.eqb newroot off then true else move_okb s1 off name
      | _ => true
      end
  | _ => true
  end.

Fixpoint rows_move_okb (s : store) (name : string) (cols : list string) (rows : list (list value)) : bool :=
  match rows with
  | [] => true
  | r :: rest =>
      row_move_okb s name cols r &&
      match st_insert s name cols r with
      | (s1, Ok _) => rows_move_okb s1 name cols rest
      | _ => true
      end
  end.

Definition stmt_moves_okb (s : store) (st : stmt) : bool :=
  match st with
  | SInsert name cols rows =>
      match first_err (check_insert s name cols) rows with
      | Ok _ => rows_move_okb s name cols rows
      | _ => true
      end
  | _ => true
  end.

Lemma row_move_okb_sound s name cols vals : row_move_okb s name cols vals = true -> CrashRedo.row_move_ok s name cols vals.
Proof.
  unfold row_move_okb, CrashRedo.row_move_ok. destruct (is_sys_table name); [intros; exact I|].
  destruct (CrashRedo.ins_prelude s name cols vals) as [[off bs]|e|]; try (intros; exact I).
  destruct (bt_insert s off bs) as [s1 [[[k l] nr]|e|]]; try (intros; exact I).
  destruct (N.eqb nr off); [intros; exact I|].
  unfold move_okb, CrashRedo.move_ok. destruct (scan_res_dec _ _) as [E|E]; [intros _; exact E | discriminate].
Qed.

Lemma rows_move_okb_sound name cols rows : forall s,
  rows_move_okb s name cols rows = true -> CrashRedo.rows_move_ok s name cols rows.
Proof.
  induction rows as [|r rest IH]; intros s H; cbn [rows_move_okb CrashRedo.rows_move_ok] in *; [exact I|].
  apply andb_true_iff in H as [A B]. split; [apply row_move_okb_sound; exact A|].
  destruct (st_insert s name cols r) as [s1 [ws|e|]]; auto.
Qed.

Lemma stmt_moves_okb_sound s st : stmt_moves_okb s st = true -> CrashRedo.stmt_moves_ok s st.
Proof.
  destruct st; cbn [stmt_moves_okb CrashRedo.stmt_moves_ok]; try (intros; exact I).
  destruct (first_err _ rows); try (intros; exact I). apply rows_move_okb_sound.
Qed.

(* ====================== one database: both invariants ====================== *)
Record DbInv (y : sys) (d : db) : Prop := mkDbInv {
  di_rep : Rep (mem y) d;          (* the cache represents the specification database *)
  di_inv : CrashMain.Inv y         (* replaying the log on the data file gives the cache *)
}.

(* the hypotheses on one statement, evaluated in the store it runs on *)
Definition stmt_hyp (s : store) (st : stmt) : bool :=
  stmt_ok st &&                                                   (* literals are Go values *)
  N.leb (nextFree (e_store (run_stmt s st))) OFFMAX &&            (* the file stays below 2^63 bytes *)
  stmt_moves_okb s st &&                                          (* C02's (H2) *)
  match e_out (run_stmt s st) with                                (* a failing statement fails early *)
  | OErr _ => fails_early s st
  | _ => true
  end.

(* the same without the last clause: (H1) is derived from the refinement invariant
   (Proofs/FailsEarly.v stmt_err_unchanged) *)
Definition stmt_hyp2 (s : store) (st : stmt) : bool :=
  stmt_ok st &&                                                   (* literals are Go values *)
  N.leb (nextFree (e_store (run_stmt s st))) OFFMAX &&            (* the file stays below 2^63 bytes *)
  stmt_moves_okb s st.                                            (* C02's (H2) *)

Lemma stmt_hyp_hyp2 s st : stmt_hyp s st = true -> stmt_hyp2 s st = true.
Proof. unfold stmt_hyp, stmt_hyp2. intros H. apply andb_true_iff in H as [H _]. exact H. Qed.

Definition spec_after (d : db) (st : stmt) (o : outcome) : db :=
  match o with OOk _ => spec_step d st | _ => d end.

Lemma DbInv_init : DbInv init_sys [].
Proof. constructor; [exact Rep_init | exact CrashMain.inv_init]. Qed.

Lemma DbInv_flush y d : DbInv y d -> DbInv (do_flush y) d.
Proof.
  intros [HR HI]. constructor; [unfold do_flush; cbn [mem]; apply Rep_flush; exact HR | apply CrashMain.inv_flush; exact HI].
Qed.

Lemma DbInv_exec2 y d st :
  DbInv y d -> stmt_hyp2 (mem y) st = true ->
  snd (exec y st) <> OPanic /\ DbInv (fst (exec y st)) (spec_after d st (snd (exec y st))).
Proof.
  intros [HR HI] Hh. unfold stmt_hyp2 in Hh.
  apply andb_true_iff in Hh as [Hh Hmv].
  apply andb_true_iff in Hh as [Hok Hmax]. apply N.leb_le in Hmax.
  assert (Hnph : np_hyp (mem y) st = true).
  { unfold np_hyp. destruct st; try exact Hok; (apply andb_true_iff; split; [exact Hok | apply N.leb_le; exact Hmax]). }
  pose proof (run_stmt_no_panic (mem y) d st HR Hnph) as Hnp.
  assert (Hat : CrashMain.stmt_atomic (mem y) st).
  { unfold CrashMain.stmt_atomic. intros Hno.
    destruct (e_out (run_stmt (mem y) st)) as [c|e|] eqn:Eo; [discriminate | | congruence].
    rewrite (stmt_err_unchanged (mem y) d st e HR Hok Hmax Eo). apply CrashBase.seq_refl. }
  pose proof (CrashMain.inv_stmt y st HI (conj Hat (stmt_moves_okb_sound _ _ Hmv))) as HI1.
  split; [unfold exec; cbn [snd]; exact Hnp|].
  constructor; [|exact HI1].
  unfold exec. cbn [fst snd mem].
  destruct (e_out (run_stmt (mem y) st)) as [c|e|] eqn:Eo; [| |congruence]; cbn [spec_after].
  - eapply run_stmt_rep; eauto.
  - rewrite (stmt_err_unchanged (mem y) d st e HR Hok Hmax Eo). exact HR.
Qed.

Lemma DbInv_exec y d st :
  DbInv y d -> stmt_hyp (mem y) st = true ->
  snd (exec y st) <> OPanic /\ DbInv (fst (exec y st)) (spec_after d st (snd (exec y st))).
Proof. intros HD Hh. apply DbInv_exec2; [exact HD | apply stmt_hyp_hyp2; exact Hh]. Qed.

(* recovery: never fails, gives a system whose cache equals its file, representing the same
   database *)
Lemma DbInv_recover y d :
  DbInv y d -> exists y', recover y = Ok y' /\ DbInv y' d /\ disk y' = mem y' /\
                          CrashBase.seq (mem y') (mem y).
Proof.
  intros [HR HI]. destruct (CrashMain.inv_recover y HI) as (r & _ & Hrec & Sf & Gf & HI1).
  eexists. split; [exact Hrec|]. cbn [mem disk]. split; [|split; [reflexivity | exact Sf]].
  constructor; [|exact HI1]. cbn [mem]. eapply Rep_seq; [exact Sf | apply Gf | exact HR].
Qed.
