(* C18 (SELECT part): the model of EvaluateSelect never reaches a Panic branch on statements
   of the shape the parser produces over well-formed table contents. The proof follows the
   pipeline, carrying two facts about the current rows: they all have the width of the
   current field list, and they are pairwise type-compatible column by column. *)
From Coq Require Import ZArith String Bool List Ascii Permutation Sorted Lia.
From Mkdb Require Import Model.CaseLib Model.Select Spec.SelectSpec
     Proofs.SelectOrder Proofs.SelectEval Proofs.SelectSort Proofs.SelectAggCols Proofs.SelectC07.
Import ListNotations.

Definition safe {A} (o : outcome A) (P : A -> Prop) : Prop :=
  match o with Ok a => P a | Err _ => True | Panic _ => False end.

Lemma safe_bind {A B} (o : outcome A) (f : A -> outcome B) P Q :
  safe o P -> (forall a, P a -> safe (f a) Q) -> safe (Select.obind o f) Q.
Proof. destruct o; cbn; auto. Qed.

Lemma safe_weaken {A} (o : outcome A) (P Q : A -> Prop) : safe o P -> (forall a, P a -> Q a) -> safe o Q.
Proof. destruct o; cbn; auto. Qed.

Definition compat (a b : row) : Prop := Forall2 (fun x y => same_tag x y = true) a b.
Definition rows_ok (n : nat) (rows : list row) : Prop :=
  Forall (fun r => List.length r = n) rows /\ (forall a b, In a rows -> In b rows -> compat a b).

Lemma compatb_iff a b : compatb a b = true <-> compat a b.
Proof.
  unfold compat. revert b. induction a as [|x a IH]; intros [|y b]; cbn.
  - split; [constructor | reflexivity].
  - split; [discriminate | intros H; inversion H].
  - split; [discriminate | intros H; inversion H].
  - rewrite andb_true_iff, IH. split; [intros [? ?]; constructor; auto | intros H; inversion H; auto].
Qed.

Lemma same_tag_refl v : same_tag v v = true.
Proof. destruct v; reflexivity. Qed.

Lemma compat_refl a : compat a a.
Proof. unfold compat. induction a; constructor; auto using same_tag_refl. Qed.

Lemma compat_nth a b i : compat a b -> same_tag (nth i a VNull) (nth i b VNull) = true.
Proof.
  unfold compat. intros H. revert i. induction H; intros [|i]; cbn; auto.
Qed.

Lemma compat_app a a' b b' : compat a a' -> compat b b' -> compat (a ++ b) (a' ++ b').
Proof. unfold compat. apply Forall2_app. Qed.

Lemma compat_nulls_l n b : List.length b = n -> compat (nulls n) b.
Proof.
  unfold compat, nulls. revert n. induction b as [|y b IH]; intros n <-; cbn; constructor; auto.
Qed.

Lemma compat_nulls_r n b : List.length b = n -> compat b (nulls n).
Proof.
  unfold compat, nulls. revert n. induction b as [|y b IH]; intros n <-; cbn; constructor; auto.
  destruct y; reflexivity.
Qed.

Lemma rows_ok_nil n : rows_ok n [].
Proof. split; [constructor | intros a b []]. Qed.

Lemma rows_ok_incl n rows rows' : rows_ok n rows -> incl rows' rows -> rows_ok n rows'.
Proof.
  intros [W C] I. split.
  - rewrite Forall_forall in *. auto.
  - intros a b Ha Hb. apply C; auto.
Qed.

(* ---------------------------------------------------------------------------------- *)
(* names and conditions                                                                *)

Lemma find_column_lt c fs i : find_column c fs = Ok i -> (i < List.length fs)%nat.
Proof.
  unfold find_column, lookup_field_idx, lookup_col_idx_by_id, match_idxs. rewrite !match_idxs_positions.
  destruct (String.eqb (cr_qual c) "").
  - destruct (positions_from _ fs 0) as [|j [|? ?]] eqn:E; try discriminate. intros H; inversion H; subst.
    assert (Hin : In i (positions_from (fun f : field => String.eqb (f_col f) (cr_name c)) fs 0)) by (rewrite E; left; auto).
    apply positions_lt in Hin. destruct Hin as [Hr _]. cbn in Hr. lia.
  - destruct (positions_from _ fs 0) as [|j l] eqn:E; try discriminate. intros H; inversion H; subst.
    assert (Hin : In i (positions_from (fun f : field => String.eqb (f_col f) (cr_name c) && String.eqb (f_table f) (cr_qual c)) fs 0))
      by (rewrite E; left; auto).
    apply positions_lt in Hin. destruct Hin as [Hr _]. cbn in Hr. lia.
Qed.

Lemma find_column_safe c fs : safe (find_column c fs) (fun i => (i < List.length fs)%nat).
Proof. destruct (find_column c fs) eqn:E; cbn; auto. - eapply find_column_lt; eauto.
  - unfold find_column, lookup_field_idx, lookup_col_idx_by_id in E.
    destruct (String.eqb (cr_qual c) ""); destruct (match_idxs _ fs) as [|? [|? ?]]; discriminate.
Qed.

Lemma idx_row_safe rw i : (i < List.length rw)%nat -> exists v, idx_row rw i = Ok v /\ v = nth i rw VNull.
Proof. intros H. rewrite idx_row_nth by auto. eauto. Qed.

Lemma eval_primary_safe x fs rw : List.length rw = List.length fs -> safe (eval_primary x fs rw) (fun _ => True).
Proof.
  intros L. destruct x as [v|c]; cbn; auto.
  eapply safe_bind; [apply find_column_safe|]. intros i Hi. cbn beta in *.
  rewrite idx_row_nth by lia. cbn. auto.
Qed.

Lemma cmp_ord_safe s t a b : safe (cmp_ord s t a b) (fun _ => True).
Proof. unfold cmp_ord. destruct a, b, s; cbn; auto. Qed.

Lemma eval_cmp_safe l op r fs rw : List.length rw = List.length fs -> safe (eval_cmp l op r fs rw) (fun _ => True).
Proof.
  intros L. unfold eval_cmp.
  eapply safe_bind; [apply eval_primary_safe; auto|]. intros a _.
  eapply safe_bind; [apply eval_primary_safe; auto|]. intros b _.
  destruct op; cbn; auto using cmp_ord_safe.
Qed.

(* the type of the result of evaluate depends on the expression only *)
Definition eval_tag (e : expr) (v : value) : Prop :=
  match e with
  | EVal (XLit l) => v = l
  | EVal (XCol _) => False
  | _ => exists b, v = VBool b
  end.

Lemma evaluate_safe e : forall fs rw, List.length rw = List.length fs -> safe (evaluate e fs rw) (eval_tag e).
Proof.
  induction e as [v | l op r | [[l op] r] rhs IH | e1 IH1 e2 IH2]; intros fs rw L; cbn [evaluate].
  - destruct v as [[ | | | ]|]; cbn; auto.
  - eapply safe_bind; [apply eval_cmp_safe; auto|]. intros b _. cbn. eauto.
  - eapply safe_bind; [apply eval_cmp_safe; auto|]. intros a _.
    eapply safe_bind; [apply IH; auto|]. intros b _. destruct b; cbn; eauto.
  - eapply safe_bind; [apply IH1; auto|]. intros a _.
    eapply safe_bind; [apply IH2; auto|]. intros b _. destruct a, b; cbn; eauto.
Qed.

Lemma eval_tag_compat e v1 v2 : eval_tag e v1 -> eval_tag e v2 -> same_tag v1 v2 = true.
Proof.
  destruct e as [[l|c]| | | ]; cbn.
  - intros -> ->. apply same_tag_refl.
  - tauto.
  - intros [b1 ->] [b2 ->]. reflexivity.
  - intros [b1 ->] [b2 ->]. reflexivity.
  - intros [b1 ->] [b2 ->]. reflexivity.
Qed.

Lemma filter_rows_safe e fs rows n :
  n = List.length fs -> rows_ok n rows -> safe (filter_rows e fs rows) (fun kept => rows_ok n kept).
Proof.
  intros -> [W C]. 
  assert (G : safe (filter_rows e fs rows) (fun kept => incl kept rows)).
  { induction rows as [|rw rows IH]; cbn.
    - intros x [].
    - inversion W as [|? ? Hw W']; subst.
      eapply safe_bind; [apply evaluate_safe; auto|]. intros v _.
      eapply safe_bind; [apply IH; auto|].
      + intros a b Ha Hb. apply C; cbn; auto.
      + intros kept I. cbn. destruct v as [ | |[|]| ]; intros x Hx; cbn in *; intuition. }
  eapply safe_weaken; [exact G|]. intros kept I. eapply rows_ok_incl; eauto. split; auto.
Qed.

(* ---------------------------------------------------------------------------------- *)
(* joins                                                                               *)

Lemma join_scan_safe cond tf mk inner :
  (forall x, In x inner -> List.length (mk x) = List.length tf) ->
  safe (join_scan cond tf mk inner) (fun ms => incl ms (map mk inner)).
Proof.
  induction inner as [|x inner IH]; intros H; cbn.
  - intros y [].
  - eapply safe_bind; [apply evaluate_safe; apply H; left; auto|]. intros v _.
    destruct v; cbn; auto.
    eapply safe_bind; [apply IH; intros y Hy; apply H; right; auto|]. intros ms I. cbn.
    destruct b; intros y Hy; cbn in *; intuition.
Qed.

Definition outer_result (mk : row -> row -> row) (pad : option (row -> row)) (outer inner rows : list row) : Prop :=
  forall y, In y rows ->
    (exists o x, In o outer /\ In x inner /\ y = mk o x) \/
    (exists o p, In o outer /\ pad = Some p /\ y = p o).

Lemma join_outer_safe cond tf mk pad outer inner :
  (forall o x, In o outer -> In x inner -> List.length (mk o x) = List.length tf) ->
  safe (join_outer cond tf mk pad outer inner) (outer_result mk pad outer inner).
Proof.
  induction outer as [|o outer IH]; intros H; cbn.
  - intros y [].
  - eapply safe_bind; [apply join_scan_safe; intros x Hx; apply H; cbn; auto|]. intros ms I.
    eapply safe_bind; [apply IH; intros o' x Ho Hx; apply H; cbn; auto|]. intros more R. cbn.
    assert (Hms : forall y, In y ms -> exists o0 x, In o0 (o :: outer) /\ In x inner /\ y = mk o0 x).
    { intros y Hy. apply I in Hy. apply in_map_iff in Hy. destruct Hy as [x [<- Hx]]. exists o, x. cbn. auto. }
    assert (Hmore : outer_result mk pad (o :: outer) inner more).
    { intros y Hy. destruct (R y Hy) as [[o0 [x [Ho [Hx ->]]]]|[o0 [p [Ho [Hp ->]]]]].
      - left. exists o0, x. cbn. auto.
      - right. exists o0, p. cbn. auto. }
    destruct ms as [|m ms'], pad as [p|]; intros y Hy; cbn in Hy.
    + destruct Hy as [<-|Hy]; [right; exists o, p; cbn; auto | apply Hmore; auto].
    + apply Hmore; auto.
    + rewrite in_app_iff in Hy. destruct Hy as [<-|[Hy|Hy]]; [left; apply Hms; cbn; auto | left; apply Hms; cbn; auto | apply Hmore; auto].
    + rewrite in_app_iff in Hy. destruct Hy as [<-|[Hy|Hy]]; [left; apply Hms; cbn; auto | left; apply Hms; cbn; auto | apply Hmore; auto].
Qed.

Lemma fetch_wf d name cols rows :
  db_wf d = true -> fetch d name = Some (cols, rows) -> rows_ok (List.length cols) rows.
Proof.
  unfold db_wf. induction d as [|[[n c] r] d IH]; cbn; try discriminate.
  rewrite andb_true_iff. intros [T D]. destruct (String.eqb n name).
  - intros H; inversion H; subst. apply andb_true_iff in T. destruct T as [W C]. split.
    + rewrite Forall_forall. intros x Hx. rewrite forallb_forall in W. apply Nat.eqb_eq. auto.
    + intros a b Ha Hb. apply compatb_iff. rewrite forallb_forall in C. specialize (C a Ha).
      rewrite forallb_forall in C. auto.
  - apply IH. exact D.
Qed.

Lemma nulls_length n : List.length (nulls n) = n.
Proof. apply repeat_length. Qed.

Lemma join_safe d : db_wf d = true -> forall t,
  safe (nested_loop_join d t) (fun '(fs, rows) => rows_ok (List.length fs) rows).
Proof.
  intros WF. induction t as [name alias | l IHl jt r IHr cond]; cbn [nested_loop_join].
  - destruct (fetch d name) as [[cols rows]|] eqn:F; cbn; auto.
    rewrite map_length. eapply fetch_wf; eauto.
  - eapply safe_bind; [exact IHl|]. intros [lf L] [WL CL].
    eapply safe_bind; [exact IHr|]. intros [rf R] [WR CR].
    rewrite Forall_forall in WL, WR.
    assert (Len : forall a b, In a L -> In b R -> List.length (a ++ b) = List.length (lf ++ rf)).
    { intros a b Ha Hb. rewrite !app_length. rewrite (WL a Ha), (WR b Hb). reflexivity. }
    destruct jt.
    + cbn. rewrite app_length. apply rows_ok_nil.
    + (* LEFT *)
      eapply safe_bind; [apply join_outer_safe; intros; apply Len; auto|]. intros rows Res. cbn.
      split.
      * rewrite Forall_forall. intros y Hy. destruct (Res y Hy) as [[o [x [Ho [Hx ->]]]]|[o [p [Ho [Hp ->]]]]].
        -- apply Len; auto.
        -- inversion Hp; subst. rewrite !app_length, nulls_length, (WL o Ho). reflexivity.
      * intros y1 y2 H1 H2.
        destruct (Res y1 H1) as [[o1 [x1 [Ho1 [Hx1 ->]]]]|[o1 [p1 [Ho1 [Hp1 ->]]]]];
        destruct (Res y2 H2) as [[o2 [x2 [Ho2 [Hx2 ->]]]]|[o2 [p2 [Ho2 [Hp2 ->]]]]];
          try (inversion Hp1; subst); try (inversion Hp2; subst); apply compat_app; auto.
        -- apply compat_nulls_r. auto.
        -- apply compat_nulls_l. auto.
        -- apply compat_nulls_l. apply nulls_length.
    + (* RIGHT *)
      eapply safe_bind; [apply join_outer_safe; intros o x Ho Hx; apply Len; auto|]. intros rows Res. cbn.
      split.
      * rewrite Forall_forall. intros y Hy. destruct (Res y Hy) as [[o [x [Ho [Hx ->]]]]|[o [p [Ho [Hp ->]]]]].
        -- apply Len; auto.
        -- inversion Hp; subst. rewrite !app_length, nulls_length, (WR o Ho). reflexivity.
      * intros y1 y2 H1 H2.
        destruct (Res y1 H1) as [[o1 [x1 [Ho1 [Hx1 ->]]]]|[o1 [p1 [Ho1 [Hp1 ->]]]]];
        destruct (Res y2 H2) as [[o2 [x2 [Ho2 [Hx2 ->]]]]|[o2 [p2 [Ho2 [Hp2 ->]]]]];
          try (inversion Hp1; subst); try (inversion Hp2; subst); apply compat_app; auto.
        -- apply compat_nulls_r. auto.
        -- apply compat_nulls_l. auto.
        -- apply compat_nulls_l. apply nulls_length.
    + (* INNER *)
      eapply safe_bind; [apply join_outer_safe; intros; apply Len; auto|]. intros rows Res. cbn.
      split.
      * rewrite Forall_forall. intros y Hy. destruct (Res y Hy) as [[o [x [Ho [Hx ->]]]]|[o [p [Ho [Hp ->]]]]].
        -- apply Len; auto.
        -- discriminate.
      * intros y1 y2 H1 H2.
        destruct (Res y1 H1) as [[o1 [x1 [Ho1 [Hx1 ->]]]]|[o1 [p1 [Ho1 [Hp1 ->]]]]];
        destruct (Res y2 H2) as [[o2 [x2 [Ho2 [Hx2 ->]]]]|[o2 [p2 [Ho2 [Hp2 ->]]]]];
          try discriminate. apply compat_app; auto.
Qed.
