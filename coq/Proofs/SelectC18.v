(* C18 (SELECT part): the model of EvaluateSelect never reaches a Panic branch on statements
   of the shape the parser produces over well-formed table contents. The proof follows the
   pipeline, carrying two facts about the current rows: they all have the width of the
   current field list, and they are pairwise type-compatible column by column. *)
From Coq Require Import ZArith String Bool List Ascii Permutation Sorted Lia.
From Mkdb Require Import Model.CaseLib Model.Select Spec.SelectSpec
     Proofs.SelectOrder Proofs.SelectEval Proofs.SelectSort Proofs.SelectAggCols Proofs.SelectC07.
Import ListNotations.

Definition safe {A} (o : outcome A) (P : A -> Prop) : Prop :=
  match o with Ok a => P a | Err _ => True | Panic _ => False end.

Lemma safe_bind {A B} (o : outcome A) (f : A -> outcome B) P Q :
  safe o P -> (forall a, P a -> safe (f a) Q) -> safe (Select.obind o f) Q.
Proof. destruct o; cbn; auto. Qed.

Lemma safe_weaken {A} (o : outcome A) (P Q : A -> Prop) : safe o P -> (forall a, P a -> Q a) -> safe o Q.
Proof. destruct o; cbn; auto. Qed.

Definition compat (a b : row) : Prop := Forall2 (fun x y => same_tag x y = true) a b.
Definition rows_ok (n : nat) (rows : list row) : Prop :=
  Forall (fun r => List.length r = n) rows /\ (forall a b, In a rows -> In b rows -> compat a b).

Lemma compatb_iff a b : compatb a b = true <-> compat a b.
Proof.
  unfold compat. revert b. induction a as [|x a IH]; intros [|y b]; cbn.
  - split; [constructor | reflexivity].
  - split; [discriminate | intros H; inversion H].
  - split; [discriminate | intros H; inversion H].
  - rewrite andb_true_iff, IH. split; [intros [? ?]; constructor; auto | intros H; inversion H; auto].
Qed.

Lemma same_tag_refl v : same_tag v v = true.
Proof. destruct v; reflexivity. Qed.

Lemma compat_refl a : compat a a.
Proof. unfold compat. induction a; constructor; auto using same_tag_refl. Qed.

Lemma compat_nth a b i : compat a b -> same_tag (nth i a VNull) (nth i b VNull) = true.
Proof.
  unfold compat. intros H. revert i. induction H; intros [|i]; cbn; auto.
Qed.

Lemma compat_app a a' b b' : compat a a' -> compat b b' -> compat (a ++ b) (a' ++ b').
Proof. unfold compat. apply Forall2_app. Qed.

Lemma compat_nulls_l n b : List.length b = n -> compat (nulls n) b.
Proof.
  unfold compat, nulls. revert n. induction b as [|y b IH]; intros n <-; cbn; constructor; auto.
Qed.

Lemma compat_nulls_r n b : List.length b = n -> compat b (nulls n).
Proof.
  unfold compat, nulls. revert n. induction b as [|y b IH]; intros n <-; cbn; constructor; auto.
  destruct y; reflexivity.
Qed.

Lemma rows_ok_nil n : rows_ok n [].
Proof. split; [constructor | intros a b []]. Qed.

Lemma rows_ok_incl n rows rows' : rows_ok n rows -> incl rows' rows -> rows_ok n rows'.
Proof.
  intros [W C] I. split.
  - rewrite Forall_forall in *. auto.
  - intros a b Ha Hb. apply C; auto.
Qed.

(* ---------------------------------------------------------------------------------- *)
(* names and conditions                                                                *)

Lemma find_column_lt c fs i : find_column c fs = Ok i -> (i < List.length fs)%nat.
Proof.
  unfold find_column, lookup_field_idx, lookup_col_idx_by_id, match_idxs. rewrite !match_idxs_positions.
  destruct (String.eqb (cr_qual c) "").
  - destruct (positions_from _ fs 0) as [|j [|? ?]] eqn:E; try discriminate. intros H; inversion H; subst.
    assert (Hin : In i (positions_from (fun f : field => String.eqb (f_col f) (cr_name c)) fs 0)) by (rewrite E; left; auto).
    apply positions_lt in Hin. destruct Hin as [Hr _]. cbn in Hr. lia.
  - destruct (positions_from _ fs 0) as [|j l] eqn:E; try discriminate. intros H; inversion H; subst.
    assert (Hin : In i (positions_from (fun f : field => String.eqb (f_col f) (cr_name c) && String.eqb (f_table f) (cr_qual c)) fs 0))
      by (rewrite E; left; auto).
    apply positions_lt in Hin. destruct Hin as [Hr _]. cbn in Hr. lia.
Qed.

Lemma find_column_safe c fs : safe (find_column c fs) (fun i => (i < List.length fs)%nat).
Proof. destruct (find_column c fs) eqn:E; cbn; auto. - eapply find_column_lt; eauto.
  - unfold find_column, lookup_field_idx, lookup_col_idx_by_id in E.
    destruct (String.eqb (cr_qual c) ""); destruct (match_idxs _ fs) as [|? [|? ?]]; discriminate.
Qed.

Lemma idx_row_safe rw i : (i < List.length rw)%nat -> exists v, idx_row rw i = Ok v /\ v = nth i rw VNull.
Proof. intros H. rewrite idx_row_nth by auto. eauto. Qed.

Lemma eval_primary_safe x fs rw : List.length rw = List.length fs -> safe (eval_primary x fs rw) (fun _ => True).
Proof.
  intros L. destruct x as [v|c]; cbn; auto.
  eapply safe_bind; [apply find_column_safe|]. intros i Hi. cbn beta in *.
  rewrite idx_row_nth by lia. cbn. auto.
Qed.

Lemma cmp_ord_safe s t a b : safe (cmp_ord s t a b) (fun _ => True).
Proof. unfold cmp_ord. destruct a, b, s; cbn; auto. Qed.

Lemma eval_cmp_safe l op r fs rw : List.length rw = List.length fs -> safe (eval_cmp l op r fs rw) (fun _ => True).
Proof.
  intros L. unfold eval_cmp.
  eapply safe_bind; [apply eval_primary_safe; auto|]. intros a _.
  eapply safe_bind; [apply eval_primary_safe; auto|]. intros b _.
  destruct op; cbn; auto using cmp_ord_safe.
Qed.

(* the type of the result of evaluate depends on the expression only *)
Definition eval_tag (e : expr) (v : value) : Prop :=
  match e with
  | EVal (XLit l) => v = l
  | EVal (XCol _) => False
  | _ => exists b, v = VBool b
  end.

Lemma evaluate_safe e : forall fs rw, List.length rw = List.length fs -> safe (evaluate e fs rw) (eval_tag e).
Proof.
  induction e as [v | l op r | [[l op] r] rhs IH | e1 IH1 e2 IH2]; intros fs rw L; cbn [evaluate].
  - destruct v as [[ | | | ]|]; cbn; auto.
  - eapply safe_bind; [apply eval_cmp_safe; auto|]. intros b _. cbn. eauto.
  - eapply safe_bind; [apply eval_cmp_safe; auto|]. intros a _.
    eapply safe_bind; [apply IH; auto|]. intros b _. destruct b; cbn; eauto.
  - eapply safe_bind; [apply IH1; auto|]. intros a _.
    eapply safe_bind; [apply IH2; auto|]. intros b _. destruct a, b; cbn; eauto.
Qed.

Lemma eval_tag_compat e v1 v2 : eval_tag e v1 -> eval_tag e v2 -> same_tag v1 v2 = true.
Proof.
  destruct e as [[l|c]| | | ]; cbn.
  - intros -> ->. apply same_tag_refl.
  - tauto.
  - intros [b1 ->] [b2 ->]. reflexivity.
  - intros [b1 ->] [b2 ->]. reflexivity.
  - intros [b1 ->] [b2 ->]. reflexivity.
Qed.

Lemma filter_rows_safe e fs rows n :
  n = List.length fs -> rows_ok n rows -> safe (filter_rows e fs rows) (fun kept => rows_ok n kept).
Proof.
  intros -> [W C]. 
  assert (G : safe (filter_rows e fs rows) (fun kept => incl kept rows)).
  { induction rows as [|rw rows IH]; cbn.
    - intros x [].
    - inversion W as [|? ? Hw W']; subst.
      eapply safe_bind; [apply evaluate_safe; auto|]. intros v _.
      eapply safe_bind; [apply IH; auto|].
      + intros a b Ha Hb. apply C; cbn; auto.
      + intros kept I. cbn. destruct v as [ | |[|]| ]; intros x Hx; cbn in *; intuition. }
  eapply safe_weaken; [exact G|]. intros kept I. apply (rows_ok_incl _ rows); [split; auto | exact I].
Qed.

(* ---------------------------------------------------------------------------------- *)
(* joins                                                                               *)

Lemma join_scan_safe cond tf mk inner :
  (forall x, In x inner -> List.length (mk x) = List.length tf) ->
  safe (join_scan cond tf mk inner) (fun ms => incl ms (map mk inner)).
Proof.
  induction inner as [|x inner IH]; intros H; cbn.
  - intros y [].
  - eapply safe_bind; [apply evaluate_safe; apply H; left; auto|]. intros v _.
    destruct v; cbn; auto.
    eapply safe_bind; [apply IH; intros y Hy; apply H; right; auto|]. intros ms I. cbn.
    destruct b; intros y Hy; cbn in *; intuition.
Qed.

Definition outer_result (mk : row -> row -> row) (pad : option (row -> row)) (outer inner rows : list row) : Prop :=
  forall y, In y rows ->
    (exists o x, In o outer /\ In x inner /\ y = mk o x) \/
    (exists o p, In o outer /\ pad = Some p /\ y = p o).

Lemma join_outer_safe cond tf mk pad outer inner :
  (forall o x, In o outer -> In x inner -> List.length (mk o x) = List.length tf) ->
  safe (join_outer cond tf mk pad outer inner) (outer_result mk pad outer inner).
Proof.
  induction outer as [|o outer IH]; intros H; cbn.
  - intros y [].
  - eapply safe_bind; [apply join_scan_safe; intros x Hx; apply H; cbn; auto|]. intros ms I.
    eapply safe_bind; [apply IH; intros o' x Ho Hx; apply H; cbn; auto|]. intros more R. cbn.
    assert (Hms : forall y, In y ms -> exists o0 x, In o0 (o :: outer) /\ In x inner /\ y = mk o0 x).
    { intros y Hy. apply I in Hy. apply in_map_iff in Hy. destruct Hy as [x [<- Hx]]. exists o, x. cbn. auto. }
    assert (Hmore : outer_result mk pad (o :: outer) inner more).
    { intros y Hy. destruct (R y Hy) as [[o0 [x [Ho [Hx ->]]]]|[o0 [p [Ho [Hp ->]]]]].
      - left. exists o0, x. cbn. auto.
      - right. exists o0, p. cbn. auto. }
    destruct ms as [|m ms'], pad as [p|]; intros y Hy; cbn in Hy.
    + destruct Hy as [<-|Hy]; [right; exists o, p; cbn; auto | apply Hmore; auto].
    + apply Hmore; auto.
    + rewrite in_app_iff in Hy. destruct Hy as [<-|[Hy|Hy]]; [left; apply Hms; cbn; auto | left; apply Hms; cbn; auto | apply Hmore; auto].
    + rewrite in_app_iff in Hy. destruct Hy as [<-|[Hy|Hy]]; [left; apply Hms; cbn; auto | left; apply Hms; cbn; auto | apply Hmore; auto].
Qed.

Lemma fetch_wf d name cols rows :
  db_wf d = true -> fetch d name = Some (cols, rows) -> rows_ok (List.length cols) rows.
Proof.
  unfold db_wf. induction d as [|[[n c] r] d IH]; cbn; try discriminate.
  rewrite andb_true_iff. intros [T D]. destruct (String.eqb n name).
  - intros H; inversion H; subst. apply andb_true_iff in T. destruct T as [W C]. split.
    + rewrite Forall_forall. intros x Hx. rewrite forallb_forall in W. apply Nat.eqb_eq. auto.
    + intros a b Ha Hb. apply compatb_iff. rewrite forallb_forall in C. specialize (C a Ha).
      rewrite forallb_forall in C. auto.
  - apply IH. exact D.
Qed.

Lemma nulls_length n : List.length (nulls n) = n.
Proof. apply repeat_length. Qed.

Lemma join_safe d : db_wf d = true -> forall t,
  safe (nested_loop_join d t) (fun '(fs, rows) => rows_ok (List.length fs) rows).
Proof.
  intros WF. induction t as [name alias | l IHl jt r IHr cond]; cbn [nested_loop_join].
  - destruct (fetch d name) as [[cols rows]|] eqn:F; cbn; auto.
    rewrite map_length. eapply fetch_wf; eauto.
  - eapply safe_bind; [exact IHl|]. intros [lf L] [WL CL].
    eapply safe_bind; [exact IHr|]. intros [rf R] [WR CR].
    rewrite Forall_forall in WL, WR.
    assert (Len : forall a b, In a L -> In b R -> List.length (a ++ b) = List.length (lf ++ rf)).
    { intros a b Ha Hb. rewrite !app_length. rewrite (WL a Ha), (WR b Hb). reflexivity. }
    destruct jt.
    + cbn. rewrite app_length. apply rows_ok_nil.
    + (* LEFT *)
      eapply safe_bind; [apply join_outer_safe; intros; apply Len; auto|]. intros rows Res. cbn.
      split.
      * rewrite Forall_forall. intros y Hy. destruct (Res y Hy) as [[o [x [Ho [Hx ->]]]]|[o [p [Ho [Hp ->]]]]].
        -- apply Len; auto.
        -- inversion Hp; subst. rewrite !app_length, nulls_length, (WL o Ho). reflexivity.
      * intros y1 y2 H1 H2.
        destruct (Res y1 H1) as [[o1 [x1 [Ho1 [Hx1 ->]]]]|[o1 [p1 [Ho1 [Hp1 ->]]]]];
        destruct (Res y2 H2) as [[o2 [x2 [Ho2 [Hx2 ->]]]]|[o2 [p2 [Ho2 [Hp2 ->]]]]];
          try (inversion Hp1; subst); try (inversion Hp2; subst); apply compat_app; auto.
        -- apply compat_nulls_r. auto.
        -- apply compat_nulls_l. auto.
        -- apply compat_nulls_l. apply nulls_length.
    + (* RIGHT *)
      eapply safe_bind; [apply join_outer_safe; intros o x Ho Hx; apply Len; auto|]. intros rows Res. cbn.
      split.
      * rewrite Forall_forall. intros y Hy. destruct (Res y Hy) as [[o [x [Ho [Hx ->]]]]|[o [p [Ho [Hp ->]]]]].
        -- apply Len; auto.
        -- inversion Hp; subst. rewrite !app_length, nulls_length, (WR o Ho). reflexivity.
      * intros y1 y2 H1 H2.
        destruct (Res y1 H1) as [[o1 [x1 [Ho1 [Hx1 ->]]]]|[o1 [p1 [Ho1 [Hp1 ->]]]]];
        destruct (Res y2 H2) as [[o2 [x2 [Ho2 [Hx2 ->]]]]|[o2 [p2 [Ho2 [Hp2 ->]]]]];
          try (inversion Hp1; subst); try (inversion Hp2; subst); apply compat_app; auto.
        -- apply compat_nulls_r. auto.
        -- apply compat_nulls_l. auto.
        -- apply compat_nulls_l. apply nulls_length.
    + (* INNER *)
      eapply safe_bind; [apply join_outer_safe; intros; apply Len; auto|]. intros rows Res. cbn.
      split.
      * rewrite Forall_forall. intros y Hy. destruct (Res y Hy) as [[o [x [Ho [Hx ->]]]]|[o [p [Ho [Hp ->]]]]].
        -- apply Len; auto.
        -- discriminate.
      * intros y1 y2 H1 H2.
        destruct (Res y1 H1) as [[o1 [x1 [Ho1 [Hx1 ->]]]]|[o1 [p1 [Ho1 [Hp1 ->]]]]];
        destruct (Res y2 H2) as [[o2 [x2 [Ho2 [Hx2 ->]]]]|[o2 [p2 [Ho2 [Hp2 ->]]]]];
          try discriminate. apply compat_app; auto.
Qed.

(* ---------------------------------------------------------------------------------- *)
(* projection                                                                          *)

Definition resolved (sl : list derivedcol) (fs : list field) : Prop :=
  forall d c, In d sl -> prim_col (dc_prim d) = Some c -> exists i, find_column c fs = Ok i.

Lemma build_lookup_safe sl fs : safe (build_lookup sl fs) (fun _ => resolved sl fs).
Proof.
  induction sl as [|d sl IH]; cbn.
  - intros d c [].
  - destruct (prim_col (dc_prim d)) as [c|] eqn:P.
    + destruct (find_column c fs) as [i| |] eqn:F; cbn; auto.
      * eapply safe_weaken; [exact IH|]. intros u R d' c' [E|Hd] Hc; cbn beta in R; [subst d'; rewrite P in Hc; inversion Hc; subst; eauto | eapply R; eauto].
      * pose proof (find_column_safe c fs) as S. rewrite F in S. exact S.
    + eapply safe_weaken; [exact IH|]. intros u R d' c' [E|Hd] Hc; cbn beta in R; [subst d'; congruence | eapply R; eauto].
Qed.

Definition aggr_item (d : derivedcol) : bool := is_avg d || is_count d.

Lemma lookup_lt c fs : (exists i, find_column c fs = Ok i) -> (lookup_idx c fs < List.length fs)%nat.
Proof. intros [i F]. unfold lookup_idx. rewrite F. eapply find_column_lt; eauto. Qed.

(* one cell: never a panic; aggregate seeds are integers; two rows give compatible cells *)
Lemma project_cell_safe d fs rw :
  List.length rw = List.length fs ->
  (forall c, prim_col (dc_prim d) = Some c -> exists i, find_column c fs = Ok i) ->
  safe (project_cell (dc_prim d) fs rw) (fun v => int_cell d v).
Proof.
  intros L R. unfold project_cell, int_cell, is_avg, is_count.
  destruct (dc_prim d) as [ | [c|] | c | e] eqn:Ed; cbn; auto.
  - rewrite idx_row_nth by (rewrite L; apply lookup_lt; apply R; reflexivity). cbn. intros _. destruct (nth (lookup_idx c fs) rw VNull); eauto.
  - eauto.
  - rewrite idx_row_nth by (rewrite L; apply lookup_lt; apply R; reflexivity). cbn.
    destruct (nth (lookup_idx c fs) rw VNull); cbn; eauto.
  - assert (G : safe (evaluate e fs rw) (fun _ => True)) by (eapply safe_weaken; [apply evaluate_safe; auto | auto]).
    destruct e as [[l|c]| | | ]; try (eapply safe_weaken; [exact G|]; intros v _ [H|H]; discriminate).
    rewrite idx_row_nth by (rewrite L; apply lookup_lt; apply R; reflexivity). cbn. intros [H|H]; discriminate.
Qed.

Lemma project_cell_compat d fs r1 r2 v1 v2 :
  List.length r1 = List.length fs -> List.length r2 = List.length fs -> compat r1 r2 ->
  (forall c, prim_col (dc_prim d) = Some c -> exists i, find_column c fs = Ok i) ->
  project_cell (dc_prim d) fs r1 = Ok v1 -> project_cell (dc_prim d) fs r2 = Ok v2 -> same_tag v1 v2 = true.
Proof.
  intros L1 L2 C R. unfold project_cell.
  destruct (dc_prim d) as [ | [c|] | c | e] eqn:Ed; cbn; try discriminate.
  - rewrite !idx_row_nth by (rewrite ?L1, ?L2; apply lookup_lt; apply R; reflexivity). cbn.
    intros H1 H2. inversion H1; inversion H2; subst.
    destruct (nth _ r1 VNull), (nth _ r2 VNull); reflexivity.
  - intros H1 H2. inversion H1; inversion H2; reflexivity.
  - rewrite !idx_row_nth by (rewrite ?L1, ?L2; apply lookup_lt; apply R; reflexivity). cbn.
    destruct (nth (lookup_idx c fs) r1 VNull), (nth (lookup_idx c fs) r2 VNull); try discriminate.
    intros H1 H2. inversion H1; inversion H2; reflexivity.
  - assert (G : forall e', evaluate e' fs r1 = Ok v1 -> evaluate e' fs r2 = Ok v2 -> same_tag v1 v2 = true).
    { intros e' H1 H2. pose proof (evaluate_safe e' fs r1 L1) as S1. pose proof (evaluate_safe e' fs r2 L2) as S2.
      rewrite H1 in S1. rewrite H2 in S2. eapply eval_tag_compat; eauto. }
    destruct e as [[l|c]| | | ]; cbn iota beta; try apply G.
    rewrite !idx_row_nth by (rewrite ?L1, ?L2; apply lookup_lt; apply R; reflexivity).
    intros H1 H2. inversion H1; inversion H2; subst. apply compat_nth. exact C.
Qed.

Lemma resolved_cons d sl fs : resolved (d :: sl) fs ->
  (forall c, prim_col (dc_prim d) = Some c -> exists i, find_column c fs = Ok i) /\ resolved sl fs.
Proof. intros R. split; [intros c Hc; apply (R d c); cbn; auto | intros d' c' Hd Hc; apply (R d' c'); cbn; auto]. Qed.

Lemma project_row_safe sl fs rw :
  List.length rw = List.length fs -> resolved sl fs -> safe (project_row sl fs rw) (fun r => ints_at sl r).
Proof.
  intros L. induction sl as [|d sl IH]; intros R; cbn.
  - constructor.
  - apply resolved_cons in R. destruct R as [Rd R].
    eapply safe_bind; [apply project_cell_safe; auto|]. intros v Hv.
    eapply safe_bind; [apply IH; auto|]. intros vs Hvs. cbn. constructor; auto.
Qed.

Lemma project_row_compat sl fs r1 r2 : forall p1 p2,
  List.length r1 = List.length fs -> List.length r2 = List.length fs -> compat r1 r2 -> resolved sl fs ->
  project_row sl fs r1 = Ok p1 -> project_row sl fs r2 = Ok p2 -> compat p1 p2.
Proof.
  induction sl as [|d sl IH]; intros p1 p2 L1 L2 C R; cbn.
  - intros H1 H2. inversion H1; inversion H2. constructor.
  - apply resolved_cons in R. destruct R as [Rd R].
    destruct (project_cell (dc_prim d) fs r1) as [v1| |] eqn:E1; cbn; try discriminate.
    destruct (project_row sl fs r1) as [q1| |] eqn:F1; cbn; try discriminate.
    destruct (project_cell (dc_prim d) fs r2) as [v2| |] eqn:E2; cbn; try discriminate.
    destruct (project_row sl fs r2) as [q2| |] eqn:F2; cbn; try discriminate.
    intros H1 H2. inversion H1; inversion H2; subst. constructor.
    + apply (project_cell_compat d fs r1 r2 v1 v2 L1 L2 C Rd E1 E2).
    + apply (IH q1 q2); auto.
Qed.

Lemma project_rows_safe sl fs rows :
  rows_ok (List.length fs) rows -> resolved sl fs ->
  safe (project_rows sl fs rows)
       (fun out => Forall (ints_at sl) out /\
                   forall p, In p out -> exists r, In r rows /\ project_row sl fs r = Ok p).
Proof.
  intros [W C] R. clear C. induction rows as [|rw rows IH]; cbn.
  - split; [constructor | intros p []].
  - inversion W as [|? ? Hw W']; subst.
    destruct (project_row sl fs rw) as [p| |] eqn:E; cbn; auto.
    + pose proof (project_row_safe sl fs rw Hw R) as S. rewrite E in S. cbn in S.
      eapply safe_bind; [apply IH; auto|]. intros out [I P]. cbn. split; [constructor; auto|].
      intros p' [<-|Hp]; [exists rw; cbn; auto|]. destruct (P p' Hp) as [r [Hr Hp']]. exists r. cbn. auto.
    + pose proof (project_row_safe sl fs rw Hw R) as S. rewrite E in S. exact S.
Qed.

Lemma project_header_safe sl fs : resolved sl fs -> safe (project_header sl fs) (fun hdr => List.length hdr = List.length sl).
Proof.
  induction sl as [|d sl IH]; intros R; cbn; auto.
  apply resolved_cons in R. destruct R as [Rd R].
  assert (H : safe (header_cell d fs) (fun _ => True)).
  { unfold header_cell. destruct (dc_prim d) as [ | [c|] | c | e] eqn:Ed; cbn; auto.
    destruct e as [[l|c]| | | ]; cbn; auto.
    destruct (nth_error fs (lookup_idx c fs)) eqn:E; cbn; auto.
    apply nth_error_None in E. assert (lookup_idx c fs < List.length fs)%nat by (apply lookup_lt; apply Rd; reflexivity). lia. }
  eapply safe_bind; [exact H|]. intros f _. eapply safe_bind; [apply IH; auto|]. intros fs' L. cbn. f_equal. exact L.
Qed.


(* ---------------------------------------------------------------------------------- *)
(* aggregation                                                                         *)

(* relation between a representative and the first member of its group: aggregate cells are
   integers, all other cells are the first member's *)
Fixpoint rep_rel (sl : list derivedcol) (rep m : row) : Prop :=
  match sl, rep, m with
  | [], [], [] => True
  | d :: sl', v :: rep', x :: m' =>
      (if aggr_item d then exists z, v = VInt z else v = x) /\ rep_rel sl' rep' m'
  | _, _, _ => False
  end.

Lemma cols_q_rel sl : forall first n rw rep m,
  ints_at sl rw -> rep_rel sl rep m -> rep_rel sl (cols_q sl first n rw rep) m.
Proof.
  induction sl as [|d sl IH]; intros first n rw rep m Hw.
  - inversion Hw; subst. destruct rep, m; cbn; auto.
  - inversion Hw as [|? x ? rw' Hx Hw']; subst. destruct rep as [|y rep], m as [|x0 m]; cbn; try tauto.
    intros [Hy Hr]. split; [|apply IH; auto].
    unfold aggr_item, cell_upd, is_avg, is_count in *.
    destruct (dc_prim d); cbn in *; auto.
    + destruct first; eauto.
    + eauto.
Qed.

Lemma rel_init sl : forall m, ints_at sl m -> rep_rel sl (cols_q sl true 1 m m) m.
Proof.
  induction sl as [|d sl IH]; intros m H; inversion H as [|? x ? m' Hx H']; subst; cbn; auto.
  split; [|apply IH; auto].
  unfold int_cell, aggr_item, cell_upd, is_avg, is_count in *.
  destruct (dc_prim d); cbn in *; auto; eauto.
Qed.

Lemma rep_fold_rel sl ms : forall rep n m,
  Forall (ints_at sl) ms -> rep_rel sl rep m -> rep_rel sl (rep_fold sl rep n ms) m.
Proof.
  induction ms as [|a ms IH]; intros rep n m H R; cbn; auto.
  inversion H; subst. apply IH; auto. apply cols_q_rel; auto.
Qed.

Lemma group_rep_rel sl m ms : Forall (ints_at sl) (m :: ms) -> rep_rel sl (group_rep sl (m :: ms)) m.
Proof. intros H. inversion H; subst. cbn. apply rep_fold_rel; auto. apply rel_init; auto. Qed.

Lemma rel_compat sl : forall r1 m1 r2 m2,
  rep_rel sl r1 m1 -> rep_rel sl r2 m2 -> compat m1 m2 -> compat r1 r2.
Proof.
  unfold compat. induction sl as [|d sl IH]; intros [|v1 r1] [|x1 m1] [|v2 r2] [|x2 m2] R1 R2 C;
    cbn in R1, R2; try contradiction; try (inversion C; fail).
  - constructor.
  - destruct R1 as [H1 R1], R2 as [H2 R2]. inversion C; subst. constructor; [|eapply IH; eauto].
    destruct (aggr_item d).
    + destruct H1 as [z1 ->], H2 as [z2 ->]. reflexivity.
    + subst. auto.
Qed.

Lemma rel_length sl : forall r m, rep_rel sl r m -> List.length r = List.length sl.
Proof. induction sl as [|d sl IH]; intros [|v r] [|x m]; cbn; try tauto. intros [_ H]. f_equal. eauto. Qed.

(* `*` together with GROUP BY: no select column matches, every row has the empty key, the
   first row stays *)
Definition all_star (sl : list derivedcol) : bool :=
  forallb (fun d => match dc_prim d with SPStar => true | _ => false end) sl.

Lemma agg_cols_star sl : forall ci first rw rep cs, all_star sl = true -> agg_cols sl ci first rw rep cs = Ok (rep, cs).
Proof.
  induction sl as [|d sl IH]; intros ci first rw rep cs H; cbn; auto.
  cbn in H. apply andb_true_iff in H. destruct H as [Hd H]. destruct (dc_prim d); try discriminate. apply IH; auto.
Qed.

Lemma col_to_idx_star sl g : all_star sl = true -> forall k, col_to_idx_from sl g k = None.
Proof.
  induction sl as [|d sl IH]; intros H k; cbn; auto.
  cbn in H. apply andb_true_iff in H. destruct H as [Hd H]. unfold dc_matches.
  destruct (dc_prim d); try discriminate. apply IH; auto.
Qed.

Lemma group_key_star sl gb rw : all_star sl = true -> group_key sl gb rw = Ok [].
Proof.
  intros H. induction gb as [|g gb IH]; cbn; auto.
  unfold col_to_idx. rewrite col_to_idx_star by auto. exact IH.
Qed.

Lemma set_group_in_weak k s gs e : In e (set_group k s gs) -> In e gs \/ snd e = s.
Proof.
  induction gs as [|[k' s'] gs IH]; cbn; auto. destruct (gkey_eqb k' k); cbn.
  - intros [<-|H]; auto.
  - intros [<-|H]; auto. destruct (IH H); auto.
Qed.

Lemma agg_loop_star sl gb rows : all_star sl = true -> forall gs (S : row -> Prop),
  (forall e, In e gs -> S (fst (snd e))) -> (forall r, In r rows -> S r) ->
  safe (agg_loop sl gb gs rows) (fun gs' => forall e, In e gs' -> S (fst (snd e))).
Proof.
  intros H. induction rows as [|rw rows IH]; intros gs S Hg Hr; cbn; auto.
  unfold agg_step. rewrite group_key_star by auto. cbn [Select.obind].
  destruct (find_group [] gs) as [[rep cs]|] eqn:F.
  - rewrite agg_cols_star by auto. cbn. apply IH.
    + intros e He. apply set_group_in_weak in He. destruct He as [He|He]; auto.
      destruct e as [k' s']. cbn in He. subst s'. cbn. apply find_group_some in F. apply (Hg _ F).
    + intros r Hr'. apply Hr. right; auto.
  - rewrite agg_cols_star by auto. cbn. apply IH.
    + intros e He. rewrite in_app_iff in He. destruct He as [He|[<-|[]]]; auto. cbn. apply Hr. left; auto.
    + intros r Hr'. apply Hr. right; auto.
Qed.

Lemma empty_row_safe sl : safe (empty_aggregate_row sl) (fun r => List.length r = List.length sl).
Proof.
  induction sl as [|d sl IH]; cbn; auto.
  assert (H : safe (match dc_prim d with
                    | SPCount _ | SPAvg _ => Ok (VInt 0)
                    | SPExpr e => evaluate e [] []
                    | SPStar => Err EOther end) (fun _ => True)).
  { destruct (dc_prim d); cbn; auto. eapply safe_weaken; [apply evaluate_safe; reflexivity | auto]. }
  eapply safe_bind; [exact H|]. intros v _. eapply safe_bind; [exact IH|]. intros vs L. cbn. f_equal. exact L.
Qed.

(* rows as the projection left them (not `*`): aggregation is safe and keeps the invariant *)
Lemma aggregate_safe sl gb rows :
  rows_ok (List.length sl) rows -> Forall (ints_at sl) rows ->
  safe (aggregate_rows sl gb rows) (fun out => rows_ok (List.length sl) out).
Proof.
  intros RO I. unfold aggregate_rows.
  destruct (negb (has_aggr sl) && match gb with [] => true | _ => false end); [exact RO|].
  assert (Loop : safe (gs <~ agg_loop sl gb [] rows ;; Ok (map (fun g => fst (snd g)) gs))
                      (fun out => rows_ok (List.length sl) out)).
  { destruct (agg_loop_inv sl gb rows [] [] (inv_init sl gb)) as [gs [E Inv]]; auto.
    rewrite E. cbn. cbn [app] in Inv.
    assert (Ent : forall o, In o (map (fun g => fst (snd g)) gs) ->
              exists m ms, In m rows /\ Forall (ints_at sl) (m :: ms) /\ o = group_rep sl (m :: ms)).
    { intros o Ho. apply in_map_iff in Ho. destruct Ho as [[k s] [<- He]]. cbn.
      destruct (inv_state _ _ _ _ Inv _ _ He) as [NE [Hr _]].
      destruct (members sl gb k rows) as [|m ms] eqn:Em; [congruence|].
      exists m, ms. repeat split; auto.
      - assert (Hin : In m (members sl gb k rows)) by (rewrite Em; left; auto). apply members_in in Hin. tauto.
      - rewrite <- Em. apply members_good. exact I. }
    split.
    - rewrite Forall_forall. intros o Ho. destruct (Ent o Ho) as [m [ms [_ [G ->]]]].
      eapply rel_length. apply group_rep_rel. exact G.
    - intros o1 o2 H1 H2. destruct (Ent o1 H1) as [m1 [ms1 [Hm1 [G1 ->]]]]. destruct (Ent o2 H2) as [m2 [ms2 [Hm2 [G2 ->]]]].
      eapply rel_compat; [apply group_rep_rel; exact G1 | apply group_rep_rel; exact G2 |].
      destruct RO as [_ C]. apply C; auto. }
  destruct gb as [|g gb].
  - destruct rows as [|r rows]; [|exact Loop].
    eapply safe_bind; [apply empty_row_safe|]. intros r L. cbn. split.
    + constructor; auto.
    + intros a b [<-|[]] [<-|[]]. apply compat_refl.
  - destruct rows; exact Loop.
Qed.

(* rows as they came from FROM / WHERE (select list is `*`) *)
Lemma aggregate_safe_star sl gb rows n :
  all_star sl = true -> rows_ok n rows -> safe (aggregate_rows sl gb rows) (fun out => rows_ok n out).
Proof.
  intros H RO. unfold aggregate_rows.
  assert (HA : has_aggr sl = false).
  { unfold has_aggr. clear - H. induction sl as [|d sl IH]; cbn; auto. cbn in H. apply andb_true_iff in H.
    destruct H as [Hd H]. rewrite IH by auto. destruct (dc_prim d); try discriminate; reflexivity. }
  rewrite HA. cbn [negb andb].
  destruct gb as [|g gb]; [exact RO|].
  assert (Loop : safe (gs <~ agg_loop sl (g :: gb) [] rows ;; Ok (map (fun g => fst (snd g)) gs)) (fun out => rows_ok n out)).
  { eapply safe_bind.
    - apply (agg_loop_star sl (g :: gb) rows H [] (fun r => In r rows)); [intros e [] | auto].
    - intros gs Hg. cbn. apply (rows_ok_incl n rows); auto.
      intros o Ho. apply in_map_iff in Ho. destruct Ho as [e [<- He]]. apply Hg. exact He. }
  destruct rows; exact Loop.
Qed.

(* ---------------------------------------------------------------------------------- *)
(* projectColumns, sortColumns, the whole statement                                    *)

Definition no_star (sl : list derivedcol) : bool :=
  forallb (fun d => match dc_prim d with SPStar => false | _ => true end) sl.

(* what the rest of the pipeline needs to know after projectColumns *)
Definition after_proj (sl : list derivedcol) (res : list field * list row) : Prop :=
  let '(hdr, out) := res in
  (all_star sl = true /\ rows_ok (List.length hdr) out) \/
  (List.length hdr = List.length sl /\ rows_ok (List.length sl) out /\ Forall (ints_at sl) out).

Lemma shape_cases sl :
  star_alone sl = true ->
  sl <> [] /\ (all_star sl = true \/ match sl with d :: _ => dc_prim d <> SPStar | [] => True end).
Proof.
  unfold star_alone. destruct sl as [|d [|d' sl]]; try discriminate.
  - intros _. split; [discriminate|]. cbn. destruct (dc_prim d); auto; right; discriminate.
  - intros H. split; [discriminate|]. right. cbn in H. destruct (dc_prim d); try discriminate.
Qed.

Lemma project_columns_safe sl fs rows :
  sl <> [] -> (all_star sl = true \/ match sl with d :: _ => dc_prim d <> SPStar | [] => True end) ->
  rows_ok (List.length fs) rows ->
  safe (project_columns sl fs rows) (after_proj sl).
Proof.
  intros NE Sh RO. destruct sl as [|d sl]; [congruence|]. unfold project_columns.
  destruct (dc_prim d) eqn:Ed.
  - (* star first *)
    destruct Sh as [Sh|Sh]; [|congruence]. cbn. left. auto.
  - eapply safe_bind; [apply build_lookup_safe|]. intros u R. cbn beta in R.
    eapply safe_bind; [apply project_rows_safe; eauto|]. intros out [I P].
    eapply safe_bind; [apply project_header_safe; auto|]. intros hdr L. cbn. right. repeat split; auto.
    + rewrite Forall_forall in *. intros p Hp. apply (ints_at_length (d :: sl) p). auto.
    + intros p1 p2 H1 H2. destruct (P p1 H1) as [r1 [Hr1 E1]]. destruct (P p2 H2) as [r2 [Hr2 E2]].
      destruct RO as [W C]. rewrite Forall_forall in W.
      apply (project_row_compat (d :: sl) fs r1 r2 p1 p2 (W r1 Hr1) (W r2 Hr2) (C r1 r2 Hr1 Hr2) R E1 E2).
  - eapply safe_bind; [apply build_lookup_safe|]. intros u R. cbn beta in R.
    eapply safe_bind; [apply project_rows_safe; eauto|]. intros out [I P].
    eapply safe_bind; [apply project_header_safe; auto|]. intros hdr L. cbn. right. repeat split; auto.
    + rewrite Forall_forall in *. intros p Hp. apply (ints_at_length (d :: sl) p). auto.
    + intros p1 p2 H1 H2. destruct (P p1 H1) as [r1 [Hr1 E1]]. destruct (P p2 H2) as [r2 [Hr2 E2]].
      destruct RO as [W C]. rewrite Forall_forall in W.
      apply (project_row_compat (d :: sl) fs r1 r2 p1 p2 (W r1 Hr1) (W r2 Hr2) (C r1 r2 Hr1 Hr2) R E1 E2).
  - eapply safe_bind; [apply build_lookup_safe|]. intros u R. cbn beta in R.
    eapply safe_bind; [apply project_rows_safe; eauto|]. intros out [I P].
    eapply safe_bind; [apply project_header_safe; auto|]. intros hdr L. cbn. right. repeat split; auto.
    + rewrite Forall_forall in *. intros p Hp. apply (ints_at_length (d :: sl) p). auto.
    + intros p1 p2 H1 H2. destruct (P p1 H1) as [r1 [Hr1 E1]]. destruct (P p2 H2) as [r2 [Hr2 E2]].
      destruct RO as [W C]. rewrite Forall_forall in W.
      apply (project_row_compat (d :: sl) fs r1 r2 p1 p2 (W r1 Hr1) (W r2 Hr2) (C r1 r2 Hr1 Hr2) R E1 E2).
Qed.

Lemma sort_idxs_safe ssl hdr : safe (sort_idxs ssl hdr) (fun keys => Forall (fun k => (fst k < List.length hdr)%nat) keys).
Proof.
  induction ssl as [|s ssl IH]; cbn.
  - constructor.
  - pose proof (find_column_safe (ss_key s) hdr) as F.
    destruct (find_column (ss_key s) hdr) as [i|e|w]; cbn in *.
    + eapply safe_bind; [exact IH|]. intros more M. cbn. constructor; auto.
    + destruct e; cbn; auto.
    + contradiction.
Qed.

Lemma sort_rows_safe keys rows n :
  rows_ok n rows -> Forall (fun k => (fst k < n)%nat) keys -> safe (sort_rows keys rows) (fun _ => True).
Proof.
  intros [W C] K. unfold sort_rows.
  destruct (sort_loop_spec keys rows []) as [s [E _]].
  - rewrite app_nil_r. intros a b Ha Hb. rewrite Forall_forall in W. apply go_less_ltb.
    + unfold wide. rewrite (W a Ha). exact K.
    + unfold wide. rewrite (W b Hb). exact K.
    + unfold tags_ok. rewrite Forall_forall. intros k _. apply compat_nth. apply C; auto.
  - constructor.
  - rewrite E. cbn. auto.
Qed.

Lemma window_safe q rows : window_ok q = true -> safe (select_window q rows) (fun _ => True).
Proof. intros H. rewrite select_window_spec by auto. cbn. auto. Qed.

Lemma shape_window q : parser_shape q = true -> window_ok q = true.
Proof.
  unfold parser_shape, window_ok. rewrite !andb_true_iff. intros [[_ L] O]. rewrite L, O, !orb_true_r. auto.
Qed.

Theorem select_no_panic d q :
  parser_shape q = true -> db_wf d = true -> forall what, select q d <> Panic what.
Proof.
  intros PS WF what.
  assert (S : safe (select q d) (fun _ => True)); [|intros E; rewrite E in S; exact S].
  pose proof (shape_window q PS) as WO.
  unfold parser_shape in PS. rewrite !andb_true_iff in PS. destruct PS as [[Sh _] _].
  apply shape_cases in Sh. destruct Sh as [NE Sh].
  unfold select. destruct (sel_from q) as [|tr _].
  - (* no FROM *)
    eapply safe_weaken; [apply (project_columns_safe (sel_list q) [] [[]] NE Sh)|auto].
    split; [repeat constructor|]. intros a b [<-|[]] [<-|[]]. apply compat_refl.
  - unfold select_core.
    eapply safe_bind; [eapply safe_bind; [apply join_safe; exact WF|]|].
    + intros [fields rows] RO.
      eapply safe_bind.
      * instantiate (1 := fun kept => rows_ok (List.length fields) kept).
        destruct (sel_where q) as [w|]; [apply filter_rows_safe; auto | exact RO].
      * intros kept RK.
        eapply safe_bind; [apply (project_columns_safe _ _ _ NE Sh RK)|].
        intros [hdr rows2] AP.
        eapply safe_bind.
        -- instantiate (1 := fun rows3 => rows_ok (List.length hdr) rows3).
           destruct AP as [[St R2]|[L [R2 I]]].
           ++ apply aggregate_safe_star; auto.
           ++ rewrite L. apply aggregate_safe; auto.
        -- intros rows3 R3.
           eapply safe_bind; [apply sort_idxs_safe|]. intros keys K.
           instantiate (1 := fun '(h, r, k) => exists n, rows_ok n r /\ Forall (fun x => (fst x < n)%nat) k).
           cbn. eauto.
    + intros [[hdr rows] keys] [n [RO K]].
      eapply safe_bind; [apply (sort_rows_safe keys rows n RO K)|]. intros sorted _.
      eapply safe_bind; [apply window_safe; exact WO|]. intros out _. cbn. auto.
Qed.
