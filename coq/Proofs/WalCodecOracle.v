(* C03, log codec: the oracle of the WAL-codec check accepts what the model computes.

   Spec/WalCodecSpec.v: wal_model_agrees (MM) compares the Write / Sync calls of wal.flush and the
   result of wal.read on every byte-granular cut of the written log with Model/WalCodec.v;
   wal_spec_accepts (SM) judges Go's reader on Go's own frame boundaries: it must return exactly the
   records whose frames lie completely inside the cut, validLen = their total length, no error.
   Here: MM = true implies SM = true for every case - any batch, any cut position (also inside a
   length word or a body), any observation. The reader facts used are wal_read_stops /
   stops_strict_prefix of Proofs/WalCodecProofs.v, the byte-granular lemmas C03_reader_prefix
   (= wal_read_interrupted_flush) is itself proved from. No hypothesis is needed: the oracle judges
   only batches of rec_ok records with nothing after the cut - the hypotheses of C03_reader_prefix -
   and accepts otherwise. *)
From Coq Require Import Ascii NArith Bool Lia Arith List Init.Byte.
From Mkdb Require Import Model.CaseLib Model.WalCodec Spec.PageCodecSpec Spec.WalCodecSpec
  Proofs.BytesProofs Proofs.CodecBaseProofs Proofs.WalCodecProofs Proofs.PageCodecOracle.
Import ListNotations.
Open Scope N_scope.

Lemma walrec_eqb_spec a b : walrec_eqb a b = true <-> a = b.
Proof.
  destruct a as [o l p c v], b as [o' l' p' c' v']. unfold walrec_eqb.
  cbn [wr_op wr_lsn wr_page wr_cell wr_val]. rewrite !andb_true_iff, !N.eqb_eq, bytes_eqb_spec.
  split; [intros [[[[-> ->] ->] ->] ->]; reflexivity | intros E; inversion E; auto].
Qed.

Lemma walrecs_eqb_spec a b : list_eqb walrec_eqb a b = true <-> a = b.
Proof. apply list_eqb_spec. exact walrec_eqb_spec. Qed.

(* ---- the frame sizes the oracle reads off Go's calls are those of the model's frames ---- *)
Definition fsz (r : walrec) : N := 4 + N.of_nat (length (wal_encode r)).

Lemma frame_len_length r : length (frame_len r) = 4%nat.
Proof. unfold frame_len. apply le_enc_length. Qed.

Lemma fsz_frame r : fsz r = N.of_nat (length (frame r)).
Proof. unfold fsz, frame. rewrite app_length, frame_len_length. lia. Qed.

Lemma frame_size_model r l b :
  rec_ok r = true -> frame_len r = expand l -> wal_encode r = expand b -> frame_size l b = Some (fsz r).
Proof.
  unfold frame_size. intros H <- <-. destruct (frame_len_dec r H) as [Hd _].
  rewrite frame_len_length, Hd, !N.eqb_refl. reflexivity.
Qed.

Lemma calls_eqb_cons m ms g : calls_eqb (m :: ms) g = true ->
  exists y g', g = y :: g' /\ call_eqb m y = true /\ calls_eqb ms g' = true.
Proof.
  destruct g as [|y g']; cbn [calls_eqb]; [discriminate|]. rewrite andb_true_iff. intros [H1 H2]. eauto.
Qed.

Lemma call_eqb_write b y : call_eqb (WWrite b) y = true -> exists ch, y = Some ch /\ b = expand ch.
Proof. destruct y as [ch|]; cbn [call_eqb]; [|discriminate]. intros H. apply bytes_eqb_spec in H. eauto. Qed.

Lemma call_eqb_sync y : call_eqb WSync y = true -> y = None.
Proof. destruct y; cbn [call_eqb]; [discriminate|reflexivity]. Qed.

Lemma sizes_of_calls fs : forall rs g,
  forallb rec_ok rs = true -> calls_eqb (flush_calls fs rs) g = true ->
  (if fs then sizes_sync g else sizes_nosync g) = Some (map fsz rs).
Proof.
  induction rs as [|r rs IH]; intros g Hok H.
  - destruct g; [|discriminate]. destruct fs; reflexivity.
  - cbn [forallb] in Hok. apply andb_true_iff in Hok. destruct Hok as [Hr Hrs].
    change (flush_calls fs (r :: rs)) with
      (WWrite (frame_len r) :: WWrite (wal_encode r) :: (if fs then [WSync] else []) ++ flush_calls fs rs) in H.
    apply calls_eqb_cons in H. destruct H as (y1 & g1 & -> & C1 & H).
    apply calls_eqb_cons in H. destruct H as (y2 & g2 & -> & C2 & H).
    apply call_eqb_write in C1. destruct C1 as (l & -> & El).
    apply call_eqb_write in C2. destruct C2 as (b & -> & Eb).
    destruct fs; cbn [app] in H.
    + apply calls_eqb_cons in H. destruct H as (y3 & g3 & -> & C3 & H).
      apply call_eqb_sync in C3. subst y3. specialize (IH g3 Hrs H). cbn beta iota in IH.
      cbn [sizes_sync map]. rewrite (frame_size_model r l b Hr El Eb), IH. reflexivity.
    + specialize (IH g2 Hrs H). cbn beta iota in IH.
      cbn [sizes_nosync map]. rewrite (frame_size_model r l b Hr El Eb), IH. reflexivity.
Qed.

(* ---- complete_prefix computes where the model's reader stops ---- *)
Lemma complete_prefix_model : forall rs cut n0 v0,
  forallb rec_ok rs = true -> v0 <= cut ->
  exists n tail, (n <= length rs)%nat /\
    complete_prefix (map fsz rs) cut n0 v0 = ((n0 + n)%nat, v0 + frames_len (firstn n rs)) /\
    firstn (N.to_nat (cut - v0)) (frames rs) = frames (firstn n rs) ++ tail /\ stops tail.
Proof.
  induction rs as [|r rs IH]; intros cut n0 v0 Hok Hv.
  - exists O, []. split; [reflexivity|]. cbn [map complete_prefix firstn]. rewrite Nat.add_0_r.
    unfold frames_len. cbn [frames map concat length N.of_nat]. rewrite N.add_0_r, firstn_nil.
    split; [reflexivity|]. split; [reflexivity | exact stops_nil].
  - cbn [forallb] in Hok. apply andb_true_iff in Hok. destruct Hok as [Hr Hrs].
    cbn [map complete_prefix]. pose proof (fsz_frame r) as Hf. rewrite frames_cons, firstn_app.
    destruct (N.leb_spec (v0 + fsz r) cut) as [Hle|Hgt].
    + destruct (IH cut (S n0) (v0 + fsz r) Hrs Hle) as (n & tail & Hn & Hc & Hfi & Hst).
      exists (S n), tail. split; [cbn [length]; lia|]. split.
      * rewrite Hc. cbn [firstn]. rewrite frames_len_cons. f_equal; lia.
      * split; [|exact Hst]. rewrite firstn_all2 by lia. cbn [firstn]. rewrite frames_cons, <- app_assoc. f_equal.
        replace (N.to_nat (cut - v0) - length (frame r))%nat with (N.to_nat (cut - (v0 + fsz r))) by lia.
        exact Hfi.
    + exists O, (firstn (N.to_nat (cut - v0)) (frame r)). split; [lia|]. split.
      * cbn [firstn]. unfold frames_len. cbn [frames map concat length N.of_nat]. f_equal; lia.
      * split.
        -- replace (N.to_nat (cut - v0) - length (frame r))%nat with O by lia.
           cbn [firstn frames map concat app]. apply app_nil_r.
        -- apply stops_strict_prefix; [exact Hr | lia].
Qed.

Lemma forallb_firstn {A} (f : A -> bool) n l : forallb f l = true -> forallb f (firstn n l) = true.
Proof.
  rewrite !forallb_forall. intros H x Hx. apply H. eapply In_firstn'; exact Hx.
Qed.

(* the model's reader on a log of rec_ok frames cut anywhere: the complete frames, no error *)
Theorem wal_read_cut rs cut :
  forallb rec_ok rs = true ->
  exists n, (n <= length rs)%nat /\
    complete_prefix (map fsz rs) cut O 0 = (n, frames_len (firstn n rs)) /\
    wal_read (firstn (N.to_nat cut) (frames rs)) = mkWRR (firstn n rs) (frames_len (firstn n rs)) (Ok tt).
Proof.
  intros H. destruct (complete_prefix_model rs cut O 0 H (N.le_0_l cut)) as (n & tail & Hn & Hc & Hf & Hs).
  exists n. split; [exact Hn|]. split; [exact Hc|]. rewrite N.sub_0_r in Hf. rewrite Hf.
  apply wal_read_stops; [apply forallb_firstn; exact H | exact Hs].
Qed.

Theorem wal_agreement_implies_acceptance c : wal_model_agrees c = true -> wal_spec_accepts c = true.
Proof.
  unfold wal_model_agrees, wal_spec_accepts. rewrite andb_true_iff. intros [Hc Hr].
  destruct (forallb rec_ok (wc_recs c) && no_extra (wc_extra c)) eqn:G; [|reflexivity].
  apply andb_true_iff in G. destruct G as [Hok Hne].
  rewrite (sizes_of_calls (wc_sync c) _ _ Hok Hc), map_length, Nat.eqb_refl. cbn [andb].
  apply forallb_forall. intros o Ho. rewrite forallb_forall in Hr. specialize (Hr o Ho). cbv zeta in Hr.
  unfold no_extra in Hne. destruct (expand (wc_extra c)); [|discriminate].
  rewrite app_nil_r, written_flush in Hr.
  destruct (wal_read_cut (wc_recs c) (ro_cut o) Hok) as (n & _ & Hcp & Hrd).
  rewrite Hrd in Hr. cbn [rr_entries rr_valid rr_status] in Hr. rewrite Hcp.
  rewrite !andb_true_iff in Hr. destruct Hr as [[He Hv] Hs].
  apply walrecs_eqb_spec in He. apply N.eqb_eq in Hv. rewrite <- He, <- Hv, N.eqb_refl.
  rewrite (proj2 (walrecs_eqb_spec _ _) eq_refl). cbn [andb].
  destruct (ro_stat o); try discriminate. reflexivity.
Qed.

(* ---- the model's own behaviour as a case (for the non-vacuity example) ---- *)
Definition call_obs (m : wal_call) : option (list chunk) :=
  match m with WWrite b => Some (lit b) | WSync => None end.

Definition stat_of (m : res unit) : rstat :=
  match m with Ok _ => ROk | Err ShortRead => RErrEof | Err _ => RErrOther | Panic => RPanic end.

Definition wal_self_case (sync : bool) (recs : list walrec) (cuts : list N) : wal_case :=
  mkWC recs sync [] (map call_obs (flush_calls sync recs))
       (map (fun cut => let r := wal_read (firstn (N.to_nat cut) (frames recs)) in
                        mkRO cut (Lst (rr_entries r)) (rr_valid r) (stat_of (rr_status r))) cuts).
