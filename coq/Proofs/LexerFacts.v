(* Facts about the token wrapper (Model/Lexer.v) and the generated keyword table (Gen/Params.v):
   the table facts are re-proved by computation on the CURRENT table; C10_keyword_case: the
   classified token list does not depend on the letter case of keyword texts. *)
From Coq Require Import ZArith NArith String Ascii List Bool Lia.
From Mkdb Require Import Gen.Params Model.Lexer Model.Parser.
Import ListNotations.
Local Open Scope list_scope.

(* ---- the generated table ---- *)
Fixpoint distinct_strings (l : list string) : bool :=
  match l with
  | [] => true
  | s :: r => negb (existsb (String.eqb s) r) && distinct_strings r
  end.

Fixpoint distinct_Z (l : list Z) : bool :=
  match l with
  | [] => true
  | z :: r => negb (existsb (Z.eqb z) r) && distinct_Z r
  end.

(* ASCII upper-casing of a whole text *)
Fixpoint supper (s : string) : string :=
  match s with
  | EmptyString => EmptyString
  | String c r => String (up_ascii c) (supper r)
  end.

Definition no_lower_ascii (s : string) : bool := String.eqb (supper s) s.

(* every keyword string is upper-case (contains no a..z) and is its own ToUpper *)
Lemma keywords_upper_case :
  forallb (fun p => no_lower_ascii (snd p) && String.eqb (kw_upper (snd p)) (snd p)) keyword_entries = true.
Proof. vm_compute. reflexivity. Qed.

(* keyword strings are pairwise distinct: the Go map has one entry per Tokens line *)
Lemma keywords_distinct : distinct_strings (map snd keyword_entries) = true.
Proof. vm_compute. reflexivity. Qed.

(* every keyword string finds its own number *)
Lemma keywords_lookup : forallb (fun p => match kw_lookup (snd p) with Some z => Z.eqb z (fst p) | None => false end)
                                keyword_entries = true.
Proof. vm_compute. reflexivity. Qed.

(* no keyword number is IDENT / INT / STR: the parser never looks at a keyword token's text *)
Lemma keywords_textless : forallb (fun p => negb (has_text (kind_of (fst p)))) keyword_entries = true.
Proof. vm_compute. reflexivity. Qed.

(* the numbers the parser model distinguishes exist in the enumeration and are pairwise distinct *)
Lemma kinds_distinct : distinct_Z (map fst kind_table) = true /\
                       forallb (fun p => negb (Z.eqb (fst p) (-1000))) kind_table = true.
Proof. vm_compute. split; reflexivity. Qed.

(* literal token types lie inside the fences *)
Lemma literals_in_fences :
  forallb (fun z => Z.ltb tok_literal_start z && Z.ltb z tok_literal_end)
          [c_INT; c_STR; lookup_code "TRUE"; lookup_code "FALSE"; lookup_code "reserved_word_start"] = true.
Proof. vm_compute. reflexivity. Qed.

Lemma two_char_ops_textless :
  has_text (kind_of c_NEQ) = false /\ has_text (kind_of c_GTE) = false /\ has_text (kind_of c_LTE) = false.
Proof. vm_compute. repeat split. Qed.

(* ---- ToUpper is insensitive to ASCII letter case ---- *)
Lemma up_idem c : up_ascii (up_ascii c) = up_ascii c.
Proof. destruct c as [[] [] [] [] [] [] [] []]; reflexivity. Qed.

Lemma up_keeps_high c n : (n =? 197)%N || (n =? 191)%N || (n =? 196)%N || (n =? 177)%N = true ->
  N.eqb (N_of_ascii (up_ascii c)) n = N.eqb (N_of_ascii c) n.
Proof.
  intros H. repeat (apply orb_prop in H as [H|H]); try apply N.eqb_eq in H; subst;
    destruct c as [[] [] [] [] [] [] [] []]; reflexivity.
Qed.

Lemma kw_upper_2 c d r :
  kw_upper (String c (String d r)) =
  if (N.eqb (N_of_ascii c) 197 && N.eqb (N_of_ascii d) 191)%bool then String "S"%char (kw_upper r)
  else if (N.eqb (N_of_ascii c) 196 && N.eqb (N_of_ascii d) 177)%bool then String "I"%char (kw_upper r)
  else String (up_ascii c) (kw_upper (String d r)).
Proof. reflexivity. Qed.

Lemma kw_upper_supper : forall n s, String.length s <= n -> kw_upper (supper s) = kw_upper s.
Proof.
  induction n as [|n IH]; intros s L.
  - destruct s; [reflexivity|cbn in L; lia].
  - destruct s as [|c [|d r]]; try reflexivity.
    + cbn. rewrite up_idem. reflexivity.
    + change (supper (String c (String d r))) with (String (up_ascii c) (String (up_ascii d) (supper r))).
      rewrite !kw_upper_2.
      rewrite !up_keeps_high by reflexivity.
      destruct (N.eqb (N_of_ascii c) 197 && N.eqb (N_of_ascii d) 191)%bool.
      * rewrite IH; [reflexivity|cbn in L; lia].
      * destruct (N.eqb (N_of_ascii c) 196 && N.eqb (N_of_ascii d) 177)%bool.
        -- rewrite IH; [reflexivity|cbn in L; lia].
        -- rewrite up_idem. f_equal.
           change (String (up_ascii d) (supper r)) with (supper (String d r)).
           apply IH. cbn in *; lia.
Qed.

(* two texts that differ only in the case of ASCII letters have the same ToUpper *)
Lemma case_variants_same_upper a b : supper a = supper b -> kw_upper a = kw_upper b.
Proof.
  intros H. rewrite <- (kw_upper_supper _ a (le_n _)), <- (kw_upper_supper _ b (le_n _)), H. reflexivity.
Qed.

(* ---- C10_keyword_case ---- *)
Definition is_keyword_text (s : string) : Prop := kw_lookup (kw_upper s) <> None.

(* r' is r with the letter case of a keyword changed (or r itself) *)
Definition kwcase_variant (r r' : rawtok) : Prop :=
  r_class r = r_class r' /\ r_peek_eq r = r_peek_eq r' /\
  (r_text r = r_text r' \/
   (supper (r_text r) = supper (r_text r') /\ is_keyword_text (r_text r) /\
    match r_class r with RInt | RDelimIdent => False | _ => True end)).

Lemma kw_lookup_textless u z : kw_lookup u = Some z -> has_text (kind_of z) = false.
Proof.
  unfold kw_lookup. pose proof keywords_textless as H.
  assert (G : forall l acc, forallb (fun p => negb (has_text (kind_of (fst p)))) l = true ->
            (forall z0, acc = Some z0 -> has_text (kind_of z0) = false) ->
            fold_left (fun acc p => if String.eqb (snd p) u then Some (fst p) else acc) l acc = Some z ->
            has_text (kind_of z) = false).
  { induction l as [|p l IH]; cbn; intros acc Hl Hacc Hf.
    - apply Hacc; auto.
    - apply andb_prop in Hl as [Hp Hl]. apply (IH _ Hl) in Hf; auto.
      intros z0. destruct (String.eqb (snd p) u).
      + intros E; inversion E; subst. apply negb_true_iff in Hp. exact Hp.
      + apply Hacc. }
  apply G; auto. discriminate.
Qed.

Lemma classify_textless z s s' : has_text (kind_of z) = false -> classify (mkTok z s) = classify (mkTok z s').
Proof. unfold classify. cbn. intros ->. reflexivity. Qed.

Lemma wrap_one_variant r r' : kwcase_variant r r' ->
  classify (fst (wrap_one r)) = classify (fst (wrap_one r')) /\ snd (wrap_one r) = snd (wrap_one r').
Proof.
  intros (Hc & Hp & [Ht|(Hu & Hk & Hcls)]).
  - destruct r, r'; cbn in *; subst. auto.
  - apply case_variants_same_upper in Hu. unfold is_keyword_text in Hk.
    destruct r as [c t p], r' as [c' t' p']; cbn [r_class r_text r_peek_eq] in *; subst c' p'.
    unfold wrap_one; cbn [r_class r_text r_peek_eq]. rewrite <- Hu.
    destruct (kw_lookup (kw_upper t)) as [kw|] eqn:E; [|congruence].
    pose proof (kw_lookup_textless _ _ E) as Htl.
    destruct two_char_ops_textless as (T1 & T2 & T3).
    destruct c; try contradiction; cbn [fst snd];
      try (split; [apply classify_textless; auto|reflexivity]);
      (destruct ((kw =? c_BANG)%Z && p)%bool; [split; [apply classify_textless; auto|reflexivity]|];
       destruct ((kw =? c_GT)%Z && p)%bool; [split; [apply classify_textless; auto|reflexivity]|];
       destruct ((kw =? c_LT)%Z && p)%bool; split; try reflexivity; apply classify_textless; auto).
Qed.

Theorem keyword_case : forall raws raws', Forall2 kwcase_variant raws raws' ->
  map classify (wrap raws) = map classify (wrap raws').
Proof.
  assert (G : forall n raws raws', length raws <= n -> Forall2 kwcase_variant raws raws' ->
              map classify (wrap raws) = map classify (wrap raws')).
  { induction n as [|n IH]; intros raws raws' L F.
    - destruct F; [reflexivity|cbn in L; lia].
    - destruct F as [|r r' rest rest' Hr Hrest]; [reflexivity|].
      cbn [wrap]. destruct (wrap_one_variant r r' Hr) as [Hc He].
      destruct (wrap_one r) as [t e], (wrap_one r') as [t' e']. cbn [fst snd] in *. subst e'.
      cbn [map]. rewrite Hc. f_equal.
      destruct e.
      + destruct Hrest as [|r2 r2' rest2 rest2' _ Hrest2]; [reflexivity|].
        apply IH; auto. cbn in L. lia.
      + apply IH; auto. cbn in L. lia. }
  intros raws raws' F. apply (G (length raws)); auto.
Qed.

Corollary keyword_case_parse : forall raws raws',
  Forall2 kwcase_variant raws raws' -> parse_pipeline raws = parse_pipeline raws'.
Proof.
  intros raws raws' F. unfold parse_pipeline, parse_tokens. rewrite (keyword_case raws raws' F). reflexivity.
Qed.

(* in particular: an identifier-class raw token whose text is a keyword in ANY letter case becomes
   that keyword's token *)
Theorem keyword_any_case code kw t peek : In (code, kw) keyword_entries -> supper t = kw ->
  fst (wrap_one (mkRaw RIdent t peek)) = mkTok code t.
Proof.
  intros Hin Hs.
  assert (Hk : no_lower_ascii kw = true /\ kw_upper kw = kw /\ kw_lookup kw = Some code).
  { pose proof keywords_upper_case as H1. pose proof keywords_lookup as H2.
    rewrite forallb_forall in H1, H2. specialize (H1 _ Hin). specialize (H2 _ Hin). cbn [fst snd] in *.
    apply andb_prop in H1 as [Ha Hb]. apply String.eqb_eq in Hb.
    destruct (kw_lookup kw) as [z|]; [|discriminate]. apply Z.eqb_eq in H2. subst. auto. }
  destruct Hk as (Hn & Hu & Hl). unfold no_lower_ascii in Hn. apply String.eqb_eq in Hn.
  assert (Ht : kw_upper t = kw).
  { rewrite <- Hu. apply case_variants_same_upper. rewrite Hs. symmetry. exact Hn. }
  unfold wrap_one. cbn [r_class r_text]. rewrite Ht, Hl. reflexivity.
Qed.
