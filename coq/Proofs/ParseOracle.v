(* Link between the correspondence oracles of C09 / C10 (Spec/ParseObs.v, Spec/ParseSpec.v) and the
   theorems about the model (Proofs/ParserTotal.v, Proofs/ParserFaithful2.v):

     the oracle accepts the model's own behaviour, hence
     "the model agrees with Go on this case" (MM) implies "the oracle accepts what Go did" (SM).

   C09, modes "parse" and "tokens": no hypothesis. out_agrees r g with r never PPanic (C09_total)
   forces g to be GOk / GErr, which no_crash accepts.
   C09, mode "enum": the oracle looks at the run-length encoded classes WITHOUT expanding them, the
   model comparison expands them; a run of length 0 carrying class 100 / 101 is invisible to the model
   comparison and rejected by the oracle. Hypothesis `rle_runs_nonempty` (no run of length 0 - what
   the Go encoder produces: it emits j - i >= 1) - shown necessary by `enum_zero_run_needed`.
   C10: hypothesis = the SCOPE function of the check, `c10_in_scope` (the tree is well formed under
   the spelling choices and the text lexes to exactly `render o s`); with it roundtrip_tokens
   (= C10_roundtrip_tokens) gives parse_pipeline raws = POk s, and out_agrees (POk s) g is by
   definition `g = GOk s' with stmt_eqb s s'` = c10_spec. *)
From Coq Require Import ZArith String Ascii List Bool Lia.
From Mkdb Require Import Model.CaseLib Model.Value Model.Ast Model.Lexer Model.Parser
  Spec.ParseObs Spec.ParseSpec Proofs.ParserTotal Proofs.ParserFaithful Proofs.ParserFaithful2
  Proofs.ParseObsFacts.
Import ListNotations.
Local Open Scope list_scope.

(* ---- the model's outcome written as an observation ---- *)
Definition gout_of (r : pres stmt) : gout :=
  match r with
  | POk s => GOk s
  | PErr e => GErr (class_of_err e)
  | PPanic _ => GPanic
  | PFuel => GTimeout
  end.

Lemma stmt_eqb_refl s : stmt_eqb s s = true.
Proof. apply stmt_eqb_spec. reflexivity. Qed.

Lemma out_agrees_self r : r <> PFuel -> out_agrees r (gout_of r) = true.
Proof.
  destruct r as [s|e|w|]; cbn; intros H.
  - apply stmt_eqb_refl.
  - apply Z.eqb_refl.
  - reflexivity.
  - congruence.
Qed.

Lemma token_eqb_spec a b : token_eqb a b = true <-> a = b.
Proof.
  destruct a as [ta xa], b as [tb xb]. unfold token_eqb. cbn.
  rewrite andb_true_iff, Z.eqb_eq, String.eqb_eq. split; [intros [-> ->]; auto | intros E; inversion E; auto].
Qed.

(* ---- C09: parse / tokens ---- *)
Lemma out_agrees_no_crash r g :
  (forall w, r <> PPanic w) -> out_agrees r g = true -> no_crash g = true.
Proof.
  intros NP. destruct r as [s|e|w|], g as [s'|c| | |]; cbn; try discriminate; auto.
  intros _. exfalso. exact (NP w eq_refl).
Qed.

Lemma parse_agreement_implies_acceptance : forall c,
  parse_case_model c = true -> parse_case_spec c = true.
Proof.
  intros [[raws toks] g]. unfold parse_case_model, parse_case_spec.
  rewrite !andb_true_iff. intros [_ H].
  exact (out_agrees_no_crash _ _ (pipeline_never_panics raws) H).
Qed.

Lemma tokens_agreement_implies_acceptance : forall c,
  tokens_case_model c = true -> tokens_case_spec c = true.
Proof.
  intros [toks g]. unfold tokens_case_model, tokens_case_spec. cbn [snd]. intros H.
  refine (out_agrees_no_crash _ _ _ H). intros w. exact (proj1 (tokens_never_panic toks w)).
Qed.

Lemma parse_oracle_accepts_model : forall raws,
  parse_case_model (raws, wrap raws, gout_of (parse_pipeline raws)) = true /\
  parse_case_spec (raws, wrap raws, gout_of (parse_pipeline raws)) = true.
Proof.
  intros raws.
  assert (M : parse_case_model (raws, wrap raws, gout_of (parse_pipeline raws)) = true).
  { unfold parse_case_model. rewrite !andb_true_iff. repeat split.
    - apply (list_eqb_spec token_eqb token_eqb_spec). reflexivity.
    - apply out_agrees_self. apply pipeline_never_out_of_fuel. }
  split; [exact M | exact (parse_agreement_implies_acceptance _ M)].
Qed.

Lemma tokens_oracle_accepts_model : forall toks,
  tokens_case_model (toks, gout_of (parse_tokens toks)) = true /\
  tokens_case_spec (toks, gout_of (parse_tokens toks)) = true.
Proof.
  intros toks.
  assert (M : tokens_case_model (toks, gout_of (parse_tokens toks)) = true).
  { unfold tokens_case_model. apply out_agrees_self.
    exact (proj2 (tokens_never_panic toks PkRequireIntAssert)). }
  split; [exact M | exact (tokens_agreement_implies_acceptance _ M)].
Qed.

(* ---- C09: enum ---- *)
Definition crash_class (z : Z) : bool := Z.eqb z 100 || Z.eqb z 101.

(* well-formed run-length encoding: no run of length 0 *)
Definition rle_runs_nonempty (c : enum_case) : bool :=
  let '(_, _, _, rle) := c in forallb (fun p => negb (N.eqb (snd p) 0)) rle.

Lemma bad_idx_from_nil {A} (f : A -> bool) : forall l i,
  bad_idx_from f i l = [] -> forallb f l = true.
Proof.
  induction l as [|x r IH]; cbn; intros i H; [reflexivity|].
  destruct (f x); [exact (IH _ H) | discriminate].
Qed.

Lemma in_combine_snd {A B} : forall (l1 : list A) (l2 : list B) b,
  length l1 = length l2 -> In b l2 -> exists a, In (a, b) (combine l1 l2).
Proof.
  induction l1 as [|a r IH]; destruct l2 as [|y r2]; cbn; intros b L H; try contradiction; try discriminate.
  destruct H as [->|H].
  - exists a. left. reflexivity.
  - destruct (IH r2 b (eq_add_S _ _ L) H) as [a' Ha]. exists a'. right. exact Ha.
Qed.

Lemma class_of_not_crash toks : crash_class (class_of (parse_tokens toks)) = false.
Proof.
  pose proof (tokens_never_panic toks) as NP.
  destruct (parse_tokens toks) as [s|e|w|]; cbn.
  - reflexivity.
  - destruct e; reflexivity.
  - exfalso. exact (proj1 (NP w) eq_refl).
  - reflexivity.
Qed.

Lemma iter_cons_in {A} (c : A) (l : list A) : forall n : nat, n <> O -> In c (Nat.iter n (cons c) l).
Proof. destruct n; [congruence|]. intros _. cbn. left. reflexivity. Qed.

Lemma iter_cons_incl {A} (c x : A) (l : list A) : forall n : nat, In x l -> In x (Nat.iter n (cons c) l).
Proof. induction n; cbn; auto. Qed.

Lemma expand_rle_in : forall rle c k, In (c, k) rle -> k <> 0%N -> In c (expand_rle rle).
Proof.
  induction rle as [|[c' k'] r IH]; cbn; intros c k H NZ; [contradiction|].
  rewrite N2Nat.inj_iter. destruct H as [E|H].
  - inversion E; subst. apply iter_cons_in. lia.
  - apply iter_cons_incl. exact (IH c k H NZ).
Qed.

Lemma enum_model_classes : forall vocab n prefix rle,
  enum_case_model (vocab, n, prefix, rle) = true ->
  forall cl, In cl (expand_rle rle) -> exists s, cl = class_of (parse_tokens (prefix ++ s)).
Proof.
  intros vocab n prefix rle. unfold enum_case_model, enum_bad.
  destruct (Nat.eqb (length (seqs vocab n)) (length (expand_rle rle))) eqn:L; [|discriminate].
  apply Nat.eqb_eq in L.
  unfold bad_idx.
  destruct (bad_idx_from _ 0 (combine (seqs vocab n) (expand_rle rle))) eqn:B; [|discriminate].
  intros _ cl Hin. apply bad_idx_from_nil in B. rewrite forallb_forall in B.
  destruct (in_combine_snd _ _ cl L Hin) as [s Hs].
  specialize (B _ Hs). cbn [fst snd] in B. apply Z.eqb_eq in B. exists s. symmetry. exact B.
Qed.

Lemma enum_agreement_implies_acceptance : forall c,
  rle_runs_nonempty c = true -> enum_case_model c = true -> enum_case_spec c = true.
Proof.
  intros [[[vocab n] prefix] rle] NZ M. unfold enum_case_spec. unfold rle_runs_nonempty in NZ.
  rewrite forallb_forall in NZ |- *. intros [cl k] Hin. cbn [fst].
  specialize (NZ _ Hin). cbn [snd] in NZ. apply negb_true_iff, N.eqb_neq in NZ.
  destruct (enum_model_classes _ _ _ _ M cl (expand_rle_in _ _ _ Hin NZ)) as [s ->].
  apply negb_true_iff. exact (class_of_not_crash (prefix ++ s)).
Qed.

(* the model's own enumeration, one run per sequence *)
Definition model_rle (vocab : list token) (n : nat) (prefix : list token) : list (Z * N) :=
  map (fun s => (class_of (parse_tokens (prefix ++ s)), 1%N)) (seqs vocab n).

Lemma expand_rle_ones {A} (f : A -> Z) : forall l, expand_rle (map (fun s => (f s, 1%N)) l) = map f l.
Proof. induction l as [|x r IH]; cbn; [reflexivity|]. rewrite IH. reflexivity. Qed.

Lemma bad_idx_from_all {A} (f : A -> bool) : forall l i, forallb f l = true -> bad_idx_from f i l = [].
Proof.
  induction l as [|x r IH]; cbn; intros i H; [reflexivity|].
  apply andb_true_iff in H. destruct H as [-> H]. exact (IH _ H).
Qed.

Lemma combine_map_self {A B} (f : A -> B) : forall l, combine l (map f l) = map (fun x => (x, f x)) l.
Proof. induction l; cbn; congruence. Qed.

Lemma enum_oracle_accepts_model : forall vocab n prefix,
  enum_case_model (vocab, n, prefix, model_rle vocab n prefix) = true /\
  enum_case_spec (vocab, n, prefix, model_rle vocab n prefix) = true.
Proof.
  intros vocab n prefix.
  assert (M : enum_case_model (vocab, n, prefix, model_rle vocab n prefix) = true).
  { unfold enum_case_model, enum_bad, model_rle. rewrite expand_rle_ones, map_length, Nat.eqb_refl.
    unfold bad_idx. rewrite bad_idx_from_all; [reflexivity|].
    rewrite combine_map_self. apply forallb_forall. intros p Hp. apply in_map_iff in Hp.
    destruct Hp as [s [<- _]]. cbn [fst snd]. apply Z.eqb_refl. }
  split; [exact M|]. apply enum_agreement_implies_acceptance; [|exact M].
  unfold rle_runs_nonempty, model_rle. apply forallb_forall. intros p Hp. apply in_map_iff in Hp.
  destruct Hp as [s [<- _]]. reflexivity.
Qed.

(* without the hypothesis the implication is false: a run of length 0 with class 100 is not seen by
   the model comparison (it expands to nothing) and is rejected by the oracle *)
Example enum_zero_run_needed :
  let c : enum_case := ([], O, [], [(100%Z, 0%N); (class_of (parse_tokens []), 1%N)]) in
  enum_case_model c = true /\ enum_case_spec c = false /\ rle_runs_nonempty c = false.
Proof. vm_compute. repeat split; reflexivity. Qed.

(* ---- C10 ---- *)
Lemma tk_beq_spec a b : tk_beq a b = true <-> a = b.
Proof. split; [apply internal_tk_dec_bl | apply internal_tk_dec_lb]. Qed.

Lemma ptok_eqb_spec a b : ptok_eqb a b = true <-> a = b.
Proof.
  destruct a as [ka xa], b as [kb xb]. unfold ptok_eqb. cbn [fst snd].
  rewrite andb_true_iff, tk_beq_spec, String.eqb_eq.
  split; [intros [-> ->]; auto | intros E; inversion E; auto].
Qed.

Lemma c10_scope_model_parse : forall s o raws g,
  c10_in_scope (s, o, raws, g) = true -> parse_pipeline raws = POk s.
Proof.
  intros s o raws g. unfold c10_in_scope. rewrite andb_true_iff. intros [W R].
  apply (list_eqb_spec ptok_eqb ptok_eqb_spec) in R.
  unfold parse_pipeline. apply (roundtrip_tokens o s (wrap raws) W). unfold renders. symmetry. exact R.
Qed.

Lemma c10_agreement_implies_acceptance : forall c,
  c10_in_scope c = true -> c10_model c = true -> c10_spec c = true.
Proof.
  intros [[[s o] raws] g] S M. unfold c10_model in M. unfold c10_spec.
  rewrite (c10_scope_model_parse s o raws g S) in M.
  destruct g; cbn in M; try discriminate. exact M.
Qed.

Lemma c10_oracle_accepts_model : forall s o raws g,
  c10_in_scope (s, o, raws, g) = true ->
  c10_model (s, o, raws, gout_of (parse_pipeline raws)) = true /\
  c10_spec (s, o, raws, gout_of (parse_pipeline raws)) = true.
Proof.
  intros s o raws g S.
  assert (M : c10_model (s, o, raws, gout_of (parse_pipeline raws)) = true).
  { unfold c10_model. apply out_agrees_self. apply pipeline_never_out_of_fuel. }
  split; [exact M|]. apply c10_agreement_implies_acceptance; [|exact M].
  unfold c10_in_scope in *. exact S.
Qed.

(* outside the scope the implication is false: a statement the generator meant but did not write
   (here: the text is that of another statement) - the model agrees with Go, the oracle rejects *)
Local Open Scope string_scope.
Example c10_scope_needed :
  let o := mkOpts (num_of []) [] [] [] [] false false None false in
  let raws := [mkRaw RIdent "use" false; mkRaw RIdent "b" false] in
  let c : c10_case := (SUse "a", o, raws, gout_of (parse_pipeline raws)) in
  c10_model c = true /\ c10_spec c = false /\ c10_in_scope c = false.
Proof. vm_compute. repeat split; reflexivity. Qed.
