(* The group key of aggregateRows is the string  Sprintf("%#v,", v1) ++ Sprintf("%#v,", v2) ++ ...
   Model/Select.v uses the list [v1; v2; ...] itself as the key. This file justifies it:
   (1) for ANY rendering of single values that is self-delimiting before a comma, the
       concatenated key determines the list of values (key_string_inj);
   (2) the %#v rendering of strings - a double quote, the bytes with `"` and `\` escaped by a
       backslash, a double quote (strconv.Quote restricted to printable ASCII) - is
       self-delimiting (quote_delim), so e.g. ("a","bc") and ("ab","c"), or values holding
       quotes and commas, never collide;
   (3) combined with renderings of integers, booleans and nil that start with a character
       other than `"` and contain no comma (decimal digits with an optional minus sign, `true`,
       `false`, `<nil>`; stated as hypotheses of the section, not modelled digit by digit), the
       whole rendering is self-delimiting (render_delim).
   What remains assumed: strconv.Quote is self-delimiting on bytes outside printable ASCII
   too (it escapes them as \xNN / \uNNNN, never producing an unescaped quote). *)
From Coq Require Import String Ascii List Bool.
From Mkdb Require Import Model.Value.
Import ListNotations.
Open Scope string_scope.

Section Key.
  Variable render : value -> string.
  Hypothesis delim : forall v v' s s', render v ++ "," ++ s = render v' ++ "," ++ s' -> v = v' /\ s = s'.

  Fixpoint key_string (vs : list value) : string :=
    match vs with
    | [] => ""
    | v :: r => render v ++ "," ++ key_string r
    end.

  Lemma append_comma_nonempty a s : a ++ "," ++ s <> "".
  Proof. destruct a; cbn; discriminate. Qed.

  Theorem key_string_inj : forall vs vs', key_string vs = key_string vs' -> vs = vs'.
  Proof.
    induction vs as [|v vs IH]; intros [|v' vs'] H; cbn in H; auto.
    - exfalso. symmetry in H. exact (append_comma_nonempty _ _ H).
    - exfalso. exact (append_comma_nonempty _ _ H).
    - apply delim in H. destruct H as [-> H]. f_equal. apply IH. exact H.
  Qed.
End Key.

Lemma app_assoc_s (a b c : string) : (a ++ b) ++ c = a ++ (b ++ c).
Proof. induction a as [|x a IH]; cbn; auto. rewrite IH. reflexivity. Qed.

Lemma app_nil_r_s (a : string) : a ++ "" = a.
Proof. induction a as [|x a IH]; cbn; auto. rewrite IH. reflexivity. Qed.

(* ---- strings ---- *)
Definition dq : ascii := """"%char.
Definition bs : ascii := "\"%char.

Fixpoint escape (s : string) : string :=
  match s with
  | EmptyString => EmptyString
  | String c r =>
      if Ascii.eqb c dq then String bs (String dq (escape r))
      else if Ascii.eqb c bs then String bs (String bs (escape r))
      else String c (escape r)
  end.

Definition quote (s : string) : string := String dq (escape s ++ String dq EmptyString).

(* reading back: the escaped body ends at the first unescaped quote *)
Lemma escape_delim : forall s s' t t',
  escape s ++ String dq t = escape s' ++ String dq t' -> s = s' /\ t = t'.
Proof.
  induction s as [|c s IH]; intros [|c' s'] t t' H; cbn in H.
  - inversion H; auto.
  - exfalso. destruct (Ascii.eqb c' dq) eqn:E1; [inversion H|].
    destruct (Ascii.eqb c' bs) eqn:E2; [inversion H|].
    inversion H; subst. rewrite Ascii.eqb_refl in E1. discriminate.
  - exfalso. destruct (Ascii.eqb c dq) eqn:E1; [inversion H|].
    destruct (Ascii.eqb c bs) eqn:E2; [inversion H|].
    inversion H; subst. rewrite Ascii.eqb_refl in E1. discriminate.
  - destruct (Ascii.eqb c dq) eqn:E1; destruct (Ascii.eqb c' dq) eqn:F1.
    + apply Ascii.eqb_eq in E1, F1. subst. inversion H as [H1]. apply IH in H1. destruct H1; subst; auto.
    + exfalso. destruct (Ascii.eqb c' bs) eqn:F2.
      * inversion H.
      * inversion H; subst. rewrite Ascii.eqb_refl in F2. discriminate.
    + exfalso. destruct (Ascii.eqb c bs) eqn:E2.
      * inversion H.
      * inversion H; subst. rewrite Ascii.eqb_refl in E2. discriminate.
    + destruct (Ascii.eqb c bs) eqn:E2; destruct (Ascii.eqb c' bs) eqn:F2.
      * apply Ascii.eqb_eq in E2, F2. subst. inversion H as [H1]. apply IH in H1. destruct H1; subst; auto.
      * exfalso. inversion H; subst. rewrite Ascii.eqb_refl in F2. discriminate.
      * exfalso. inversion H; subst. rewrite Ascii.eqb_refl in E2. discriminate.
      * inversion H as [[Hc H1]]. apply IH in H1. destruct H1; subst; auto.
Qed.

Lemma quote_delim s s' t t' : quote s ++ t = quote s' ++ t' -> s = s' /\ t = t'.
Proof.
  unfold quote. cbn. intros H. inversion H as [H1].
  rewrite !app_assoc_s in H1. cbn in H1. apply escape_delim in H1. exact H1.
Qed.

Corollary quote_inj s s' : quote s = quote s' -> s = s'.
Proof. intros H. apply (quote_delim s s' "" ""). rewrite !app_nil_r_s. exact H.
Qed.

(* ---- all four kinds of values ---- *)
Section Render.
  Variable render_int : Z -> string.
  Definition no_comma (s : string) : Prop := forall a b, s <> a ++ "," ++ b.
  Definition head_not_quote (s : string) : Prop := match s with String c _ => c <> dq | EmptyString => False end.
  Hypothesis int_inj : forall x y, render_int x = render_int y -> x = y.
  Hypothesis int_no_comma : forall x, no_comma (render_int x).
  Hypothesis int_head : forall x, match render_int x with
                                  | String c _ => c <> dq /\ c <> "t"%char /\ c <> "f"%char /\ c <> "<"%char
                                  | EmptyString => False end.

  Definition render (v : value) : string :=
    match v with
    | VInt z => render_int z
    | VStr s => quote s
    | VBool true => "true"
    | VBool false => "false"
    | VNull => "<nil>"
    end.

  (* a comma-free word followed by a comma is read back unambiguously *)
  Lemma word_delim a b s s' : no_comma a -> no_comma b -> a ++ "," ++ s = b ++ "," ++ s' -> a = b /\ s = s'.
  Proof.
    revert b. induction a as [|c a IH]; intros [|c' b] Na Nb H; cbn in H.
    - inversion H; auto.
    - exfalso. inversion H; subst. apply (Nb "" b). reflexivity.
    - exfalso. inversion H; subst. apply (Na "" a). reflexivity.
    - inversion H as [[Hc H1]]. subst c'. destruct (IH b) with (1 := fun x y (E : a = x ++ "," ++ y) => Na (String c x) y (f_equal (String c) E))
        (2 := fun x y (E : b = x ++ "," ++ y) => Nb (String c x) y (f_equal (String c) E)) (3 := H1) as [-> ->]. auto.
  Qed.

  Lemma lit_no_comma_true : no_comma "true".
  Proof. intros [|a0 [|a1 [|a2 [|a3 [|a4 a]]]]] b H; cbn in H; inversion H. Qed.
  Lemma lit_no_comma_false : no_comma "false".
  Proof. intros [|a0 [|a1 [|a2 [|a3 [|a4 [|a5 a]]]]]] b H; cbn in H; inversion H. Qed.
  Lemma lit_no_comma_nil : no_comma "<nil>".
  Proof. intros [|a0 [|a1 [|a2 [|a3 [|a4 [|a5 a]]]]]] b H; cbn in H; inversion H. Qed.

  Theorem render_delim : forall v v' s s', render v ++ "," ++ s = render v' ++ "," ++ s' -> v = v' /\ s = s'.
  Proof.
    intros v v' s s' H.
    assert (QI : forall z q t t', render_int z ++ t = quote q ++ t' -> False).
    { intros z q t t' E. pose proof (int_head z) as Hh. destruct (render_int z); [contradiction|].
      cbn in E. inversion E; subst. destruct Hh as [Hq _]. apply Hq. reflexivity. }
    destruct v as [x|x|[|]|], v' as [y|y|[|]|]; cbn [render] in H;
      try (exfalso; eapply QI; eauto; fail); try (exfalso; symmetry in H; eapply QI; eauto; fail);
      try (cbn in H; inversion H; fail).
    - apply word_delim in H; auto. destruct H as [E ->]. apply int_inj in E. subst. auto.
    - exfalso. pose proof (int_head x) as Hh. destruct (render_int x); [contradiction|]. cbn in H. inversion H; subst. tauto.
    - exfalso. pose proof (int_head x) as Hh. destruct (render_int x); [contradiction|]. cbn in H. inversion H; subst. tauto.
    - exfalso. pose proof (int_head x) as Hh. destruct (render_int x); [contradiction|]. cbn in H. inversion H; subst. tauto.
    - apply quote_delim in H. destruct H as [-> H]. inversion H; auto.
    - exfalso. pose proof (int_head y) as Hh. destruct (render_int y); [contradiction|]. cbn in H. inversion H; subst. tauto.
    - apply word_delim in H; auto using lit_no_comma_true. destruct H as [_ ->]. auto.
    - exfalso. pose proof (int_head y) as Hh. destruct (render_int y); [contradiction|]. cbn in H. inversion H; subst. tauto.
    - apply word_delim in H; auto using lit_no_comma_false. destruct H as [_ ->]. auto.
    - exfalso. pose proof (int_head y) as Hh. destruct (render_int y); [contradiction|]. cbn in H. inversion H; subst. tauto.
    - apply word_delim in H; auto using lit_no_comma_nil. destruct H as [_ ->]. auto.
  Qed.

  (* the key string determines the grouping values *)
  Corollary group_key_injective : forall vs vs', key_string render vs = key_string render vs' -> vs = vs'.
  Proof. apply key_string_inj. exact render_delim. Qed.
End Render.
