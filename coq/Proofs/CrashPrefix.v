(* Crash theory, part 6 (C03): a crash while a statement's batch is being appended to the log.
   The log then ends with the first j records of the batch; recovery yields the state after the
   row operations whose first record is among those j - exactly, or (when the cut falls between
   the insert record of a root-moving insert and the catalog-update record that follows it) up to
   the LSN of the one sys_pages leaf that redoRootMove has already rewritten. *)
From Coq Require Import Arith Lia Bool List NArith Permutation.
From Mkdb Require Import Model.Engine Proofs.TreeProofs Proofs.StoreInv Proofs.CrashBase Proofs.CrashPages
  Proofs.CrashRedo Proofs.CrashLog Proofs.CrashMain Gen.Params.
Import ListNotations.
Local Open Scope N_scope.

(* ---------- the store a row loop produces does not depend on its accumulators ---------- *)
Lemma insert_rows_store rows : forall s name cols b1 n1 b2 n2,
  fst (fst (insert_rows s name cols rows b1 n1)) = fst (fst (insert_rows s name cols rows b2 n2)).
Proof.
  induction rows as [|r rest IH]; intros; [reflexivity|]. cbn [insert_rows].
  destruct (st_insert s name cols r) as [s1 [ws|e|]]; [apply IH | reflexivity | reflexivity].
Qed.

Lemma update_rows_store ids : forall s name cols vals b1 b2,
  fst (fst (update_rows s name cols vals ids b1)) = fst (fst (update_rows s name cols vals ids b2)).
Proof.
  induction ids as [|k rest IH]; intros; [reflexivity|]. cbn [update_rows].
  destruct (st_update s name k cols vals) as [s1 [ws|e|]]; [apply IH | reflexivity | reflexivity].
Qed.

Lemma delete_rows_store ids : forall s name b1 n1 b2 n2,
  fst (fst (delete_rows s name ids b1 n1)) = fst (fst (delete_rows s name ids b2 n2)).
Proof.
  induction ids as [|k rest IH]; intros; [reflexivity|]. cbn [delete_rows].
  destruct (st_delete s name k) as [s1 [ws|e|]]; [apply IH | reflexivity | reflexivity].
Qed.

(* ---------- how many row operations have their first record among the first j ---------- *)
Fixpoint started (sizes : list nat) (j : nat) : nat :=
  match sizes with
  | [] => O
  | k :: rest => match j with O => O | S _ => S (started rest (j - k)) end
  end.

Lemma started_mono sizes : forall j j', (j <= j')%nat -> (started sizes j <= started sizes j')%nat.
Proof.
  induction sizes as [|k rest IH]; intros j j' H; [cbn; lia|]. cbn [started].
  destruct j as [|j0]; [lia|]. destruct j' as [|j0']; [lia|].
  apply le_n_S. apply IH. lia.
Qed.

Lemma started_le sizes j : (started sizes j <= length sizes)%nat.
Proof.
  revert j. induction sizes as [|k rest IH]; intros j; [cbn; lia|]. cbn [started length].
  destruct j; [lia|]. apply le_n_S. apply IH.
Qed.

(* records per row operation *)
Fixpoint insert_sizes (s : store) (name : string) (cols : list string) (rows : list (list value)) : list nat :=
  match rows with
  | [] => []
  | r :: rest => match st_insert s name cols r with
                 | (s1, Ok ws) => length ws :: insert_sizes s1 name cols rest
                 | _ => []
                 end
  end.

Fixpoint update_sizes (s : store) (name : string) (cols : list string) (vals : list value) (ids : list N) : list nat :=
  match ids with
  | [] => []
  | k :: rest => match st_update s name k cols vals with
                 | (s1, Ok ws) => length ws :: update_sizes s1 name cols vals rest
                 | _ => []
                 end
  end.

Fixpoint delete_sizes (s : store) (name : string) (ids : list N) : list nat :=
  match ids with
  | [] => []
  | k :: rest => match st_delete s name k with
                 | (s1, Ok ws) => length ws :: delete_sizes s1 name rest
                 | _ => []
                 end
  end.

(* ---------- the state reached after a prefix of the records ---------- *)
(* a is the state after the first i row operations (S), exactly or with one catalog page carrying
   the LSN of the insert record instead of the update record's: re-stamping that cell gives S *)
Definition prefix_state (a S : store) : Prop :=
  Good a /\ seqL a S /\
  (seq a S \/ exists pg key bs lsn, seq (set_forest a (touch_forest pg key lsn (upd_fun bs) (forest a))) S).

Lemma prefix_state_rel a S : Rel a S -> prefix_state a S.
Proof. intros [A B C]. split; [exact B|]. split; [apply seq_seqL; exact A | left; exact A]. Qed.

(* ---------- log records below the replaying store's counters ---------- *)
Definition lsn_below (a : store) (L : list walentry) : Prop :=
  Forall (fun w => w_lsn w < nextLSN a /\ (w_op w = OpInsert -> w_cell w <= lastKey a)) L.

Lemma lsn_below_mono a a' L : nextLSN a <= nextLSN a' -> lastKey a <= lastKey a' -> lsn_below a L -> lsn_below a' L.
Proof.
  intros H1 H2 H. eapply Forall_impl; [|exact H]. cbn. intros w [A B]. split; [lia|]. intros Ho. specialize (B Ho). lia.
Qed.

Lemma lsn_below_replay a ws a' L :
  replay a ws = RCont a' -> lsn_below a L -> lsn_below a' (L ++ ws).
Proof.
  intros Hr HL. destruct (replay_lsn _ _ _ Hr) as [Hle Hws]. destruct (replay_key _ _ _ Hr) as [Hke Hkw].
  apply Forall_app. split; [apply (lsn_below_mono a); assumption|].
  rewrite Forall_forall in *. intros w Hw. split; [apply Hws | apply Hkw]; exact Hw.
Qed.

Lemma loginv_transfer a S L : seq a S -> lsn_below a L -> LogInv S L -> LogInv a L.
Proof.
  intros Hs Hb HL. unfold LogInv, lsn_below in *. rewrite Forall_forall in *. intros w Hw.
  destruct (Hb w Hw) as [A B]. apply (rec_inert_seq a S w Hs); auto.
Qed.

(* one row insert, record by record *)
Lemma redo_st_insert_detail L a b name cols vals b2 ws :
  Rel a b -> GL L b -> lsn_below a L ->
  row_move_ok b name cols vals -> st_insert b name cols vals = (b2, Ok ws) ->
  (exists w a2, ws = [w] /\ replay_one a w = RCont a2 /\ Rel a2 b2) \/
  (exists w w2 ah a2, ws = [w; w2] /\ replay_one a w = RCont ah /\ replay_one ah w2 = RCont a2 /\
                      Rel a2 b2 /\ prefix_state ah b2 /\ LogInv ah (L ++ [w])).
Proof.
  intros HR HGL HLa Hok Hst.
  destruct (st_insert_shape _ _ _ _ _ _ Hst) as (off & bs & b1 & k & lsn & nr & Hsys & Hpre & Hbt & Hcase).
  unfold row_move_ok in Hok. rewrite Hsys, Hpre, Hbt in Hok.
  destruct (redo_insert a b off bs b1 k lsn nr HR Hbt) as (Hl & Hnl & a1 & HR1 & Hlt & Hrep).
  destruct Hcase as [(-> & -> & ->)|(Hne & ws' & Hup & ->)].
  - rewrite N.eqb_refl in Hrep. left. eauto.
  - apply N.eqb_neq in Hne. rewrite Hne in Hrep, Hok.
    destruct (redo_root_move_pair a1 b1 off nr name lsn b2 ws' HR1 Hlt Hnl Hok Hup)
      as (w2 & ah & a2 & -> & Hrm & Hr2 & HR2 & pg & key & bs' & Ew2 & HRh & Hf2 & Hp2 & Hn2).
    assert (Hrep' : replay_one a (mkWal OpInsert lsn off k bs) = RCont ah)
      by (rewrite Hrep; unfold after_root_move; rewrite Hrm; reflexivity).
    right. exists (mkWal OpInsert lsn off k bs), w2, ah, a2. split; [reflexivity|].
    split; [exact Hrep'|]. split; [exact Hr2|]. split; [exact HR2|].
    assert (H1 : GL (L ++ [mkWal OpInsert lsn off k bs]) b1).
    { destruct HGL as [G Lg]. apply gl_app.
      - replace b1 with (fst (bt_insert b off bs)) by (rewrite Hbt; reflexivity).
        apply (gl_map L b); [apply good_bt_insert; exact G | | exact Lg]. intros w. apply inert_bt_insert. exact G.
      - constructor; [|constructor]. eapply est_insert; eauto. }
    split.
    + pose proof (seq_seqL _ _ (rel_seq _ _ HRh)) as [Ls _ _].
      destruct HRh as [[Sf Sp Sn] Gah _]. cbn [set_forest forest ptRoot nextFree] in Sf, Sp, Sn.
      split; [exact Gah|]. split.
      * constructor; [|congruence|congruence].
        cbn [set_forest forest] in Ls. rewrite Ls, Hf2. apply erase_touch_forest_lsn.
      * right. exists pg, key, bs', (lsn + 1). constructor; cbn [set_forest forest ptRoot nextFree]; [|congruence|congruence].
        rewrite Hf2, (fclean_touch_forest pg key (lsn + 1) (upd_fun bs') _ _ Sf).
        rewrite touch_forest_twice by (apply upd_fun_key || apply upd_fun_idem). reflexivity.
    + apply (loginv_transfer ah _ _ (rel_seq _ _ HRh)).
      * apply (lsn_below_replay a [mkWal OpInsert lsn off k bs] ah L); [cbn [replay]; rewrite Hrep'; reflexivity | exact HLa].
      * destruct H1 as [G1 L1]. eapply Forall_impl; [|exact L1]. intros w Hw.
        apply (inert_touch_gen b1 pg key (upd_fun bs') lsn (nextLSN b1) w); auto; lia.
Qed.

Lemma prefix_insert_rows L rows : forall a b name cols batch n b' B m,
  Rel a b -> GL (L ++ batch) b -> lsn_below a (L ++ batch) -> rows_move_ok b name cols rows ->
  insert_rows b name cols rows batch n = (b', B, OOk m) ->
  exists ws, B = batch ++ ws /\ forall j, exists a_j,
    replay a (firstn j ws) = RCont a_j /\
    prefix_state a_j
      (fst (fst (insert_rows b name cols (firstn (started (insert_sizes b name cols rows) j) rows) [] 0))) /\
    LogInv a_j (L ++ batch ++ firstn j ws).
Proof.
  induction rows as [|r rest IH]; intros a b name cols batch n b' B m HR HGL HLa Hok H.
  - cbn in H. inversion H. subst b' B. exists []. split; [rewrite app_nil_r; reflexivity|].
    intros j. exists a. rewrite firstn_nil, app_nil_r. split; [reflexivity|]. cbn.
    split; [apply prefix_state_rel; exact HR | apply (loginv_transfer a b _ (rel_seq _ _ HR) HLa (proj2 HGL))].
  - cbn [insert_rows] in H. cbn [rows_move_ok] in Hok. destruct Hok as [Hok1 Hok2].
    cbn [insert_sizes].
    destruct (st_insert b name cols r) as [b1 [ws1|e|]] eqn:Est; try discriminate.
    assert (Hstore : forall i, fst (fst (insert_rows b name cols (r :: firstn i rest) [] 0)) =
                               fst (fst (insert_rows b1 name cols (firstn i rest) [] 0))).
    { intros i. cbn [insert_rows]. rewrite Est. apply insert_rows_store. }
    assert (H0 : LogInv a (L ++ batch ++ []))
      by (rewrite app_nil_r; apply (loginv_transfer a b _ (rel_seq _ _ HR) HLa (proj2 HGL))).
    pose proof (log_st_insert (L ++ batch) b name cols r b1 ws1 HGL Est) as HGL1.
    rewrite <- app_assoc in HGL1.
    destruct (redo_st_insert_detail (L ++ batch) a b name cols r b1 ws1 HR HGL HLa Hok1 Est)
      as [(w & a1 & -> & Hr1 & HR1)|(w & w2 & ah & a2 & -> & Hr1 & Hr2 & HR2 & Hhalf & Hlh)].
    + assert (HLa1 : lsn_below a1 (L ++ batch ++ [w])).
      { rewrite app_assoc. apply (lsn_below_replay a [w] a1); [cbn [replay]; rewrite Hr1; reflexivity | exact HLa]. }
      destruct (IH a1 b1 name cols (batch ++ [w]) (S n) b' B m HR1 HGL1 HLa1 Hok2 H) as (ws2 & EB & Hpre).
      exists ([w] ++ ws2). split; [rewrite EB, app_assoc; reflexivity|].
      intros [|j0].
      * exists a. split; [reflexivity|]. cbn. split; [apply prefix_state_rel; exact HR | exact H0].
      * destruct (Hpre j0) as (a_j & A & Bp & Cp). exists a_j. cbn [app firstn replay length started]. rewrite Hr1.
        split; [exact A|]. split.
        -- change (S j0 - 1)%nat with (j0 - 0)%nat. rewrite Nat.sub_0_r, Hstore. exact Bp.
        -- rewrite <- app_assoc in Cp. exact Cp.
    + assert (HLa2 : lsn_below a2 (L ++ batch ++ [w; w2])).
      { rewrite app_assoc. apply (lsn_below_replay a [w; w2] a2); [cbn [replay]; rewrite Hr1, Hr2; reflexivity | exact HLa]. }
      destruct (IH a2 b1 name cols (batch ++ [w; w2]) (S n) b' B m HR2 HGL1 HLa2 Hok2 H) as (ws2 & EB & Hpre).
      exists ([w; w2] ++ ws2). split; [rewrite EB, app_assoc; reflexivity|].
      intros [|[|j1]].
      * exists a. split; [reflexivity|]. cbn. split; [apply prefix_state_rel; exact HR | exact H0].
      * exists ah. cbn [app firstn replay length started]. rewrite Hr1. split; [reflexivity|]. split.
        -- change (1 - 2)%nat with O. destruct (insert_sizes b1 name cols rest); cbn [started]; rewrite Hstore; cbn [firstn insert_rows fst]; exact Hhalf.
        -- rewrite <- app_assoc in Hlh. exact Hlh.
      * destruct (Hpre j1) as (a_j & A & Bp & Cp). exists a_j. cbn [app firstn replay length started]. rewrite Hr1, Hr2.
        split; [exact A|]. split.
        -- change (S (S j1) - 2)%nat with (j1 - 0)%nat. rewrite Nat.sub_0_r, Hstore. exact Bp.
        -- rewrite <- app_assoc in Cp. exact Cp.
Qed.

Lemma prefix_update_rows L ids : forall a b name cols vals batch b' B m,
  Rel a b -> GL (L ++ batch) b -> lsn_below a (L ++ batch) ->
  update_rows b name cols vals ids batch = (b', B, OOk m) ->
  exists ws, B = batch ++ ws /\ forall j, exists a_j,
    replay a (firstn j ws) = RCont a_j /\
    prefix_state a_j
      (fst (fst (update_rows b name cols vals (firstn (started (update_sizes b name cols vals ids) j) ids) []))) /\
    LogInv a_j (L ++ batch ++ firstn j ws).
Proof.
  induction ids as [|k rest IH]; intros a b name cols vals batch b' B m HR HGL HLa H.
  - cbn in H. inversion H. subst b' B. exists []. split; [rewrite app_nil_r; reflexivity|].
    intros j. exists a. rewrite firstn_nil, app_nil_r. split; [reflexivity|]. cbn.
    split; [apply prefix_state_rel; exact HR | apply (loginv_transfer a b _ (rel_seq _ _ HR) HLa (proj2 HGL))].
  - cbn [update_rows] in H. cbn [update_sizes].
    destruct (st_update b name k cols vals) as [b1 [ws1|e|]] eqn:Est; try discriminate.
    assert (Hstore : forall i, fst (fst (update_rows b name cols vals (k :: firstn i rest) [])) =
                               fst (fst (update_rows b1 name cols vals (firstn i rest) []))).
    { intros i. cbn [update_rows]. rewrite Est. apply update_rows_store. }
    assert (H0 : LogInv a (L ++ batch ++ []))
      by (rewrite app_nil_r; apply (loginv_transfer a b _ (rel_seq _ _ HR) HLa (proj2 HGL))).
    pose proof (log_st_update (L ++ batch) b name k cols vals b1 ws1 HGL Est) as HGL1.
    rewrite <- app_assoc in HGL1.
    destruct (redo_st_update a b name k cols vals b1 ws1 HR Est) as (a1 & Hr1 & HR1).
    assert (HLa1 : lsn_below a1 (L ++ batch ++ ws1)).
    { rewrite app_assoc. apply (lsn_below_replay a ws1 a1 _ Hr1 HLa). }
    destruct (IH a1 b1 name cols vals (batch ++ ws1) b' B m HR1 HGL1 HLa1 H) as (ws2 & EB & Hpre).
    exists (ws1 ++ ws2). split; [rewrite EB, app_assoc; reflexivity|].
    destruct (st_update_shape _ _ _ _ _ _ _ (rel_gb _ _ HR) Est) as [(-> & ->)|(pg & bs & _ & _ & _ & ->)].
    + (* no such row: nothing logged *)
      cbn [replay] in Hr1. inversion Hr1; subst a1. intros [|j0].
      * exists a. split; [reflexivity|]. cbn. split; [apply prefix_state_rel; exact HR | exact H0].
      * destruct (Hpre (S j0)) as (a_j & A & Bp & Cp). exists a_j. cbn [app length started firstn]. split; [exact A|].
        split; [rewrite Nat.sub_0_r, Hstore; exact Bp|]. rewrite app_nil_r in Cp. exact Cp.
    + cbn [replay] in Hr1. destruct (replay_one a _) as [a1'| | |] eqn:E1; try discriminate. inversion Hr1; subst a1'.
      intros [|j0].
      * exists a. split; [reflexivity|]. cbn. split; [apply prefix_state_rel; exact HR | exact H0].
      * destruct (Hpre j0) as (a_j & A & Bp & Cp). exists a_j. cbn [app firstn replay length started]. rewrite E1.
        split; [exact A|]. split.
        -- change (S j0 - 1)%nat with (j0 - 0)%nat. rewrite Nat.sub_0_r, Hstore. exact Bp.
        -- rewrite <- app_assoc in Cp. exact Cp.
Qed.

Lemma prefix_delete_rows L ids : forall a b name batch n b' B m,
  Rel a b -> GL (L ++ batch) b -> lsn_below a (L ++ batch) ->
  delete_rows b name ids batch n = (b', B, OOk m) ->
  exists ws, B = batch ++ ws /\ forall j, exists a_j,
    replay a (firstn j ws) = RCont a_j /\
    prefix_state a_j
      (fst (fst (delete_rows b name (firstn (started (delete_sizes b name ids) j) ids) [] 0))) /\
    LogInv a_j (L ++ batch ++ firstn j ws).
Proof.
  induction ids as [|k rest IH]; intros a b name batch n b' B m HR HGL HLa H.
  - cbn in H. inversion H. subst b' B. exists []. split; [rewrite app_nil_r; reflexivity|].
    intros j. exists a. rewrite firstn_nil, app_nil_r. split; [reflexivity|]. cbn.
    split; [apply prefix_state_rel; exact HR | apply (loginv_transfer a b _ (rel_seq _ _ HR) HLa (proj2 HGL))].
  - cbn [delete_rows] in H. cbn [delete_sizes].
    destruct (st_delete b name k) as [b1 [ws1|e|]] eqn:Est; try discriminate.
    assert (Hstore : forall i, fst (fst (delete_rows b name (k :: firstn i rest) [] 0)) =
                               fst (fst (delete_rows b1 name (firstn i rest) [] 0))).
    { intros i. cbn [delete_rows]. rewrite Est. apply delete_rows_store. }
    assert (H0 : LogInv a (L ++ batch ++ []))
      by (rewrite app_nil_r; apply (loginv_transfer a b _ (rel_seq _ _ HR) HLa (proj2 HGL))).
    pose proof (log_st_delete (L ++ batch) b name k b1 ws1 HGL Est) as HGL1.
    rewrite <- app_assoc in HGL1.
    destruct (redo_st_delete a b name k b1 ws1 HR Est) as (a1 & Hr1 & HR1).
    assert (HLa1 : lsn_below a1 (L ++ batch ++ ws1)).
    { rewrite app_assoc. apply (lsn_below_replay a ws1 a1 _ Hr1 HLa). }
    destruct (IH a1 b1 name (batch ++ ws1) (S n) b' B m HR1 HGL1 HLa1 H) as (ws2 & EB & Hpre).
    exists (ws1 ++ ws2). split; [rewrite EB, app_assoc; reflexivity|].
    destruct (st_delete_shape _ _ _ _ _ Est) as (pg & _ & _ & ->).
    cbn [replay] in Hr1. destruct (replay_one a _) as [a1'| | |] eqn:E1; try discriminate. inversion Hr1; subst a1'.
    intros [|j0].
    + exists a. split; [reflexivity|]. cbn. split; [apply prefix_state_rel; exact HR | exact H0].
    + destruct (Hpre j0) as (a_j & A & Bp & Cp). exists a_j. cbn [app firstn replay length started]. rewrite E1.
      split; [exact A|]. split.
      * change (S j0 - 1)%nat with (j0 - 0)%nat. rewrite Nat.sub_0_r, Hstore. exact Bp.
      * rewrite <- app_assoc in Cp. exact Cp.
Qed.

(* ---------- whole statements ---------- *)
Definition upd_vals (sets : list (string * vexpr)) : list value :=
  map (fun sv => match snd sv with XLit v => v | _ => VNull end) sets.

(* the store after only the first i row operations of a statement *)
Definition run_rows (s : store) (st : stmt) (i : nat) : store :=
  match st with
  | SInsert name cols rows => fst (fst (insert_rows s name cols (firstn i rows) [] 0))
  | SUpdate name sets w =>
      match where_ids s name w with
      | Ok ids => fst (fst (update_rows s name (map fst sets) (upd_vals sets) (firstn i ids) []))
      | _ => s
      end
  | SDelete name w =>
      match where_ids s name w with
      | Ok ids => fst (fst (delete_rows s name (firstn i ids) [] 0))
      | _ => s
      end
  | _ => s
  end.

(* log records per row operation of the statement *)
Definition op_sizes (s : store) (st : stmt) : list nat :=
  match st with
  | SInsert name cols rows => insert_sizes s name cols rows
  | SUpdate name sets w =>
      match where_ids s name w with
      | Ok ids => update_sizes s name (map fst sets) (upd_vals sets) ids
      | _ => []
      end
  | SDelete name w =>
      match where_ids s name w with Ok ids => delete_sizes s name ids | _ => [] end
  | _ => []
  end.

Theorem prefix_stmt L a b st m :
  Rel a b -> GL L b -> lsn_below a L ->
  is_dml st = true -> stmt_moves_ok b st -> e_out (run_stmt b st) = OOk m ->
  forall j, exists a_j,
    replay a (firstn j (e_batch (run_stmt b st))) = RCont a_j /\
    prefix_state a_j (run_rows b st (started (op_sizes b st) j)) /\
    LogInv a_j (L ++ firstn j (e_batch (run_stmt b st))).
Proof.
  intros HR HGL HLa Hd Hok Hout.
  assert (HGL' : GL (L ++ []) b) by (rewrite app_nil_r; exact HGL).
  assert (HLa' : lsn_below a (L ++ [])) by (rewrite app_nil_r; exact HLa).
  destruct st; try discriminate; cbn [run_stmt run_rows op_sizes stmt_moves_ok] in *.
  - destruct (first_err _ rows) as [u|e0|]; try discriminate.
    destruct (insert_rows b table cols rows [] 0) as [[b' B] o] eqn:E. cbn [e_out e_batch] in *. subst o.
    destruct (prefix_insert_rows L rows a b table cols [] 0%nat b' B m HR HGL' HLa' Hok E) as (ws & -> & Hp). exact Hp.
  - destruct (existsb _ sets); [discriminate|].
    destruct (where_ids b table where_) as [ids|e|]; try discriminate.
    fold (upd_vals sets) in *.
    destruct (first_err _ ids) as [u|e0|]; try discriminate.
    destruct (update_rows b table _ _ ids []) as [[b' B] o] eqn:E. cbn [e_out e_batch] in *. subst o.
    destruct (prefix_update_rows L ids a b table _ _ [] b' B m HR HGL' HLa' E) as (ws & -> & Hp). exact Hp.
  - destruct (where_ids b table where_) as [ids|e|]; try discriminate.
    destruct (delete_rows b table ids [] 0) as [[b' B] o] eqn:E. cbn [e_out e_batch] in *. subst o.
    destruct (prefix_delete_rows L ids a b table [] 0%nat b' B m HR HGL' HLa' E) as (ws & -> & Hp). exact Hp.
Qed.

(* ---------- at the level of the durable system ---------- *)
Theorem crash_in_log y st m j :
  Inv y -> is_dml st = true -> stmt_moves_ok (mem y) st -> e_out (run_stmt (mem y) st) = OOk m ->
  exists y',
    step y (EvCrashInLog st j) = (SOk y', None) /\
    wal y' = wal y ++ firstn j (e_batch (run_stmt (mem y) st)) /\ disk y' = mem y' /\
    prefix_state (mem y') (run_rows (mem y) st (started (op_sizes (mem y) st) j)) /\
    abs (mem y') = abs (run_rows (mem y) st (started (op_sizes (mem y) st) j)) /\
    Inv y'.
Proof.
  intros (r & Hrep & Hseq & Gr & [Gm Lm]) Hd Hmv Hout.
  destruct (redo_stmt r (mem y) st m (mkRel _ _ Hseq Gr Gm) Hd Hmv Hout) as (_ & _ & _ & Hfl).
  assert (HLr : lsn_below r (wal y)).
  { destruct (replay_lsn _ _ _ Hrep) as [_ A]. destruct (replay_key _ _ _ Hrep) as [_ B].
    unfold lsn_below. rewrite Forall_forall in *. intros w Hw. split; [apply A | apply B]; exact Hw. }
  destruct (prefix_stmt (wal y) r (mem y) st m (mkRel _ _ Hseq Gr Gm) (conj Gm Lm) HLr Hd Hmv Hout j)
    as (a_j & Hr & (Gj & Lj & Dj) & HLj).
  cbn [step]. rewrite Hout, Hfl. cbn [is_ok]. unfold recover. cbn [disk wal].
  rewrite (replay_app _ _ _ _ Hrep), Hr.
  eexists. split; [reflexivity|]. cbn [mem disk wal]. split; [reflexivity|]. split; [reflexivity|].
  assert (Sf : seq (flush a_j) a_j) by apply seq_flush.
  pose proof (good_flush a_j Gj) as Gf.
  split; [|split; [apply seqL_abs; eapply seqg_trans; [apply seq_seqL; exact Sf | exact Lj]|]].
  - split; [exact Gf|]. split; [eapply seqg_trans; [apply seq_seqL; exact Sf | exact Lj]|].
    destruct Dj as [D|(pg & key & bs & lsn & D)]; [left; eapply seq_trans; eauto|].
    right. exists pg, key, bs, lsn. eapply seq_trans; [|exact D].
    destruct Sf as [F P N]. constructor; cbn [set_forest forest ptRoot nextFree]; auto.
    apply fclean_touch_forest. exact F.
  - assert (HGL : GL (wal y ++ firstn j (e_batch (run_stmt (mem y) st))) (flush a_j)).
    { split; [exact Gf|]. eapply Forall_impl; [|exact HLj]. intros w. apply inert_flush. }
    exists (flush a_j). cbn [mem disk wal]. split; [apply replay_inert; apply HGL|].
    split; [apply seq_refl|]. split; [exact Gf | exact HGL].
Qed.
