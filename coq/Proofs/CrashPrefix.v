(* Crash theory, part 6 (C03): a crash while a statement's batch is being appended to the log.
   The log then ends with the first j records of the batch; recovery yields the state after the
   row operations whose first record is among those j - exactly, or (when the cut falls between
   the insert record of a root-moving insert and the catalog-update record that follows it) up to
   the LSN of the one sys_pages leaf that redoRootMove has already rewritten. *)
From Coq Require Import Arith Lia Bool List NArith Permutation.
From Mkdb Require Import Model.Engine Proofs.TreeProofs Proofs.StoreInv Proofs.CrashBase Proofs.CrashPages
  Proofs.CrashRedo Proofs.CrashLog Proofs.CrashMain Gen.Params.
Import ListNotations.
Local Open Scope N_scope.

(* ---------- the store a row loop produces does not depend on its accumulators ---------- *)
Lemma insert_rows_store rows : forall s name cols b1 n1 b2 n2,
  fst (fst (insert_rows s name cols rows b1 n1)) = fst (fst (insert_rows s name cols rows b2 n2)).
Proof.
  induction rows as [|r rest IH]; intros; [reflexivity|]. cbn [insert_rows].
  destruct (st_insert s name cols r) as [s1 [ws|e|]]; [apply IH | reflexivity | reflexivity].
Qed.

Lemma update_rows_store ids : forall s name cols vals b1 b2,
  fst (fst (update_rows s name cols vals ids b1)) = fst (fst (update_rows s name cols vals ids b2)).
Proof.
  induction ids as [|k rest IH]; intros; [reflexivity|]. cbn [update_rows].
  destruct (st_update s name k cols vals) as [s1 [ws|e|]]; [apply IH | reflexivity | reflexivity].
Qed.

Lemma delete_rows_store ids : forall s name b1 n1 b2 n2,
  fst (fst (delete_rows s name ids b1 n1)) = fst (fst (delete_rows s name ids b2 n2)).
Proof.
  induction ids as [|k rest IH]; intros; [reflexivity|]. cbn [delete_rows].
  destruct (st_delete s name k) as [s1 [ws|e|]]; [apply IH | reflexivity | reflexivity].
Qed.

(* ---------- how many row operations have their first record among the first j ---------- *)
Fixpoint started (sizes : list nat) (j : nat) : nat :=
  match sizes with
  | [] => O
  | k :: rest => match j with O => O | S _ => S (started rest (j - k)) end
  end.

Lemma started_mono sizes : forall j j', (j <= j')%nat -> (started sizes j <= started sizes j')%nat.
Proof.
  induction sizes as [|k rest IH]; intros j j' H; [cbn; lia|]. cbn [started].
  destruct j as [|j0]; [lia|]. destruct j' as [|j0']; [lia|].
  apply le_n_S. apply IH. lia.
Qed.

Lemma started_le sizes j : (started sizes j <= length sizes)%nat.
Proof.
  revert j. induction sizes as [|k rest IH]; intros j; [cbn; lia|]. cbn [started length].
  destruct j; [lia|]. apply le_n_S. apply IH.
Qed.

(* records per row operation *)
Fixpoint insert_sizes (s : store) (name : string) (cols : list string) (rows : list (list value)) : list nat :=
  match rows with
  | [] => []
  | r :: rest => match st_insert s name cols r with
                 | (s1, Ok ws) => length ws :: insert_sizes s1 name cols rest
                 | _ => []
                 end
  end.

Fixpoint update_sizes (s : store) (name : string) (cols : list string) (vals : list value) (ids : list N) : list nat :=
  match ids with
  | [] => []
  | k :: rest => match st_update s name k cols vals with
                 | (s1, Ok ws) => length ws :: update_sizes s1 name cols vals rest
                 | _ => []
                 end
  end.

Fixpoint delete_sizes (s : store) (name : string) (ids : list N) : list nat :=
  match ids with
  | [] => []
  | k :: rest => match st_delete s name k with
                 | (s1, Ok ws) => length ws :: delete_sizes s1 name rest
                 | _ => []
                 end
  end.

(* ---------- the state reached after a prefix of the records ---------- *)
(* a is the state after the first i row operations (S), exactly or with one catalog page carrying
   the LSN of the insert record instead of the update record's: re-stamping that cell gives S *)
Definition prefix_state (a S : store) : Prop :=
  Good a /\ seqL a S /\
  (seq a S \/ exists pg key bs lsn, seq (set_forest a (touch_forest pg key lsn (upd_fun bs) (forest a))) S).

Lemma prefix_state_rel a S : Rel a S -> prefix_state a S.
Proof. intros [A B C]. split; [exact B|]. split; [apply seq_seqL; exact A | left; exact A]. Qed.

(* one row insert, record by record *)
Lemma redo_st_insert_detail a b name cols vals b2 ws :
  Rel a b -> row_move_ok b name cols vals -> st_insert b name cols vals = (b2, Ok ws) ->
  (exists w a2, ws = [w] /\ replay_one a w = RCont a2 /\ Rel a2 b2) \/
  (exists w w2 ah a2, ws = [w; w2] /\ replay_one a w = RCont ah /\ replay_one ah w2 = RCont a2 /\
                      Rel a2 b2 /\ prefix_state ah b2).
Proof.
  intros HR Hok Hst.
  destruct (st_insert_shape _ _ _ _ _ _ Hst) as (off & bs & b1 & k & lsn & nr & Hsys & Hpre & Hbt & Hcase).
  unfold row_move_ok in Hok. rewrite Hsys, Hpre, Hbt in Hok.
  destruct (redo_insert a b off bs b1 k lsn nr HR Hbt) as (Hl & Hnl & a1 & HR1 & Hlt & Hrep).
  destruct Hcase as [(-> & -> & ->)|(Hne & ws' & Hup & ->)].
  - rewrite N.eqb_refl in Hrep. left. eauto.
  - apply N.eqb_neq in Hne. rewrite Hne in Hrep, Hok.
    destruct (redo_root_move_pair a1 b1 off nr name lsn b2 ws' HR1 Hlt Hnl Hok Hup)
      as (w2 & ah & a2 & -> & Hrm & Hr2 & HR2 & pg & key & bs' & Ew2 & HRh & Hf2 & Hp2 & Hn2).
    right. exists (mkWal OpInsert lsn off k bs), w2, ah, a2. split; [reflexivity|].
    split; [rewrite Hrep; unfold after_root_move; rewrite Hrm; reflexivity|].
    split; [exact Hr2|]. split; [exact HR2|].
    pose proof (seq_seqL _ _ (rel_seq _ _ HRh)) as [L _ _].
    destruct HRh as [[Sf Sp Sn] Gah _]. cbn [set_forest forest ptRoot nextFree] in Sf, Sp, Sn.
    split; [exact Gah|]. split.
    + constructor; [|congruence|congruence].
      cbn [set_forest forest] in L. rewrite L, Hf2. apply erase_touch_forest_lsn.
    + right. exists pg, key, bs', (lsn + 1). constructor; cbn [set_forest forest ptRoot nextFree]; [|congruence|congruence].
      rewrite Hf2, (fclean_touch_forest pg key (lsn + 1) (upd_fun bs') _ _ Sf).
      rewrite touch_forest_twice by (apply upd_fun_key || apply upd_fun_idem). reflexivity.
Qed.

Lemma firstn_S_cons {A} (x : A) l n : firstn (S n) (x :: l) = x :: firstn n l.
Proof. reflexivity. Qed.

Lemma prefix_insert_rows rows : forall a b name cols batch n b' B m,
  Rel a b -> rows_move_ok b name cols rows ->
  insert_rows b name cols rows batch n = (b', B, OOk m) ->
  exists ws, B = batch ++ ws /\ forall j, exists a_j,
    replay a (firstn j ws) = RCont a_j /\
    prefix_state a_j
      (fst (fst (insert_rows b name cols (firstn (started (insert_sizes b name cols rows) j) rows) [] 0))).
Proof.
  induction rows as [|r rest IH]; intros a b name cols batch n b' B m HR Hok H.
  - cbn in H. inversion H; subst. exists []. split; [rewrite app_nil_r; reflexivity|].
    intros j. exists a. rewrite firstn_nil. split; [reflexivity|]. cbn. apply prefix_state_rel. exact HR.
  - cbn [insert_rows] in H. cbn [rows_move_ok] in Hok. destruct Hok as [Hok1 Hok2].
    cbn [insert_sizes].
    destruct (st_insert b name cols r) as [b1 [ws1|e|]] eqn:Est; try discriminate.
    assert (Hstore : forall i, fst (fst (insert_rows b name cols (firstn (S i) (r :: rest)) [] 0)) =
                               fst (fst (insert_rows b1 name cols (firstn i rest) [] 0))).
    { intros i. rewrite firstn_S_cons. cbn [insert_rows]. rewrite Est. apply insert_rows_store. }
    destruct (redo_st_insert_detail a b name cols r b1 ws1 HR Hok1 Est)
      as [(w & a1 & -> & Hr1 & HR1)|(w & w2 & ah & a2 & -> & Hr1 & Hr2 & HR2 & Hhalf)].
    + destruct (IH a1 b1 name cols (batch ++ [w]) (S n) b' B m HR1 Hok2 H) as (ws2 & EB & Hpre).
      exists ([w] ++ ws2). split; [rewrite EB, app_assoc; reflexivity|].
      intros [|j0].
      * exists a. split; [reflexivity|]. cbn. apply prefix_state_rel. exact HR.
      * destruct (Hpre j0) as (a_j & A & Bp). exists a_j. cbn [app firstn replay length started]. rewrite Hr1.
        split; [exact A|]. rewrite Nat.sub_0_r, Hstore. exact Bp.
    + destruct (IH a2 b1 name cols (batch ++ [w; w2]) (S n) b' B m HR2 Hok2 H) as (ws2 & EB & Hpre).
      exists ([w; w2] ++ ws2). split; [rewrite EB, app_assoc; reflexivity|].
      intros [|[|j1]].
      * exists a. split; [reflexivity|]. cbn. apply prefix_state_rel. exact HR.
      * exists ah. cbn [app firstn replay length started]. rewrite Hr1. split; [reflexivity|].
        change (1 - 2)%nat with O. destruct (insert_sizes b1 name cols rest); cbn [started]; rewrite Hstore; cbn [firstn insert_rows fst]; exact Hhalf.
      * destruct (Hpre j1) as (a_j & A & Bp). exists a_j. cbn [app firstn replay length started]. rewrite Hr1, Hr2.
        split; [exact A|]. change (S (S j1) - 2)%nat with (j1 - 0)%nat. rewrite Nat.sub_0_r, Hstore. exact Bp.
Qed.

Lemma prefix_update_rows ids : forall a b name cols vals batch b' B m,
  Rel a b -> update_rows b name cols vals ids batch = (b', B, OOk m) ->
  exists ws, B = batch ++ ws /\ forall j, exists a_j,
    replay a (firstn j ws) = RCont a_j /\
    prefix_state a_j
      (fst (fst (update_rows b name cols vals (firstn (started (update_sizes b name cols vals ids) j) ids) []))).
Proof.
  induction ids as [|k rest IH]; intros a b name cols vals batch b' B m HR H.
  - cbn in H. inversion H; subst. exists []. split; [rewrite app_nil_r; reflexivity|].
    intros j. exists a. rewrite firstn_nil. split; [reflexivity|]. cbn. apply prefix_state_rel. exact HR.
  - cbn [update_rows] in H. cbn [update_sizes].
    destruct (st_update b name k cols vals) as [b1 [ws1|e|]] eqn:Est; try discriminate.
    assert (Hstore : forall i, fst (fst (update_rows b name cols vals (firstn (S i) (k :: rest)) [])) =
                               fst (fst (update_rows b1 name cols vals (firstn i rest) []))).
    { intros i. rewrite firstn_S_cons. cbn [update_rows]. rewrite Est. apply update_rows_store. }
    destruct (redo_st_update a b name k cols vals b1 ws1 HR Est) as (a1 & Hr1 & HR1).
    destruct (IH a1 b1 name cols vals (batch ++ ws1) b' B m HR1 H) as (ws2 & EB & Hpre).
    exists (ws1 ++ ws2). split; [rewrite EB, app_assoc; reflexivity|].
    destruct (st_update_shape _ _ _ _ _ _ _ (rel_gb _ _ HR) Est) as [(-> & ->)|(pg & bs & _ & _ & _ & ->)].
    + (* no such row: nothing logged *)
      cbn [replay] in Hr1. inversion Hr1; subst a1. intros [|j0].
      * exists a. split; [reflexivity|]. cbn. apply prefix_state_rel. exact HR.
      * destruct (Hpre (S j0)) as (a_j & A & Bp). exists a_j. cbn [app length started]. split; [exact A|].
        rewrite Nat.sub_0_r, Hstore. exact Bp.
    + cbn [replay] in Hr1. destruct (replay_one a _) as [a1'| | |] eqn:E1; try discriminate. inversion Hr1; subst a1'.
      intros [|j0].
      * exists a. split; [reflexivity|]. cbn. apply prefix_state_rel. exact HR.
      * destruct (Hpre j0) as (a_j & A & Bp). exists a_j. cbn [app firstn replay length started]. rewrite E1.
        split; [exact A|]. rewrite Nat.sub_0_r, Hstore. exact Bp.
Qed.

Lemma prefix_delete_rows ids : forall a b name batch n b' B m,
  Rel a b -> delete_rows b name ids batch n = (b', B, OOk m) ->
  exists ws, B = batch ++ ws /\ forall j, exists a_j,
    replay a (firstn j ws) = RCont a_j /\
    prefix_state a_j
      (fst (fst (delete_rows b name (firstn (started (delete_sizes b name ids) j) ids) [] 0))).
Proof.
  induction ids as [|k rest IH]; intros a b name batch n b' B m HR H.
  - cbn in H. inversion H; subst. exists []. split; [rewrite app_nil_r; reflexivity|].
    intros j. exists a. rewrite firstn_nil. split; [reflexivity|]. cbn. apply prefix_state_rel. exact HR.
  - cbn [delete_rows] in H. cbn [delete_sizes].
    destruct (st_delete b name k) as [b1 [ws1|e|]] eqn:Est; try discriminate.
    assert (Hstore : forall i, fst (fst (delete_rows b name (firstn (S i) (k :: rest)) [] 0)) =
                               fst (fst (delete_rows b1 name (firstn i rest) [] 0))).
    { intros i. rewrite firstn_S_cons. cbn [delete_rows]. rewrite Est. apply delete_rows_store. }
    destruct (redo_st_delete a b name k b1 ws1 HR Est) as (a1 & Hr1 & HR1).
    destruct (IH a1 b1 name (batch ++ ws1) (S n) b' B m HR1 H) as (ws2 & EB & Hpre).
    exists (ws1 ++ ws2). split; [rewrite EB, app_assoc; reflexivity|].
    destruct (st_delete_shape _ _ _ _ _ Est) as (pg & _ & _ & ->).
    cbn [replay] in Hr1. destruct (replay_one a _) as [a1'| | |] eqn:E1; try discriminate. inversion Hr1; subst a1'.
    intros [|j0].
    + exists a. split; [reflexivity|]. cbn. apply prefix_state_rel. exact HR.
    + destruct (Hpre j0) as (a_j & A & Bp). exists a_j. cbn [app firstn replay length started]. rewrite E1.
      split; [exact A|]. rewrite Nat.sub_0_r, Hstore. exact Bp.
Qed.

(* ---------- whole statements ---------- *)
Definition upd_vals (sets : list (string * vexpr)) : list value :=
  map (fun sv => match snd sv with XLit v => v | _ => VNull end) sets.

(* the store after only the first i row operations of a statement *)
Definition run_rows (s : store) (st : stmt) (i : nat) : store :=
  match st with
  | SInsert name cols rows => fst (fst (insert_rows s name cols (firstn i rows) [] 0))
  | SUpdate name sets w =>
      match where_ids s name w with
      | Ok ids => fst (fst (update_rows s name (map fst sets) (upd_vals sets) (firstn i ids) []))
      | _ => s
      end
  | SDelete name w =>
      match where_ids s name w with
      | Ok ids => fst (fst (delete_rows s name (firstn i ids) [] 0))
      | _ => s
      end
  | _ => s
  end.

(* log records per row operation of the statement *)
Definition op_sizes (s : store) (st : stmt) : list nat :=
  match st with
  | SInsert name cols rows => insert_sizes s name cols rows
  | SUpdate name sets w =>
      match where_ids s name w with
      | Ok ids => update_sizes s name (map fst sets) (upd_vals sets) ids
      | _ => []
      end
  | SDelete name w =>
      match where_ids s name w with Ok ids => delete_sizes s name ids | _ => [] end
  | _ => []
  end.

Theorem prefix_stmt a b st m :
  Rel a b -> is_dml st = true -> stmt_moves_ok b st -> e_out (run_stmt b st) = OOk m ->
  forall j, exists a_j,
    replay a (firstn j (e_batch (run_stmt b st))) = RCont a_j /\
    prefix_state a_j (run_rows b st (started (op_sizes b st) j)).
Proof.
  intros HR Hd Hok Hout. destruct st; try discriminate; cbn [run_stmt run_rows op_sizes] in *.
  - destruct (insert_rows b table cols rows [] 0) as [[b' B] o] eqn:E. cbn [e_out e_batch] in *. subst o.
    destruct (prefix_insert_rows rows a b table cols [] 0%nat b' B m HR Hok E) as (ws & -> & Hp). exact Hp.
  - destruct (existsb _ sets); [discriminate|].
    destruct (where_ids b table where_) as [ids|e|]; try discriminate.
    fold (upd_vals sets) in *.
    destruct (update_rows b table _ _ ids []) as [[b' B] o] eqn:E. cbn [e_out e_batch] in *. subst o.
    destruct (prefix_update_rows ids a b table _ _ [] b' B m HR E) as (ws & -> & Hp). exact Hp.
  - destruct (where_ids b table where_) as [ids|e|]; try discriminate.
    destruct (delete_rows b table ids [] 0) as [[b' B] o] eqn:E. cbn [e_out e_batch] in *. subst o.
    destruct (prefix_delete_rows ids a b table [] 0%nat b' B m HR E) as (ws & -> & Hp). exact Hp.
Qed.

(* ---------- at the level of the durable system ---------- *)
Theorem crash_in_log y st m j :
  Inv y -> is_dml st = true -> stmt_moves_ok (mem y) st -> e_out (run_stmt (mem y) st) = OOk m ->
  exists y',
    step y (EvCrashInLog st j) = (SOk y', None) /\
    wal y' = wal y ++ firstn j (e_batch (run_stmt (mem y) st)) /\ disk y' = mem y' /\
    prefix_state (mem y') (run_rows (mem y) st (started (op_sizes (mem y) st) j)) /\
    abs (mem y') = abs (run_rows (mem y) st (started (op_sizes (mem y) st) j)).
Proof.
  intros (r & Hrep & Hseq & Gr & [Gm Lm]) Hd Hmv Hout.
  destruct (redo_stmt r (mem y) st m (mkRel _ _ Hseq Gr Gm) Hd Hmv Hout) as (_ & _ & _ & Hfl).
  destruct (prefix_stmt r (mem y) st m (mkRel _ _ Hseq Gr Gm) Hd Hmv Hout j) as (a_j & Hr & Gj & Lj & Dj).
  cbn [step]. rewrite Hout, Hfl. cbn [is_ok]. unfold recover. cbn [disk wal].
  rewrite (replay_app _ _ _ _ Hrep), Hr.
  eexists. split; [reflexivity|]. cbn [mem disk wal]. split; [reflexivity|]. split; [reflexivity|].
  assert (Sf : seq (flush a_j) a_j) by apply seq_flush.
  split; [|apply seqL_abs; eapply seqg_trans; [apply seq_seqL; exact Sf | exact Lj]].
  split; [apply good_flush; exact Gj|]. split; [eapply seqg_trans; [apply seq_seqL; exact Sf | exact Lj]|].
  destruct Dj as [D|(pg & key & bs & lsn & D)]; [left; eapply seq_trans; eauto|].
  right. exists pg, key, bs, lsn. eapply seq_trans; [|exact D].
  destruct Sf as [F P N]. constructor; cbn [set_forest forest ptRoot nextFree]; auto.
  apply fclean_touch_forest. exact F.
Qed.
