(* The structural invariant of every store the relation / engine layer can reach (C11 lifted
   to several trees sharing one file): each tree well formed, no page shared, every key and
   separator at most lastKey, every page below nextFreeOffset. Proved for the primitives
   (bt_insert, touch_forest, create_page, flush) and then for every statement. *)
From Coq Require Import Arith Lia Bool List NArith Permutation.
From Mkdb Require Import Model.Engine Proofs.TreeProofs Gen.Params.
Import ListNotations.
Local Open Scope N_scope.

Lemma ML_ge : (2 <= ML)%nat.
Proof. apply Nat.leb_le. vm_compute. reflexivity. Qed.
Lemma MI_ge : (3 <= MI)%nat.
Proof. apply Nat.leb_le. vm_compute. reflexivity. Qed.
Lemma PS_pos : 0 < PS.
Proof. vm_compute. reflexivity. Qed.

Definition all_offsets (f : list tree) : list N := flat_map offsets_of f.

Record SInv (s : store) : Prop := mkSInv {
  si_wft : Forall (WFT ML MI (nextFree s)) (forest s);
  si_nodup : NoDup (all_offsets (forest s));
  si_keys : Forall (fun t => Forall (fun x => x <= lastKey s) (tree_keys t)) (forest s)
}.

Lemma WFT_mono free free' t : free <= free' -> WFT ML MI free t -> WFT ML MI free' t.
Proof.
  intros Hle [A B C D]. constructor; auto. eapply Forall_impl; [|exact D]. cbn. intros; lia.
Qed.

(* ---------- locating a tree in the forest ---------- *)
Lemma find_root_split off f t :
  find_root off f = Some t ->
  exists l1 l2, f = l1 ++ t :: l2 /\ t_off t = off /\ replace_root off t f = f /\
                forall t', replace_root off t' f = l1 ++ t' :: l2.
Proof.
  unfold find_root. induction f as [|a f IH]; cbn [find replace_root]; [discriminate|].
  destruct (N.eqb_spec (t_off a) off) as [E|E]; intros H.
  - inversion H; subst a. exists [], f. repeat split; auto.
  - destruct (IH H) as (l1 & l2 & -> & Ho & Hr & Hall). exists (a :: l1), l2.
    repeat split; auto.
    + cbn [app]. f_equal. exact Hr.
    + intros t'. cbn [app]. f_equal. apply Hall.
Qed.

Lemma all_offsets_app a b : all_offsets (a ++ b) = all_offsets a ++ all_offsets b.
Proof. unfold all_offsets. apply flat_map_app. Qed.

Lemma NoDup_swap_middle (a b b' c : list N) :
  NoDup (a ++ b ++ c) -> NoDup b' ->
  (forall x, In x b' -> In x b \/ (~ In x a /\ ~ In x c)) ->
  NoDup (a ++ b' ++ c).
Proof.
  intros H Hb' Hsrc.
  apply NoDup_app_inv in H as (Ha & Hbc & Hd1). apply NoDup_app_inv in Hbc as (Hb & Hc & Hd2).
  induction a as [|x a IH]; cbn [app].
  - clear Hd1 Ha. induction b' as [|y b' IHb]; cbn [app]; [exact Hc|].
    inversion Hb' as [|? ? Hny Hb'']; subst. constructor.
    + intros Hin. apply in_app_or in Hin as [Hin|Hin]; [contradiction|].
      destruct (Hsrc y (or_introl eq_refl)) as [Hy|[_ Hy]]; [eapply Hd2; eauto | contradiction].
    + apply IHb; auto. intros z Hz. apply Hsrc. right. exact Hz.
  - inversion Ha as [|? ? Hnx Ha']; subst. constructor.
    + intros Hin. apply in_app_or in Hin as [Hin|Hin]; [contradiction|].
      apply in_app_or in Hin as [Hin|Hin].
      * destruct (Hsrc x Hin) as [Hy|[Hy _]].
        -- apply (Hd1 x); [left; reflexivity | apply in_or_app; left; exact Hy].
        -- apply Hy. left. reflexivity.
      * apply (Hd1 x); [left; reflexivity | apply in_or_app; right; exact Hin].
    + apply IH; auto.
      * intros y Hy Hyin. apply (Hd1 y); [right; exact Hy | exact Hyin].
      * intros y Hy. destruct (Hsrc y Hy) as [H1|[H1 H2]]; [left; exact H1|].
        right. split; [|exact H2]. intros Hin. apply H1. right. exact Hin.
Qed.

Lemma all_offsets_bound f free :
  Forall (WFT ML MI free) f -> Forall (fun o => o < free) (all_offsets f).
Proof.
  induction 1 as [|t f Ht _ IH]; cbn [all_offsets flat_map]; [constructor|].
  apply Forall_app. split; [apply Ht | exact IH].
Qed.

(* ---------- BTree.insert ---------- *)
Lemma tree_insert_too_large t k lsn v free :
  (MV < length v)%nat -> exists e, tree_insert ML MI PS MV t k lsn v free = TErr e.
Proof.
  intros H. unfold tree_insert. destruct (key_exists k t); [eauto|].
  destruct (negb (on_right_spine k t)); [eauto|].
  destruct (Nat.ltb_spec MV (length v)); [eauto | lia].
Qed.

Lemma bt_insert_inv s root v : SInv s -> SInv (fst (bt_insert s root v)).
Proof.
  intros [Hw Hn Hk]. unfold bt_insert, get_tree.
  destruct (find_root root (forest s)) as [t|] eqn:Ef; [|cbn; constructor; auto].
  destruct (find_root_split _ _ _ Ef) as (l1 & l2 & Hf & Ho & _ & Hrep).
  assert (Ht_w : WFT ML MI (nextFree s) t).
  { rewrite Forall_forall in Hw. apply Hw. rewrite Hf. apply in_or_app; right; left; reflexivity. }
  assert (Ht_k : Forall (fun x => x < lastKey s + 1) (tree_keys t)).
  { rewrite Forall_forall in Hk. eapply Forall_impl; [|apply Hk; rewrite Hf; apply in_or_app; right; left; reflexivity].
    cbn. intros; lia. }
  assert (Hkeys' : Forall (fun t0 => Forall (fun x => x <= lastKey s + 1) (tree_keys t0)) (forest s)).
  { eapply Forall_impl; [|exact Hk]. cbn. intros t0 H0. eapply Forall_impl; [|exact H0]. cbn; intros; lia. }
  destruct (tree_insert ML MI PS MV t (lastKey s + 1) (nextLSN s) v (nextFree s)) as [[t' nf]|e] eqn:Ei.
  - cbn [fst].
    destruct (Nat.leb_spec (length v) MV) as [Hlen|Hlen].
    2:{ destruct (tree_insert_too_large t (lastKey s + 1) (nextLSN s) v (nextFree s) Hlen) as [e He]. congruence. }
    destruct (tree_insert_ok ML MI PS MV ML_ge MI_ge PS_pos (nextFree s) t (lastKey s + 1) (nextLSN s) v Ht_w Ht_k Hlen)
      as (t2 & f2 & E2 & W2 & C2 & K2 & F2 & O2).
    rewrite Ei in E2. inversion E2; subst t2 f2. clear E2.
    rewrite Hrep. constructor; cbn [forest nextFree lastKey].
    + rewrite Hf in Hw. apply Forall_app in Hw as [H1 H2]. inversion H2 as [|? ? _ H3]; subst.
      apply Forall_app. split; [eapply Forall_impl; [|exact H1]; intros; eapply WFT_mono; eauto|].
      constructor; [exact W2|]. eapply Forall_impl; [|exact H3]. intros; eapply WFT_mono; eauto.
    + rewrite all_offsets_app. cbn [all_offsets flat_map]. fold (all_offsets l2).
      rewrite Hf, all_offsets_app in Hn. cbn [all_offsets flat_map] in Hn. fold (all_offsets l2) in Hn.
      apply (NoDup_swap_middle _ (offsets_of t)); auto; [apply W2|].
      intros x Hx. destruct (O2 x Hx) as [H|H]; [left; exact H|]. right.
      pose proof (all_offsets_bound _ _ Hw) as Hb. rewrite Hf, all_offsets_app in Hb.
      cbn [all_offsets flat_map] in Hb. fold (all_offsets l2) in Hb.
      apply Forall_app in Hb as [Hb1 Hb2]. apply Forall_app in Hb2 as [_ Hb2].
      rewrite Forall_forall in Hb1, Hb2.
      split; intros Hin; [specialize (Hb1 x Hin) | specialize (Hb2 x Hin)]; lia.
    + rewrite Hf in Hkeys'. apply Forall_app in Hkeys' as [H1 H2]. inversion H2 as [|? ? _ H3]; subst.
      apply Forall_app. split; [exact H1|]. constructor; [exact K2 | exact H3].
  - cbn [fst]. constructor; cbn [forest nextFree lastKey]; auto.
Qed.

(* ---------- in-place changes ---------- *)
Lemma touch_keys pg k lsn g t :
  (forall x, lc_key (g x) = lc_key x) -> tree_keys (touch_leaf pg k lsn g t) = tree_keys t.
Proof.
  intros Hg. unfold tree_keys. rewrite touch_seps. f_equal.
  rewrite touch_cells. unfold all_cells.
  induction (leaves t) as [|l L IH]; [reflexivity|].
  cbn [flat_map]. rewrite !keys_of_app, IH. f_equal.
  destruct (N.eqb (t_off l) pg); [apply map_cell_keys; exact Hg | reflexivity].
Qed.

Lemma touch_forest_offsets pg k lsn g f : all_offsets (touch_forest pg k lsn g f) = all_offsets f.
Proof.
  induction f as [|t f IH]; [reflexivity|]. cbn [touch_forest].
  destruct (has_page pg t); cbn [all_offsets flat_map].
  - rewrite touch_offsets. reflexivity.
  - fold (all_offsets f). fold (all_offsets (touch_forest pg k lsn g f)). rewrite IH. reflexivity.
Qed.

Lemma touch_forest_Forall (P : tree -> Prop) pg k lsn g f :
  (forall t, P t -> P (touch_leaf pg k lsn g t)) -> Forall P f -> Forall P (touch_forest pg k lsn g f).
Proof.
  intros HP. induction 1 as [|t f Ht Hf IH]; [constructor|]. cbn [touch_forest].
  destruct (has_page pg t); constructor; auto.
Qed.

Lemma touch_forest_inv s pg k lsn g :
  (forall x, lc_key (g x) = lc_key x) -> SInv s -> SInv (set_forest s (touch_forest pg k lsn g (forest s))).
Proof.
  intros Hg [Hw Hn Hk]. constructor; cbn [set_forest forest nextFree lastKey].
  - apply touch_forest_Forall; [|exact Hw]. intros t. apply touch_WFT. exact Hg.
  - rewrite touch_forest_offsets. exact Hn.
  - apply touch_forest_Forall; [|exact Hk]. intros t Ht. rewrite touch_keys by exact Hg. exact Ht.
Qed.

(* header-only changes *)
Lemma SInv_header s lk pt lsn :
  lastKey s <= lk -> SInv s -> SInv (mkStore (forest s) lk pt (nextFree s) lsn).
Proof.
  intros Hle [Hw Hn Hk]. constructor; cbn [forest nextFree lastKey]; auto.
  eapply Forall_impl; [|exact Hk]. cbn. intros t Ht. eapply Forall_impl; [|exact Ht]. cbn; intros; lia.
Qed.

Lemma touch_store_inv s pg k lsn g lsn' :
  (forall x, lc_key (g x) = lc_key x) -> SInv s ->
  SInv (mkStore (touch_forest pg k lsn g (forest s)) (lastKey s) (ptRoot s) (nextFree s) lsn').
Proof.
  intros Hg H. apply (touch_forest_inv s pg k lsn g Hg) in H.
  apply (SInv_header _ (lastKey s) (ptRoot s) lsn') in H; [exact H | cbn; lia].
Qed.

(* ---------- createPage ---------- *)
Lemma create_page_inv s : SInv s -> SInv (fst (create_page s)).
Proof.
  intros [Hw Hn Hk]. unfold create_page. cbn [fst]. constructor; cbn [forest nextFree lastKey].
  - apply Forall_app. split.
    + eapply Forall_impl; [|exact Hw]. intros t Ht. eapply WFT_mono; [|exact Ht]. pose proof PS_pos. lia.
    + constructor; [|constructor]. constructor.
      * exists O. cbn [wf]. repeat split; [constructor | constructor | pose proof ML_ge; cbn; lia].
      * cbn. auto.
      * cbn. constructor; [intros []|constructor].
      * cbn. constructor; [pose proof PS_pos; lia | constructor].
  - rewrite all_offsets_app. cbn [all_offsets flat_map offsets_of nodes map t_off app].
    pose proof (all_offsets_bound _ _ Hw) as Hb.
    assert (G : forall l, NoDup l -> Forall (fun o => o < nextFree s) l -> NoDup (l ++ [nextFree s])).
    { induction l as [|a l IH]; intros Hnd Hbd; cbn [app]; [constructor; [intros []|constructor]|].
      inversion Hnd; subst. inversion Hbd; subst. constructor; [|apply IH; auto].
      intros Hin. apply in_app_or in Hin as [Hin|[Hin|[]]]; [contradiction | lia]. }
    apply G; auto.
  - apply Forall_app. split; [exact Hk|]. constructor; [|constructor].
    unfold tree_keys. cbn. constructor.
Qed.

(* ---------- flush ---------- *)
Lemma clean_tree_node off l d kids rgt :
  clean_tree (TNode off l d kids rgt) =
  TNode off l false (map (fun sc => (fst sc, clean_tree (snd sc))) kids) (clean_tree rgt).
Proof.
  cbn [clean_tree]. f_equal. induction kids as [|[s c] r IH]; [reflexivity|].
  cbn [map fst snd]. f_equal. exact IH.
Qed.

Lemma clean_off t : t_off (clean_tree t) = t_off t.
Proof. destruct t; [reflexivity | rewrite clean_tree_node; reflexivity]. Qed.

Lemma clean_leaves t : leaves (clean_tree t) = map clean_tree (leaves t).
Proof.
  induction t as [off l d cells hl hr ls rs | off l d kids rgt IHk IHr] using tree_ind2; [reflexivity|].
  rewrite clean_tree_node, !leaves_node, map_app, IHr. f_equal.
  unfold kids_leaves. induction kids as [|[s c] r IH]; [reflexivity|].
  inversion IHk as [|? ? Hc Hr]; subst. cbn [snd] in Hc.
  cbn [map flat_map fst snd]. rewrite map_app, Hc, (IH Hr). reflexivity.
Qed.

Lemma clean_offsets t : offsets_of (clean_tree t) = offsets_of t.
Proof.
  induction t as [off l d cells hl hr ls rs | off l d kids rgt IHk IHr] using tree_ind2; [reflexivity|].
  rewrite clean_tree_node, !offsets_node, IHr. f_equal. f_equal.
  unfold kids_offsets. induction kids as [|[s c] r IH]; [reflexivity|].
  inversion IHk as [|? ? Hc Hr]; subst. cbn [snd] in Hc.
  cbn [map flat_map fst snd]. rewrite Hc, (IH Hr). reflexivity.
Qed.

Lemma clean_seps t : seps (clean_tree t) = seps t.
Proof.
  induction t as [off l d cells hl hr ls rs | off l d kids rgt IHk IHr] using tree_ind2; [reflexivity|].
  rewrite clean_tree_node, !seps_node, IHr. f_equal.
  unfold kids_seps. induction kids as [|[s c] r IH]; [reflexivity|].
  inversion IHk as [|? ? Hc Hr]; subst. cbn [snd] in Hc.
  cbn [map flat_map fst snd]. rewrite Hc, (IH Hr). reflexivity.
Qed.

Lemma clean_cells t : all_cells (clean_tree t) = all_cells t.
Proof.
  unfold all_cells. rewrite clean_leaves, flat_map_concat_map, map_map, <- flat_map_concat_map.
  apply flat_map_ext. intros l. destruct l; [reflexivity | rewrite clean_tree_node; reflexivity].
Qed.

Lemma clean_wf t : forall h lo hi, wf ML MI h lo hi t -> wf ML MI h lo hi (clean_tree t).
Proof.
  induction t as [off l d cells hl hr ls rs | off l d kids rgt IHk IHr] using tree_ind2; intros h lo hi H; [exact H|].
  destruct h as [|h']; [exfalso; exact (wf_node_O _ _ _ _ _ _ _ _ _ H)|].
  rewrite clean_tree_node. apply wf_node in H as (Hne & Hlen & Hk). apply wf_node.
  split; [destruct kids; [congruence|discriminate]|]. split; [rewrite map_length; exact Hlen|].
  clear Hne Hlen. revert lo Hk. induction kids as [|[s c] r IH]; intros lo Hk.
  - cbn in *. apply IHr. exact Hk.
  - cbn [wf_kids map fst snd] in *. destruct Hk as (A & B & C & D).
    inversion IHk as [|? ? Hc Hr]; subst. cbn [snd] in Hc. repeat split; auto.
Qed.

Lemma clean_linked l : forall p, linked p l -> linked p (map clean_tree l).
Proof.
  induction l as [|x r IH]; intros p H; [exact I|].
  cbn [map linked] in *. destruct x as [off a b c hl hr ls rs|]; [|contradiction].
  destruct H as (H1 & H2 & H3). cbn [clean_tree]. split; [exact H1|]. split.
  - destruct r as [|y r']; [exact H2|]. cbn [map]. rewrite clean_off. exact H2.
  - apply IH. exact H3.
Qed.

Lemma flush_inv s : SInv s -> SInv (flush s).
Proof.
  intros [Hw Hn Hk]. unfold flush. constructor; cbn [set_forest forest nextFree lastKey].
  - rewrite Forall_map. eapply Forall_impl; [|exact Hw]. intros t [[h Hs] Hl Hnd Hb]. constructor.
    + exists h. apply clean_wf. exact Hs.
    + rewrite clean_leaves. apply clean_linked. exact Hl.
    + rewrite clean_offsets. exact Hnd.
    + rewrite clean_offsets. exact Hb.
  - unfold all_offsets in *. rewrite flat_map_concat_map, map_map, <- flat_map_concat_map.
    erewrite flat_map_ext; [exact Hn|]. intros t. apply clean_offsets.
  - rewrite Forall_map. eapply Forall_impl; [|exact Hk]. intros t Ht.
    unfold tree_keys in *. rewrite clean_seps, clean_cells. exact Ht.
Qed.

(* ====================== every relation-layer operation keeps the invariant ====================== *)
Ltac break_match :=
  match goal with
  | |- context [match ?x with _ => _ end] => destruct x eqn:?
  end.

Lemma update_page_table_inv s newroot name : SInv s -> SInv (fst (update_page_table s newroot name)).
Proof.
  intros H. unfold update_page_table.
  repeat (break_match; cbn [fst]; try exact H).
  apply touch_store_inv; [reflexivity | exact H].
Qed.

Lemma insert_page_table_inv s pg name : SInv s -> SInv (fst (insert_page_table s pg name)).
Proof.
  intros H. unfold insert_page_table.
  destruct (encode_tuple _ _) as [bs|e|]; cbn [fst]; try exact H.
  pose proof (bt_insert_inv s (ptRoot s) bs H) as H1.
  destruct (bt_insert s (ptRoot s) bs) as [s1 [[[k l] nr]|e|]]; cbn [fst] in *; try exact H1.
  apply (SInv_header s1 (lastKey s1) nr (nextLSN s1)); [lia | exact H1].
Qed.

Lemma st_insert0_inv s name cols vals : SInv s -> SInv (fst (st_insert0 s name cols vals)).
Proof.
  intros H. unfold st_insert0. destruct (is_sys_table name); [exact H|].
  destruct (bind _ _) as [[off bs]|e|]; cbn [fst]; try exact H.
  pose proof (bt_insert_inv s off bs H) as H1.
  destruct (bt_insert s off bs) as [s1 [[[k l] nr]|e|]]; cbn [fst] in *; try exact H1.
  destruct (N.eqb nr off); cbn [fst]; [exact H1|].
  pose proof (update_page_table_inv s1 nr name H1) as H2.
  destruct (update_page_table s1 nr name) as [s2 [ws|e|]]; cbn [fst] in *; exact H2.
Qed.

Lemma st_insert_inv s name cols vals : SInv s -> SInv (fst (st_insert s name cols vals)).
Proof.
  intros H. unfold st_insert. destruct (ins_bad_cols _ _ _ _); [exact H | apply st_insert0_inv; exact H].
Qed.

Lemma st_update0_inv s name rowid cols vals : SInv s -> SInv (fst (st_update0 s name rowid cols vals)).
Proof.
  intros H. unfold st_update0. destruct (is_sys_table name); [exact H|].
  repeat (break_match; cbn [fst]; try exact H).
  apply touch_store_inv; [reflexivity | exact H].
Qed.

Lemma st_update_inv s name rowid cols vals : SInv s -> SInv (fst (st_update s name rowid cols vals)).
Proof.
  intros H. unfold st_update. destruct (upd_bad_cols _ _ _); [exact H | apply st_update0_inv; exact H].
Qed.

Lemma st_delete_inv s name rowid : SInv s -> SInv (fst (st_delete s name rowid)).
Proof.
  intros H. unfold st_delete. destruct (is_sys_table name); [exact H|].
  repeat (break_match; cbn [fst]; try exact H).
  apply touch_store_inv; [reflexivity | exact H].
Qed.

Lemma insert_schema_rows_inv fds : forall s root tname,
  SInv s -> SInv (fst (insert_schema_rows s root tname fds)).
Proof.
  induction fds as [|fd r IH]; intros s root tname H; [exact H|].
  cbn [insert_schema_rows].
  destruct (encode_tuple _ _) as [bs|e|]; cbn [fst]; try exact H.
  pose proof (bt_insert_inv s root bs H) as H1.
  destruct (bt_insert s root bs) as [s1 [[[k l] nr]|e|]]; cbn [fst] in *; try exact H1.
  destruct (N.eqb nr root); [apply IH; exact H1|].
  pose proof (update_page_table_inv s1 nr schemaTableName H1) as H2.
  destruct (update_page_table s1 nr schemaTableName) as [s2 [ws|e|]]; cbn [fst] in *; try exact H2.
  apply IH. exact H2.
Qed.

Lemma insert_schema_table_inv s tname fds : SInv s -> SInv (fst (insert_schema_table s tname fds)).
Proof.
  intros H. unfold insert_schema_table.
  destruct (bind _ _) as [off|e|]; cbn [fst]; try exact H.
  apply insert_schema_rows_inv. exact H.
Qed.

Lemma st_create_table0_inv s name fds : SInv s -> SInv (fst (st_create_table0 s name fds)).
Proof.
  intros H. unfold st_create_table0.
  destruct (rel_offset s name) as [o|e|]; cbn [fst]; try exact H.
  destruct e; cbn [fst]; try exact H.
  pose proof (create_page_inv s H) as H1. destruct (create_page s) as [s1 pg]. cbn [fst] in H1.
  pose proof (insert_page_table_inv s1 pg name H1) as H2.
  destruct (insert_page_table s1 pg name) as [s2 [u|e|]]; cbn [fst] in *; try exact H2.
  apply insert_schema_table_inv. exact H2.
Qed.

Lemma st_create_table_inv s name fds : SInv s -> SInv (fst (st_create_table s name fds)).
Proof.
  intros H. unfold st_create_table. destruct (names_distinct _); [|exact H].
  destruct (create_bad_rows s name fds); [exact H | apply st_create_table0_inv; exact H].
Qed.

(* the catalog-row check only ever refuses *)
Lemma create_bad_rows_not_ok s name fds u : create_bad_rows s name fds <> Some (Ok u).
Proof.
  unfold create_bad_rows. destruct (rel_offset s name) as [o|[]|]; try discriminate.
  destruct (check_catalog_rows name fds); discriminate.
Qed.

Lemma st_create_table_ok_inv s name fds s' u :
  st_create_table s name fds = (s', Ok u) ->
  names_distinct (map fd_name fds) = true /\ create_bad_rows s name fds = None /\
  st_create_table0 s name fds = (s', Ok u).
Proof.
  unfold st_create_table. destruct (names_distinct _); [|discriminate].
  destruct (create_bad_rows s name fds) as [r|] eqn:E; [|auto].
  intros H. inversion H; subst. exfalso. eapply create_bad_rows_not_ok; eauto.
Qed.

(* a refusal by the catalog-row check, or st_create_table0 *)
Lemma st_create_table_cases s name fds :
  st_create_table s name fds = st_create_table0 s name fds \/
  (fst (st_create_table s name fds) = s /\ forall u, snd (st_create_table s name fds) <> Ok u).
Proof.
  unfold st_create_table. destruct (names_distinct _); [|right; cbn; split; [reflexivity | discriminate]].
  destruct (create_bad_rows s name fds) as [r|] eqn:E; [|left; reflexivity].
  right. cbn [fst snd]. split; [reflexivity|]. intros u ->. eapply create_bad_rows_not_ok; eauto.
Qed.

Lemma insert_rows_inv rows : forall s name cols batch n,
  SInv s -> SInv (fst (fst (insert_rows s name cols rows batch n))).
Proof.
  induction rows as [|r rest IH]; intros s name cols batch n H; [exact H|].
  cbn [insert_rows]. pose proof (st_insert_inv s name cols r H) as H1.
  destruct (st_insert s name cols r) as [s1 [ws|e|]]; cbn [fst] in *; try exact H1.
  apply IH. exact H1.
Qed.

Lemma update_rows_inv ids : forall s name cols vals batch,
  SInv s -> SInv (fst (fst (update_rows s name cols vals ids batch))).
Proof.
  induction ids as [|k rest IH]; intros s name cols vals batch H; [exact H|].
  cbn [update_rows]. pose proof (st_update_inv s name k cols vals H) as H1.
  destruct (st_update s name k cols vals) as [s1 [ws|e|]]; cbn [fst] in *; try exact H1.
  apply IH. exact H1.
Qed.

Lemma delete_rows_inv ids : forall s name batch n,
  SInv s -> SInv (fst (fst (delete_rows s name ids batch n))).
Proof.
  induction ids as [|k rest IH]; intros s name batch n H; [exact H|].
  cbn [delete_rows]. pose proof (st_delete_inv s name k H) as H1.
  destruct (st_delete s name k) as [s1 [ws|e|]]; cbn [fst] in *; try exact H1.
  apply IH. exact H1.
Qed.

Lemma run_stmt_inv s st : SInv s -> SInv (e_store (run_stmt s st)).
Proof.
  intros H. destruct st; cbn [run_stmt e_store]; try exact H.
  - pose proof (st_create_table_inv s name (map fielddef_of cols) H) as H1.
    destruct (st_create_table s name (map fielddef_of cols)) as [s1 [u|e|]]; cbn [fst e_store] in *; try exact H1.
    apply flush_inv. exact H1.
  - destruct (first_err _ rows) as [u|e|]; cbn [e_store]; try exact H.
    pose proof (insert_rows_inv rows s table cols [] 0%nat H) as H1.
    destruct (insert_rows s table cols rows [] 0) as [[s1 b] o]. exact H1.
  - destruct (existsb _ sets); [exact H|].
    destruct (where_ids s table where_) as [ids|e|]; cbn [e_store]; try exact H.
    destruct (first_err _ ids) as [u|e|]; cbn [e_store]; try exact H.
    pose proof (update_rows_inv ids s table (map fst sets)
                 (map (fun sv => match snd sv with XLit v => v | _ => VNull end) sets) [] H) as H1.
    destruct (update_rows s table _ _ ids []) as [[s1 b] o]. exact H1.
  - destruct (where_ids s table where_) as [ids|e|]; cbn [e_store]; try exact H.
    pose proof (delete_rows_inv ids s table [] 0%nat H) as H1.
    destruct (delete_rows s table ids [] 0) as [[s1 b] o]. exact H1.
Qed.

Lemma create_db_inv : SInv (fst create_db).
Proof.
  assert (H0 : SInv empty_store).
  { constructor; cbn; constructor. }
  unfold create_db.
  pose proof (create_page_inv empty_store H0) as H1.
  destruct (create_page empty_store) as [s1 pt]. cbn [fst] in H1.
  set (s1' := mkStore (forest s1) (lastKey s1) pt (nextFree s1) (nextLSN s1)).
  assert (H1' : SInv s1') by (apply (SInv_header s1 (lastKey s1) pt (nextLSN s1)); [lia|exact H1]).
  pose proof (insert_page_table_inv s1' pt pageTableName H1') as H2.
  destruct (insert_page_table s1' pt pageTableName) as [s2 [u|e|]]; cbn [fst] in *; try exact H2.
  pose proof (create_page_inv s2 H2) as H3.
  destruct (create_page s2) as [s3 sc]. cbn [fst] in H3.
  pose proof (insert_page_table_inv s3 sc schemaTableName H3) as H4.
  destruct (insert_page_table s3 sc schemaTableName) as [s4 [u2|e|]]; cbn [fst] in *; try exact H4.
  pose proof (insert_schema_table_inv s4 pageTableName pageTableSchema H4) as H5.
  destruct (insert_schema_table s4 pageTableName pageTableSchema) as [s5 [u3|e|]]; cbn [fst] in *; try exact H5.
  pose proof (insert_schema_table_inv s5 schemaTableName schemaTableSchema H5) as H6.
  destruct (insert_schema_table s5 schemaTableName schemaTableSchema) as [s6 [u4|e|]]; cbn [fst] in *; try exact H6.
  apply flush_inv. exact H6.
Qed.

(* every state reachable by statements and flushes (no crash) satisfies the invariant, for the
   cache (mem) and for the data file (disk) *)
Definition no_crash (ev : event) : bool :=
  match ev with EvStmt _ | EvFlush => true | _ => false end.

Lemma step_inv y ev y' o :
  no_crash ev = true -> SInv (mem y) -> SInv (disk y) -> step y ev = (SOk y', o) ->
  SInv (mem y') /\ SInv (disk y').
Proof.
  intros Hnc Hm Hd Hs. destruct ev; try discriminate; cbn [step] in Hs.
  - unfold exec in Hs. pose proof (run_stmt_inv (mem y) st Hm) as H1.
    destruct (run_stmt (mem y) st) as [es eb ef eo]. cbn [e_store e_batch e_flushed e_out] in *.
    destruct eo; inversion Hs; subst; cbn [mem disk]; (split; [exact H1|]); destruct ef; auto.
  - inversion Hs; subst. cbn [do_flush mem disk]. split; apply flush_inv; exact Hm.
Qed.

Lemma run_events_inv evs : forall y y' os,
  forallb no_crash evs = true -> SInv (mem y) -> SInv (disk y) ->
  run_events y evs = (SOk y', os) -> SInv (mem y') /\ SInv (disk y').
Proof.
  induction evs as [|ev r IH]; intros y y' os Hnc Hm Hd Hr.
  - cbn in Hr. inversion Hr; subst. auto.
  - cbn [forallb] in Hnc. apply andb_true_iff in Hnc as [Hn1 Hn2]. cbn [run_events] in Hr.
    destruct (step y ev) as [[y1|e|] o] eqn:Es; try discriminate.
    destruct (step_inv y ev y1 o Hn1 Hm Hd Es) as [Hm1 Hd1].
    destruct (run_events y1 r) as [fin os'] eqn:Er. inversion Hr; subst.
    eapply IH; eauto.
Qed.

Theorem reachable_inv evs y os :
  forallb no_crash evs = true -> run_events init_sys evs = (SOk y, os) ->
  SInv (mem y) /\ SInv (disk y).
Proof.
  intros Hnc Hr. eapply run_events_inv; eauto; cbn [init_sys mem disk]; apply create_db_inv.
Qed.

(* tree-level theorems instantiated with the generated constants *)
Definition scan_right_leaves_okP := scan_right_leaves_ok ML MI PS ML_ge MI_ge PS_pos.
Definition scan_left_leaves_okP := scan_left_leaves_ok ML MI PS ML_ge MI_ge PS_pos.
Definition scan_right_okP := scan_right_ok ML MI PS ML_ge MI_ge PS_pos.
